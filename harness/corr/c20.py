"""C20 — bundled generators return exactly the requested bits, reproducibly.

Correspondence of Model/Rng.lean with paranoid_crypto/lib/randomness_tests/rng.py for every
name of the CURRENT registry, plus the property itself (0 <= r < 2^n, determinism under
repeated / interleaved calls) evaluated directly on every implementation result.

Known finding D5 (TruncLcgRand.RandomBits, n % 8 != 0): the model carries both behaviours;
a probe decides which one the implementation matches.  Only a finding listed in
known_findings.json is downgraded; everything else is a VIOLATION.
"""
import hashlib
import os
import random as pyrandom

import framework as fw
from framework import H, L, Batch, call

META = dict(
    trusted_base=[
        'os.urandom / hashlib.shake_128 / random.getrandbits / numpy Generator.bytes are oracles: '
        'theorems quantify over every answer of the right length (getrandbits: < 2^n); seeded ones are '
        're-derived independently in the harness, unseeded ones recorded at the call site',
        'Spec/JavaRandom.lean transcribes the Java SE documentation of java.util.Random '
        '(setSeed/next/nextBytes) and the OpenJDK reference code of BigInteger(int, Random)',
    ],
    assumptions=[
        'Model/Rng.lean mirrors randomness_tests/rng.py; tie checked by this correspondence run '
        '(every registry name, constructor models, seed=None paths through recorded os.urandom)',
        'purity: the models are functions of (generator, n, seed[, oracle]); statefulness of the Python '
        '(random.seed, numpy generator objects) is covered by repeated/interleaved calls here',
        'Urandom and SubsetSum ignore the seed by design (`del seed`); the determinism clause is not '
        'applicable to them and is not claimed',
    ])

D5_ID = 'D5'
D5_TEXT = 'D5 TruncLcgRand.RandomBits(n) >= 2^n for n % 8 != 0 (e.g. n=63)'
UNSEEDED = ('Urandom', 'SubsetSum')
EXACT = ('TruncLcgRand', 'XorShift128plus', 'XorShiftStar', 'Xorwow', 'JavaRandom', 'LcgNist', 'Mwc', 'Lehmer')
SEED_TRUTHY = ('XorShift128plus', 'XorShiftStar', 'Xorwow')   # `if seed:` — 0 behaves like None


def d5_listed():
  return any((f.get('property') == 'C20' or 'C20' in f.get('properties', [])) and f.get('id') == D5_ID
             for f in fw.load_known_findings())


def LEi(b):
  return int.from_bytes(b, 'little')


def BY(b):
  """bytes oracle token: len,hexLE."""
  return '%x,%x' % (len(b), LEi(b))


# ----------------------------------------------------------------------------
# call-site recording (module attributes of rng.py are replaced, /repo is untouched)

class OsProxy:

  def __init__(self, real):
    self._real = real
    self.log = []
    self.script = []      # scripted answers (adversarial oracle), consumed first

  def urandom(self, k):
    if self.script:
      b = self.script.pop(0)
      if callable(b):
        b = b(k)
      assert len(b) == k, (len(b), k)
    else:
      b = self._real.urandom(k)
    self.log.append(b)
    return b

  def __getattr__(self, a):
    return getattr(self._real, a)


class RandomProxy:

  def __init__(self, real):
    self._real = real
    self.log = []

  def getrandbits(self, n):
    r = self._real.getrandbits(n)
    self.log.append(r)
    return r

  def __getattr__(self, a):
    return getattr(self._real, a)


class ShakeRec:

  def __init__(self, real, log):
    self._h = real.shake_128()
    self._log = log

  def update(self, b):
    self._log.append(('update', bytes(b)))
    return self._h.update(b)

  def digest(self, k):
    d = self._h.digest(k)
    self._log.append(('digest', d))
    return d


class HashlibProxy:

  def __init__(self, real):
    self._real = real
    self.log = []

  def shake_128(self, *a):
    assert not a
    return ShakeRec(self._real, self.log)

  def __getattr__(self, a):
    return getattr(self._real, a)


class NumpyProxy:

  def __init__(self, real):
    self._real = real
    self.log = []

  def Generator(self, bg):
    outer = self
    g = self._real.Generator(bg)

    class G:

      def bytes(self, k):
        b = g.bytes(k)
        outer.log.append(b)
        return b

      def __getattr__(self, a):
        return getattr(g, a)
    return G()

  def __getattr__(self, a):
    return getattr(self._real, a)


class Patched:
  """Context: rng.os / rng.random / rng.hashlib / rng.numpy_random replaced by recorders."""

  def __init__(self, mod):
    self.mod = mod

  def __enter__(self):
    m = self.mod
    self.saved = (m.os, m.random, m.hashlib, m.numpy_random)
    self.os = m.os = OsProxy(m.os)
    self.random = m.random = RandomProxy(m.random)
    self.hashlib = m.hashlib = HashlibProxy(m.hashlib)
    self.numpy = m.numpy_random = NumpyProxy(m.numpy_random)
    return self

  def clear(self):
    for p in (self.os, self.random, self.hashlib, self.numpy):
      del p.log[:]
    del self.os.script[:]

  def __exit__(self, *a):
    m = self.mod
    m.os, m.random, m.hashlib, m.numpy_random = self.saved


# ----------------------------------------------------------------------------
# registry view

def kinds():
  from consts import rng as crng
  return {name: (cls, vals) for name, cls, vals in crng.registry()}


def shake_seed_bytes(seed):
  """independent statement of the seed encoding: two's complement, little endian,
  floor(bit_length/8)+1 bytes."""
  k = seed.bit_length() // 8 + 1
  return bytes(((seed >> (8 * i)) & 0xff) for i in range(k))


def indep_oracle(rngmod, name, cls, n, seed):
  """Oracle tokens for a SEEDED call of a wrapper, derived without the implementation."""
  import numpy
  k = (n + 7) // 8
  if cls == 'Shake128':
    return [BY(hashlib.shake_128(shake_seed_bytes(seed)).digest(k))]
  if cls == 'Mt19937':
    return [H(pyrandom.Random(seed).getrandbits(n)) if n > 0 else '0']
  if cls == 'NumpyRng':
    bg = rngmod.RNGS[name].bit_generator
    return [BY(numpy.random.Generator(bg(seed=seed)).bytes(k))]
  return []


def subsetsum_tokens(log, k):
  gens = [LEi(b) for b in log[:k]]
  sels = [LEi(b) for b in log[k:]]
  return [L(gens), L(sels)]


def effective_seed(cls, gen, log):
  """seed=None (or falsy seed) path of an exact generator: the seed/state the code derived
  from os.urandom, re-expressed as the seed that takes the seeded path to the same state."""
  if cls == 'TruncLcgRand':
    return LEi(log[0])
  if cls == 'XorShift128plus':
    return LEi(log[0]) * 2**64 + LEi(log[1])
  if cls == 'XorShiftStar':
    return LEi(log[0])
  if cls == 'Xorwow':
    return LEi(log[1]) * 2**160 + LEi(log[0])
  if cls == 'JavaRandom':
    return int.from_bytes(log[0], 'big')
  if cls == 'LcgNist':
    return LEi(log[-1])
  if cls == 'Mwc':
    return LEi(log[0]) % gen.ab1
  if cls == 'Lehmer':
    return LEi(log[-1]) % gen.mod
  raise KeyError(cls)


# ----------------------------------------------------------------------------
# the property on the implementation

def in_range(r, n):
  return isinstance(r, int) and not isinstance(r, bool) and 0 <= r < (1 << n)


def is_d5_class(cls, n):
  return cls == 'TruncLcgRand' and n % 8 != 0


def java_spec(n, seed):
  """new BigInteger(n, new java.util.Random(seed)) — Java semantics written out with signed
  32-bit `int` and arithmetic `>>=` (independent of rng.py and of the Lean model)."""
  m = (1 << 48) - 1
  s = (seed ^ 0x5DEECE66D) & m
  nb = (n + 7) // 8
  out = []
  while len(out) < nb:
    s = (s * 0x5DEECE66D + 0xB) & m
    rnd = s >> 16
    if rnd >= 2**31:
      rnd -= 2**32                      # (int) cast
    for _ in range(min(nb - len(out), 4)):
      out.append(rnd & 0xff)            # (byte) rnd, read back unsigned
      rnd >>= 8                         # arithmetic shift
  if nb > 0:
    out[0] &= (1 << (8 - (8 * nb - n))) - 1
  return int.from_bytes(bytes(out), 'big')


def trunclcg_spec(g, n, seed):
  """low n bits of the concatenation (first output least significant, whole bytes per output)
  of the high halves of successive LCG states."""
  k = g.output_size
  chunk = 8 * ((k + 7) // 8)
  x, acc, pos = seed, 0, 0
  while pos < n:
    x = (g.a * x + g.c) % 2**(2 * k)
    acc |= (x >> k) << pos
    pos += chunk
  return acc % 2**n


def make_pred(get_gen, cls, n, seed, d5_ok):
  """range + determinism (+ stream of the emulated generator) on the implementation for
  (generator, n, seed)."""
  def pred():
    g = get_gen()
    try:
      r1 = g.RandomBits(n, seed=seed)
    except Exception as e:  # noqa
      return 'RandomBits(%d, seed=%s) raised %r' % (n, seed, e)
    if not in_range(r1, n) and not (d5_ok and is_d5_class(cls, n) and in_range(r1, 8 * ((n + 7) // 8))):
      return 'RandomBits(%d, seed=%s) = %s is not in [0, 2^%d)' % (n, seed, hex(r1) if isinstance(r1, int) else repr(r1), n)
    if cls not in UNSEEDED and seed:
      g.RandomBits(n + 1, seed=seed + 1)
      r2 = g.RandomBits(n, seed=seed)
      if r1 != r2:
        return 'RandomBits(%d, seed=%s) not reproducible: %x then %x' % (n, seed, r1, r2)
    if cls == 'JavaRandom' and seed is not None and r1 != java_spec(n, seed):
      return ('JavaRandom.RandomBits(%d, seed=%s) = %x but new BigInteger(%d, new Random(seed)) = %x'
              % (n, seed, r1, n, java_spec(n, seed)))
    if cls == 'TruncLcgRand' and seed is not None and not (d5_ok and n % 8 != 0) and g.output_size > 0:
      if r1 != trunclcg_spec(g, n, seed):
        return ('TruncLcgRand(%d).RandomBits(%d, seed=%s) = %x is not the truncated-LCG stream %x'
                % (g.output_size, n, seed, r1, trunclcg_spec(g, n, seed)))
    return None
  return pred


def n_values(rng, tier):
  if tier == 'thorough':
    ns = list(range(1, 2049))
    big = [rng.randrange(2049, 65537) // 64 * 64 + r for r in range(64)]
  else:
    ns = list(range(1, 301))
    # every residue modulo 64 (hence modulo 8 and 32) once more between 301 and 2048
    ns += [(rng.randrange(320, 1985) // 64) * 64 + r for r in range(64)]
    ns += [2047, 2048]
    big = [rng.randrange(2049, 65000) // 64 * 64 + rng.choice([0, 8, 32, 24]) + r for r in range(8)]
    big += [65536]
  return sorted(set(ns)), sorted(set(b for b in big if b <= 65536 + 64))


def seeds_for(rng):
  return [
      rng.randrange(1, 2**16),
      rng.getrandbits(64) | 2**63,
      rng.getrandbits(rng.randrange(161, 300)) | 2**160,
  ]


BOUNDARY_SEEDS = [1, 2, 2**31 - 3, 2**31 - 2, 2**31 - 1, 2**31, 2**32, 2**48 - 1, 2**48, 2**63, 2**64 - 1, 2**64,
                  2**64 + 1, 3 * 2**64, 2**128 - 1, 2**128, 2**160 - 1, 2**160, 2**160 + 5, 2**192, 2**192 - 1,
                  (2**31 - 2) * 7, (2**31 - 2) * 7 + 1, 0x123456789ABD, 123456]


def direct_violation(rep, line, what, impl, info=None):
  rep.violations.append(dict(op='rng.bits', line=line, what=what, impl=impl, model=None, info=info))


# ----------------------------------------------------------------------------

def probe_variant(rep, rngmod, kd, rng):
  """Which TruncLcgRand behaviour does the implementation show on n % 8 != 0?"""
  lines, impl = [], []
  names = [nm for nm, (cls, _) in kd.items() if cls == 'TruncLcgRand']
  if not names:
    return 'repaired'
  for nm in names:
    for n in [1, 3, 7, 9, 15, 17, 31, 33, 62, 63, 65, 100, 127, 129, 250, 1001]:
      for seed in (123456, rng.getrandbits(200) | 1):
        lines.append('rng.bits %s pinned %s %s' % (nm, H(n), H(seed)))
        lines.append('rng.bits %s repaired %s %s' % (nm, H(n), H(seed)))
        impl.append(call(H, rngmod.RNGS[nm].RandomBits, n, seed=seed))
  out = fw.run_driver(lines)
  pin = all(out[2 * i] == impl[i] for i in range(len(impl)))
  rpr = all(out[2 * i + 1] == impl[i] for i in range(len(impl)))
  differ = sum(1 for i in range(len(impl)) if out[2 * i] != out[2 * i + 1])
  rep.extra['trunclcg_variant_probe'] = dict(cases=len(impl), variants_differ_on=differ,
                                             matches_pinned=pin, matches_repaired=rpr)
  rep.evaluations += len(impl)
  if pin and not rpr:
    return 'pinned'
  if rpr and not pin:
    return 'repaired'
  return 'neither'


def correspondence(rep, rng, tier):
  from paranoid_crypto.lib.randomness_tests import rng as rngmod
  kd = kinds()
  names = rngmod.RngNames()
  assert list(kd) == names
  rep.extra['registry'] = {nm: kd[nm][0] for nm in names}

  # --- D5: dual-variant probe
  variant = probe_variant(rep, rngmod, kd, rng)
  listed = d5_listed()
  d5_ok = False
  if variant == 'pinned' and listed:
    rep.known.append(D5_TEXT)
    d5_ok = True
    use = 'pinned'
  elif variant == 'pinned':
    rep.notes.append('implementation shows the D5 behaviour but D5 is not listed in known_findings.json: not downgraded')
    use = 'repaired'
  else:
    use = 'repaired'      # 'neither' → the main batch diverges and the predicate decides
  rep.extra['trunclcg_variant'] = variant

  ns, big = n_values(rng, tier)
  seeds = seeds_for(rng)
  rep.extra['n_values'] = dict(small=len(ns), large=big)
  rep.extra['seeds'] = [hex(s) for s in seeds]

  def check_direct(line, cls, n, r):
    if r.startswith('ok '):
      v = int(r[3:], 16)
      if not in_range(v, n) and not (d5_ok and is_d5_class(cls, n) and in_range(v, 8 * ((n + 7) // 8))):
        direct_violation(rep, line, 'result %x of %d requested bits is not below 2^%d' % (v, n, n), r)
    else:
      direct_violation(rep, line, 'RandomBits raised: ' + r, r)

  with Patched(rngmod) as P:
    # ------------------------------------------------------------------ main sweep
    b = Batch('rng.bits')
    first = {}

    def one(name, n, seed, tag_extra=''):
      cls, _ = kd[name]
      gen = rngmod.RNGS[name]
      P.clear()
      r = call(H, gen.RandomBits, n, seed=seed)
      if cls == 'Urandom':
        orc = [BY(P.os.log[0])] if P.os.log else []
      elif cls == 'SubsetSum':
        orc = subsetsum_tokens(P.os.log, gen.n)
      else:
        orc = indep_oracle(rngmod, name, cls, n, seed)
      line = ' '.join(['rng.bits', name, use, H(n), H(seed)] + orc)
      tag = '%s:%s%s' % (cls, 'n%8=0' if n % 8 == 0 else 'n%8!=0', tag_extra)
      b.add(line, r, tag=tag,
            pred=make_pred(lambda name=name: rngmod.RNGS[name], cls, n, seed, d5_ok))
      check_direct(line, cls, n, r)
      return r

    cases = []
    for n in ns + big:
      for seed in seeds:
        for name in names:
          cases.append((name, n, seed))
    # boundary seeds on a thinner set of n
    thin = [1, 7, 8, 9, 31, 32, 33, 63, 64, 65, 127, 128, 129, 160, 161, 257]
    bcases = []
    for seed in BOUNDARY_SEEDS + [-1, -2, -123456, -(2**64), -(2**64) - 1, -(2**160) + 3, -rng.getrandbits(200) - 1]:
      for n in thin:
        for name in names:
          if seed < 0 and kd[name][0] == 'NumpyRng':
            continue      # numpy rejects negative seeds (ValueError from SeedSequence)
          bcases.append((name, n, seed))
    for (name, n, seed) in cases:
      first[(name, n, seed)] = one(name, n, seed)
    for (name, n, seed) in bcases:
      first[(name, n, seed)] = one(name, n, seed, ':boundary-seed' if seed > 0 else ':negative-seed')
    rep.absorb(b, b.run())

    # ------------------------------------------------------------------ repeated / interleaved calls
    # second pass in another order: between the two evaluations of (A, n, seed) every other
    # generator (incl. random.seed and numpy users) has been called many times.
    allc = cases + bcases
    order = list(range(len(allc)))
    rng.shuffle(order)
    if tier != 'thorough':
      order = order[:max(6000, len(order) // 5)]
    nrep = 0
    for i in order:
      name, n, seed = allc[i]
      cls = kd[name][0]
      if cls in UNSEEDED:
        continue
      r2 = call(H, rngmod.RNGS[name].RandomBits, n, seed=seed)
      nrep += 1
      if r2 != first[(name, n, seed)]:
        direct_violation(rep, 'rng.bits %s %s %s %s' % (name, use, H(n), H(seed)),
                         'not reproducible under interleaved calls: first %s, later %s' % (first[(name, n, seed)], r2), r2)
    # A, B, A with an immediate neighbour
    for _ in range(300 if tier != 'thorough' else 3000):
      na, nb = rng.choice(names), rng.choice(names)
      if kd[na][0] in UNSEEDED:
        continue
      n, seed = rng.choice(ns), rng.choice(seeds)
      n2, seed2 = rng.choice(ns), rng.choice(seeds + [None])
      ga, gb = rngmod.RNGS[na], rngmod.RNGS[nb]
      r1 = ga.RandomBits(n, seed=seed)
      gb.RandomBits(n2, seed=seed2)
      r2 = ga.RandomBits(n, seed=seed)
      nrep += 1
      if r1 != r2:
        direct_violation(rep, 'rng.bits %s %s %s %s' % (na, use, H(n), H(seed)),
                         'A,B,A not reproducible (B=%s n=%d seed=%s): %x then %x' % (nb, n2, seed2, r1, r2), H(r2))
    rep.extra['repeated_calls_compared'] = nrep
    rep.evaluations += nrep

    # ------------------------------------------------------------------ seed=None / seed=0 paths
    b = Batch('rng.bits')
    for name in names:
      cls, _ = kd[name]
      gen = rngmod.RNGS[name]
      for n in [1, 5, 8, 13, 63, 64, 65, 100, 128, 200, 257] + [rng.randrange(1, 1200) for _ in range(6)]:
        for seed in (None, 0):
          P.clear()
          r = call(H, gen.RandomBits, n, seed=seed)
          if cls == 'Urandom':
            line = ['0', BY(P.os.log[0])]
          elif cls == 'SubsetSum':
            line = ['0'] + subsetsum_tokens(P.os.log, gen.n)
          elif cls == 'Shake128':
            # recorded digest, cross-checked against SHAKE128 of what the code must have absorbed
            msg = P.os.log[0] if seed is None else shake_seed_bytes(0)
            exp = hashlib.shake_128(msg).digest((n + 7) // 8)
            got = P.hashlib.log[-1][1]
            line = ['0', BY(got if (got == exp and len(msg) == (8 if seed is None else 1)) else exp + b'!')]
          elif cls == 'Mt19937':
            line = ['0', H(P.random.log[-1])]
          elif cls == 'NumpyRng':
            line = ['0', BY(P.numpy.log[-1])]
          elif cls not in EXACT:
            line = ['0']      # a class the model does not know: the driver answers unknown-kind
          elif seed is None or cls in SEED_TRUTHY:
            es = effective_seed(cls, gen, P.os.log)
            if es == 0 and cls in SEED_TRUTHY:
              continue
            line = [H(es)]
          else:
            line = ['0']
          ln = ' '.join(['rng.bits', name, use, H(n)] + line)
          b.add(ln, r, tag='%s:seed=%s' % (cls, seed),
                pred=make_pred(lambda name=name: rngmod.RNGS[name], cls, n, seed, d5_ok))
          check_direct(ln, cls, n, r)
    rep.absorb(b, b.run())

    # ------------------------------------------------------------------ adversarial oracles
    b = Batch('rng.bits')
    for name in names:
      cls, vals = kd[name]
      gen = rngmod.RNGS[name]
      if cls == 'Urandom':
        for n in list(range(1, 40)) + [63, 64, 65, 255, 256, 257, 1000]:
          for fill in (0xff, 0x00, 0x80, 0x01):
            P.clear()
            P.os.script.append(lambda k, fill=fill: bytes([fill]) * k)
            r = call(H, gen.RandomBits, n, seed=5)
            ln = 'rng.bits %s %s %s 5 %s' % (name, use, H(n), BY(P.os.log[0]))
            b.add(ln, r, tag='Urandom:adversarial', pred=None)
            check_direct(ln, cls, n, r)
      if cls == 'SubsetSum':
        bits, k = gen.bits, gen.n
        nb = bits // 8
        sl = (k + 7) // 8
        half = (1 << (bits - 1)).to_bytes(nb, 'little')
        allone = b'\xff' * nb
        for n in [1, 7, 8, bits - 1, bits, bits + 1, 2 * bits, 3 * bits - 5]:
          for gens, sels in (
              ([allone] * k, [b'\xff' * sl] * 8),                       # sum overflows 2^bits, masked
              ([half] * k, [b'\x00' * sl, b'\x03' + b'\x00' * (sl - 1)] * 6),   # skip zero; 2^bits → masked to 0
              ([half] * k, [b'\x01' + b'\x00' * (sl - 1)] * 8),
          ):
            P.clear()
            P.os.script.extend(list(gens) + list(sels))
            r = call(H, gen.RandomBits, n, seed=5)
            ln = ' '.join(['rng.bits', name, use, H(n), '5'] + subsetsum_tokens(P.os.log, k))
            b.add(ln, r, tag='SubsetSum:adversarial', pred=None)
            check_direct(ln, cls, n, r)
    rep.absorb(b, b.run())

  # ------------------------------------------------------------------ constructors, other parameters
  aux(rep, rng, tier, rngmod, use)

  # a failing input seen both directly and through a divergence is reported once
  seen, uniq = set(), []
  for v in rep.violations:
    if v['line'] not in seen:
      seen.add(v['line'])
      uniq.append(v)
  rep.violations[:] = uniq


def aux(rep, rng, tier, rngmod, use):
  """Constructor models, non-registry parameters, byte/bit primitives, seed encoding."""
  from consts import rng as crng
  b = Batch('rng.getrng')
  for nm in rngmod.RngNames() + ['', 'nope', 'URANDOM', 'trunclcg', 'mwc', 'lehmer128/32', 'java ']:
    if ' ' in nm or not nm:
      continue
    def fmt(g, nm=nm):
      assert g is rngmod.RNGS[nm]
      return crng.impl_class(g)
    b.add('rng.getrng %s' % nm, call(fmt, rngmod.GetRng, nm), tag='known' if nm in rngmod.RNGS else 'unknown')
  rep.absorb(b, b.run())

  b = Batch('rng.trunclcg_init')
  for k in list(range(0, 140)) + [200, 1000]:
    g = rngmod.TruncLcgRand(k)
    b.add('rng.trunclcg_init %s' % H(k), '%s %s' % (H(g.a), H(g.c)), tag='k<=128' if k <= 128 else 'k>128')
  rep.absorb(b, b.run())

  b = Batch('rng.trunclcg')
  for k in (0, 1, 7, 8, 9, 12, 24, 33, 100, 129, 200):
    g = rngmod.TruncLcgRand(k)
    for n in list(range(1, 70)) + [127, 128, 129, 500, 511, 512]:
      for seed in (123456, rng.getrandbits(300) | 1, -rng.getrandbits(70) - 1):
        r = call(H, g.RandomBits, n, seed=seed)
        b.add('rng.trunclcg %s %s %s %s %s %s' % (use, H(k), H(g.a), H(g.c), H(n), H(seed)), r,
              tag='k=%d' % k if k == 0 else ('k%8=0' if k % 8 == 0 else 'k%8!=0'))
  rep.absorb(b, b.run())

  b = Batch('rng.mwc_init')
  bm = Batch('rng.mwc')
  for bb in (0, 1, 2, 128, 255, 256, 257, 512, 2**15, 2**16, 2**16 + 2**8, 3 * 2**8, 2**24, 2**64, 2**63):
    for a in (0, 1, 5, 2**16 - 17, rng.getrandbits(64) | 1):
      try:
        g = rngmod.Mwc(a, bb)
        r = 'ok %s %s' % (H(g.ab1), H(g.output_bits))
      except Exception as e:  # noqa
        g = None
        r = 'err ' + type(e).__name__
      b.add('rng.mwc_init %s %s' % (H(a), H(bb)), r, tag=r[:2] if g is None else ('ok:ab1=%s' % ('neg' if g.ab1 < 0 else 'pos')))
      if g is not None:
        for n in (1, 7, 8, 9, 15, 16, 17, 24, 63, 64, 65, 100):
          for seed in (1, 123456, rng.getrandbits(100) | 1, -5):
            r = call(H, g.RandomBits, n, seed=seed)
            bm.add('rng.mwc %s %s %s %s' % (H(a), H(bb), H(n), H(seed)), r, tag=r[:3] + ('b=1' if bb == 1 else ''))
  rep.absorb(b, b.run())
  rep.absorb(bm, bm.run())

  b = Batch('rng.lehmer')
  for (a, m, bits) in ((3, 2**61 - 1, 8), (3, 2**61 - 1, 16), (48271, 2**31 - 1, 24), (7, 2**128, 64), (7, 10, 8),
                      (5, 2**64, 128), (3, 0, 8), (3, 7, 12), (3, 7, 4), (0, 7, 8), (3, 1, 8)):
    try:
      g = rngmod.Lehmer(a, m, bits)
    except Exception as e:  # noqa
      g = None
      err = 'err ' + type(e).__name__
    for n in (1, 7, 8, 9, 23, 24, 25, 63, 64, 65, 127, 128, 129, 200):
      for seed in (1, 123456, rng.getrandbits(130) | 1, -7):
        r = err if g is None else call(H, g.RandomBits, n, seed=seed)
        b.add('rng.lehmer %s %s %s %s %s' % (H(a), H(m), H(bits), H(n), H(seed)), r,
              tag=r[:3] + (':mod=0' if m == 0 else ''))
  rep.absorb(b, b.run())

  b = Batch('rng.lcgnist')
  for a in (950706376, 16807, 1, 0, 2**31 - 2, 2**40 + 3):
    g = rngmod.LcgNist(a)
    for n in (1, 2, 7, 8, 9, 16, 17, 100, 160):
      for seed in (1, 2, 23482349, 2**31 - 2, 2**31 - 1, 2**31, rng.getrandbits(90) | 1, -1, 0):
        r = call(H, g.RandomBits, n, seed=seed)
        b.add('rng.lcgnist %s %s %s' % (H(a), H(n), H(seed)), r, tag='default-a' if a == 950706376 else 'other-a')
  rep.absorb(b, b.run())

  b = Batch('rng.subsetsum')
  real_os = rngmod.os
  P = OsProxy(real_os)
  rngmod.os = P
  try:
    for (bits, k) in ((8, 3), (16, 9), (8, 8), (24, 1), (64, 17), (12, 3)):
      try:
        g = rngmod.SubsetSum(bits, k)
      except Exception as e:  # noqa
        for n in (1, 8):
          b.add('rng.subsetsum %s %s %s [] []' % (H(bits), H(k), H(n)), 'err ' + type(e).__name__, tag='ctor-error')
        continue
      for n in (1, 7, 8, 9, bits, bits + 1, 5 * bits - 3, 100):
        for _ in range(4):
          del P.log[:]
          r = call(H, g.RandomBits, n, seed=None)
          toks = subsetsum_tokens(P.log, k)
          b.add('rng.subsetsum %s %s %s %s %s' % (H(bits), H(k), H(n), toks[0], toks[1]), r,
                tag='recorded:skipped-zero' if (len(P.log) - k) > (n + bits - 1) // bits else 'recorded')
  finally:
    rngmod.os = real_os
  rep.absorb(b, b.run())

  boundary(rep, rng, tier, rngmod, use)

  # primitives
  b = Batch('rng.bitops')
  for _ in range(400):
    x = rng.getrandbits(rng.choice([3, 30, 64, 100])) * rng.choice([1, -1]) - rng.choice([0, 1])
    y = rng.getrandbits(rng.choice([3, 30, 48, 64, 100])) * rng.choice([1, -1]) - rng.choice([0, 1])
    sg = ('-' if x < 0 else '+') + ('-' if y < 0 else '+')
    b.add('rng.ixor %s %s' % (H(x), H(y)), H(x ^ y), tag='xor' + sg)
    b.add('rng.iand %s %s' % (H(x), H(y)), H(x & y), tag='and' + sg)
  for _ in range(200):
    k = rng.randrange(0, 20)
    x = rng.getrandbits(8 * k) if k else 0
    bs = x.to_bytes(k, 'little')
    b.add('rng.to_le %s %s' % (H(k), H(x)), L(bs), tag='to_le')
    b.add('rng.from_le %s' % L(bs), H(int.from_bytes(bs, 'little')), tag='from_le')
    b.add('rng.from_be %s' % L(bs), H(int.from_bytes(bs, 'big')), tag='from_be')
  rep.absorb(b, b.run())

  # Shake128 seed encoding: the bytes passed to shake.update() at the call site
  b = Batch('rng.shake_seed')
  hp = HashlibProxy(rngmod.hashlib)
  rngmod.hashlib = hp
  try:
    sds = [1, 127, 128, 255, 256, 32767, 32768, 2**63, 2**64 - 1, 2**64, -1, -127, -128, -129, -255, -256, -257,
           -32768, -32769, -(2**63), -(2**64), 123456, 0xABCDEF]
    sds += [rng.getrandbits(rng.randrange(1, 300)) * rng.choice([1, -1]) for _ in range(200)]
    g = rngmod.Shake128()
    for s in sds:
      del hp.log[:]
      g.RandomBits(9, seed=s)
      upd = [x[1] for x in hp.log if x[0] == 'update']
      b.add('rng.shake_seed %s' % H(s), L(upd[0]) if len(upd) == 1 else 'updates=%d' % len(upd),
            tag='neg' if s < 0 else 'pos')
  finally:
    rngmod.hashlib = hp._real
  rep.absorb(b, b.run())


# ----------------------------------------------------------------------------
# total correctness (Props/C20Total.lean): boundary constructor parameters, n = 0, hangs

class _Hang(Exception):
  pass


class _Exhausted(Exception):
  """scripted os.urandom answers used up: the while loop of SubsetSum is still running."""


def _outcome(f, secs=0.4, wall_backstop=120.0):
  """'ok <hex>' / 'err <ExcName>' / 'diverges' (no return within `secs` of CPU TIME of the calling thread, or
  scripted oracle exhausted).  Nothing may hang the check, and a loaded machine must not turn a slow call
  into a false `diverges` (review-2 L31: the limit used to be 0.4 s of WALL CLOCK).  A wall-clock tick
  (ITIMER_REAL every 50 ms) only POLLS; the limit is on time.thread_time() (CLOCK_THREAD_CPUTIME_ID: user +
  system time of this thread - the non-terminating loops of rng.py are busy loops: Lehmer's rejection loop
  computes, SubsetSum's reads os.urandom), so time during which the thread is not scheduled, and CPU burnt by
  native helper threads (BLAS pools), do not count; the calls probed here return within microseconds of CPU.
  `wall_backstop` seconds of wall clock only guard against a call that blocks without consuming CPU."""
  import signal
  import time
  c0, w0 = time.thread_time(), time.time()

  def on_tick(*_a):
    if time.thread_time() - c0 >= secs or time.time() - w0 >= wall_backstop:
      raise _Hang()
  old = signal.signal(signal.SIGALRM, on_tick)
  signal.setitimer(signal.ITIMER_REAL, 0.05, 0.05)
  try:
    try:
      r = f()
    finally:
      signal.setitimer(signal.ITIMER_REAL, 0)
    return 'ok ' + H(r)
  except (_Hang, _Exhausted):
    return 'diverges'
  except Exception as e:  # noqa
    return 'err ' + type(e).__name__
  finally:
    signal.setitimer(signal.ITIMER_REAL, 0)
    signal.signal(signal.SIGALRM, old)


# what the REAL code does outside the model's parameter type (negative parameters, negative n):
# the table in the header of Props/C20Total.lean, kept honest by `boundary` below.
NEGATIVE_EXPECTED = [
    # (description, constructor, n, seed, accepted outcomes)
    ('TruncLcgRand(-1) n=8', lambda m: m.TruncLcgRand(-1), 8, 5, {'err ZeroDivisionError'}),
    ('TruncLcgRand(-7) n=8', lambda m: m.TruncLcgRand(-7), 8, 5, {'err ZeroDivisionError'}),
    ('TruncLcgRand(-8) n=8', lambda m: m.TruncLcgRand(-8), 8, 5, {'err ValueError'}),
    ('TruncLcgRand(-8) n=9', lambda m: m.TruncLcgRand(-8), 9, 5, {'err IndexError', 'err ValueError'}),
    ('TruncLcgRand(-8) n=0', lambda m: m.TruncLcgRand(-8), 0, 5, {'err ValueError'}),
    ('Mwc(5,-256)', lambda m: m.Mwc(5, -256), 8, 5, {'err ValueError'}),
    ('Mwc(-3,256) n=9', lambda m: m.Mwc(-3, 256), 9, 5, {'ok f1'}),
    ('Lehmer(bits=-8) n=8', lambda m: m.Lehmer(bits=-8), 8, 5, {'err ValueError'}),
    ('Lehmer(bits=-8) n=0', lambda m: m.Lehmer(bits=-8), 0, 5, {'ok 0'}),
    ('Lehmer(mod=-7) n=9', lambda m: m.Lehmer(mod=-7), 9, 5, {'ok 16d'}),
    ('Lehmer(a=-3) n=9', lambda m: m.Lehmer(a=-3), 9, 5, {'ok 1ff'}),
    ('Lehmer(mod=0) n=0 unseeded', lambda m: m.Lehmer(mod=0), 0, None, {'err ZeroDivisionError'}),
    ('SubsetSum(-8,4) n=8', lambda m: m.SubsetSum(-8, 4), 8, None, {'err ValueError'}),
    ('SubsetSum(-8,4) n=0', lambda m: m.SubsetSum(-8, 4), 0, None, {'err ValueError'}),
    ('SubsetSum(8,-1) n=8', lambda m: m.SubsetSum(8, -1), 8, None, {'diverges'}),
    ('SubsetSum(8,-1) n=0', lambda m: m.SubsetSum(8, -1), 0, None, {'ok 0'}),
    ('mwc64 n=-1', lambda m: m.GetRng('mwc64'), -1, 5, {'err ValueError'}),
    ('lehmer128 n=-8', lambda m: m.GetRng('lehmer128'), -8, 5, {'err ValueError'}),
    ('subsetsum256/16 n=-1', lambda m: m.GetRng('subsetsum256/16'), -1, 5, {'err ValueError'}),
    ('trunclcg16 n=-1', lambda m: m.GetRng('trunclcg16'), -1, 5, {'err IndexError'}),
    ('trunclcg16 n=-8', lambda m: m.GetRng('trunclcg16'), -8, 5, {'ok 0'}),
    ('trunclcg16 n=-64', lambda m: m.GetRng('trunclcg16'), -64, 5, {'err ValueError'}),
    ('java n=-1', lambda m: m.GetRng('java'), -1, 5, {'err IndexError'}),
    ('lcgnist n=-8', lambda m: m.GetRng('lcgnist'), -8, 5, {'err ValueError'}),
    ('xorwow n=-1', lambda m: m.GetRng('xorwow'), -1, 5, {'err ValueError'}),
    ('xorshift* n=-64', lambda m: m.GetRng('xorshift*'), -64, 5, {'ok 0'}),
    ('urandom n=-1', lambda m: m.GetRng('urandom'), -1, 5, {'ok 0'}),
    ('urandom n=-8', lambda m: m.GetRng('urandom'), -8, 5, {'err ValueError'}),
    ('mt19937 n=-1', lambda m: m.GetRng('mt19937'), -1, 5, {'err ValueError'}),
    ('shake128 n=-8', lambda m: m.GetRng('shake128'), -8, 5, {'err SystemError', 'err ValueError'}),
    ('pcg64 n=-1', lambda m: m.GetRng('pcg64'), -1, 5, {'err ValueError'}),
]


def boundary(rep, rng, tier, rngmod, use):
  """Boundary constructor parameters of the four parametrised classes against the total model
  `Rng.run` / `Rng.entryOk` (Model/RngTotal.lean): which parameters return, raise (which
  exception) or do not terminate; n = 0; degenerate os.urandom answers.  Every real call runs
  under a 0.4 s CPU-time alarm (`_outcome`)."""
  bt = Batch('rng.total')
  be = Batch('rng.entry_ok')
  ns = [0, 1, 7, 8, 9, 63, 64, 65]
  seeds = [5, rng.getrandbits(130) | 1]
  hang_budget = [14 if tier == 'quick' else 60]    # alarms actually waited for

  def run_cases(kind, params, make, ns_, seeds_, tagf):
    """returns True iff every probe with n >= 1 returned a value."""
    all_ok = True
    for n in ns_:
      for seed in seeds_:
        def f(n=n, seed=seed):
          return make().RandomBits(n, seed=seed)
        if hang_budget[0] <= 0 and tagf(n) .endswith('diverges?'):
          continue
        r = _outcome(f)
        if r == 'diverges':
          hang_budget[0] -= 1
        if n >= 1 and not r.startswith('ok '):
          all_ok = False
        bt.add('rng.total %s %s %s %s %s' % (use, kind, ' '.join(H(x) for x in params), H(n), H(seed)), r,
               tag='%s:%s' % (kind, r.split()[0] if r != 'diverges' else 'diverges') + (':n=0' if n == 0 else ''))
    return all_ok

  # --- TruncLcgRand(k)
  for k in (0, 1, 2, 7, 8, 9, 16, 20, 64, 129):
    ok = run_cases('trunclcg', [k], lambda k=k: rngmod.TruncLcgRand(k), ns, seeds, lambda n: '')
    be.add('rng.entry_ok trunclcg %s' % H(k), 'true' if ok else 'false', tag='trunclcg')
  # --- Mwc(a, b)
  for bb in (0, 1, 2, 255, 256, 257, 3 * 256, 2**16, 2**16 + 256, 2**64, 2**63):
    for a in (0, 1, 5, 2**64 - 742):
      ok = run_cases('mwc', [a, bb], lambda a=a, bb=bb: rngmod.Mwc(a, bb), ns, seeds[:1], lambda n: '')
      be.add('rng.entry_ok mwc %s %s' % (H(a), H(bb)), 'true' if ok else 'false', tag='mwc')
  # --- Lehmer(a, mod, bits); bits = 0 with mod != 0 and n >= 1 does not terminate
  for (a, m, bits) in ((3, 7, 8), (3, 7, 16), (7, 2**128, 64), (3, 1, 8), (0, 7, 8), (3, 0, 8), (3, 0, 16),
                      (3, 0, 0), (3, 7, 0), (5, 2**61 - 1, 0), (3, 7, 12), (3, 7, 4), (3, 0, 4)):
    hangs = (bits == 0 and m != 0)
    ok = run_cases('lehmer', [a, m, bits], lambda a=a, m=m, bits=bits: rngmod.Lehmer(a, m, bits),
                   [0, 1, 9] if hangs else ns, seeds[:1] if hangs else seeds,
                   lambda n, hangs=hangs: 'diverges?' if (hangs and n >= 1) else '')
    be.add('rng.entry_ok lehmer %s %s %s' % (H(a), H(m), H(bits)), 'true' if ok else 'false', tag='lehmer')
  rep.absorb(bt, bt.run())

  # --- SubsetSum(bits, k) with scripted os.urandom answers (no alarm needed: the script ends)
  bs = Batch('rng.total')
  real_os = rngmod.os
  P = OsProxy(real_os)
  rngmod.os = P

  def sentinel(_k):
    P.script.insert(0, sentinel)
    raise _Exhausted()
  try:
    for (bits, k, kind) in ((256, 0, 'k=0'), (8, 0, 'k=0'), (0, 4, 'bits=0'), (0, 0, 'bits=0'), (0, 9, 'bits=0'),
                            (8, 3, 'zero-sels'), (16, 9, 'zero-sels'), (8, 3, 'zero-gens'), (16, 9, 'mixed'),
                            (8, 3, 'enough'), (12, 3, 'ctor'), (4, 0, 'ctor')):
      all_ok = True
      for n in (0, 1, 8, 9, 40):
        nb, sl = bits // 8, (k + 7) // 8
        if kind == 'zero-gens':
          gens = [b'\x00' * nb] * k
        else:
          gens = [real_os.urandom(nb) for _ in range(max(k, 0))]
        if kind == 'zero-sels':
          sels = [b'\x00' * sl] * 25
        elif kind == 'mixed':     # too few non-zero selections for n = 40 (needs 3), enough for n <= 16
          sels = [b'\x00' * sl, b'\x01' + b'\x00' * (sl - 1)] + [b'\x00' * sl] * 10
        elif kind == 'enough':
          sels = [b'\x00' * sl] * 3 + [b'\x05' * sl] * 8
        else:
          sels = [real_os.urandom(sl) for _ in range(25)]
        del P.log[:]
        del P.script[:]
        P.script.extend(list(gens) + list(sels) + [sentinel])

        def f(bits=bits, k=k, n=n):
          return rngmod.SubsetSum(bits, k).RandomBits(n)
        r = _outcome(f, 2.0)
        del P.script[:]
        if n >= 1 and not r.startswith('ok '):
          all_ok = False
        g = [LEi(x) for x in gens]
        # the model gets every answer that was prepared (the real loop stops reading when done)
        bs.add('rng.total %s subsetsum %s %s %s 5 %s %s' % (use, H(bits), H(k), H(n), L(g), L([LEi(x) for x in sels])),
               r, tag='subsetsum:%s:%s' % (kind, r.split()[0]) + (':n=0' if n == 0 else ''))
      if kind in ('k=0', 'bits=0', 'ctor'):
        be.add('rng.entry_ok subsetsum %s %s' % (H(bits), H(k)), 'true' if all_ok else 'false', tag='subsetsum')
  finally:
    rngmod.os = real_os
  for (bits, k) in ((8, 3), (16, 9), (256, 16), (8, 1)):
    ok = all(_outcome(lambda bits=bits, k=k, n=n: rngmod.SubsetSum(bits, k).RandomBits(n), 2.0).startswith('ok ')
             for n in (1, 8, 9, 40))
    be.add('rng.entry_ok subsetsum %s %s' % (H(bits), H(k)), 'true' if ok else 'false', tag='subsetsum:real-urandom')
  rep.absorb(bs, bs.run())
  rep.absorb(be, be.run())

  # --- outside the model's parameter type: the documented table must still describe the code
  neg = {}
  for desc, mk, n, seed, accepted in NEGATIVE_EXPECTED:
    r = _outcome(lambda mk=mk, n=n, seed=seed: mk(rngmod).RandomBits(n, seed=seed), 0.4)
    neg[desc] = r
    rep.evaluations += 1
    if r not in accepted:
      rep.broken.append('C20Total header table out of date: %s -> %s (documented: %s)' % (desc, r, sorted(accepted)))
  rep.extra['negative_parameter_outcomes'] = neg
  rep.extra['non_terminating_parameters'] = (
      'Lehmer(bits=0, mod!=0).RandomBits(n>=1), SubsetSum(bits, k<=0).RandomBits(n>=1), '
      'SubsetSum(0, k).RandomBits(n>=1): no return within the alarm / scripted oracle; modelled as '
      '`diverges` (theorems C20Total.lehmer_bits_zero_never_terminates, subsetSum_never_ends); none is in rng.RNGS')


def search(rep, rng, tier):
  """Failing-input search on the implementation only: range and determinism for every registry
  name on fresh random (n, seed)."""
  from paranoid_crypto.lib.randomness_tests import rng as rngmod
  kd = kinds()
  d5_ok = d5_listed() and rep.extra.get('trunclcg_variant') == 'pinned'
  for name in rngmod.RngNames():
    cls = kd[name][0]
    for _ in range(400):
      n = rng.randrange(1, 700)
      seed = rng.getrandbits(rng.choice([8, 64, 200])) + 1
      what = make_pred(lambda: rngmod.RNGS[name], cls, n, seed, d5_ok)()
      rep.evaluations += 1
      if what:
        direct_violation(rep, 'rng.bits %s - %s %s' % (name, H(n), H(seed)), what, None)
        break


def replay(rec):
  """./check C20 --replay file: re-evaluates the property on the recorded input."""
  from paranoid_crypto.lib.randomness_tests import rng as rngmod
  toks = rec['line'].split()
  if toks[0] != 'rng.bits':
    print('replay: not an rng.bits record:', rec['line'])
    return 2
  name, n, seed = toks[1], int(toks[3], 16), int(toks[4], 16)
  kd = kinds()
  cls = kd[name][0]
  what = make_pred(lambda: rngmod.RNGS[name], cls, n, seed, False)()
  print('replay %s n=%d seed=%s: %s' % (name, n, seed, what or 'property holds'))
  if what:
    print('VIOLATION property=C20 replay=(given)')
    return 1
  return 0
