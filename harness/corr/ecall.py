"""EcAll — the two entry points `paranoid.CheckAllEC` and `paranoid.CheckAllECDSASigs` end to end.

Model/EcAll.lean composes the existing pieces (Model/Bsgs.lean check models, Model/EcdsaChecks.lean
nonce checks, Model/Checks.lean bookkeeping incl. CheckIssuerKey) into `checkAllECFull` /
`checkAllECDSASigsFull`; nothing about what a check DECIDES is an input any more.  This module runs
the REAL entry points on fresh protobufs and records every remaining oracle at its call site:

  * float values `int(math.sqrt(.))` of BatchDL / PointTable (ec_util.math wrapped by the recording
    proxy of corr/c10.py), attributed to the curve object through wrappers around `EcCurve.BatchDL`
    and `EcCurve.BatchDLOfDifferences`;
  * `_table_size` of every curve object before the run (state token `size:m`) and before each
    registered check (evidence), and after the run (compared with the model);
  * for every registered signature check the solver calls (arguments predicted by the model, answers
    recorded or substituted), `list(set)` orders and `len(_cache)` — the recorder of corr/c02s.py
    installed around each `Check` call.

then asks the model for the WHOLE batch (`ecall.checkec` / `ecall.checksigs`) and compares the
complete `test_info` of every artefact, the return value, the table sizes, the cache sizes and the
solver-call arguments.

Constructor parameters. quick tier: the `CheckECKeySmallDifference` singleton of the registry is
swapped for one constructed with `max_diff=2**10` and `EcCurve.BatchDL` is wrapped to replace the
literal `n=2**32` handed over by `ExtendedBatchDL` by `2**16`; the model is told the same two numbers
(`EcParams`).  The slow `HiddenNumberProblemForCurve` run of CheckLCGNonceJavaUtilRandom is
substituted by a planted-answer stub in most quick batches (oracle substitution — the theorems
quantify over every answer).  thorough tier: one small batch per entry point with the registered
singletons and the literal `2**32` unchanged.

`pred` (always=True), evaluated on the final protobufs with the independent affine arithmetic of
corr/c11.py (never via the model):
  C02  every DISCRETE_LOG attached to a valid public key satisfies d*G == P; every
       DISCRETE_LOG_DIFF relation `key - Q = k*G` names another key Q of the batch on the same curve
       and holds; a signature is weak only if a nonce check recorded d with d*G == its own issuer
       point, or its CheckIssuerKey entry is positive, and the latter iff the real CheckAllEC on a
       fresh ECKey of its issuer key (batch of the distinct issuer keys) flags that key;
  C16  exactly one entry per applicable registered check (curve-dependent), documented severities
       (CheckIssuerKey: highest severity among the key's failed EC checks), weak == some entry
       positive, return value == some artefact weak, version recorded.
"""
import math
import time

import framework as fw
from framework import H, L, B, Batch
from corr import c02s, c10, c11, c16
from corr.c16 import S, fmt_info, fmt_batch_infos

META = dict(
    trusted_base=[
        'float oracles int(math.sqrt(.)) are inputs of the model, recorded at the call site',
        'the lattice solvers are ORACLES (arguments predicted by the model, answers recorded or '
        'substituted); Python set iteration order is an oracle checked by the model to be an enumeration',
        'Mathlib WeierstrassCurve.Affine.Point group law is the meaning of d*G (through C11 toPoint)',
        'independent textbook chord-and-tangent arithmetic of harness/corr/c11.py (pred only)',
        'Std.HashMap in the native driver (C10.driver_model_agree: same answers as the association list)',
        'harness canonicaliser of attached values (as C16)',
    ],
    assumptions=[
        'Model/EcAll.lean composes Model/Bsgs.lean, Model/EcdsaChecks.lean, Model/Checks.lean exactly as '
        'paranoid._CheckArtifacts runs the registered singletons on the shared EcCurve objects; tie '
        'checked by this correspondence run on whole batches',
        'quick tier: max_diff = 2**10 and the BatchDL bound 2**16 instead of 2**24 / 2**32 (both are '
        'parameters of the model; the theorems are stated for every max_diff and, since Proofs/EcAllBound.lean, '
        'for every value of the bound: checkAllECFull_total / checkAllECDSASigsFull_total cover the compared '
        'instance; the bound enters only through the float int(sqrt(bound*len)) >= 1, i.e. bound >= 1)',
        'primality of the field primes / group orders of the named curves: kernel-checked Pratt certificates '
        '(Props/C11Primes.lean; EcAll.fieldPrimes) - no longer an assumption of the end-to-end theorems',
        'state of the curve objects after an exception is not modelled',
    ])

DLOG, DLOGDIFF = 'DISCRETE_LOG', 'DISCRETE_LOG_DIFF'
BINARY_IDS = list(range(7, 17))


# ----------------------------------------------------------------------------
# recording

class CurveSpy:
  """wrappers around EcCurve.BatchDL / BatchDLOfDifferences: float oracles per curve object, and the
  quick-tier cap of the literal 2**32."""

  def __init__(self, ec_util, cap):
    self.ec_util, self.cap = ec_util, cap
    self.events = []
    self.proxy = c10.install_proxy(ec_util)

  def install(self):
    E = self.ec_util.EcCurve
    self.saved = (E.BatchDL, E.BatchDLOfDifferences)
    real_dl, real_diff = self.saved
    spy = self

    def bdl(curve, points, n):
      if spy.cap is not None and n == 2**32:
        n = spy.cap
      del spy.proxy.log[:]
      size0 = int(curve._table_size)
      try:
        return real_dl(curve, points, n)
      finally:
        spy.events.append(('dl', curve, list(spy.proxy.log), size0, n, len(points)))

    def bdiff(curve, points, other_points=None, max_diff=2**24):
      del spy.proxy.log[:]
      size0 = int(curve._table_size)
      try:
        return real_diff(curve, points, other_points, max_diff)
      finally:
        spy.events.append(('diff', curve, list(spy.proxy.log), size0, max_diff, len(points)))

    E.BatchDL, E.BatchDLOfDifferences = bdl, bdiff

  def uninstall(self):
    E = self.ec_util.EcCurve
    E.BatchDL, E.BatchDLOfDifferences = self.saved


class Env:

  def __init__(self, rng, tier):
    from paranoid_crypto.lib import paranoid  # noqa (import cycle of ecdsa_sig_checks)
    from paranoid_crypto.lib import ec_util, util, ec_aggregate_checks
    from paranoid_crypto import paranoid_pb2 as pb, version
    self.rng, self.tier = rng, tier
    self.paranoid, self.ec_util, self.util, self.pb = paranoid, ec_util, util, pb
    self.ver = version.__version__
    self.w = c02s.World(rng, tier)
    self.factory = list(ec_util.CURVE_FACTORY.items())
    self.curves = {int(cid): c for cid, c in self.factory}
    self.refs = self.w.refs
    self.ec_reg = paranoid.GetECAllChecks()
    self.sig_reg = paranoid.GetECDSAAllChecks()
    self.ec_names = list(self.ec_reg.keys())
    self.sig_names = list(self.sig_reg.keys())
    self.agg = ec_aggregate_checks
    self.saved_sd = self.ec_reg['CheckECKeySmallDifference']
    self.saved_caches = {cid: dict(c._cache) for cid, c in self.curves.items() if c is not None}
    self.saved_tables = {cid: (c._table_size, c._table) for cid, c in self.curves.items()
                         if c is not None}
    self.spy = None
    self.params = None
    self.oracle_raised = []
    self.solver_violations = []

  # --- parameters of the run
  def set_params(self, bound, max_diff):
    """bound None = the literal 2**32 untouched; max_diff None = the registered singleton."""
    if self.spy is not None:
      self.spy.uninstall()
    self.spy = CurveSpy(self.ec_util, bound)
    self.spy.install()
    if max_diff is None:
      self.ec_reg['CheckECKeySmallDifference'] = self.saved_sd
    else:
      self.ec_reg['CheckECKeySmallDifference'] = self.agg.CheckECKeySmallDifference(max_diff=max_diff)
    self.params = (2**32 if bound is None else bound,
                   int(self.ec_reg['CheckECKeySmallDifference']._max_diff))

  def restore(self):
    if self.spy is not None:
      self.spy.uninstall()
      self.spy = None
    self.ec_reg['CheckECKeySmallDifference'] = self.saved_sd
    for cid, cache in self.saved_caches.items():
      self.curves[cid]._cache.clear()
      self.curves[cid]._cache.update(cache)
    for cid, (sz, tb) in self.saved_tables.items():
      self.curves[cid]._table_size, self.curves[cid]._table = sz, tb

  # --- curve-object state
  def reset_tables(self):
    for c in self.curves.values():
      if c is not None:
        c._table_size, c._table = 0, {}

  def toks(self):
    return ','.join(c10.tok(c._table_size) if c is not None else '0:0' for _, c in self.factory)

  def sizes(self):
    return L(int(c._table_size) if c is not None else 0 for _, c in self.factory)

  def float_oracles(self, events):
    """(wk, sd) strings parallel to CURVE_FACTORY from the dl / diff events of ONE CheckAllEC run."""
    wk, sd = [], []
    md = self.params[1]
    for _, c in self.factory:
      dl = [e for e in events if e[0] == 'dl' and e[1] is c]
      df = [e for e in events if e[0] == 'diff' and e[1] is c]
      if c is None or not dl:
        wk.append('0:0')
      else:
        log = dl[-1][2]
        ts = int(log[0][1]) if log else 0
        m = int(log[1][1]) if len(log) > 1 else int(math.sqrt(ts))
        wk.append('%s:%s' % (H(ts), H(m)))
      if c is None or not df or not df[-1][2]:
        sd.append(H(int(math.sqrt(md))))
      else:
        sd.append(H(int(df[-1][2][0][1])))
    return ','.join(wk), ','.join(sd)

  # --- points
  def mul(self, cid, d):
    c = self.curves[cid]
    P = c.Multiply(c.g, int(d))
    return int(P[0]), int(P[1])

  def ref_mul(self, cid, d):
    return self.w.point_of(cid, d)


def ec_key(env, cid, x, y):
  return c10.mk_eckey(cid, x, y)


def key_static(env, k):
  return (int(k.ec_info.curve_type), env.util.Bytes2Int(k.ec_info.x), env.util.Bytes2Int(k.ec_info.y))


def fmt_keys(env, keys):
  if not keys:
    return '[]'
  return ';'.join('%s@%s@%s@%s' % ((fmt_info(k.test_info),) + tuple(H(v) for v in key_static(env, k)))
                  for k in keys)


# ----------------------------------------------------------------------------
# property clauses on the final protobufs

def parse_rel(s):
  import re
  m = re.match(r'^key - \((-?[0-9a-f]+), (-?[0-9a-f]+)\) = (-?\d+) \* G$', s)
  if not m:
    return None
  return int(m.group(1), 16), int(m.group(2), 16), int(m.group(3))


def valid_point(env, cid, x, y):
  c = env.curves.get(cid)
  if c is None:
    return False
  p = int(c.mod)
  return 0 <= x < p and 0 <= y < p and env.refs[cid].on((x, y))


def entries_clause(env, reg, names, kind, statics, after, ret, fresh):
  """C16 end to end on fresh artefacts."""
  if not fresh:
    return None
  if bool(ret) != any(a['weak'] for a in after):
    return 'return value %r but weak flags %r' % (ret, [a['weak'] for a in after])
  for i, a1 in enumerate(after):
    known = env.curves.get(statics[i][0]) is not None
    exp = [n for n in names if known or n in ('CheckValidECKey', 'CheckIssuerKey')]
    got = [e[0] for e in a1['entries']]
    if got != exp:
      return 'artefact %d: entries %r, applicable registered checks %r' % (i, got, exp)
    if a1['version'] != env.ver:
      return 'artefact %d: version %r not recorded' % (i, a1['version'])
    if a1['weak'] != any(r for _, r, _ in a1['entries']):
      return 'artefact %d: weak flag %r, entries %r' % (i, a1['weak'], a1['entries'])
    for n, r, sv in a1['entries']:
      if n == 'CheckIssuerKey':
        continue
      if sv != int(reg[n].severity):
        return 'artefact %d: %s carries severity %d, documented %d' % (i, n, sv, reg[n].severity)
  return None


def ec_pred(env, statics, before, after, ret, exc):
  if exc is not None:
    return None
  fresh = all(not b['entries'] and not b['weak'] and not b['version'] and not b['attached']
              for b in before)
  f = entries_clause(env, env.ec_reg, env.ec_names, 'ec', statics, after, ret, fresh)
  if f:
    return f
  for i, a1 in enumerate(after):
    cid, x, y = statics[i]
    att = dict(a1['attached'])
    ents = {n: r for n, r, _ in a1['entries']}
    if fresh:
      if (DLOG in att) != bool(ents.get('CheckWeakECPrivateKey')):
        return 'key %d: DISCRETE_LOG attached %r, CheckWeakECPrivateKey entry %r' % (
            i, DLOG in att, ents.get('CheckWeakECPrivateKey'))
      if (DLOGDIFF in att) != bool(ents.get('CheckECKeySmallDifference')):
        return 'key %d: DISCRETE_LOG_DIFF attached %r, CheckECKeySmallDifference entry %r' % (
            i, DLOGDIFF in att, ents.get('CheckECKeySmallDifference'))
    if DLOG in att and fresh and valid_point(env, cid, x, y):
      try:
        d = int(att[DLOG], 16)
      except ValueError:
        return 'key %d: DISCRETE_LOG %r is not a hex integer' % (i, att[DLOG])
      if env.ref_mul(cid, d) != (x, y):
        return 'key %d (curve %d): recorded DISCRETE_LOG %x but %x*G != P' % (i, cid, d, d)
    if DLOGDIFF in att and fresh:
      group = [j for j, st in enumerate(statics) if st[0] == cid]
      if not all(env.refs[cid].on((statics[j][1], statics[j][2])) for j in group):
        continue
      rel = parse_rel(att[DLOGDIFF])
      if rel is None:
        return 'key %d: unparsable relation %r' % (i, att[DLOGDIFF])
      qx, qy, k = rel
      ref = env.refs[cid]
      Q = ref.norm((qx, qy))
      others = [j for j in group if j != i and ref.norm((statics[j][1], statics[j][2])) == Q]
      if not others:
        return 'key %d: relation names (%x, %x) which is no other key of the batch on curve %d' % (
            i, qx, qy, cid)
      lhs = ref.add((x, y), ref.neg(Q))
      if lhs != env.ref_mul(cid, k) or lhs is None:
        return 'key %d: recorded relation key - Q = %d*G does not hold' % (i, k)
  return None


def sig_pred(env, arts, statics, before, after, ret, exc):
  if exc is not None:
    return None
  fresh = all(not b['entries'] and not b['weak'] and not b['version'] and not b['attached']
              for b in before)
  f = entries_clause(env, env.sig_reg, env.sig_names, 'ecdsa', statics, after, ret, fresh)
  if f or not fresh:
    return f
  # the EC checks on fresh ECKeys of the distinct issuer keys (the property's own description)
  keys, index = [], {}
  for a, st in zip(arts, statics):
    if st not in index:
      index[st] = len(keys)
      keys.append(env.pb.ECKey(ec_info=a.issuer_key_info))
  saved = {cid: (c._table_size, c._table) for cid, c in env.curves.items() if c is not None}
  try:
    env.paranoid.CheckAllEC(keys)
  except Exception as e:  # noqa
    return 'CheckAllEC on the issuer keys raised %r although the entry point returned' % (e,)
  finally:
    for cid, (sz, tb) in saved.items():
      env.curves[cid]._table_size, env.curves[cid]._table = sz, tb
  for i, a1 in enumerate(after):
    cid, x, y = statics[i]
    ents = {n: (r, sv) for n, r, sv in a1['entries']}
    att = dict(a1['attached'])
    nonce_pos = [n for n, (r, _) in ents.items() if r and n != 'CheckIssuerKey']
    k = keys[index[statics[i]]]
    hs = env.util.GetHighestSeverity(k.test_info)
    exp = (bool(k.test_info.weak), int(hs) if k.test_info.weak else 0)
    if ents['CheckIssuerKey'] != exp:
      return ('signature %d: CheckIssuerKey entry (result, severity) = %r but CheckAllEC on its issuer '
              'key gives (weak, highest severity of its failed checks) = %r' % (
                  i, ents['CheckIssuerKey'], exp))
    if a1['weak'] and not nonce_pos and not ents['CheckIssuerKey'][0]:
      return 'signature %d weak without a positive entry' % i
    if nonce_pos:
      if DLOG not in att:
        return 'signature %d flagged by %r without DISCRETE_LOG' % (i, nonce_pos)
      try:
        d = int(att[DLOG], 16)
      except ValueError:
        return 'signature %d: DISCRETE_LOG %r is not a hex integer' % (i, att[DLOG])
      if env.ref_mul(cid, d) != (x, y):
        return ('signature %d flagged by %r with discrete log %x but %x*G != issuer public point' % (
            i, nonce_pos, d, d))
    elif DLOG in att:
      return 'signature %d carries DISCRETE_LOG without a positive nonce check' % i
  return None


# ----------------------------------------------------------------------------
# CheckAllEC

def run_ec(env, b, items, tag, keep_state=False, rerun=False):
  """items: [(cid, x, y)] -> fresh ECKey protobufs, real CheckAllEC, one model line."""
  if not keep_state:
    env.reset_tables()
  keys = [ec_key(env, *it) for it in items]
  runs = 2 if rerun else 1
  for r_i in range(runs):
    statics = [key_static(env, k) for k in keys]
    before = [c16.snap(k.test_info) for k in keys]
    arts_line = fmt_keys(env, keys)
    toks = env.toks()
    ev0 = len(env.spy.events)
    exc, ret = None, None
    sizes_before, wrapped = {}, []
    for name, chk in env.ec_reg.items():
      def wrapper(artifacts, _orig=chk.Check, _name=name):
        sizes_before[_name] = env.sizes()        # `_table_size` of every curve object before the check
        return _orig(artifacts)
      chk.Check = wrapper
      wrapped.append(chk)
    try:
      ret = env.paranoid.CheckAllEC(keys)
    except Exception as e:  # noqa
      exc = e
    finally:
      for chk in wrapped:
        try:
          del chk.Check
        except AttributeError:
          pass
    wk, sd = env.float_oracles(env.spy.events[ev0:])
    after = [c16.snap(k.test_info) for k in keys]
    if exc is not None:
      impl = 'err ' + type(exc).__name__
    else:
      impl = 'ok %s %s %s' % (fmt_batch_infos(k.test_info for k in keys), B(ret), env.sizes())
    line = 'ecall.checkec %s %s %s %s %s %s' % (H(env.params[0]), H(env.params[1]), toks, wk, sd,
                                               arts_line)
    failure = ec_pred(env, statics, before, after, ret, exc)
    b.add(line, impl, tag=tag + (':rerun' if r_i else '') + (':raises' if exc is not None else ''),
          pred=(lambda f=failure: f), always=True,
          info=dict(keys=[(c, hex(x), hex(y)) for c, x, y in statics], params=env.params,
                    table_sizes_before_each_check=sizes_before))
    if exc is not None:
      break


def structured_d(env, rng, cid, cap):
  n = int(env.curves[cid].n)
  bits = n.bit_length()
  i = rng.randrange(1, min(cap, 2**32))
  if rng.random() < 0.5:
    j = rng.choice(range(0, bits - 31, 8))
    return (i << j) % n or 1, 'shift'
  r = rng.randrange(2, bits // 32 + 1)
  return (i * sum(2**(32 * k) for k in range(r))) % n or 1, 'repeat'


def healthy_d(env, rng, cid):
  n = int(env.curves[cid].n)
  return rng.randrange(n >> 8, n)


def ec_batch(env, rng, cap, md, curves):
  """1-6 keys over the given curve ids: [(cid, x, y)], tags."""
  items, tags = [], set()
  nkeys = rng.choice([1, 2, 3, 4, 5, 6])
  while len(items) < nkeys:
    cid = rng.choice(curves)
    p = int(env.curves[cid].mod)
    fam = rng.choice(['healthy', 'healthy', 'struct', 'struct', 'pair', 'dup', 'invalid', 'unreduced',
                      'unknown', 'binary', 'neg-small', 'pair-far'])
    tags.add(fam)
    if fam == 'healthy':
      items.append((cid,) + env.mul(cid, healthy_d(env, rng, cid)))
    elif fam == 'struct':
      d, _ = structured_d(env, rng, cid, cap)
      items.append((cid,) + env.mul(cid, d))
    elif fam == 'neg-small':
      n = int(env.curves[cid].n)
      items.append((cid,) + env.mul(cid, n - rng.randrange(1, cap)))
    elif fam in ('pair', 'pair-far'):
      d0 = healthy_d(env, rng, cid)
      delta = rng.choice([1, 2, md - 1, rng.randrange(1, md)]) if fam == 'pair' else (
          rng.choice([md * 64 + 3, 2**40 + 1]))
      n = int(env.curves[cid].n)
      items.append((cid,) + env.mul(cid, d0))
      items.append((cid,) + env.mul(cid, (d0 + delta) % n))
      if rng.random() < 0.3:
        items.append((cid,) + env.mul(cid, (d0 - rng.randrange(1, md)) % n))
    elif fam == 'dup':
      P = env.mul(cid, healthy_d(env, rng, cid))
      items += [(cid,) + P, (cid,) + P]
    elif fam == 'invalid':
      x, y = env.mul(cid, healthy_d(env, rng, cid))
      kind = rng.choice(['y+1', 'swap', 'zero', 'x+1'])
      tags.add('invalid:' + kind)
      items.append((cid,) + {'y+1': (x, (y + 1) % p), 'swap': (y, x), 'zero': (0, 0),
                             'x+1': ((x + 1) % p, y)}[kind])
    elif fam == 'unreduced':
      x, y = env.mul(cid, rng.choice([healthy_d(env, rng, cid), rng.randrange(1, cap)]))
      kind = rng.choice(['x+p', 'y+p', 'both'])
      items.append((cid,) + {'x+p': (x + p, y), 'y+p': (x, y + p), 'both': (x + p, y + 2 * p)}[kind])
    elif fam == 'unknown':
      x, y = env.mul(cid, healthy_d(env, rng, cid))
      items.append((rng.choice([0, 99, 20]), x, y))
    else:
      items.append((rng.choice(BINARY_IDS), rng.getrandbits(160), rng.getrandbits(160)))
  rng.shuffle(items)
  return items[:7], tags


def part_ec(env, rep, rng, tier):
  quick = tier == 'quick'
  b = Batch('ecall.checkec')
  cap, md = 2**16, 2**10
  env.set_params(cap, md)
  pool = [2, 6, 1, 3, 4, 17]
  n_batches = 26 if quick else 120
  for it in range(n_batches):
    curves = rng.sample(pool[:3] if rng.random() < 0.7 else pool, rng.choice([2, 2, 3]))
    if it % 5 == 0 and 1 not in curves:
      curves[0] = 1                         # secp192r1: CheckWeakCurve
    items, tags = ec_batch(env, rng, cap, md, curves)
    run_ec(env, b, items, 'mixed', keep_state=(it % 4 == 3), rerun=(it % 9 == 8))
    for t in tags:
      b.tags['family:' + t] = b.tags.get('family:' + t, 0) + 1
  # targeted batches
  env.reset_tables()
  run_ec(env, b, [], 'empty')
  run_ec(env, b, [(0, 5, 7), (9, 1, 2), (99, 3, 4)], 'no-known-curve')
  d, _ = structured_d(env, rng, 1, cap)
  run_ec(env, b, [(1,) + env.mul(1, d)], 'weakcurve+structured')
  run_ec(env, b, [(2, 5, 7)], 'single-offcurve')
  P = env.mul(6, healthy_d(env, rng, 6))
  run_ec(env, b, [(6,) + P, (6, P[0], int(env.curves[6].mod) - P[1])], 'P-and-minus-P')
  d0 = healthy_d(env, rng, 2)
  run_ec(env, b, [(2,) + env.mul(2, d0), (6,) + env.mul(6, d0 + 1), (2,) + env.mul(2, d0 + 5)],
         'pair-across-curves')
  # several structured keys in ONE curve group, interleaved with healthy keys and another curve
  for cid in (2, 6):
    ds = [structured_d(env, rng, cid, cap)[0] for _ in range(3)]
    items = [(cid,) + env.mul(cid, ds[0]), (cid,) + env.mul(cid, healthy_d(env, rng, cid)),
             (cid,) + env.mul(cid, ds[1]), (cid,) + env.mul(cid, ds[2]),
             (1,) + env.mul(1, structured_d(env, rng, 1, cap)[0])]
    run_ec(env, b, items, 'structured-neighbours')
  # a structured key after a larger table was left by the difference check (history)
  run_ec(env, b, [(2,) + env.mul(2, 3 << 8), (2,) + env.mul(2, healthy_d(env, rng, 2))], 'history-1')
  run_ec(env, b, [(2,) + env.mul(2, 77 << 16)], 'history-2', keep_state=True)
  if not quick:
    # the registered singletons and the literal 2**32 (one small batch)
    env.set_params(None, None)
    env.reset_tables()
    d0 = healthy_d(env, rng, 2)
    run_ec(env, b, [(2,) + env.mul(2, 0xdeadbeef << 64), (2,) + env.mul(2, d0),
                    (2,) + env.mul(2, d0 + 2**20 + 7), (1,) + env.mul(1, 0x1234567 * (1 + 2**32 + 2**64)),
                    (0, 1, 2)], 'real-parameters')
  t0 = time.time()
  rep.absorb(b, b.run())
  rep.extra.setdefault('ecall', {})['ec_model_wall_s'] = round(time.time() - t0, 1)


# ----------------------------------------------------------------------------
# CheckAllECDSASigs

def sig_line(env, arts, specs):
  if not arts:
    return '[]'
  return ';'.join('%s@%s@%s@%s@%s@%s@%s' % (
      fmt_info(a.test_info), H(sp['cid']), c02s.hexb(sp['kx']), c02s.hexb(sp['ky']),
      c02s.hexb(sp['r']), c02s.hexb(sp['s']), c02s.hexb(sp['mh'])) for a, sp in zip(arts, specs))


def run_sigs(env, b, specs, policy_for, tag, cold=True, keep_tables=False, rerun=False):
  w, esc, ec_util = env.w, env.w.esc, env.ec_util
  arts = [w.to_pb(sp) for sp in specs]
  used = sorted({sp['cid'] for sp in specs if env.curves.get(sp['cid']) is not None})
  order = [int(cid) for cid, c in env.factory if c is not None and int(cid) in used]
  for r_i in range(2 if rerun else 1):
    if r_i == 0:
      if not keep_tables:
        env.reset_tables()
      if cold:
        for c in env.curves.values():
          if c is not None:
            c._cache.clear()
      else:
        for cid in used:
          w.warm(cid)
    caches = ';'.join('%s|%s' % (H(cid), c11.fcache(c._cache)) for cid, c in env.factory
                      if c is not None and c._cache) or '[]'
    toks = env.toks()
    # the `list(set)` oracle rebuilt with the code's own expression (per curve group, per issuer)
    uniq = {}
    for cid in used:
      curve = env.curves[cid]
      sigs = [s for s in arts if s.issuer_key_info.curve_type == cid]
      pks = esc._MapIssuerSigIndexes(sigs)
      uniq[cid] = [list({ec_util.ECDSAValues(sigs[idx].ecdsa_sig_info, curve) for idx in idxs})
                   for _, idxs in pks.items()]
    statics = [(int(a.issuer_key_info.curve_type), env.util.Bytes2Int(a.issuer_key_info.x),
                env.util.Bytes2Int(a.issuer_key_info.y)) for a in arts]
    before = [c16.snap(a.test_info) for a in arts]
    line_arts = sig_line(env, arts, specs)
    steps = []
    wrapped = []
    for name, chk in env.sig_reg.items():
      orig = chk.Check

      def wrapper(artifacts, _orig=orig, _name=name):
        step = dict(name=_name, sizes_before=env.sizes(), groups=[], raised=[], events=[])
        steps.append(step)
        ev0 = len(env.spy.events)
        if _name == 'CheckIssuerKey':
          try:
            return _orig(artifacts)
          finally:
            step['events'] = env.spy.events[ev0:]
        with c02s.Recorder(w, policy_for(_name)) as rec:
          try:
            return _orig(artifacts)
          finally:
            step['groups'], step['raised'] = rec.groups(), rec.raised()
      chk.Check = wrapper
      wrapped.append(chk)
    exc, ret = None, None
    try:
      ret = env.paranoid.CheckAllECDSASigs(arts)
    except Exception as e:  # noqa
      exc = e
    finally:
      for chk in wrapped:
        try:
          del chk.Check
        except AttributeError:
          pass
    after = [c16.snap(a.test_info) for a in arts]
    by_name = {s['name']: s for s in steps}
    oitems, calls = [], []
    for name in env.sig_names:
      st = by_name.get(name, dict(groups=[], events=[], raised=[]))
      if name == 'CheckIssuerKey':
        wk, sd = env.float_oracles(st['events'])
        oitems.append('F=%s~%s' % (wk, sd))
        calls.append('-')
        continue
      groups = st['groups']
      gstrs = []
      for gi, cid in enumerate(order):
        g = groups[gi] if gi < len(groups) else dict(issuers=[], guesses=None)
        iss = []
        for j, u in enumerate(uniq[cid]):
          cl = g['issuers'][j] if j < len(g['issuers']) else []
          iss.append('%s/%s' % (','.join('%s:%s:%s' % (H(t[0]), H(t[1]), H(t[2])) for t in u) or '[]',
                                c02s.fmt_answers(cl)))
        gstrs.append('%s#%s#%s' % (H(cid), '|'.join(iss) or '[]', L(g['guesses'] or [])))
      oitems.append('S=' + (';'.join(gstrs) or '[]'))
      calls.append(';'.join(c02s.fmt_call(ev) for g in groups for iss in g['issuers'] for ev in iss)
                   or '[]')
    oracle_raised = [r for s in steps for r in s['raised']]
    if exc is not None:
      impl = 'err ' + type(exc).__name__
    else:
      cl = ','.join('%s:%s' % (H(cid), H(len(c._cache))) for cid, c in env.factory if c is not None)
      impl = 'ok %s %s %s %s %s %s' % (
          fmt_batch_infos(a.test_info for a in arts), B(ret), env.sizes(), cl, '+'.join(calls),
          ''.join('-' if n == 'CheckIssuerKey' else '1' for n in env.sig_names))
    line = 'ecall.checksigs %s %s %s %s %s %s' % (H(env.params[0]), H(env.params[1]), toks, caches,
                                                 line_arts, '+'.join(oitems))
    if oracle_raised:
      # a solver raised: no model line (its ANSWER is the model's oracle).  Inside C18's domain (every
      # known-curve r, s in [1, n-1]) an exception that left the entry point is a VIOLATION with the batch
      # as replay (review-2 M3: it used to be dropped with a note); outside the domain: the note.
      v = c02s.solver_raise_violation(env.w, specs, arts, oracle_raised, exc, 'paranoid.CheckAllECDSASigs',
                                      b.name, line, tag)
      if v is not None:
        env.solver_violations.append(v)
      else:
        env.oracle_raised.append(dict(tag=tag, exc=oracle_raised[0][3]))
      return
    failure = sig_pred(env, arts, statics, before, after, ret, exc)
    b.add(line, impl, tag=tag + (':rerun' if r_i else '') + (':raises' if exc is not None else ''),
          pred=(lambda f=failure: f), always=True,
          info=dict(n_sigs=len(specs), curves=order, params=env.params,
                    issuer_keys=sorted({(c, hex(x), hex(y)) for c, x, y in statics}),
                    table_sizes_before_each_check={s['name']: s['sizes_before'] for s in steps}))
    if exc is not None:
      break


def make_policy(env, real_java, extra=None):
  """per registered check: None = the real solver; else a substitute."""
  def policy_for(name):
    if extra and name in extra:
      return extra[name]
    if name == 'CheckLCGNonceJavaUtilRandom' and not real_java:
      return c02s.fixed_answer([])
    return None
  return policy_for


def issuer_of(env, rng, cid, kind, cap, md, partner=None):
  """an issuer dict (cid, d, x, y) whose key is of the given kind for the EC checks."""
  w = env.w
  n = int(env.curves[cid].n)
  if kind == 'weak-private':
    d, _ = structured_d(env, rng, cid, cap)
    return w.issuer(cid, d)
  if kind == 'close' and partner is not None:
    return w.issuer(cid, (partner['d'] + rng.randrange(1, md)) % n)
  return w.issuer(cid, healthy_d(env, rng, cid))


def sig_batch(env, rng, cap, md, curves):
  """4-12 signatures, 1-3 issuers over the given curves -> specs, tags."""
  w = env.w
  specs, tags = [], set()
  n_iss = rng.choice([1, 2, 2, 3])
  issuers = []
  budget = 12
  for k in range(n_iss):
    cid = rng.choice(curves)
    kind = rng.choice(['healthy', 'healthy', 'weak-private', 'close', 'invalid', 'unreduced', 'unknown'])
    partner = next((i for i in issuers if i['cid'] == cid), None)
    if kind == 'close' and partner is None:
      kind = 'healthy'
    iss = issuer_of(env, rng, cid, kind, cap, md, partner)
    issuers.append(iss)
    style = rng.choice(['msb', 'msb', 'healthy', 'fake'])
    cnt = 8 if style == 'msb' else rng.choice([1, 2, 3, 4])
    cnt = max(1, min(cnt, budget - (n_iss - k - 1)))
    budget -= cnt
    tags.add('issuer:' + kind)
    tags.add('nonces:' + style + ('' if cnt == 8 or style != 'msb' else '-few'))
    sg = w.fake(iss, cnt, hlen=32) if style == 'fake' else w.sign_many(iss, style, cnt, hlen=32)
    p = int(env.curves[cid].mod)
    for sp in sg:
      if kind == 'invalid':
        sp['ky'] = c02s.to_bytes_min((iss['y'] + 1) % p)
      elif kind == 'unreduced':
        sp['kx'] = c02s.to_bytes_min(iss['x'] + p)
      elif kind == 'unknown':
        sp['cid'] = rng.choice([0, 7, 99]) if sp is sg[0] else sp['cid']
    if sg and rng.random() < 0.25:
      sg.append(dict(sg[0]))               # duplicate signature
      tags.add('duplicate-sig')
    specs += sg
  if 1 in curves:
    tags.add('weak-curve')
  rng.shuffle(specs)
  while len(specs) < 4:
    specs += w.fake(issuers[0], 1, hlen=32)
  return specs[:12], tags, issuers


def part_sigs(env, rep, rng, tier):
  quick = tier == 'quick'
  b = Batch('ecall.checksigs')
  cap, md = 2**16, 2**10
  env.set_params(cap, md)
  env.oracle_raised = []
  n_batches = 11 if quick else 60
  for it in range(n_batches):
    curves = rng.choice([[2], [6], [2, 6], [2, 1], [6, 1], [2], [3, 2]])
    specs, tags, issuers = sig_batch(env, rng, cap, md, curves)
    extra = None
    if it % 4 == 1 and issuers:
      # a substituted answer: the Cr50 solver "finds" the first issuer's key (+ noise)
      d = issuers[0]['d']
      n = int(env.curves[issuers[0]['cid']].n)
      extra = {'CheckCr50U2f': c02s.fixed_answer([d + n, 0, n, 5])}
      tags.add('substituted-cr50')
    real_java = (not quick) and it % 6 == 0
    run_sigs(env, b, specs, make_policy(env, real_java, extra), 'mixed',
             cold=(it % 3 != 2), keep_tables=(it % 4 == 3), rerun=(it % 7 == 6))
    for t in tags:
      b.tags['family:' + t] = b.tags.get('family:' + t, 0) + 1
  # targeted
  w = env.w
  run_sigs(env, b, [], make_policy(env, False), 'empty')
  iss = w.issuer(2, healthy_d(env, rng, 2))
  run_sigs(env, b, w.sign_many(iss, 'msb', 8, hlen=32), make_policy(env, False), 'planted-msb')
  # real JavaUtilRandom solver on a tiny batch (one signature)
  run_sigs(env, b, w.sign_many(iss, 'healthy', 1, hlen=32) + w.fake(w.issuer(1, 0x4242 << 24), 1, hlen=20),
           make_policy(env, True), 'real-java-lcg')
  # weak issuer key for two EC checks of different severity (secp192r1 + structured private key)
  d, _ = structured_d(env, rng, 1, cap)
  issw = w.issuer(1, d)
  run_sigs(env, b, w.sign_many(issw, 'healthy', 2, hlen=24) + w.sign_many(iss, 'healthy', 2, hlen=32),
           make_policy(env, False), 'issuer-weakcurve+structured')
  # same coordinates under two curve ids (D18 territory), issuer listed healthy-first and weak-first
  two = w.sign_many(iss, 'healthy', 2, hlen=32)
  other = [dict(sp, cid=6) for sp in two]
  run_sigs(env, b, two + other, make_policy(env, False), 'same-point-two-curves')
  run_sigs(env, b, other + two, make_policy(env, False), 'same-point-two-curves')
  # unknown-curve signatures only
  unk = w.fake(iss, 2, hlen=32)
  for sp in unk:
    sp['cid'] = rng.choice([0, 9, 99])
  run_sigs(env, b, unk, make_policy(env, False), 'unknown-only')
  if not quick:
    env.set_params(None, None)
    iss2 = w.issuer(2, 0xc0ffee << 40)
    run_sigs(env, b, w.sign_many(iss, 'msb', 8, hlen=32) + w.sign_many(iss2, 'healthy', 2, hlen=32),
             make_policy(env, True), 'real-parameters')
  t0 = time.time()
  rep.absorb(b, b.run())
  rep.extra.setdefault('ecall', {})['sigs_model_wall_s'] = round(time.time() - t0, 1)
  flush_solver_raises(env, rep, 'ecall')


# ----------------------------------------------------------------------------

def flush_solver_raises(env, rep, who):
  """solver exceptions seen by run_sigs: violations (well-formed batch, exception left the entry point) /
  notes (batch outside C18's domain or the entry point returned)."""
  rep.violations.extend(env.solver_violations)
  env.solver_violations = []
  if env.oracle_raised:
    rep.notes.append('%s: batches OUTSIDE the C18 domain (some r or s not in [1, n-1]) skipped because a solver '
                     'raised (no model line): %r' % (who, env.oracle_raised[:5]))
  env.oracle_raised = []


def part_static(env, rep):
  """the model's tables against the running implementation."""
  b = Batch('ecall.static')
  w = env.w
  kinds = ','.join('%s=%s' % (n, 'I' if n == 'CheckIssuerKey' else w.kind_of(n)) for n in env.sig_names)
  b.add('ecall.kinds', kinds, tag='kinds')
  b.add('ecall.factory', c10.ffactory(dict(env.factory)), tag='factory')
  rep.absorb(b, b.run())


def correspondence(rep, rng, tier):
  t0 = time.time()
  env = Env(rng, tier)
  try:
    part_static(env, rep)
    part_ec(env, rep, rng, tier)
    t1 = time.time()
    part_sigs(env, rep, rng, tier)
    rep.extra.setdefault('ecall', {}).update(
        ec_wall_s=round(t1 - t0, 1), sigs_wall_s=round(time.time() - t1, 1),
        quick_parameters=dict(bound=2**16, max_diff=2**10))
  finally:
    env.restore()


def search(rep, rng, tier):
  pass


def replay(doc):
  line = doc.get('line')
  if not line:
    print('replay file has no request line (obligation-broken record)')
    return 2
  model = fw.run_driver([line])[0]
  print('line :', fw.trunc(line, 2000))
  print('impl :', fw.trunc(doc.get('impl'), 2000))
  print('model:', fw.trunc(model, 2000))
  print('what :', doc.get('what'))
  return 1 if model != doc.get('impl') else 0
