"""RsaAll — `paranoid.CheckAllRSA` end to end against Model/RsaAll.lean.

Every case is one BATCH of 1-6 fresh RSAKey protobufs (512…1024-bit moduli; healthy keys and
every documented weak family mixed, duplicates, shared primes, nested moduli, degenerate moduli).
The REAL entry point runs on the protobufs while every oracle of the model is recorded:
  LLL        `rsa_util.lll.reduce` output per (modulus, d0) at the call site inside CheckFraction
  cbrt       `int((n >> 3·shift) ** (1/3))` re-evaluated (same float expression as FactorWithGuess)
  unseeded   `storage.GetUnseededRands(psize)` in frozenset order, each value expanded to the
             iteration order of the Python set `{p_0, p_0|msb_1, p_0|msb_11}`; `psize` is computed
             HERE from the modulus (the documented `(bit_length + 1) // 2`), not taken from the run
  sha1       hexdigest recorded by a `hashlib` proxy inside rsa_single_checks (looked up by the
             documented input string; evaluated directly when the check hashed something else)
  keypair    `Generator(seed).generate_key(bits)` recorded by a proxy module (evaluated directly
             for the seed the table prescribes when the check did not call it)
The model (`rsaall.check`) gets keys + oracles and must predict the COMPLETE `test_info` of
every key (entries in order, severities, weak, version, attached factor sets) and the return value.

Singleton state for the run (constructor parameters, restored afterwards): CheckPollardpm1 is
`CheckPollardpm1(bound=2**12)` (its product goes to the model as a register), CheckOpensslDenylist
/ CheckKeypairDenylist are built on a Storage holding the shipped data plus synthetic entries so
that their positive branches are reachable at these sizes.

Constructor parameters / keyword defaults: batches tagged `alone`, `empty`, `short`, `size2048` and
the first `lhw-suspect` batch run the shipped values (the model side then takes the regenerated
defaults of Generated/Consts: params token `-`); the others run CheckFermat with max_steps
20000 / 3000 / 0 and, in the quick tier, CheckLowHammingWeight with maxsteps 10**5 (values read
back from the live objects and passed to the model).  Keys whose low-Hamming-weight search passes
its cut-off test without factoring are budgeted per run (seconds per key on both sides).

`pred` (evaluated for EVERY case, on the implementation only): C01 clauses on the final protobufs
and on the util calls of each check (spy of corr/c16.py), C16 clauses, C17 (single-check entries
of every key of a batch = entries when the entry point runs on that key alone), C18 (no
exception on a well-formed batch), and the planted expectation of the deterministic families
(Fermat, equal bits, small upper difference, unseeded, shared prime, smooth p-1, deny lists, ROCA,
exponent, n-1 gcd, factored sparse primes; a healthy 2048-bit key is not accused).
"""
import hashlib
import time

import gmpy2

import framework as fw
from framework import H, L, M, B, Batch
import gen_rsa
from corr import c16
from corr.c01 import cbrt_oracle
from corr import c06

META = dict(
    trusted_base=[
        'oracles of Model/RsaAll.lean (LLL answers, float cube root, unseeded candidate order, SHA-1, '
        'keypair generator, Pollard product, deny list, keypair table) are recorded from the real run '
        'or re-evaluated on the model\'s input; theorems quantify over every oracle answer',
        'harness canonicaliser of protobuf test_info shared with C16 (corr/c16.py fmt_info)',
    ],
    assumptions=[
        'Model/RsaAll.lean composes the per-check models with the bookkeeping layer exactly as '
        'paranoid.CheckAllRSA composes the Check methods; tie checked by this correspondence run',
        'fpylll LLL and hashlib.sha1 are deterministic functions of their input (one answer per '
        '(modulus, d0) / per string is recorded)',
        'proper-divisor clause: proved for the gcd-derived checks and CheckGCD; for CheckFermat, '
        'CheckHighAndLowBitsEqual, CheckLowHammingWeight, CheckKeypairDenylist only x*y = n is proved '
        '(the trivial pair needs an astronomically large step bound / a generator answering (1, n)); '
        'the clause is evaluated on the implementation for every case',
    ])

POLLARD_BOUND = 2**12


def S(s):
  return c16.S(s)


# ----------------------------------------------------------------------------
# key families

def prime_1_mod(rng, bits, g):
  """prime p of exactly `bits` bits with g | p - 1."""
  while True:
    c = rng.getrandbits(bits - g.bit_length()) | (1 << (bits - g.bit_length() - 1))
    for k in range(4000):
      p = g * (c + k) + 1
      if p.bit_length() == bits and gmpy2.is_prime(p):
        return int(p)


class Key:

  def __init__(self, tag, n, e=65537, expect=None, pq=None):
    self.tag, self.n, self.e = tag, int(n), int(e)
    self.expect = list(expect or [])      # [(check names (any of), factors or None, info name)]
    self.pq = pq


class Families:
  """generators of tagged keys; every method returns a list of Key (usually one)."""

  def __init__(self, rng, world, slow_budget):
    self.rng, self.w = rng, world
    self.slow_left = slow_budget

  def bits(self):
    return self.rng.choice([512, 512, 640, 768, 1024, 1024])

  def get(self, f):
    """f() within the budget of slow CheckLowHammingWeight searches of this run."""
    for _ in range(20):
      keys = f()
      slow = sum(1 for k in keys if k.n >= 2**63 and self.w.lhw_slow(k.n))
      if slow <= self.slow_left:
        self.slow_left -= slow
        return keys
    return self.healthy()

  def healthy(self):
    p, q = gen_rsa.semiprime(self.rng, self.bits())
    return [Key('healthy', p * q)]

  def oddbits(self):
    b = self.rng.choice([513, 767, 1023])
    while True:
      p, q = gen_rsa.rprime(self.rng, (b + 1) // 2), gen_rsa.rprime(self.rng, (b + 1) // 2)
      if (p * q).bit_length() == b:
        return [Key('healthy-oddbits', p * q)]

  def exponent(self):
    p, q = gen_rsa.semiprime(self.rng, self.bits())
    e = self.rng.choice([3, 17, 65539, 1, 2**32 + 1])
    return [Key('exponent', p * q, e=e, expect=[(('CheckExponents',), None, None)])]

  def fermat(self):
    p, q = gen_rsa.fermat_exact(self.rng, self.bits(), self.rng.choice([0, 1, 50, 3000]))
    n = p * q
    k = (p + q) // 2 - (int(gmpy2.isqrt(n)) + 1)
    exp = [(('CheckFermat',), {p, q}, 'N_FACTORS', k)] if p != q else []
    return [Key('fermat', n, expect=exp)]

  def hlbe(self):
    bits = self.rng.choice([512, 768, 1024])
    pb = bits // 2
    need = bits // 4 + 3
    r = self.rng.choice([3, 8, need // 2, need - 4])
    s = need - r + self.rng.choice([0, 2, 5])
    pq = gen_rsa.high_low_equal(self.rng, bits, r, s)
    if not pq:
      return self.healthy()
    p, q = pq
    n = p * q
    rr = ((p ^ q) & -(p ^ q)).bit_length() - 1
    ss = pb - (p ^ q).bit_length() if p.bit_length() == q.bit_length() == pb else 0
    cond = rr >= 3 and rr + ss >= n.bit_length() // 4 + 2 + (1 if n.bit_length() % 4 else 0)
    # C04 clause: factored by Fermat (default step bound) or by the equal-bits check
    exp = [(('CheckFermat', 'CheckHighAndLowBitsEqual'), {p, q}, 'N_FACTORS', 'default-fermat')] if cond else []
    return [Key('hlbe', n, expect=exp)]

  def pattern(self):
    bits = self.bits()
    w = self.rng.choice([3, 5, 8, 13, 16, 31, 32])
    p = gen_rsa.pattern_prime(self.rng, bits // 2, w, lowbits=self.rng.choice([8, 16, 24]))
    return [Key('pattern', p * gen_rsa.rprime(self.rng, bits // 2))]

  def smooth(self):
    bits = self.rng.choice([512, 768])
    p, q, g = gen_rsa.shared_smooth(self.rng, bits, gbits=72, smooth_bits=10)
    return [Key('smooth', p * q, expect=[(('CheckPollardpm1',), {p, q}, 'N_FACTORS')])]

  def smooth_both(self):
    p, q, g = gen_rsa.shared_smooth(self.rng, 512, gbits=72, smooth_bits=10, q_smooth=True)
    return [Key('smooth-both', p * q, expect=[(('CheckPollardpm1',), None, None)])]

  def _lowweight(self, factored):
    """product of two sparse primes; `factored`: the search of CheckLowHammingWeight finds the
    factors at once / passes its cut-off test without factors and exhausts its budget, so that
    the key is only SUSPECTED (SEVERITY_UNKNOWN rule; the real defaults then cost several
    seconds per key on both sides)."""
    for _ in range(200):
      bits = self.rng.choice([512, 768])
      p = gen_rsa.low_weight_prime(self.rng, bits // 2, self.rng.choice([4, 5, 6]))
      q = gen_rsa.low_weight_prime(self.rng, bits // 2, self.rng.choice([4, 5, 6]))
      if p == q:
        continue
      if self.w.lhw_slow(p * q) != factored:
        exp = [(('CheckLowHammingWeight',), {p, q} if factored else None,
                'N_FACTORS' if factored else None)]
        return [Key('lowweight' if factored else 'lowweight-suspect', p * q, expect=exp)]
    return self.healthy()

  def lowweight(self):
    return self._lowweight(True)

  def lowweight_suspect(self):
    return self._lowweight(False)

  def leading_ones(self):
    p = gen_rsa.leading_ones_prime(self.rng, 256, self.rng.choice([5, 8]), 3)
    q = gen_rsa.leading_ones_prime(self.rng, 256, self.rng.choice([5, 8]), 3)
    return [Key('leading-ones', p * q)]

  def sud(self):
    lp = self.rng.choice([384, 400, 512])
    dexp = self.rng.choice([100, 128, 160, 2, 3])
    while True:
      p = gen_rsa.rprime(self.rng, lp)
      q = int(gmpy2.next_prime(p + 2 ** (lp - dexp)))
      if q.bit_length() == lp:
        break
    return [Key('sud', p * q, expect=[(('CheckSmallUpperDifferences',), {p, q}, 'N_FACTORS')])]

  def _unseeded(self, odd):
    """prime next to a listed output of an unseeded PRNG (one of its three msb variants) times a
    random prime; `odd`: modulus of 1023 / 1024 bits (both have prime size 512)."""
    psize = 512
    lst = list(self.w.default_storage.GetUnseededRands(psize))
    for _ in range(400):
      p0 = self.rng.choice(lst)
      msb1 = 2 ** (psize - 1)
      base = self.rng.choice([p0, p0 | msb1, p0 | msb1 | 2 ** (psize - 2)])
      p = int(gmpy2.next_prime(base))
      if p.bit_length() != psize:
        continue
      q = gen_rsa.rprime(self.rng, psize)
      n = p * q
      if (n.bit_length() + 1) // 2 != psize or (n.bit_length() % 2 == 1) != odd:
        continue
      return [Key('unseeded-%d' % n.bit_length(), n,
                  expect=[(('CheckUnseededRand',), {p, q}, 'N_FACTORS')])]
    return self.healthy()

  def unseeded(self):
    return self._unseeded(False)

  def unseeded_odd(self):
    return self._unseeded(True)

  def duplicate(self):
    k = self.healthy()[0]
    return [Key('duplicate', k.n), Key('duplicate', k.n)]

  def shared(self):
    hb = self.bits() // 2
    p, q, r = (gen_rsa.rprime(self.rng, hb) for _ in range(3))
    return [Key('shared', p * q, expect=[(('CheckGCD',), {p, q}, 'N_FACTORS')]),
            Key('shared', p * r, expect=[(('CheckGCD',), {p, r}, 'N_FACTORS')])]

  def triangle(self):
    # D2 shape: pq divides the product of the other two moduli
    p, q, r, s = (gen_rsa.rprime(self.rng, 256) for _ in range(4))
    return [Key('triangle', p * q, expect=[(('CheckGCD',), {p, q}, 'N_FACTORS')]),
            Key('triangle', p * r, expect=[(('CheckGCD',), {p, r}, 'N_FACTORS')]),
            Key('triangle', q * s, expect=[(('CheckGCD',), {q, s}, 'N_FACTORS')])]

  def nested(self):
    p, q = gen_rsa.semiprime(self.rng, 512)
    r = gen_rsa.rprime(self.rng, self.rng.choice([64, 256]))
    return [Key('nested-inner', p * q, expect=[(('CheckGCD',), None, 'N_FACTORS')]),
            Key('nested-outer', p * q * r, expect=[(('CheckGCD',), {p * q, r}, 'N_FACTORS')])]

  def degenerate(self):
    t, n = self.rng.choice(gen_rsa.degenerate(self.rng, self.rng.choice([512, 513, 768])))
    return [Key('degenerate-' + t, n)]

  def gcdn1(self):
    g = gen_rsa.rprime(self.rng, self.rng.choice([130, 160]))
    out = []
    for _ in range(2):
      p, q = prime_1_mod(self.rng, 256, g), prime_1_mod(self.rng, 256, g)
      out.append(Key('gcdn1', p * q, expect=[(('CheckGCDN1',), None, 'N-1_FACTORS')]))
    return out

  def gcdn1_small(self):
    g = gen_rsa.rprime(self.rng, 100)      # below the 2**128 bound: not flagged
    out = []
    for _ in range(2):
      p, q = prime_1_mod(self.rng, 256, g), prime_1_mod(self.rng, 256, g)
      out.append(Key('gcdn1-below', p * q))
    return out

  def openssl(self):
    n = self.rng.choice(self.w.denied)
    return [Key('openssl', n, expect=[(('CheckOpensslDenylist',), None, None)])]

  def keypair(self):
    n, pq = self.rng.choice(self.w.keypair_keys)
    return [Key('keypair', n, expect=[(('CheckKeypairDenylist',), set(pq), 'N_FACTORS')])]

  def keypair_near(self):
    n, pq = self.rng.choice(self.w.keypair_keys)
    return [Key('keypair-same-msb', n + 2 * self.rng.randrange(1, 50))]

  def keypair_odd(self):
    # a table prefix in front of a modulus of odd size: the generator cannot have produced it
    msb = self.rng.choice(sorted(self.w.table))
    sh = self.rng.choice([1, 65, 191, 449, 961, 6, 70, 198, 456, 968, 446, 444, 442, 440])   # odd sizes and even sizes with (bits//2) % 8 >= 3
    return [Key('keypair-prefix-odd', (msb << sh) | self.rng.getrandbits(sh) | 1)]

  def roca(self):
    p, _ = c06.roca_prime(self.rng, 256, self.w.roca_m)
    q, _ = c06.roca_prime(self.rng, 256, self.w.roca_m)
    return [Key('roca', p * q, expect=[(('CheckROCA',), None, None)])]

  def roca_variant(self):
    x = self.rng.getrandbits(300) | 1
    n = (x * x) % self.w.variant_m + self.w.variant_m * (self.rng.getrandbits(250) | (1 << 249))
    return [Key('roca-variant', n)]

  def short(self):
    # malformed: modulus below 64 bits (CheckKeypairDenylist: negative shift count)
    return [Key('short', self.rng.getrandbits(62) | (1 << 61) | 1)]

  def big(self):
    """healthy modulus of exactly 2048 bits with e = 65537: no check may flag it."""
    while True:
      p, q = gen_rsa.semiprime(self.rng, 2048)
      if (p * q).bit_length() == 2048:
        return [Key('healthy2048', p * q, expect=[('NOT-WEAK',)])]


# ----------------------------------------------------------------------------
# the world: registry with run parameters, recorders

class World:

  def __init__(self, rng):
    from paranoid_crypto import paranoid_pb2 as pb, version
    from paranoid_crypto.lib import (paranoid, util, rsa_util, rsa_single_checks as rs,
                                     keypair_generator, consts)
    from paranoid_crypto.lib.data import default_storage
    from consts import checks as cc
    self.pb, self.ver, self.paranoid, self.util = pb, version.__version__, paranoid, util
    self.rsa_util, self.rs, self.kg, self.consts = rsa_util, rs, keypair_generator, consts
    self.rng = rng
    self.default_storage = default_storage.DefaultStorage()
    self.reg = paranoid.GetRSAAllChecks()
    self.flags = {n: cc._flags(c) for n, c in self.reg.items()}
    m = 1
    for p in c06.SPEC_ROCA_PRIMES:
      m *= p
    self.roca_m = m
    m = 1
    for p in c06.SPEC_VARIANT_PRIMES:
      m *= p
    self.variant_m = m
    # --- run parameters of the three storage / constructor dependent singletons
    shipped_table = dict(self.default_storage.GetKeypairData().table)
    shipped_deny = set(self.default_storage.GetOpensslDenylist())
    self.keypair_keys = []
    table = dict(shipped_table)
    for _ in range(3):
      meta = [rng.randrange(256)]
      for _ in range(rng.choice([0, 1, 2])):
        meta += [rng.randrange(1, 32), rng.randrange(0, 10)]
      meta = bytes(meta)
      bits = rng.choice([512, 768])
      p, q = keypair_generator.Generator(c06.seed_from_meta_ref(meta)).generate_key(bits)
      n = int(p) * int(q)
      if n.bit_length() < 64:
        continue
      table[n >> (n.bit_length() - 64)] = meta
      self.keypair_keys.append((n, (int(p), int(q))))
    self.table = table
    self.denied = []
    deny = set(shipped_deny)
    for _ in range(3):
      p, q = gen_rsa.semiprime(rng, rng.choice([512, 1024]))
      n = p * q
      self.denied.append(n)
      deny.add('RSA-%d:%s' % (n.bit_length(), self.sha1hex(n)[20:]))
    # decoys: right digest under another key type, first half of the digest
    deny.add('RSA-%d:%s' % (self.denied[0].bit_length() + 1, self.sha1hex(self.denied[0])[20:]))
    deny.add('RSA-%d:%s' % (self.denied[0].bit_length(), self.sha1hex(self.denied[0] + 2)[:20]))
    self.deny = deny
    self.swapped = {}

  @staticmethod
  def sha1_input(n):
    return ('Modulus=%X\n' % n).encode('utf-8')

  def sha1hex(self, n):
    return hashlib.sha1(self.sha1_input(n)).hexdigest()

  def install(self):
    rs = self.rs
    new = {
        'CheckPollardpm1': rs.CheckPollardpm1(bound=POLLARD_BOUND),
        'CheckOpensslDenylist': rs.CheckOpensslDenylist(
            paranoid_storage=c06.make_storage(deny=self.deny)),
        'CheckKeypairDenylist': rs.CheckKeypairDenylist(
            paranoid_storage=c06.make_storage(table=self.table)),
    }
    for name, obj in new.items():
      if name in self.reg:
        self.swapped[name] = self.reg[name]
        self.reg[name] = obj
    self.pollard_m = int(self.reg['CheckPollardpm1']._m) if 'CheckPollardpm1' in self.reg else 1
    self.fermat_default = self.reg['CheckFermat']._max_steps if 'CheckFermat' in self.reg else 0
    # recorders
    self.saved = dict(cf=self.rsa_util.CheckFraction, red=self.rsa_util.lll.reduce,
                      kg=rs.keypair_generator, hl=rs.hashlib)
    self.lll = {}          # n -> [(d0, basis)]
    self.cur = {}
    w = self

    def cf(n_, d0=1):
      w.cur['key'] = (int(n_), int(d0))
      return w.saved['cf'](n_, d0)

    def red(lat):
      out = w.saved['red'](lat)
      if 'key' in w.cur:
        n_, d0 = w.cur['key']
        w.lll.setdefault(n_, []).append((d0, [list(map(int, r)) for r in out]))
      return out
    self.rsa_util.CheckFraction = cf
    self.rsa_util.lll.reduce = red
    self.gen_rec = c06._GenRecorder(self.kg)
    rs.keypair_generator = self.gen_rec
    self.hash_rec = c06._HashlibProxy()
    rs.hashlib = self.hash_rec

  def lhw_slow(self, n):
    """does the search of CheckLowHammingWeight pass its cut-off test (step 2500) without having
    factored n?  Then the real defaults spend up to 10**6 steps (seconds, on both sides).
    Deterministic: counts the heap pops of a run limited to 2600 steps."""
    import heapq
    ru = self.rsa_util

    class Proxy:
      pops = 0
      heappush = staticmethod(heapq.heappush)

      def heappop(self, h):
        Proxy.pops += 1
        return heapq.heappop(h)
    saved = ru.heapq
    ru.heapq = Proxy()
    try:
      weak, fs = ru.CheckLowHammingWeight(gmpy2.mpz(n), 2500, 2600)
    finally:
      ru.heapq = saved
    return Proxy.pops > 2500 and not fs

  def set_fermat(self, steps):
    """constructor parameter of CheckFermat (the constructor only stores it)."""
    if 'CheckFermat' in self.reg:
      self.reg['CheckFermat']._max_steps = self.fermat_default if steps is None else steps

  def set_lhw(self, maxsteps):
    """keyword default `maxsteps` of rsa_util.CheckLowHammingWeight (the check calls it without
    arguments); None = the shipped default."""
    f = self.rsa_util.CheckLowHammingWeight
    if getattr(self, 'lhw_defaults', None) is None:
      self.lhw_defaults = f.__defaults__
    f.__defaults__ = self.lhw_defaults if maxsteps is None else (self.lhw_defaults[0], maxsteps)

  def params(self):
    """the constructor parameters / keyword defaults in force, for the model."""
    import inspect
    ru = self.rsa_util
    sig = lambda f, k: inspect.signature(f).parameters[k].default
    return L([self.reg['CheckFermat']._max_steps, self.reg['CheckContinuedFractions']._bound,
              sig(ru.Pollardpm1, 'gcd_bound'), self.reg['CheckGCDN1']._gcd_bound,
              sig(ru.FactorHighAndLowBitsEqual, 'middle_bits'),
              sig(ru.CheckLowHammingWeight, 'cutoff'), sig(ru.CheckLowHammingWeight, 'maxsteps')])

  def restore(self):
    self.set_fermat(None)
    self.set_lhw(None)
    for name, obj in self.swapped.items():
      self.reg[name] = obj
    self.swapped = {}
    if getattr(self, 'saved', None):
      self.rsa_util.CheckFraction = self.saved['cf']
      self.rsa_util.lll.reduce = self.saved['red']
      self.rs.keypair_generator = self.saved['kg']
      self.rs.hashlib = self.saved['hl']
      self.saved = None

  # --- oracle tokens of one key (after the real run)
  def unseeded_reg(self, b, psize):
    """register holding the flattened candidate sequence for a prime size."""
    name = 'U%d' % psize
    if name not in b.regs:
      lst = self.default_storage.GetUnseededRands(psize)
      msb1 = 2 ** (psize - 1) if psize >= 1 else 0
      msb11 = (msb1 | 2 ** (psize - 2)) if psize >= 2 else msb1
      cands = []
      for x in lst:
        cands.extend(list({x, x | msb1, x | msb11}))
      if not cands:
        b.regs[name] = None
      else:
        b.regs[name] = True
        b.let(name, L(cands))
    return ('$' + name) if b.regs[name] else '[]'

  def key_tokens(self, b, n):
    rec = self.lll.get(n, [])
    red = '|'.join('%s:%s' % (H(d), M(bs)) for d, bs in rec) if rec else '-'
    want = self.sha1_input(n)
    digest = hashlib.sha1(want).hexdigest()
    sha = L(ord(c) for c in digest)
    gen = '-'
    bl = n.bit_length()
    if bl >= 64:
      meta = self.table.get(n >> (bl - 64))
      if meta is not None and bl % 2 == 0 and (bl // 2) % 8 <= 2:      # other sizes: generator not consulted (D21)
        try:
          seed = c06.seed_from_meta_ref(meta)
        except Exception:  # noqa  (malformed metadata: the model raises before asking)
          seed = None
        if seed is not None:
          out = None
          for s_, bits_, pq in self.gen_rec.calls:
            if s_ == seed and bits_ == bl:
              out = pq
          if out is None:
            p, q = self.kg.Generator(seed).generate_key(bl)
            out = (int(p), int(q))
          gen = '%s,%s' % (H(out[0]), H(out[1]))
    return [red, H(cbrt_oracle(n)), self.unseeded_reg(b, (bl + 1) // 2), sha, gen]


# ----------------------------------------------------------------------------
# property clauses on the implementation

def clauses(w, keys, arts, ret, exc, calls, wellformed):
  consts = w.consts
  if exc is not None:
    if wellformed:
      return 'C18: CheckAllRSA raised %s on a batch of moduli >= 2^63' % type(exc).__name__
    return None
  names = list(w.reg.keys())
  moduli = [k.n for k in keys]
  snaps = [c16.snap(a.test_info) for a in arts]
  # what each check did to each key (spy log)
  did = {}
  for c in calls:
    for tgt, kind, payload in c['log']:
      if tgt is None or tgt[0] != 'a':
        continue
      d = did.setdefault((c['name'], tgt[1]), dict(factors=[], set=None))
      if kind == 'factors':
        d['factors'].append(payload)
      elif kind == 'info':
        return 'RSA check %s called AttachInfo' % c['name']
      elif kind == 'set':
        d['set'] = payload
  for i, (k, s) in enumerate(zip(keys, snaps)):
    n = k.n
    # ---- C16
    got = [e[0] for e in s['entries']]
    if got != names:
      return 'C16: key %d carries entries %r, active checks %r' % (i, got, names)
    if s['version'] != w.ver:
      return 'C16: key %d: library version %r not recorded' % (i, s['version'])
    if s['weak'] != any(r for _, r, _ in s['entries']):
      return 'C16: key %d: weak flag %r but entries %r' % (i, s['weak'], s['entries'])
    for name, r, sv in s['entries']:
      chk = w.reg[name]
      unk = w.flags[name][1]
      d = did.get((name, i), dict(factors=[], set=None))
      if unk and r and not d['factors']:
        if sv != 0:
          return 'C16: key %d: %s unfactored suspicion carries severity %d' % (i, name, sv)
      elif sv != int(chk.severity):
        return 'C16: key %d: %s carries severity %d, documented %d' % (i, name, sv, chk.severity)
      # ---- C01, per check: factors only together with a positive entry, under the right name
      if d['factors'] and not r:
        return ('C01: %s attached factors %s to key %d (n=%x) but its entry is not positive' %
                (name, [[hex(f) for f in fs] for _, fs in d['factors']], i, n))
      for iname, fs in d['factors']:
        mod = n - 1 if iname == consts.INFO_NAME_NM1_FACTORS else n
        if iname not in (consts.INFO_NAME_N_FACTORS, consts.INFO_NAME_NM1_FACTORS):
          return 'C01: %s attached factors under %r' % (name, iname)
        if (name == 'CheckGCDN1') != (iname == consts.INFO_NAME_NM1_FACTORS):
          return 'C01: %s attached factors under %r' % (name, iname)
        for f in fs:
          if f == 0 or mod % f:
            return ('C01: %s recorded %x for key %d under %s; it does not divide %x' %
                    (name, f, i, iname, mod))
    # ---- C01 on the final protobuf
    nf = c16.first_factors(s, consts.INFO_NAME_N_FACTORS)
    nm1 = c16.first_factors(s, consts.INFO_NAME_NM1_FACTORS)
    for kname, _ in s['attached']:
      if kname not in (consts.INFO_NAME_N_FACTORS, consts.INFO_NAME_NM1_FACTORS):
        return 'C01: key %d has an attached record %r' % (i, kname)
    if len(s['attached']) != len({a for a, _ in s['attached']}):
      return 'C16: key %d: duplicated attached records' % i
    if (nf is None and any(a == consts.INFO_NAME_N_FACTORS for a, _ in s['attached'])) or (
        nm1 is None and any(a == consts.INFO_NAME_NM1_FACTORS for a, _ in s['attached'])):
      return 'C01: key %d: unreadable factor record' % i
    for f in nf or []:
      if f == 0 or n % f:
        return 'C01: key %d: recorded factor %x does not divide n=%x' % (i, f, n)
    for f in nm1 or []:
      if f == 0 or (n - 1) % f:
        return 'C01: key %d: recorded n-1 factor %x does not divide n-1 (n=%x)' % (i, f, n)
    if (nf or nm1) and not s['weak']:
      return 'C01: key %d has recorded factors but is not marked weak' % i
    if nf:
      if not any(1 < f < n for f in nf) and not any(m != n and m % n == 0 for m in moduli):
        return ('C01: key %d (n=%x): no recorded value of %s is a proper divisor and n divides '
                'no other modulus of the batch' % (i, n, [hex(f) for f in nf]))
    # ---- planted expectations of the deterministic families
    for ex in k.expect:
      if ex[0] == 'NOT-WEAK':
        if s['weak']:
          return ('healthy %d-bit key %d (n=%x, e=%d) accused by %s' %
                  (n.bit_length(), i, n, k.e, [e[0] for e in s['entries'] if e[1]]))
        continue
      anyof, fs, iname = ex[0], ex[1], ex[2]
      if len(ex) > 3 and ex[3] == 'default-fermat':
        if w.reg['CheckFermat']._max_steps != w.fermat_default:
          continue        # clause stated for the shipped step bound only
      elif len(ex) > 3 and not ex[3] < 0.9 * w.reg['CheckFermat']._max_steps:
        continue          # Fermat family member beyond the step bound in force
      hit = [e for e in s['entries'] if e[0] in anyof and e[1]]
      if not hit and all(a in names for a in anyof):
        return ('family %s: key %d (n=%x) not flagged by %s' % (k.tag, i, n, '/'.join(anyof)))
      if fs and iname:
        have = set(c16.first_factors(s, iname) or [])
        if not set(fs) <= have:
          return ('family %s: key %d (n=%x): factors %s not recorded under %s (recorded %s)' %
                  (k.tag, i, n, sorted(hex(f) for f in fs), iname, sorted(hex(f) for f in have)))
      elif iname and not c16.first_factors(s, iname):
        return 'family %s: key %d (n=%x): nothing recorded under %s' % (k.tag, i, n, iname)
  if bool(ret) != any(s['weak'] for s in snaps):
    return 'C16: CheckAllRSA returned %r but weak flags are %r' % (ret, [s['weak'] for s in snaps])
  if ret is not True and ret is not False:
    return 'C18: CheckAllRSA returned %r (not a bool)' % (ret,)
  return None


def alone_clause(w, keys, arts):
  """C17 on the implementation: the entries of the single checks of every key of the batch equal
  the entries the key gets when the entry point runs on it ALONE (fresh protobuf).  Keys whose
  CheckLowHammingWeight search exhausted its budget are skipped (seconds per run)."""
  singles = list(w.paranoid.GetRSASingleChecks().keys())
  for i, (k, a) in enumerate(zip(keys, arts)):
    got = {e.test_name: (bool(e.result), int(e.severity)) for e in a.test_info.test_results}
    lhw = got.get('CheckLowHammingWeight')
    if lhw and lhw[0] and lhw[1] == 0:
      continue
    solo = w.pb.RSAKey()
    solo.rsa_info.n = w.util.Int2Bytes(k.n)
    solo.rsa_info.e = w.util.Int2Bytes(k.e)
    try:
      w.paranoid.CheckAllRSA([solo])
    except Exception as e:  # noqa
      return 'C17/C18: key %d (n=%x) alone raises %s, in the batch it did not' % (
          i, k.n, type(e).__name__)
    ref = {e.test_name: (bool(e.result), int(e.severity)) for e in solo.test_info.test_results}
    for nm in singles:
      if got.get(nm) != ref.get(nm):
        return ('C17: key %d (n=%x): single check %s gives (result, severity) %r in the batch '
                'but %r when the key is checked alone' % (i, k.n, nm, got.get(nm), ref.get(nm)))
  return None


# ----------------------------------------------------------------------------

def run_batch(w, spy, b, keys, tag, default_params=False):
  """one CheckAllRSA call on fresh protobufs -> one request line."""
  pb, util = w.pb, w.util
  arts = []
  for k in keys:
    a = pb.RSAKey()
    a.rsa_info.n = util.Int2Bytes(k.n)
    a.rsa_info.e = util.Int2Bytes(k.e)
    arts.append(a)
  w.lll.clear()
  w.cur.clear()
  w.gen_rec.calls.clear()
  spy.calls = []
  spy.frames = [[(a.test_info, ('a', i)) for i, a in enumerate(arts)]]
  exc, ret = None, None
  import signal

  def _alarm(*_):
    raise TimeoutError('CheckAllRSA did not return')
  guard = any(k.tag.startswith('keypair-prefix-odd') for k in keys)
  if guard:                       # D21: the keypair generator never returns for an odd size
    old_h = signal.signal(signal.SIGALRM, _alarm)
    signal.setitimer(signal.ITIMER_REAL, 120)
  try:
    ret = w.paranoid.CheckAllRSA(arts)
  except Exception as e:  # noqa
    exc = e
  finally:
    if guard:
      signal.setitimer(signal.ITIMER_REAL, 0)
      signal.signal(signal.SIGALRM, old_h)
  spy.frames = []
  calls = spy.calls
  if exc is not None:
    impl = 'err ' + type(exc).__name__
  else:
    impl = 'ok %s %s' % (c16.fmt_batch_infos(a.test_info for a in arts), B(ret))
  wellformed = all(k.n >= 2**63 for k in keys)
  failure = clauses(w, keys, arts, ret, exc, calls, wellformed)
  toks = []
  for k in keys:
    toks.extend(w.key_tokens(b, k.n))
  if failure is None and exc is None and len(keys) >= 2:
    failure = alone_clause(w, keys, arts)
  line = 'rsaall.check %s $M $D $T %s %s' % (
      ';'.join('%s:%s' % (H(k.n), H(k.e)) for k in keys) if keys else '[]',
      '-' if default_params else w.params(), ' '.join(toks))
  tags = sorted({k.tag.split('-')[0] for k in keys})
  b.add(line.rstrip(), impl, tag=tag, pred=(lambda f=failure: f), always=True,
        info=dict(keys=[dict(tag=k.tag, n=hex(k.n), e=k.e) for k in keys], families=tags))
  return [c16.snap(a.test_info) for a in arts], ret, exc


def correspondence(rep, rng, tier):
  from paranoid_crypto.lib import paranoid
  quick = tier == 'quick'
  t0 = time.time()
  w = World(rng)
  fam = Families(rng, w, 3 if quick else 12)

  # names the model knows == names of the running implementation
  b0 = Batch('rsaall.names')
  b0.add('rsaall.names', '%s %s %s %s' % (
      S(w.consts.INFO_NAME_N_FACTORS), S(w.consts.INFO_NAME_NM1_FACTORS),
      ','.join(paranoid.GetRSASingleChecks().keys()) or '[]',
      ','.join(paranoid.GetRSAAggregateChecks().keys()) or '[]'), tag='names')
  rep.absorb(b0, b0.run())

  b = Batch('rsaall.check')
  b.regs = {}
  spy = c16.Spy()
  w.install()
  spy.install()
  stats = {}
  try:
    b.let('M', H(w.pollard_m))
    b.let('D', c06.SL(sorted(w.deny)))
    b.let('T', c06.T(w.table))
    single = [fam.healthy, fam.oddbits, fam.exponent, fam.fermat, fam.hlbe, fam.pattern, fam.smooth,
              fam.smooth_both, fam.lowweight, fam.leading_ones, fam.sud, fam.unseeded, fam.unseeded_odd,
              fam.degenerate, fam.openssl, fam.keypair, fam.keypair_near, fam.keypair_odd, fam.roca,
              fam.roca_variant]
    groups = [fam.duplicate, fam.shared, fam.triangle, fam.nested, fam.gcdn1, fam.gcdn1_small]

    def note(keys, snaps, ret, exc):
      for k, s in zip(keys, snaps):
        st = stats.setdefault(k.tag, dict(n=0, weak=0, flagged={}))
        st['n'] += 1
        st['weak'] += bool(s['weak'])
        for nm, r, _ in s['entries']:
          if r and nm != 'CheckSizes':
            st['flagged'][nm] = st['flagged'].get(nm, 0) + 1

    def go(keys, tag, fermat_steps=None, lhw_steps=None):
      # None: the shipped singleton / keyword default and the regenerated defaults of
      # Generated/Consts on the model side; else that constructor parameter / keyword default
      w.set_fermat(fermat_steps)
      w.set_lhw(lhw_steps)
      snaps, ret, exc = run_batch(w, spy, b, keys, tag,
                                  default_params=fermat_steps is None and lhw_steps is None)
      note(keys, snaps, ret, exc)
    cheap = 20000 if quick else None
    cheap_lhw = 10**5 if quick else None
    # every family alone, then with a healthy neighbour on either side
    saved_budget, fam.slow_left = fam.slow_left, (0 if quick else fam.slow_left)
    for f in single + groups:
      keys = fam.get(f)
      go(keys, 'alone')
    fam.slow_left = saved_budget if quick else fam.slow_left
    # CheckLowHammingWeight "suspected, not factored": severity UNKNOWN next to a factored key
    # (once with the shipped search budget of 10**6 steps: seconds on both sides)
    go(fam.lowweight_suspect() + fam.lowweight(), 'lhw-suspect')
    for _ in range(2 if quick else 6):
      go(fam.lowweight() + fam.lowweight_suspect(), 'lhw-suspect', None, cheap_lhw)
    for f in (single + groups) if not quick else rng.sample(single + groups, 10):
      keys = fam.healthy() + fam.get(f) + fam.healthy()
      go(keys[:6], 'between-healthy', cheap, cheap_lhw)
    # random mixtures of 1-6 keys
    n_mix = 20 if quick else 120
    for _ in range(n_mix):
      keys = []
      want = rng.choice([1, 2, 3, 4, 5, 6])
      while len(keys) < want:
        f = rng.choice(single + single + groups)
        more = fam.get(f)
        if len(keys) + len(more) <= 6:     # groups (shared primes, nested, …) stay complete
          keys.extend(more)
      rng.shuffle(keys)
      go(keys, 'mixed', rng.choice([cheap, cheap, 3000, 0]), cheap_lhw)
    # empty batch; a malformed (short) modulus alone and after healthy keys
    go([], 'empty')
    go(fam.short(), 'short')
    go(fam.healthy() + fam.short(), 'short')
    # moduli at the CheckSizes threshold: the only batches that can come out "not weak"
    go(fam.big(), 'size2048')
    if not quick:
      go(fam.big() + fam.healthy() + fam.big(), 'size2048')
  finally:
    spy.uninstall()
    w.restore()
  rep.absorb(b, b.run())
  rep.extra['families'] = stats
  rep.extra['real_run_wall_s'] = round(time.time() - t0 - getattr(b, 'model_s', 0), 1)
  rep.extra['model_wall_s'] = round(getattr(b, 'model_s', 0), 1)


def search(rep, rng, tier):
  pass
