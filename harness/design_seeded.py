"""rewrites the seeded-defect table of DESIGN.md section 10.4 in place from seeded/*/ (harness/seeded_table.py)."""
import os, subprocess, sys
V = os.path.dirname(os.path.dirname(os.path.abspath(__file__)))
tab = subprocess.run([sys.executable, os.path.join(V, 'harness', 'seeded_table.py')],
                     stdout=subprocess.PIPE, text=True, check=True).stdout.rstrip('\n').split('\n')
p = os.path.join(V, 'DESIGN.md')
lines = open(p).read().split('\n')
i = next(k for k, l in enumerate(lines) if l.startswith('| seeded defect |'))
j = i
while j < len(lines) and lines[j].startswith('|'):
  j += 1
lines[i:j] = tab
open(p, 'w').write('\n'.join(lines))
print('rows', len(tab) - 2)
