"""Spine of the verification harness: Lean build/audit, model driver, batches,
evidence, violation reporting.  Runs under /venv/bin/python."""
import fcntl
import hashlib
import json
import os
import random
import re
import subprocess
import sys
import time
import traceback

HERE = os.path.dirname(os.path.abspath(__file__))
VERIF = os.path.dirname(HERE)
REPO = os.environ.get('VERIF_REPO', '/repo')
LEAN = os.path.join(VERIF, 'lean', 'ParanoidModel')
BUILD = os.path.join(VERIF, 'build')
EVID = os.path.join(VERIF, 'evidence')
DRIVER = os.path.join(LEAN, '.lake', 'build', 'bin', 'driver')
ACCEPTED_AXIOMS = {'propext', 'Classical.choice', 'Quot.sound'}
FORBIDDEN = re.compile(
    r'\b(sorry|admit|native_decide|bv_decide|implemented_by|unsafe|maxHeartbeats\s+0)\b|^\s*axiom\s',
    re.M)

os.makedirs(BUILD, exist_ok=True)
os.makedirs(EVID, exist_ok=True)


# ----------------------------------------------------------------------------
# formatting helpers for the line protocol (must match Model/Proto.lean)

def H(x):
  x = int(x)
  return ('-%x' % -x) if x < 0 else ('%x' % x)


def L(xs):
  xs = list(xs)
  return ','.join(H(x) for x in xs) if xs else '[]'


def M(rows):
  rows = list(rows)
  return ';'.join(L(r) for r in rows) if rows else '[]'


def O(x):
  return '-' if x is None else H(x)


def B(b):
  return '1' if b else '0'


def exc_name(e):
  return type(e).__name__


def call(fmt, f, *a, **kw):
  """Runs the implementation; returns 'ok <fmt(result)>' or 'err <ExcName>'."""
  try:
    r = f(*a, **kw)
  except Exception as e:  # noqa
    return 'err ' + exc_name(e)
  return 'ok ' + fmt(r)


# ----------------------------------------------------------------------------
# locking, lake

class Lock:

  def __init__(self, name='lake'):
    self.path = os.path.join(BUILD, '.%s.lock' % name)

  def __enter__(self):
    self.f = open(self.path, 'w')
    fcntl.flock(self.f, fcntl.LOCK_EX)
    return self

  def __exit__(self, *a):
    fcntl.flock(self.f, fcntl.LOCK_UN)
    self.f.close()


def run_cmd(cmd, cwd=None, timeout=None, env=None):
  p = subprocess.run(cmd, cwd=cwd, stdout=subprocess.PIPE, stderr=subprocess.STDOUT,
                     timeout=timeout, env=env, text=True)
  return p.returncode, p.stdout


def lake_build(targets, timeout=3000):
  """Builds the given lake targets. Returns (ok, log)."""
  with Lock('lake'):
    rc, out = run_cmd(['lake', 'build'] + list(targets), cwd=LEAN, timeout=timeout)
  return rc == 0, out


def strip_comments(src):
  # remove /- ... -/ (nested not handled beyond one level) and -- line comments
  out = []
  i, depth, n = 0, 0, len(src)
  while i < n:
    if src.startswith('/-', i):
      depth += 1
      i += 2
    elif depth and src.startswith('-/', i):
      depth -= 1
      i += 2
    elif depth:
      i += 1
    elif src.startswith('--', i):
      j = src.find('\n', i)
      i = n if j < 0 else j
    else:
      out.append(src[i])
      i += 1
  return ''.join(out)


def lean_sources():
  res = []
  for root, _, files in os.walk(os.path.join(LEAN, 'ParanoidModel')):
    for f in files:
      if f.endswith('.lean'):
        res.append(os.path.join(root, f))
  res.append(os.path.join(LEAN, 'Main.lean'))
  return sorted(res)


def audit_tokens():
  """Forbidden-token grep over every Lean source (comments stripped)."""
  hits = []
  for p in lean_sources():
    src = strip_comments(open(p).read())
    if os.path.basename(p) == 'Main.lean':
      src = src.replace('partial def loop', 'def loop')
    for m in FORBIDDEN.finditer(src):
      line = src.count('\n', 0, m.start()) + 1
      hits.append('%s:%d:%s' % (os.path.relpath(p, LEAN), line, m.group(0).strip()))
    if '/Model/' in p:
      for tok in ('head!', 'getD', 'get!', 'partial def'):
        # totalising defaults are banned from Model/ (Array `[i]!` on sized tables excepted)
        if re.search(r'\b' + re.escape(tok), src) and tok != 'getD':
          hits.append('%s:totalising:%s' % (os.path.relpath(p, LEAN), tok))
  return hits


def props_modules(prop_id):
  """Props/<id>.lean plus its extension files Props/<id><Suffix>.lean (e.g. C04Hlbe, C05Pre,
  C02S, C11Primes): all of them carry property theorems of <id> and are audited together."""
  d = os.path.join(LEAN, 'ParanoidModel', 'Props')
  mods = []
  for f in sorted(os.listdir(d)):
    if f.endswith('.lean') and f.startswith(prop_id) and (
        f == prop_id + '.lean' or not f[len(prop_id)].isdigit()):
      mods.append(f[:-5])
  return mods


def theorem_names(prop_id):
  """Names of the theorems declared in Props/<id>*.lean (the obligations)."""
  names = []
  path = os.path.join(LEAN, 'ParanoidModel', 'Props', prop_id + '.lean')
  for mod in props_modules(prop_id):
    p = os.path.join(LEAN, 'ParanoidModel', 'Props', mod + '.lean')
    src = strip_comments(open(p).read())
    ns = re.findall(r'^namespace\s+([\w.]+)', src, re.M)
    prefix = (ns[0] + '.') if ns else ''
    found = re.findall(r'^\s*(?:protected\s+|private\s+)?theorem\s+([\w.\']+)', src, re.M)
    names += [prefix + n for n in found]
  return names, path


def audit_axioms(prop_id):
  """Runs `#print axioms` on every theorem of Props/<id>.lean.

  Returns (ok, {theorem: [axioms]}, log)."""
  names, path = theorem_names(prop_id)
  if not names:
    return False, {}, 'no theorems found in %s' % path
  olean = os.path.join(LEAN, '.lake', 'build', 'lib', 'lean', 'ParanoidModel', 'Props',
                       prop_id + '.olean')
  key = hashlib.sha1()
  for p in lean_sources():
    key.update(open(p, 'rb').read())
  cache = os.path.join(BUILD, 'axioms_%s.json' % prop_id)
  k = key.hexdigest()
  if os.path.exists(cache) and os.path.exists(olean):
    try:
      c = json.load(open(cache))
      if c.get('key') == k:
        return c['ok'], c['axioms'], c['log']
    except Exception:  # noqa
      pass
  tmp = os.path.join(BUILD, 'Audit_%s.lean' % prop_id)
  with open(tmp, 'w') as f:
    for mod in props_modules(prop_id):
      f.write('import ParanoidModel.Props.%s\n' % mod)
    for n in names:
      f.write('#print axioms %s\n' % n)
  with Lock('lake'):
    rc, out = run_cmd(['lake', 'env', 'lean', tmp], cwd=LEAN, timeout=1200)
  axioms = {}
  cur = None
  for m in re.finditer(
      r"'(\S+)' (?:depends on axioms: \[([^\]]*)\]|does not depend on any axioms)", out):
    axioms[m.group(1)] = [a.strip() for a in (m.group(2) or '').replace('\n', ' ').split(',')
                          if a.strip()]
  ok = rc == 0 and all(n in axioms for n in names) and all(
      set(v) <= ACCEPTED_AXIOMS for v in axioms.values())
  log = out if not ok else ''
  json.dump({'key': k, 'ok': ok, 'axioms': axioms, 'log': log}, open(cache, 'w'))
  return ok, axioms, log


# ----------------------------------------------------------------------------
# model driver

def run_driver(lines, timeout=3000):
  """Feeds request lines to the native model driver; returns response lines."""
  if not lines:
    return []
  data = '\n'.join(lines) + '\n'
  p = subprocess.run([DRIVER], input=data, stdout=subprocess.PIPE, stderr=subprocess.PIPE,
                     text=True, timeout=timeout)
  out = p.stdout.split('\n')
  if out and out[-1] == '':
    out.pop()
  if p.returncode != 0 or len(out) != len(lines):
    raise RuntimeError('driver failed rc=%s got %d/%d lines: %s' %
                       (p.returncode, len(out), len(lines), p.stderr[:500]))
  return out


class Batch:
  """Collects (request line, implementation answer) pairs, runs the model once, diffs."""

  def __init__(self, name):
    self.name = name
    self.items = []   # dict(line, impl, tag, pred, info)
    self.tags = {}
    self.setup_lines = []

  def let(self, name, value):
    self.setup_lines.append('let %s %s' % (name, value))

  def add(self, line, impl, tag='', pred=None, info=None, nontrivial=True, canon=None,
          always=False):
    """canon: optional canonicaliser applied to the MODEL's response before comparing.
    always: evaluate `pred` (the property itself, on the implementation) even when model and
    implementation agree — used for clauses that no theorem covers."""
    self.items.append(dict(line=line, impl=impl, tag=tag, pred=pred, info=info,
                           nontrivial=nontrivial, canon=canon, always=always))
    self.tags[tag] = self.tags.get(tag, 0) + 1

  def run(self):
    lines = self.setup_lines + [it['line'] for it in self.items]
    t0 = time.time()
    out = run_driver(lines)[len(self.setup_lines):]
    self.model_s = time.time() - t0
    div = []
    for it, m in zip(self.items, out):
      if it.get('canon') is not None:
        m = it['canon'](m)
      it['model'] = m
      if m != it['impl']:
        div.append(it)
    return div


# ----------------------------------------------------------------------------
# reporting

class Report:

  def __init__(self, prop_id, tier, seed):
    self.prop_id = prop_id
    self.tier = tier
    self.seed = seed
    self.t0 = time.time()
    self.evaluations = 0
    self.distinct = set()
    self.samples = []
    self.tags = {}
    self.divergences = []     # model != impl
    self.violations = []      # property predicate fails on the implementation
    self.known = []           # KNOWN-FINDING lines
    self.broken = []          # broken obligations (theorem names / build)
    self.notes = []
    self.ops = {}
    self.theorems = {}
    self.obligations = 0
    self.discharged = 0
    self.extra = {}

  def absorb(self, batch, div, max_samples=3):
    self.evaluations += len(batch.items)
    self.ops[batch.name] = self.ops.get(batch.name, 0) + len(batch.items)
    for it in batch.items:
      if it['nontrivial']:
        self.distinct.add(hashlib.sha1(it['line'].encode()).digest()[:8])
    for t, c in batch.tags.items():
      self.tags[batch.name + ':' + t] = self.tags.get(batch.name + ':' + t, 0) + c
    k = 0
    for it in batch.items:
      if it['nontrivial'] and k < max_samples:
        self.samples.append({'op': trunc(it['line']), 'impl': trunc(it['impl'])})
        k += 1
    divset = set(id(it) for it in div)
    for it in batch.items:
      if it.get('always') and it['pred'] is not None and id(it) not in divset:
        try:
          failing = it['pred']()
        except Exception as e:  # noqa
          failing = 'predicate raised %r' % (e,)
        self.pred_evaluations = getattr(self, 'pred_evaluations', 0) + 1
        if failing:
          self.violations.append(dict(op=batch.name, line=it['line'], what=failing,
                                      impl=it['impl'], model=it.get('model'), info=it['info']))
    for it in div:
      d = dict(op=batch.name, line=it['line'], impl=it['impl'], model=it['model'],
               tag=it['tag'], info=it['info'])
      failing = None
      if it['pred'] is not None:
        try:
          failing = it['pred']()
        except Exception as e:  # noqa
          failing = 'predicate raised %r' % (e,)
      d['property_fails'] = failing
      self.divergences.append(d)
      if failing:
        self.violations.append(dict(op=batch.name, line=it['line'], what=failing,
                                    impl=it['impl'], model=it['model'], info=it['info']))


def trunc(s, n=400):
  s = str(s)
  return s if len(s) <= n else s[:n] + '…(%d chars)' % len(s)


def manifest_category(prop_id):
  """the category claimed for this property in MANIFEST.json (evidence `level` must match it)."""
  try:
    m = json.load(open(os.path.join(VERIF, 'MANIFEST.json')))
    for c in m.get('checks', []):
      if c.get('property_id') == prop_id:
        return c.get('level_claimed', {}).get('category', 'proof')
  except Exception:  # noqa
    pass
  return 'proof'


def load_known_findings():
  p = os.path.join(VERIF, 'known_findings.json')
  if not os.path.exists(p):
    return []
  return json.load(open(p)).get('findings', [])


def finish(rep, level_text_base, trusted_base, assumptions, checker_cmd):
  """Writes evidence, prints VIOLATION / KNOWN-FINDING lines, returns exit code."""
  wall = time.time() - rep.t0
  viol_lines = []
  os.makedirs(os.path.join(VERIF, 'replays'), exist_ok=True)
  n = 0
  for v in rep.violations:
    n += 1
    path = os.path.join(VERIF, 'replays', '%s_%s_%d.json' % (rep.prop_id, rep.seed, n))
    json.dump(dict(property=rep.prop_id, kind='failing-input', seed=rep.seed, tier=rep.tier,
                   **jsonable(v)),
              open(path, 'w'), indent=1)
    viol_lines.append('VIOLATION property=%s replay=%s' % (rep.prop_id, path))
    if n >= 5:
      break
  if not rep.violations and (rep.divergences or rep.broken):
    path = os.path.join(VERIF, 'replays', '%s_%s_unproved.json' % (rep.prop_id, rep.seed))
    json.dump(dict(property=rep.prop_id, kind='obligation-broken', seed=rep.seed, tier=rep.tier,
                   broken_theorems_or_build=rep.broken,
                   diverging_correspondence=[jsonable(d) for d in rep.divergences[:20]],
                   note='model/theorem no longer tied to the code; failing-input search '
                        'found no input on which the property itself fails'),
              open(path, 'w'), indent=1)
    viol_lines.append('VIOLATION property=%s replay=%s no-failing-input-found' %
                      (rep.prop_id, path))
  ev = {
      'property_id': rep.prop_id,
      'tier': rep.tier,
      'seed': rep.seed,
      'level': manifest_category(rep.prop_id),
      'coverage': {
          'obligations': rep.obligations,
          'discharged': rep.discharged,
          'checker_cmd': checker_cmd,
          'trusted_base': trusted_base,
          'theorems': rep.theorems,
          'evaluations': rep.evaluations,
          'distinct_nontrivial': len(rep.distinct),
          'rule': ('correspondence inputs: each is one line of the model line protocol run on '
                   'both the Lean model and the Python/C++ implementation; distinct = distinct '
                   'request lines, non-trivial = not flagged trivial by its generator'),
          'samples': rep.samples[:12],
          'traces_validated_against_impl': rep.evaluations,
          'ops': rep.ops,
          'branch_tags': rep.tags,
          'divergences': len(rep.divergences),
          'broken_obligations': rep.broken,
          'known_findings': rep.known,
          'notes': rep.notes,
          **rep.extra,
      },
      'assumptions': assumptions,
      'wall_s': round(wall, 2),
      'violations': len(viol_lines),
  }
  cov = ev['coverage']
  if ev['level'] == 'other':
    cov['explanation'] = ('mixed level: the deterministic clauses of this property are Lean theorems (obligations / discharged / '
                          'checker_cmd / trusted_base above are the proof part, audited on this run), the clause that rests on a '
                          'heuristic, an LLL oracle or a probability is explored on the real implementation only (evaluations, '
                          'branch_tags and the planted-family statistics above); see MANIFEST level_claimed.text for which clause is which')
  if 'exhaustive' in cov and not isinstance(cov['exhaustive'], bool):
    cov['exhaustive_detail'] = cov.pop('exhaustive')
  for k in ('evaluations', 'distinct_nontrivial', 'obligations', 'discharged'):
    cov[k] = int(cov[k])
  json.dump(ev, open(os.path.join(EVID, rep.prop_id + '.json'), 'w'), indent=1)
  for k in rep.known:
    print('KNOWN-FINDING: property=%s %s' % (rep.prop_id, k))
  for l in viol_lines:
    print(l)
  print('%s tier=%s seed=%s obligations=%d/%d evaluations=%d divergences=%d wall=%.1fs' %
        (rep.prop_id, rep.tier, rep.seed, rep.discharged, rep.obligations, rep.evaluations,
         len(rep.divergences), wall))
  return 1 if viol_lines else 0


def jsonable(x):
  if isinstance(x, dict):
    return {str(k): jsonable(v) for k, v in x.items() if not callable(v)}
  if isinstance(x, (list, tuple, set)):
    return [jsonable(v) for v in x]
  if isinstance(x, (int,)) and not isinstance(x, bool) and abs(x) > 2**53:
    return hex(x)
  if isinstance(x, (str, int, float, bool)) or x is None:
    return x
  return repr(x)
