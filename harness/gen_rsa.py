"""Generators of RSA moduli: healthy, every documented weak family, degenerate."""
import gmpy2


def rprime(rng, bits):
  while True:
    p = rng.getrandbits(bits) | (1 << (bits - 1)) | 1
    p = int(gmpy2.next_prime(p))
    if p.bit_length() == bits:
      return p


def semiprime(rng, bits):
  pb = bits // 2
  return rprime(rng, pb), rprime(rng, bits - pb)


def close_primes(rng, bits, dist_bits):
  """q = next_prime(p + delta) with delta ~ 2^dist_bits."""
  pb = bits // 2
  p = rprime(rng, pb)
  q = int(gmpy2.next_prime(p + rng.getrandbits(max(1, dist_bits))))
  return p, q


def fermat_exact(rng, bits, steps):
  """primes whose Fermat distance (p+q)/2 - ceil(sqrt n) is near `steps`."""
  pb = bits // 2
  p = rprime(rng, pb)
  # (p+q)/2 - sqrt(pq) ~ (q-p)^2 / (8 p)  => q - p ~ sqrt(8 p steps)
  d = int(gmpy2.isqrt(8 * p * max(1, steps)))
  q = int(gmpy2.next_prime(p + d))
  return p, q


def high_low_equal(rng, bits, r, s):
  """p, q agree on r low bits and s high bits."""
  pb = bits // 2
  while True:
    p = rprime(rng, pb)
    mid = rng.getrandbits(pb - r - s) if pb - r - s > 0 else 0
    q = (p >> (pb - s) << (pb - s)) | (mid << r) | (p & ((1 << r) - 1))
    q |= 1
    for _ in range(2000):
      if gmpy2.is_prime(q) and q != p:
        return p, int(q)
      q += 1 << r if r < pb - s else 2
      if (q >> (pb - s)) != (p >> (pb - s)):
        break


def pattern_prime(rng, bits, w, lowbits=24):
  """p = w-bit word repeated, except for ~lowbits low-order bits."""
  word = rng.getrandbits(w) | (1 << (w - 1))
  reps = bits // w + 1
  p = 0
  for _ in range(reps):
    p = (p << w) | word
  p >>= (p.bit_length() - bits)
  p = (p >> lowbits << lowbits) | rng.getrandbits(lowbits) | 1
  return int(gmpy2.next_prime(p))


def smooth_prime(rng, bits, smooth_bits=16):
  """prime p with p-1 smooth (product of small primes)."""
  while True:
    m = 2
    while m.bit_length() < bits - 1:
      m *= int(gmpy2.next_prime(rng.getrandbits(smooth_bits)))
    for k in range(1, 400):
      if gmpy2.is_prime(m * k + 1):
        return m * k + 1


def low_weight_prime(rng, bits, weight):
  tries = 0
  while True:
    tries += 1
    if tries > 3000:      # no prime of this weight may exist (e.g. weight 3 at 256 bits)
      weight += 1
      tries = 0
    p = (1 << (bits - 1)) | 1
    for _ in range(weight - 2):
      p |= 1 << rng.randrange(1, bits - 1)
    if gmpy2.is_prime(p):
      return p


def degenerate(rng, bits):
  """primes, prime squares, even numbers, powers of two, odd bit lengths, ..."""
  out = []
  p = rprime(rng, bits)
  out.append(('prime', p))
  h = rprime(rng, bits // 2)
  out.append(('primesquare', h * h))
  out.append(('even', 2 * rprime(rng, bits - 1)))
  out.append(('pow2', 1 << (bits - 1)))
  out.append(('pow2m1', (1 << bits) - 1))
  out.append(('pow2p1', (1 << (bits - 1)) + 1))
  a, b, c = rprime(rng, bits // 3), rprime(rng, bits // 3), rprime(rng, bits // 3)
  out.append(('threeprimes', a * b * c))
  out.append(('smallfactor', 3 * rprime(rng, bits - 2)))
  out.append(('cube', rprime(rng, bits // 3) ** 3))
  return out


def shared_smooth(rng, bits, gbits=64, smooth_bits=10, q_smooth=False):
  """primes p, q with p-1 and q-1 sharing a smooth factor g of ~gbits bits; p-1 fully smooth;
  q-1 smooth only if q_smooth."""
  small = [x for x in range(3, 1 << smooth_bits) if gmpy2.is_prime(x)]
  rng.shuffle(small)
  g = 2
  for x in small:
    if g.bit_length() >= gbits:
      break
    g *= x
  def smooth_mult(target_bits):
    # p - 1 = g * (distinct small primes not in g): squarefree, so it divides any Pollard
    # product that contains every prime below 2^smooth_bits
    rest = [x for x in small if g % x != 0]
    for _ in range(600):
      rng.shuffle(rest)
      m = g
      for x in rest:
        if m.bit_length() >= target_bits - 1:
          break
        m *= x
      if gmpy2.is_prime(m + 1) :
        return m + 1
    return None
  def rough_mult(target_bits):
    for _ in range(5000):
      c = int(gmpy2.next_prime(rng.getrandbits(target_bits - g.bit_length())))
      if gmpy2.is_prime(g * c + 1):
        return g * c + 1
    return None
  for _ in range(50):
    p = smooth_mult(bits // 2)
    q = smooth_mult(bits // 2) if q_smooth else rough_mult(bits // 2)
    if p and q and p != q:
      return p, q, g
  raise RuntimeError('shared_smooth: no primes found (bits=%d gbits=%d smooth_bits=%d)' %
                     (bits, gbits, smooth_bits))


def high_low_equal_extreme(rng, bits, r, s):
  """p, q agree on r low and s high bits; the middle bits of p are (almost) all 0 and those of
  q (almost) all 1, so |p - q| is as large as the shared bits allow."""
  pb = bits // 2
  if pb - r - s < 8:
    return None
  top = (1 << (s - 1)) | rng.getrandbits(s - 1) if s > 1 else 1
  low = rng.getrandbits(r) | 1
  midbits = pb - r - s
  base = (top << (pb - s)) | low
  p = q = None
  for j in range(4000):
    c = base | (j << r)
    if gmpy2.is_prime(c):
      p = c
      break
  allones = ((1 << midbits) - 1) << r
  for j in range(4000):
    c = (base | allones) - (j << r)
    if gmpy2.is_prime(c):
      q = c
      break
  if p is None or q is None or p == q:
    return None
  return int(p), int(q)


def leading_ones_prime(rng, bits, lead, extra):
  """sparse prime whose `lead` top bits are all ones, plus `extra` random bits and bit 0."""
  tries = 0
  while True:
    tries += 1
    if tries > 3000:
      extra += 1
      tries = 0
    p = (((1 << lead) - 1) << (bits - lead)) | 1
    for _ in range(extra):
      p |= 1 << rng.randrange(1, bits - lead)
    if gmpy2.is_prime(p):
      return p
