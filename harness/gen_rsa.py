"""Generators of RSA moduli: healthy, every documented weak family, degenerate."""
import gmpy2


def rprime(rng, bits):
  while True:
    p = rng.getrandbits(bits) | (1 << (bits - 1)) | 1
    p = int(gmpy2.next_prime(p))
    if p.bit_length() == bits:
      return p


def semiprime(rng, bits):
  pb = bits // 2
  return rprime(rng, pb), rprime(rng, bits - pb)


def close_primes(rng, bits, dist_bits):
  """q = next_prime(p + delta) with delta ~ 2^dist_bits."""
  pb = bits // 2
  p = rprime(rng, pb)
  q = int(gmpy2.next_prime(p + rng.getrandbits(max(1, dist_bits))))
  return p, q


def fermat_exact(rng, bits, steps):
  """primes whose Fermat distance (p+q)/2 - ceil(sqrt n) is near `steps`."""
  pb = bits // 2
  p = rprime(rng, pb)
  # (p+q)/2 - sqrt(pq) ~ (q-p)^2 / (8 p)  => q - p ~ sqrt(8 p steps)
  d = int(gmpy2.isqrt(8 * p * max(1, steps)))
  q = int(gmpy2.next_prime(p + d))
  return p, q


def high_low_equal(rng, bits, r, s):
  """p, q agree on r low bits and s high bits."""
  pb = bits // 2
  while True:
    p = rprime(rng, pb)
    mid = rng.getrandbits(pb - r - s) if pb - r - s > 0 else 0
    q = (p >> (pb - s) << (pb - s)) | (mid << r) | (p & ((1 << r) - 1))
    q |= 1
    for _ in range(2000):
      if gmpy2.is_prime(q) and q != p:
        return p, int(q)
      q += 1 << r if r < pb - s else 2
      if (q >> (pb - s)) != (p >> (pb - s)):
        break


def pattern_prime(rng, bits, w, lowbits=24):
  """p = w-bit word repeated, except for ~lowbits low-order bits."""
  word = rng.getrandbits(w) | (1 << (w - 1))
  reps = bits // w + 1
  p = 0
  for _ in range(reps):
    p = (p << w) | word
  p >>= (p.bit_length() - bits)
  p = (p >> lowbits << lowbits) | rng.getrandbits(lowbits) | 1
  return int(gmpy2.next_prime(p))


def smooth_prime(rng, bits, smooth_bits=16):
  """prime p with p-1 smooth (product of small primes)."""
  while True:
    m = 2
    while m.bit_length() < bits - 1:
      m *= int(gmpy2.next_prime(rng.getrandbits(smooth_bits)))
    for k in range(1, 400):
      if gmpy2.is_prime(m * k + 1):
        return m * k + 1


def low_weight_prime(rng, bits, weight):
  tries = 0
  while True:
    tries += 1
    if tries > 3000:      # no prime of this weight may exist (e.g. weight 3 at 256 bits)
      weight += 1
      tries = 0
    p = (1 << (bits - 1)) | 1
    for _ in range(weight - 2):
      p |= 1 << rng.randrange(1, bits - 1)
    if gmpy2.is_prime(p):
      return p


def degenerate(rng, bits):
  """primes, prime squares, even numbers, powers of two, odd bit lengths, ..."""
  out = []
  p = rprime(rng, bits)
  out.append(('prime', p))
  h = rprime(rng, bits // 2)
  out.append(('primesquare', h * h))
  out.append(('even', 2 * rprime(rng, bits - 1)))
  out.append(('pow2', 1 << (bits - 1)))
  out.append(('pow2m1', (1 << bits) - 1))
  out.append(('pow2p1', (1 << (bits - 1)) + 1))
  a, b, c = rprime(rng, bits // 3), rprime(rng, bits // 3), rprime(rng, bits // 3)
  out.append(('threeprimes', a * b * c))
  out.append(('smallfactor', 3 * rprime(rng, bits - 2)))
  out.append(('cube', rprime(rng, bits // 3) ** 3))
  return out


def shared_smooth(rng, bits, gbits=64, smooth_bits=10, q_smooth=False):
  """primes p, q with p-1 and q-1 sharing a smooth factor g of ~gbits bits; p-1 fully smooth;
  q-1 smooth only if q_smooth."""
  small = [x for x in range(3, 1 << smooth_bits) if gmpy2.is_prime(x)]
  rng.shuffle(small)
  g = 2
  for x in small:
    if g.bit_length() >= gbits:
      break
    g *= x
  def smooth_mult(target_bits):
    # p - 1 = g * (distinct small primes not in g): squarefree, so it divides any Pollard
    # product that contains every prime below 2^smooth_bits
    rest = [x for x in small if g % x != 0]
    for _ in range(600):
      rng.shuffle(rest)
      m = g
      for x in rest:
        if m.bit_length() >= target_bits - 1:
          break
        m *= x
      if gmpy2.is_prime(m + 1) :
        return m + 1
    return None
  def rough_mult(target_bits):
    for _ in range(5000):
      c = int(gmpy2.next_prime(rng.getrandbits(target_bits - g.bit_length())))
      if gmpy2.is_prime(g * c + 1):
        return g * c + 1
    return None
  for _ in range(50):
    p = smooth_mult(bits // 2)
    q = smooth_mult(bits // 2) if q_smooth else rough_mult(bits // 2)
    if p and q and p != q:
      return p, q, g
  raise RuntimeError('shared_smooth: no primes found (bits=%d gbits=%d smooth_bits=%d)' %
                     (bits, gbits, smooth_bits))


def high_low_equal_extreme(rng, bits, r, s):
  """p, q agree on r low and s high bits; the middle bits of p are (almost) all 0 and those of
  q (almost) all 1, so |p - q| is as large as the shared bits allow."""
  pb = bits // 2
  if pb - r - s < 8:
    return None
  top = (1 << (s - 1)) | rng.getrandbits(s - 1) if s > 1 else 1
  low = rng.getrandbits(r) | 1
  midbits = pb - r - s
  base = (top << (pb - s)) | low
  p = q = None
  for j in range(4000):
    c = base | (j << r)
    if gmpy2.is_prime(c):
      p = c
      break
  allones = ((1 << midbits) - 1) << r
  for j in range(4000):
    c = (base | allones) - (j << r)
    if gmpy2.is_prime(c):
      q = c
      break
  if p is None or q is None or p == q:
    return None
  return int(p), int(q)


def leading_ones_prime(rng, bits, lead, extra):
  """sparse prime whose `lead` top bits are all ones, plus `extra` random bits and bit 0."""
  tries = 0
  while True:
    tries += 1
    if tries > 3000:
      extra += 1
      tries = 0
    p = (((1 << lead) - 1) << (bits - lead)) | 1
    for _ in range(extra):
      p |= 1 << rng.randrange(1, bits - lead)
    if gmpy2.is_prime(p):
      return p


# ---------------------------------------------------------------------------------------------
# C05 families stated by the property text (exact constructions; every function returns the
# planted pattern too so that the caller can evaluate the clause on the implementation)

def _prime_in_window(rng, base, lowbits, tries=6000):
  """a prime p with base <= p < base + 2^lowbits (base is a multiple of 2^lowbits), or None."""
  if lowbits <= 0:
    return base if gmpy2.is_prime(base) else None
  span = 1 << lowbits
  if span <= 2 * tries:
    cands = [base + k for k in range(1, span, 2)]
    rng.shuffle(cands)
  else:
    cands = (base + (rng.getrandbits(lowbits) | 1) for _ in range(tries))
  for c in cands:
    if gmpy2.is_prime(c):
      return int(c)
  return None


def periodic_pattern(word, w, bits):
  """the w-bit word repeated and cut to `bits` bits, top aligned: floor(word*2^bits/(2^w-1))
  (word < 2^w - 1)."""
  return (word << bits) // ((1 << w) - 1)


def periodic_prime(rng, bits, w, lowbits, attempts=40):
  """prime p of `bits` bits = repetition of a w-bit word (top aligned, cut at the bottom) except
  for its `lowbits` low-order bits: p XOR pattern < 2^lowbits. Returns (p, word) or None when no
  such prime was found (short windows / w = 1)."""
  for _ in range(attempts):
    if w == 1:
      pat = (1 << bits) - 1                      # the only 1-bit word with a leading one
      word = 1
    else:
      word = rng.getrandbits(w) | (1 << (w - 1))
      if word == (1 << w) - 1:
        pat = (1 << bits) - 1
      else:
        pat = periodic_pattern(word, w, bits)
    base = pat >> lowbits << lowbits
    p = _prime_in_window(rng, base, lowbits)
    if p is not None and p.bit_length() == bits:
      return p, word
  return None


def swap_limbs(x, ws, nlimbs):
  """swaps the adjacent ws-bit limbs (2j, 2j+1), limbs counted from bit 0."""
  mask = (1 << ws) - 1
  out = 0
  for j in range(0, nlimbs, 2):
    lo = (x >> (j * ws)) & mask
    hi = (x >> ((j + 1) * ws)) & mask
    out |= (lo << ((j + 1) * ws)) | (hi << (j * ws))
  return out


def permuted_denominator(ws, ps):
  return ((1 << ps) - 1) * ((1 << (ps * ws)) + 1) // ((1 << ws) + 1)


def swapped_prime(rng, bits, ps, ws, lowbits, attempts=40):
  """prime p of `bits` bits (bits a multiple of 2*ws) = the ps-bit word repetition
  floor(word*2^bits/(2^ps-1)) with adjacent ws-bit limbs swapped, except for `lowbits` low-order
  bits. Returns (p, word) or None."""
  assert bits % (2 * ws) == 0
  for _ in range(attempts):
    word = rng.getrandbits(ps) | (1 << (ps - 1))
    if word == (1 << ps) - 1:
      continue
    p1 = swap_limbs(periodic_pattern(word, ps, bits), ws, bits // ws)
    if p1.bit_length() != bits:
      continue                                    # the swap moved a zero limb to the top
    base = p1 >> lowbits << lowbits
    p = _prime_in_window(rng, base, lowbits)
    if p is not None and p.bit_length() == bits:
      return p, word
  return None


def two_pattern_primes(rng, bits, w1, w2, lowbits):
  """both primes are word repetitions (word sizes w1, w2 <= 64) apart from `lowbits` low bits."""
  a = periodic_prime(rng, bits // 2, w1, lowbits)
  b = periodic_prime(rng, bits - bits // 2, w2, lowbits)
  if a is None or b is None or a[0] == b[0]:
    return None
  return a[0], b[0]


def exact_weight_prime(rng, bits, weight, tries=20000):
  """prime of exactly `bits` bits and exactly `weight` one-bits (top and bottom bit set), or None."""
  if weight < 2:
    return None
  for _ in range(tries):
    p = (1 << (bits - 1)) | 1
    for i in rng.sample(range(1, bits - 1), weight - 2):
      p |= 1 << i
    if gmpy2.is_prime(p):
      return p
  return None


def shared_power_smooth(rng, bits, gfac, p_extra_bits=None, q_smooth=False, smooth_bits=10):
  """primes p, q with p-1 = 2*g*(squarefree small primes), q-1 = 2*g*(cofactor), where
  g = prod(r^k for r, k in gfac) may contain prime POWERS. q-1's cofactor is a large prime unless
  q_smooth. Returns (p, q, g) or None."""
  g = 1
  for r, k in gfac:
    g *= r ** k
  used = {r for r, _ in gfac} | {2}
  small = [x for x in range(3, 1 << smooth_bits) if gmpy2.is_prime(x) and x not in used]

  def smooth_mult(target_bits):
    for _ in range(3000):
      rng.shuffle(small)
      m = 2 * g
      for x in small:
        if m.bit_length() >= target_bits - 1:
          break
        m *= x
      if gmpy2.is_prime(m + 1):
        return m + 1
    return None

  def rough_mult(target_bits):
    cb = max(22, target_bits - (2 * g).bit_length())
    for _ in range(20000):
      c = int(gmpy2.next_prime(rng.getrandbits(cb) | (1 << (cb - 1))))
      if gmpy2.is_prime(2 * g * c + 1):
        return 2 * g * c + 1
    return None
  tb = max(bits // 2, (2 * g).bit_length() + 24)
  p = smooth_mult(tb)
  q = smooth_mult(tb + 2) if q_smooth else rough_mult(tb)
  if p and q and p != q:
    return p, q, g
  return None
