"""Recorded measurement behind corr/c08_margin.gated (not run by ./check).

The gated region of corr/c08_margin.py is a FIXED corpus: every instance (curve id, #signatures, bits, kind, seed) with
curve in (2, 6, 4, 5), kind in KINDS, #signatures in GATE_NSIG, bits = max(16, ceil(2 L / #signatures)) and
seed in range(GATE_SEEDS) - 4 x 3 x 3 x 60 = 2160 signature sets, each a deterministic function of its five parameters
(make_sigs).  This script runs the real nonce check on every member and writes harness/corpus/c08_margin_measurement.json
(found / missed members).  ./check C08 draws its gated instances from the members recorded as found, so a miss there is a
regression of deterministic code on a recorded input and never a false alarm.

usage: /venv/bin/python harness/measure_c08_margin.py [workers=8]   (about 3 min with 8 workers)"""
import json
import math
import os
import sys
import time

HERE = os.path.dirname(os.path.abspath(__file__))
sys.path.insert(0, HERE)
import shims  # noqa
shims.install()
from multiprocessing import Pool  # noqa
from corr import c08_margin as cm  # noqa


def main():
  workers = int(sys.argv[1]) if len(sys.argv) > 1 else 8
  t0 = time.time()
  plan = cm.gate_corpus()
  missed = []
  with Pool(workers) as pool:
    for t, ok in pool.imap_unordered(cm._found_star, plan, chunksize=4):
      if not ok:
        missed.append(list(t))
        print('MISS', t, flush=True)
  doc = dict(
      comment='measurement behind corr/c08_margin.gated: the fixed corpus of gated instances (curve id, signatures, bits, kind, '
              'seed) run through the real nonce checks; written by harness/measure_c08_margin.py',
      written=time.strftime('%Y-%m-%d %H:%M:%S'), wall_s=round(time.time() - t0, 1), workers=workers,
      curves=list(cm.GATE_CURVES), nsig=list(cm.GATE_NSIG), kinds=list(cm.KINDS), seeds=cm.GATE_SEEDS,
      instances=len(plan), found=len(plan) - len(missed), missed=sorted(missed))
  out = cm.GATE_MEASUREMENT_FILE
  os.makedirs(os.path.dirname(out), exist_ok=True)
  json.dump(doc, open(out, 'w'), indent=1)
  print('instances %d found %d missed %d wall %.0f s' % (len(plan), len(plan) - len(missed), len(missed), time.time() - t0))


if __name__ == '__main__':
  main()
