"""Recorded measurement behind PLANTED_ROOT_GATE of corr/c19_misc.py (review-2 M7; not run by ./check).

For every planted-root family of the tables of corr/c19_misc.py (UNI_SIZES, MODP_FAMS, MODN_FAMS and their
thorough-tier extensions) that lies inside the gate formula, runs the REAL finders (small_roots.univariate_modp /
multivariate_modp / multivariate_modn with the real lll.reduce, linalg_util.solve_right, sympy.solve) on instances
built by the SAME functions as the harness (c19_misc.uni_instances / modp_instance / modn_instance) from seeds
random.Random('c19-gate-measure-v1/<family>/<i>') (independent of VERIF_SEED), and on the fixed corpus
random.Random('c19-gate-corpus-v1/<family>/<i>'), i < 6, that ./check C19 evaluates on every run.

Instances per family: 20000 for a family AT THE EDGE of the region (bound + 1 bit is outside), 4000 for a family
further inside, 2000 for the 512- and 1024-bit families.  Writes harness/corpus/c19_gate_measurement.json:
per family instances / found / misses (+ replay of every miss), corpus_instances / corpus_found / corpus_digest.
corr/c19_misc.gate_entry gates a family only if its entry has zero misses.

usage: /venv/bin/python harness/measure_c19_gate.py [workers=8] [scale=1.0] [out=harness/corpus/c19_gate_measurement.json]
(about 27 min with 8 workers), then `... measure_c19_gate.py probe [workers=8]` (3 min; adds 'margin_probe' to the file)"""
import hashlib
import json
import os
import random
import subprocess
import sys
import time

HERE = os.path.dirname(os.path.abspath(__file__))
sys.path.insert(0, HERE)
import shims  # noqa
shims.install()
import sympy  # noqa
from multiprocessing import Pool  # noqa
from paranoid_crypto.lib import small_roots as sr  # noqa
from corr import c19_misc as cm  # noqa

x = sympy.Symbol('x')
x1, x2 = sympy.symbols('x1, x2')
MEASURE_SEED = 'c19-gate-measure-v1'
CORPUS_SIZE = 6
N_EDGE, N_INSIDE, N_BIG = 20000, 4000, 2000


def groups():
  """[(kind, params, edge, [family names])] for every table entry inside the gate formula."""
  out = []
  for bits, ub, k in cm.UNI_SIZES + cm.UNI_SIZES_THOROUGH:
    if cm.uni_gate(bits, ub, k):
      out.append(('uni', (bits, ub, k), not cm.uni_gate(bits, ub + 1, k),
                  [cm.uni_family(sub, bits, ub, k) for sub in cm.UNI_SUBFAMILIES]))
  for bits, (u1, u2), m in cm.MODP_FAMS + cm.MODP_FAMS_THOROUGH:
    if cm.modp_gate(bits, u1, u2, m):
      lo, hi = min(u1, u2), max(u1, u2)
      nxt = (lo + 1, hi) if lo < hi else (lo, hi + 1)         # one more unknown bit, still balanced
      out.append(('modp', (bits, u1, u2, m), not cm.modp_gate(bits, nxt[0], nxt[1], m), [cm.modp_family(bits, u1, u2, m)]))
  for bits, (u1, u2), m in cm.MODN_FAMS + cm.MODN_FAMS_THOROUGH:
    if cm.modn_gate(bits, u1, u2, m):
      lo, hi = min(u1, u2), max(u1, u2)
      nxt = (lo + 1, hi) if lo < hi else (lo, hi + 1)
      out.append(('modn', (bits, u1, u2, m), not cm.modn_gate(bits, nxt[0], nxt[1], m), [cm.modn_family(bits, u1, u2, m)]))
  return out


def group_name(kind, params):
  """the name the harness hands to corpus_rng for this group."""
  if kind == 'uni':
    return 'uni-k%d-%dbit-ub%d' % (params[2], params[0], params[1])
  return (cm.modp_family if kind == 'modp' else cm.modn_family)(*params)


def run(job):
  """one key pair: [(family, found, replay-or-None)], seconds."""
  kind, params, src, i = job
  name = group_name(kind, params)
  rng = cm.corpus_rng(name, i) if src == 'corpus' else random.Random('%s/%s/%d' % (MEASURE_SEED, name, i))
  t0 = time.time()
  out = []
  if kind == 'uni':
    bits, ub, k = params
    for sub, f, bnd, planted, p, q, n in cm.uni_instances(rng, bits, ub, k, sympy, x):
      try:
        r = sr.univariate_modp(f, bnd, k)
        ok, ret = (r is not None and int(r) == planted), (None if r is None else int(r))
      except Exception as e:  # noqa
        ok, ret = False, 'raised %r' % (e,)
      out.append((cm.uni_family(sub, bits, ub, k), ok,
                  None if ok else dict(p=hex(p), q=hex(q), bound_bits=bnd.bit_length() - 1, k=k, planted=hex(planted),
                                       returned=ret if not isinstance(ret, int) else hex(ret), index=i, source=src)))
  else:
    bits, u1, u2, m = params
    f, bounds, planted, p, q, n = (cm.modp_instance if kind == 'modp' else cm.modn_instance)(rng, bits, u1, u2, sympy, x1, x2)
    try:
      r = (sr.multivariate_modp if kind == 'modp' else sr.multivariate_modn)(f, bounds, m)
      ok, ret = (r is not None and [int(v) for v in r] == planted), (None if r is None else [hex(int(v)) for v in r])
    except Exception as e:  # noqa
      ok, ret = False, 'raised %r' % (e,)
    out.append((name, ok, None if ok else dict(p=hex(p), q=hex(q), u=(u1, u2), m=m, planted=[hex(v) for v in planted],
                                               returned=ret, index=i, source=src)))
  return kind, params, src, i, out, time.time() - t0


def corpus_digest(kind, params):
  h = hashlib.sha1()
  for i in range(CORPUS_SIZE):
    rng = cm.corpus_rng(group_name(kind, params), i)
    if kind == 'uni':
      inst = cm.uni_instances(rng, params[0], params[1], params[2], sympy, x)
      h.update(repr([(s_, t[3], t[4], t[5]) for t in inst for s_ in [t[0]]]).encode())
    else:
      f, bounds, planted, p, q, n = (cm.modp_instance if kind == 'modp' else cm.modn_instance)(
          rng, params[0], params[1], params[2], sympy, x1, x2)
      h.update(repr((planted, p, q)).encode())
  return h.hexdigest()


# one more bit (or two) of margin for the families in which the main measurement saw misses: the misses are NOT
# margin failures (the rate does not fall with the margin), so the gate cannot be repaired by moving its edge
MARGIN_PROBE = [('modp', (64, 4, 4, 3)), ('modp', (64, 3, 4, 3)), ('modn', (128, 37, 37, 1)), ('modn', (128, 36, 37, 1)),
                ('modn', (96, 26, 27, 1)), ('modn', (64, 15, 16, 1))]


def probe(workers, out_path):
  """`measure_c19_gate.py probe [workers]`: MARGIN_PROBE families, N_EDGE instances each, merged into the existing
  measurement file under 'margin_probe'."""
  t0 = time.time()
  acc = {}
  jobs = [(k, p_, 'measure', i) for k, p_ in MARGIN_PROBE for i in range(N_EDGE)]
  with Pool(workers) as pool:
    for kind, params, src, i, out, dt in pool.imap_unordered(run, jobs, chunksize=50):
      for nm, ok, rp in out:
        e = acc.setdefault(nm, dict(kind=kind, params=list(params), instances=0, found=0, misses=0, miss_replays=[]))
        e['instances'] += 1
        e['found'] += 1 if ok else 0
        if not ok:
          e['misses'] += 1
          e['miss_replays'].append(rp)
  doc = json.load(open(out_path))
  doc['margin_probe'] = dict(
      comment='families one or two bits further inside than the edge families in which the main measurement saw misses '
              '(same seeds scheme): the miss rate does not fall with the margin',
      written=time.strftime('%Y-%m-%d %H:%M:%S'), wall_s=round(time.time() - t0, 1), families=dict(sorted(acc.items())))
  json.dump(doc, open(out_path, 'w'), indent=1)
  for nm, e in sorted(acc.items()):
    print('%-48s %d/%d' % (nm, e['found'], e['instances']))


def main():
  if len(sys.argv) > 1 and sys.argv[1] == 'probe':
    return probe(int(sys.argv[2]) if len(sys.argv) > 2 else 8, sys.argv[3] if len(sys.argv) > 3 else cm.GATE_MEASUREMENT_FILE)
  workers = int(sys.argv[1]) if len(sys.argv) > 1 else 8
  scale = float(sys.argv[2]) if len(sys.argv) > 2 else 1.0
  out_path = sys.argv[3] if len(sys.argv) > 3 else cm.GATE_MEASUREMENT_FILE
  t0 = time.time()
  fams = {}
  jobs = []
  for kind, params, edge, names in groups():
    target = N_BIG if params[0] >= 512 else N_EDGE if edge else N_INSIDE
    target = max(10, int(target * scale))
    for nm in names:
      fams[nm] = dict(kind=kind, params=list(params), edge=edge, target=target, instances=0, found=0, misses=0,
                      miss_replays=[], corpus_instances=CORPUS_SIZE, corpus_found=0,
                      corpus_digest=corpus_digest(kind, params), seconds=0.0)
    jobs += [(kind, params, 'corpus', i) for i in range(CORPUS_SIZE)]
    jobs += [(kind, params, 'measure', i) for i in range(target)]
  # interleave the families so that an interrupted run is balanced
  random.Random(0).shuffle(jobs)
  done = 0
  with Pool(workers) as pool:
    for kind, params, src, i, out, dt in pool.imap_unordered(run, jobs, chunksize=20):
      for nm, ok, rp in out:
        e = fams[nm]
        e['seconds'] += dt / len(out)
        if src == 'corpus':
          e['corpus_found'] += 1 if ok else 0
          if not ok:
            e['miss_replays'].append(rp)
        else:
          e['instances'] += 1
          e['found'] += 1 if ok else 0
          if not ok:
            e['misses'] += 1
            if len(e['miss_replays']) < 20:
              e['miss_replays'].append(rp)
            print('MISS', nm, rp, flush=True)
      done += 1
      if done % 5000 == 0:
        print('%d/%d key pairs, %.0f s' % (done, len(jobs), time.time() - t0), flush=True)
  for e in fams.values():
    e['seconds'] = round(e['seconds'], 1)
  import fpylll
  try:
    repo_head = subprocess.run(['git', '-C', os.environ.get('VERIF_REPO', '/repo'), 'rev-parse', 'HEAD'],
                               stdout=subprocess.PIPE, text=True).stdout.strip()
  except Exception:  # noqa
    repo_head = '?'
  doc = dict(
      comment='measurement behind PLANTED_ROOT_GATE of harness/corr/c19_misc.py; written by harness/measure_c19_gate.py; '
              'a family is gated by ./check C19 only if its entry here has misses == 0',
      written=time.strftime('%Y-%m-%d %H:%M:%S'), command=' '.join(sys.argv), workers=workers, scale=scale,
      wall_s=round(time.time() - t0, 1), repo_head=repo_head,
      versions=dict(python=sys.version.split()[0], sympy=sympy.__version__, fpylll=getattr(fpylll, '__version__', '?')),
      seeds=dict(measure=MEASURE_SEED + '/<group>/<i>', corpus=cm.GATE_CORPUS_SEED + '/<group>/<i>'),
      totals=dict(families=len(fams), instances=sum(e['instances'] for e in fams.values()),
                  found=sum(e['found'] for e in fams.values()), misses=sum(e['misses'] for e in fams.values()),
                  corpus_instances=sum(e['corpus_instances'] for e in fams.values()),
                  corpus_found=sum(e['corpus_found'] for e in fams.values())),
      families=dict(sorted(fams.items())))
  os.makedirs(os.path.dirname(out_path), exist_ok=True)
  json.dump(doc, open(out_path, 'w'), indent=1)
  for nm, e in sorted(fams.items()):
    print('%-48s edge=%-5s %d/%d corpus %d/%d' % (nm, e['edge'], e['found'], e['instances'], e['corpus_found'], e['corpus_instances']))
  print('TOTAL %(found)d/%(instances)d misses=%(misses)d corpus %(corpus_found)d/%(corpus_instances)d' % doc['totals'],
        'wall %.0f s' % (time.time() - t0))


if __name__ == '__main__':
  main()
