"""Measurement behind PLANTED_ROOT_GATE of corr/c19_misc.py (not run by ./check).
Measures how often the real small_roots finders recover a planted root, per family, over many
seeds.  usage: measure_sr.py <kind> <reps> [workers]   kind in uni|modp|modn"""
import sys, random, time, json
import os
sys.path.insert(0, os.path.dirname(os.path.abspath(__file__)))
import shims; shims.install()
import sympy, gmpy2
from multiprocessing import Pool
from paranoid_crypto.lib import small_roots as sr
x = sympy.Symbol('x'); x1, x2 = sympy.symbols('x1, x2')

def rprime(rng, bits):
  while True:
    p = rng.getrandbits(bits) | (1 << (bits - 1)) | 1
    if gmpy2.is_prime(p):
      return int(p)

def uni(args):
  bits, ub, k, seed = args
  rng = random.Random('u/%d/%d/%d/%d' % args)
  p, q = rprime(rng, bits), rprime(rng, bits); n = p * q; bnd = 2 ** ub
  out = {}
  t = time.time()
  p0 = (p >> ub) << ub
  r = sr.univariate_modp(sympy.Poly(p0 + x, modulus=n), bnd, k); out['high'] = r is not None and int(r) == p - p0
  rx = rng.randrange(1, bnd)
  r = sr.univariate_modp(sympy.Poly(p + rx - x, modulus=n), bnd, k); out['neg'] = r is not None and int(r) == rx
  l = bits - ub
  r = sr.univariate_modp(sympy.Poly(x * 2 ** l + p % 2 ** l, modulus=n), bnd, k); out['low'] = r is not None and int(r) == p >> l
  ub3 = max(2, ub // 4); rx = rng.randrange(1, 2 ** ub3)
  r = sr.univariate_modp(sympy.Poly(p - rx ** 3 + x ** 3, modulus=n), 2 ** ub3, k); out['deg3'] = r is not None and int(r) == rx
  return (bits, ub, k), out, time.time() - t

def modp(args):
  bits, u1, u2, m, seed = args
  rng = random.Random('p/%d/%d/%d/%d/%d' % args)
  p, q = rprime(rng, bits), rprime(rng, bits); n = p * q
  known = bits - u1 - u2; lx1 = known + u2
  p0 = ((p >> u2) % 2 ** known) << u2
  f = sympy.Poly(p0 + x1 * 2 ** lx1 + x2, modulus=n)
  t = time.time()
  r = sr.multivariate_modp(f, [2 ** u1, 2 ** u2], m)
  return (bits, u1, u2, m), {'modp': r is not None and [int(v) for v in r] == [p >> lx1, p % 2 ** u2]}, time.time() - t

def modn(args):
  bits, u1, u2, m, seed = args
  rng = random.Random('n/%d/%d/%d/%d/%d' % args)
  p, q = rprime(rng, bits), rprime(rng, bits); n = p * q
  p0 = (p >> u1) << u1; q0 = (q >> u2) << u2
  f = sympy.Poly((p0 + x1) * (q0 + x2), modulus=n)
  t = time.time()
  try:
    r = sr.multivariate_modn(f, [2 ** u1, 2 ** u2], m)
    ok = r is not None and [int(v) for v in r] == [p - p0, q - q0]
  except Exception as e:
    ok = 'err:' + type(e).__name__
  return (bits, u1, u2, m), {'modn': ok}, time.time() - t

def main():
  kind, reps = sys.argv[1], int(sys.argv[2]); workers = int(sys.argv[3]) if len(sys.argv) > 3 else 6
  jobs = []
  if kind == 'uni':
    fams = json.loads(sys.argv[4]) if len(sys.argv) > 4 else [
        (64, 16, 2), (64, 20, 2), (64, 22, 2), (64, 24, 2), (64, 20, 3), (64, 24, 3), (64, 26, 3), (64, 28, 3), (64, 31, 3),
        (96, 30, 2), (96, 33, 2), (96, 36, 3), (128, 40, 2), (128, 44, 2), (128, 50, 3), (128, 54, 3), (128, 62, 2),
        (256, 80, 2), (256, 100, 3), (256, 108, 3)]
    jobs = [tuple(f) + (s,) for f in fams for s in range(reps)]; fn = uni
  elif kind == 'modp':
    fams = json.loads(sys.argv[4]) if len(sys.argv) > 4 else [
        (128, 3, 3, 2), (128, 2, 2, 2), (128, 6, 6, 3), (128, 8, 8, 3), (128, 10, 10, 3), (128, 12, 12, 3), (128, 13, 13, 3),
        (128, 10, 10, 4), (128, 14, 14, 4), (64, 4, 4, 3), (64, 5, 5, 3), (64, 6, 6, 3), (256, 16, 16, 3), (256, 20, 20, 3)]
    jobs = [tuple(f) + (s,) for f in fams for s in range(reps)]; fn = modp
  else:
    fams = json.loads(sys.argv[4]) if len(sys.argv) > 4 else [
        (64, 16, 16, 1), (64, 20, 20, 1), (64, 24, 24, 1), (64, 26, 26, 1), (64, 28, 28, 1), (64, 30, 30, 1),
        (128, 40, 40, 1), (128, 48, 48, 1), (128, 52, 52, 1), (128, 56, 56, 1)]
    jobs = [tuple(f) + (s,) for f in fams for s in range(reps)]; fn = modn
  acc = {}; tt = {}
  with Pool(workers) as pool:
    for fam, out, dt in pool.imap_unordered(fn, jobs):
      for kk, ok in out.items():
        a = acc.setdefault((fam, kk), [0, 0, 0]); a[1] += 1
        if ok is True: a[0] += 1
        elif ok is not False: a[2] += 1
      tt[fam] = tt.get(fam, 0) + dt
  for (fam, kk), a in sorted(acc.items()):
    print(fam, kk, '%d/%d' % (a[0], a[1]), ('errors=%d' % a[2]) if a[2] else '', 'avg %.2fs' % (tt[fam] / a[1]), flush=True)

if __name__ == '__main__':
  main()
