"""Writes MANIFEST.json from the table below (kept in code so it stays valid)."""
import json, os
V = os.path.dirname(os.path.dirname(os.path.abspath(__file__)))
props = [json.loads(l) for l in open(os.path.join(V, 'properties.jsonl'))]
ids = [p['id'] for p in props]

CLAIMS = {}
CATEGORY = {}   # property id -> category other than 'proof' (set in claims.py)
def claim(pid, text, note, technique, design_ref):
  CLAIMS[pid] = dict(text=text, note=note, technique=technique, design_ref=design_ref)

exec(open(os.path.join(V, 'harness', 'claims.py')).read())

checks = []
for pid in ids:
  if pid not in CLAIMS:
    continue
  c = CLAIMS[pid]
  checks.append({
      'property_id': pid,
      'quick_cmd': './check %s --tier quick' % pid,
      'thorough_cmd': './check %s --tier thorough' % pid,
      'evidence_file': 'evidence/%s.json' % pid,
      'replay_cmd_template': './check %s --replay {path}' % pid,
      'engine': 'lean4-model',
      'level_claimed': {'category': CATEGORY.get(pid, 'proof'), 'text': c['text'], 'design_ref': c['design_ref']},
      'level_note': c['note'],
      'technique': c['technique'],
  })
na = [{'property_id': pid, 'reason': NOT_CLAIMED.get(pid, 'not yet claimed: model/theorems under construction (see DESIGN.md section 9)')}
      for pid in ids if pid not in CLAIMS]
m = {
    'version': 1,
    'setup_cmd': './setup.sh',
    'hooks': {'guard': 'PARANOID_CRYPTO_VERIF', 'enable': 'no hooks: the harness imports /repo in-process through harness/shims.py',
              'baseline_off_cmd': 'cd /repo && /venv/bin/python -m pytest -ra -q -p no:cacheprovider --timeout=900 --continue-on-collection-errors',
              'source_commits': [], 'add_only': True},
    'engines': [{'name': 'lean4-model', 'path': 'lean/ParanoidModel',
                 'serves_properties': sorted(CLAIMS),
                 'kind_free_text': 'hand-written executable Lean 4 model + theorems (Lean kernel), tied to /repo by a regenerated constants file and a differential correspondence harness (harness/)'}],
    'checks': checks,
    'notes': 'Every check: regenerate Generated/Consts.lean from /repo, lake build Props/<id>, #print axioms audit, correspondence model-vs-implementation, failing-input search on divergence.',
    'not_applicable': na,
}
json.dump(m, open(os.path.join(V, 'MANIFEST.json'), 'w'), indent=1)
print('claimed', sorted(CLAIMS), 'not claimed', [x['property_id'] for x in na])
