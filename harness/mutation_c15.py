"""Mutation test of ./check C15 (not part of the check): applies one behaviour-changing edit at a time
to randomness_tests/util.py in a scratch worktree and expects a VIOLATION with a concrete replay;
M3 only moves the fast-path threshold (no behaviour change) and must NOT alarm.

  git -C /repo worktree add --detach /var/tmp/<dir> HEAD
  /venv/bin/python harness/mutation_c15.py /var/tmp/<dir> [mutation names]
  git -C /repo worktree remove --force /var/tmp/<dir>
"""
import subprocess, sys, os, json, glob
WT=sys.argv[1]
VERIF=os.path.dirname(os.path.dirname(os.path.abspath(__file__)))
F=WT+'/paranoid_crypto/lib/randomness_tests/util.py'
MUTS={
 'M1_unwrap_range': ('    for i in range(1, m):\n      x = (w >> i) & mask','    for i in range(0, m):\n      x = (w >> i) & mask'),
 'M2_fast_stride': ('      count[(s >> 4) & mask3] += 1','      count[(s >> 3) & mask3] += 1'),
 'M3_threshold_only': ('  if 50 * 2**m < length and m < 24:','  if 5 * 2**m < length and m < 24:'),
 'M4_rank_large_subset': ('          t = (t - 1) & mask','          t = (t - 2) & mask if t > 1 else 0'),
 'M5_longest_refine': ('  n = longest_run // 2\n','  n = longest_run // 4\n'),
 'M6_runs_edge': ('  if length and s >> (length - 1) == 0:','  if length and s >> length == 0:'),
 'M7_split_slice': ('ba[i * m // 8 : (i + 1) * m // 8 + 1], "little")','ba[i * m // 8 : (i + 1) * m // 8], "little")'),
 'M8_rank_threshold_and_small_bug': ('        if m[j] & msb:\n          m[j] ^= m[i]','        if m[j] & msb and j != len(m) - 1:\n          m[j] ^= m[i]'),
 'M9_fast_tail': ('    if length % 8 != 0:\n      s ^= ba[-1] << m3','    if length % 8 > 1:\n      s ^= ba[-1] << m3'),
}
which=sys.argv[2:] or list(MUTS)
for name in which:
  subprocess.run(['git','-C',WT,'checkout','-q','--','.'],check=True)
  src=open(F).read()
  old,new=MUTS[name]
  assert src.count(old)==1,(name,src.count(old))
  open(F,'w').write(src.replace(old,new))
  for f in glob.glob(VERIF+'/replays/C15_*'): os.remove(f)
  env=dict(os.environ,VERIF_REPO=WT,VERIF_SEED='1')
  p=subprocess.run(['./check','C15','--no-build'],cwd=VERIF,env=env,capture_output=True,text=True)
  lines=[l for l in p.stdout.split('\n') if l.startswith(('VIOLATION','C15 '))]
  print('==',name,'exit',p.returncode)
  for l in lines[:3]: print('  ',l)
  r=sorted(glob.glob(VERIF+'/replays/C15_1_*.json'))
  if r:
    d=json.load(open(r[0]))
    print('   replay:',d.get('line','')[:120],'|',str(d.get('what'))[:200])
subprocess.run(['git','-C',WT,'checkout','-q','--','.'],check=True)
