"""Definitional Python reference of the exact part of the NIST SP 800-22 tests (C12).

Written directly from the text of NIST SP 800-22 rev. 1a and docs/randomness_tests.md on plain
Python lists of 0/1 — no code shared with /repo and none with the Lean model.  It emits the
same canonical strings as the Lean driver so that harness/nist_tail.py turns either into
p-values.  Used (1) by the property predicates (`pred`), which must not go through the model,
and (2) as a third voice on a sample of the correspondence inputs.

Documented minimum sizes / parameter rules (sections of SP 800-22):
  2.2.7 block frequency n >= 100;  2.4.2/2.4.7 longest run n >= 128, M by n >= 6272 / 750000;
  2.5.7 rank n >= 38·r·c;  2.9.7 universal n >= 387840 and L = largest admissible;
  2.10.7 linear complexity: block size >= 10 here (deviation), >= 200 blocks;
  2.11.7 serial m < floor(log2 n) - 2;  2.12.7 ApEn m < floor(log2 n) - 5 (code: its own ladder);
  2.14.7 / 2.15.7 excursions J >= 500; extended: large rank n >= 4096.
"""
from framework import H, L


def bitlist(x, n):
  s = format(x, 'b')
  if len(s) > n:
    s = s[len(s) - n:]
  s = s.zfill(n)
  return [1 if ch == '1' else 0 for ch in reversed(s)]


def fmt_pairs(ps):
  return ','.join('%x:%x' % p for p in ps) if ps else '[]'


def fmt_rows(rows):
  return ';'.join(L(r) for r in rows) if rows else '[]'


def multiset(vals):
  d = {}
  for v in vals:
    d[v] = d.get(v, 0) + 1
  return sorted(d.items())


def blocks_of(e, m):
  return [e[i * m:(i + 1) * m] for i in range(len(e) // m)]


def value(block):
  return sum(b << i for i, b in enumerate(block))


def longest_run(block):
  best = cur = 0
  for b in block:
    cur = cur + 1 if b else 0
    best = max(best, cur)
  return best


def gf2_rank(rows):
  rows = list(rows)
  rank = 0
  width = max([r.bit_length() for r in rows] + [0])
  for col in range(width):
    piv = None
    for i in range(rank, len(rows)):
      if (rows[i] >> col) & 1:
        piv = i
        break
    if piv is None:
      continue
    rows[rank], rows[piv] = rows[piv], rows[rank]
    for i in range(len(rows)):
      if i != rank and (rows[i] >> col) & 1:
        rows[i] ^= rows[rank]
    rank += 1
  return rank


def ok(*fields):
  return 'ok ' + ' '.join(fields)


def frequency(bits, n):
  if n == 0:
    return 'err ZeroDivisionError'
  e = bitlist(bits, n)
  return ok(H(abs(sum(2 * b - 1 for b in e))), H(n))


def bf_block_size(n):
  m = 16
  while n // m >= 100:
    m *= 2
  return max(20, m)


def blockfreq(bits, n):
  if n < 100:
    return 'err InsufficientDataError'
  m = bf_block_size(n)
  counts = [sum(b) for b in blocks_of(bitlist(bits, n), m)]
  return ok(H(m), H(sum((2 * c - m) ** 2 for c in counts)), H(m), L(counts))


def runs(bits, n):
  if n == 0:
    return 'err ZeroDivisionError'
  e = bitlist(bits, n)
  pop = sum(e)
  if pop == 0 or pop == n:
    return ok('degenerate')
  v = 1 + sum(1 for i in range(n - 1) if e[i] != e[i + 1])
  return ok('stat', H(pop), H(v), H(n))


def longestruns(bits, n):
  if n < 128:
    return 'err InsufficientDataError'
  m, vl, vu = (8, 1, 4) if n < 6272 else (128, 4, 9) if n < 750000 else (10000, 10, 16)
  hist = [0] * (vu - vl + 1)
  for b in blocks_of(bitlist(bits, n), m):
    hist[max(0, min(vu, longest_run(b)) - vl)] += 1
  return ok(H(m), H(vl), H(vu), L(hist))


def rank(bits, n, r, c, k, check, chi_rejects=False):
  """`chi_rejects`: float oracle (Model/NistFloat.lean) — the float RankDistribution handed to ChiSquare
  contains an invalid (underflowed) probability; documented behaviour: ValueError."""
  if min(r, c) < k:
    return 'err ValueError'
  if check and n < 38 * r * c:
    return 'err InsufficientDataError'
  if c == 0:
    return 'err ZeroDivisionError'
  rows = [value(b) for b in blocks_of(bitlist(bits, n), c)]
  if r == 0:
    return 'err ZeroDivisionError'
  nm = len(rows) // r
  if nm < 1:
    return 'err InsufficientDataError'
  approx = r == c and r >= 31 and k <= 5
  if not approx and (k == 0 or c < r):
    return 'err ValueError'
  if chi_rejects:
    return 'err ValueError'
  hist = [0] * (k + 1)
  for i in range(nm):
    hist[min(k, r - gf2_rank(rows[i * r:(i + 1) * r]))] += 1
  return ok(H(r), H(c), H(k), '1' if approx else '0', L(hist))


def non_overlapping(t, m):
  s = format(t, 'b').zfill(m)
  return all(s[:i] != s[len(s) - i:] for i in range(1, m)) if len(s) == m else \
      all(t >> (m - i) != t & ((1 << i) - 1) for i in range(1, m))


def notm_m(bs):
  for bound, m in ((4, None), (64, 2), (256, 3), (1024, 4), (2048, 5), (4096, 6), (8192, 7),
                   (16384, 8), (32768, 9)):
    if bs < bound:
      return m
  return 10


def notm(bits, n, nblocks, m, templates):
  if nblocks == 0:
    return 'err ZeroDivisionError'
  bs = n // nblocks
  if m is None:
    if templates is not None:
      return 'err ValueError'
    m = notm_m(bs)
    if m is None:
      return 'err InsufficientDataError'
  if templates is None:
    templates = [b for b in range(2 ** m) if non_overlapping(b, m)]
  if bs == 0:
    return 'err ZeroDivisionError'
  blocks = blocks_of(bitlist(bits, n), bs)
  if any(not non_overlapping(b, m) for b in templates):
    return 'err ValueError'
  if m > bs and blocks:
    return 'err ValueError'
  if any(b >= 2 ** m for b in templates) and blocks:
    return 'err IndexError'
  counts = []
  for blk in blocks:
    ws = [value(blk[i:i + m]) for i in range(bs - m + 1)]
    counts.append([ws.count(b) for b in templates])
  return ok(H(m), H(bs), L(templates), fmt_rows(counts))


def otm(bits, n, m, bs, chi_rejects=False):
  """`chi_rejects`: float oracle — the float matrix power underflows and ChiSquare rejects a 0.0."""
  if m is None:
    m = 9
  if bs is None:
    bs = 2 ** (m + 1) + m - 1
  if bs == 0:
    return 'err ZeroDivisionError'
  if n // bs == 0:
    return 'err InsufficientDataError'
  if bs < m + 4 or chi_rejects:
    return 'err ValueError'
  hist = [0] * 6
  for blk in blocks_of(bitlist(bits, n), bs):
    c = sum(1 for i in range(bs - m + 1) if all(blk[i:i + m]))
    hist[min(5, c)] += 1
  return ok(H(m), H(bs), L(hist))


UNIVERSAL_MIN_N = {6: 387840, 7: 904960, 8: 2068480, 9: 4654080, 10: 10342400, 11: 22753280,
                   12: 49643520, 13: 107560960, 14: 231669760, 15: 496435200, 16: 1059061760}


def universalimpl(bits, n, bs, q):
  if bs == 0:
    return 'err ZeroDivisionError'
  nb = n // bs
  if nb < q or bs > 16:
    return 'err ValueError'
  if nb == q:
    return 'err ZeroDivisionError'
  vals = [value(b) for b in blocks_of(bitlist(bits, n), bs)]
  last = {}
  ds = []
  for j, v in enumerate(vals):
    if j >= q:
      ds.append(j - last.get(v, -1))
    last[v] = j
  return ok(H(bs), H(q), H(nb - q), fmt_pairs(multiset(ds)))


def universal(bits, n):
  adm = [l for l, b in UNIVERSAL_MIN_N.items() if b <= n]
  if not adm:
    return 'err InsufficientDataError'
  return universalimpl(bits, n, max(adm), 10 * 2 ** max(adm))


def neg_log_prob(n, m):
  if n <= 0 or m < 0 or m > n:
    return None
  if m == 0:
    return n
  return n + 1 - 2 * m if m <= n // 2 else 2 * m - n


def lincompimpl(m, cs):
  if not cs:
    return 'err ZeroDivisionError'
  q = 0
  for c in cs:
    x = neg_log_prob(m, c)
    if x is None:
      return 'err ValueError'
    q += x
  med = (m + 1) // 2
  hist = [0] * 7
  for c in cs:
    hist[0 if c <= med - 3 else 6 if c >= med + 3 else c - med + 3] += 1
  return ok(H(m), L(hist), H(q), H(len(cs)))


def lincomp(n, bs, cs):
  if bs < 10 or bs * 200 > n:
    return 'err InsufficientDataError'
  return lincompimpl(bs, cs)


def cyc_counts(e, m):
  n = len(e)
  d = {}
  for p in range(n):
    w = sum(e[(p + j) % n] << j for j in range(m))
    d[w] = d.get(w, 0) + 1
  return d


def serial(bits, n, mm):
  if mm is None:
    mm = max(2, min(22, n.bit_length() - 4))
  if mm > n:
    return 'err ValueError'
  e = bitlist(bits, n)
  return ok(H(mm), H(n), L([sum(c * c for c in cyc_counts(e, m).values()) for m in range(1, mm + 1)]))


def apen_mmax(n):
  bl = n.bit_length()
  if n < 2 ** 16:
    return max(2, bl - 7)
  if n < 2 ** 20:
    return bl - 8
  if n < 2 ** 24:
    return bl - 9
  return min(22, bl - 10)


def apen(bits, n, mm):
  if mm is None:
    mm = apen_mmax(n)
  if mm + 1 > n:
    return 'err ValueError'
  e = bitlist(bits, n)
  levels = [multiset(cyc_counts(e, m).values()) for m in range(2, mm + 2)]
  return ok(H(mm), H(n), ';'.join(fmt_pairs(l) for l in levels) if levels else '[]')


def randomwalk(bits, n, ms, mc, msv, exc_zero=False):
  """`exc_zero`: float oracle — RandomExcursionsDistribution(x, max_cnt) has a 0.0 entry for a state in use."""
  if n == 0:
    return 'err ZeroDivisionError'
  e = bitlist(bits, n)
  S = [0]
  for b in e:
    S.append(S[-1] + (1 if b else -1))
  zf = max(abs(s) for s in S)
  zb = max(abs(S[n] - s) for s in S)
  # S' = 0, S_1 .. S_n, 0 : cycles are the stretches between consecutive zeros
  sp = S[1:] + [0]
  cycles, cur = [], []
  for s in sp:
    if s == 0:
      cycles.append(cur)
      cur = []
    else:
      cur.append(s)
  J = len(cycles)
  exh, tot = [], []
  if J >= 500 and ms >= 1 and exc_zero:
    return 'err ZeroDivisionError'
  if J >= 500:
    for x in [x for x in range(-ms, ms + 1) if x]:
      v = [0] * (mc + 1)
      for c in cycles:
        v[min(mc, c.count(x))] += 1
      exh.append(v)
    for x in [x for x in range(-msv, msv + 1) if x]:
      tot.append(S[1:].count(x))
  return ok(H(n), H(zf), H(zb), H(J), fmt_rows(exh), L(tot))


def largerank(bits, n):
  if n < 4096:
    return 'err InsufficientDataError'
  e = bitlist(bits, n)
  out = []
  size = 64
  while size * size <= n:
    out.append((size, gf2_rank([value(b) for b in blocks_of(e[:size * size], size)])))
    size *= 2
  return ok(fmt_pairs(out))


def scatter(n, step, mb, cs):
  if mb is not None and step * mb < n:
    n = step * mb
  sizes = [(n + step - 1 - i) // step for i in range(step)]
  q = 0
  for s, c in zip(sizes, cs):
    x = neg_log_prob(s, c)
    if x is None:
      return 'err ValueError'
    q += x
  return ok(H(n), L(sizes), H(q))
