"""The "float tail" of the NIST SP 800-22 tests, re-evaluated with mpmath (50 digits).

Input: the canonical output string of the exact model (Lean driver `nist.*` ops, or the
definitional Python reference harness/nist_ref.py — same format).  Output: the list of
(name, p-value) the formulae of NIST SP 800-22 assign, plus the expected trace of the
special-function calls the implementation makes (integer arguments exact, float arguments
as mpf).  Tables are the ones harvested from the CURRENT source (consts/nist_tables.py).

Part of the trusted base of C12 (stands for the real functions erfc, igamc, erf, log, sqrt).
"""
import functools
import math
from fractions import Fraction as Fr

import mpmath as mp

from consts import nist_tables

mp.mp.dps = 50


def ph(s):
  return int(s, 16)


def pl(s):
  return [] if s == '[]' else [int(x, 16) for x in s.split(',')]


def prows(s):
  return [] if s == '[]' else [pl(r) for r in s.split(';')]


def ppairs(s):
  return [] if s == '[]' else [tuple(int(y, 16) for y in x.split(':')) for x in s.split(',')]


def plevels(s):
  return [] if s == '[]' else [ppairs(r) for r in s.split(';')]


def mpq(x):
  x = Fr(x)
  return mp.mpf(x.numerator) / mp.mpf(x.denominator)


@functools.lru_cache(maxsize=1)
def tables():
  return nist_tables.tables()


def igamc(a, x):
  """regularised upper incomplete gamma Q(a, x), x clamped at 0 (repaired D10/D11)."""
  a, x = mp.mpf(a), mp.mpf(x)
  if x <= 0:
    return mp.mpf(1)
  return mp.gammainc(a, x, mp.inf, regularized=True)


class FloatTailError(Exception):
  """the float evaluation itself raises (underflow to an invalid probability)."""


class Tail:

  def __init__(self):
    self.p = []        # (name, mpf)
    self.tr = []       # expected trace
    self.raw = {}      # name -> unclamped value / argument (for known-finding classification)
    self.fin = {}      # name -> index in tr of the erfc / igamc record that produced the p-value

  def erfc(self, name, x):
    self.fin[name] = len(self.tr)
    self.tr.append(('erfc', x))
    self.p.append((name, mp.erfc(x)))

  def igamc(self, name, a, x):
    a = mpq(a) if isinstance(a, (Fr, int)) else mp.mpf(a)
    self.fin[name] = len(self.tr)
    self.tr.append(('igamc', a, mp.mpf(x)))
    self.raw[name] = x
    self.p.append((name, igamc(a, x)))

  def chisq(self, name, v, pi, k):
    n = sum(v)
    self.tr.append(('chi', tuple(v), k))
    chi = sum((c - n * p) ** 2 / (n * p) for c, p in zip(v, pi))
    self.igamc(name, Fr(k, 2), mpq(chi) / 2)

  def const(self, name, x):
    self.p.append((name, mp.mpf(x)))


# ---------------------------------------------------------------------------
# exact distributions

@functools.lru_cache(maxsize=None)
def rank_distribution(r, c, k, approx):
  if approx:
    pre = tables()['rank_precomputed']
    return tuple(pre[:k]) + (sum(pre[k:]),)
  res = [Fr(0)] * (r + 1)
  res[0] = Fr(1)
  for _ in range(c):
    for j in range(r - 1, -1, -1):
      pd = Fr(1, 2 ** (r - j))
      res[j + 1] += res[j] * (1 - pd)
      res[j] *= pd
  return tuple(res[-k:][::-1]) + (sum(res[:-k]),)


@functools.lru_cache(maxsize=None)
def otm_distribution(n, m, k=5):
  """exact distribution of min(k, #positions where m ones start) over all n-bit strings:
  the Markov chain of OverlappingTemplateMatchingMatrix with integer path counts."""
  size = k * m + 1
  vec = [0] * size
  vec[0] = 1
  for _ in range(n):
    new = [0] * size
    for occ in range(k):
      for run in range(m):
        i = occ * m + run
        w = vec[i]
        if not w:
          continue
        new[occ * m] += w
        if run < m - 1:
          new[i + 1] += w
        elif occ < k - 1:
          new[i + m] += w
        else:
          new[k * m] += w
    new[k * m] += 2 * vec[k * m]
    vec = new
  tot = 2 ** n
  return tuple(Fr(sum(vec[i * m:(i + 1) * m]), tot) for i in range(k + 1))


def excursion_distribution(x, max_cnt):
  t = Fr(1, 2 * abs(x))
  pi = [Fr(0)] * (max_cnt + 1)
  pi[0] = 1 - t
  for k in range(1, max_cnt):
    pi[k] = t ** 2 * (1 - t) ** (k - 1)
  pi[max_cnt] = t * (1 - t) ** (max_cnt - 1)
  return pi


def binomial_cdf(k, m):
  """P[Bin(m, 1/2) <= k] exactly."""
  if m < 0:
    return mp.nan
  s = sum(math.comb(m, i) for i in range(0, min(k, m) + 1)) if k >= 0 else 0
  return mp.mpf(s) / mp.mpf(2) ** m


@functools.lru_cache(maxsize=100000)
def cusum_series(n, z):
  """1 + res/2 of CumulativeSumsPValue with the code's summation bounds evaluated exactly;
  terms whose erf arguments all exceed 12 in absolute value cancel to < 1e-60 and are skipped."""
  t = mp.mpf(z) / mp.sqrt(2 * n)
  cut = int(12 / t / 4) + 2
  res = mp.mpf(0)
  lo, hi = math.ceil(Fr(z - n, 4 * z)), math.floor(Fr(n - z, 4 * z))
  for k in range(max(lo, -cut), min(hi, cut) + 1):
    res += mp.erf((4 * k - 1) * t) - mp.erf((4 * k + 1) * t)
  lo, hi = math.ceil(Fr(-n - 3 * z, 4 * z)), math.floor(Fr(n - z, 4 * z))
  for k in range(max(lo, -cut), min(hi, cut) + 1):
    res += mp.erf((4 * k + 3) * t) - mp.erf((4 * k + 1) * t)
  return 1 + res / 2


def clamp01(x):
  return min(mp.mpf(1), max(mp.mpf(0), x))


def state_range(k):
  return [x for x in range(-k, k + 1) if x != 0]


# ---------------------------------------------------------------------------
# one evaluator per op; `f` = fields of the model answer after 'ok'

def t_frequency(T, f, a):
  s, n = ph(f[0]), ph(f[1])
  T.erfc('', mp.mpf(s) / mp.sqrt(n) / mp.sqrt(2))


def t_blockfreq(T, f, a):
  m, num, den, counts = ph(f[0]), ph(f[1]), ph(f[2]), pl(f[3])
  T.tr.append(('bf', len(counts), m))
  T.igamc('', Fr(len(counts), 2), mpq(Fr(num, den)) / 2)


def t_runs(T, f, a):
  if f[0] == 'degenerate':
    T.const('', 0)
    return
  pop, v, n = ph(f[1]), ph(f[2]), ph(f[3])
  pq = pop * (n - pop)
  T.erfc('', mp.mpf(abs(v * n - 2 * pq) * n) / (2 * mp.sqrt(2 * n) * pq))


def t_longestruns(T, f, a):
  m, vl, vu, hist = ph(f[0]), ph(f[1]), ph(f[2]), pl(f[3])
  row = [p for p in tables()['longest_runs_params'] if p[1] == m]
  if len(row) != 1:
    raise LookupError('no LongestRuns parameter row with M=%d in the source' % m)
  T.chisq('', hist, row[0][4], vu - vl)


def t_rank(T, f, a):
  r, c, k, approx, hist = ph(f[0]), ph(f[1]), ph(f[2]), f[3] == '1', pl(f[4])
  T.chisq('', hist, rank_distribution(r, c, k, approx), k)


def t_notm(T, f, a):
  m, bs, templates, counts = ph(f[0]), ph(f[1]), pl(f[2]), prows(f[3])
  mean = Fr(bs - m + 1, 2 ** m)
  var = bs * (Fr(1, 2 ** m) - Fr(2 * m - 1, 2 ** (2 * m)))
  for i, b in enumerate(templates):
    obs = sum((row[i] - mean) ** 2 / var for row in counts)
    T.igamc("template '%s'" % format(b, '0%db' % m), Fr(len(counts), 2), mpq(obs) / 2)


def t_otm(T, f, a):
  m, bs, hist = ph(f[0]), ph(f[1]), pl(f[2])
  # (float underflow of this distribution -> ValueError is decided by the ChiOracle of the model,
  # Model/NistFloat.lean; the former threshold min(pi) < 1e-290 guessed it)
  pi = otm_distribution(bs, m, 5)
  T.chisq('', hist, pi, 5)


def t_universal(T, f, a):
  L, q, k, dists = ph(f[0]), ph(f[1]), ph(f[2]), ppairs(f[3])
  mean, var = tables()['universal_table'][L]
  T.tr.append(('uni', L, q))
  c = (mpq(Fr(7, 10)) - mpq(Fr(8, 10)) / L + (4 + mp.mpf(32) / L) * (mp.power(k, mp.mpf(-3) / L) / 15))
  std = c * mp.sqrt(mpq(var) / k)
  fsum = sum(mult * mp.log(d, 2) for d, mult in dists)
  if sum(mult for _, mult in dists) != k:
    raise ValueError('distance multiset does not have K elements')
  T.erfc('', abs(fsum / k - mpq(mean)) / std / mp.sqrt(2))


def t_lincomp(T, f, a):
  m, hist, q, nb = ph(f[0]), pl(f[1]), ph(f[2]), ph(f[3])
  pi = tables()['lincomp_pi_even' if m % 2 == 0 else 'lincomp_pi_odd']
  T.chisq('distribution', hist, pi, 6)
  T.tr.append(('binom', nb - 1, q - 1))
  T.const('extreme values', binomial_cdf(nb - 1, q - 1))


def t_serial(T, f, a):
  mm, n, sq = ph(f[0]), ph(f[1]), pl(f[2])
  psi = [Fr(0)] + [Fr(2 ** (i + 1) * s, n) - n for i, s in enumerate(sq)]
  for m in range(2, mm + 1):
    d = psi[m] - psi[m - 1]
    d2 = psi[m] - 2 * psi[m - 1] + psi[m - 2]
    T.igamc('m=%d p-value1' % m, Fr(2) ** (m - 2), mpq(d) / 2)
    T.igamc('m=%d p-value2' % m, Fr(2) ** (m - 3), mpq(d2) / 2)


def t_apen(T, f, a):
  mm, n, levels = ph(f[0]), ph(f[1]), plevels(f[2])
  phi = {}
  for i, lev in enumerate(levels):
    if sum(c * mult for c, mult in lev) != n:
      raise ValueError('pattern counts do not add up to n')
    phi[i + 2] = sum(mult * (mp.mpf(c) / n) * mp.log(mp.mpf(c) / n) for c, mult in lev)
  for m in range(2, mm + 1):
    chi = 2 * n * (mp.log(2) - (phi[m] - phi[m + 1]))
    T.igamc('m=%d' % m, Fr(2) ** (m - 1), chi / 2)


def t_randomwalk(T, f, a):
  # a = (max_state, max_cnt, max_state_variant)
  ms, mc, msv = a
  n, zf, zb, J, exh, tot = ph(f[0]), ph(f[1]), ph(f[2]), ph(f[3]), prows(f[4]), pl(f[5])
  for name, z in (('cumulative sums forward', zf), ('cumulative sums reverse', zb)):
    T.tr.append(('cusum', n, z))
    s = cusum_series(n, z)
    T.raw[name] = s
    T.const(name, clamp01(s))
  if J >= 500:
    for x, v in zip(state_range(ms), exh):
      pi = excursion_distribution(x, mc)
      obs = sum((v[k] - J * pi[k]) ** 2 / (J * pi[k]) for k in range(mc + 1))
      T.igamc('random excursions %d' % x, Fr(mc, 2), mpq(obs) / 2)
    for x, t in zip(state_range(msv), tot):
      T.erfc('random excursions variant %d' % x, abs(J - t) / mp.sqrt(2 * J * (4 * abs(x) - 2)))


def t_largerank(T, f, a):
  sf = tables()['asymptotic_rank_sf']
  for size, rank in ppairs(f[0]):
    k = size - rank
    T.const('%d * %d' % (size, size), mpq(sf[k]) if k < len(sf) else 0)


def t_scatter(T, f, a):
  n, sizes, q = ph(f[0]), pl(f[1]), ph(f[2])
  T.tr.append(('binom', len(sizes) - 1, q - 1))
  T.const('', binomial_cdf(len(sizes) - 1, q - 1))


TAILS = {
    'nist.frequency': t_frequency, 'nist.blockfreq': t_blockfreq, 'nist.runs': t_runs,
    'nist.longestruns': t_longestruns, 'nist.rank': t_rank, 'nist.notm': t_notm,
    'nist.otm': t_otm, 'nist.universal': t_universal, 'nist.universalimpl': t_universal,
    'nist.lincomp': t_lincomp, 'nist.lincompimpl': t_lincomp, 'nist.serial': t_serial,
    'nist.apen': t_apen, 'nist.randomwalk': t_randomwalk, 'nist.largerank': t_largerank,
    'nist.scatter': t_scatter,
}


@functools.lru_cache(maxsize=200000)
def evaluate(op, answer, extra=()):
  """answer = model answer string ('ok ...' | 'err X'). Returns ('err', X) or ('ok', Tail)."""
  if answer.startswith('err '):
    return ('err', answer[4:])
  if not answer.startswith('ok'):
    raise ValueError('bad model answer %r' % answer[:80])
  T = Tail()
  try:
    TAILS[op](T, answer[3:].split(' '), extra)
  except FloatTailError as e:
    return ('err', str(e))
  return ('ok', T)
