"""Evaluates seeded defects:  /venv/bin/python harness/seeded_eval.py <dir>...  [--props C01,C03]
Each <dir> holds patch.diff, demo.py, meta.json (property). For each: scratch worktree of /repo
HEAD + patch; baseline tests (optional --tests), demo must exit 1 there and 0 on clean HEAD;
then ./check <property> with VERIF_REPO=<worktree> must print a VIOLATION. Results are written
back to <dir>/result.json. The worktree is removed afterwards."""
import json, os, subprocess, sys, shutil, time

VERIF = os.path.dirname(os.path.dirname(os.path.abspath(__file__)))


def sh(cmd, **kw):
  p = subprocess.run(cmd, stdout=subprocess.PIPE, stderr=subprocess.STDOUT, text=True, **kw)
  return p.returncode, p.stdout


def main():
  args = [a for a in sys.argv[1:] if not a.startswith('--')]
  run_tests = '--tests' in sys.argv
  extra_props = []
  for a in sys.argv[1:]:
    if a.startswith('--props='):
      extra_props = a.split('=', 1)[1].split(',')
  for d in args:
    d = os.path.abspath(d)
    meta = json.load(open(os.path.join(d, 'meta.json')))
    prop = meta['property']
    wt = '/var/tmp/seedwt_%d' % os.getpid()
    sh(['git', '-C', '/repo', 'worktree', 'remove', '--force', wt])
    rc, out = sh(['git', '-C', '/repo', 'worktree', 'add', '-q', wt, 'HEAD'])
    res = dict(property=prop, dir=d, at=time.strftime('%Y-%m-%dT%H:%M:%S'))
    try:
      rc, out = sh(['/venv/bin/python', os.path.join(d, 'demo.py'), wt], timeout=1800)
      res['demo_clean_exit'] = rc
      rc, out = sh(['git', '-C', wt, 'apply', os.path.join(d, 'patch.diff')])
      res['patch_applies'] = rc == 0
      if rc != 0:
        res['apply_log'] = out[-500:]
      rc, out = sh(['/venv/bin/python', os.path.join(d, 'demo.py'), wt], timeout=1800)
      res['demo_patched_exit'] = rc
      res['demo_patched_tail'] = out[-400:]
      if run_tests:
        rc, out = sh(['/venv/bin/python', '-m', 'pytest', '-q', '-p', 'no:cacheprovider',
                      '--timeout=900', '--continue-on-collection-errors'], cwd=wt, timeout=3000)
        res['baseline_tail'] = out.strip().split('\n')[-1]
      env = dict(os.environ, VERIF_REPO=wt)
      checks = {}
      for p in [prop] + extra_props:
        t0 = time.time()
        rc, out = sh([os.path.join(VERIF, 'check'), p, '--tier', 'quick'], env=env, cwd=VERIF,
                     timeout=3000)
        lines = [l for l in out.split('\n') if l.startswith('VIOLATION') or l.startswith('KNOWN')]
        checks[p] = dict(exit=rc, lines=lines[:6], wall=round(time.time() - t0, 1),
                         summary=out.strip().split('\n')[-1])
        # copy the first replay for the record
        for l in lines:
          if 'replay=' in l:
            rp = l.split('replay=')[1].split()[0]
            if os.path.exists(rp):
              shutil.copy(rp, os.path.join(d, 'replay_%s.json' % p))
            break
      res['checks'] = checks
      res['detected'] = any(c['exit'] == 1 for c in checks.values())
      res['detected_with_failing_input'] = any(
          c['exit'] == 1 and any('no-failing-input-found' not in l for l in c['lines'] if l.startswith('VIOLATION'))
          for c in checks.values())
    finally:
      sh(['git', '-C', '/repo', 'worktree', 'remove', '--force', wt])
    json.dump(res, open(os.path.join(d, 'result.json'), 'w'), indent=1)
    print(d, 'detected=%s with_input=%s demo=%s/%s' % (
        res.get('detected'), res.get('detected_with_failing_input'),
        res.get('demo_clean_exit'), res.get('demo_patched_exit')),
        {p: (c['exit'], c['summary'][-60:]) for p, c in res.get('checks', {}).items()})


if __name__ == '__main__':
  main()
