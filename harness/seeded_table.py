"""prints the markdown table of seeded defects and which checks catch them (from seeded/*/)."""
import json, os, glob
V = os.path.dirname(os.path.dirname(os.path.abspath(__file__)))
print('| seeded defect | breaks | what it needs to manifest | caught by (quick tier) | replay |')
print('|---|---|---|---|---|')
for d in sorted(glob.glob(os.path.join(V, 'seeded', '*'))):
  try:
    m = json.load(open(os.path.join(d, 'meta.json')))
    r = json.load(open(os.path.join(d, 'result.json')))
  except Exception:
    continue
  caught = [p for p, c in r.get('checks', {}).items() if c['exit'] == 1]
  kind = 'failing input' if r.get('detected_with_failing_input') else ('obligation only' if r.get('detected') else '**missed**')
  print('| %s | %s | %s | %s | %s |' % (os.path.basename(d), m.get('property'),
        (m.get('needs_to_manifest') or m.get('summary') or '')[:160].replace('|', '/').replace('\n', ' '),
        ', '.join(caught) or '—', kind))
