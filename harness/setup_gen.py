import os, sys
sys.path.insert(0, os.path.dirname(os.path.abspath(__file__)))
import shims
shims.install()
import gen_consts
print(gen_consts.regenerate())
