"""Make /repo's paranoid_crypto importable without protoc / pybind11.

The generated modules `paranoid_pb2`, `data_pb2` and the pybind11 extension
`berlekamp_massey` do not exist in this sandbox (no protoc, no pybind11).  This
module rebuilds stand-ins for them FROM THE CURRENT SOURCES under /repo on
every call of install():

  * the .proto files are parsed into a FileDescriptorProto and turned into
    message classes with the installed protobuf runtime;
  * berlekamp_massey.cc is compiled with g++ (twice: portable and CLMUL
    variant) and wrapped with ctypes.

Part of the trusted base (stands in for protoc / pybind11 output).
"""
import ctypes
import hashlib
import os
import re
import subprocess
import sys
import types

REPO = os.environ.get('VERIF_REPO', '/repo')
VERIF = os.path.dirname(os.path.dirname(os.path.abspath(__file__)))
BUILD = os.path.join(VERIF, 'build')

_SCALARS = {'double': 1, 'float': 2, 'int64': 3, 'uint64': 4, 'int32': 5,
            'bool': 8, 'string': 9, 'bytes': 12, 'uint32': 13}


def _parse_proto(text):
  text = re.sub(r'//[^\n]*', '', text)
  pkg = re.search(r'package\s+([\w.]+)\s*;', text).group(1)
  enums, messages = [], []
  for m in re.finditer(r'enum\s+(\w+)\s*\{([^}]*)\}', text):
    vals = re.findall(r'(\w+)\s*=\s*(\d+)\s*;', m.group(2))
    enums.append((m.group(1), [(n, int(v)) for n, v in vals]))
  for m in re.finditer(r'message\s+(\w+)\s*\{([^}]*)\}', text):
    fields = []
    for f in re.finditer(
        r'(repeated\s+)?(map\s*<\s*(\w+)\s*,\s*(\w+)\s*>|[\w.]+)\s+(\w+)\s*=\s*(\d+)\s*;',
        m.group(2)):
      rep, typ, mk, mv, name, num = f.groups()
      fields.append(dict(repeated=bool(rep), type=typ, mapk=mk, mapv=mv,
                         name=name, number=int(num)))
    messages.append((m.group(1), fields))
  return pkg, enums, messages


def _build_pb_module(proto_path, modname, filename):
  from google.protobuf import descriptor_pb2, descriptor_pool, message_factory
  from google.protobuf.internal import enum_type_wrapper
  pkg, enums, messages = _parse_proto(open(proto_path).read())
  fdp = descriptor_pb2.FileDescriptorProto()
  # unique name per content so that re-installation in one process is possible
  digest = hashlib.sha1(open(proto_path, 'rb').read()).hexdigest()[:10]
  fdp.name = '%s.%s' % (filename, digest)
  fdp.package = pkg
  fdp.syntax = 'proto3'
  enum_names = {e[0] for e in enums}
  msg_names = {m[0] for m in messages}
  for ename, vals in enums:
    ed = fdp.enum_type.add()
    ed.name = ename
    for n, v in vals:
      ev = ed.value.add()
      ev.name, ev.number = n, v

  def set_type(fd, typ):
    if typ in _SCALARS:
      fd.type = _SCALARS[typ]
    elif typ in enum_names:
      fd.type = 14
      fd.type_name = '.%s.%s' % (pkg, typ)
    elif typ in msg_names:
      fd.type = 11
      fd.type_name = '.%s.%s' % (pkg, typ)
    else:
      raise ValueError('shim: unknown proto type %r' % typ)

  for mname, fields in messages:
    md = fdp.message_type.add()
    md.name = mname
    for f in fields:
      fd = md.field.add()
      fd.name, fd.number = f['name'], f['number']
      fd.json_name = f['name']
      if f['mapk']:
        ename = ''.join(p.capitalize() for p in f['name'].split('_')) + 'Entry'
        nested = md.nested_type.add()
        nested.name = ename
        nested.options.map_entry = True
        k = nested.field.add()
        k.name, k.number, k.label = 'key', 1, 1
        set_type(k, f['mapk'])
        v = nested.field.add()
        v.name, v.number, v.label = 'value', 2, 1
        set_type(v, f['mapv'])
        fd.label = 3
        fd.type = 11
        fd.type_name = '.%s.%s.%s' % (pkg, mname, ename)
      else:
        fd.label = 3 if f['repeated'] else 1
        set_type(fd, f['type'])
  pool = descriptor_pool.DescriptorPool()
  fd = pool.AddSerializedFile(fdp.SerializeToString())
  if fd is None:
    fd = pool.FindFileByName(fdp.name)
  factory = message_factory.MessageFactory(pool)
  mod = types.ModuleType(modname)
  mod.DESCRIPTOR = fd
  for mname, _ in messages:
    md = pool.FindMessageTypeByName('%s.%s' % (pkg, mname))
    setattr(mod, mname, factory.GetPrototype(md))
  for ename, vals in enums:
    edesc = pool.FindEnumTypeByName('%s.%s' % (pkg, ename))
    setattr(mod, ename, enum_type_wrapper.EnumTypeWrapper(edesc))
    for n, v in vals:
      setattr(mod, n, v)
  return mod


_WRAP_CC = r'''
#include <string>
#include "paranoid_crypto/lib/randomness_tests/cc_util/berlekamp_massey.h"
extern "C" int verif_lfsr_length(const char* data, long nbytes, int nbits) {
  std::string s(data, (size_t)nbytes);
  return paranoid_crypto::lib::randomness_tests::cc_util::LfsrLengthStr(s, nbits);
}
'''


def build_bm(variant='portable', sanitize=False):
  """Compiles berlekamp_massey.cc from REPO; returns path of the .so."""
  os.makedirs(BUILD, exist_ok=True)
  src = os.path.join(
      REPO, 'paranoid_crypto/lib/randomness_tests/cc_util/berlekamp_massey.cc')
  hdr = src[:-3] + '.h'
  h = hashlib.sha1(open(src, 'rb').read() + open(hdr, 'rb').read() +
                   variant.encode() + (b'asan' if sanitize else b'')).hexdigest()[:12]
  so = os.path.join(BUILD, 'bm_%s_%s.so' % (variant, h))
  if os.path.exists(so):
    return so
  wrap = os.path.join(BUILD, 'bm_wrap.cc')
  with open(wrap, 'w') as f:
    f.write(_WRAP_CC)
  flags = ['-O2', '-std=c++17', '-shared', '-fPIC', '-I', REPO]
  if variant == 'clmul':
    flags += ['-mpclmul', '-msse2', '-D__CLMUL__']
  elif variant == 'setup':
    # what setup.py passes on x86: -mpclmul only (does not define __CLMUL__)
    flags += ['-mpclmul']
  if sanitize:
    flags += ['-fsanitize=address,undefined', '-fno-omit-frame-pointer']
  tmp = so + '.tmp%d' % os.getpid()
  subprocess.run(['g++'] + flags + [wrap, src, '-o', tmp], check=True,
                 stdout=subprocess.PIPE, stderr=subprocess.PIPE)
  os.replace(tmp, so)
  return so


_CLMUL_PROBE_CC = r'''
#include <cstdint>
#include "paranoid_crypto/lib/randomness_tests/cc_util/berlekamp_massey.cc"
extern "C" void verif_clmul(uint64_t x, uint64_t y, uint64_t* hi, uint64_t* lo) {
  paranoid_crypto::lib::randomness_tests::cc_util::clmul(x, y, hi, lo);
}
'''


def build_clmul_probe():
  """The repo's own inline `clmul(x, y, &hi, &lo)` (wrapper around the PCLMULQDQ / PMULL
  intrinsic) exported from a translation unit that #includes berlekamp_massey.cc built as the
  CLMUL variant; returns the path of the .so."""
  os.makedirs(BUILD, exist_ok=True)
  src = os.path.join(
      REPO, 'paranoid_crypto/lib/randomness_tests/cc_util/berlekamp_massey.cc')
  h = hashlib.sha1(open(src, 'rb').read() + _CLMUL_PROBE_CC.encode()).hexdigest()[:12]
  so = os.path.join(BUILD, 'bm_clmulprobe_%s.so' % h)
  if os.path.exists(so):
    return so
  wrap = os.path.join(BUILD, 'bm_clmulprobe_%d.cc' % os.getpid())
  with open(wrap, 'w') as f:
    f.write(_CLMUL_PROBE_CC)
  flags = ['-O2', '-std=c++17', '-shared', '-fPIC', '-I', REPO, '-mpclmul', '-msse2',
           '-D__CLMUL__']
  tmp = so + '.tmp%d' % os.getpid()
  try:
    subprocess.run(['g++'] + flags + [wrap, '-o', tmp], check=True,
                   stdout=subprocess.PIPE, stderr=subprocess.PIPE)
  finally:
    os.remove(wrap)
  os.replace(tmp, so)
  return so


class ClmulProbe:

  def __init__(self):
    self.lib = ctypes.CDLL(build_clmul_probe())
    self.lib.verif_clmul.argtypes = [ctypes.c_uint64, ctypes.c_uint64,
                                     ctypes.POINTER(ctypes.c_uint64),
                                     ctypes.POINTER(ctypes.c_uint64)]
    self.lib.verif_clmul.restype = None

  def clmul(self, x, y):
    hi, lo = ctypes.c_uint64(), ctypes.c_uint64()
    self.lib.verif_clmul(x, y, ctypes.byref(hi), ctypes.byref(lo))
    return hi.value, lo.value


class BmLib:

  def __init__(self, variant='portable'):
    self.lib = ctypes.CDLL(build_bm(variant))
    self.lib.verif_lfsr_length.argtypes = [ctypes.c_char_p, ctypes.c_long,
                                           ctypes.c_int]
    self.lib.verif_lfsr_length.restype = ctypes.c_int

  def LfsrLength(self, ba, n):
    # pybind11's caster for a C++ `int` accepts INT_MIN..INT_MAX (negative n reaches the C++
    # code, which answers -1) and raises TypeError outside.
    if n < -2**31 or n >= 2**31:
      raise TypeError('out of range')
    ba = bytes(ba)
    return self.lib.verif_lfsr_length(ba, len(ba), n)


_installed = False


def install(bm_variant='portable'):
  """Installs the stand-in modules; idempotent."""
  global _installed
  if _installed:
    return
  if sys.path[0] != REPO:
    sys.path.insert(0, REPO)
  import paranoid_crypto  # noqa
  pb = _build_pb_module(os.path.join(REPO, 'paranoid_crypto/paranoid.proto'),
                        'paranoid_crypto.paranoid_pb2',
                        'paranoid_crypto/paranoid.proto')
  sys.modules['paranoid_crypto.paranoid_pb2'] = pb
  paranoid_crypto.paranoid_pb2 = pb
  import paranoid_crypto.lib.data as data_pkg
  dpb = _build_pb_module(
      os.path.join(REPO, 'paranoid_crypto/lib/data/data.proto'),
      'paranoid_crypto.lib.data.data_pb2', 'paranoid_crypto/lib/data/data.proto')
  sys.modules['paranoid_crypto.lib.data.data_pb2'] = dpb
  data_pkg.data_pb2 = dpb
  import paranoid_crypto.lib.randomness_tests.cc_util.pybind as pyb
  bm = types.ModuleType(
      'paranoid_crypto.lib.randomness_tests.cc_util.pybind.berlekamp_massey')
  lib = BmLib(bm_variant)
  bm.LfsrLength = lib.LfsrLength
  sys.modules[bm.__name__] = bm
  pyb.berlekamp_massey = bm
  # silence absl logging of weak keys
  try:
    from absl import logging as absl_logging
    absl_logging.set_verbosity(absl_logging.FATAL)
    import logging as _l
    _l.getLogger('absl').setLevel(_l.CRITICAL)
  except Exception:  # pragma: no cover
    pass
  _installed = True
