"""Prints, per property, the number of theorems in Props/<id>*.lean (the obligations ./check audits)
and how many of them are one-line definitional unfoldings (proof term `rfl`, `by rfl`, `⟨_, rfl⟩`,
or a single `simp [defs]` / `decide` line) — review finding F19: the counts in DESIGN §10.3
distinguish them.   /venv/bin/python harness/status_counts.py"""
import os, re, sys
sys.path.insert(0, os.path.dirname(os.path.abspath(__file__)))
import framework as fw

LEAN = os.path.join(fw.LEAN, 'ParanoidModel', 'Props')


def theorems(path):
  src = fw.strip_comments(open(path).read())
  parts = re.split(r'^\s*(?:protected\s+|private\s+)?theorem\s+', src, flags=re.M)[1:]
  out = []
  for p in parts:
    name = re.match(r"[\w.']+", p).group(0)
    # the proof: text after the first ':=' at nesting level of the statement, up to the next top-level item
    body = re.split(r'^\s*(?:/--|theorem|example|def|lemma|instance|namespace|end|section|set_option|open|@\[)', p, flags=re.M)[0]
    proof = body.split(':=', 1)[1].strip() if ':=' in body else ''
    lines = [l for l in proof.split('\n') if l.strip()]
    trivial = bool(re.fullmatch(r'(by\s+)?(rfl|⟨_, rfl⟩|Iff\.rfl|decide|by decide|trivial)', proof.strip())) or (
        len(lines) <= 1 and re.match(r'^by\s+(simp|unfold|rfl|exact\s+rfl|decide)\b', proof.strip()) is not None)
    out.append((name, trivial))
  return out


if __name__ == '__main__':
  for pid in ['C%02d' % i for i in range(1, 21)]:
    tot, triv, mods = 0, [], []
    for m in fw.props_modules(pid):
      ths = theorems(os.path.join(LEAN, m + '.lean'))
      tot += len(ths)
      triv += [n for n, t in ths if t]
      mods.append('%s:%d' % (m, len(ths)))
    print('%s total=%d one-line=%d  [%s]' % (pid, tot, len(triv), ' '.join(mods)))
    if '-v' in sys.argv:
      print('    ', ', '.join(triv))
