#!/bin/sh
# ./harness/sweep.sh <seed> [tier]  — runs every claimed check once; prints one line per check
cd "$(dirname "$0")/.."
seed=${1:-1}; tier=${2:-quick}
for p in $(python3 -c "import json; print(' '.join(c['property_id'] for c in json.load(open('MANIFEST.json'))['checks']))"); do
  out=$(VERIF_SEED=$seed ./check $p --tier $tier 2>&1); rc=$?
  echo "rc=$rc $(echo "$out" | grep -c '^VIOLATION') viol | $(echo "$out" | tail -1)"
done
