"""Runs upstream test modules that need the generated protobuf / pybind modules, on top of
the shims:  VERIF_REPO=<checkout> /venv/bin/python harness/upstream_tests.py <test files...>"""
import os, sys
sys.path.insert(0, os.path.dirname(os.path.abspath(__file__)))
import shims
shims.install()
os.chdir(shims.REPO)
import pytest
sys.exit(pytest.main(['-q', '-p', 'no:cacheprovider', '-x', '--timeout=900'] + sys.argv[1:]))
