import ParanoidModel.Driver.Factoring
import ParanoidModel.Driver.RsaChecks
import ParanoidModel.Driver.Ecdsa
import ParanoidModel.Driver.ClosedForm
import ParanoidModel.Driver.Rng
import ParanoidModel.Driver.RngTotal
import ParanoidModel.Driver.BM
import ParanoidModel.Driver.BMWrapper
import ParanoidModel.Driver.BitSeq
import ParanoidModel.Driver.Bookkeeping
import ParanoidModel.Driver.Suite
import ParanoidModel.Driver.Ec
import ParanoidModel.Driver.NTheory
import ParanoidModel.Driver.LinAlg
import ParanoidModel.Driver.Lattice
import ParanoidModel.Driver.Hnp
import ParanoidModel.Driver.Bsgs
import ParanoidModel.Driver.EcdsaChecks
import ParanoidModel.Driver.Nist
import ParanoidModel.Driver.NistStats
import ParanoidModel.Driver.RsaAll
import ParanoidModel.Driver.EcAll
open Paranoid.Driver

/-- all dispatchers, tried in order. -/
def dispatchers : List Dispatcher := [basicOps, nt19Ops, ntheoryOps, factoringOps, rsaCheckOps, ecdsaOps, closedFormOps, rngOps, rngTotalOps, bmOps, bmWrapperOps, bitseqOps, bookkeepingOps, suiteOps, ecOps, latticeOps, linalgOps, hnpOps, bsgsOps, ecdsaCheckOps, nistOps, nistStatsOps, rsaAllOps, ecAllOps]

def respond (regs : List (String × String)) (line : String) : String :=
  let toks := ((line.trimAscii.toString.splitOn " ").filter (· ≠ "")).map fun t =>
    if t.startsWith "$" then (regs.lookup (t.drop 1).toString).getD t else t
  match toks with
  | [] => "bad-op"
  | op :: args =>
    match dispatchers.findSome? (fun d => d op args) with
    | some r => r
    | none => "bad-op"

partial def loop (h : IO.FS.Stream) (out : IO.FS.Stream) (regs : List (String × String)) : IO Unit := do
  let line ← h.getLine
  if line.isEmpty then return ()
  -- `let name value` stores a register usable later as `$name`
  match (line.trimAscii.toString.splitOn " ") with
  | ["let", name, value] =>
    out.putStrLn "ok"
    loop h out ((name, value) :: regs)
  | _ =>
    out.putStrLn (respond regs line)
    loop h out regs

def main : IO Unit := do
  let stdin ← IO.getStdin
  let stdout ← IO.getStdout
  loop stdin stdout []
  stdout.flush
