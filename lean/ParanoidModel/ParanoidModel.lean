-- Root of the `ParanoidModel` library: executable model, proofs, property theorems.
import ParanoidModel.Model.Proto
import ParanoidModel.Model.Basic
import ParanoidModel.Model.NTheory
import ParanoidModel.Model.Factoring
import ParanoidModel.Model.BatchGcd
import ParanoidModel.Generated.Consts
import ParanoidModel.Proofs.Factoring
import ParanoidModel.Props.C01
