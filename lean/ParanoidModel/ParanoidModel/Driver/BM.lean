import ParanoidModel.Driver.Common
import ParanoidModel.Model.BM
import ParanoidModel.Spec.Lfsr
namespace Paranoid.Driver
open Paranoid.Proto

/-- C14 operations.
`bm.native s len`      LinearComplexityNative
`bm.wrapper s len`     LinearComplexity (Python wrapper + C++ result)
`bm.cpp nbytes s n`    LfsrLengthStr on the `nbytes` little-endian bytes of `s`
`bm.count n m` / `bm.count_repaired n m` / `bm.logprob n m`
`bm.textbook s len`    Spec textbook Berlekamp–Massey (short inputs)
`bm.shortest s len`    Spec brute-force shortest LFSR (very short inputs) -/
def bmOps : Dispatcher := fun op args =>
  match op, args with
  | "bm.native", [s, len] => do
      let s ← parseNat? s; let len ← parseInt? len
      pure (fmtExcept hexNat (linearComplexityNative s len))
  | "bm.wrapper", [s, len] => do
      let s ← parseNat? s; let len ← parseInt? len
      pure (fmtExcept hexInt (linearComplexity s len))
  | "bm.cpp", [nb, s, n] => do
      let nb ← parseNat? nb; let s ← parseNat? s; let n ← parseInt? n
      pure (hexInt (lfsrLengthStr nb s n))
  | "bm.count", [n, m] => do
      let n ← parseInt? n; let m ← parseInt? m; pure (hexNat (lfsrCount n m))
  | "bm.count_repaired", [n, m] => do
      let n ← parseInt? n; let m ← parseInt? m; pure (hexNat (lfsrCountRepaired n m))
  | "bm.logprob", [n, m] => do
      let n ← parseInt? n; let m ← parseInt? m; pure (fmtExcept hexInt (lfsrLogProbability n m))
  | "bm.textbook", [s, len] => do
      let s ← parseNat? s; let len ← parseNat? len
      if len > 4096 then none else pure (hexNat (Lfsr.textbookL (Lfsr.bitsOf s len)))
  | "bm.shortest", [s, len] => do
      let s ← parseNat? s; let len ← parseNat? len
      if len > 24 then none else pure (hexNat (Lfsr.shortestLfsr (Lfsr.bitsOf s len)))
  | _, _ => none

end Paranoid.Driver
