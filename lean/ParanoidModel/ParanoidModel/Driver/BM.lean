import ParanoidModel.Driver.Common
import ParanoidModel.Model.BM
import ParanoidModel.Model.BMCpp
import ParanoidModel.Spec.Lfsr
namespace Paranoid.Driver
open Paranoid.Proto

/-- byte string as `2·k` hex digits in memory order (`[]` = empty string). -/
def parseHexBytes? (s : String) : Option (List UInt8) :=
  if s == "[]" then some [] else
  let rec go : List Char → Option (List UInt8)
    | [] => some []
    | [_] => none
    | h :: l :: rest =>
      match hexDigit? h, hexDigit? l, go rest with
      | some h, some l, some bs => some ((16 * h + l).toUInt8 :: bs)
      | _, _, _ => none
  go s.toList

/-- `LfsrLengthStr` result of the word-level C++ model; `ub` = out-of-bounds vector access. -/
def fmtCpp : Option Int → String
  | none => "ub"
  | some r => hexInt r

/-- C14 operations.
`bm.cpp_portable hexbytes n`   word-level model of the portable C++ `LfsrLengthStr`
`bm.cpp_clmul hexbytes n`      word-level model of the CLMUL C++ `LfsrLengthStr`
`bm.clmul x y`                 model of the intrinsic: `hi,lo`
`bm.native s len`      LinearComplexityNative
`bm.wrapper s len`     LinearComplexity (Python wrapper + C++ result)
`bm.cpp nbytes s n`    LfsrLengthStr on the `nbytes` little-endian bytes of `s`
`bm.count n m` / `bm.count_repaired n m` / `bm.logprob n m`
`bm.textbook s len`    Spec textbook Berlekamp–Massey (short inputs)
`bm.shortest s len`    Spec brute-force shortest LFSR (very short inputs) -/
def bmOps : Dispatcher := fun op args =>
  match op, args with
  | "bm.native", [s, len] => do
      let s ← parseNat? s; let len ← parseInt? len
      pure (fmtExcept hexNat (linearComplexityNative s len))
  | "bm.wrapper", [s, len] => do
      let s ← parseNat? s; let len ← parseInt? len
      pure (fmtExcept hexInt (linearComplexity s len))
  | "bm.cpp", [nb, s, n] => do
      let nb ← parseNat? nb; let s ← parseNat? s; let n ← parseInt? n
      pure (hexInt (lfsrLengthStr nb s n))
  | "bm.cpp_portable", [bs, n] => do
      let bs ← parseHexBytes? bs; let n ← parseInt? n
      pure (fmtCpp (BMCpp.lfsrLengthStr .portable bs n))
  | "bm.cpp_clmul", [bs, n] => do
      let bs ← parseHexBytes? bs; let n ← parseInt? n
      pure (fmtCpp (BMCpp.lfsrLengthStr .clmul bs n))
  | "bm.clmul", [x, y] => do
      let x ← parseNat? x; let y ← parseNat? y
      let r := BMCpp.clmul x.toUInt64 y.toUInt64
      pure (hexNat r.1.toNat ++ "," ++ hexNat r.2.toNat)
  | "bm.count", [n, m] => do
      let n ← parseInt? n; let m ← parseInt? m; pure (hexNat (lfsrCount n m))
  | "bm.count_repaired", [n, m] => do
      let n ← parseInt? n; let m ← parseInt? m; pure (hexNat (lfsrCountRepaired n m))
  | "bm.logprob", [n, m] => do
      let n ← parseInt? n; let m ← parseInt? m; pure (fmtExcept hexInt (lfsrLogProbability n m))
  | "bm.textbook", [s, len] => do
      let s ← parseNat? s; let len ← parseNat? len
      if len > 4096 then none else pure (hexNat (Lfsr.textbookL (Lfsr.bitsOf s len)))
  | "bm.shortest", [s, len] => do
      let s ← parseNat? s; let len ← parseNat? len
      if len > 24 then none else pure (hexNat (Lfsr.shortestLfsr (Lfsr.bitsOf s len)))
  | _, _ => none

end Paranoid.Driver
