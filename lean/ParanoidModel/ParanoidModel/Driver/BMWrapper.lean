import ParanoidModel.Driver.BM
import ParanoidModel.Model.BMWrapper
namespace Paranoid.Driver
open Paranoid.Proto

def fmtHexBytes (l : List UInt8) : String :=
  if l.isEmpty then "[]" else
  String.join (l.map fun b =>
    let d := hexNat b.toNat
    if d.length = 1 then "0" ++ d else d)

/-- `bm.to_bytes size s`              `s.to_bytes(size, "little")`: hex bytes in memory order / `err OverflowError`
`bm.wrapper_cpp variant s len`     the wrapper `LinearComplexity(s, len)` over the WORD-LEVEL C++ model of
                                   `variant` (`to_bytes`, pybind11 `int`, `LfsrLengthStr`); `ub` = undefined behaviour -/
def bmWrapperOps : Dispatcher := fun op args =>
  match op, args with
  | "bm.to_bytes", [size, s] => do
      let size ← parseNat? size; let s ← parseNat? s
      if size > 2 ^ 20 then none else
      pure (fmtExcept fmtHexBytes (BMCpp.toBytesLE size s))
  | "bm.wrapper_cpp", [v, s, len] => do
      let v ← (if v == "portable" then some BMCpp.Variant.portable
               else if v == "clmul" then some BMCpp.Variant.clmul else none)
      let s ← parseNat? s; let len ← parseInt? len
      -- `to_bytes` materialises `size` bytes before the pybind11 `int` check: keep the op to sizes
      -- the byte-list model can hold (`bm.wrapper` covers the huge lengths arithmetically)
      if len > 2 ^ 22 then none else
      pure (fmtExcept fmtCpp (BMCpp.linearComplexityCpp v s len))
  | _, _ => none

end Paranoid.Driver
