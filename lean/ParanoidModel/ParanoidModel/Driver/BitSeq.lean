import ParanoidModel.Driver.Common
import ParanoidModel.Model.BitSeq
namespace Paranoid.Driver
open Paranoid.Proto Paranoid.BitSeq

/-- tallies: `size idx:count,…` listing the non-zero entries only. -/
def fmtSparse (l : List Int) : String :=
  hexNat l.length ++ " " ++
    fmtList (fun (p : Int × Nat) => hexNat p.2 ++ ":" ++ hexInt p.1) (l.zipIdx.filter (fun p => p.1 ≠ 0))

def fmtPM (l : List Int) : String :=
  if l.all (fun x => x = 1 ∨ x = -1) then
    hexNat l.length ++ " " ++ String.ofList (l.map fun x => if x = 1 then '+' else '-')
  else "raw " ++ fmtIntList l

/-- everything the module computes for one `(seq, length)` and every parameter `0 … length+1`,
in one response (used by the exhaustive small-string sweep). -/
def exhAll (seq length : Nat) (pinned : Bool) : String :=
  let ms := List.range (length + 2)
  let per (m : Nat) : String :=
    "/".intercalate [
      fmtExcept fmtNatList (subSequences seq length m true),
      fmtExcept fmtNatList (subSequences seq length m false),
      fmtExcept fmtSparse (frequencyCount seq length m true),
      fmtExcept fmtSparse (frequencyCount seq length m false),
      fmtExcept fmtNatList (splitSequence seq length m),
      fmtExcept fmtNatList (scatter seq m),
      fmtExcept hexNat (overlappingRunsOfOnes seq m)]
  "|".intercalate ([
    hexNat (bitCount seq), fmtExcept hexNat (reverseBits seq length), fmtPM (if pinned then bitsPinned seq length else bits seq length),
    hexNat (runs seq length), hexNat (longestRunOfOnes seq)] ++ ms.map per)

/-- both forced paths of FrequencyCount for every `m = 0 … length+1`, with and without wrap. -/
def exhFreqPaths (seq length : Nat) : String :=
  "|".intercalate ((List.range (length + 2)).map fun m =>
    "/".intercalate [
      fmtExcept fmtSparse (frequencyCountSlow seq length m true),
      fmtExcept fmtSparse (frequencyCountSlow seq length m false),
      fmtExcept fmtSparse (frequencyCountFast seq length m true),
      fmtExcept fmtSparse (frequencyCountFast seq length m false),
      (match splitSequence seq length m with
        | .ok _ => "ok " ++ fmtNatList (splitSlow seq (length / m) m)
        | .error e => "err " ++ e.name)])

/-- hex parser working on 16-digit chunks (linear number of big-number operations). -/
def parseHexBig? (s : String) : Option Nat :=
  if s.isEmpty then none else
  let cs := s.toList
  let rec go (cs : List Char) (fuel : Nat) (acc : Nat) (chunk : Nat) (k : Nat) : Option Nat :=
    match fuel, cs with
    | _, [] => some ((acc <<< (4 * k)) ||| chunk)
    | 0, _ => none
    | f + 1, c :: rest =>
      match hexDigit? c with
      | none => none
      | some d =>
        if k = 15 then go rest f ((acc <<< 64) ||| (chunk * 16 + d)) 0 0
        else go rest f acc (chunk * 16 + d) (k + 1)
  go cs cs.length 0 0 0

def parseNatListBig? := parseList? parseHexBig?

def bitseqOps : Dispatcher := fun op args =>
  match op, args with
  | "bs.bitcount", [s] => do let s ← parseHexBig? s; pure (hexNat (bitCount s))
  | "bs.reverse", [s, n] => do
      let s ← parseHexBig? s; let n ← parseNat? n; pure (fmtExcept hexNat (reverseBits s n))
  | "bs.revbyte", [j] => do let j ← parseNat? j; pure (hexNat (revByte j))
  | "bs.bits", [s, n] => do let s ← parseHexBig? s; let n ← parseNat? n; pure (fmtPM (bits s n))
  | "bs.bits_pinned", [s, n] => do
      let s ← parseHexBig? s; let n ← parseNat? n; pure (fmtPM (bitsPinned s n))
  | "bs.subseq", [s, n, m, w] => do
      let s ← parseHexBig? s; let n ← parseNat? n; let m ← parseNat? m; let w ← parseBool? w
      pure (fmtExcept fmtNatList (subSequences s n m w))
  | "bs.freq", [s, n, m, w] => do
      let s ← parseHexBig? s; let n ← parseNat? n; let m ← parseNat? m; let w ← parseBool? w
      pure ((if fcUseFast n m then "fast " else "slow ") ++
        fmtExcept fmtSparse (frequencyCount s n m w))
  | "bs.freq_slow", [s, n, m, w] => do
      let s ← parseHexBig? s; let n ← parseNat? n; let m ← parseNat? m; let w ← parseBool? w
      pure (fmtExcept fmtSparse (frequencyCountSlow s n m w))
  | "bs.freq_fast", [s, n, m, w] => do
      let s ← parseHexBig? s; let n ← parseNat? n; let m ← parseNat? m; let w ← parseBool? w
      pure (fmtExcept fmtSparse (frequencyCountFast s n m w))
  | "bs.split", [s, n, m] => do
      let s ← parseHexBig? s; let n ← parseNat? n; let m ← parseNat? m
      pure (fmtExcept fmtNatList (splitSequence s n m))
  | "bs.split_slow", [s, n, m] => do
      let s ← parseHexBig? s; let n ← parseNat? n; let m ← parseNat? m
      if m = 0 then pure "err ZeroDivisionError" else pure ("ok " ++ fmtNatList (splitSlow s (n / m) m))
  | "bs.split_fast", [s, n, m] => do
      let s ← parseHexBig? s; let n ← parseNat? n; let m ← parseNat? m
      if m = 0 then pure "err ZeroDivisionError" else pure ("ok " ++ fmtNatList (splitFast s (n / m) m))
  | "bs.scatter", [s, m] => do
      let s ← parseHexBig? s; let m ← parseNat? m; pure (fmtExcept fmtNatList (scatter s m))
  | "bs.runs", [s, n] => do let s ← parseHexBig? s; let n ← parseNat? n; pure (hexNat (runs s n))
  | "bs.longest", [s] => do let s ← parseHexBig? s; pure (hexNat (longestRunOfOnes s))
  | "bs.overlap", [s, m] => do
      let s ← parseHexBig? s; let m ← parseNat? m; pure (fmtExcept hexNat (overlappingRunsOfOnes s m))
  | "bs.rank", [rows] => do
      let rows ← parseIntList? rows
      pure ((if rows.length < 50 then "small " else "large ") ++ fmtExcept hexNat (binaryMatrixRank rows))
  | "bs.rank_small", [rows] => do
      let rows ← parseNatListBig? rows; pure (hexNat (rankSmall rows))
  | "bs.rank_large", [rows] => do
      let rows ← parseNatListBig? rows; pure (fmtExcept hexNat (rankLarge rows))
  | "bs.exh", [s, n, v] => do
      let s ← parseHexBig? s; let n ← parseNat? n; let v ← parseBool? v; pure (exhAll s n v)
  | "bs.exhpaths", [s, n] => do let s ← parseHexBig? s; let n ← parseNat? n; pure (exhFreqPaths s n)
  | _, _ => none

end Paranoid.Driver
