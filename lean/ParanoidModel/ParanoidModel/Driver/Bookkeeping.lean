/-
Driver/Bookkeeping.lean — line protocol for Model/Bookkeeping.lean and Model/Checks.lean.

Encoding (one token per argument, no spaces inside):
  string   hex of its UTF-8 bytes, `~` for the empty string (the model only compares strings)
  ints     `.`-separated signed hex, `_` for the empty list
  value    `f=<ints>` (a factor set) | `r=<string>` (a string GetAttachedFactors raises on)
  entry    `<name>:<0|1>:<sev>`                    entries   `,`-separated, `[]` when empty
  attach   `<name>:<value>`                        attached  `,`-separated, `[]` when empty
  info     `<weak>/<version>/<entries>/<attached>`
  artefact `<info>@<curve>@<x>@<y>`                batch     `;`-separated, `[]` when empty
  op       `s:<entry>` | `i:<attach>` | `f:<name>:<ints>`      ops `;`-separated, `[]`
  verdict  `<0|1>^<-|name:ints>^<-|name:value>`    verdicts  `,`-separated, `[]`
  inner    verdicts per active EC check, `|`-separated, `[]`
  spec     `<name>:<sev>:<needsCurve>:<unknownIfUnfactored>:<issuer>`
  step     `<spec>#<verdicts>#<inner>`             steps     `;`-separated, `[]`
  oracle   `<verdicts>#<inner>` per registered check, `;`-separated
-/
import ParanoidModel.Driver.Common
import ParanoidModel.Model.Checks
namespace Paranoid.Driver
open Paranoid.Proto

def decodeStr? (s : String) : Option String :=
  if s == "~" then some "" else
  let cs := s.toList
  let rec go : List Char → List Char → Option (List Char)
    | [], acc => some acc.reverse
    | [_], _ => none
    | a :: b :: rest, acc =>
      match hexDigit? a, hexDigit? b with
      | some x, some y => go rest (Char.ofNat (x * 16 + y) :: acc)
      | _, _ => none
  (go cs []).map String.ofList

def hex2 (n : Nat) : String :=
  let d := Nat.toDigits 16 n
  String.ofList (if d.length < 2 then '0' :: d else d)

def encodeStr (s : String) : String :=
  if s.isEmpty then "~" else String.join (s.toList.map fun c => hex2 c.toNat)

def parseSep? {α} (sep : String) (empty : String) (p : String → Option α) (s : String) :
    Option (List α) :=
  if s == empty then some [] else (s.splitOn sep).mapM p

def parseInts? (s : String) : Option (List Int) := parseSep? "." "_" parseInt? s

def fmtInts (l : List Int) : String := if l.isEmpty then "_" else ".".intercalate (l.map hexInt)

def parseValue? (s : String) : Option AttachedValue :=
  if s.startsWith "f=" then (parseInts? (s.drop 2).toString).map AttachedValue.factors
  else if s.startsWith "r=" then (decodeStr? (s.drop 2).toString).map AttachedValue.raw
  else none

def fmtValue : AttachedValue → String
  | .factors l => "f=" ++ fmtInts l
  | .raw s => "r=" ++ encodeStr s

def parseEntry? (s : String) : Option Entry :=
  match s.splitOn ":" with
  | [n, r, v] => do
    let n ← decodeStr? n; let r ← parseBool? r; let v ← parseNat? v
    pure ⟨n, r, v⟩
  | _ => none

def fmtEntry (e : Entry) : String :=
  encodeStr e.name ++ ":" ++ fmtBool e.result ++ ":" ++ hexNat e.severity

def parseAttach? (s : String) : Option (String × AttachedValue) :=
  match s.splitOn ":" with
  | [n, v] => do let n ← decodeStr? n; let v ← parseValue? v; pure (n, v)
  | _ => none

def fmtAttach (p : String × AttachedValue) : String := encodeStr p.1 ++ ":" ++ fmtValue p.2

def parseInfo? (s : String) : Option TestInfo :=
  match s.splitOn "/" with
  | [w, v, es, att] => do
    let w ← parseBool? w; let v ← decodeStr? v
    let es ← parseSep? "," "[]" parseEntry? es
    let att ← parseSep? "," "[]" parseAttach? att
    pure ⟨w, es, att, v⟩
  | _ => none

def fmtInfo (t : TestInfo) : String :=
  fmtBool t.weak ++ "/" ++ encodeStr t.version ++ "/" ++ fmtList fmtEntry t.results ++ "/" ++
    fmtList fmtAttach t.attached

def parseArtifact? (s : String) : Option Artifact :=
  match s.splitOn "@" with
  | [t, c, x, y] => do
    let t ← parseInfo? t; let c ← parseNat? c; let x ← parseNat? x; let y ← parseNat? y
    pure ⟨t, c, (x, y)⟩
  | _ => none

def parseBatch? (s : String) : Option (List Artifact) := parseSep? ";" "[]" parseArtifact? s

def fmtBatch (l : List Artifact) : String :=
  if l.isEmpty then "[]" else ";".intercalate (l.map fun a => fmtInfo a.info)

def parseOp? (s : String) : Option Op :=
  if s.startsWith "s:" then (parseEntry? (s.drop 2).toString).map Op.setTestResult
  else if s.startsWith "i:" then
    (parseAttach? (s.drop 2).toString).map fun p => Op.attachInfo p.1 p.2
  else if s.startsWith "f:" then
    match (s.drop 2).toString.splitOn ":" with
    | [n, l] => do let n ← decodeStr? n; let l ← parseInts? l; pure (Op.attachFactors n l)
    | _ => none
  else none

def parseVerdict? (s : String) : Option Verdict :=
  match s.splitOn "^" with
  | [p, f, i] => do
    let p ← parseBool? p
    let f ← if f == "-" then some none else
      match f.splitOn ":" with
      | [n, l] => do let n ← decodeStr? n; let l ← parseInts? l; pure (some (n, l))
      | _ => none
    let i ← if i == "-" then some none else (parseAttach? i).map some
    pure ⟨p, f, i⟩
  | _ => none

def parseVerdicts? (s : String) : Option (List Verdict) := parseSep? "," "[]" parseVerdict? s

def parseInner? (s : String) : Option (List (List Verdict)) := parseSep? "|" "[]" parseVerdicts? s

def noVerdict : Verdict := ⟨false, none, none⟩

/-- oracle lists as the functions the model takes (indices are validated by the caller). -/
def verdictFn (l : List Verdict) : Nat → Verdict := fun i => (l[i]?).getD noVerdict

def innerFn (l : List (List Verdict)) : Nat → Nat → Verdict :=
  fun j k => (((l[j]?).getD [])[k]?).getD noVerdict

def parseSpec? (s : String) : Option CheckSpec :=
  match s.splitOn ":" with
  | [n, v, a, b, c] => do
    let n ← decodeStr? n; let v ← parseNat? v
    let a ← parseBool? a; let b ← parseBool? b; let c ← parseBool? c
    pure ⟨n, v, a, b, c⟩
  | _ => none

/-- are the oracle lists of the right shape for this step on this batch? -/
def oracleOk (var : Variant) (ec : List CheckSpec) (arts : List Artifact) (c : CheckSpec)
    (vs : List Verdict) (inner : List (List Verdict)) : Bool :=
  if c.issuer then
    inner.length == ec.length && inner.all (fun l => l.length == (issuerKeys var arts).length)
  else vs.length == arts.length

def parseStepWith? (var : Variant) (ec : List CheckSpec) (arts : List Artifact)
    (c : CheckSpec) (vs inner : String) : Option Step := do
  let vs ← parseVerdicts? vs
  let inner ← parseInner? inner
  if oracleOk var ec arts c vs inner then pure ⟨c, verdictFn vs, innerFn inner⟩ else none

def parseStep? (var : Variant) (ec : List CheckSpec) (arts : List Artifact) (s : String) :
    Option Step :=
  match s.splitOn "#" with
  | [c, vs, inner] => do let c ← parseSpec? c; parseStepWith? var ec arts c vs inner
  | _ => none

/-- the oracle of a whole entry point: per registered check its verdict list and inner lists,
shape-checked against the registry, as the functions `O`, `I` the model takes. -/
def parseOracleFor? (var : Variant) (ec : List CheckSpec) (arts : List Artifact)
    (specs : List CheckSpec) (s : String) :
    Option ((Nat → Nat → Verdict) × (Nat → Nat → Nat → Verdict)) := do
  let items ← parseSep? ";" "[]" some s
  if items.length ≠ specs.length then none else
  let parsed ← (specs.zip items).mapM fun (c, it) =>
    match it.splitOn "#" with
    | [vs, inner] => do
      let vs ← parseVerdicts? vs
      let inner ← parseInner? inner
      if oracleOk var ec arts c vs inner then pure (vs, inner) else none
    | _ => none
  pure (fun j => verdictFn (((parsed[j]?).map (·.1)).getD []),
        fun j => innerFn (((parsed[j]?).map (·.2)).getD []))

def parseBkVariant? (s : String) : Option Variant :=
  if s == "pinned" then some .pinned else if s == "repaired" then some .repaired else none

def fmtRun (r : Except PyErr (List Artifact × Bool)) : String :=
  match r with
  | .ok (arts, b) => "ok " ++ fmtBatch arts ++ " " ++ fmtBool b
  | .error e => "err " ++ e.name

def fmtOptEntry : Option Entry → String
  | none => "-"
  | some e => fmtEntry e

/-- errors of each op of a history run by a caller that catches exceptions: `0`/`1` per op. -/
def opErrors (ver : String) : TestInfo → List Op → List Bool
  | _, [] => []
  | ti, op :: ops =>
    match applyOp ver ti op with
    | .ok t => false :: opErrors ver t ops
    | .error _ => true :: opErrors ver ti ops

def registry? (s : String) : Option (List CheckSpec) :=
  if s == "rsa" then some rsaAll else if s == "ec" then some ecAll
  else if s == "ecdsa" then some ecdsaAll else none

def fmtSpecs (l : List CheckSpec) : String :=
  fmtList (fun c => encodeStr c.name ++ ":" ++ hexNat c.severity ++ ":" ++ fmtBool c.needsCurve
    ++ ":" ++ fmtBool c.unknownIfUnfactored ++ ":" ++ fmtBool c.issuer) l

def bookkeepingOps : Dispatcher := fun op args =>
  match op, args with
  | "bk.get", [ti, name] => do
      let ti ← parseInfo? ti; let name ← decodeStr? name
      pure (fmtOptEntry (getTestResult ti name) ++ " " ++
        fmtOpt fmtValue (getAttachedInfo ti name) ++ " " ++
        fmtExcept (fmtOpt fmtInts) (getAttachedFactors ti name) ++ " " ++
        fmtOpt hexNat (getHighestSeverity ti))
  | "bk.ops", [ver, ti, ops] => do
      let ver ← decodeStr? ver; let ti ← parseInfo? ti
      let ops ← parseSep? ";" "[]" parseOp? ops
      pure (fmtInfo (runOps ver ti ops) ++ " " ++
        String.join ((opErrors ver ti ops).map fmtBool) ++ "." ++
        (match applyOps ver ti ops with
         | .ok t => if t = runOps ver ti ops then "same" else "differ"
         | .error e => e.name))
  | "bk.run", [var, ver, arts, steps] => do
      let var ← parseBkVariant? var; let ver ← decodeStr? ver; let arts ← parseBatch? arts
      let steps ← parseSep? ";" "[]" (parseStep? var ecAll arts) steps
      pure (fmtRun (checkArtifacts var ver ecAll steps arts))
  | "bk.checkall", [var, which, arts, oracle] => do
      let var ← parseBkVariant? var; let specs ← registry? which; let arts ← parseBatch? arts
      let (O, I) ← parseOracleFor? var ecAll arts specs oracle
      if which == "rsa" then pure (fmtRun (checkAllRSA var O I arts))
      else if which == "ec" then pure (fmtRun (checkAllEC var O I arts))
      else pure (fmtRun (checkAllECDSASigs var O I arts))
  | "bk.issuerkeys", [var, arts] => do
      let var ← parseBkVariant? var; let arts ← parseBatch? arts
      pure (fmtList (fun a => hexNat a.curve ++ ":" ++ hexNat a.point.1 ++ ":" ++ hexNat a.point.2)
        (issuerKeys var arts))
  | "bk.registry", [which] => do
      let specs ← registry? which
      pure (fmtSpecs specs ++ " " ++ encodeStr Consts.libVersion ++ " " ++
        fmtNatList Consts.knownCurves)
  | _, _ => none

end Paranoid.Driver
