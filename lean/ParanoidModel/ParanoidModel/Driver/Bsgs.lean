import ParanoidModel.Driver.Ec
import ParanoidModel.Model.Bsgs
/-
Driver/Bsgs.lean — line-protocol ops for Model/Bsgs.lean (hash-map instance `hashImpl`;
Proofs/BsgsFast.lean: same answers as the association-list instance of the theorems).

State token. The `_table` of a curve object is always `{}` or the result of
`PointTable(g, _table_size)` (C10.history_invariant), so the state travels as `size:m`
(`m` = the value `int(math.sqrt(size))` had when the table was built; `0:0` = fresh object) and the
driver rebuilds the table from it. Ops return the new token.

Encoding (see Driver/Ec.lean for curves and points):
  rel      `qx:qy:dl` or `-`
  key      `curve_type:x:y`
  factory  `id=a,b,p,gx,gy,n,h;id=-;…` in `CURVE_FACTORY.items()` order
  verdict  `-` (no SetTestResult) | `0` | `1` | `1|<dlog>` | `1|qx:qy:dl`
-/
namespace Paranoid.Driver
open Paranoid.Proto Paranoid.Ec Paranoid.Bsgs

abbrev HTable := Std.HashMap (Option Int) Nat

def parseTok? (s : String) : Option (Nat × Nat) :=
  match s.splitOn ":" with
  | [a, b] => do let a ← parseNat? a; let b ← parseNat? b; pure (a, b)
  | _ => none

def fmtTok (t : Nat × Nat) : String := hexNat t.1 ++ ":" ++ hexNat t.2

/-- rebuild the state a token stands for. -/
def stateOfTok (c : Curve) (t : Nat × Nat) : Option (StateG HTable) :=
  if t.1 = 0 then some (StateG.init hashImpl)
  else match pointTableG hashImpl c c.g t.1 t.2 with
    | .ok tb => some ⟨t.1, tb⟩
    | .error _ => none

/-- token of the state after a call that may have rebuilt the table with oracle `m`. -/
def tokAfter (old : Nat × Nat) (newSize m : Nat) : Nat × Nat :=
  if newSize = old.1 then old else (newSize, m)

def fmtRelOpt : Option Rel → String
  | none => "-"
  | some r => hexInt r.qx ++ ":" ++ hexInt r.qy ++ ":" ++ hexInt r.dl

def parseKey? (s : String) : Option ECKey :=
  match s.splitOn ":" with
  | [t, x, y] => do let t ← parseNat? t; let x ← parseNat? x; let y ← parseNat? y; pure ⟨t, x, y⟩
  | _ => none

def parseFEntry? (s : String) : Option FEntry :=
  match s.splitOn "=" with
  | [i, c] => do
    let i ← parseNat? i
    if c == "-" then pure ⟨i, none⟩ else do let c ← parseCurve? c; pure ⟨i, some c⟩
  | _ => none

def parseBsgsFactory? (s : String) : Option Factory :=
  if s == "[]" then some [] else (s.splitOn ";").mapM parseFEntry?

def fmtKV : KeyVerdict → String
  | none => "-"
  | some ⟨r, none⟩ => fmtBool r
  | some ⟨r, some (.dlog v)⟩ => fmtBool r ++ "|" ++ hexInt v
  | some ⟨r, some (.diff d)⟩ => fmtBool r ++ "|" ++ fmtRelOpt (some d)

/-- states of all factory entries from their tokens (`0:0` for `None` entries). -/
def statesOfToks : Factory → List (Nat × Nat) → Option (List (StateG HTable))
  | e :: es, t :: ts => do
    let st ← (match e.curve with
      | none => some (StateG.init hashImpl)
      | some c => stateOfTok c t)
    let rest ← statesOfToks es ts
    pure (st :: rest)
  | [], [] => some []
  | _, _ => none

def toksAfter : List (Nat × Nat) → List (StateG HTable) → List Nat → List (Nat × Nat)
  | t :: ts, st :: sts, m :: ms => tokAfter t st.tableSize m :: toksAfter ts sts ms
  | _, _, _ => []

def bsgsOps : Dispatcher := fun op args =>
  match op, args with
  | "bsgs.batchdl", [c, tok, ps, n, ts, m] => do
      let c ← parseCurve? c; let tok ← parseTok? tok; let ps ← parsePtList? ps
      let n ← parseNat? n; let ts ← parseNat? ts; let m ← parseNat? m
      let st ← stateOfTok c tok
      pure (fmtExcept (fun (r : List (Option Int) × StateG HTable) =>
        fmtOptIntList r.1 ++ " " ++ fmtTok (tokAfter tok r.2.tableSize m))
        (batchDLG hashImpl c st ps n ts m))
  | "bsgs.extdl", [c, tok, ps, ts, m] => do
      let c ← parseCurve? c; let tok ← parseTok? tok; let ps ← parsePtList? ps
      let ts ← parseNat? ts; let m ← parseNat? m
      let st ← stateOfTok c tok
      pure (fmtExcept (fun (r : List (Option Int) × StateG HTable) =>
        fmtOptIntList r.1 ++ " " ++ fmtTok (tokAfter tok r.2.tableSize m))
        (extendedBatchDLG hashImpl c st ps ts m))
  | "bsgs.extdlb", [c, bound, tok, ps, ts, m] => do
      let c ← parseCurve? c; let bound ← parseNat? bound; let tok ← parseTok? tok
      let ps ← parsePtList? ps; let ts ← parseNat? ts; let m ← parseNat? m
      let st ← stateOfTok c tok
      pure (fmtExcept (fun (r : List (Option Int) × StateG HTable) =>
        fmtOptIntList r.1 ++ " " ++ fmtTok (tokAfter tok r.2.tableSize m))
        (extendedBatchDLB hashImpl c bound st ps ts m))
  | "bsgs.diffdl", [c, tok, ps, os, md, m] => do
      let c ← parseCurve? c; let tok ← parseTok? tok; let ps ← parsePtList? ps
      let os ← parsePtList? os; let md ← parseNat? md; let m ← parseNat? m
      let st ← stateOfTok c tok
      pure (fmtExcept (fun (r : List (Option Rel) × StateG HTable) =>
        fmtList fmtRelOpt r.1 ++ " " ++ fmtTok (tokAfter tok r.2.tableSize m))
        (batchDLOfDifferencesG hashImpl c st ps os md m))
  | "bsgs.multipliers", [c] => do
      let c ← parseCurve? c; pure (fmtNatList (extMultipliers c))
  | "bsgs.validkey", [f, ks] => do
      let f ← parseBsgsFactory? f; let ks ← parseList? parseKey? ks
      pure (fmtExcept (fmtList fmtKV) (checkValidECKey f ks))
  | "bsgs.weakcurve", [f, ks] => do
      let f ← parseBsgsFactory? f; let ks ← parseList? parseKey? ks
      pure (fmtList fmtKV (checkWeakCurve f ks))
  | "bsgs.weakkey", [f, toks, orc, ks] => do
      let f ← parseBsgsFactory? f; let toks ← parseList? parseTok? toks
      let orc ← parseList? parseTok? orc; let ks ← parseList? parseKey? ks
      let sts ← statesOfToks f toks
      pure (fmtExcept (fun (r : List KeyVerdict × List (StateG HTable)) =>
        fmtList fmtKV r.1 ++ " " ++ fmtList fmtTok (toksAfter toks r.2 (orc.map Prod.snd)))
        (checkWeakECPrivateKeyG hashImpl f sts orc ks))
  | "bsgs.smalldiff", [f, toks, ms, ks, md] => do
      let f ← parseBsgsFactory? f; let toks ← parseList? parseTok? toks
      let ms ← parseNatList? ms; let ks ← parseList? parseKey? ks; let md ← parseNat? md
      let sts ← statesOfToks f toks
      pure (fmtExcept (fun (r : List KeyVerdict × List (StateG HTable)) =>
        fmtList fmtKV r.1 ++ " " ++ fmtList fmtTok (toksAfter toks r.2 ms))
        (checkECKeySmallDifferenceG hashImpl f sts ms ks md))
  | _, _ => none

end Paranoid.Driver
