import ParanoidModel.Driver.Common
import ParanoidModel.Model.ClosedForm
import ParanoidModel.Generated.Consts
namespace Paranoid.Driver
open Paranoid.Proto

/-- a string as the list of its code points. -/
def fmtChars (s : List Char) : String := fmtNatList (s.map Char.toNat)

def parseChars? (s : String) : Option (List Char) := (parseNatList? s).map (·.map Char.ofNat)

/-- list of strings: `-` is the empty list, otherwise `;`-separated code-point lists. -/
def parseStrList? (s : String) : Option (List (List Char)) :=
  if s == "-" then some [] else (s.splitOn ";").mapM parseChars?

/-- keypair table: `-` is the empty table, otherwise `;`-separated `key|bytes`. -/
def parseTable? (s : String) : Option (List (Nat × List Nat)) :=
  if s == "-" then some [] else
  (s.splitOn ";").mapM fun e =>
    match e.splitOn "|" with
    | [k, v] => do let k ← parseNat? k; let v ← parseNatList? v; pure (k, v)
    | _ => none

/-- factor list canonicalised as a sorted set (`AttachFactors` stores a Python `set`). -/
def fmtFactorSet (l : List Nat) : String :=
  match l with
  | [p, q] => if p = q then fmtNatList [p] else if p < q then fmtNatList [p, q] else fmtNatList [q, p]
  | l => fmtNatList l

def fmtBools (l : List Bool) : String := String.ofList (l.map fun b => if b then '1' else '0')

/-- C06 (RSA half) ops. -/
def closedFormOps : Dispatcher := fun op args =>
  match op, args with
  | "cf.sizes", [n] => do let n ← parseNatList? n; pure (fmtBool (checkSizes n))
  | "cf.exponents", [e] => do let e ← parseNatList? e; pure (fmtBool (checkExponents e))
  | "cf.hasdlog", [v, b, n] => do
      let v ← parseNat? v; let b ← parseNat? b; let n ← parseNat? n
      pure (fmtExcept fmtBool (hasDiscreteLog v b n))
  | "cf.roca", [n] => do
      let n ← parseNat? n
      pure (fmtExcept fmtBool (rocaIsWeak Consts.rocaPrimes Consts.rocaF4 n))
  | "cf.roca_with", [ps, f4, n] => do
      let ps ← parseNatList? ps; let f4 ← parseNat? f4; let n ← parseNat? n
      pure (fmtExcept fmtBool (rocaIsWeak ps f4 n))
  | "cf.qr", [p] => do let p ← parseNat? p; pure ("t" ++ fmtBools (quadraticResidues p))
  | "cf.rocavariant", [n] => do
      let n ← parseNat? n
      pure (fmtExcept fmtBool
        (rocaVariantIsWeak Consts.rocaVariantPrimes Consts.rocaPrimes Consts.rocaF4 n))
  | "cf.rocavariant_with", [vps, rps, f4, n] => do
      let vps ← parseNatList? vps; let rps ← parseNatList? rps
      let f4 ← parseNat? f4; let n ← parseNat? n
      pure (fmtExcept fmtBool (rocaVariantIsWeak vps rps f4 n))
  | "cf.hexupper", [n] => do let n ← parseNat? n; pure (String.ofList (hexUpper n))
  | "cf.opensslinput", [n] => do let n ← parseNat? n; pure (fmtChars (opensslHashInput n))
  | "cf.openssl", [n, digest, deny] => do
      let n ← parseNat? n; let digest ← parseChars? digest; let deny ← parseStrList? deny
      pure (fmtChars (opensslKeyStr n digest) ++ " " ++ fmtBool (opensslWeak n digest deny))
  | "cf.keypairseed", [table, n] => do
      let table ← parseTable? table; let n ← parseNat? n
      pure (fmtExcept (fmtOpt fmtNatList) (keypairSeed table n))
  | "cf.keypair", [table, n, p, q] => do
      let table ← parseTable? table; let n ← parseNat? n
      let p ← parseNat? p; let q ← parseNat? q
      pure (fmtExcept (fun r => fmtBool r.1 ++ " " ++ fmtFactorSet r.2)
        (keypairStep table n (fun _ _ => (p, q))))
  | _, _ => none

end Paranoid.Driver
