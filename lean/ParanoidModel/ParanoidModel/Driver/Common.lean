import ParanoidModel.Model.Proto
import ParanoidModel.Model.Basic
namespace Paranoid.Driver
open Paranoid.Proto

/-- A dispatcher maps `(op, args)` to a response, or `none` when the op is not its own
or an argument fails to parse. -/
abbrev Dispatcher := String → List String → Option String

def fmtExcept {α} (f : α → String) : Except PyErr α → String
  | .ok a => "ok " ++ f a
  | .error e => "err " ++ e.name

def fmtOptList (o : Option (List Nat)) : String :=
  match o with
  | none => "none"
  | some l => fmtNatList l

def fmtOptPair (o : Option (Nat × Nat)) : String :=
  match o with
  | none => "none"
  | some (a, b) => hexNat a ++ "," ++ hexNat b

end Paranoid.Driver
