import ParanoidModel.Driver.Common
import ParanoidModel.Model.Ec
/-
Driver/Ec.lean — line-protocol ops for Model/Ec.lean.

Encoding: curve = `a,b,p,gx,gy,n,h` (hex list, usually a `let` register); affine point = `inf` or
`x:y`; Jacobian point = `x:y:z`; lists comma separated (`[]` empty); `-` is `None`;
cache = `k=pt,…` ; x-table = `key=value,…` in dict order.
-/
namespace Paranoid.Driver
open Paranoid.Proto Paranoid.Ec

def parseCurve? (s : String) : Option Curve := do
  match ← parseIntList? s with
  | [a, b, p, gx, gy, n, h] =>
    if p ≤ 0 ∨ n ≤ 0 ∨ h < 0 then none
    else some ⟨a, b, p.toNat, gx, gy, n.toNat, h.toNat⟩
  | _ => none

def parsePt? (s : String) : Option Pt :=
  if s == "inf" then some .inf else
  match s.splitOn ":" with
  | [x, y] => do let x ← parseInt? x; let y ← parseInt? y; pure (.aff x y)
  | _ => none

def parseJPt? (s : String) : Option JPt :=
  match s.splitOn ":" with
  | [x, y, z] => do let x ← parseInt? x; let y ← parseInt? y; let z ← parseInt? z; pure ⟨x, y, z⟩
  | _ => none

def parsePtList? := parseList? parsePt?
def parseJPtList? := parseList? parseJPt?
def parseOptIntList? := parseList? parseOptInt?

def parseCache? (s : String) : Option Cache :=
  parseList? (fun e => match e.splitOn "=" with
    | [k, p] => do let k ← parseNat? k; let p ← parsePt? p; pure (k, p)
    | _ => none) s

def fmtPt : Pt → String
  | .inf => "inf"
  | .aff x y => hexInt x ++ ":" ++ hexInt y

def fmtJPt (P : JPt) : String := hexInt P.x ++ ":" ++ hexInt P.y ++ ":" ++ hexInt P.z
def fmtPtList := fmtList fmtPt
def fmtOptIntList := fmtList (fmtOpt hexInt)

/-- insertion sort by key (the harness sorts `curve._cache.items()` the same way). -/
def insertByKey (e : Nat × Pt) : List (Nat × Pt) → List (Nat × Pt)
  | [] => [e]
  | f :: rest => if e.1 ≤ f.1 then e :: f :: rest else f :: insertByKey e rest

def fmtCache (cache : Cache) : String :=
  fmtList (fun (e : Nat × Pt) => hexNat e.1 ++ "=" ++ fmtPt e.2) (cache.foldr insertByKey [])

def fmtXTable (t : XTable) : String :=
  fmtList (fun (e : Option Int × Nat) => fmtOpt hexInt e.1 ++ "=" ++ hexNat e.2) t

def ecOps : Dispatcher := fun op args =>
  match op, args with
  | "ec.oncurve", [c, p] => do
      let c ← parseCurve? c; let p ← parsePt? p; pure (fmtBool (onCurve c p))
  | "ec.validkey", [c, p] => do
      let c ← parseCurve? c; let p ← parsePt? p; pure (fmtExcept fmtBool (isValidPublicKey c p))
  | "ec.neg", [c, p] => do
      let c ← parseCurve? c; let p ← parsePt? p; pure (fmtPt (negate c p))
  | "ec.double", [c, p] => do
      let c ← parseCurve? c; let p ← parsePt? p; pure (fmtExcept fmtPt (double c p))
  | "ec.double.pinned", [c, p] => do
      let c ← parseCurve? c; let p ← parsePt? p; pure (fmtExcept fmtPt (doublePinned c p))
  | "ec.add", [c, p, q] => do
      let c ← parseCurve? c; let p ← parsePt? p; let q ← parsePt? q
      pure (fmtExcept fmtPt (add c p q))
  | "ec.add.pinned", [c, p, q] => do
      let c ← parseCurve? c; let p ← parsePt? p; let q ← parsePt? q
      pure (fmtExcept fmtPt (addPinned c p q))
  | "ec.sub", [c, p, q] => do
      let c ← parseCurve? c; let p ← parsePt? p; let q ← parsePt? q
      pure (fmtExcept fmtPt (subtract c p q))
  | "ec.doublej", [c, p] => do
      let c ← parseCurve? c; let p ← parseJPt? p; pure (fmtJPt (doubleJ c p))
  | "ec.addj", [c, p, q] => do
      let c ← parseCurve? c; let p ← parseJPt? p; let q ← parseJPt? q; pure (fmtJPt (addJ c p q))
  | "ec.a2j", [p] => do let p ← parsePt? p; pure (fmtJPt (affineToJ p))
  | "ec.j2a", [c, p] => do
      let c ← parseCurve? c; let p ← parseJPt? p; pure (fmtExcept fmtPt (jToAffine c p))
  | "ec.mulaffine", [c, p, k] => do
      let c ← parseCurve? c; let p ← parsePt? p; let k ← parseInt? k
      pure (fmtExcept fmtPt (multiplyAffine c p k))
  | "ec.mul", [c, p, k] => do
      let c ← parseCurve? c; let p ← parsePt? p; let k ← parseInt? k
      pure (fmtExcept fmtPt (multiply c p k))
  | "ec.batchinverse", [c, vs] => do
      let c ← parseCurve? c; let vs ← parseOptIntList? vs
      pure (fmtExcept fmtOptIntList (batchInverse c vs))
  | "ec.batchj2x", [c, ps] => do
      let c ← parseCurve? c; let ps ← parseJPtList? ps
      pure (fmtExcept fmtOptIntList (batchJToX c ps))
  | "ec.batchj2a", [c, ps] => do
      let c ← parseCurve? c; let ps ← parseJPtList? ps
      pure (fmtExcept fmtPtList (batchJToAffine c ps))
  | "ec.batchaddlist", [c, ps, qs] => do
      let c ← parseCurve? c; let ps ← parsePtList? ps; let qs ← parsePtList? qs
      pure (fmtExcept fmtPtList (batchAddList c ps qs))
  | "ec.batchdouble", [c, ps] => do
      let c ← parseCurve? c; let ps ← parsePtList? ps
      pure (fmtExcept fmtPtList (batchDouble c ps))
  | "ec.batchdouble.pinned", [c, ps] => do
      let c ← parseCurve? c; let ps ← parsePtList? ps
      pure (fmtExcept fmtPtList (batchDoublePinned c ps))
  | "ec.batchadd", [c, p, ps] => do
      let c ← parseCurve? c; let p ← parsePt? p; let ps ← parsePtList? ps
      pure (fmtExcept fmtPtList (batchAdd c p ps))
  | "ec.batchaddx", [c, p, ps] => do
      let c ← parseCurve? c; let p ← parsePt? p; let ps ← parsePtList? ps
      pure (fmtExcept fmtOptIntList (batchAddX c p ps))
  | "ec.batchaddsubx", [c, p, ps] => do
      let c ← parseCurve? c; let p ← parsePt? p; let ps ← parsePtList? ps
      pure (fmtExcept (fun (r : List (Option Int) × List (Option Int)) =>
        fmtOptIntList r.1 ++ " " ++ fmtOptIntList r.2) (batchAddSubtractX c p ps))
  | "ec.batchmulg", [c, cache, ss] => do
      let c ← parseCurve? c; let cache ← parseCache? cache; let ss ← parseIntList? ss
      pure (fmtExcept (fun (r : List Pt × Cache) => fmtPtList r.1 ++ " " ++ fmtCache r.2)
        (batchMultiplyG c cache ss))
  | "ec.combparams", [c] => do
      let c ← parseCurve? c; pure (hexNat (combSteps c) ++ " " ++ hexNat (combMask c))
  | "ec.pointsequence", [c, p, n] => do
      let c ← parseCurve? c; let p ← parsePt? p; let n ← parseNat? n
      pure (fmtExcept fmtPtList (pointSequence c p n))
  | "ec.pointtable", [c, p, n, m] => do
      let c ← parseCurve? c; let p ← parsePt? p; let n ← parseNat? n; let m ← parseNat? m
      pure (fmtExcept fmtXTable (pointTable c p n m))
  | _, _ => none

end Paranoid.Driver
