/-
Driver/EcAll.lean — line protocol for Model/EcAll.lean (hash-map instance of the `_table` dict, as
Driver/Bsgs.lean).  The result is printed in the format of `bk.checkall` (`fmtRun`).

  ecall.checkec  <bound> <maxDiff> <toks> <wk> <sd> <batch>
      toks   `size:m` per `CURVE_FACTORY` item (Driver/Bsgs state token; `0:0` = fresh object)
      wk     `ts:m` per item (float oracles of CheckWeakECPrivateKey's BatchDL)
      sd     `m` per item (float oracle of CheckECKeySmallDifference's PointTable)
      batch  as in Driver/Bookkeeping (`<info>@<curve>@<x>@<y>;…`)
    → `ok <infos> <ret> <_table_size per item>` | `err <Exc>` | `model-error …`

  ecall.checksigs <bound> <maxDiff> <toks> <caches> <sigs> <oracle>
      caches `<cid>|<cache>` for the curve objects with a non-empty `_cache`, `;`-separated, `[]`
      sigs   `<info>@<curve>@<kx>@<ky>@<r>@<s>@<mh>;…` (byte fields as in Driver/EcdsaChecks)
      oracle one item per registered check, `+`-separated:
             `S=<oracle of ecdsachk.check>` (nonce checks) | `F=<wk>~<sd>` (CheckIssuerKey)
    → `ok <infos> <ret> <_table_size per item> <cid:len(_cache),…> <calls per check, +-separated>
       <consistent per check>`

  ecall.kinds    → `<name>=<kind>,…` for the registered signature checks (`I` = CheckIssuerKey)
  ecall.factory  → the factory of Model/EcAll in the encoding of Driver/Bsgs
-/
import ParanoidModel.Driver.Bsgs
import ParanoidModel.Driver.EcdsaChecks
import ParanoidModel.Model.EcAll
namespace Paranoid.Driver
open Paranoid.Proto Paranoid.Ec Paranoid.Bsgs Paranoid.EcAll
namespace EcAllDrv

def fmtErr : Err → String
  | .py e => "err " ++ e.name
  | .noModel n => "model-error no-model:" ++ n
  | .shape => "model-error shape"

def fmtSizes (sts : List (StateG HTable)) : String := fmtList (fun st => hexNat st.tableSize) sts

def parseParams? (b md : String) : Option EcParams := do
  let b ← parseNat? b; let md ← parseNat? md; pure ⟨b, md⟩

def parseEcOracle? (wk sd : String) : Option EcOracle := do
  let wk ← parseList? parseTok? wk; let sd ← parseNatList? sd; pure ⟨wk, sd⟩

def parseSigArt? (s : String) : Option SigArt :=
  match s.splitOn "@" with
  | [t, c, kx, ky, r, s', mh] => do
    let t ← parseInfo? t; let c ← parseNat? c
    let kx ← EcdsaChk.parseBytes? kx; let ky ← EcdsaChk.parseBytes? ky
    let r ← EcdsaChk.parseBytes? r; let s' ← EcdsaChk.parseBytes? s'
    let mh ← EcdsaChk.parseBytes? mh
    pure ⟨t, ⟨c, kx, ky, r, s', mh⟩⟩
  | _ => none

def parseCacheEntry? (s : String) : Option (Nat × Cache) :=
  match s.splitOn "|" with
  | [cid, cache] => do let cid ← parseNat? cid; let cache ← parseCache? cache; pure (cid, cache)
  | _ => none

/-- `namedFactory` with the given `_cache` contents. -/
def withCaches (caches : List (Nat × Cache)) : EcdsaChecks.Factory :=
  EcdsaChecks.namedFactory.map fun e =>
    match e.2, caches.lookup e.1 with
    | some obj, some cache => (e.1, some ⟨obj.curve, cache⟩)
    | _, _ => e

inductive OItem
  | solver (o : Nat → EcdsaChecks.GroupOracle)
  | floats (o : EcOracle)

def parseOItem? (s : String) : Option OItem :=
  if s.startsWith "S=" then (EcdsaChk.parseOracle? (s.drop 2).toString).map OItem.solver
  else if s.startsWith "F=" then
    match (s.drop 2).toString.splitOn "~" with
    | [wk, sd] => (parseEcOracle? wk sd).map OItem.floats
    | _ => none
  else none

def emptyGroupOracle : EcdsaChecks.GroupOracle := EcdsaChk.groupOracleOf [] []

/-- glue (not part of the model): oracle items as the functions the model takes. -/
def sigOracleOf (items : List OItem) : SigOracle where
  solver := fun j => match items[j]? with
    | some (.solver o) => o
    | _ => fun _ => emptyGroupOracle
  floats := fun j => match items[j]? with
    | some (.floats o) => o
    | _ => ⟨[], []⟩

def fmtStepCalls : StepOut → String
  | .direct _ calls => EcdsaChk.fmtCalls ((calls.map fun g => g.2.flatten).flatten)
  | .inner _ => "-"

/-- per registered check: are the `set`-order oracles enumerations of the right sets
(`EcdsaChecks.checkConsistent`, evaluated on the factory the check started from)? -/
def consistentFlags (O : SigOracle) (sigs : List EcdsaChecks.Sig) :
    List (CheckSpec × Nat) → String
  | [] => ""
  | cj :: rest =>
    (match kindOfName cj.1.name with
     | some k => fmtBool (EcdsaChecks.checkConsistent k (O.solver cj.2) sigs EcdsaChecks.namedFactory)
     | none => "-") ++ consistentFlags O sigs rest

def fmtCacheLens (f : EcdsaChecks.Factory) : String :=
  fmtList (fun (e : Nat × Nat) => hexNat e.1 ++ ":" ++ hexNat e.2)
    (f.filterMap fun e => e.2.map fun obj => (e.1, obj.cache.length))

def fmtKind : Option EcdsaChecks.Kind → String
  | some (.biased (.bias b)) => "B:" ++ hexNat b
  | some (.biased (.lcg n f)) => "L:" ++ hexNat n ++ ":" ++ hexNat f
  | some .cr50 => "C"
  | none => "-"

def fmtBsgsFactory (f : Bsgs.Factory) : String :=
  if f.isEmpty then "[]" else
  ";".intercalate (f.map fun e =>
    hexNat e.id ++ "=" ++ (match e.curve with
      | none => "-"
      | some c => fmtIntList [c.a, c.b, c.p, c.gx, c.gy, c.n, c.h]))

end EcAllDrv
open EcAllDrv

def ecAllOps : Dispatcher := fun op args =>
  match op, args with
  | "ecall.checkec", [b, md, toks, wk, sd, arts] => do
      let p ← parseParams? b md; let toks ← parseList? parseTok? toks
      let o ← parseEcOracle? wk sd; let arts ← parseBatch? arts
      let sts ← statesOfToks ecFactory toks
      pure (match checkAllECFullG hashImpl p o sts arts with
        | .error e => fmtErr e
        | .ok (r, sts') => fmtRun (.ok r) ++ " " ++ fmtSizes sts')
  | "ecall.checksigs", [b, md, toks, caches, sigs, oracle] => do
      let p ← parseParams? b md; let toks ← parseList? parseTok? toks
      let caches ← parseSep? ";" "[]" parseCacheEntry? caches
      let sarts ← parseSep? ";" "[]" parseSigArt? sigs
      let items ← parseSep? "+" "[]" parseOItem? oracle
      let sts ← statesOfToks ecFactory toks
      let O := sigOracleOf items
      pure (match checkAllECDSASigsFullG hashImpl p O ⟨sts, withCaches caches⟩ sarts with
        | .error e => fmtErr e
        | .ok run =>
          fmtRun (.ok run.result) ++ " " ++ fmtSizes run.state.tables ++ " " ++
            fmtCacheLens run.state.factory ++ " " ++
            "+".intercalate (run.outs.map fmtStepCalls) ++ " " ++
            consistentFlags O (sarts.map SigArt.sig) ecdsaAll.zipIdx)
  | "ecall.kinds", [] =>
      some (fmtList (fun (c : CheckSpec) =>
        c.name ++ "=" ++ (if c.name = "CheckIssuerKey" then "I" else fmtKind (kindOfName c.name)))
        ecdsaAll)
  | "ecall.factory", [] => some (fmtBsgsFactory ecFactory)
  | _, _ => none

end Paranoid.Driver
