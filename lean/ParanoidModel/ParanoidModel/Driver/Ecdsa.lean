import ParanoidModel.Driver.Common
import ParanoidModel.Model.Ecdsa
namespace Paranoid.Driver
open Paranoid.Proto

def fmtPair (p : Nat × Nat) : String := hexNat p.1 ++ "," ++ hexNat p.2
def fmtTriple (p : Nat × Nat × Nat) : String :=
  hexNat p.1 ++ "," ++ hexNat p.2.1 ++ "," ++ hexNat p.2.2

/-- C09 ops. Byte strings are lists of byte values; a Python `str` is the list of its code
points. -/
def ecdsaOps : Dispatcher := fun op args =>
  match op, args with
  | "ecdsa.transform", [n, h, hlen] => do
      let n ← parseNat? n; let h ← parseInt? h; let hlen ← parseInt? hlen
      pure (fmtExcept hexNat (transformOrderLen n h hlen))
  | "ecdsa.hnp", [n, r, s, z] => do
      let n ← parseNat? n; let r ← parseInt? r; let s ← parseInt? s; let z ← parseInt? z
      pure (fmtExcept fmtPair (hiddenNumberParams n r s z))
  | "ecdsa.signs", [n, r, z, d, k] => do
      let n ← parseNat? n; let r ← parseInt? r; let z ← parseInt? z
      let d ← parseInt? d; let k ← parseInt? k
      pure (fmtExcept hexNat (signS n r z d k))
  | "ecdsa.values", [n, r, s, mh] => do
      let n ← parseNat? n; let r ← parseNatList? r; let s ← parseNatList? s
      let mh ← parseNatList? mh
      pure (fmtExcept fmtTriple (ecdsaValues n r s mh))
  | "ecdsa.pubpoint", [x, y] => do
      let x ← parseNatList? x; let y ← parseNatList? y
      pure (fmtPair (publicPoint x y))
  | "util.hex2bytes", [s] => do
      let s ← parseNatList? s
      pure (fmtExcept fmtNatList (hex2bytes (s.map Char.ofNat)))
  | "util.int2bytes", [v] => do
      let v ← parseInt? v; pure (fmtExcept fmtNatList (int2bytesI v))
  | "util.bytes2int", [b] => do
      let b ← parseNatList? b; pure (hexNat (bytes2int b))
  | _, _ => none

end Paranoid.Driver
