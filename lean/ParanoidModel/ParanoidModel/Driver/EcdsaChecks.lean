/-
Driver/EcdsaChecks.lean — line protocol for Model/EcdsaChecks.lean.

Encoding (one token per argument, no spaces inside; integers hex with optional `-`):
  bytes    hex string of the byte string, `~` when empty
  sig      `<curve>@<kx>@<ky>@<r>@<s>@<mh>` (bytes fields)        batch  `;`-separated, `[]`
  curve    `a,b,p,gx,gy,n,h` (Driver/Ec) or `-` for a `None` factory entry
  cache    `k=x:y,…` or `[]` (Driver/Ec)
  factory  `<id>|<curve>|<cache>` per entry, `;`-separated
  pks      `<x>:<y>=<i>.<j>…` per key, `;`-separated, `[]`
  kind     `B:<bias>` | `L:<name>:<flags>` | `C`
  triple   `r:s:z`
  answers  int lists (`,`-separated, `_` when empty) separated by `!`; `[]` = no call
  issuer   `<uniq triples , or []>/<answers>`
  group    `<cid>#<issuers | or []>#<guessList , or []>`            oracle `;`-separated, `[]`
Responses:
  verdict  `-` (no entry) | `0` | `1^<name>^<value>` (strings hex-encoded as in Driver/Bookkeeping)
  call     `H^a^b^n^bias` | `G^a^b^cid^name^flags` | `C^r1:s1:z1^r2:s2:z2^n`
  check    `ok <verdicts ,> <any_weak> <calls ;> <consistent> <cid:len(_cache) afterwards ,>` | `err <Exc>`
  `ecdsachk.factory` prints `namedFactory` in the factory encoding
-/
import ParanoidModel.Driver.Bookkeeping
import ParanoidModel.Driver.Ec
import ParanoidModel.Model.EcdsaChecks
namespace Paranoid.Driver
open Paranoid.Proto Paranoid.Ec Paranoid.EcdsaChecks
namespace EcdsaChk

def parseBytes? (s : String) : Option (List Nat) :=
  if s == "~" then some [] else
  let rec go : List Char → List Nat → Option (List Nat)
    | [], acc => some acc.reverse
    | [_], _ => none
    | a :: b :: rest, acc =>
      match hexDigit? a, hexDigit? b with
      | some x, some y => go rest ((x * 16 + y) :: acc)
      | _, _ => none
  go s.toList []

def parseSig? (s : String) : Option Sig :=
  match s.splitOn "@" with
  | [c, kx, ky, r, s', mh] => do
    let c ← parseNat? c; let kx ← parseBytes? kx; let ky ← parseBytes? ky
    let r ← parseBytes? r; let s' ← parseBytes? s'; let mh ← parseBytes? mh
    pure ⟨c, kx, ky, r, s', mh⟩
  | _ => none

def parseSigs? (s : String) : Option (List Sig) := parseSep? ";" "[]" parseSig? s

def parseFactoryEntry? (s : String) : Option (Nat × Option CurveObj) :=
  match s.splitOn "|" with
  | [cid, c, cache] => do
    let cid ← parseNat? cid
    if c == "-" then pure (cid, none) else
    let c ← parseCurve? c
    let cache ← parseCache? cache
    pure (cid, some ⟨c, cache⟩)
  | _ => none

def parseFactory? (s : String) : Option Factory := parseSep? ";" "[]" parseFactoryEntry? s

def parsePksEntry? (s : String) : Option (Key × List Nat) :=
  match s.splitOn "=" with
  | [k, l] =>
    match k.splitOn ":" with
    | [x, y] => do
      let x ← parseNat? x; let y ← parseNat? y
      let l ← parseSep? "." "_" parseNat? l
      pure ((x, y), l)
    | _ => none
  | _ => none

def parsePks? (s : String) : Option Pks := parseSep? ";" "[]" parsePksEntry? s

def fmtPks (pks : Pks) : String :=
  if pks.isEmpty then "[]" else
  ";".intercalate (pks.map fun e =>
    hexNat e.1.1 ++ ":" ++ hexNat e.1.2 ++ "=" ++
      (if e.2.isEmpty then "_" else ".".intercalate (e.2.map hexNat)))

def fmtDLogs (dl : DLogs) : String :=
  fmtList (fun (e : Nat × Int) => hexNat e.1 ++ "=" ++ hexInt e.2) dl

def parseKind? (s : String) : Option Kind :=
  match s.splitOn ":" with
  | ["B", b] => do let b ← parseNat? b; pure (.biased (.bias b))
  | ["L", n, f] => do let n ← parseNat? n; let f ← parseNat? f; pure (.biased (.lcg n f))
  | ["C"] => some .cr50
  | _ => none

def parseTriple? (s : String) : Option Triple :=
  match s.splitOn ":" with
  | [r, s', z] => do let r ← parseNat? r; let s' ← parseNat? s'; let z ← parseNat? z; pure (r, s', z)
  | _ => none

def fmtTriple3 (t : Triple) : String := hexNat t.1 ++ ":" ++ hexNat t.2.1 ++ ":" ++ hexNat t.2.2

def parseAnswers? (s : String) : Option (List (List Int)) :=
  parseSep? "!" "[]" (parseSep? "," "_" parseInt?) s

def parseIssuer? (s : String) : Option (List Triple × List (List Int)) :=
  match s.splitOn "/" with
  | [u, a] => do
    let u ← parseSep? "," "[]" parseTriple? u
    let a ← parseAnswers? a
    pure (u, a)
  | _ => none

def parseGroup? (s : String) : Option (Nat × List (List Triple × List (List Int)) × List Int) :=
  match s.splitOn "#" with
  | [cid, iss, gl] => do
    let cid ← parseNat? cid
    let iss ← parseSep? "|" "[]" parseIssuer? iss
    let gl ← parseIntList? gl
    pure (cid, iss, gl)
  | _ => none

/-- glue (not part of the model): oracle lists as the functions the model takes; positions that
were never recorded (the implementation raised before) read as empty lists. -/
def groupOracleOf (iss : List (List Triple × List (List Int))) (gl : List Int) : GroupOracle where
  uniq := fun j => ((iss[j]?).map (·.1)).getD []
  answer := fun j k => ((((iss[j]?).map (·.2)).getD [])[k]?).getD []
  guessList := gl

def oracleOf (groups : List (Nat × List (List Triple × List (List Int)) × List Int)) :
    Nat → GroupOracle := fun cid =>
  match groups.find? (fun g => g.1 == cid) with
  | some g => groupOracleOf g.2.1 g.2.2
  | none => groupOracleOf [] []

def parseOracle? (s : String) : Option (Nat → GroupOracle) :=
  (parseSep? ";" "[]" parseGroup? s).map oracleOf

def fmtVerdictOpt : Option Verdict → String
  | none => "-"
  | some v =>
    if v.positive then
      match v.info with
      | some (n, .raw x) => "1^" ++ encodeStr n ++ "^" ++ encodeStr x
      | some (n, .factors l) => "1^" ++ encodeStr n ++ "^f=" ++ fmtInts l
      | none => "1^-^-"
    else "0"

def fmtCall : Call → String
  | .hnp a b n bias =>
    "H^" ++ fmtNatList a ++ "^" ++ fmtNatList b ++ "^" ++ hexNat n ++ "^" ++ hexNat bias
  | .hnpCurve a b cid name flags =>
    "G^" ++ fmtNatList a ++ "^" ++ fmtNatList b ++ "^" ++ hexNat cid ++ "^" ++ hexNat name ++ "^" ++
      hexNat flags
  | .cr50 v1 v2 n => "C^" ++ fmtTriple3 v1 ++ "^" ++ fmtTriple3 v2 ++ "^" ++ hexNat n

def fmtCalls (cs : List Call) : String :=
  if cs.isEmpty then "[]" else ";".intercalate (cs.map fmtCall)

/-- `len(curve._cache)` after the call, for a processed curve group. -/
def cacheLenOf (f : Factory) (cid : Nat) : Nat :=
  match f.find? (fun e => e.1 == cid && e.2.isSome) with
  | some (_, some o) => o.cache.length
  | _ => 0

def fmtCheck (k : Kind) (O : Nat → GroupOracle) (factory : Factory) (arts : List Sig) : String :=
  match check k O factory arts with
  | .error e => "err " ++ e.name
  | .ok r =>
    "ok " ++ fmtList (fun i => fmtVerdictOpt (verdictOf r.writes i)) (List.range arts.length) ++ " " ++
      fmtBool (anyWeak r.writes) ++ " " ++
      fmtCalls ((r.calls.map fun g => g.2.flatten).flatten) ++ " " ++
      fmtBool (checkConsistent k O arts factory) ++ " " ++
      fmtList (fun (g : Nat × List (List Call)) => hexNat g.1 ++ ":" ++ hexNat (cacheLenOf r.factory g.1))
        r.calls

def fmtWindows (ws : List (List Nat)) : String :=
  if ws.isEmpty then "[]" else
  ";".intercalate (ws.map fun w =>
    match w.head?, w.getLast? with
    | some a, some b => hexNat a ++ "-" ++ hexNat b ++ "/" ++ hexNat w.length
    | _, _ => "empty")

def fmtFactory (f : Factory) : String :=
  if f.isEmpty then "[]" else
  ";".intercalate (f.map fun e =>
    hexNat e.1 ++ "|" ++ (match e.2 with
      | none => "-|[]"
      | some o => fmtIntList [o.curve.a, o.curve.b, o.curve.p, o.curve.gx, o.curve.gy, o.curve.n,
          o.curve.h] ++ "|" ++ fmtCache o.cache))

end EcdsaChk
open EcdsaChk

def ecdsaCheckOps : Dispatcher := fun op args =>
  match op, args with
  | "ecdsachk.mapissuer", [sigs] => do
      let sigs ← parseSigs? sigs
      pure (fmtPks (mapIssuerSigIndexes sigs))
  | "ecdsachk.issuerdlogs", [c, cache, gs, pks] => do
      let c ← parseCurve? c; let cache ← parseCache? cache; let gs ← parseIntList? gs
      let pks ← parsePks? pks
      pure (fmtExcept (fun (r : DLogs × Cache) => fmtDLogs r.1) (issuerDLogs c cache gs pks))
  | "ecdsachk.init", [b, l] => do
      let b ← parseOptNat? b
      let l ← if l == "-" then some none else
        match l.splitOn ":" with
        | [n, f] => do let n ← parseNat? n; let f ← parseNat? f; pure (some (n, f))
        | _ => none
      pure (fmtExcept (fun m => match m with
        | Mode.bias b => "B:" ++ hexNat b
        | Mode.lcg n f => "L:" ++ hexNat n ++ ":" ++ hexNat f) (biasedInit b l))
  | "ecdsachk.windows", [len] => do
      let len ← parseNat? len
      pure (fmtWindows (sizeLoop windowSizes (List.range len)))
  | "ecdsachk.factory", [] => some (fmtFactory namedFactory)
  | "ecdsachk.check", [k, factory, arts, oracle] => do
      let k ← parseKind? k; let factory ← parseFactory? factory; let arts ← parseSigs? arts
      let O ← parseOracle? oracle
      pure (fmtCheck k O factory arts)
  | _, _ => none

end Paranoid.Driver
