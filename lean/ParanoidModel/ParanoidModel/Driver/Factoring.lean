import ParanoidModel.Driver.Common
import ParanoidModel.Model.Factoring
import ParanoidModel.Model.BatchGcd
namespace Paranoid.Driver
open Paranoid.Proto

def fmtCf (l : List (Nat × Nat × Nat)) : String :=
  if l.isEmpty then "[]" else
  ";".intercalate (l.map fun (q, r, t) => hexNat q ++ "," ++ hexNat r ++ "," ++ hexNat t)

def basicOps : Dispatcher := fun op args =>
  match op, args with
  | "basic.bitlen", [a] => do let a ← parseNat? a; pure (hexNat (bitLength a))
  | "basic.isqrt", [a] => do let a ← parseNat? a; pure (hexNat (isqrt a))
  | "basic.issquare", [a] => do let a ← parseInt? a; pure (fmtBool (isSquareI a))
  | "basic.powmod", [b, e, m] => do
      let b ← parseNat? b; let e ← parseNat? e; let m ← parseNat? m
      if m = 0 then pure "err ZeroDivisionError" else pure ("ok " ++ hexNat (powMod b e m))
  | "basic.popcount", [a] => do let a ← parseNat? a; pure (hexNat (popcount a))
  | "basic.invmod", [a, m] => do
      let a ← parseInt? a; let m ← parseNat? m; pure (fmtExcept hexNat (invMod a m))
  | "basic.gcd", [a, b] => do let a ← parseInt? a; let b ← parseInt? b; pure (hexNat (Int.gcd a b))
  | "basic.bytes2int", [l] => do let l ← parseNatList? l; pure (hexNat (bytes2int l))
  | "basic.int2bytes", [a] => do let a ← parseNat? a; pure (fmtNatList (int2bytes a))
  | "basic.fdivmod", [a, b] => do
      let a ← parseInt? a; let b ← parseInt? b
      if b = 0 then pure "err ZeroDivisionError"
      else pure ("ok " ++ hexInt (Int.fdiv a b) ++ "," ++ hexInt (Int.fmod a b))
  | _, _ => none

def ntheoryOps : Dispatcher := fun op args =>
  match op, args with
  | "nt.fastproduct", [l] => do let l ← parseNatList? l; pure (hexNat (fastProduct l))
  | "nt.exttree", [l] => do
      let l ← parseNatList? l
      pure (fmtExcept (fun (tree, t) =>
        "|".intercalate (tree.map fmtNatList) ++ " " ++ hexNat t) (extendedProductTree l))
  | "nt.inverse2exp", [n, k] => do
      let n ← parseNat? n; let k ← parseNat? k; pure (fmtOpt hexNat (inverse2exp n k))
  | "nt.inversesqrt2exp", [n, k] => do
      let n ← parseNat? n; let k ← parseNat? k; pure (fmtOpt hexNat (inverseSqrt2exp n k))
  | "nt.sqrt2exp", [n, k] => do
      let n ← parseNat? n; let k ← parseNat? k; pure (fmtExcept fmtNatList (sqrt2exp n k))
  | "nt.cf", [a, b] => do
      let a ← parseNat? a; let b ← parseNat? b; pure (fmtCf (continuedFraction a b))
  | "nt.divmodrounded", [a, b] => do
      let a ← parseInt? a; let b ← parseInt? b
      pure (fmtExcept (fun (q, r) => hexInt q ++ "," ++ hexInt r) (divmodRounded a b))
  | "nt.sieve", [n] => do let n ← parseNat? n; pure (fmtNatList (sieve n))
  | _, _ => none

def fmtBoolList (r : Bool × List Nat) : String := fmtBool r.1 ++ " " ++ fmtNatList r.2

/-- canonical form of an attached factor set: sorted, without repetition. -/
def canonSet (l : List Nat) : List Nat := (l.mergeSort (· ≤ ·)).eraseDups

/-- `any_weak key;key;…` with `key = result:factor set`. -/
def fmtCheckBatch (r : Bool × List (Bool × List Nat)) : String :=
  fmtBool r.1 ++ " " ++
    (if r.2.isEmpty then "[]" else
      ";".intercalate (r.2.map fun k => fmtBool k.1 ++ ":" ++ fmtNatList (canonSet k.2)))

def factoringOps : Dispatcher := fun op args =>
  match op, args with
  | "rsa.fermat", [n, steps] => do
      let n ← parseNat? n; let steps ← parseNat? steps
      pure (fmtOptPair (fermatFactor n steps))
  | "rsa.hlbe", [n, mb] => do
      let n ← parseNat? n; let mb ← parseNat? mb
      pure (fmtExcept fmtOptList (factorHighAndLowBitsEqual n mb))
  | "rsa.cf", [n, bound] => do
      let n ← parseNat? n; let bound ← parseNat? bound
      pure (fmtExcept fmtBoolList (checkContinuedFraction n bound))
  | "rsa.fraction_lat", [n, d0] => do
      let n ← parseNat? n; let d0 ← parseNat? d0; pure (fmtMatrix (fractionLattice n d0))
  | "rsa.fraction", [n, basis] => do
      let n ← parseNat? n; let basis ← parseIntMatrix? basis
      pure (fmtExcept fmtNatList (checkFraction n basis))
  | "rsa.fwg_arg", [n] => do
      let n ← parseNat? n; pure (hexNat (fwgCbrtArg n) ++ " " ++ hexNat (fwgShift n))
  | "rsa.fwg", [n, p0, cbrt] => do
      let n ← parseNat? n; let p0 ← parseNat? p0; let cbrt ← parseNat? cbrt
      pure (fmtExcept fmtOptList (factorWithGuess n p0 cbrt))
  | "rsa.sud", [n, cbrt] => do
      let n ← parseNat? n; let cbrt ← parseNat? cbrt
      pure (fmtExcept fmtOptList (checkSmallUpperDifferences n cbrt))
  | "rsa.pm1", [n, m, gb] => do
      let n ← parseNat? n; let m ← parseNat? m; let gb ← parseNat? gb
      pure (fmtBoolList (pollardPm1 n m gb))
  | "rsa.lhw", [n, cutoff, maxsteps] => do
      let n ← parseNat? n; let cutoff ← parseNat? cutoff; let maxsteps ← parseNat? maxsteps
      pure (fmtBoolList (checkLowHammingWeight n cutoff maxsteps))
  | "rsa.batchgcd", [vals, other] => do
      let vals ← parseNatList? vals; let other ← parseOptNat? other
      pure (fmtExcept fmtNatList (batchGCD vals other))
  | "rsa.batchgcd.pinned", [vals, other] => do
      let vals ← parseNatList? vals; let other ← parseOptNat? other
      pure (fmtExcept fmtNatList (batchGCDPinned vals other))
  | "rsa.batchgcd.with", [u, vals, other] => do
      -- explicit enumeration order of set(values), as observed on the implementation
      let u ← parseNatList? u; let vals ← parseNatList? vals; let other ← parseOptNat? other
      pure (fmtExcept fmtNatList (batchGCDWith u vals other))
  | "rsa.checkgcd", [ns] => do
      let ns ← parseNatList? ns
      pure (fmtExcept fmtCheckBatch (checkGCD ns))
  | "rsa.checkgcd.pinned", [ns] => do
      let ns ← parseNatList? ns
      pure (fmtExcept fmtCheckBatch (checkGCDPinned ns))
  | "rsa.checkgcdn1.pinned", [bound, ns] => do
      let bound ← parseNat? bound; let ns ← parseNatList? ns
      if ns.any (· == 0) then none else
      pure (fmtExcept fmtCheckBatch (checkGCDN1Pinned bound ns))
  | "rsa.checkgcdn1", [bound, ns] => do
      let bound ← parseNat? bound; let ns ← parseNatList? ns
      if ns.any (· == 0) then none else
      pure (fmtExcept fmtCheckBatch (checkGCDN1 bound ns))
  | _, _ => none

end Paranoid.Driver
