import ParanoidModel.Driver.Common
import ParanoidModel.Model.Hnp
import ParanoidModel.Model.Cr50
import ParanoidModel.Model.LcgShipped
namespace Paranoid.Driver
open Paranoid.Proto

def parseBias? (s : String) : Option Bias :=
  if s == "1" then some .msb else if s == "2" then some .commonPrefix
  else if s == "3" then some .commonPostfix else if s == "4" then some .generalized else none

/-- `SearchStrategy` value 0..7: SINGLE = 1, SLIDING = 2, INCLUDE_KEY = 4. -/
def parseFlags? (s : String) : Option SearchFlags := do
  let v ← parseNat? s
  if v ≥ 8 then none else
  pure ⟨v % 2 == 1, (v / 2) % 2 == 1, (v / 4) % 2 == 1⟩

/-- flat `c0,d0,c1,d1,…` → pairs. -/
def pairsOf : List Int → Option (List (Int × Int))
  | [] => some []
  | c :: d :: rest => (pairsOf rest).map ((c, d) :: ·)
  | [_] => none

def parsePairs? (s : String) : Option (List (Int × Int)) := do
  let l ← parseIntList? s
  pairsOf l

/-- one factory entry `curve,lcg,ss,ms,sw,w,c0,d0,…`. -/
def parseMeta? (s : String) : Option LcgMeta := do
  let l ← parseIntList? s
  match l with
  | curve :: lcg :: ss :: ms :: sw :: w :: rest =>
    let cs ← pairsOf rest
    pure ⟨curve.toNat, lcg.toNat, ss.toNat, ms.toNat, sw.toNat, w, cs⟩
  | _ => none

def parseFactory? (s : String) : Option (List LcgMeta) :=
  if s == "[]" then some [] else (s.splitOn ";").mapM parseMeta?

/-- oracle matrix: `E` = no rows; rows separated by `;`, a row without entries is `[]`. -/
def parseMat? (s : String) : Option (List (List Int)) :=
  if s == "E" then some [] else (s.splitOn ";").mapM parseIntList?

/-- matrices separated by `|`; `[]` alone is the empty list of matrices. -/
def parseBases? (s : String) : Option (List (List (List Int))) :=
  if s == "[]" then some [] else (s.splitOn "|").mapM parseMat?

def sortNat (l : List Nat) : List Nat := l.mergeSort (· ≤ ·)

def fmtGuesses (r : Except PyErr (List Nat)) : String := fmtExcept (fun l => fmtNatList (sortNat l)) r

def fmtErrOpt : Option PyErr → String
  | none => "end"
  | some e => "raise " ++ e.name

def fmtShape (s : HnpShape) : String :=
  hexNat s.start ++ ":" ++ hexNat s.size ++ ":" ++ fmtBool s.withKey ++ ":" ++ hexNat s.numConstants

def fmtSubset (s : HnpSubset) : String :=
  fmtIntList s.a ++ "/" ++ fmtIntList s.b ++ "/" ++ hexNat s.constants.length ++ "/" ++
    fmtIntList (s.constants.take 1 |>.map (·.1)) ++ "/" ++ hexInt s.w

def fmtPairs (l : List (Nat × Nat)) : String :=
  if l.isEmpty then "[]" else ";".intercalate (l.map fun (x, y) => hexNat x ++ "," ++ hexNat y)

def parseCurveN? (s : String) : Option (Option (Option Nat)) :=
  if s == "K" then some none else if s == "-" then some (some none)
  else (parseNat? s).map (fun n => some (some n))

def hnpOps : Dispatcher := fun op args =>
  match op, args with
  | "hnp.defaultw", [bias, len, fbits] => do
      let bias ← parseBias? bias; let len ← parseNat? len; let fbits ← parseNat? fbits
      pure (fmtExcept hexInt (hnpDefaultW bias len fbits))
  | "hnp.postfixbits", [bl, len] => do
      let bl ← parseNat? bl; let len ← parseNat? len
      if len = 0 then none else pure (hexNat (postfixBitsExact bl len))
  | "hnp.lattice", [a, b, w, n, bias, fbits] => do
      let a ← parseIntList? a; let b ← parseIntList? b; let w ← parseOptInt? w
      let n ← parseNat? n; let bias ← parseBias? bias; let fbits ← parseNat? fbits
      pure (fmtExcept fmtMatrix (getLattice a b w n bias fbits))
  | "hnp.solve", [a, b, w, n, bias, fbits, basis] => do
      let a ← parseIntList? a; let b ← parseIntList? b; let w ← parseOptInt? w
      let n ← parseNat? n; let bias ← parseBias? bias; let fbits ← parseNat? fbits
      let basis ← parseMat? basis
      pure (fmtGuesses (hiddenNumberProblem a b w n bias fbits basis))
  | "hnp.precomp_lat", [a, b, n, consts, w] => do
      let a ← parseIntList? a; let b ← parseIntList? b; let n ← parseNat? n
      let consts ← parsePairs? consts; let w ← parseInt? w
      pure (fmtExcept fmtMatrix (precompLattice a b n consts w))
  | "hnp.precomp", [a, b, n, consts, w, basis] => do
      let a ← parseIntList? a; let b ← parseIntList? b; let n ← parseNat? n
      let consts ← parsePairs? consts; let w ← parseInt? w; let basis ← parseMat? basis
      pure (fmtGuesses (hiddenNumberProblemWithPrecomputation a b n consts w basis))
  | "hnp.shapes", [ss, ms, sw, len, flags] => do
      let ss ← parseNat? ss; let ms ← parseNat? ms; let sw ← parseNat? sw
      let len ← parseNat? len; let flags ← parseFlags? flags
      let g := entryShapes ss ms sw len flags
      pure (fmtList fmtShape g.yields ++ " " ++ fmtErrOpt g.err)
  | "hnp.subsets", [a, b, curve, lcg, flags, factory] => do
      let a ← parseIntList? a; let b ← parseIntList? b; let curve ← parseNat? curve
      let lcg ← parseOptNat? lcg; let flags ← parseFlags? flags; let factory ← parseFactory? factory
      let g := hnpSubsets a b curve lcg flags factory
      pure ((if g.yields.isEmpty then "[]" else ";".intercalate (g.yields.map fmtSubset)) ++ " " ++
        fmtErrOpt g.err)
  | "hnp.forcurve", [a, b, curve, curveN, lcg, flags, factory, bases] => do
      let a ← parseIntList? a; let b ← parseIntList? b; let curve ← parseNat? curve
      let curveN ← parseCurveN? curveN
      let lcg ← parseOptNat? lcg; let flags ← parseFlags? flags; let factory ← parseFactory? factory
      let bases ← parseBases? bases
      pure (fmtGuesses (hnpForCurve a b curve curveN lcg flags factory (fun i => bases.getD i [])))
  | "hnp.shipped", [idx] => do
      -- the shipped CONSTANT_FACTORY entry the Lean examples are stated about (Model/LcgShipped.lean),
      -- in the format `parseMeta?` reads: curve,lcg,ss,ms,sw,w,c0,d0,…
      let idx ← parseNat? idx
      if idx ≠ 0 then none else
      let m := lcgShipped0
      pure (fmtIntList ([(m.curve : Int), m.lcg, m.sampleSize, m.minSignatures, m.slidingWindowSize, m.w] ++
        m.constants.flatMap (fun cd => [cd.1, cd.2])))
  | "cr50.lattice", [a, b, w, p, basis] => do
      let a ← parseInt? a; let b ← parseInt? b; let w ← parseInt? w; let p ← parseNat? p
      let basis ← parseIntList? basis
      pure (fmtExcept fmtMatrix (cr50Lattice a b w p basis))
  | "cr50.sub", [a, b, w, p, basis, reduced] => do
      let a ← parseInt? a; let b ← parseInt? b; let w ← parseInt? w; let p ← parseNat? p
      let basis ← parseIntList? basis; let reduced ← parseMat? reduced
      pure (fmtExcept fmtPairs (cr50SubProblem a b w p basis reduced))
  | "cr50.basis", [bl] => do
      let bl ← parseNat? bl; pure (fmtIntList (cr50Basis bl))
  | "cr50.guesses", [r1, s1, z1, r2, s2, z2, n, reduced] => do
      let r1 ← parseInt? r1; let s1 ← parseInt? s1; let z1 ← parseInt? z1
      let r2 ← parseInt? r2; let s2 ← parseInt? s2; let z2 ← parseInt? z2
      let n ← parseNat? n; let reduced ← parseMat? reduced
      pure (fmtGuesses (cr50Guesses r1 s1 z1 r2 s2 z2 n reduced))
  | _, _ => none

end Paranoid.Driver
