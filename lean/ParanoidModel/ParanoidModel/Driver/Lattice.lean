import ParanoidModel.Driver.Common
import ParanoidModel.Model.Lattice
namespace Paranoid.Driver
open Paranoid.Proto Paranoid.Lat

/-- exact rational as `num/den` (hex, reduced, `den > 0`). -/
def lat_fmtRat (q : Rat) : String := hexInt q.num ++ "/" ++ hexNat q.den

/-- a rational given as two tokens `num den` (`den > 0`; not necessarily reduced). -/
def lat_parseRat? (num den : String) : Option Rat := do
  let a ← parseInt? num
  let b ← parseNat? den
  if b = 0 then none else pure (mkRat a b)

def lat_parseRatList? (nums dens : String) : Option (List Rat) := do
  let a ← parseIntList? nums
  let b ← parseNatList? dens
  if a.length ≠ b.length ∨ b.any (· == 0) then none
  else pure ((a.zip b).map fun (x, y) => mkRat x y)

/-- rows `coeff,e1,e2,…` → monomials. -/
def lat_parseMonos? (s : String) : Option (List Mono) := do
  let rows ← parseIntMatrix? s
  rows.mapM fun row =>
    match row with
    | [] => none
    | c :: es => if es.any (· < 0) then none else some ⟨c, es.map Int.toNat⟩

def lat_fmtUS : USOut → String
  | .exact v => "exact " ++ lat_fmtRat v ++ " tol-ok"
  | .normal r x => "normal " ++ fmtBool r ++ " " ++ lat_fmtRat x ++ " tol-ok"

def lat_fmtComb : CombOut → String
  | .value p => "value " ++ lat_fmtRat p
  | .zero => "zero"
  | .fisher k => "fisher " ++ hexNat k ++ " tol-ok"

def lat_fmtOptIntList : Option (List Int) → String
  | none => "-"
  | some l => fmtIntList l

def latticeOps : Dispatcher := fun op args =>
  match op, args with
  | "lat.sort", [a] => do let a ← parseIntList? a; pure (fmtIntList (sortInts a))
  | "lat.pseudoavg", [a, n] => do
      let a ← parseIntList? a; let n ← parseInt? n
      pure (fmtExcept hexInt (pseudoAverage a n))
  | "lat.padiff", [a, n] => do
      -- all `diff_j`, j = 0..m, of the sorted list, then best_j
      let a ← parseIntList? a; let n ← parseInt? n
      let s := sortInts a
      pure (fmtIntList ((List.range (s.length + 1)).map fun j =>
        paDiff s.length n s.sum (s.take j).sum j) ++ " " ++ hexNat (paBestJ s n))
  | "lat.bias_t", [sample, n, as, bs] => do
      let sample ← parseIntList? sample; let n ← parseInt? n
      let as ← parseIntList? as; let bs ← parseIntList? bs
      if as.length ≠ bs.length then none
      else pure (fmtExcept (fun (t, l) => hexInt t ++ " " ++ hexNat l) (bias sample n (as.zip bs)))
  | "u.binom", [n, k] => do
      let n ← parseNat? n; let k ← parseNat? k
      pure (hexNat ((List.range k).foldl (fun b i => usBinomNext n i b) 1))
  | "u.uniformsum", [n, xn, xd] => do
      let n ← parseNat? n; let x ← lat_parseRat? xn xd
      pure (lat_fmtUS (uniformSumCdf n x))
  | "u.combined", [nums, dens] => do
      let ps ← lat_parseRatList? nums dens
      pure (fmtExcept lat_fmtComb (combinedPValue ps))
  | "sr.symmod", [a, n] => do
      let a ← parseInt? a; let n ← parseInt? n
      if n = 0 then none else pure (hexInt (symMod a n))
  | "sr.guard_uni", [coeffs, n, rx] => do
      let coeffs ← parseIntList? coeffs; let n ← parseInt? n; let rx ← parseInt? rx
      pure (fmtOpt hexInt (guardUni coeffs n rx) ++ " " ++ hexInt (symMod (polyEval coeffs rx) n))
  | "sr.uni_tail", [coeffs, n, cands] => do
      let coeffs ← parseIntList? coeffs; let n ← parseInt? n; let cands ← parseIntList? cands
      pure (fmtOpt hexInt (uniTail coeffs n cands))
  | "sr.modn_tail", [f, n, cands] => do
      let f ← lat_parseMonos? f; let n ← parseInt? n; let cands ← parseIntMatrix? cands
      pure (lat_fmtOptIntList (modnTail f n cands))
  | "sr.guard_uni_r", [coeffs, n, rx] => do
      let coeffs ← parseIntList? coeffs; let n ← parseInt? n; let rx ← parseInt? rx
      pure (fmtOpt hexInt (guardUniR coeffs n rx) ++ " " ++ hexInt (symMod (polyEval coeffs rx) n))
  | "sr.uni_tail_r", [coeffs, n, cands] => do
      let coeffs ← parseIntList? coeffs; let n ← parseInt? n; let cands ← parseIntList? cands
      pure (fmtOpt hexInt (uniTailR coeffs n cands))
  | "sr.guard_multi_r", [f, n, roots] => do
      let f ← lat_parseMonos? f; let n ← parseInt? n; let roots ← parseIntList? roots
      pure (lat_fmtOptIntList (guardMultiR f n roots) ++ " " ++ hexInt (symMod (mpolyEval f roots) n))
  | "sr.guard_multi", [f, n, roots] => do
      let f ← lat_parseMonos? f; let n ← parseInt? n; let roots ← parseIntList? roots
      pure (lat_fmtOptIntList (guardMulti f n roots) ++ " " ++ hexInt (symMod (mpolyEval f roots) n))
  | "sr.guard_modn", [f, n, roots] => do
      let f ← lat_parseMonos? f; let n ← parseInt? n; let roots ← parseIntList? roots
      pure (lat_fmtOptIntList (guardModn f n roots) ++ " " ++ hexInt (symMod (mpolyEval f roots) n))
  | _, _ => none

end Paranoid.Driver
