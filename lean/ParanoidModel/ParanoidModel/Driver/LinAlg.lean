import ParanoidModel.Driver.Common
import ParanoidModel.Model.LinAlg
namespace Paranoid.Driver
open Paranoid.Proto Paranoid.LA

/-- `num/den` in hex, as the harness prints a `gmpy2.mpq`. -/
def la_fmtPyQ (q : PyQ) : String := hexInt q.num ++ "/" ++ hexNat q.den

def la_fmtOptQList (o : Option (List PyQ)) : String :=
  match o with
  | none => "none"
  | some l => fmtList la_fmtPyQ l

def la_parseVariant? (s : String) : Option LaVariant :=
  if s == "pinned" then some .pinned else if s == "repaired" then some .repaired else none

/-- `-` is `None`, `[]` the empty list. -/
def la_parseOptIntList? (s : String) : Option (Option (List Int)) :=
  if s == "-" then some none else (parseIntList? s).map some

def la_fmtOptIntList (o : Option (List Int)) : String :=
  match o with
  | none => "-"
  | some l => fmtIntList l

def linalgOps : Dispatcher := fun op args =>
  match op, args with
  | "la.uts", [a, b] => do
      let a ← parseIntMatrix? a; let b ← parseIntList? b
      pure (fmtExcept la_fmtOptQList (upperTriangularSolve a b))
  | "la.echelon", [v, a, b] => do
      let v ← la_parseVariant? v; let a ← parseIntMatrix? a; let b ← la_parseOptIntList? b
      pure (fmtExcept (fun (r, a', b') =>
        hexNat r ++ " " ++ fmtMatrix a' ++ " " ++ la_fmtOptIntList b') (echelonForm v a b))
  | "la.solve_right", [v, a, b] => do
      let v ← la_parseVariant? v; let a ← parseIntMatrix? a; let b ← parseIntList? b
      pure (fmtExcept la_fmtOptQList (solveRight v a b))
  | "la.exact", [v, a, b] => do
      let v ← la_parseVariant? v; let a ← parseIntMatrix? a; let b ← parseIntList? b
      pure (fmtExcept (fun (_, ex) => fmtBool ex) (solveRightX v a b))
  | _, _ => none

end Paranoid.Driver
