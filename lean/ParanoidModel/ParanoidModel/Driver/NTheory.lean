/-
Driver/NTheory.lean — line-protocol ops `nt.*` for the C19 part of Model/NTheory.lean
(2-adic routines, continued fractions, rounded division, sieve). Registered before
`ntheoryOps` of Driver/Factoring.lean, so these definitions answer the shared op names.
-/
import ParanoidModel.Driver.Common
import ParanoidModel.Model.NTheory
namespace Paranoid.Driver
open Paranoid.Proto

/-- 16 hex digits of `w < 2^64`, zero padded. -/
def nt19_hexPad16 (w : Nat) : String :=
  let ds := Nat.toDigits 16 w
  String.ofList (List.replicate (16 - ds.length) '0' ++ ds)

def nt19_hexNatChunks : Nat → Nat → List String → List String
  | 0, n, acc => hexNat n :: acc
  | fuel + 1, n, acc =>
    if n < 2 ^ 64 then hexNat n :: acc
    else nt19_hexNatChunks fuel (n >>> 64) (nt19_hexPad16 (n % 2 ^ 64) :: acc)

/-- same string as `hexNat`, 64 bits at a time (multi-megabyte continued-fraction answers). -/
def nt19_hexNatFast (n : Nat) : String := String.join (nt19_hexNatChunks (n.log2 / 64 + 1) n [])

def nt19_fmtCfFast (l : List (Nat × Nat × Nat)) : String :=
  if l.isEmpty then "[]" else
  ";".intercalate (l.map fun (q, r, t) =>
    nt19_hexNatFast q ++ "," ++ nt19_hexNatFast r ++ "," ++ nt19_hexNatFast t)

def nt19_fmtQR (p : Int × Int) : String := hexInt p.1 ++ "," ++ hexInt p.2

def nt19Ops : Dispatcher := fun op args =>
  match op, args with
  | "nt.inverse2exp", [n, k] => do
      let n ← parseNat? n; let k ← parseNat? k; pure (fmtOpt hexNat (inverse2exp n k))
  | "nt.inversesqrt2exp", [n, k] => do
      let n ← parseNat? n; let k ← parseNat? k; pure (fmtOpt hexNat (inverseSqrt2exp n k))
  | "nt.sqrt2exp", [n, k] => do
      let n ← parseNat? n; let k ← parseInt? k; pure (fmtExcept fmtNatList (sqrt2expZ n k))
  | "nt.cf", [a, b] => do
      let a ← parseNat? a; let b ← parseNat? b; pure (nt19_fmtCfFast (continuedFraction a b))
  | "nt.divmodrounded", [a, b] => do
      let a ← parseInt? a; let b ← parseInt? b; pure (fmtExcept nt19_fmtQR (divmodRounded a b))
  | "nt.divmodrounded_r", [a, b] => do
      let a ← parseInt? a; let b ← parseInt? b; pure (fmtExcept nt19_fmtQR (divmodRoundedR a b))
  | "nt.sieve", [n] => do let n ← parseNat? n; pure (fmtNatList (sieve n))
  | "nt.hex", [a] => do let a ← parseNat? a; pure (nt19_hexNatFast a)
  | _, _ => none

end Paranoid.Driver
