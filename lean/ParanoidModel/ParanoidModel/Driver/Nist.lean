import ParanoidModel.Driver.Common
import ParanoidModel.Model.Nist
import ParanoidModel.Model.NistFloat
namespace Paranoid.Driver
open Paranoid.Proto Paranoid.Nist

/-! line-protocol ops `nist.*` (property C12).  Bit strings are hex integers (up to 2^22 bits),
so parsing is divide-and-conquer instead of the quadratic `parseHexNat?`. -/

def hexChunk (ba : ByteArray) (start len : Nat) : Option Nat :=
  (List.range len).foldl (fun acc i =>
    match acc, ba[start + i]? with
    | some a, some c => (hexDigit? (Char.ofNat c.toNat)).map (fun d => a * 16 + d)
    | _, _ => none) (some 0)

def hexRange (ba : ByteArray) : Nat → Nat → Nat → Option Nat
  | 0, start, len => hexChunk ba start len
  | f + 1, start, len =>
    if len ≤ 15 then hexChunk ba start len
    else
      match hexRange ba f start (len - len / 2), hexRange ba f (start + (len - len / 2)) (len / 2) with
      | some hi, some lo => some (hi <<< (4 * (len / 2)) + lo)
      | _, _ => none

def parseBig? (s : String) : Option Nat :=
  if s.isEmpty then none else hexRange s.toUTF8 64 0 s.toUTF8.size

def fmtNistPairs (l : List (Nat × Nat)) : String :=
  if l.isEmpty then "[]" else ",".intercalate (l.map fun (a, b) => hexNat a ++ ":" ++ hexNat b)

def fmtRows (l : List (List Nat)) : String :=
  if l.isEmpty then "[]" else ";".intercalate (l.map fmtNatList)

def fmtLevels (l : List (List (Nat × Nat))) : String :=
  if l.isEmpty then "[]" else ";".intercalate (l.map fmtNistPairs)

def fmtRuns : RunsOut → String
  | .degenerate => "degenerate"
  | .stat p v n => "stat " ++ hexNat p ++ " " ++ hexNat v ++ " " ++ hexNat n

def sp (l : List String) : String := " ".intercalate l

def fmtRW (o : RandomWalkOut) : String :=
  sp [hexNat o.n, hexNat o.zFwd, hexNat o.zBwd, hexNat o.cycles, fmtRows o.exHists, fmtNatList o.totals]

def fmtPinned : Except PyErr RandomWalkOut → String
  | .ok o => hexNat o.zFwd ++ " " ++ hexNat o.zBwd
  | .error e => "err " ++ e.name

def fmtOptN : Option Nat → String
  | none => "-"
  | some x => hexNat x

def nistOps : Dispatcher := fun op args =>
  match op, args with
  | "nist.bits", [b, n] => do
      let b ← parseBig? b; let n ← parseNat? n
      pure (fmtNatList ((bitList b n).map (fun x => if x then 1 else 0)))
  | "nist.frequency", [b, n] => do
      let b ← parseBig? b; let n ← parseNat? n
      pure (fmtExcept (fun (a, n) => hexNat a ++ " " ++ hexNat n) (frequency b n))
  | "nist.blockfreq", [b, n] => do
      let b ← parseBig? b; let n ← parseNat? n
      pure (fmtExcept (fun o => sp [hexNat o.m, hexNat o.num, hexNat o.den, fmtNatList o.counts])
        (blockFrequency b n))
  | "nist.runs", [b, n] => do
      let b ← parseBig? b; let n ← parseNat? n
      pure (fmtExcept fmtRuns (runs b n))
  | "nist.longestruns", [b, n] => do
      let b ← parseBig? b; let n ← parseNat? n
      pure (fmtExcept (fun o => sp [hexNat o.m, hexNat o.vLower, hexNat o.vUpper, fmtNatList o.hist])
        (longestRuns b n))
  | "nist.rank", [b, n, r, c, k, chk] => do
      let b ← parseBig? b; let n ← parseNat? n; let r ← parseNat? r; let c ← parseNat? c
      let k ← parseNat? k; let chk ← parseBool? chk
      pure (fmtExcept (fun o => sp [hexNat o.r, hexNat o.c, hexNat o.k, fmtBool o.approx, fmtNatList o.hist])
        (binaryMatrixRank b n r c k chk))
  -- with the float oracle of the ChiSquare call (Model/NistFloat.lean): badProb badSum
  | "nist.rank", [b, n, r, c, k, chk, bp, bsum] => do
      let b ← parseBig? b; let n ← parseNat? n; let r ← parseNat? r; let c ← parseNat? c
      let k ← parseNat? k; let chk ← parseBool? chk; let bp ← parseBool? bp; let bsum ← parseBool? bsum
      pure (fmtExcept (fun o => sp [hexNat o.r, hexNat o.c, hexNat o.k, fmtBool o.approx, fmtNatList o.hist])
        (binaryMatrixRankF { badProb := bp, badSum := bsum } b n r c k chk))
  | "nist.notm", [b, n, blocks, m, ts] => do
      let b ← parseBig? b; let n ← parseNat? n; let blocks ← parseNat? blocks
      let m ← parseOptNat? m
      let ts ← if ts == "-" then some none else (parseNatList? ts).map some
      pure (fmtExcept (fun o => sp [hexNat o.m, hexNat o.blockSize, fmtNatList o.templates, fmtRows o.counts])
        (nonOverlapping b n blocks m ts))
  | "nist.otm", [b, n, m, bs] => do
      let b ← parseBig? b; let n ← parseNat? n; let m ← parseOptNat? m; let bs ← parseOptNat? bs
      pure (fmtExcept (fun o => sp [hexNat o.m, hexNat o.blockSize, fmtNatList o.hist]) (overlapping b n m bs))
  | "nist.otm", [b, n, m, bs, bp, bsum] => do
      let b ← parseBig? b; let n ← parseNat? n; let m ← parseOptNat? m; let bs ← parseOptNat? bs
      let bp ← parseBool? bp; let bsum ← parseBool? bsum
      pure (fmtExcept (fun o => sp [hexNat o.m, hexNat o.blockSize, fmtNatList o.hist])
        (overlappingF { badProb := bp, badSum := bsum } b n m bs))
  | "nist.universal", [b, n] => do
      let b ← parseBig? b; let n ← parseNat? n
      pure (fmtExcept (fun o => sp [hexNat o.blockSize, hexNat o.q, hexNat o.k, fmtNistPairs o.dists]) (universal b n))
  | "nist.universalimpl", [b, n, l, q] => do
      let b ← parseBig? b; let n ← parseNat? n; let l ← parseNat? l; let q ← parseNat? q
      pure (fmtExcept (fun o => sp [hexNat o.blockSize, hexNat o.q, hexNat o.k, fmtNistPairs o.dists])
        (universalImpl b n l q))
  | "nist.lincomp", [n, bs, cs] => do
      let n ← parseNat? n; let bs ← parseNat? bs; let cs ← parseNatList? cs
      pure (fmtExcept (fun o => sp [hexNat o.blockSize, fmtNatList o.hist, hexNat o.q, hexNat o.nblocks])
        (linearComplexity n bs cs))
  | "nist.lincompimpl", [bs, cs] => do
      let bs ← parseNat? bs; let cs ← parseNatList? cs
      pure (fmtExcept (fun o => sp [hexNat o.blockSize, fmtNatList o.hist, hexNat o.q, hexNat o.nblocks])
        (linearComplexityImpl bs cs))
  | "nist.serial", [b, n, mm] => do
      let b ← parseBig? b; let n ← parseNat? n; let mm ← parseOptNat? mm
      pure (fmtExcept (fun o => sp [hexNat o.mMax, hexNat o.n, fmtNatList o.sq]) (serial b n mm))
  | "nist.apen", [b, n, mm] => do
      let b ← parseBig? b; let n ← parseNat? n; let mm ← parseOptNat? mm
      pure (fmtExcept (fun o => sp [hexNat o.mMax, hexNat o.n, fmtLevels o.levels]) (approximateEntropy b n mm))
  | "nist.randomwalk", [b, n, ms, mc, msv] => do
      let b ← parseBig? b; let n ← parseNat? n; let ms ← parseNat? ms; let mc ← parseNat? mc
      let msv ← parseNat? msv
      pure (fmtExcept fmtRW (randomWalk .repaired b n ms mc msv) ++ " | pinned " ++
        fmtPinned (randomWalk .pinned b n ms mc msv))
  -- with the float oracle excZero (Model/NistFloat.lean)
  | "nist.randomwalk", [b, n, ms, mc, msv, ez] => do
      let b ← parseBig? b; let n ← parseNat? n; let ms ← parseNat? ms; let mc ← parseNat? mc
      let msv ← parseNat? msv; let ez ← parseBool? ez
      pure (fmtExcept fmtRW (randomWalkF ez .repaired b n ms mc msv) ++ " | pinned " ++
        fmtPinned (randomWalk .pinned b n ms mc msv))
  | "nist.largerank", [b, n] => do
      let b ← parseBig? b; let n ← parseNat? n
      pure (fmtExcept fmtNistPairs (largeBinaryMatrixRank b n))
  | "nist.scatter", [n, step, mb, cs] => do
      let n ← parseNat? n; let step ← parseNat? step; let mb ← parseOptNat? mb
      let cs ← parseNatList? cs
      pure (fmtExcept (fun o => sp [hexNat o.n, fmtNatList o.sizes, hexNat o.q])
        (linearComplexityScatter n step mb cs))
  -- parameter ladders alone (no bit string), for lengths far beyond what can be materialised
  | "nist.ladder", [n, blocks] => do
      let n ← parseNat? n; let blocks ← parseNat? blocks
      pure (sp [
        "bf=" ++ (if n < 100 then "-" else hexNat (bfBlockSize n)),
        "lr=" ++ (match lrParams n with | none => "-" | some (m, vl, vu) => hexNat m ++ "," ++ hexNat vl ++ "," ++ hexNat vu),
        "notm=" ++ (if blocks = 0 then "-" else fmtOptN (notmM (n / blocks))),
        "serial=" ++ hexNat (serialMMax n),
        "apen=" ++ hexNat (apenMMax n),
        "univ=" ++ fmtOptN (universalL n),
        "univp=" ++ fmtOptN (universalLPinned n)])
  | "nist.excursionpi", [x, mc] => do
      let x ← parseNat? x; let mc ← parseNat? mc; pure (fmtNistPairs (excursionPi x mc))
  | "nist.rankdist", [r, c, k] => do
      let r ← parseNat? r; let c ← parseNat? c; let k ← parseNat? k
      pure (",".intercalate ((rankDistribution r c k).map (fun q => hexInt q.num ++ ":" ++ hexNat q.den)))
  | "nist.lfsrcount", [n, m] => do
      let n ← parseNat? n; let m ← parseNat? m; pure (hexNat (lfsrCount n m))
  | "nist.templates", [m] => do
      let m ← parseNat? m; pure (fmtNatList (defaultTemplates m))
  | _, _ => none

end Paranoid.Driver
