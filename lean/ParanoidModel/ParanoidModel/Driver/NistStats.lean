import ParanoidModel.Driver.Common
import ParanoidModel.Driver.Nist
import ParanoidModel.Model.NistStats
import ParanoidModel.Model.BitSeq
import ParanoidModel.Generated.Consts
namespace Paranoid.Driver
open Paranoid.Proto Paranoid.Nist Paranoid.NistStats

/-! line-protocol ops `nist.*` for Model/NistStats.lean (property C12, Props/C12Stats.lean): the exact
rational statistics and the NIST-side definitions, evaluated against the real functions by
harness/corr/c12.py (`stats_batch`). -/

def fmtRat (q : Rat) : String := hexInt q.num ++ ":" ++ hexNat q.den

def fmtRatList (l : List Rat) : String := if l.isEmpty then "[]" else ",".intercalate (l.map fmtRat)

def nistStatsOps : Dispatcher := fun op args =>
  match op, args with
  -- class of one block value: code criterion, NIST class of T, T
  | "nist.lcclass", [m, l] => do
      let m ← parseNat? m; let l ← parseNat? l
      pure (sp [hexNat (lcClass ((m + 1) / 2) l), hexNat (nistLcClass (lcT m l)), fmtRat (lcT m l), fmtRat (lcMu m)])
  | "nist.lcpi", [m] => do
      let m ← parseNat? m; pure (fmtRatList (codeLcPi m) ++ " " ++ fmtRatList nistLcPi)
  -- LinearComplexity as a function of the bit string (Berlekamp–Massey inside), NIST histogram and χ²
  | "nist.lcstat", [b, n, m] => do
      let b ← parseBig? b; let n ← parseNat? n; let m ← parseNat? m
      pure (fmtExcept (fun o => sp [hexNat o.blockSize, fmtNatList o.hist, hexNat o.q, hexNat o.nblocks,
          fmtNatList (blockComplexities b n m), fmtNatList (nistLcHist m (blockComplexities b n m)),
          fmtRat (lcChi o), fmtRat (chiSquare (nistLcHist m (blockComplexities b n m)) nistLcPi)])
        (linearComplexityBits b n m))
  -- NonOverlappingTemplateMatching: counts of the model, hits of NIST's scan, χ² per template
  | "nist.notmstat", [b, n, blocks, m, ts] => do
      let b ← parseBig? b; let n ← parseNat? n; let blocks ← parseNat? blocks
      let m ← parseOptNat? m
      let ts ← if ts == "-" then some none else (parseNatList? ts).map some
      pure (fmtExcept (fun o => sp [hexNat o.m, hexNat o.blockSize, fmtNatList o.templates, fmtRows o.counts,
          fmtRows ((chunks (bitList b n) o.blockSize).map (fun blk => o.templates.map (fun t => notmW blk o.m t))),
          fmtRat (notmMean o.blockSize o.m), fmtRat (notmVar o.blockSize o.m), fmtRatList (notmChis o)])
        (nonOverlapping b n blocks m ts))
  -- LargeBinaryMatrixRank: the matrix, its rank
  | "nist.largematrix", [b, size] => do
      let b ← parseBig? b; let size ← parseNat? size
      pure (sp [fmtNatList (largeRankMatrix b size), hexNat (binaryRank (largeRankMatrix b size))])
  | "nist.largep", [size, rank] => do
      let size ← parseNat? size; let rank ← parseNat? rank
      pure (fmtRat (largeRankP Paranoid.Consts.Nist.asymptoticRankSf size rank))
  -- LinearComplexityScatter as a function of the bit string
  | "nist.scatterbits", [b, n, step, mb] => do
      let b ← parseBig? b; let n ← parseNat? n; let step ← parseNat? step; let mb ← parseOptNat? mb
      pure (fmtExcept (fun o => sp [hexNat o.n, fmtNatList o.sizes, hexNat o.q,
          fmtNatList (scatterComplexities b o.n step)])
        (linearComplexityScatterBits b n step mb))
  | "nist.scatterseq", [b, n, step] => do
      let b ← parseBig? b; let n ← parseNat? n; let step ← parseNat? step
      pure (fmtNatList ((List.range step).map (fun i => scatterSeqInt b step i ((n + step - 1 - i) / step))))
  -- integer-level transformations
  | "nist.rotate", [b, n, k] => do
      let b ← parseBig? b; let n ← parseNat? n; let k ← parseNat? k
      pure (hexNat (rotateInt b n k))
  | "nist.reverse", [b, n] => do
      let b ← parseBig? b; let n ← parseNat? n
      pure (fmtExcept hexNat (BitSeq.reverseBits b n))
  | "nist.complement", [b, n] => do
      let b ← parseBig? b; let n ← parseNat? n
      pure (hexNat (complementInt b n))
  | _, _ => none

end Paranoid.Driver
