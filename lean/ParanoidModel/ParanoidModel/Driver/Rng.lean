import ParanoidModel.Driver.Common
import ParanoidModel.Model.Rng
import ParanoidModel.Generated.Consts
namespace Paranoid.Driver
open Paranoid.Proto Paranoid.Rng

/-! Fast hex I/O for multi-kilobyte integers (60-bit limbs; `Proto.parseHexNat?`/`hexNat` are
quadratic with a per-digit bignum allocation). Same concrete syntax. -/

def parseHexStep (st : Option (Nat × Nat × Nat)) (c : Char) : Option (Nat × Nat × Nat) :=
  match st, hexDigit? c with
  | some (hi, lo, cnt), some d =>
    if cnt = 15 then some (hi <<< 60 + lo, d, 1) else some (hi, lo * 16 + d, cnt + 1)
  | _, _ => none

def parseNatF? (s : String) : Option Nat :=
  if s.isEmpty then none else
  match s.foldl parseHexStep (some (0, 0, 0)) with
  | some (hi, lo, cnt) => some (hi <<< (4 * cnt) + lo)
  | none => none

def parseIntF? (s : String) : Option Int :=
  if s.startsWith "-" then (parseNatF? (s.drop 1).toString).map (fun n => - (n : Int))
  else (parseNatF? s).map (fun n => (n : Int))

def parseNatListF? := parseList? parseNatF?

def limbsAux : Nat → Nat → List Nat → List Nat
  | 0, _, acc => acc
  | f + 1, n, acc => if n = 0 then acc else limbsAux f (n >>> 60) ((n &&& (2 ^ 60 - 1)) :: acc)

def pad15 (s : String) : String := String.ofList (List.replicate (15 - s.length) '0') ++ s

def hexNatF (n : Nat) : String :=
  match limbsAux (n.log2 / 60 + 2) n [] with
  | [] => "0"
  | l :: ls => hexNat l ++ String.join (ls.map fun x => pad15 (hexNat x))

def parseVariant? (s : String) : Option Variant :=
  if s == "pinned" then some .pinned else if s == "repaired" then some .repaired else none

/-- bytes oracle token `len,hexLE`: `len` bytes, value given as the little-endian integer. -/
def parseBytes? (s : String) : Option (List UInt8) := do
  match ← parseNatListF? s with
  | [len, v] => if v < 256 ^ len then pure (toLE len v) else none
  | _ => none

def fmtBytes (l : List UInt8) : String := fmtNatList (l.map UInt8.toNat)

def parseByteList? (s : String) : Option (List UInt8) := do
  let l ← parseNatListF? s
  if l.all (· < 256) then pure (l.map Nat.toUInt8) else none

def natOfInt? (i : Int) : Option Nat := if i < 0 then none else some i.toNat

def fmtOptNat : Option Nat → String
  | none => "none"
  | some r => "ok " ++ hexNatF r

/-- generator kind and attributes of a registry name, from the regenerated constants. -/
def lookupRng (name : String) : Option (String × List Int) :=
  Paranoid.Consts.rngRegistry.lookup name

def subsetSumDrv (bits n : Nat) (gens : List Nat) (sels : String) : Option String := do
  let sels ← parseNatListF? sels
  let selLen := (gens.length + 7) / 8
  pure (fmtOptNat (subsetSum bits n gens (sels.map (toLE selLen))))

/-- `rng.bits name variant n seed oracle…` — `RNGS[name].RandomBits(n, seed=seed)`. -/
def rngBits (name : String) (v : Variant) (n : Nat) (seed : Int) (orc : List String) :
    Option String :=
  match lookupRng name with
  | none => some "unknown-name"
  | some (kind, attrs) =>
    match kind, attrs, orc with
    | "Urandom", [], [ba] => do let ba ← parseBytes? ba; pure ("ok " ++ hexNatF (urandom ba n))
    | "Shake128", [], [d] => do
        let d ← parseBytes? d; pure ("ok " ++ hexNatF (shake128 (fun _ _ => d) n seed))
    | "Mt19937", [], [r] => do
        let r ← parseNatF? r; pure ("ok " ++ hexNatF (mt19937 (fun _ _ => r) n seed))
    | "NumpyRng", [], [ba] => do
        let ba ← parseBytes? ba; pure ("ok " ++ hexNatF (numpyRng (fun _ _ => ba) n seed))
    | "TruncLcgRand", [k, a, c], [] => do
        let k ← natOfInt? k; let a ← natOfInt? a; let c ← natOfInt? c
        if truncLcgInit k ≠ ⟨k, a, c⟩ then pure "attr-mismatch"
        else pure (fmtExcept hexNatF (truncLcg v ⟨k, a, c⟩ n seed))
    | "XorShift128plus", [], [] => pure ("ok " ++ hexNatF (xorShift128plus n seed))
    | "XorShiftStar", [], [] => pure ("ok " ++ hexNatF (xorShiftStar n seed))
    | "Xorwow", [], [] => pure ("ok " ++ hexNatF (xorwow n seed))
    | "JavaRandom", [], [] => pure ("ok " ++ hexNatF (javaRandom n seed))
    | "LcgNist", [a], [] => do let a ← natOfInt? a; pure ("ok " ++ hexNatF (lcgNist a n seed))
    | "Mwc", [a, b, ab1, ob], [] => do
        let a ← natOfInt? a; let b ← natOfInt? b; let ob ← natOfInt? ob
        match mwcInit a b with
        | .error e => pure ("err " ++ e.name)
        | .ok p => if p.ab1 ≠ ab1 ∨ p.outputBits ≠ ob then pure "attr-mismatch"
                   else pure (fmtExcept hexNatF (mwc p n seed))
    | "Lehmer", [a, m, bits], [] => do
        let a ← natOfInt? a; let m ← natOfInt? m; let bits ← natOfInt? bits
        match lehmerInit a m bits with
        | .error e => pure ("err " ++ e.name)
        | .ok p => pure (fmtExcept hexNatF (lehmer p n seed))
    | "SubsetSum", [bits, k], [gens, sels] => do
        let bits ← natOfInt? bits; let k ← natOfInt? k
        let g ← parseNatListF? gens
        if g.length ≠ k then pure "oracle-shape" else
        match subsetSumInit bits k with
        | .error e => pure ("err " ++ e.name)
        | .ok _ => subsetSumDrv bits n g sels
    | _, _, _ => some "unknown-kind"

def rngOps : Dispatcher := fun op args =>
  match op, args with
  | "rng.bits", name :: v :: n :: seed :: orc => do
      let v ← parseVariant? v; let n ← parseNatF? n; let seed ← parseIntF? seed
      rngBits name v n seed orc
  | "rng.getrng", [name] =>
      -- `GetRng(name)`: `ValueError` for a name outside the registry
      match lookupRng name with
      | none => some "err ValueError"
      | some (kind, _) => some ("ok " ++ kind)
  | "rng.trunclcg_init", [k] => do
      let k ← parseNatF? k
      pure (hexNatF (truncLcgInit k).a ++ " " ++ hexNatF (truncLcgInit k).c)
  | "rng.trunclcg", [v, k, a, c, n, seed] => do
      let v ← parseVariant? v; let k ← parseNatF? k; let a ← parseNatF? a; let c ← parseNatF? c
      let n ← parseNatF? n; let seed ← parseIntF? seed
      pure (fmtExcept hexNatF (truncLcg v ⟨k, a, c⟩ n seed))
  | "rng.mwc_init", [a, b] => do
      let a ← parseNatF? a; let b ← parseNatF? b
      pure (fmtExcept (fun p => hexInt p.ab1 ++ " " ++ hexNat p.outputBits) (mwcInit a b))
  | "rng.mwc", [a, b, n, seed] => do
      let a ← parseNatF? a; let b ← parseNatF? b; let n ← parseNatF? n; let seed ← parseIntF? seed
      match mwcInit a b with
      | .error e => pure ("err " ++ e.name)
      | .ok p => pure (fmtExcept hexNatF (mwc p n seed))
  | "rng.lehmer", [a, m, bits, n, seed] => do
      let a ← parseNatF? a; let m ← parseNatF? m; let bits ← parseNatF? bits
      let n ← parseNatF? n; let seed ← parseIntF? seed
      match lehmerInit a m bits with
      | .error e => pure ("err " ++ e.name)
      | .ok p => pure (fmtExcept hexNatF (lehmer p n seed))
  | "rng.lcgnist", [a, n, seed] => do
      let a ← parseNatF? a; let n ← parseNatF? n; let seed ← parseIntF? seed
      pure ("ok " ++ hexNatF (lcgNist a n seed))
  | "rng.subsetsum", [bits, k, n, gens, sels] => do
      let bits ← parseNatF? bits; let k ← parseNatF? k; let n ← parseNatF? n
      let g ← parseNatListF? gens
      match subsetSumInit bits k with
      | .error e => pure ("err " ++ e.name)
      | .ok _ => subsetSumDrv bits n g sels
  | "rng.ixor", [a, b] => do let a ← parseIntF? a; let b ← parseIntF? b; pure (hexInt (ixor a b))
  | "rng.iand", [a, b] => do let a ← parseIntF? a; let b ← parseIntF? b; pure (hexInt (iand a b))
  | "rng.shake_seed", [s] => do let s ← parseIntF? s; pure (fmtBytes (shakeSeedBytes s))
  | "rng.to_le", [k, x] => do let k ← parseNatF? k; let x ← parseNatF? x; pure (fmtBytes (toLE k x))
  | "rng.from_le", [l] => do let l ← parseByteList? l; pure (hexNatF (fromLE l))
  | "rng.from_be", [l] => do let l ← parseByteList? l; pure (hexNatF (fromBE l))
  | _, _ => none

end Paranoid.Driver
