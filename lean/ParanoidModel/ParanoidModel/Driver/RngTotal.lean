import ParanoidModel.Driver.Rng
import ParanoidModel.Model.RngTotal
namespace Paranoid.Driver
open Paranoid.Proto Paranoid.Rng

/-! `rng.total …` — constructor + `RandomBits(n, seed)` of a parametrised generator class with
an explicit outcome (Model/RngTotal.lean `run`): `ok <hex>` / `err <PythonExcName>` / `diverges`.
`rng.entry_ok …` — the decidable predicate `Rng.entryOk` (`true` / `false`). -/

def fmtRngOutcome : Outcome → String
  | .value r => "ok " ++ hexNatF r
  | .raises e => "err " ++ e.name
  | .diverges => "diverges"

def parseRngEntry? (kind : String) (ps : List String) : Option Entry :=
  match kind, ps with
  | "trunclcg", [k] => do let k ← parseNatF? k; pure (.truncLcg k)
  | "mwc", [a, b] => do let a ← parseNatF? a; let b ← parseNatF? b; pure (.mwc a b)
  | "lehmer", [a, m, bits] => do
      let a ← parseNatF? a; let m ← parseNatF? m; let bits ← parseNatF? bits; pure (.lehmer a m bits)
  | "subsetsum", [bits, k] => do let bits ← parseNatF? bits; let k ← parseNatF? k; pure (.subsetSum bits k)
  | _, _ => none

def rngEntryArity : String → Nat
  | "trunclcg" => 1 | "mwc" => 2 | "lehmer" => 3 | "subsetsum" => 2 | _ => 0

def rngTotalOps : Dispatcher := fun op args =>
  match op, args with
  | "rng.entry_ok", kind :: ps => do
      let e ← parseRngEntry? kind ps
      pure (if entryOk e then "true" else "false")
  | "rng.total", v :: kind :: rest => do
      let v ← parseVariant? v
      let e ← parseRngEntry? kind (rest.take (rngEntryArity kind))
      match rest.drop (rngEntryArity kind) with
      | [n, seed] => do
          let n ← parseNatF? n; let seed ← parseIntF? seed
          pure (fmtRngOutcome (run v e n seed ⟨[], []⟩))
      | [n, seed, gens, sels] => do
          let n ← parseNatF? n; let seed ← parseIntF? seed
          let g ← parseNatListF? gens; let s ← parseNatListF? sels
          pure (fmtRngOutcome (run v e n seed ⟨g, s.map (toLE ((g.length + 7) / 8))⟩))
      | _ => none
  | _, _ => none

end Paranoid.Driver
