/-
Driver/RsaAll.lean — line protocol for Model/RsaAll.lean (`paranoid.CheckAllRSA` end to end).

  rsaall.check <keys> <M> <deny> <table> <params> (<red> <cbrt> <unseeded> <sha1> <gen>)*
  rsaall.table … same arguments …       the verdict table only (triage of a divergence)
  rsaall.names                          attached-info names and the check names that have a model

  keys      `n:e` per key, `;`-separated, `[]` for the empty batch
  M         the Pollard product `CheckPollardpm1._m` (use a `let` register)
  deny      OpenSSL deny list: `-` or `;`-separated code-point lists   (Driver/ClosedForm)
  table     keypair table: `-` or `;`-separated `msb|bytes`            (Driver/ClosedForm)
  params    `-` (defaults of Generated/Consts) or
            `fermatMaxSteps,cfBound,pm1GcdBound,gcdn1Bound,hlbeMiddleBits,lhwCutoff,lhwMaxSteps`
  then FIVE tokens per key, in batch order:
  red       LLL answers `d0:matrix|d0:matrix`, `-` for none             (Driver/RsaChecks)
  cbrt      the float cube root of FactorWithGuess for this modulus
  unseeded  flattened candidate sequence of CheckUnseededRand, `[]` when the storage has none
  sha1      40 code points of the hex digest
  gen       `-` or `p,q`: output of the keypair generator; REQUIRED when the table has the
            modulus' 64-bit prefix (the request is refused otherwise — no default answer)

Response: the same canonical form as `bk.checkall` (`fmtRun`): `ok <test_info;…> <ret>` or
`err <ExcName>`.
-/
import ParanoidModel.Driver.Bookkeeping
import ParanoidModel.Driver.RsaChecks
import ParanoidModel.Driver.ClosedForm
import ParanoidModel.Model.RsaAll
namespace Paranoid.Driver
open Paranoid.Proto Paranoid.RsaAll

def parseRsaKey? (s : String) : Option RsaKey :=
  match s.splitOn ":" with
  | [n, e] => do let n ← parseNatF? n; let e ← parseNatF? e; pure ⟨n, e⟩
  | _ => none

def parseRsaKeys? (s : String) : Option (List RsaKey) := parseSep? ";" "[]" parseRsaKey? s

def parseGlobals? (m deny table params : String) : Option RsaGlobals := do
  let m ← parseNatF? m
  let deny ← parseStrList? deny
  let table ← parseTable? table
  if params == "-" then pure { pollardM := m, denylist := deny, keypairTable := table } else
  match ← parseNatList? params with
  | [fs, cf, pg, g1, hl, lc, lm] =>
    pure { pollardM := m, denylist := deny, keypairTable := table, fermatMaxSteps := fs,
           cfBound := cf, pm1GcdBound := pg, gcdn1Bound := g1, hlbeMiddleBits := hl,
           lhwCutoff := lc, lhwMaxSteps := lm }
  | _ => none

def parseGen? (s : String) : Option (Option (Nat × Nat)) :=
  if s == "-" then some none else
  match s.splitOn "," with
  | [p, q] => do let p ← parseNatF? p; let q ← parseNatF? q; pure (some (p, q))
  | _ => none

/-- the five oracle tokens of one key; `none` in the last component = no generator answer. -/
def parseKeyOracles? : List String → Option (List (KeyOracles × Bool))
  | [] => some []
  | red :: cbrt :: uns :: sha :: gen :: rest => do
    let red ← parseRed? red
    let cbrt ← parseNatF? cbrt
    let uns ← parseList? parseNatF? uns
    let sha ← parseChars? sha
    let gen ← parseGen? gen
    let tl ← parseKeyOracles? rest
    let g : List Nat → Nat → Nat × Nat := fun _ _ => gen.getD (0, 0)
    pure ((⟨red, cbrt, uns, sha, g⟩, gen.isSome) :: tl)
  | _ => none

def emptyKeyOracles : KeyOracles := ⟨fun _ => [], 0, [], [], fun _ _ => (0, 0)⟩

def mkOracles (g : RsaGlobals) (per : List KeyOracles) : RsaOracles :=
  let at_ : Nat → KeyOracles := fun i => (per[i]?).getD emptyKeyOracles
  { toRsaGlobals := g
    red := fun i => (at_ i).red
    cbrt := fun i => (at_ i).cbrt
    unseeded := fun i => (at_ i).unseeded
    sha1hex := fun i => (at_ i).sha1hex
    keypairGen := fun i => (at_ i).keypairGen }

/-- every key whose prefix is in the table comes with a generator answer. -/
def gensGiven (g : RsaGlobals) (keys : List RsaKey) (per : List (KeyOracles × Bool)) : Bool :=
  (keys.zip per).all fun (k, o) =>
    match keypairSeed g.keypairTable k.n with
    | .ok (some _) => o.2
    | _ => true

def parseRsaAll? (args : List String) : Option (RsaOracles × List RsaKey) :=
  match args with
  | keys :: m :: deny :: table :: params :: rest => do
    let keys ← parseRsaKeys? keys
    let g ← parseGlobals? m deny table params
    let per ← parseKeyOracles? rest
    if per.length ≠ keys.length then none else
    if !gensGiven g keys per then none else
    pure (mkOracles g (per.map (·.1)), keys)
  | _ => none

def fmtVerdictB (v : Verdict) : String :=
  fmtBool v.positive ++ "^" ++
    (match v.factors with
     | none => "-"
     | some (k, fs) => encodeStr k ++ ":" ++ fmtInts fs) ++ "^" ++
    (match v.info with
     | none => "-"
     | some p => fmtAttach p)

def fmtTable (r : Except PyErr (List (List Verdict))) : String :=
  match r with
  | .error e => "err " ++ e.name
  | .ok tbl =>
    "ok " ++ (if tbl.isEmpty then "[]" else
      ";".intercalate ((rsaAll.zip tbl).map fun (c, row) =>
        c.name ++ "=" ++ fmtList fmtVerdictB row))

def rsaAllOps : Dispatcher := fun op args =>
  match op with
  | "rsaall.check" => do
      let (orc, keys) ← parseRsaAll? args
      pure (fmtRun (checkAllRSAFull orc keys))
  | "rsaall.table" => do
      let (orc, keys) ← parseRsaAll? args
      pure (fmtTable (verdictTable orc keys))
  | "rsaall.names" =>
      if args.isEmpty then
        some (encodeStr nFactors ++ " " ++ encodeStr nm1Factors ++ " " ++
          fmtList (fun p => p.1) singleModels ++ " " ++ fmtList (fun p => p.1) aggregateModels)
      else none
  | _ => none

end Paranoid.Driver
