import ParanoidModel.Driver.Common
import ParanoidModel.Model.RsaChecks
import ParanoidModel.Model.Patterns
import ParanoidModel.Model.PollardFloat
import ParanoidModel.Driver.Rng
namespace Paranoid.Driver
open Paranoid.Proto

def fmtVerdict (v : KeyVerdict) : String :=
  fmtBool v.weak ++ " " ++ fmtNatList v.factors ++ " " ++ fmtBool v.sevUnknown

/-- oracle table `d0:matrix|d0:matrix`; `-` for the empty table. -/
def parseRed? (s : String) : Option (Nat → List (List Int)) :=
  if s == "-" then some (fun _ => []) else do
    let entries ← (s.splitOn "|").mapM fun e =>
      match e.splitOn ":" with
      | [d, m] => do let d ← parseNat? d; let m ← parseIntMatrix? m; pure (d, m)
      | _ => none
    pure fun d => match entries.lookup d with
      | some m => m
      | none => []

/-- the denominators `CheckBitPatterns` tries when every attempt fails. -/
def bitPatternDenominators (n : Nat) (ps : List Nat) : List Nat :=
  (ps.filter (fun p => p ≤ bitLength n / 8)).map (fun p => 2 ^ p - 1)

/-- the denominators `CheckPermutedBitPatterns` tries when every attempt fails. -/
def permutedDenominators (n : Nat) : List Nat :=
  [8, 16, 32, 64].flatMap fun ws =>
    ((oddRange ws).map (permutedDenominator ws)).takeWhile (fun d => bitLength d ≤ bitLength n / 8)

def rsaCheckOps : Dispatcher := fun op args =>
  match op, args with
  | "chk.fermat", [n, steps] => do
      let n ← parseNat? n; let steps ← parseNat? steps; pure ("ok " ++ fmtVerdict (vFermat n steps))
  | "chk.hlbe", [n, mb] => do
      let n ← parseNat? n; let mb ← parseNat? mb; pure (fmtExcept fmtVerdict (vHlbe n mb))
  | "chk.cf", [n, bound] => do
      let n ← parseNat? n; let bound ← parseNat? bound; pure (fmtExcept fmtVerdict (vCf n bound))
  | "chk.bitpatterns", [n, ps, red] => do
      let n ← parseNat? n; let ps ← parseNatList? ps; let red ← parseRed? red
      pure (fmtExcept fmtVerdict (vBitPatterns n ps red))
  | "chk.bitpatterns_ds", [n, ps] => do
      let n ← parseNat? n; let ps ← parseNatList? ps; pure (fmtNatList (bitPatternDenominators n ps))
  | "chk.defaultps", [] => pure (fmtNatList defaultPatternSizes)
  | "chk.permuted", [n, red] => do
      let n ← parseNat? n; let red ← parseRed? red; pure (fmtExcept fmtVerdict (vPermuted n red))
  | "chk.permuted_ds", [n] => do
      let n ← parseNat? n; pure (fmtNatList (permutedDenominators n))
  | "chk.pm1", [n, m, gb] => do
      let n ← parseNat? n; let m ← parseNatF? m; let gb ← parseNat? gb
      pure ("ok " ++ fmtVerdict (vPollard n m gb))
  | "chk.pm1_product", [bound, exps] => do
      let bound ← parseOptNat? bound; let exps ← parseNatList? exps
      pure (hexNatF (pollardProduct bound exps))
  | "chk.pm1_exps", [bound] => do
      let bound ← parseOptNat? bound
      pure (fmtNatList (pollardExpsDocumented bound))
  | "chk.pm1_float243", [] => pure (fmtNatList floatExps243)
  | "pat.periodic", [w, ps, l] => do
      let w ← parseNat? w; let ps ← parseNat? ps; let l ← parseNat? l
      pure (hexNatF (Permuted.periodicTop w ps l))
  | "pat.swap", [ws, m, x] => do
      let ws ← parseNat? ws; let m ← parseNat? m; let x ← parseNatF? x
      pure (hexNatF (Permuted.swapLimbs ws m x))
  | "chk.lhw", [n, cutoff, maxsteps] => do
      let n ← parseNat? n; let c ← parseNat? cutoff; let ms ← parseNat? maxsteps
      pure ("ok " ++ fmtVerdict (vLhw n c ms))
  | "chk.sud", [n, cbrt] => do
      let n ← parseNat? n; let cbrt ← parseNat? cbrt; pure (fmtExcept fmtVerdict (vSud n cbrt))
  | "chk.unseeded", [n, cbrt, cands] => do
      let n ← parseNat? n; let cbrt ← parseNat? cbrt; let cands ← parseNatList? cands
      pure (fmtExcept fmtVerdict (vUnseeded n cbrt cands))
  | "chk.unseeded_variants", [n, p0] => do
      let n ← parseNat? n; let p0 ← parseNat? p0; pure (fmtNatList (unseededVariants n p0))
  | _, _ => none

end Paranoid.Driver
