/-
Driver/Suite.lean — line protocol for Model/Suite.lean.

  val      `<num>/<den>` (signed hex / hex; every finite float and int is such a ratio),
           `nan`, `inf`, `-inf`
  vals     `,`-separated, `[]` when empty
  table    recorded float tails of CombinedPValue: `<vals>=><val or !>` entries separated by `|`,
           `[]` when empty (`!`: math.log raised ValueError)
  outcome  `I` (InsufficientDataError) | `S:<val>` | `N:<name>=<val>,…` | `N:[]`
  script   outcomes separated by `;`        rounds separated by `|`
-/
import ParanoidModel.Driver.Bookkeeping
import ParanoidModel.Model.Suite
namespace Paranoid.Driver
open Paranoid.Proto Paranoid.Suite

inductive Val
  | num (n : Int) (d : Nat)
  | nan
  | pinf
  | ninf
  deriving DecidableEq, Repr

/-- IEEE `<` on exact values (every comparison with nan is false). -/
def Val.lt : Val → Val → Bool
  | .num a b, .num c d => decide (a * (d : Int) < c * (b : Int))
  | .nan, _ => false
  | _, .nan => false
  | .ninf, .ninf => false
  | .ninf, _ => true
  | _, .ninf => false
  | .pinf, _ => false
  | _, .pinf => true

def Val.eqZero : Val → Bool
  | .num n _ => n == 0
  | _ => false

def parseVal? (s : String) : Option Val :=
  if s == "nan" then some .nan else if s == "inf" then some .pinf
  else if s == "-inf" then some .ninf else
  match s.splitOn "/" with
  | [n, d] => do
    let n ← parseInt? n; let d ← parseNat? d
    if d = 0 then none else pure (.num n d)
  | _ => none

def fmtVal : Val → String
  | .num n d => hexInt n ++ "/" ++ hexNat d
  | .nan => "nan"
  | .pinf => "inf"
  | .ninf => "-inf"

def parseVals? (s : String) : Option (List Val) := parseSep? "," "[]" parseVal? s

def parseSuiteTable? (s : String) : Option (List (List Val × Option Val)) :=
  parseSep? "|" "[]" (fun e =>
    match e.splitOn "=>" with
    | [k, v] => do
      let k ← parseVals? k
      let v ← if v == "!" then some none else (parseVal? v).map some
      pure (k, v)
    | _ => none) s

/-- the recorded oracle; a list that was never recorded is reported as KeyError so that the
divergence is visible. -/
def tableNum (t : List (List Val × Option Val)) : Num Val :=
  { lt := Val.lt, eqZero := Val.eqZero, zero := .num 0 1,
    igamc := fun ps =>
      match t.find? (fun e => e.1 = ps) with
      | some (_, some v) => .ok v
      | some (_, none) => .error .valueError
      | none => .error .keyError }

def parseNamed? (s : String) : Option (List (String × Val)) :=
  parseSep? "," "[]" (fun e =>
    match e.splitOn "=" with
    | [n, v] => do let n ← decodeStr? n; let v ← parseVal? v; pure (n, v)
    | _ => none) s

def parseOutcome? (s : String) : Option (Outcome Val) :=
  if s == "I" then some .insufficient
  else if s.startsWith "S:" then (parseVal? (s.drop 2).toString).map Outcome.scalar
  else if s.startsWith "N:" then (parseNamed? (s.drop 2).toString).map Outcome.named
  else none

def fmtState : TState → String
  | .passed => "P" | .undecided => "U" | .failed => "F"

def fmtTS (ts : TS Val) : String :=
  hexNat ts.runs ++ "/" ++ fmtBool ts.finished ++ "/" ++
    fmtList (fun (p : String × List Val) => encodeStr p.1 ++ "=" ++
      ".".intercalate (p.2.map fmtVal)) ts.pvalues ++ "/" ++
    fmtList (fun (p : String × Val) => encodeStr p.1 ++ "=" ++ fmtVal p.2) ts.combined ++ "/" ++
    fmtList (fun (p : String × TState) => encodeStr p.1 ++ "=" ++ fmtState p.2) ts.state ++ "/" ++
    fmtBool (failed ts) ++ "/" ++ hexNat (stateCount ts .passed) ++ "." ++
    hexNat (stateCount ts .undecided) ++ "." ++ hexNat (stateCount ts .failed)

def fmtTSs (l : List (TS Val)) : String :=
  if l.isEmpty then "[]" else ";".intercalate (l.map fmtTS)

/-- a history of `Run` calls on one structure; returns the structure and the returned flags. -/
def runScript (N : Num Val) : TS Val → List (Outcome Val) → List Bool →
    Except PyErr (TS Val × List Bool)
  | ts, [], acc => .ok (ts, acc.reverse)
  | ts, o :: os, acc =>
    match run N ts o with
    | .error e => .error e
    | .ok (ts', fin) => runScript N ts' os (fin :: acc)

def noOutcome : Outcome Val := .insufficient

def suiteOps : Dispatcher := fun op args =>
  match op, args with
  | "su.comb", [ps, table] => do
      let ps ← parseVals? ps; let t ← parseSuiteTable? table
      pure (fmtExcept fmtVal (combinedPValue (tableNum t) ps))
  | "su.run", [fail, rep, minRep, script, table] => do
      let fail ← parseVal? fail; let rep ← parseVal? rep; let minRep ← parseNat? minRep
      let script ← parseSep? ";" "[]" parseOutcome? script
      let t ← parseSuiteTable? table
      pure (fmtExcept (fun (r : TS Val × List Bool) =>
        String.join (r.2.map fmtBool) ++ " " ++ fmtTS r.1)
        (runScript (tableNum t) (TS.init fail rep minRep) script []))
  | "su.source", [nTests, fail, rep, minRep, rounds, table] => do
      let nTests ← parseNat? nTests
      let fail ← parseVal? fail; let rep ← parseVal? rep; let minRep ← parseNat? minRep
      let rounds ← parseSep? "|" "[]" (parseSep? ";" "[]" parseOutcome?) rounds
      let t ← parseSuiteTable? table
      if rounds.any (fun r => r.length ≠ nTests) then none else
      let outcomes : Nat → Nat → Outcome Val :=
        fun r i => (((rounds[r]?).getD [])[i]?).getD noOutcome
      pure (fmtExcept (fun (r : Option (List (TS Val) × Option Bool)) =>
        match r with
        | none => "running"
        | some (tests, ret) => fmtOpt fmtBool ret ++ " " ++ fmtTSs tests)
        (testSource (tableNum t) nTests fail rep minRep outcomes rounds.length))
  | "su.bits", [nTests, level, round, table] => do
      let nTests ← parseNat? nTests; let level ← parseVal? level
      let round ← parseSep? ";" "[]" parseOutcome? round
      let t ← parseSuiteTable? table
      if round.length ≠ nTests then none else
      let outcome : Nat → Outcome Val := fun i => (round[i]?).getD noOutcome
      pure (fmtExcept (fun (r : List (TS Val) × Bool) => fmtBool r.2 ++ " " ++ fmtTSs r.1)
        (testBitString (tableNum t) nTests level outcome))
  | _, _ => none

end Paranoid.Driver
