/-
Model/BM.lean — executable model of
`paranoid_crypto/lib/randomness_tests/berlekamp_massey.py`:

* `linearComplexityNative`  mirrors `LinearComplexityNative` (the `sb`/`sc` big-integer version)
  line by line;
* `linearComplexity`        mirrors the Python wrapper `LinearComplexity` around the pybind
  function `LfsrLength` (size check, `int.to_bytes`, C++ result).  The value computed by the
  C++ code is *modelled by the same loop* (`bmLength`): the two C++ variants (portable, CLMUL)
  have their own word-level model in Model/BMCpp.lean, PROVED to return `lfsrLengthStr` below
  (`C14Cpp.cpp_matches_wrapper_model`), and the wrapper executed statement by statement over that
  word-level model (`to_bytes`, pybind11 `int`, `LfsrLengthStr`: `BMCpp.linearComplexityCpp`) is
  PROVED equal to `linearComplexity` on every input (`C14Wrapper.wrapper_glue`);
* `lfsrCount`, `lfsrLogProbability` mirror `LfsrCount`, `LfsrLogProbability`.

No Mathlib (links into the native driver).  `Nat` bit operations are GMP-backed natively and
kernel-accelerated, so the model runs lengths 2^17 in about a second and small instances can
be evaluated by `decide +kernel`.
-/
import ParanoidModel.Model.Basic
namespace Paranoid

/-- The loop variables of `LinearComplexityNative`: `sb, sc, deg_c, m`. -/
structure BMState where
  sb : Nat
  sc : Nat
  degC : Nat
  m : Nat
  deriving DecidableEq, Repr

/-- `sb, sc = s, s; deg_c = 0; m = 0`. -/
def bmInit (s : Nat) : BMState := { sb := s, sc := s, degC := 0, m := 0 }

/-- `disc = sc & (1 << m)` (used only through its truth value). -/
def bmDisc (st : BMState) : Nat := st.sc &&& (1 <<< st.m)

/-- The body of `if disc:` — at this point Python has already executed `m += 1`, so
`sc >>= m` shifts by the old `m` plus one:
```
      sc >>= m ; m = 0
      if 2 * deg_c <= n:
        sb, sc = sc, sb
        deg_c = n + 1 - deg_c
      sc ^= sb
``` -/
def bmUpdate (n : Nat) (st : BMState) : BMState :=
  if 2 * st.degC ≤ n then
    { sb := st.sc >>> (st.m + 1), sc := st.sb ^^^ (st.sc >>> (st.m + 1)),
      degC := n + 1 - st.degC, m := 0 }
  else
    { sb := st.sb, sc := (st.sc >>> (st.m + 1)) ^^^ st.sb, degC := st.degC, m := 0 }

/-- One iteration of `for n in range(length)`. -/
def bmStep (n : Nat) (st : BMState) : BMState :=
  if bmDisc st ≠ 0 then bmUpdate n st else { st with m := st.m + 1 }

/-- `k` further iterations starting with loop index `n` (tail recursive). -/
def bmLoop : Nat → Nat → BMState → BMState
  | 0, _, st => st
  | k + 1, n, st => bmLoop k (n + 1) (bmStep n st)

/-- the value `deg_c` after `length` iterations. -/
def bmLength (s length : Nat) : Nat := (bmLoop length 0 (bmInit s)).degC

/-- `LinearComplexityNative(s, length)` for `s ≥ 0`. -/
def linearComplexityNative (s : Nat) (length : Int) : Except PyErr Nat :=
  if length < 0 then .error .valueError else .ok (bmLength s length.toNat)

/-- `size = (length + 7) // 8` (floor division). -/
def lcSize (length : Int) : Int := Int.fdiv (length + 7) 8

/-- `LinearComplexity(s, length)` for `s ≥ 0`: the Python wrapper in front of the C++ code.

* `ValueError` unless `0 ≤ size < 2^31`;
* `s.to_bytes(size, "little")` raises `OverflowError` when `s ≥ 256^size`;
* `LfsrLengthStr` returns `-1` for `n < 0` (reachable for `length ∈ {-7..-1}`, `s = 0`);
* pybind11 refuses a `length` that does not fit a C `int` (`TypeError`);
* otherwise the C++ result, which is modelled by `bmLength` — in particular bits of `s` at
  positions `length .. 8*size-1` are passed to the C++ code and have no influence. -/
def linearComplexity (s : Nat) (length : Int) : Except PyErr Int :=
  if lcSize length < 0 ∨ 2 ^ 31 ≤ lcSize length then .error .valueError
  else if 2 ^ (8 * (lcSize length).toNat) ≤ s then .error .overflow
  else if 2 ^ 31 ≤ length then .error .typeError
  else if length < 0 then .ok (-1)
  else .ok (bmLength s length.toNat)

/-- `LfsrLengthStr(seq, n)` of the C++ code, with `seq` given as its byte length and its
little-endian value: `-1` when `n < 0` or `n > 8·|seq|` (`LfsrLength` returns false),
otherwise the linear complexity of the first `n` bits. (For `n = 0` the CLMUL variant of the
pinned code reads `sb[0]` of an empty vector — DESIGN D8; the model is the repaired value 0.) -/
def lfsrLengthStr (nbytes s : Nat) (n : Int) : Int :=
  if n < 0 ∨ 8 * (nbytes : Int) < n then -1 else (bmLength s n.toNat : Int)

/-- `LfsrCount(n, m)`. -/
def lfsrCount (n m : Int) : Nat :=
  if m < 0 ∨ n ≤ 0 ∨ m > n then 0
  else if m = 0 then 1
  else if m ≤ Int.fdiv n 2 then 2 * 4 ^ (m - 1).toNat
  else 4 ^ (n - m).toNat

/-- `LfsrCount` with the guard `n <= 0` replaced by `n < 0` (fixes/D17-lfsrcount-n0.diff):
the empty sequence is counted (`lfsrCountRepaired 0 0 = 1`). Identical to `lfsrCount` for
`n ≠ 0`. -/
def lfsrCountRepaired (n m : Int) : Nat :=
  if m < 0 ∨ n < 0 ∨ m > n then 0
  else if m = 0 then 1
  else if m ≤ Int.fdiv n 2 then 2 * 4 ^ (m - 1).toNat
  else 4 ^ (n - m).toNat

/-- `LfsrLogProbability(n, m)`. -/
def lfsrLogProbability (n m : Int) : Except PyErr Int :=
  if n ≤ 0 then .error .valueError
  else if m < 0 ∨ m > n then .error .valueError
  else if m = 0 then .ok (-n)
  else if m ≤ Int.fdiv n 2 then .ok (2 * m - n - 1)
  else .ok (n - 2 * m)

end Paranoid
