/-
Model/BMCpp.lean — executable WORD-LEVEL model of
`paranoid_crypto/lib/randomness_tests/cc_util/berlekamp_massey.cc`:

* `wordsOfBytes`            the packing loop of `LfsrLength` (`s[i / 8] ^= byte << (8 * (i & 7))`);
* `lfsrLengthImplPortable`  the `#else` variant of `LfsrLengthImpl` (vectors `sb`, `sc` of 64-bit
                            words, one bit per iteration, shift with carries across the words);
* `clmul`                   carry-less multiplication of two 64-bit words, `(hi, lo)`, by the
                            textbook shift-and-xor loop over the 64 bits of `x` — this is the
                            SPECIFICATION of `_mm_clmulepi64_si128(·,·,0x00)` / `vmull_p64`
                            (trusted-base item: the intrinsic is not derived from anything);
* `lfsrLengthImplClmul`     the `#ifdef USE_CLMUL` variant: outer loop over 64-bit blocks with the
                            inner bit loop on `sb0, sc0, a, b, c, d, carry_a, carry_c`, the
                            assembly of `tb`, `tc` with four `clmul`s per word, `sb.swap(tb)`,
                            `sc.swap(tc)`, `size--`, and the tail loop for the last `n & 63` bits;
* `lfsrLength`, `lfsrLengthStr`  the public entry points (range check on `n`, `-1`).

Conventions. `std::vector<uint64_t>` is `List UInt64` (index 0 first). C `int` variables
(`n`, `i`, `j`, `lfsr_len`, `size`) are unbounded naturals: exact as long as `2 * lfsr_len` does not
overflow an `int`, i.e. for `n ≤ 2^30` (recorded as an assumption of the correspondence).
An out-of-bounds vector access (undefined behaviour in C++) is the result `none`; the theorems in
Props/C14Cpp.lean show that it never happens through `LfsrLengthStr`.
No Mathlib (links into the native driver).
-/
import ParanoidModel.Model.Basic
namespace Paranoid.BMCpp

abbrev Words := List UInt64

/-- the bit sequence carried by a byte string: `Σ 256^i · seq[i]` (bit `k` of the sequence is
bit `k mod 8` of byte `k / 8`), the integer Python's `int.from_bytes(seq, "little")` gives and
the argument `s` of `LinearComplexityNative`. Specification side of the packing lemmas. -/
def natOfBytes : List UInt8 → Nat
  | [] => 0
  | b :: bs => b.toNat + 256 * natOfBytes bs

/-! ### `LfsrLength`: packing bytes into 64-bit words -/

/-- ```
  std::vector<uint64_t> s((seq.size() + 7) / 8);
  for (size_t i = 0; i < seq.size(); i++) {
    uint64_t byte = seq[i];
    s[i / 8] ^= byte << (8 * (i & 7));
  }
```
`cur` is the word `s[i / 8]` under construction; it is emitted when `i & 7 == 7` or, for the last
(partial) word, at the end — `(seq.size() + 7) / 8` words in total. -/
def packLoop : List UInt8 → Nat → UInt64 → Words
  | [], i, cur => if i % 8 = 0 then [] else [cur]
  | b :: bs, i, cur =>
    if i % 8 = 7 then (cur ^^^ (b.toUInt64 <<< (8 * (i % 8)).toUInt64)) :: packLoop bs (i + 1) 0
    else packLoop bs (i + 1) (cur ^^^ (b.toUInt64 <<< (8 * (i % 8)).toUInt64))

def wordsOfBytes (seq : List UInt8) : Words := packLoop seq 0 0

/-! ### portable variant (`#else`) -/

/-- loop variables `sb`, `sc`, `lfsr_len`. -/
structure PState where
  sb : Words
  sc : Words
  len : Nat
  deriving DecidableEq, Repr

/-- ```
    for (int j = 0; j < sc.size() - 1; j++) sc[j] = (sc[j] >> 1) | (sc[j + 1] << 63);
    sc[sc.size() - 1] >>= 1;
``` (`sc[j + 1]` is read before it is overwritten). The empty vector never gets here (`pStep`). -/
def shr1 : Words → Words
  | [] => []
  | [w] => [w >>> 1]
  | w :: w' :: ws => ((w >>> 1) ||| (w' <<< 63)) :: shr1 (w' :: ws)

/-- `for (int j = 0; j < sc.size(); j++) sc[j] ^= sb[j];` — `sb` and `sc` are copies of `seq` that
are only ever swapped, so `sb.size() == sc.size()`. -/
def xorw (sc sb : Words) : Words := List.zipWith (· ^^^ ·) sc sb

/-- body of `if (disc == 1)`; `sc'` is the already shifted `sc`:
```
      if (2 * lfsr_len <= i) { lfsr_len = i + 1 - lfsr_len; sb.swap(sc); }
      for (...) sc[j] ^= sb[j];
``` -/
def pUpdate (i : Nat) (st : PState) (sc' : Words) : PState :=
  if 2 * st.len ≤ i then { sb := sc', sc := xorw st.sb sc', len := i + 1 - st.len }
  else { sb := st.sb, sc := xorw sc' st.sb, len := st.len }

/-- one iteration of `for (int i = 0; i < n; i++)`; `none` = `sc[0]` of an empty vector. -/
def pStep (i : Nat) (st : PState) : Option PState :=
  match st.sc with
  | [] => none
  | w :: _ =>
    if w &&& 1 = 1 then some (pUpdate i st (shr1 st.sc))
    else some { sb := st.sb, sc := shr1 st.sc, len := st.len }

/-- `k` iterations starting at loop index `i`. -/
def pLoop : Nat → Nat → PState → Option PState
  | 0, _, st => some st
  | k + 1, i, st =>
    match pStep i st with
    | none => none
    | some st' => pLoop k (i + 1) st'

/-- portable `LfsrLengthImpl(seq, n)`, `n ≥ 0`. -/
def lfsrLengthImplPortable (seq : Words) (n : Nat) : Option Nat :=
  (pLoop n 0 { sb := seq, sc := seq, len := 0 }).map (·.len)

/-! ### carry-less multiplication -/

/-- textbook shift-and-xor: for `i = 0..63`, if bit `i` of `x` is set, xor `y · X^i` into the
128-bit accumulator `hi:lo`. -/
def clmulLoop : Nat → Nat → UInt64 → UInt64 → UInt64 → UInt64 → UInt64 × UInt64
  | 0, _, _, _, hi, lo => (hi, lo)
  | k + 1, i, x, y, hi, lo =>
    if (x >>> i.toUInt64) &&& 1 = 1 then
      clmulLoop k (i + 1) x y (hi ^^^ (if i = 0 then 0 else y >>> (64 - i).toUInt64))
        (lo ^^^ (y <<< i.toUInt64))
    else clmulLoop k (i + 1) x y hi lo

/-- `clmul(x, y, &hi, &lo)`: the 128-bit carry-less product of two 64-bit words. -/
def clmul (x y : UInt64) : UInt64 × UInt64 := clmulLoop 64 0 x y 0 0

/-! ### CLMUL variant -/

/-- variables of the inner bit loop. -/
structure Inner where
  sb0 : UInt64
  sc0 : UInt64
  a : UInt64
  b : UInt64
  c : UInt64
  d : UInt64
  carryA : UInt64
  carryC : UInt64
  len : Nat
  deriving DecidableEq, Repr

/-- `sc0 >>= 1; carry_a = a >> 63; carry_c = 0; a <<= 1; b <<= 1;` -/
def innerShift (r : Inner) : Inner :=
  { r with sc0 := r.sc0 >>> 1, carryA := r.a >>> 63, carryC := 0, a := r.a <<< 1, b := r.b <<< 1 }

/-- `lfsr_len = …; swap(sb0, sc0); swap(a, c); swap(b, d); swap(carry_a, carry_c);` -/
def innerSwap (newLen : Nat) (r : Inner) : Inner :=
  { sb0 := r.sc0, sc0 := r.sb0, a := r.c, c := r.a, b := r.d, d := r.b,
    carryA := r.carryC, carryC := r.carryA, len := newLen }

/-- `sc0 ^= sb0; c ^= a; carry_c ^= carry_a; d ^= b;` -/
def innerXor (r : Inner) : Inner :=
  { r with sc0 := r.sc0 ^^^ r.sb0, c := r.c ^^^ r.a, carryC := r.carryC ^^^ r.carryA,
           d := r.d ^^^ r.b }

/-- body of `for (int i = 0; i < 64; i++)`; `ij = i + j`. -/
def innerStep (ij : Nat) (r : Inner) : Inner :=
  if r.sc0 &&& 1 = 1 then
    if 2 * r.len ≤ ij then innerXor (innerSwap (ij + 1 - r.len) (innerShift r))
    else innerXor (innerShift r)
  else innerShift r

/-- `k` iterations of the inner loop starting at `ij`. -/
def innerLoop : Nat → Nat → Inner → Inner
  | 0, _, r => r
  | k + 1, ij, r => innerLoop k (ij + 1) (innerStep ij r)

/-- loop variables of the outer loop. The vectors keep their full length `seq.size()`; only the
first `size` words are live. -/
structure ClState where
  sb : Words
  sc : Words
  tb : Words
  tc : Words
  len : Nat
  size : Nat
  deriving DecidableEq, Repr

/-- `for (int i = 0; i < size; i++) t[i] = 0;` (`none`: write past the end). -/
def zeroFirst : Nat → Words → Option Words
  | 0, t => some t
  | _ + 1, [] => none
  | k + 1, _ :: t => (zeroFirst k t).map (0 :: ·)

/-- `t[0] = w;` -/
def setHead (w : UInt64) : Words → Option Words
  | [] => none
  | _ :: t => some (w :: t)

/-- `if (carry) t = sb; else for (i < size) t[i] = 0;` then `t[0] = w0;`. -/
def clBase (carry w0 : UInt64) (size : Nat) (sb t : Words) : Option Words :=
  match (if carry ≠ 0 then some sb else zeroFirst size t) with
  | none => none
  | some t' => setHead w0 t'

/-- the word loop for ONE of the two target vectors (`tb` with `(x, y) = (a, b)`, `tc` with
`(c, d)`; the C++ loop interleaves the two, they do not interact):
```
    for (int i = 1; i < size; i++) {
      clmul(x, sb[i], &hi, &lo); t[i - 1] ^= lo; t[i] ^= hi;
      clmul(y, sc[i], &hi, &lo); t[i - 1] ^= lo; t[i] ^= hi;
    }
```
`k` iterations; `sbT`, `scT` are `sb`, `sc` from index `i` on and `t` is the target from index
`i - 1` on. -/
def clAccum (x y : UInt64) : Nat → Words → Words → Words → Option Words
  | 0, _, _, t => some t
  | k + 1, sbi :: sbT, sci :: scT, t0 :: t1 :: t =>
    (clAccum x y k sbT scT ((t1 ^^^ (clmul x sbi).1 ^^^ (clmul y sci).1) :: t)).map
      ((t0 ^^^ (clmul x sbi).2 ^^^ (clmul y sci).2) :: ·)
  | _ + 1, _, _, _ => none

/-- everything after the inner loop of one block, up to `size--`. -/
def clAssemble (st : ClState) (sbT scT : Words) (r : Inner) : Option ClState :=
  match clBase r.carryA r.sb0 st.size st.sb st.tb, clBase r.carryC r.sc0 st.size st.sb st.tc with
  | some tb, some tc =>
    match clAccum r.a r.b (st.size - 1) sbT scT tb, clAccum r.c r.d (st.size - 1) sbT scT tc with
    | some tb', some tc' =>
      some { sb := tb', sc := tc', tb := st.sb, tc := st.sc, len := r.len, size := st.size - 1 }
    | _, _ => none
  | _, _ => none

/-- one iteration of `for (int j = 0; j < n0; j += 64)`. -/
def clBlock (j : Nat) (st : ClState) : Option ClState :=
  match st.sb, st.sc with
  | sb0 :: sbT, sc0 :: scT =>
    clAssemble st sbT scT (innerLoop 64 j
      { sb0 := sb0, sc0 := sc0, a := 1, b := 0, c := 0, d := 1, carryA := 0, carryC := 0,
        len := st.len })
  | _, _ => none

/-- `k` blocks starting at bit index `j`. -/
def clBlocks : Nat → Nat → ClState → Option ClState
  | 0, _, st => some st
  | k + 1, j, st =>
    match clBlock j st with
    | none => none
    | some st' => clBlocks k (j + 64) st'

/-- variables of the tail loop. -/
structure Tail where
  sb0 : UInt64
  sc0 : UInt64
  len : Nat
  deriving DecidableEq, Repr

/-- body of `for (int i = n0; i < n; i++)`. -/
def tailStep (i : Nat) (r : Tail) : Tail :=
  if r.sc0 &&& 1 = 1 then
    if 2 * r.len ≤ i then
      { sb0 := r.sc0 >>> 1, sc0 := r.sb0 ^^^ (r.sc0 >>> 1), len := i + 1 - r.len }
    else { sb0 := r.sb0, sc0 := (r.sc0 >>> 1) ^^^ r.sb0, len := r.len }
  else { sb0 := r.sb0, sc0 := r.sc0 >>> 1, len := r.len }

def tailLoop : Nat → Nat → Tail → Tail
  | 0, _, r => r
  | k + 1, i, r => tailLoop k (i + 1) (tailStep i r)

/-- the final `uint64_t sb0 = sb[0]; uint64_t sc0 = sc[0]; for (i = n0; i < n; i++) …`. -/
def clTail (n : Nat) (st : ClState) : Option Nat :=
  match st.sb, st.sc with
  | sb0 :: _, sc0 :: _ =>
    some (tailLoop (n % 64) (n - n % 64) { sb0 := sb0, sc0 := sc0, len := st.len }).len
  | _, _ => none

/-- CLMUL `LfsrLengthImpl(seq, n)`, `n ≥ 0` (with the `n == 0` early return of the repaired
tree, DESIGN D8). `n0 = n - (n & 63)`, i.e. `n / 64` blocks. -/
def lfsrLengthImplClmul (seq : Words) (n : Nat) : Option Nat :=
  if n = 0 then some 0
  else
    match clBlocks (n / 64) 0
        { sb := seq, sc := seq, tb := List.replicate seq.length 0,
          tc := List.replicate seq.length 0, len := 0, size := seq.length } with
    | none => none
    | some st => clTail n st

/-! ### entry points -/

inductive Variant where
  | portable
  | clmul
  deriving DecidableEq, Repr

def lfsrLengthImpl : Variant → Words → Nat → Option Nat
  | .portable => lfsrLengthImplPortable
  | .clmul => lfsrLengthImplClmul

/-- `bool LfsrLength(const std::vector<uint8_t>& seq, int n, int* length)`:
outer `none` = undefined behaviour inside `LfsrLengthImpl`; `some none` = `return false`
(`n < 0 || (size_t)n > 8 * seq.size()`); `some (some l)` = `*length = l; return true`. -/
def lfsrLength (v : Variant) (seq : List UInt8) (n : Int) : Option (Option Nat) :=
  if n < 0 ∨ 8 * (seq.length : Int) < n then some none
  else (lfsrLengthImpl v (wordsOfBytes seq) n.toNat).map some

/-- `int LfsrLengthStr(const std::string& seq, int n)`: the length, or `-1`. -/
def lfsrLengthStr (v : Variant) (seq : List UInt8) (n : Int) : Option Int :=
  match lfsrLength v seq n with
  | none => none
  | some none => some (-1)
  | some (some l) => some (l : Int)

end Paranoid.BMCpp
