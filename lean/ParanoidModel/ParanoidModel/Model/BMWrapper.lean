/-
Model/BMWrapper.lean — the Python wrapper `berlekamp_massey.LinearComplexity` executed statement
by statement over the WORD-LEVEL C++ model of Model/BMCpp.lean: `int.to_bytes(size, "little")`,
the pybind11 `int` conversion and `LfsrLengthStr`.  No Mathlib (links into the native driver:
ops `bm.to_bytes`, `bm.wrapper_cpp`).  Theorems: Props/C14Wrapper.lean.
-/
import ParanoidModel.Model.BM
import ParanoidModel.Model.BMCpp
namespace Paranoid.BMCpp
open Paranoid

/-- the `k` little-endian bytes of `s mod 256^k` (`int.to_bytes(s, k, "little")` for
`0 ≤ s < 256^k`). -/
def bytesLE : Nat → Nat → List UInt8
  | 0, _ => []
  | k + 1, s => (s % 256).toUInt8 :: bytesLE k (s / 256)

/-! ### the Python wrapper composed with the C++ entry point -/

/-- `s.to_bytes(size, "little")` for `s ≥ 0`, `size ≥ 0`: OverflowError ("int too big to convert")
iff `s ≥ 256^size`. -/
def toBytesLE (size s : Nat) : Except PyErr (List UInt8) :=
  if 256 ^ size ≤ s then .error .overflow else .ok (bytesLE size s)

/-- `berlekamp_massey.LinearComplexity(s, length)` for `s ≥ 0`, statement by statement, with the
pybind11 function `LfsrLength` = C++ `LfsrLengthStr` replaced by the WORD-LEVEL model of variant
`v`:
```
  size = (length + 7) // 8
  if not 0 <= size < 2**31: raise ValueError("Size out of range")
  ba = s.to_bytes(size, "little")                  # OverflowError
  return berlekamp_massey.LfsrLength(ba, length)   # pybind11: TypeError unless length fits `int`
```
Inner `none` = undefined behaviour inside the C++ model (never, `C14Wrapper.wrapper_glue`). -/
def linearComplexityCpp (v : Variant) (s : Nat) (length : Int) : Except PyErr (Option Int) :=
  if lcSize length < 0 ∨ 2 ^ 31 ≤ lcSize length then .error .valueError
  else match toBytesLE (lcSize length).toNat s with
    | .error e => .error e
    | .ok ba =>
      if length < -(2 ^ 31) ∨ 2 ^ 31 ≤ length then .error .typeError
      else .ok (lfsrLengthStr v ba length)

/-- size limits under which the model's unbounded naturals ARE the C++ `int` / `size_t` values:
`n` is an `int` and `2 * lfsr_len` (with `lfsr_len ≤ n`) must not overflow: `n ≤ 2^30`;
`int size = seq.size()` (words) and `int j < sc.size() - 1`: fewer than `2^31` words
`(|seq| + 7) / 8`, i.e. `|seq| ≤ 2^34 - 8` bytes (`|seq| < 2^34` is NOT quite enough:
`2^34 - 7 … 2^34 - 1` bytes make `2^31` words). -/
def CppSizeOk (nbytes : Nat) (n : Int) : Prop :=
  (nbytes + 7) / 8 < 2 ^ 31 ∧ -(2 ^ 31) ≤ n ∧ n ≤ 2 ^ 30

instance (nbytes : Nat) (n : Int) : Decidable (CppSizeOk nbytes n) := by
  unfold CppSizeOk; infer_instance

end Paranoid.BMCpp
