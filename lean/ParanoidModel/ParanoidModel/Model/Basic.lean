/-
Model/Basic.lean — integer primitives the Python code takes from CPython `int` and gmpy2.
Each has a correspondence operation (`basic.*`) against the primitive it stands for.
No Mathlib.
-/
namespace Paranoid

/-- Exceptions the modelled Python code can raise. -/
inductive PyErr
  | indexError | zeroDivision | valueError | arithmeticError | keyError | overflow | typeError
  | insufficientData
  deriving DecidableEq, Repr

def PyErr.name : PyErr → String
  | .indexError => "IndexError" | .zeroDivision => "ZeroDivisionError"
  | .valueError => "ValueError" | .arithmeticError => "ArithmeticError"
  | .keyError => "KeyError" | .overflow => "OverflowError" | .typeError => "TypeError"
  | .insufficientData => "InsufficientDataError"

/-- Python `int.bit_length()` for non-negative ints. -/
def bitLength (n : Nat) : Nat := if n = 0 then 0 else n.log2 + 1

/-- `int.bit_length()` of a possibly negative int (`abs`). -/
def bitLengthI (i : Int) : Nat := bitLength i.natAbs

/-- `gmpy2.isqrt`. Core's `Nat.sqrt` is Newton's iteration and comes with
`Nat.sqrt_le`/`Nat.lt_succ_sqrt`. -/
def isqrt (n : Nat) : Nat := Nat.sqrt n

/-- `gmpy2.is_square` for non-negative argument. -/
def isSquare (n : Nat) : Bool := Nat.sqrt n * Nat.sqrt n == n

/-- `gmpy2.is_square` on a Python int (negative numbers are not squares). -/
def isSquareI (i : Int) : Bool :=
  match i with
  | .ofNat n => isSquare n
  | .negSucc _ => false

/-- `pow(b, e, m)` for `e ≥ 0`, `m ≥ 1` by square and multiply (lsb first). -/
def powModAux (m : Nat) : Nat → Nat → Nat → Nat → Nat
  | 0, _, _, acc => acc
  | fuel + 1, b, e, acc =>
    if e = 0 then acc
    else powModAux m fuel (b * b % m) (e / 2) (if e % 2 = 1 then acc * b % m else acc)

def powMod (b e m : Nat) : Nat := powModAux m (bitLength e) (b % m) e (1 % m)

/-- popcount. -/
def popcountAux : Nat → Nat → Nat → Nat
  | 0, _, acc => acc
  | fuel + 1, n, acc => if n = 0 then acc else popcountAux fuel (n / 2) (acc + n % 2)

def popcount (n : Nat) : Nat := popcountAux (bitLength n) n 0

/-- Extended Euclid on naturals: returns `(g, x)` with `a*x ≡ g (mod m)`. Used to model
`gmpy2.invert` / `pow(a, -1, m)`. -/
def egcdAux : Nat → Int → Int → Int → Int → Int × Int
  | 0, r0, _, s0, _ => (r0, s0)
  | fuel + 1, r0, r1, s0, s1 =>
    if r1 = 0 then (r0, s0)
    else
      let q := r0 / r1
      egcdAux fuel r1 (r0 - q * r1) s1 (s0 - q * s1)

/-- `gmpy2.invert(a, m)`: raises ZeroDivisionError when no inverse exists. `m ≥ 1`. -/
def invMod (a : Int) (m : Nat) : Except PyErr Nat :=
  if m = 0 then .error .zeroDivision else
  let a' := a % (m : Int)
  let (g, x) := egcdAux (2 * bitLength m + 2) a' m 1 0
  if g = 1 then .ok (x % (m : Int)).toNat
  else if m = 1 then .ok 0
  else .error .zeroDivision

/-- big-endian bytes → int (`int.from_bytes(b, 'big')`). -/
def bytes2int (b : List Nat) : Nat := b.foldl (fun acc x => acc * 256 + x) 0

/-- minimal big-endian bytes (`Int2Bytes`): `(bit_length+7)//8` bytes. -/
def int2bytesLen (n len : Nat) : List Nat :=
  (List.range len).map (fun i => (n / 256 ^ (len - 1 - i)) % 256)

def int2bytes (n : Nat) : List Nat := int2bytesLen n ((bitLength n + 7) / 8)

end Paranoid
