/-
Model/BatchGcd.lean — mirrors rsa_util.BatchGCD. No Mathlib.
-/
import ParanoidModel.Model.NTheory
namespace Paranoid

/-- one level of the remainder tree:
`remainders[i] = prev[i//2]` if `i + 1 == len(level) and i % 2 == 0` else `prev[i//2] % level[i]`.
Written pairwise: the two children at `2j, 2j+1` share `prev[j]`; a trailing single child sits at
an even index and is passed through. -/
def remStep : List Nat → List Nat → List Nat
  | a :: b :: vs, r :: rs => r % a :: r % b :: remStep vs rs
  | [_], r :: _ => [r]
  | _, _ => []

/-- walk the tree from the root level down (`prod_tree.pop()` until empty). `levels` is given
root first. -/
def remTree : List (List Nat) → List Nat → List Nat
  | [], prev => prev
  | level :: rest, prev => remTree rest (remStep level prev)

/-- `dict(zip(unique_values, remainders))[v]`. -/
def lookupGcd (v : Nat) : List (Nat × Nat) → Except PyErr Nat
  | [] => .error .keyError
  | (u, r) :: rest => if u = v then .ok (Nat.gcd u r) else lookupGcd v rest

/-- `BatchGCD(values, other_values_prod)`; `u` is the enumeration order of `set(values)`
(unspecified in Python — theorem `batchGCD_spec` shows the result does not depend on it).
`other = none` or `some 0` both skip the multiplication (Python truthiness). -/
def batchGCDWith (u values : List Nat) (other : Option Nat) : Except PyErr (List Nat) := do
  let (tree, t) ← extendedProductTree u
  let t := match other with
    | some o => if o ≠ 0 then t * o else t
    | none => t
  let rems := remTree tree.reverse [t]
  values.mapM (fun v => lookupGcd v (u.zip rems))

/-- the executable instance: first-occurrence order. -/
def batchGCD (values : List Nat) (other : Option Nat) : Except PyErr (List Nat) :=
  batchGCDWith values.eraseDups values other

end Paranoid
