/-
Model/BatchGcd.lean — mirrors rsa_util.BatchGCD and the per-batch step of
rsa_aggregate_checks.CheckGCD / CheckGCDN1. No Mathlib.

Variants (DESIGN section 6, defect D1): on the pinned tree `BatchGCD([])` raises `IndexError`
(from `ExtendedProductTree`'s `t[0]`).  `batchGCDPinnedWith` is the pinned code;
`batchGCDWith` is the code after `fixes/D1-batchgcd-empty.diff` (`if not values: return []`
as first statement).  The two agree on every non-empty batch by definition.
-/
import ParanoidModel.Model.NTheory
namespace Paranoid

/-- `r % a` on (gmpy2) ints with `r, a ≥ 0`: `ZeroDivisionError` for `a = 0`. -/
def pyModNat (r a : Nat) : Except PyErr Nat :=
  if a = 0 then .error .zeroDivision else .ok (r % a)

/-- one level of the remainder tree:
`remainders[i] = prev[i//2]` if `i + 1 == len(level) and i % 2 == 0` else `prev[i//2] % level[i]`.
Written pairwise: the two children at `2j, 2j+1` share `prev[j]`; a trailing single child sits at
an even index and is passed through. `prev[i//2]` beyond the end of `prev` is an `IndexError`
(unreachable from `BatchGCD`, theorem `remTree_inv`). -/
def remStep : List Nat → List Nat → Except PyErr (List Nat)
  | a :: b :: vs, r :: rs => do
      let x ← pyModNat r a
      let y ← pyModNat r b
      let rest ← remStep vs rs
      pure (x :: y :: rest)
  | [_], r :: _ => pure [r]
  | [], _ => pure []
  | _ :: _, [] => .error .indexError

/-- walk the tree from the root level down (`prod_tree.pop()` until empty). `levels` is given
root first. -/
def remTree : List (List Nat) → List Nat → Except PyErr (List Nat)
  | [], prev => pure prev
  | level :: rest, prev => do
      let r ← remStep level prev
      remTree rest r

/-- `dict(zip(unique_values, remainders))[v]` with `gmpy.gcd(v, r)` as stored value. The keys
come from a `set`, so they are pairwise distinct and first match = the dict's (last-wins) entry;
`zip` truncates, a missing key is a `KeyError`. -/
def lookupGcd (v : Nat) : List (Nat × Nat) → Except PyErr Nat
  | [] => .error .keyError
  | (u, r) :: rest => if u = v then .ok (Nat.gcd u r) else lookupGcd v rest

/-- `if other_values_prod: t *= other_values_prod` — `None` and `0` both skip the
multiplication (Python truthiness). -/
def scaleT (t : Nat) : Option Nat → Nat
  | some o => if o = 0 then t else t * o
  | none => t

/-- `[gcds_dict[v] for v in values]`. -/
def lookupAll (table : List (Nat × Nat)) : List Nat → Except PyErr (List Nat)
  | [] => pure []
  | v :: vs => do
      let g ← lookupGcd v table
      let gs ← lookupAll table vs
      pure (g :: gs)

/-- `BatchGCD(values, other_values_prod)` AS PINNED; `u` is the enumeration order of
`set(values)` (unspecified in Python — theorem `batchGCD_spec` shows the result does not depend
on it). -/
def batchGCDPinnedWith (u values : List Nat) (other : Option Nat) : Except PyErr (List Nat) := do
  let tt ← extendedProductTree u
  let rems ← remTree tt.1.reverse [scaleT tt.2 other]
  lookupAll (u.zip rems) values

/-- `BatchGCD` with the D1 repair: `if not values: return []` first. -/
def batchGCDWith (u values : List Nat) (other : Option Nat) : Except PyErr (List Nat) :=
  match values with
  | [] => .ok []
  | _ :: _ => batchGCDPinnedWith u values other

/-- the executable instances: first-occurrence order as enumeration of `set(values)`. -/
def batchGCD (values : List Nat) (other : Option Nat) : Except PyErr (List Nat) :=
  batchGCDWith values.eraseDups values other

def batchGCDPinned (values : List Nat) (other : Option Nat) : Except PyErr (List Nat) :=
  batchGCDPinnedWith values.eraseDups values other

/-! ### per-batch step of `CheckGCD` / `CheckGCDN1`
Result per key: `(test_result.result, factors handed to util.AttachFactors)`; the Boolean in
front is `any_weak`. -/

/-- body of the loop of `CheckGCD.Check` for one key: `n` modulus, `g = gcds[i]`. -/
def checkGCDKey (n g : Nat) : Bool × List Nat :=
  if g = 1 then (false, []) else (true, [g, n / g])

/-- the search for a proper factor when the batch gcd equals the modulus (`fix:` D2):
`for other in vals: h = gcd(n, other); if 1 < h < n: …; break`. -/
def properFromOthers (n : Nat) : List Nat → Option Nat
  | [] => none
  | m :: rest =>
    if 1 < Nat.gcd n m ∧ Nat.gcd n m < n then some (Nat.gcd n m) else properFromOthers n rest

/-- the extra pair recorded when the batch gcd is the modulus itself (`fix:` D2). -/
def extraSplit (ns : List Nat) (n g : Nat) : List Nat :=
  if g = n then
    match properFromOthers n ns with
    | some h => [h, n / h]
    | none => []
  else []

/-- body of the loop of `CheckGCD.Check` for one key after the D2 repair. -/
def checkGCDKeyR (ns : List Nat) (n g : Nat) : Bool × List Nat :=
  if g = 1 then (false, []) else (true, [g, n / g] ++ extraSplit ns n g)

/-- `CheckGCD.Check` on the moduli `ns` (in artifact order); `bg` is the `BatchGCD` in use
(repaired or pinned). -/
def checkGCDV (bg : List Nat → Option Nat → Except PyErr (List Nat)) (ns : List Nat) :
    Except PyErr (Bool × List (Bool × List Nat)) := do
  let gcds ← bg ns none
  let per := List.zipWith (checkGCDKeyR ns) ns gcds
  pure (per.any (·.1), per)

def checkGCD (ns : List Nat) := checkGCDV batchGCD ns
def checkGCDPinned (ns : List Nat) := checkGCDV batchGCDPinned ns

/-- body of the loop of `CheckGCDN1.Check` for one key. -/
def checkGCDN1Key (bound g : Nat) : Bool × List Nat :=
  if bound ≤ g then (true, [g]) else (false, [])

/-- `CheckGCDN1(gcd_bound).Check` on the moduli `ns`, each `≥ 1` (`n - 1` is a `Nat`; the
driver refuses `n = 0`, for which Python computes with `-1`). -/
def checkGCDN1V (bg : List Nat → Option Nat → Except PyErr (List Nat)) (bound : Nat)
    (ns : List Nat) : Except PyErr (Bool × List (Bool × List Nat)) := do
  let gcds ← bg (ns.map (· - 1)) none
  let per := gcds.map (checkGCDN1Key bound)
  pure (per.any (·.1), per)

def checkGCDN1 (bound : Nat) (ns : List Nat) := checkGCDN1V batchGCD bound ns
def checkGCDN1Pinned (bound : Nat) (ns : List Nat) := checkGCDN1V batchGCDPinned bound ns

end Paranoid
