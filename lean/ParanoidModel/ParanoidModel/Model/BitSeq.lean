/-
Model/BitSeq.lean — mirrors the bit-sequence primitives of
paranoid_crypto/lib/randomness_tests/util.py (BitCount, ReverseBits, Bits, SubSequences,
FrequencyCount, SplitSequence, Scatter, Runs, LongestRunOfOnes, OverlappingRunsOfOnes,
BinaryMatrixRank and its two private helpers).  No Mathlib.

Conventions of the code that are mirrored here:
* a bit string is a Python int `seq` plus a `length`; bit `i` is `(seq >> i) & 1`, bit 0 is the
  *first* bit (SplitSequence "starts with the least significant bits").
* `seq.to_bytes(k, "little")` is the byte function `byteAt seq j = (seq >>> 8j) % 256`, `j < k`,
  and raises `OverflowError` when `seq` does not fit into `k` bytes;
  `int.from_bytes(ba[a:b], "little")` is `bytesSlice seq a b = (seq >>> 8a) % 2^(8(b-a))`.
* nothing masks `seq` to `length` bits unless the code does: values longer than the declared
  length are part of the input space and take the same path here as in Python.
* where the code chooses an algorithm by size the model takes the same branch on the same
  condition and exposes both paths (`…Slow` / `…Fast`, `rankSmall` / `rankLarge`).
-/
import ParanoidModel.Model.Basic
namespace Paranoid.BitSeq
open Paranoid

/-! ### BitCount -/

/-- `for chunk in 64-bit limbs: acc += popcount(chunk)`; `gmpy2.popcount` works limb-wise. -/
def bitCountAux : Nat → Nat → Nat → Nat
  | 0, _, acc => acc
  | f + 1, s, acc => bitCountAux f (s >>> 64) (acc + popcount (s % 2 ^ 64))

/-- `BitCount(s)` = `gmpy2.popcount(s)` for `s ≥ 0`. -/
def bitCount (s : Nat) : Nat := bitCountAux ((bitLength s + 63) / 64) s 0

/-! ### byte views of an int -/

/-- `seq.to_bytes(k, "little")[j]`. -/
def byteAt (seq j : Nat) : Nat := (seq >>> (8 * j)) % 256

/-- `int.from_bytes(seq.to_bytes(k, "little")[a:b], "little")` (for `k` large enough to hold `seq`;
slices that run past `k` only lose zero bytes). -/
def bytesSlice (seq a b : Nat) : Nat := (seq >>> (8 * a)) % 2 ^ (8 * (b - a))

/-! ### ReverseBits -/

/-- entry `j` of the table `_ReversedBytes()`:
`res[j] = (res[j >> 1] >> 1) ^ ((j & 1) << 7)`, `res[0] = 0` (the recurrence unrolled; eight levels
suffice for `j < 256`). -/
def revByteAux : Nat → Nat → Nat
  | 0, _ => 0
  | f + 1, j => if j = 0 then 0 else (revByteAux f (j >>> 1) >>> 1) ^^^ ((j &&& 1) <<< 7)

def revByte (j : Nat) : Nat := revByteAux 8 j

/-- `int.from_bytes(seq.to_bytes(nb,"little").translate(_REVERSE_BITS), "big")`. -/
def revBytesBE (seq nb : Nat) : Nat :=
  (List.range nb).foldl (fun acc k => acc * 256 + revByte (byteAt seq k)) 0

/-- `ReverseBits(seq, length)`. `to_bytes` raises OverflowError when `seq` needs more than
`(length+7)//8` bytes. `-length % 8` is `(8 - length % 8) % 8`. -/
def reverseBits (seq length : Nat) : Except PyErr Nat :=
  if bitLength seq > 8 * ((length + 7) / 8) then .error .overflow
  else .ok (revBytesBE seq ((length + 7) / 8) >>> ((8 - length % 8) % 8))

/-! ### Bits -/

/-- `format(seq, "b")` as a list of bits, most significant first (`"0"` for zero). -/
def binDigits (seq : Nat) : List Bool :=
  (List.range (max 1 (bitLength seq))).map (fun k => seq.testBit (max 1 (bitLength seq) - 1 - k))

/-- `Bits(seq, length)` on the pinned tree: `[-1] * (length - len(b))` (empty for a negative
count) followed by the translated digits, then reversed. `Bits(0, 0) = [-1]` (defect D15). -/
def bitsPinned (seq length : Nat) : List Int :=
  (List.replicate (length - (binDigits seq).length) (-1 : Int) ++
    (binDigits seq).map (fun b => if b then (1 : Int) else -1)).reverse

/-- `Bits(seq, length)` with fixes/D15-bits-empty.diff applied: the empty bit string expands to
the empty array. -/
def bits (seq length : Nat) : List Int :=
  if length = 0 then [] else bitsPinned seq length

/-! ### SubSequences -/

/-- loop body: `if i & 7 == 0: s ^= ba[i // 8] << m` then `s >>= 1`. -/
def subSeqStep (seq m s i : Nat) : Nat :=
  (if i % 8 = 0 then s ^^^ (byteAt seq (i / 8) <<< m) else s) >>> 1

/-- `for i in range(i, i + fuel): …; yield s & mask` (yields collected in `acc`). -/
def subSeqLoop (seq m mask : Nat) : Nat → Nat → Nat → Array Nat → Array Nat
  | 0, _, _, acc => acc
  | f + 1, i, s, acc =>
    subSeqLoop seq m mask f (i + 1) (subSeqStep seq m s i) (acc.push (subSeqStep seq m s i &&& mask))

/-- `list(SubSequences(seq, length, m, wrap))`, in the order the generator yields. -/
def subSequences (seq length m : Nat) (wrap : Bool) : Except PyErr (List Nat) :=
  if m = 0 then .error .valueError
  else if bitLength seq > length then .error .valueError
  else if m > length then .error .valueError
  else if wrap then
    .ok (subSeqLoop seq m (2 ^ m - 1) length 0 ((seq >>> (length - m)) &&& (2 ^ m - 1)) #[]).toList
  else
    .ok (subSeqLoop seq m (2 ^ m - 1) (length - m) m (bytesSlice seq 0 ((m + 7) / 8))
          #[bytesSlice seq 0 ((m + 7) / 8) &&& (2 ^ m - 1)]).toList

/-! ### FrequencyCount -/

/-- `res[i] += 1` (index always in range: `i = x & mask < 2^m = len(res)`). -/
def incr (res : Array Int) (i : Nat) : Array Int := res.modify i (· + 1)
/-- `res[i] += v`. -/
def addAt (res : Array Int) (i : Nat) (v : Int) : Array Int := res.modify i (· + v)

/-- `for _ in range(c): res[s & mask] += 1; s >>= 1`.
The eight unrolled statements `res[(s >> k) & mask] += 1`, `k = 0..7`, are `countBits mask 8`. -/
def countBits (mask : Nat) : Nat → Nat → Array Int → Array Int
  | 0, _, res => res
  | c + 1, s, res => countBits mask c (s >>> 1) (incr res (s &&& mask))

/-- slow path, `for j in range(j, j + fuel)`: returns the final `(s, res)`. -/
def fcSlowLoop (seq m mask : Nat) : Nat → Nat → Nat → Array Int → Nat × Array Int
  | 0, _, s, res => (s, res)
  | f + 1, j, s, res =>
    fcSlowLoop seq m mask f (j + 1) ((s ^^^ (byteAt seq j <<< m)) >>> 8)
      (countBits mask 8 (s ^^^ (byteAt seq j <<< m)) res)

/-- `if length % 8 != 0: s ^= ba[-1] << m; for j in range(length % 8): …` (both paths; `w` is `m`
resp. `m3`). `ba[-1]` is byte `(length+7)//8 - 1`. -/
def fcTail (seq length w mask : Nat) (st : Nat × Array Int) : Array Int :=
  if length % 8 ≠ 0 then
    countBits mask (length % 8) (st.1 ^^^ (byteAt seq ((length + 7) / 8 - 1) <<< w)) st.2
  else st.2

/-- the `else` branch of `FrequencyCount` (counts with wrap-around). -/
def fcSlowCore (seq length m : Nat) : Array Int :=
  fcTail seq length m (2 ^ m - 1)
    (fcSlowLoop seq m (2 ^ m - 1) (length / 8) 0 (seq >>> (length - m)) (Array.replicate (2 ^ m) 0))

/-- fast path, first loop: `s ^= ba[j] << m3; count[s & mask3] += 1; count[(s >> 4) & mask3] += 1;
s >>= 8`. -/
def fcFastLoop (seq m3 mask3 : Nat) : Nat → Nat → Nat → Array Int → Nat × Array Int
  | 0, _, s, count => (s, count)
  | f + 1, j, s, count =>
    fcFastLoop seq m3 mask3 f (j + 1) ((s ^^^ (byteAt seq j <<< m3)) >>> 8)
      (incr (incr count ((s ^^^ (byteAt seq j <<< m3)) &&& mask3))
        (((s ^^^ (byteAt seq j <<< m3)) >>> 4) &&& mask3))

/-- one iteration of `for i, v in enumerate(count)`: four `res[(i >> k) & mask] += v`. -/
def fcSpread (mask : Nat) (res : Array Int) (iv : Int × Nat) : Array Int :=
  addAt (addAt (addAt (addAt res (iv.2 &&& mask) iv.1) ((iv.2 >>> 1) &&& mask) iv.1)
    ((iv.2 >>> 2) &&& mask) iv.1) ((iv.2 >>> 3) &&& mask) iv.1

/-- `for i, v in enumerate(count): …` — folds the `m+3`-bit tallies into the `m`-bit tallies. -/
def fcSpreadAll (m : Nat) (st : Nat × Array Int) : Nat × Array Int :=
  (st.1, (st.2.toList.zipIdx).foldl (fcSpread (2 ^ m - 1)) (Array.replicate (2 ^ m) 0))

/-- the `if 50 * 2**m < length and m < 24` branch of `FrequencyCount`. In Python
`seq >> (length - m3)` raises ValueError for `length < m + 3`; the branch is only entered with
`length > 50 * 2^m ≥ m + 3`, the standalone function reports the error. -/
def fcFastCore (seq length m : Nat) : Except PyErr (Array Int) :=
  if length < m + 3 then .error .valueError
  else .ok (fcTail seq length (m + 3) (2 ^ m - 1)
    (fcSpreadAll m
      (fcFastLoop seq (m + 3) (2 ^ (m + 3) - 1) (length / 8) 0 (seq >>> (length - (m + 3)))
        (Array.replicate (2 ^ (m + 3)) 0))))

/-- `if not wrap: w = …; for i in range(1, m): res[(w >> i) & mask] -= 1`. -/
def fcUnwrap (seq length m : Nat) (res : Array Int) : Array Int :=
  (List.range (m - 1)).foldl
    (fun res i => addAt res
      ((((seq >>> (length - m)) ||| ((seq &&& (2 ^ m - 1)) <<< m)) >>> (i + 1)) &&& (2 ^ m - 1)) (-1))
    res

/-- the checks in front of both paths: `m > length` → ValueError, `to_bytes` → OverflowError. -/
def fcGuard (seq length m : Nat) : Option PyErr :=
  if m > length then some .valueError
  else if bitLength seq > 8 * ((length + 7) / 8) then some .overflow
  else none

def fcFinish (seq length m : Nat) (wrap : Bool) (res : Array Int) : List Int :=
  (if wrap then res else fcUnwrap seq length m res).toList

/-- `FrequencyCount` forced onto its `else` (slow) branch. -/
def frequencyCountSlow (seq length m : Nat) (wrap : Bool) : Except PyErr (List Int) :=
  match fcGuard seq length m with
  | some e => .error e
  | none => .ok (fcFinish seq length m wrap (fcSlowCore seq length m))

/-- `FrequencyCount` forced onto its fast branch. -/
def frequencyCountFast (seq length m : Nat) (wrap : Bool) : Except PyErr (List Int) :=
  match fcGuard seq length m with
  | some e => .error e
  | none => (fcFastCore seq length m).map (fcFinish seq length m wrap)

/-- the branch condition of `FrequencyCount`: `50 * 2**m < length and m < 24`. -/
def fcUseFast (length m : Nat) : Bool := decide (50 * 2 ^ m < length ∧ m < 24)

/-- `FrequencyCount(seq, length, m, wrap)`. -/
def frequencyCount (seq length m : Nat) (wrap : Bool) : Except PyErr (List Int) :=
  if fcUseFast length m then frequencyCountFast seq length m wrap
  else frequencyCountSlow seq length m wrap

/-! ### SplitSequence -/

/-- byte-aligned path: `int.from_bytes(ba[i*m//8 : (i+1)*m//8], "little")`. -/
def splitFast (seq n m : Nat) : List Nat :=
  (List.range n).map (fun i => bytesSlice seq (i * m / 8) ((i + 1) * m / 8))

/-- general path: `val = from_bytes(ba[i*m//8 : (i+1)*m//8 + 1]); val >>= (i*m) & 7; val & mask`. -/
def splitSlow (seq n m : Nat) : List Nat :=
  (List.range n).map (fun i =>
    (bytesSlice seq (i * m / 8) ((i + 1) * m / 8 + 1) >>> ((i * m) % 8)) &&& (2 ^ m - 1))

/-- `SplitSequence(seq, length, m)`; `length // 0` raises ZeroDivisionError. -/
def splitSequence (seq length m : Nat) : Except PyErr (List Nat) :=
  if m = 0 then .error .zeroDivision
  else if m % 8 = 0 then .ok (splitFast seq (length / m) m)
  else .ok (splitSlow seq (length / m) m)

/-! ### Scatter -/

/-- `(offset - i) % m` with `offset = (len(bits) - 1) % m`, `0 ≤ i < m` (Python's non-negative `%`). -/
def scatterStart (L m i : Nat) : Nat := ((L - 1) % m + m - i) % m

/-- `int(bits[start::m], 2)`: Horner over the characters `start, start+m, …` of the `L`-character
binary string (character `k` is bit `L-1-k`). -/
def scatterCol (seq m L i : Nat) : Nat :=
  (List.range ((L - scatterStart L m i + m - 1) / m)).foldl
    (fun acc t => 2 * acc + (seq.testBit (L - 1 - (scatterStart L m i + m * t))).toNat) 0

/-- `Scatter(seq, m)`; `m = 0` reaches `(len(bits) - 1) % 0` → ZeroDivisionError. -/
def scatter (seq m : Nat) : Except PyErr (List Nat) :=
  if bitLength seq < m then .ok ((List.range m).map (fun i => (seq >>> i) &&& 1))
  else if m = 0 then .error .zeroDivision
  else .ok ((List.range m).map (fun i => scatterCol seq m (bitLength seq) i))

/-! ### Runs -/

/-- `Runs(s, length)`. -/
def runs (s length : Nat) : Nat :=
  bitCount (s ^^^ (s >>> 1)) + (if length ≠ 0 ∧ s >>> (length - 1) = 0 then 1 else 0)

/-! ### LongestRunOfOnes -/

/-- first loop: `while True: s2 = s & (s >> lr); if s2 == 0: break; s = s2; lr *= 2`. -/
def lrDouble : Nat → Nat → Nat → Nat × Nat
  | 0, s, lr => (s, lr)
  | f + 1, s, lr =>
    if s &&& (s >>> lr) = 0 then (s, lr) else lrDouble f (s &&& (s >>> lr)) (lr * 2)

/-- second loop: `while n: s2 = s & (s >> n); if s2: s = s2; lr += n; n //= 2`. -/
def lrRefine : Nat → Nat → Nat → Nat → Nat
  | 0, _, lr, _ => lr
  | f + 1, s, lr, n =>
    if n = 0 then lr
    else if s &&& (s >>> n) ≠ 0 then lrRefine f (s &&& (s >>> n)) (lr + n) (n / 2)
    else lrRefine f s lr (n / 2)

/-- `LongestRunOfOnes(seq)`. Fuel: the doubling loop stops before `lr` exceeds the bit length,
the refinement loop halves `n`. -/
def longestRunOfOnes (seq : Nat) : Nat :=
  if seq = 0 then 0
  else lrRefine (bitLength seq + 1) (lrDouble (bitLength seq + 1) seq 1).1
      (lrDouble (bitLength seq + 1) seq 1).2 ((lrDouble (bitLength seq + 1) seq 1).2 / 2)

/-! ### OverlappingRunsOfOnes -/

/-- `while m: t = min(k, m); seq &= seq >> t; m -= t; k *= 2`. -/
def orLoop : Nat → Nat → Nat → Nat → Nat
  | 0, seq, _, _ => seq
  | f + 1, seq, m, k =>
    if m = 0 then seq else orLoop f (seq &&& (seq >>> min k m)) (m - min k m) (k * 2)

/-- `OverlappingRunsOfOnes(seq, m)`; `m = 0` gives `m = -1`, `t = -1` and a negative shift count
(ValueError). Fuel `m`: `m` strictly decreases. -/
def overlappingRunsOfOnes (seq m : Nat) : Except PyErr Nat :=
  if m = 0 then .error .valueError else .ok (bitCount (orLoop m seq (m - 1) 1))

/-! ### BinaryMatrixRank -/

/-- `if m[j] & msb: m[j] ^= m[i]`. -/
def elimRow (msb r x : Nat) : Nat := if x &&& msb ≠ 0 then x ^^^ r else x

/-- `_BinaryMatrixRankSmall` on the not yet visited rows `m[i:]` (fuel = their number). -/
def rankSmallAux : Nat → List Nat → Nat → Nat
  | 0, _, rank => rank
  | _ + 1, [], rank => rank
  | f + 1, r :: rest, rank =>
    if r = 0 then rankSmallAux f rest rank
    else rankSmallAux f (rest.map (elimRow (1 <<< (bitLength r - 1)) r)) (rank + 1)

/-- `_BinaryMatrixRankSmall(matrix)`. -/
def rankSmall (matrix : List Nat) : Nat := rankSmallAux matrix.length matrix 0

/-- the choice of `step` in `_BinaryMatrixRankLarge`. -/
def rankStep (rows : Nat) : Nat :=
  if rows < 32 then max 1 (bitLength rows - 2)
  else if rows < 256 then bitLength rows - 3
  else if rows < 8192 then bitLength rows - 4
  else bitLength rows - 5

/-- state of one elimination round. -/
structure RankSt where
  m : Array Nat
  rank : Nat
  mask : Nat
  tab : Array (Option Nat)

/-- `tab[idx]` as an int operand: IndexError when out of range, TypeError when `None`. -/
def tabGet (tab : Array (Option Nat)) (idx : Nat) : Except PyErr Nat :=
  match tab[idx]? with
  | none => .error .indexError
  | some none => .error .typeError
  | some (some v) => .ok v

/-- `tab[idx] = v` (IndexError when out of range). -/
def tabSet (tab : Array (Option Nat)) (idx v : Nat) : Except PyErr (Array (Option Nat)) :=
  if idx < tab.size then .ok (tab.setIfInBounds idx (some v)) else .error .indexError

/-- `while t: a = tab[t]; b = a ^ row_i; tab[(a >> c_lower) & new_mask] = a;
tab[(b >> c_lower) & new_mask] = b; t = (t - 1) & mask`. Fuel exhausted (cannot happen: `t`
decreases) is reported as an error, not silently accepted. -/
def rankSubsets (cLower mask newMask rowI : Nat) :
    Nat → Nat → Array (Option Nat) → Except PyErr (Array (Option Nat))
  | 0, t, tab => if t = 0 then .ok tab else .error .overflow
  | f + 1, t, tab =>
    if t = 0 then .ok tab
    else do
      let a ← tabGet tab t
      let tab1 ← tabSet tab ((a >>> cLower) &&& newMask) a
      let tab2 ← tabSet tab1 (((a ^^^ rowI) >>> cLower) &&& newMask) (a ^^^ rowI)
      rankSubsets cLower mask newMask rowI f ((t - 1) &&& mask) tab2

/-- the `if msbs:` block: swap into position `rank`, extend the table by the new pivot. -/
def rankPivot (cLower i rowI : Nat) (st : RankSt) : Except PyErr RankSt :=
  match st.m[st.rank]? with
  | none => .error .indexError
  | some mr => do
    let bit := 1 <<< (bitLength (rowI >>> cLower) - 1)
    let tab1 ← tabSet st.tab bit rowI
    let tab2 ← rankSubsets cLower st.mask (st.mask ^^^ bit) rowI (st.mask + 1) st.mask tab1
    pure { m := if i ≠ st.rank then (st.m.setIfInBounds i mr).setIfInBounds st.rank rowI else st.m
           rank := st.rank + 1, mask := st.mask ^^^ bit, tab := tab2 }

/-- body of `for i in range(rank, rows)`. -/
def rankRow (cLower i : Nat) (st : RankSt) : Except PyErr RankSt :=
  match st.m[i]? with
  | none => .error .indexError
  | some mi => do
    let t ← tabGet st.tab ((mi >>> cLower) &&& st.mask)
    if (mi ^^^ t) >>> cLower ≠ 0 then
      rankPivot cLower i (mi ^^^ t) { st with m := st.m.setIfInBounds i (mi ^^^ t) }
    else pure { st with m := st.m.setIfInBounds i (mi ^^^ t) }

/-- `for i in range(i, i + fuel)`. -/
def rankRows (cLower : Nat) : Nat → Nat → RankSt → Except PyErr RankSt
  | 0, _, st => .ok st
  | f + 1, i, st => do
    let st' ← rankRow cLower i st
    rankRows cLower f (i + 1) st'

/-- `while c_upper > 0:` one round eliminates columns `c_lower .. c_upper-1`. Fuel = number of
columns (each round removes at least one). -/
def rankRounds (rows step : Nat) : Nat → Nat → Array Nat → Nat → Except PyErr Nat
  | 0, cUpper, _, rank => if cUpper = 0 then .ok rank else .error .overflow
  | f + 1, cUpper, m, rank =>
    if cUpper = 0 then .ok rank
    else do
      let st ← rankRows (cUpper - min cUpper step) (rows - rank) rank
        { m := m, rank := rank, mask := 0,
          tab := (Array.replicate (2 ^ min cUpper step) none).setIfInBounds 0 (some 0) }
      rankRounds rows step f (cUpper - min cUpper step) st.m st.rank

/-- `max(r.bit_length() for r in m)`. -/
def maxBitLength (m : List Nat) : Nat := m.foldl (fun acc r => max acc (bitLength r)) 0

/-- `_BinaryMatrixRankLarge(matrix)`. -/
def rankLarge (matrix : List Nat) : Except PyErr Nat :=
  if matrix.isEmpty then .ok 0
  else rankRounds matrix.length (rankStep matrix.length) (maxBitLength matrix) (maxBitLength matrix)
    matrix.toArray 0

/-- `BinaryMatrixRank(matrix)`: negative rows → ValueError; fewer than 50 rows → small. -/
def binaryMatrixRank (matrix : List Int) : Except PyErr Nat :=
  if matrix.any (· < 0) then .error .valueError
  else if matrix.length < 50 then .ok (rankSmall (matrix.map Int.toNat))
  else rankLarge (matrix.map Int.toNat)

end Paranoid.BitSeq
