/-
Model/Bookkeeping.lean — the verdict bookkeeping of paranoid_crypto/lib/util.py on a
`paranoid_pb2.TestInfo` protobuf: GetHighestSeverity, GetTestResult, SetTestResult,
GetAttachedInfo, AttachInfo, GetAttachedFactors, AttachFactors.  No Mathlib.

Reading of the Python that is mirrored here (each point was checked at the REPL through the
protobuf shim):
* a protobuf message object is always truthy, so `if old_test_result:` / `if attached_info:` /
  `if old_attached_info:` mean `is not None`;
* `GetTestResult` / `GetAttachedInfo` return the FIRST entry with the name;
* `test_results.append(msg)` copies the message (no aliasing between artefacts);
* `if not test_info.paranoid_lib_version` is "the string is empty" (proto3 default);
* `AttachFactors` stores `str({format(int(f),'x') for f in factors})` and `GetAttachedFactors`
  reads it back with `{int(h,16) for h in ast.literal_eval(value)}`.  The model keeps the SET
  (strictly increasing `List Int`; Python accepts negative ints: `format(-5,'x') = '-5'`).
  A stored string on which that read-back expression raises is the `raw` case; on a string on
  which it succeeds (whoever wrote it) the value IS the set it evaluates to — the harness
  canonicaliser applies exactly that expression.  `if old_set:` is "non-empty".
  Which exception class the read-back raises on a `raw` string (ValueError, SyntaxError,
  TypeError, … depending on the string) is not modelled: it is reported as `valueError` and the
  harness maps every exception of that expression to `ValueError`.
-/
import ParanoidModel.Model.Basic
namespace Paranoid

/-- `paranoid_pb2.TestResultsEntry`. -/
structure Entry where
  name : String
  result : Bool
  severity : Nat
  deriving DecidableEq, Repr

/-- `AttachedInfoEntry.value`: a factor set (as `GetAttachedFactors` would read it) or a string
on which `GetAttachedFactors` raises. -/
inductive AttachedValue
  | factors (s : List Int)
  | raw (s : String)
  deriving DecidableEq, Repr

/-- `paranoid_pb2.TestInfo`. -/
structure TestInfo where
  weak : Bool
  results : List Entry
  attached : List (String × AttachedValue)
  version : String
  deriving DecidableEq, Repr

/-- a freshly constructed `TestInfo()` (proto3 defaults). -/
def TestInfo.empty : TestInfo := ⟨false, [], [], ""⟩

/-! ### sets of integers as strictly increasing lists -/

/-- `s | {x}` -/
def insertS (x : Int) : List Int → List Int
  | [] => [x]
  | y :: ys => if x < y then x :: y :: ys else if x = y then y :: ys else y :: insertS x ys

/-- `set(a).union(b)` with `b` already a set. -/
def unionS (a b : List Int) : List Int := a.foldr insertS b

/-- `set(a)` -/
def toSetS (a : List Int) : List Int := unionS a []

/-! ### util.py -/

/-- one step of the loop of `GetHighestSeverity`; `none` stands for the initial `-1`. -/
def highestStep (h : Option Nat) (e : Entry) : Option Nat :=
  if e.result then
    match h with
    | none => some e.severity
    | some s => if e.severity > s then some e.severity else some s
  else h

/-- `GetHighestSeverity`. -/
def getHighestSeverity (ti : TestInfo) : Option Nat := ti.results.foldl highestStep none

/-- `GetTestResult`: the first entry with that name. -/
def getTestResult (ti : TestInfo) (name : String) : Option Entry :=
  ti.results.find? (fun e => e.name = name)

/-- the update branch of `SetTestResult` applied to the first entry with the name. -/
def updateFirst (e : Entry) : List Entry → List Entry
  | [] => []
  | x :: xs =>
    if x.name = e.name then
      { name := x.name, result := x.result || e.result, severity := max x.severity e.severity } :: xs
    else x :: updateFirst e xs

/-- `SetTestResult` (`libVersion` is `version.__version__`). -/
def setTestResult (libVersion : String) (ti : TestInfo) (e : Entry) : TestInfo :=
  { weak := ti.weak || e.result
    results := match getTestResult ti e.name with
      | some _ => updateFirst e ti.results
      | none => ti.results ++ [e]
    attached := ti.attached
    version := if ti.version = "" then libVersion else ti.version }

/-- `GetAttachedInfo`: the first attached entry with that name. -/
def getAttachedInfo (ti : TestInfo) (name : String) : Option AttachedValue :=
  (ti.attached.find? (fun p => p.1 = name)).map (·.2)

def updateFirstInfo (name : String) (v : AttachedValue) :
    List (String × AttachedValue) → List (String × AttachedValue)
  | [] => []
  | x :: xs => if x.1 = name then (x.1, v) :: xs else x :: updateFirstInfo name v xs

/-- `AttachInfo`. -/
def attachInfo (ti : TestInfo) (name : String) (v : AttachedValue) : TestInfo :=
  { weak := ti.weak
    results := ti.results
    attached := match getAttachedInfo ti name with
      | some _ => updateFirstInfo name v ti.attached
      | none => ti.attached ++ [(name, v)]
    version := ti.version }

/-- `GetAttachedFactors`: `None`, the set, or the exception of the read-back expression. -/
def getAttachedFactors (ti : TestInfo) (name : String) : Except PyErr (Option (List Int)) :=
  match getAttachedInfo ti name with
  | none => .ok none
  | some (.factors s) => .ok (some s)
  | some (.raw _) => .error .valueError

/-- the set `AttachFactors` stores, given what `GetAttachedFactors` returned. -/
def mergeFactors (fs : List Int) (old : Option (List Int)) : List Int :=
  match old with
  | none => toSetS fs
  | some o => if o = [] then toSetS fs else unionS fs o

/-- `AttachFactors`. -/
def attachFactors (ti : TestInfo) (name : String) (fs : List Int) : Except PyErr TestInfo :=
  match getAttachedFactors ti name with
  | .error e => .error e
  | .ok old => .ok (attachInfo ti name (.factors (mergeFactors fs old)))

/-! ### histories of operations -/

/-- one call of a mutating util function on a `TestInfo`. -/
inductive Op
  | setTestResult (e : Entry)
  | attachInfo (name : String) (v : AttachedValue)
  | attachFactors (name : String) (fs : List Int)
  deriving DecidableEq, Repr

def applyOp (libVersion : String) (ti : TestInfo) : Op → Except PyErr TestInfo
  | .setTestResult e => .ok (setTestResult libVersion ti e)
  | .attachInfo k v => .ok (attachInfo ti k v)
  | .attachFactors k fs => attachFactors ti k fs

/-- a caller that keeps going after an exception (the raising call mutates nothing). -/
def stepSkip (libVersion : String) (ti : TestInfo) (op : Op) : TestInfo :=
  match applyOp libVersion ti op with
  | .ok t => t
  | .error _ => ti

def runOps (libVersion : String) (ti : TestInfo) (ops : List Op) : TestInfo :=
  ops.foldl (stepSkip libVersion) ti

/-- a caller that propagates the first exception (what a `Check` method does). -/
def applyOps (libVersion : String) : TestInfo → List Op → Except PyErr TestInfo
  | ti, [] => .ok ti
  | ti, op :: ops =>
    match applyOp libVersion ti op with
    | .ok t => applyOps libVersion t ops
    | .error e => .error e

end Paranoid
