/-
Model/Bsgs.lean — mirrors the discrete-log searches of `paranoid_crypto/lib/ec_util.py`
(`EcCurve.BatchDL`, `ExtendedBatchDL`, `BatchDLOfDifferences`, with the mutable attributes
`_table` / `_table_size` as explicit state) and the `Check` methods of `ec_single_checks.py`
(CheckValidECKey, CheckWeakCurve, CheckWeakECPrivateKey) and `ec_aggregate_checks.py`
(CheckECKeySmallDifference). No Mathlib.

Conventions
* State. `self._table_size`, `self._table` → `StateG τ = {tableSize, table}`; a method is
  `state → args → Except PyErr (result × state)`. When a call raises, the state it leaves behind
  is not reported (Props/C10 shows that no call raises on a valid curve with on-curve points).
* The dict `_table` is only written by `PointTable` (`res[x] = im + j`) and read by `x in table` /
  `table[x]`. The model is generic in the implementation `I : TableImpl τ` of these three
  operations: `listImpl` (association list `Ec.XTable`, the one the theorems are about) and
  `hashImpl` (`Std.HashMap`, used by the native driver because `ExtendedBatchDL` builds tables of
  2^16 … 2^19 entries). Proofs/BsgsFast.lean proves that both give the same answers.
* Float oracles: `table_size = int(math.sqrt(n * len(points)))` (BatchDL) and
  `m = int(math.sqrt(n))` (PointTable) are explicit arguments `ts`, `m`. `m` is only used when the
  table is rebuilt.
* Domain: bound `n ≥ 0`, `max_diff ≥ 0` (`Nat`): `math.sqrt` raises ValueError on negative
  arguments before anything else happens; the checks pass `2**32` and `self._max_diff`.
  Points are `Ec.Pt` (`INFINITY` or a pair of ints), as everywhere in Model/Ec.lean.
* `2**32` in `ExtendedBatchDL` is the parameter `bound` of `extendedBatchDLB`;
  `extendedBatchDLG` instantiates it with `2^32`.
* Relation strings `"key - (%x, %x) = %d * G" % (q[0], q[1], dl)` are the structured value
  `Rel = (qx, qy, dl)`; formatting INFINITY (`"%x" % None`) raises TypeError.
-/
import Std.Data.HashMap
import ParanoidModel.Model.Ec
namespace Paranoid.Bsgs
open Paranoid Paranoid.Ec

/-! ### the dict `_table` -/

/-- the three dict operations the code uses. -/
structure TableImpl (τ : Type) where
  /-- `{}` -/
  empty : τ
  /-- `d[k] = v` -/
  set : τ → Option Int → Nat → τ
  /-- `d.get(k)` (`k in d` / `d[k]`) -/
  get? : τ → Option Int → Option Nat

/-- association list in insertion order (Model/Ec.lean `XTable`). -/
def listImpl : TableImpl XTable := ⟨[], XTable.set, XTable.get?⟩

/-- hash map (native driver). -/
def hashImpl : TableImpl (Std.HashMap (Option Int) Nat) :=
  ⟨∅, fun t k v => t.insert k v, fun t k => t[k]?⟩

/-- `self._table_size`, `self._table`. -/
structure StateG (τ : Type) where
  tableSize : Nat
  table : τ

abbrev EcState := StateG XTable

/-- state of a freshly constructed `EcCurve`: `_table = {}`, `_table_size = 0`. -/
def StateG.init {τ} (I : TableImpl τ) : StateG τ := ⟨0, I.empty⟩

/-- `x in self._table` / `self._table[x]`. -/
abbrev Lookup := Option Int → Option Nat

/-- `[f(a) for a in l]` where `f` may raise. -/
def forE {α β} (f : α → Except PyErr β) : List α → Except PyErr (List β)
  | [] => .ok []
  | a :: as =>
    match f a with
    | .error e => .error e
    | .ok b =>
      match forE f as with
      | .error e => .error e
      | .ok bs => .ok (b :: bs)

/-! ### PointTable over a generic dict (same code as `Ec.pointTable`) -/

/-- inner loop: `for j, x in enumerate(xs): res[x] = im + j`. -/
def tableRowG {τ} (I : TableImpl τ) : τ → List (Option Int) → Nat → τ
  | t, [], _ => t
  | t, x :: xs, v => tableRowG I (I.set t x v) xs (v + 1)

/-- outer loop over `sequence_high`, `im = i * m`. -/
def tableRowsG {τ} (I : TableImpl τ) (c : Curve) (low : List Pt) (m : Nat) :
    List Pt → Nat → τ → Except PyErr τ
  | [], _, t => .ok t
  | p :: ps, i, t =>
    match batchAddX c p low with
    | .error e => .error e
    | .ok xs => tableRowsG I c low m ps (i + 1) (tableRowG I t xs (i * m))

/-- `PointTable(base, n)`; `m` is the value of `int(math.sqrt(n))`. -/
def pointTableG {τ} (I : TableImpl τ) (c : Curve) (base : Pt) (n m : Nat) : Except PyErr τ :=
  if m = 0 then .error .zeroDivision
  else match pointSequence c base m with
    | .error e => .error e
    | .ok low =>
      match multiply c base m with
      | .error e => .error e
      | .ok bm =>
        match pointSequence c bm ((n + m - 1) / m) with
        | .error e => .error e
        | .ok high => tableRowsG I c low m high 0 I.empty

/-- `if size > self._table_size: self._table = self.PointTable(self.g, size); self._table_size = size`
(BatchDL with `size = table_size`, BatchDLOfDifferences with `size = max_diff`). -/
def ensureTableG {τ} (I : TableImpl τ) (c : Curve) (st : StateG τ) (size m : Nat) :
    Except PyErr (StateG τ) :=
  if size > st.tableSize then
    match pointTableG I c c.g size m with
    | .error e => .error e
    | .ok t => .ok ⟨size, t⟩
  else .ok st

/-! ### BatchDL -/

/-- `PointSequence(base, k)` for a Python int `k`: `[None] * k` is empty for `k ≤ 0` and
`res[0] = …` raises IndexError. -/
def pointSequenceI (c : Curve) (base : Pt) (k : Int) : Except PyErr (List Pt) :=
  if k ≤ 0 then .error .indexError else pointSequence c base k.toNat

/-- one `dl` of `for dl in [j*t + table[x], j*t - table[x]]`:
`y = Multiply(base, dl); if y[0] == p[0]: if y[1] == p[1]: res[i] = dl`
`elif y[1] == -p[1] % mod: res[i] = -dl`. `cur` is `res[i]`. (`y = INFINITY`: `None == p[0]` is
false.) -/
def dlVerify (c : Curve) (px py : Int) (cur : Option Int) (dl : Int) : Except PyErr (Option Int) :=
  match multiply c c.g dl with
  | .error e => .error e
  | .ok .inf => .ok cur
  | .ok (.aff yx yy) =>
    if yx = px then
      if yy = py then .ok (some dl)
      else if yy = c.red (-py) then .ok (some (-dl))
      else .ok cur
    else .ok cur

/-- body of `for j, x in enumerate(BatchAddX(p, list_c))`: `if x in table: for dl in […]`. -/
def dlStep (c : Curve) (look : Lookup) (t px py : Int) (cur : Option Int) (j : Nat)
    (x : Option Int) : Except PyErr (Option Int) :=
  match look x with
  | none => .ok cur
  | some v =>
    match dlVerify c px py cur ((j : Int) * t + (v : Int)) with
    | .error e => .error e
    | .ok cur' => dlVerify c px py cur' ((j : Int) * t - (v : Int))

/-- `for j, x in enumerate(xs)` from index `j` on (no `break`: later hits overwrite). -/
def dlScan (c : Curve) (look : Lookup) (t px py : Int) :
    List (Option Int) → Nat → Option Int → Except PyErr (Option Int)
  | [], _, cur => .ok cur
  | x :: xs, j, cur =>
    match dlStep c look t px py cur j x with
    | .error e => .error e
    | .ok cur' => dlScan c look t px py xs (j + 1) cur'

/-- body of `for i, p in enumerate(points)`: the value of `res[i]`. -/
def dlPoint (c : Curve) (look : Lookup) (t : Int) (listC : List Pt) : Pt → Except PyErr (Option Int)
  | .inf => .ok (some 0)
  | .aff px py =>
    match batchAddX c (.aff px py) listC with
    | .error e => .error e
    | .ok xs => dlScan c look t px py xs 0 none

/-- BatchDL after the table update: `t = 2 * table_size - 1` (from the REQUESTED size `ts`),
`giant_steps = 2 + n // t`, `list_c = PointSequence(Multiply(base, -t), giant_steps)`, the loop. -/
def batchDLCore (c : Curve) (look : Lookup) (points : List Pt) (n ts : Nat) :
    Except PyErr (List (Option Int)) :=
  match multiply c c.g (-(2 * (ts : Int) - 1)) with
  | .error e => .error e
  | .ok b =>
    match pointSequenceI c b (2 + Int.fdiv (n : Int) (2 * (ts : Int) - 1)) with
    | .error e => .error e
    | .ok listC => forE (dlPoint c look (2 * (ts : Int) - 1) listC) points

/-- `BatchDL(points, n)`; `ts = int(math.sqrt(n * len(points)))`, `m = int(math.sqrt(ts))`. -/
def batchDLG {τ} (I : TableImpl τ) (c : Curve) (st : StateG τ) (points : List Pt) (n ts m : Nat) :
    Except PyErr (List (Option Int) × StateG τ) :=
  match ensureTableG I c st ts m with
  | .error e => .error e
  | .ok st' =>
    match batchDLCore c (I.get? st'.table) points n ts with
    | .error e => .error e
    | .ok res => .ok (res, st')

/-! ### ExtendedBatchDL -/

/-- `sum(2 ** (32 * i) for i in range(j))`. -/
def repUnit : Nat → Nat
  | 0 => 0
  | j + 1 => repUnit j + 2 ^ (32 * j)

/-- `multipliers`: `2**j for j in range(0, bits - 31, 8)` then
`repUnit j for j in range(2, bits // 32 + 1)`, `bits = n.bit_length()`. -/
def extMultipliers (c : Curve) : List Nat :=
  (List.range ((bitLength c.n - 31 + 7) / 8)).map (fun k => 2 ^ (8 * k)) ++
  (List.range (bitLength c.n / 32 + 1 - 2)).map (fun k => repUnit (k + 2))

/-- `inverses = [gmpy.invert(m, self.n) for m in multipliers]`. -/
def extInverses (c : Curve) : Except PyErr (List Nat) :=
  forE (fun (m : Nat) => invMod (m : Int) c.n) (extMultipliers c)

/-- `all_points[i + num_points * j] = Multiply(point_i, inverse_j)`, filled for `j` outer, `i` inner:
position `i + num_points * j` of the flattened list. -/
def extAllPoints (c : Curve) (points : List Pt) : List Nat → Except PyErr (List Pt)
  | [] => .ok []
  | inv :: invs =>
    match forE (fun P => multiply c P (inv : Int)) points with
    | .error e => .error e
    | .ok row =>
      match extAllPoints c points invs with
      | .error e => .error e
      | .ok rest => .ok (row ++ rest)

/-- `for k, dlog in enumerate(discrete_logs): if dlog is not None:`
`res[k % num_points] = int(dlog * multipliers[k // num_points])`. -/
def extCollect (np : Nat) (mults : List Nat) :
    List (Option Int) → Nat → List (Option Int) → Except PyErr (List (Option Int))
  | [], _, res => .ok res
  | none :: ds, k, res => extCollect np mults ds (k + 1) res
  | some d :: ds, k, res =>
    if np = 0 then .error .zeroDivision
    else match mults[k / np]? with
      | none => .error .indexError
      | some m => extCollect np mults ds (k + 1) (res.set (k % np) (some (d * (m : Int))))

/-- `ExtendedBatchDL(points)` with the literal `2**32` as parameter `bound`;
`ts = int(math.sqrt(bound * len(all_points)))`, `m = int(math.sqrt(ts))`. -/
def extendedBatchDLB {τ} (I : TableImpl τ) (c : Curve) (bound : Nat) (st : StateG τ)
    (points : List Pt) (ts m : Nat) : Except PyErr (List (Option Int) × StateG τ) :=
  match extInverses c with
  | .error e => .error e
  | .ok invs =>
    match extAllPoints c points invs with
    | .error e => .error e
    | .ok all =>
      match batchDLG I c st all bound ts m with
      | .error e => .error e
      | .ok (dls, st') =>
        match extCollect points.length (extMultipliers c) dls 0 (List.replicate points.length none) with
        | .error e => .error e
        | .ok res => .ok (res, st')

/-- `ExtendedBatchDL(points)`. -/
def extendedBatchDLG {τ} (I : TableImpl τ) (c : Curve) (st : StateG τ) (points : List Pt)
    (ts m : Nat) : Except PyErr (List (Option Int) × StateG τ) :=
  extendedBatchDLB I c (2 ^ 32) st points ts m

/-! ### BatchDLOfDifferences -/

/-- `"key - (%x, %x) = %d * G" % (q[0], q[1], dl)`. -/
structure Rel where
  qx : Int
  qy : Int
  dl : Int
  deriving DecidableEq, Repr

/-- the `%` formatting: `"%x" % None` raises TypeError. -/
def fmtRel : Pt → Int → Except PyErr Rel
  | .inf, _ => .error .typeError
  | .aff x y, dl => .ok ⟨x, y, dl⟩

/-- one `dl` of `for dl in (table[x], -table[x])`: `diff2 = Multiply(base, dl); if diff == diff2:`
`res[i] = …(q, dl); if j >= len(other_points): res[j - len(other_points)] = …(p, -dl)`. -/
def diffTry (c : Curve) (p q diff : Pt) (nOther i j : Nat) (res : List (Option Rel)) (dl : Int) :
    Except PyErr (List (Option Rel)) :=
  match multiply c c.g dl with
  | .error e => .error e
  | .ok diff2 =>
    if diff = diff2 then
      match fmtRel q dl with
      | .error e => .error e
      | .ok r =>
        if j ≥ nOther then
          match fmtRel p (-dl) with
          | .error e => .error e
          | .ok r2 => .ok ((res.set i (some r)).set (j - nOther) (some r2))
        else .ok (res.set i (some r))
    else .ok res

/-- body of `for j, x in enumerate(BatchAddX(p, negated))`; `nq = negated[j]`. -/
def diffStep (c : Curve) (look : Lookup) (p : Pt) (nOther i : Nat) (res : List (Option Rel))
    (j : Nat) (nq : Pt) (x : Option Int) : Except PyErr (List (Option Rel)) :=
  match x with
  | none => .ok res                    -- `if x is None: continue  # key is a duplicate`
  | some xv =>
    match look (some xv) with
    | none => .ok res
    | some v =>
      match subtract c p (negate c nq) with
      | .error e => .error e
      | .ok diff =>
        match diffTry c p (negate c nq) diff nOther i j res (v : Int) with
        | .error e => .error e
        | .ok res' => diffTry c p (negate c nq) diff nOther i j res' (-(v : Int))

/-- `for j, x in enumerate(xs)` from index `j` on, walking `negated` alongside. -/
def diffScan (c : Curve) (look : Lookup) (p : Pt) (nOther i : Nat) :
    List Pt → List (Option Int) → Nat → List (Option Rel) → Except PyErr (List (Option Rel))
  | nq :: nqs, x :: xs, j, res =>
    match diffStep c look p nOther i res j nq x with
    | .error e => .error e
    | .ok res' => diffScan c look p nOther i nqs xs (j + 1) res'
  | _, _, _, res => .ok res

/-- `for i, p in enumerate(points): …; negated.append(self.Negate(p))`. -/
def diffOuter (c : Curve) (look : Lookup) (nOther : Nat) :
    List Pt → Nat → List Pt → List (Option Rel) → Except PyErr (List (Option Rel))
  | [], _, _, res => .ok res
  | p :: ps, i, negated, res =>
    match batchAddX c p negated with
    | .error e => .error e
    | .ok xs =>
      match diffScan c look p nOther i negated xs 0 res with
      | .error e => .error e
      | .ok res' => diffOuter c look nOther ps (i + 1) (negated ++ [negate c p]) res'

/-- `BatchDLOfDifferences(points, other_points, max_diff)`; `m = int(math.sqrt(max_diff))`. -/
def batchDLOfDifferencesG {τ} (I : TableImpl τ) (c : Curve) (st : StateG τ)
    (points otherPoints : List Pt) (maxDiff m : Nat) :
    Except PyErr (List (Option Rel) × StateG τ) :=
  if points.isEmpty ∨ points.length + otherPoints.length < 2 then
    .ok (List.replicate points.length none, st)
  else
    match ensureTableG I c st maxDiff m with
    | .error e => .error e
    | .ok st' =>
      match diffOuter c (I.get? st'.table) otherPoints.length points 0
          (otherPoints.map (negate c)) (List.replicate points.length none) with
      | .error e => .error e
      | .ok res => .ok (res, st')

/-! ### the functions on the association-list dict (the subject of Props/C10) -/

def batchDL (c : Curve) (st : EcState) (points : List Pt) (n ts m : Nat) :=
  batchDLG listImpl c st points n ts m

def extendedBatchDL (c : Curve) (st : EcState) (points : List Pt) (ts m : Nat) :=
  extendedBatchDLG listImpl c st points ts m

def batchDLOfDifferences (c : Curve) (st : EcState) (points otherPoints : List Pt)
    (maxDiff m : Nat) :=
  batchDLOfDifferencesG listImpl c st points otherPoints maxDiff m

/-! ### the Check methods -/

/-- `key.ec_info`: `curve_type` and `PublicPoint(key.ec_info) = (Bytes2Int(x), Bytes2Int(y))`. -/
structure ECKey where
  curveType : Nat
  x : Nat
  y : Nat
  deriving DecidableEq, Repr

def ECKey.pt (k : ECKey) : Pt := .aff (k.x : Int) (k.y : Int)

/-- one item of `CURVE_FACTORY.items()` (dict order); `curve = none` is a `None` entry. -/
structure FEntry where
  id : Nat
  curve : Option Curve
  deriving DecidableEq

abbrev Factory := List FEntry

/-- `CURVE_FACTORY.get(curve_type, None)`. -/
def factoryGet : Factory → Nat → Option Curve
  | [], _ => none
  | e :: es, id => if e.id = id then e.curve else factoryGet es id

/-- what a check attaches with `util.AttachInfo`. -/
inductive Info where
  /-- `INFO_NAME_DISCRETE_LOG`, `format(int(dl), "x")` -/
  | dlog (v : Int)
  /-- `INFO_NAME_DISCRETE_LOG_DIFF`, the relation string -/
  | diff (r : Rel)
  deriving DecidableEq, Repr

/-- `test_result.result` and the attached info of one key. -/
structure KV where
  result : Bool
  info : Option Info
  deriving DecidableEq, Repr

/-- per-key outcome of a `Check` call: `none` = `SetTestResult` is not called for this key. -/
abbrev KeyVerdict := Option KV

/-- CheckValidECKey, one key. -/
def validKeyOne (f : Factory) (k : ECKey) : Except PyErr KeyVerdict :=
  match factoryGet f k.curveType with
  | none => .ok (some ⟨true, none⟩)
  | some c =>
    match isValidPublicKey c k.pt with
    | .error e => .error e
    | .ok b => .ok (some ⟨!b, none⟩)

/-- `CheckValidECKey.Check(artifacts)`: every key gets a result. -/
def checkValidECKey (f : Factory) (keys : List ECKey) : Except PyErr (List KeyVerdict) :=
  forE (validKeyOne f) keys

/-- CheckWeakCurve, one key (`minimal_bit_length = 224`); unknown curves are skipped. -/
def weakCurveOne (f : Factory) (k : ECKey) : KeyVerdict :=
  match factoryGet f k.curveType with
  | none => none
  | some c => some ⟨decide (bitLength c.n < 224), none⟩

/-- `CheckWeakCurve.Check(artifacts)`. -/
def checkWeakCurve (f : Factory) (keys : List ECKey) : List KeyVerdict := keys.map (weakCurveOne f)

/-- batch positions of `keys = [key for key in artifacts if key.ec_info.curve_type == curve_id]`. -/
def keyIdxs (id : Nat) : List ECKey → Nat → List Nat
  | [], _ => []
  | k :: ks, i => if k.curveType = id then i :: keyIdxs id ks (i + 1) else keyIdxs id ks (i + 1)

/-- `points = [PublicPoint(key.ec_info) for key in keys]`. -/
def groupPoints (id : Nat) (keys : List ECKey) : List Pt :=
  (keys.filter (fun k => k.curveType = id)).map ECKey.pt

/-- `for i, key in enumerate(keys): … SetTestResult(key.test_info, …)`: writes verdict `vs[i]` at the
batch position of the `i`-th key of the group. -/
def scatter : List KeyVerdict → List Nat → List KV → List KeyVerdict
  | res, i :: is, v :: vs => scatter (res.set i (some v)) is vs
  | res, _, _ => res

def dlogVerdict : Option Int → KV
  | none => ⟨false, none⟩
  | some v => ⟨true, some (.dlog v)⟩

def diffVerdict : Option Rel → KV
  | none => ⟨false, none⟩
  | some r => ⟨true, some (.diff r)⟩

/-- the state of the current curve object in front of the states of the remaining ones. -/
def consState {σ} (st : σ) :
    Except PyErr (List KeyVerdict × List σ) → Except PyErr (List KeyVerdict × List σ)
  | .error err => .error err
  | .ok (res, sts) => .ok (res, st :: sts)

/-- CheckWeakECPrivateKey: loop over `CURVE_FACTORY.items()`; `sts` / `orc` run parallel to the
factory (`_table` state of each curve object; the float oracles `(ts, m)` of its ExtendedBatchDL
call). -/
def weakKeyLoop {τ} (I : TableImpl τ) (keys : List ECKey) :
    Factory → List (StateG τ) → List (Nat × Nat) → List KeyVerdict →
    Except PyErr (List KeyVerdict × List (StateG τ))
  | e :: es, st :: sts, o :: os, res =>
    match e.curve with
    | none => consState st (weakKeyLoop I keys es sts os res)
    | some c =>
      if (groupPoints e.id keys).isEmpty then          -- `if not keys: continue`
        consState st (weakKeyLoop I keys es sts os res)
      else
        match extendedBatchDLG I c st (groupPoints e.id keys) o.1 o.2 with
        | .error err => .error err
        | .ok (dls, st') =>
          consState st' (weakKeyLoop I keys es sts os
            (scatter res (keyIdxs e.id keys 0) (dls.map dlogVerdict)))
  | _, _, _, res => .ok (res, [])

/-- `CheckWeakECPrivateKey.Check(artifacts)`. -/
def checkWeakECPrivateKeyG {τ} (I : TableImpl τ) (f : Factory) (sts : List (StateG τ))
    (orc : List (Nat × Nat)) (keys : List ECKey) :=
  weakKeyLoop I keys f sts orc (List.replicate keys.length none)

/-- CheckECKeySmallDifference: loop over `CURVE_FACTORY.items()` (no `if not keys` guard: the
guard is inside BatchDLOfDifferences); `ms` = float oracle `int(math.sqrt(max_diff))` per entry. -/
def smallDiffLoop {τ} (I : TableImpl τ) (keys : List ECKey) (maxDiff : Nat) :
    Factory → List (StateG τ) → List Nat → List KeyVerdict →
    Except PyErr (List KeyVerdict × List (StateG τ))
  | e :: es, st :: sts, m :: ms, res =>
    match e.curve with
    | none => consState st (smallDiffLoop I keys maxDiff es sts ms res)
    | some c =>
      match batchDLOfDifferencesG I c st (groupPoints e.id keys) [] maxDiff m with
      | .error err => .error err
      | .ok (rels, st') =>
        consState st' (smallDiffLoop I keys maxDiff es sts ms
          (scatter res (keyIdxs e.id keys 0) (rels.map diffVerdict)))
  | _, _, _, res => .ok (res, [])

/-- `CheckECKeySmallDifference(max_diff).Check(artifacts)`. -/
def checkECKeySmallDifferenceG {τ} (I : TableImpl τ) (f : Factory) (sts : List (StateG τ))
    (ms : List Nat) (keys : List ECKey) (maxDiff : Nat) :=
  smallDiffLoop I keys maxDiff f sts ms (List.replicate keys.length none)

def checkWeakECPrivateKey (f : Factory) (sts : List EcState) (orc : List (Nat × Nat))
    (keys : List ECKey) := checkWeakECPrivateKeyG listImpl f sts orc keys

def checkECKeySmallDifference (f : Factory) (sts : List EcState) (ms : List Nat)
    (keys : List ECKey) (maxDiff : Nat) := checkECKeySmallDifferenceG listImpl f sts ms keys maxDiff

end Paranoid.Bsgs
