/-
Model/Checks.lean — the bookkeeping skeleton shared by every `Check` method of
rsa_single_checks / rsa_aggregate_checks / ec_single_checks / ec_aggregate_checks /
ecdsa_sig_checks, `paranoid._CheckArtifacts` and the three all-checks entry points.  No Mathlib.

What a check decides about an artefact (is it weak, which factors / discrete log were found)
is an ORACLE input (`Verdict`); the model is what the code does with that verdict:

    for artefact in artefacts:                       -- possibly grouped by curve
      [skip artefacts whose curve is not in CURVE_FACTORY]         (needsCurve checks: NO entry)
      test_result = _CreateTestResult()              -- (check_name, False, severity)
      if <verdict positive>:
        [util.AttachFactors(...) | util.AttachInfo(...)]
        [test_result.severity = SEVERITY_UNKNOWN     -- CheckLowHammingWeight, unfactored]
        any_weak = True; test_result.result = True
      util.SetTestResult(artefact.test_info, test_result)
    return any_weak

Checks that group the batch by curve (`for curve_id, curve in CURVE_FACTORY.items()`) visit each
artefact with a known curve exactly once and each artefact owns its `test_info`, so the visiting
order is immaterial and the model visits in batch order.

`CheckIssuerKey` is modelled in full: de-duplication of the issuer keys, `paranoid.CheckAllEC`
on fresh `ECKey` protobufs (its per-check verdicts are the oracle), copy-back with
`GetHighestSeverity`.

Known finding (reproduced on the pinned tree, see fixes/issuer-key-dedup-curve.diff):
`CheckIssuerKey` de-duplicates issuer keys by `PublicPoint` = (x, y) ONLY.  Two signatures
whose issuer keys have the same coordinates but different `curve_type` share the `ECKey` of
the first one.  `Variant.pinned` is that behaviour, `Variant.repaired` keys by
(curve_type, x, y).
-/
import ParanoidModel.Model.Bookkeeping
import ParanoidModel.Generated.Consts
namespace Paranoid

/-- a registered check: `check_name`, `severity` and the three skeleton flags
(see harness/consts/checks.py). -/
structure CheckSpec where
  name : String
  severity : Nat
  needsCurve : Bool
  unknownIfUnfactored : Bool
  issuer : Bool
  deriving DecidableEq, Repr

def CheckSpec.ofTuple (t : String × Nat × Bool × Bool × Bool) : CheckSpec :=
  ⟨t.1, t.2.1, t.2.2.1, t.2.2.2.1, t.2.2.2.2⟩

/-- `list(GetRSAAllChecks().values())` etc., regenerated from /repo. -/
def rsaAll : List CheckSpec := Consts.rsaAllChecks.map CheckSpec.ofTuple
def ecAll : List CheckSpec := Consts.ecAllChecks.map CheckSpec.ofTuple
def ecdsaAll : List CheckSpec := Consts.ecdsaAllChecks.map CheckSpec.ofTuple

/-- an RSAKey / ECKey / ECDSASignature as far as the bookkeeping can see it: its `test_info`,
the curve id of `ec_info` / `issuer_key_info` and `PublicPoint` of it (unreduced integers;
both unused for RSA keys). -/
structure Artifact where
  info : TestInfo
  curve : Nat
  point : Nat × Nat
  deriving DecidableEq, Repr

/-- ORACLE: what one check found out about one artefact. -/
structure Verdict where
  positive : Bool
  /-- `util.AttachFactors(test_info, info_name, factors)` with a truthy `factors` -/
  factors : Option (String × List Int)
  /-- `util.AttachInfo(test_info, info_name, value)` -/
  info : Option (String × AttachedValue)
  deriving DecidableEq, Repr

/-- `CURVE_FACTORY.get(curve_type, None) is not None` -/
def known (a : Artifact) : Bool := Consts.knownCurves.contains a.curve

/-- does the check write an entry for this artefact at all? -/
def applicable (c : CheckSpec) (a : Artifact) : Bool := !c.needsCurve || known a

/-- severity of the entry: the check's own, except CheckLowHammingWeight's
"suspected but not factored" override. -/
def sevFor (c : CheckSpec) (v : Verdict) : Nat :=
  if c.unknownIfUnfactored && v.positive && v.factors.isNone then Consts.severityUnknown
  else c.severity

def entryFor (c : CheckSpec) (v : Verdict) : Entry := ⟨c.name, v.positive, sevFor c v⟩

def attachOps (v : Verdict) : List Op :=
  (match v.factors with
   | some (k, fs) => [Op.attachFactors k fs]
   | none => []) ++
  (match v.info with
   | some (k, x) => [Op.attachInfo k x]
   | none => [])

/-- the util calls one check makes on one applicable artefact. -/
def verdictOps (c : CheckSpec) (v : Verdict) : List Op :=
  (if v.positive then attachOps v else []) ++ [Op.setTestResult (entryFor c v)]

/-- loop body of a `Check` method. -/
def checkOne (ver : String) (c : CheckSpec) (a : Artifact) (v : Verdict) :
    Except PyErr (Artifact × Bool) :=
  if applicable c a then
    match applyOps ver a.info (verdictOps c v) with
    | .ok t => .ok ({ a with info := t }, v.positive)
    | .error e => .error e
  else .ok (a, false)

/-- `Check(artifacts)` of every check but CheckIssuerKey; `v i` is the verdict on the `i`-th
artefact of the batch. Returns the annotated batch and `any_weak`. -/
def runCheckFrom (ver : String) (c : CheckSpec) (v : Nat → Verdict) :
    Nat → List Artifact → Except PyErr (List Artifact × Bool)
  | _, [] => .ok ([], false)
  | i, a :: as =>
    match checkOne ver c a (v i) with
    | .error e => .error e
    | .ok (a', w) =>
      match runCheckFrom ver c v (i + 1) as with
      | .error e => .error e
      | .ok (as', w') => .ok (a' :: as', w || w')

def runCheck (ver : String) (c : CheckSpec) (v : Nat → Verdict) (arts : List Artifact) :
    Except PyErr (List Artifact × Bool) := runCheckFrom ver c v 0 arts

/-- `_CheckArtifacts`: run the checks one after another on the same protobufs, OR the results. -/
def foldChecks {σ : Type} (run : σ → List Artifact → Except PyErr (List Artifact × Bool)) :
    List σ → List Artifact → Except PyErr (List Artifact × Bool)
  | [], arts => .ok (arts, false)
  | s :: ss, arts =>
    match run s arts with
    | .error e => .error e
    | .ok (arts', r) =>
      match foldChecks run ss arts' with
      | .error e => .error e
      | .ok (arts'', r') => .ok (arts'', r || r')

/-! ### CheckIssuerKey -/

inductive Variant
  | pinned
  | repaired
  deriving DecidableEq, Repr

/-- the dictionary key under which an issuer key is de-duplicated. -/
def keyId (var : Variant) (a : Artifact) : Nat × Nat × Nat :=
  match var with
  | .pinned => (0, a.point.1, a.point.2)
  | .repaired => (a.curve, a.point.1, a.point.2)

/-- `paranoid_pb2.ECKey(ec_info=sig.issuer_key_info)` -/
def freshKey (a : Artifact) : Artifact := ⟨TestInfo.empty, a.curve, a.point⟩

/-- first loop of CheckIssuerKey: `pks_pb`, one fresh ECKey per distinct issuer key, in order
of first occurrence. -/
def issuerKeysAux (var : Variant) : List Artifact → List Artifact → List Artifact
  | acc, [] => acc
  | acc, a :: as =>
    if acc.any (fun k => keyId var k = keyId var a) then issuerKeysAux var acc as
    else issuerKeysAux var (acc ++ [freshKey a]) as

def issuerKeys (var : Variant) (arts : List Artifact) : List Artifact :=
  issuerKeysAux var [] arts

/-- the inner `paranoid.CheckAllEC(pks_pb)`; `inner j k` is the verdict of the `j`-th active EC
check on the `k`-th distinct issuer key. -/
def innerCheckAllEC (ver : String) (ec : List CheckSpec) (inner : Nat → Nat → Verdict)
    (keys : List Artifact) : Except PyErr (List Artifact × Bool) :=
  foldChecks (fun (s : CheckSpec × Nat) => runCheck ver s.1 (inner s.2)) ec.zipIdx keys

/-- the `test_result` CheckIssuerKey builds for one checked issuer key. `severity = None`
would be a TypeError of the protobuf setter. -/
def issuerEntry (c : CheckSpec) (key : Artifact) : Except PyErr Entry :=
  if key.info.weak then
    match getHighestSeverity key.info with
    | some s => .ok ⟨c.name, true, s⟩
    | none => .error .typeError
  else .ok ⟨c.name, false, c.severity⟩

/-- `for i in points[...]: util.SetTestResult(artifacts[i].test_info, test_result)` -/
def copyBack (var : Variant) (ver : String) (e : Entry) (key : Artifact)
    (arts : List Artifact) : List Artifact :=
  arts.map (fun a =>
    if keyId var a = keyId var key then { a with info := setTestResult ver a.info e } else a)

/-- last loop of CheckIssuerKey over the checked keys. -/
def copyBackAll (var : Variant) (ver : String) (c : CheckSpec) :
    List Artifact → List Artifact → Except PyErr (List Artifact × Bool)
  | [], arts => .ok (arts, false)
  | key :: keys, arts =>
    match issuerEntry c key with
    | .error e => .error e
    | .ok en =>
      match copyBackAll var ver c keys (copyBack var ver en key arts) with
      | .error e => .error e
      | .ok (arts', w) => .ok (arts', key.info.weak || w)

/-- `CheckIssuerKey.Check`. -/
def checkIssuerKey (var : Variant) (ver : String) (ec : List CheckSpec) (c : CheckSpec)
    (inner : Nat → Nat → Verdict) (arts : List Artifact) :
    Except PyErr (List Artifact × Bool) :=
  match innerCheckAllEC ver ec inner (issuerKeys var arts) with
  | .error e => .error e
  | .ok (keys', _) => copyBackAll var ver c keys' arts

/-! ### `_CheckArtifacts` and the entry points -/

/-- one `check.Check(artifacts)` call together with its oracle answers. -/
structure Step where
  spec : CheckSpec
  /-- verdict on the `i`-th artefact (checks other than CheckIssuerKey) -/
  verdict : Nat → Verdict
  /-- CheckIssuerKey: verdict of the `j`-th active EC check on the `k`-th distinct issuer key -/
  inner : Nat → Nat → Verdict

def runStep (var : Variant) (ver : String) (ec : List CheckSpec) (s : Step)
    (arts : List Artifact) : Except PyErr (List Artifact × Bool) :=
  if s.spec.issuer then checkIssuerKey var ver ec s.spec s.inner arts
  else runCheck ver s.spec s.verdict arts

/-- `_CheckArtifacts(artifacts, check_items, log_level)` for any list of checks. -/
def checkArtifacts (var : Variant) (ver : String) (ec : List CheckSpec) (steps : List Step)
    (arts : List Artifact) : Except PyErr (List Artifact × Bool) :=
  foldChecks (runStep var ver ec) steps arts

/-- attach oracle answers to a registry: `O j` for the `j`-th check, `I j` for its inner run. -/
def mkSteps (specs : List CheckSpec) (O : Nat → Nat → Verdict) (I : Nat → Nat → Nat → Verdict) :
    List Step :=
  specs.zipIdx.map (fun (s : CheckSpec × Nat) => ⟨s.1, O s.2, I s.2⟩)

/-- `CheckAllRSA`, `CheckAllEC`, `CheckAllECDSASigs` with the regenerated registries. -/
def checkAllRSA (var : Variant) (O : Nat → Nat → Verdict) (I : Nat → Nat → Nat → Verdict)
    (arts : List Artifact) : Except PyErr (List Artifact × Bool) :=
  checkArtifacts var Consts.libVersion ecAll (mkSteps rsaAll O I) arts

def checkAllEC (var : Variant) (O : Nat → Nat → Verdict) (I : Nat → Nat → Nat → Verdict)
    (arts : List Artifact) : Except PyErr (List Artifact × Bool) :=
  checkArtifacts var Consts.libVersion ecAll (mkSteps ecAll O I) arts

def checkAllECDSASigs (var : Variant) (O : Nat → Nat → Verdict)
    (I : Nat → Nat → Nat → Verdict) (arts : List Artifact) :
    Except PyErr (List Artifact × Bool) :=
  checkArtifacts var Consts.libVersion ecAll (mkSteps ecdsaAll O I) arts

end Paranoid
