/-
Model/ClosedForm.lean — the RSA checks of rsa_single_checks.py whose criterion is a closed
form: CheckSizes, CheckExponents, CheckROCA, CheckROCAVariant (roca.py), CheckOpensslDenylist,
CheckKeypairDenylist.  One function per key (the `Check` methods loop over the artifacts,
store the per-key result and return the OR).  No Mathlib.

Oracles (explicit arguments): the SHA-1 hex digest in the OpenSSL check, the output
`(p, q)` of `keypair_generator.Generator(seed).generate_key(bits)` in the keypair check.
-/
import ParanoidModel.Model.Basic
namespace Paranoid

/-! ### CheckSizes / CheckExponents -/

/-- `weak = gmpy.bit_length(n) < 2048`. -/
def sizesWeak (n : Nat) : Bool := decide (bitLength n < 2048)

/-- `CheckSizes` on the key's `rsa_info.n` bytes. -/
def checkSizes (nBytes : List Nat) : Bool := sizesWeak (bytes2int nBytes)

/-- `e != 65537`. -/
def exponentWeak (e : Nat) : Bool := decide (e ≠ 65537)

/-- `CheckExponents` on the key's `rsa_info.e` bytes. -/
def checkExponents (eBytes : List Nat) : Bool := exponentWeak (bytes2int eBytes)

/-! ### roca.ROCAKeyDetector

```python
def _HasDiscreteLog(self, value, base, n):
  b = base % n
  accumulator = 1
  for unused_exponent in range(1, n):
    if accumulator == value:
      return True
    accumulator = (accumulator * b) % n
  return False
```
-/

/-- the loop: `fuel` iterations left, current accumulator `acc`. -/
def dlogLoop (value b n : Nat) : Nat → Nat → Bool
  | 0, _ => false
  | fuel + 1, acc => if acc = value then true else dlogLoop value b n fuel (acc * b % n)

/-- `_HasDiscreteLog(value, base, n)`; `base % 0` raises `ZeroDivisionError`.
`range(1, n)` has `n - 1` elements: the exponents tested are `0 … n-2`. -/
def hasDiscreteLog (value base n : Nat) : Except PyErr Bool :=
  if n = 0 then .error .zeroDivision else .ok (dlogLoop value (base % n) n (n - 1) 1)

/-- `product_of_primes` as the constructor computes it. -/
def productOfPrimes (primes : List Nat) : Nat := primes.foldl (fun acc p => acc * p) 1

/-- `for prime in self.PRIMES: … if not self._HasDiscreteLog(mod_p, self.F4, prime): return False`. -/
def rocaLoop (f4 r : Nat) : List Nat → Except PyErr Bool
  | [] => .ok true
  | p :: ps =>
    match hasDiscreteLog (r % p) f4 p with
    | .error e => .error e
    | .ok false => .ok false
    | .ok true => rocaLoop f4 r ps

/-- `ROCAKeyDetector.IsWeak(modulus)` with class constants `PRIMES`, `F4`;
`modulus % product_of_primes` raises when the product is 0. -/
def rocaIsWeak (primes : List Nat) (f4 modulus : Nat) : Except PyErr Bool :=
  if productOfPrimes primes = 0 then .error .zeroDivision
  else rocaLoop f4 (modulus % productOfPrimes primes) primes

/-! ### roca.ROCAKeyVariantDetector

```python
def _QuadraticResidues(self, p):
  a = [False] * p
  for i in range(p):
    a[i * i % p] = True
  return a
```
-/

def quadraticResidues (p : Nat) : List Bool :=
  (List.range p).foldl (fun a i => a.set (i * i % p) true) (List.replicate p false)

/-- `qr[modulus % p]` with `qr = self.quadratic_residues[p]`. -/
def qrLookup (p modulus : Nat) : Except PyErr Bool :=
  if p = 0 then .error .zeroDivision
  else match (quadraticResidues p)[modulus % p]? with
    | some b => .ok b
    | none => .error .indexError

/-- `for p, qr in self.quadratic_residues.items(): if not qr[modulus % p]: return False`.
(The dict is keyed by `p` in insertion order of `PRIMES`; a repeated prime would be visited
once, which cannot change the result of this loop.) -/
def qrLoop (modulus : Nat) : List Nat → Except PyErr Bool
  | [] => .ok true
  | p :: ps =>
    match qrLookup p modulus with
    | .error e => .error e
    | .ok false => .ok false
    | .ok true => qrLoop modulus ps

/-- `ROCAKeyVariantDetector.IsWeak(modulus)`: QR modulo all of its primes and not already
detected by `ROCAKeyDetector`. -/
def rocaVariantIsWeak (vprimes rprimes : List Nat) (f4 modulus : Nat) : Except PyErr Bool :=
  match qrLoop modulus vprimes with
  | .error e => .error e
  | .ok false => .ok false
  | .ok true =>
    match rocaIsWeak rprimes f4 modulus with
    | .error e => .error e
    | .ok true => .ok false
    | .ok false => .ok true

/-! ### CheckOpensslDenylist

```python
keytype = "RSA-%d" % gmpy.bit_length(n)
n_str = "Modulus=%X\n" % n
n_hash = hashlib.sha1(n_str.encode("utf-8")).hexdigest()[20:]
keystr = "%s:%s" % (keytype, n_hash)
if keystr in self._weak_keylist:
```
Strings are lists of characters.
-/

def upperHexDigit (d : Nat) : Char :=
  if d < 10 then Char.ofNat (48 + d) else Char.ofNat (55 + d)

/-- number of hex digits of `n` (`"%X" % 0 = "0"`). -/
def hexLen (n : Nat) : Nat := if n = 0 then 1 else (bitLength n + 3) / 4

/-- `"%X" % n`: uppercase, no padding. -/
def hexUpper (n : Nat) : List Char :=
  (List.range (hexLen n)).map fun i => upperHexDigit (n / 16 ^ (hexLen n - 1 - i) % 16)

/-- the string that is hashed: `"Modulus=%X\n" % n`. -/
def opensslHashInput (n : Nat) : List Char := "Modulus=".toList ++ hexUpper n ++ ['\n']

/-- `"%s:%s" % ("RSA-%d" % bit_length(n), hexdigest[20:])`; `sha1hex` is the oracle's
40-character hex digest of `opensslHashInput n`. -/
def opensslKeyStr (n : Nat) (sha1hex : List Char) : List Char :=
  "RSA-".toList ++ Nat.toDigits 10 (bitLength n) ++ [':'] ++ sha1hex.drop 20

/-- `keystr in self._weak_keylist` for a supplied deny list. -/
def opensslWeak (n : Nat) (sha1hex : List Char) (denylist : List (List Char)) : Bool :=
  denylist.contains (opensslKeyStr n sha1hex)

/-! ### CheckKeypairDenylist

```python
n = util.Bytes2Int(key.rsa_info.n)
n_msb = n >> (n.bit_length() - 64)
if n_msb in self._table:
  metadata = self._table[n_msb]
  seed = bytearray([metadata[0]] + [0] * 31)
  for i in range(1, len(metadata), 2):
    seed[metadata[i]] = metadata[i + 1]
  p, q = keypair_generator.Generator(seed).generate_key(n.bit_length())
  if p * q == n:   # flagged, AttachFactors (p, q)
```
-/

/-- `n >> (n.bit_length() - 64)`; a negative shift count raises `ValueError`. -/
def keypairMsb (n : Nat) : Except PyErr Nat :=
  if bitLength n < 64 then .error .valueError else .ok (n >>> (bitLength n - 64))

/-- the `for i in range(1, len(metadata), 2)` loop over the metadata after its first byte. -/
def seedLoop : List Nat → List Nat → Except PyErr (List Nat)
  | [], seed => .ok seed
  | [_], _ => .error .indexError                -- `metadata[i + 1]` out of range
  | i :: v :: rest, seed =>
    if i < seed.length then seedLoop rest (seed.set i v) else .error .indexError

/-- seed reconstruction from the table's metadata bytes `b0|i1|b1|i2|b2…`. -/
def seedFromMeta : List Nat → Except PyErr (List Nat)
  | [] => .error .indexError                    -- `metadata[0]`
  | b0 :: rest => seedLoop rest (b0 :: List.replicate 31 0)

/-- `bits % 2 == 0 and (bits // 2) % 8 <= 2` (D21, /repo fixes 8de8de4 + bd690e6): the key sizes the
generator emulation can produce. `generate_prime(k)` draws `8 * (k // 8)` random bits below a forced
top bit, so for `k % 8 ≥ 3` (and for odd `bits`) no product of two such primes has `bits` bits and
`generate_key(bits)` never returns: `C06.product_size_never_odd`, `C06.product_size_never_reached`. -/
def keypairSizeOk (bits : Nat) : Bool := bits % 2 == 0 && decide ((bits / 2) % 8 ≤ 2)

/-- one key of `CheckKeypairDenylist.Check`: `(flagged, attached factors)`.
`table` is `dict(GetKeypairData().table)` as an association list; `gen seed bits` is the
oracle for `Generator(seed).generate_key(bits)`, which the real code calls (and which returns)
for sizes with `keypairSizeOk` only: `C06.keypair_gen_supported_only`. -/
def keypairStep (table : List (Nat × List Nat)) (n : Nat)
    (gen : List Nat → Nat → Nat × Nat) : Except PyErr (Bool × List Nat) :=
  match keypairMsb n with
  | .error e => .error e
  | .ok msb =>
    match table.lookup msb with
    | none => .ok (false, [])
    | some metadata =>
      -- `and bits % 2 == 0 and (bits // 2) % 8 <= 2` (D21): sizes the generator never returns for
      if !keypairSizeOk (bitLength n) then .ok (false, []) else
      match seedFromMeta metadata with
      | .error e => .error e
      | .ok seed =>
        if (gen seed (bitLength n)).1 * (gen seed (bitLength n)).2 = n
        then .ok (true, [(gen seed (bitLength n)).1, (gen seed (bitLength n)).2])
        else .ok (false, [])

/-- the seed handed to the generator (exposed for the correspondence check). -/
def keypairSeed (table : List (Nat × List Nat)) (n : Nat) : Except PyErr (Option (List Nat)) :=
  match keypairMsb n with
  | .error e => .error e
  | .ok msb =>
    match table.lookup msb with
    | none => .ok none
    | some metadata =>
      if !keypairSizeOk (bitLength n) then .ok none else
      match seedFromMeta metadata with
      | .error e => .error e
      | .ok seed => .ok (some seed)

end Paranoid
