/-
Model/Cr50.lean — mirrors paranoid_crypto/lib/cr50_u2f_weakness.py
(`Cr50U2fSubProblem`, `Cr50U2fGuesses`). The reduced basis returned by `lll.reduce` is the
explicit oracle argument `reduced`. No Mathlib.
-/
import ParanoidModel.Model.Basic
namespace Paranoid

/-- `[0] * k`. -/
def cr50Zeros (k : Nat) : List Int := List.replicate k 0

/-- row `j` of the sub-problem lattice for a basis word `v` and multiplier `m` (`a` for the
first block, `b` for the second): `lat[j][j] = 1; lat[j][-1] = v * m % p`. `size = 2*words+2`. -/
def cr50WordRow (size : Nat) (p : Nat) (m : Int) (j : Nat) (v : Int) : List Int :=
  (List.range (size - 1)).map (fun c => if c = j then (1 : Int) else 0) ++ [v * m % (p : Int)]

/-- `enumerate(basis)` from index `off`. -/
def cr50Block (size : Nat) (p : Nat) (m : Int) : Nat → List Int → List (List Int)
  | _, [] => []
  | off, v :: vs => cr50WordRow size p m off v :: cr50Block size p m (off + 1) vs

/-- the lattice handed to `lll.reduce` by `Cr50U2fSubProblem(a, b, w, p, basis)`. -/
def cr50Lattice (a b w : Int) (p : Nat) (basis : List Int) : Except PyErr (List (List Int)) :=
  if p = 0 ∧ basis ≠ [] then .error .zeroDivision
  else
    .ok (cr50Block (2 * basis.length + 2) p a 0 basis ++
         cr50Block (2 * basis.length + 2) p b basis.length basis ++
         [cr50Zeros (2 * basis.length) ++ [256, w], cr50Zeros (2 * basis.length + 1) ++ [(p : Int)]])

/-- `sum(v * w for v, w in zip(basis, row))` (zip truncates to the shorter list). -/
def dotZip (basis row : List Int) : Int := (List.zipWith (· * ·) basis row).sum

/-- `k1, k2` of one reduced row. -/
def cr50RowKs (basis row : List Int) : Nat × Nat :=
  ((dotZip basis (row.take basis.length)).natAbs,
   (dotZip basis ((row.drop basis.length).take basis.length)).natAbs)

/-- `if (k1 * a + k2 * b - w) % p == 0: yield k1, k2` for one reduced row. -/
def cr50RowPair (a b w : Int) (p : Nat) (basis row : List Int) : Except PyErr (Option (Nat × Nat)) :=
  if p = 0 then .error .zeroDivision
  else if (((cr50RowKs basis row).1 : Int) * a + ((cr50RowKs basis row).2 : Int) * b - w) % (p : Int) = 0
  then .ok (some (cr50RowKs basis row))
  else .ok none

/-- `Cr50U2fSubProblem(a, b, w, p, basis)` given the reduced basis, as the list of yields
(no consumer-side effects are interleaved here; `cr50Guesses` interleaves them). -/
def cr50SubLoop (a b w : Int) (p : Nat) (basis : List Int) :
    List (List Int) → Except PyErr (List (Nat × Nat))
  | [] => .ok []
  | row :: rest =>
    match cr50RowPair a b w p basis row with
    | .error e => .error e
    | .ok none => cr50SubLoop a b w p basis rest
    | .ok (some k) =>
      match cr50SubLoop a b w p basis rest with
      | .error e => .error e
      | .ok ks => .ok (k :: ks)

def cr50SubProblem (a b w : Int) (p : Nat) (basis : List Int) (reduced : List (List Int)) :
    Except PyErr (List (Nat × Nat)) :=
  match cr50Lattice a b w p basis with
  | .error e => .error e
  | .ok _ => cr50SubLoop a b w p basis reduced

/-- `basis = [0x1010101 << j for j in range(0, n.bit_length(), 32)]`. -/
def cr50Basis (bl : Nat) : List Int :=
  (List.range ((bl + 31) / 32)).map (fun j => (0x1010101 : Int) * 2 ^ (32 * j))

/-- the consumer body for one yielded `(k1, k2)`: `x1`, `x2`, the sanity check. -/
def cr50PairGuess (r1 s1 z1 r2 s2 z2 : Int) (n : Nat) (k : Nat × Nat) : Except PyErr Nat :=
  match invMod r1 n with
  | .error e => .error e
  | .ok i1 =>
    match invMod r2 n with
    | .error e => .error e
    | .ok i2 =>
      if (s1 * (k.1 : Int) - z1) * (i1 : Int) % (n : Int) ≠ (s2 * (k.2 : Int) - z2) * (i2 : Int) % (n : Int)
      then .error .arithmeticError
      else .ok ((s1 * (k.1 : Int) - z1) * (i1 : Int) % (n : Int)).toNat

/-- `for k1, k2 in Cr50U2fSubProblem(...)` with the generator interleaved: row by row. -/
def cr50GuessLoop (r1 s1 z1 r2 s2 z2 : Int) (n : Nat) (a b w : Int) (basis : List Int) :
    List (List Int) → List Nat → Except PyErr (List Nat)
  | [], acc => .ok acc
  | row :: rest, acc =>
    match cr50RowPair a b w n basis row with
    | .error e => .error e
    | .ok none => cr50GuessLoop r1 s1 z1 r2 s2 z2 n a b w basis rest acc
    | .ok (some k) =>
      match cr50PairGuess r1 s1 z1 r2 s2 z2 n k with
      | .error e => .error e
      | .ok x => cr50GuessLoop r1 s1 z1 r2 s2 z2 n a b w basis rest (if x ∈ acc then acc else acc ++ [x])

/-- `Cr50U2fGuesses(r1, s1, z1, r2, s2, z2, n)` given the reduced basis; the result is a set
(duplicate-free list, compared as a set). -/
def cr50Guesses (r1 s1 z1 r2 s2 z2 : Int) (n : Nat) (reduced : List (List Int)) :
    Except PyErr (List Nat) :=
  if bitLength n % 32 ≠ 0 then .ok []
  else if n = 0 then .error .zeroDivision
  else
    match cr50Lattice (r2 * s1 % (n : Int)) (-r1 * s2 % (n : Int)) ((r2 * z1 - r1 * z2) % (n : Int)) n
        (cr50Basis (bitLength n)) with
    | .error e => .error e
    | .ok _ =>
      cr50GuessLoop r1 s1 z1 r2 s2 z2 n (r2 * s1 % (n : Int)) (-r1 * s2 % (n : Int))
        ((r2 * z1 - r1 * z2) % (n : Int)) (cr50Basis (bitLength n)) reduced []

end Paranoid
