/-
Model/Ec.lean — mirrors `paranoid_crypto/lib/ec_util.py`, class `EcCurve`, function by function:
OnCurve, IsValidPublicKey, Negate, Double, Add, Subtract, DoubleJacobian, AddJacobian,
MultiplyAffine, AffineToJacobian, JacobianToAffine, Multiply, BatchJacobianToX,
BatchJacobianToAffine, BatchInverse, BatchAddList, BatchDouble, BatchAdd, BatchAddX,
BatchAddSubtractX, BatchMultiplyG (cache passed explicitly), PointSequence, PointTable.
No Mathlib.

Conventions
* Coordinates are Python ints kept UNREDUCED exactly as the code keeps them (`Int`): a caller may
  pass `x + p`, `p` itself or negative values; the placement of every `% self.mod` is mirrored
  (`Curve.red`).
* `gmpy.invert` is `Paranoid.invMod` (raises `ZeroDivisionError`), every `raise` is an `Except PyErr`.
* Domain: `self.mod ≥ 1` and `self.n ≥ 1` (`%` by zero is not modelled; every `EcCurve` of
  `CURVE_FACTORY` satisfies this and the driver rejects other curves).
* `add`, `double`, `batchDouble` model the code WITH the patch `fixes/D3-ec-add-double.diff`
  (defect D3): `Add` compares `x`/`y` modulo `p`, `Double` returns infinity for `y ≡ 0 (mod p)`,
  `BatchDouble` reduces `2*y` before the batch inversion.  `addPinned`, `doublePinned`,
  `batchDoublePinned` mirror the pinned code and differ only on those input classes
  (Props/C11: `add_pinned_fails`, `double_pinned_fails`).
* Loops are structural recursions; `while n:` ladders take `bitLength n` as fuel.
* Float oracle: `PointTable` computes `m = int(math.sqrt(n))` in floating point; `m` is an explicit
  argument of `pointTable`.
-/
import ParanoidModel.Model.Basic
namespace Paranoid.Ec
open Paranoid

/-- `EcCurve(name, a, b, mod, gx, gy, n, h)`: `y^2 = x^3 + a*x + b` over `GF(p)`, generator
`(gx, gy)` of order `n`, cofactor `h`. -/
structure Curve where
  a : Int
  b : Int
  p : Nat
  gx : Int
  gy : Int
  n : Nat
  h : Nat
  deriving Repr, DecidableEq

/-- affine point: `INFINITY = (None, None)` or `(x, y)` with unreduced Python ints. -/
inductive Pt where
  | inf : Pt
  | aff (x y : Int) : Pt
  deriving Repr, DecidableEq

/-- Jacobian triple `(x, y, z)`; the point at infinity is any triple with `z == 0`. -/
structure JPt where
  x : Int
  y : Int
  z : Int
  deriving Repr, DecidableEq

/-- `INFINITY_JACOBIAN = (1, 1, 0)`. -/
def infJ : JPt := ⟨1, 1, 0⟩

/-- decidable equality of results (used by `decide +kernel` on concrete inputs). -/
instance instDecEqExceptPyErr {α} [DecidableEq α] : DecidableEq (Except PyErr α)
  | .ok a, .ok b => if h : a = b then isTrue (by rw [h]) else isFalse (by intro h'; cases h'; exact h rfl)
  | .error a, .error b =>
    if h : a = b then isTrue (by rw [h]) else isFalse (by intro h'; cases h'; exact h rfl)
  | .ok _, .error _ => isFalse (by intro h; cases h)
  | .error _, .ok _ => isFalse (by intro h; cases h)

/-- `v % self.mod`. -/
def Curve.red (c : Curve) (v : Int) : Int := v % (c.p : Int)

/-- `self.g`. -/
def Curve.g (c : Curve) : Pt := .aff c.gx c.gy

/-- `gmpy.invert(v, self.mod)` as a Python int. -/
def Curve.inv (c : Curve) (v : Int) : Except PyErr Int :=
  match invMod v c.p with
  | .error e => .error e
  | .ok r => .ok (r : Int)

/-- `p[0]` of an affine point (`None` for INFINITY). -/
def Pt.x? : Pt → Option Int
  | .inf => none
  | .aff x _ => some x

/-! ### OnCurve, IsValidPublicKey, Negate -/

/-- `OnCurve`. -/
def onCurve (c : Curve) : Pt → Bool
  | .inf => true
  | .aff x y => c.red ((x * x + c.a) * x + c.b - y * y) == 0

/-- `4a³ + 27b² ≢ 0 (mod p)`: the short Weierstrass curve is non-singular (not a function of the
code; used by the parameter theorems and as hypothesis of the refinement theorems). -/
def Curve.discrNonzero (c : Curve) : Bool := c.red (4 * c.a * c.a * c.a + 27 * c.b * c.b) != 0

/-- `Negate`: `(x, -y % mod)`. -/
def negate (c : Curve) : Pt → Pt
  | .inf => .inf
  | .aff x y => .aff x (c.red (-y))

/-! ### Double, Add, Subtract (affine) -/

/-- `t = num * inv % mod` with `num = (3*x*x + a) % mod` (Double and BatchDouble). -/
def doubleSlope (c : Curve) (x i : Int) : Int := c.red (c.red (3 * x * x + c.a) * i)

/-- `x2 = (t*t - 2*x) % mod; y2 = (t*(x - x2) - y) % mod` (Double and BatchDouble). -/
def tangent (c : Curve) (t x y : Int) : Pt :=
  .aff (c.red (t * t - 2 * x)) (c.red (t * (x - c.red (t * t - 2 * x)) - y))

/-- `x3 = (t*t - x1 - x2) % mod` (Add and the batched additions). -/
def chordX (c : Curve) (t x1 x2 : Int) : Int := c.red (t * t - x1 - x2)

/-- `x3 = …; y3 = (t*(x1 - x3) - y1) % mod` (Add, BatchAddList, BatchAdd). -/
def chord (c : Curve) (t x1 y1 x2 : Int) : Pt :=
  .aff (chordX c t x1 x2) (c.red (t * (x1 - chordX c t x1 x2) - y1))

/-- `Double` with the D3 patch (`if y % self.mod == 0: return INFINITY`). -/
def double (c : Curve) : Pt → Except PyErr Pt
  | .inf => .ok .inf
  | .aff x y =>
    if c.red y = 0 then .ok .inf
    else match c.inv (2 * y) with
      | .error e => .error e
      | .ok i => .ok (tangent c (doubleSlope c x i) x y)

/-- `Double` of the pinned tree: inverts `2*y` unconditionally. -/
def doublePinned (c : Curve) : Pt → Except PyErr Pt
  | .inf => .ok .inf
  | .aff x y =>
    match c.inv (2 * y) with
    | .error e => .error e
    | .ok i => .ok (tangent c (doubleSlope c x i) x y)

/-- `Add` with the D3 patch: `if (x1 - x2) % mod == 0: if (y1 - y2) % mod == 0: Double(p) else INFINITY`. -/
def add (c : Curve) : Pt → Pt → Except PyErr Pt
  | .inf, q => .ok q
  | .aff x1 y1, .inf => .ok (.aff x1 y1)
  | .aff x1 y1, .aff x2 y2 =>
    if c.red (x1 - x2) = 0 then
      if c.red (y1 - y2) = 0 then double c (.aff x1 y1) else .ok .inf
    else match c.inv (x1 - x2) with
      | .error e => .error e
      | .ok i => .ok (chord c (c.red ((y1 - y2) * i)) x1 y1 x2)

/-- `Add` of the pinned tree: compares the unreduced integers. -/
def addPinned (c : Curve) : Pt → Pt → Except PyErr Pt
  | .inf, q => .ok q
  | .aff x1 y1, .inf => .ok (.aff x1 y1)
  | .aff x1 y1, .aff x2 y2 =>
    if x1 = x2 then
      if y1 = y2 then doublePinned c (.aff x1 y1) else .ok .inf
    else match c.inv (x1 - x2) with
      | .error e => .error e
      | .ok i => .ok (chord c (c.red ((y1 - y2) * i)) x1 y1 x2)

/-- `Subtract`: `Add(p, Negate(q))`. -/
def subtract (c : Curve) (p q : Pt) : Except PyErr Pt := add c p (negate c q)

/-! ### Jacobian coordinates -/

/-- `m` of DoubleJacobian: both branches of the `self.a == -3` test. -/
def doubleJM (c : Curve) (x zsqr : Int) : Int :=
  if c.a = -3 then c.red (3 * (x + zsqr) * (x - zsqr))
  else c.red (3 * x * x + c.a * zsqr * zsqr)

/-- body of DoubleJacobian after the `z == 0 or y == 0` test, given `ysqr zsqr s m`. -/
def doubleJOut (c : Curve) (y z ysqr s m : Int) : JPt :=
  ⟨c.red (m * m - 2 * s),
   c.red (m * (s - c.red (m * m - 2 * s)) - 8 * ysqr * ysqr),
   c.red (2 * y * z)⟩

/-- `DoubleJacobian`. -/
def doubleJ (c : Curve) (P : JPt) : JPt :=
  if P.z = 0 ∨ P.y = 0 then infJ
  else doubleJOut c P.y P.z (c.red (P.y * P.y)) (c.red (4 * P.x * c.red (P.y * P.y)))
    (doubleJM c P.x (c.red (P.z * P.z)))

/-- tail of AddJacobian for `u1 != u2`: `h = u2 - u1 % mod; …; z3 = h*z1*z2 % mod`. -/
def addJOut (c : Curve) (z1 z2 u1 s1 h r : Int) : JPt :=
  ⟨c.red (r * r - c.red (c.red (h * h) * h) - 2 * c.red (u1 * c.red (h * h))),
   c.red (r * (c.red (u1 * c.red (h * h))
      - c.red (r * r - c.red (c.red (h * h) * h) - 2 * c.red (u1 * c.red (h * h))))
      - s1 * c.red (c.red (h * h) * h)),
   c.red (h * z1 * z2)⟩

/-- AddJacobian after the `z == 0` tests, given `u1 u2 s1 s2`. -/
def addJCore (c : Curve) (P : JPt) (z1 z2 u1 u2 s1 s2 : Int) : JPt :=
  if u1 = u2 then
    if s1 ≠ s2 then infJ else doubleJ c P
  else addJOut c z1 z2 u1 s1 (u2 - c.red u1) (s2 - c.red s1)

/-- `AddJacobian`. -/
def addJ (c : Curve) (P Q : JPt) : JPt :=
  if P.z = 0 then Q
  else if Q.z = 0 then P
  else addJCore c P P.z Q.z
    (c.red (P.x * c.red (Q.z * Q.z))) (c.red (Q.x * c.red (P.z * P.z)))
    (c.red (P.y * Q.z * c.red (Q.z * Q.z))) (c.red (Q.y * P.z * c.red (P.z * P.z)))

/-- `AffineToJacobian`. -/
def affineToJ : Pt → JPt
  | .inf => infJ
  | .aff x y => ⟨x, y, 1⟩

/-- `wsqr = w*w % mod; wcube = wsqr*w % mod; (x*wsqr % mod, y*wcube % mod)`
(JacobianToAffine and BatchJacobianToAffine). -/
def jScale (c : Curve) (x y w : Int) : Pt :=
  .aff (c.red (x * c.red (w * w))) (c.red (y * c.red (c.red (w * w) * w)))

/-- `JacobianToAffine` (raises ValueError on `(0, 0, 0)`). -/
def jToAffine (c : Curve) (P : JPt) : Except PyErr Pt :=
  if P.z = 0 then
    if P.x = 0 ∧ P.y = 0 then .error .valueError else .ok .inf
  else match c.inv P.z with
    | .error e => .error e
    | .ok w => .ok (jScale c P.x P.y w)

/-! ### MultiplyAffine, Multiply -/

/-- the `while n:` loop of MultiplyAffine (note: `p = Double(p)` also runs in the last round). -/
def mulAffLoop (c : Curve) : Nat → Nat → Pt → Pt → Except PyErr Pt
  | 0, _, res, _ => .ok res
  | fuel + 1, n, res, p =>
    if n = 0 then .ok res
    else match (if n % 2 = 1 then add c res p else .ok res) with
      | .error e => .error e
      | .ok res' =>
        match double c p with
        | .error e => .error e
        | .ok p' => mulAffLoop c fuel (n / 2) res' p'

/-- `MultiplyAffine(p, n)` for every Python int `n`. -/
def multiplyAffine (c : Curve) (p : Pt) (n : Int) : Except PyErr Pt :=
  mulAffLoop c (bitLength n.natAbs) n.natAbs .inf (if n < 0 then negate c p else p)

/-- the `while n:` loop of Multiply. -/
def mulJLoop (c : Curve) : Nat → Nat → JPt → JPt → JPt
  | 0, _, res, _ => res
  | fuel + 1, n, res, pj =>
    if n = 0 then res
    else mulJLoop c fuel (n / 2) (if n % 2 = 1 then addJ c res pj else res) (doubleJ c pj)

/-- Multiply after the `p == INFINITY` test and the sign normalisation. -/
def multiplyNat (c : Curve) (p : Pt) (n : Nat) : Except PyErr Pt :=
  if n = 1 then .ok p
  else jToAffine c (mulJLoop c (bitLength n) n infJ (affineToJ p))

/-- `Multiply(p, n)` for every Python int `n`. -/
def multiply (c : Curve) (p : Pt) (n : Int) : Except PyErr Pt :=
  match p with
  | .inf => .ok .inf
  | .aff x y => multiplyNat c (if n < 0 then negate c (.aff x y) else .aff x y) n.natAbs

/-- `IsValidPublicKey`. -/
def isValidPublicKey (c : Curve) (p : Pt) : Except PyErr Bool :=
  if ¬ onCurve c p then .ok false
  else match p with
    | .inf => .ok false
    | .aff x y =>
      if c.h > 1 then
        match multiply c (.aff x y) c.n with
        | .error e => .error e
        | .ok q =>
          if q ≠ .inf then .ok false
          else .ok (¬ (x < 0 ∨ x > (c.p : Int) - 1 ∨ y < 0 ∨ y > (c.p : Int) - 1))
      else .ok (¬ (x < 0 ∨ x > (c.p : Int) - 1 ∨ y < 0 ∨ y > (c.p : Int) - 1))

/-! ### BatchInverse -/

/-- Python truthiness of an entry of `values`: `None` and `0` are skipped. -/
def truthy : Option Int → Option Int
  | some v => if v = 0 then none else some v
  | none => none

/-- first loop: `res[i] = product; product = product * v % mod` for truthy `v`.
Returns `res` and the final `product`. -/
def biForward (c : Curve) : List (Option Int) → Int → List (Option Int) × Int
  | [], prod => ([], prod)
  | v :: vs, prod =>
    match truthy v with
    | some x =>
      match biForward c vs (c.red (prod * x)) with
      | (res, prod') => (some prod :: res, prod')
    | none =>
      match biForward c vs prod with
      | (res, prod') => (none :: res, prod')

/-- second loop, `i = len-1 … 0`: `res[i] = res[i]*inverse % mod; inverse = inverse*v % mod`.
The tail (higher indices) is processed first. Returns the new `res` and the final `inverse`. -/
def biBackward (c : Curve) : List (Option Int) → List (Option Int) → Int → List (Option Int) × Int
  | v :: vs, r :: rs, inv =>
    match biBackward c vs rs inv with
    | (out, inv') =>
      match truthy v, r with
      | some x, some r' => (some (c.red (r' * inv')) :: out, c.red (inv' * x))
      | _, _ => (r :: out, inv')
  | _, _, inv => ([], inv)

/-- `BatchInverse(values)`. -/
def batchInverse (c : Curve) (values : List (Option Int)) : Except PyErr (List (Option Int)) :=
  match biForward c values 1 with
  | (res, product) =>
    match c.inv product with
    | .error e => .error e
    | .ok inverse =>
      match biBackward c values res inverse with
      | (out, inverse') => if inverse' ≠ 1 then .error .arithmeticError else .ok out

/-! ### BatchJacobianToX, BatchJacobianToAffine -/

/-- `BatchJacobianToX`. -/
def batchJToX (c : Curve) (ps : List JPt) : Except PyErr (List (Option Int)) :=
  match batchInverse c (ps.map fun P => some P.z) with
  | .error e => .error e
  | .ok invs => .ok (List.zipWith (fun (P : JPt) (w : Option Int) =>
      match w with
      | none => none
      | some w => some (c.red (P.x * c.red (w * w)))) ps invs)

/-- `BatchJacobianToAffine`. -/
def batchJToAffine (c : Curve) (ps : List JPt) : Except PyErr (List Pt) :=
  match batchInverse c (ps.map fun P => some P.z) with
  | .error e => .error e
  | .ok invs => .ok (List.zipWith (fun (P : JPt) (w : Option Int) =>
      match w with
      | none => Pt.inf
      | some w => jScale c P.x P.y w) ps invs)

/-! ### BatchAddList, BatchDouble, BatchAdd, BatchAddX, BatchAddSubtractX -/

/-- `tmp[i] = (p[0] - q[0]) % mod` when both points are finite, else `None`. -/
def diffX (c : Curve) : Pt → Pt → Option Int
  | .aff x1 _, .aff x2 _ => some (c.red (x1 - x2))
  | _, _ => none

/-- one round of the result loop of BatchAddList (`if v is None`). -/
def addListStep (c : Curve) (p q : Pt) (v : Option Int) : Except PyErr Pt :=
  match v, p, q with
  | some v, .aff x1 y1, .aff x2 y2 => .ok (chord c (c.red (v * (y1 - y2))) x1 y1 x2)
  | _, _, _ => add c p q

def addListLoop (c : Curve) : List Pt → List Pt → List (Option Int) → Except PyErr (List Pt)
  | p :: ps, q :: qs, v :: vs =>
    match addListStep c p q v with
    | .error e => .error e
    | .ok r =>
      match addListLoop c ps qs vs with
      | .error e => .error e
      | .ok rs => .ok (r :: rs)
  | _, _, _ => .ok []

/-- `BatchAddList`. -/
def batchAddList (c : Curve) (ps qs : List Pt) : Except PyErr (List Pt) :=
  if ps.length ≠ qs.length then .error .valueError
  else match batchInverse c (List.zipWith (diffX c) ps qs) with
    | .error e => .error e
    | .ok tmp => addListLoop c ps qs tmp

/-- `tmp[i] = 2 * p[1] % mod` (D3 patch) for finite points. -/
def twoY (c : Curve) : Pt → Option Int
  | .aff _ y => some (c.red (2 * y))
  | .inf => none

/-- pinned tree: `tmp[i] = 2 * p[1]` (unreduced). -/
def twoYPinned : Pt → Option Int
  | .aff _ y => some (2 * y)
  | .inf => none

/-- one round of the result loop of BatchDouble (`if tmp[i] is None`). -/
def doubleStep (c : Curve) (dbl : Pt → Except PyErr Pt) (p : Pt) (v : Option Int) : Except PyErr Pt :=
  match v, p with
  | some v, .aff x y => .ok (tangent c (doubleSlope c x v) x y)
  | _, _ => dbl p

def doubleLoop (c : Curve) (dbl : Pt → Except PyErr Pt) : List Pt → List (Option Int) → Except PyErr (List Pt)
  | p :: ps, v :: vs =>
    match doubleStep c dbl p v with
    | .error e => .error e
    | .ok r =>
      match doubleLoop c dbl ps vs with
      | .error e => .error e
      | .ok rs => .ok (r :: rs)
  | _, _ => .ok []

/-- `BatchDouble` (with the D3 patch). -/
def batchDouble (c : Curve) (ps : List Pt) : Except PyErr (List Pt) :=
  match batchInverse c (ps.map (twoY c)) with
  | .error e => .error e
  | .ok tmp => doubleLoop c (double c) ps tmp

/-- `BatchDouble` of the pinned tree. -/
def batchDoublePinned (c : Curve) (ps : List Pt) : Except PyErr (List Pt) :=
  match batchInverse c (ps.map twoYPinned) with
  | .error e => .error e
  | .ok tmp => doubleLoop c (doublePinned c) ps tmp

/-- one round of BatchAdd (`if v:` — `None` and `0` fall back to `Add`). -/
def batchAddStep (c : Curve) (x1 y1 : Int) (q : Pt) (v : Option Int) : Except PyErr Pt :=
  match truthy v, q with
  | some v, .aff x2 y2 => .ok (chord c (c.red (v * (y1 - y2))) x1 y1 x2)
  | _, _ => add c (.aff x1 y1) q

def mapM₂ {α β γ} (f : α → β → Except PyErr γ) : List α → List β → Except PyErr (List γ)
  | a :: as, b :: bs =>
    match f a b with
    | .error e => .error e
    | .ok r =>
      match mapM₂ f as bs with
      | .error e => .error e
      | .ok rs => .ok (r :: rs)
  | _, _ => .ok []

/-- `BatchAdd(p, points)`. -/
def batchAdd (c : Curve) (p : Pt) (points : List Pt) : Except PyErr (List Pt) :=
  match p with
  | .inf => .ok points
  | .aff x1 y1 =>
    match batchInverse c (points.map (diffX c (.aff x1 y1))) with
    | .error e => .error e
    | .ok tmp => mapM₂ (batchAddStep c x1 y1) points tmp

/-- `self.Add(p, q)[0]`. -/
def addX (c : Curve) (p q : Pt) : Except PyErr (Option Int) :=
  match add c p q with
  | .error e => .error e
  | .ok r => .ok r.x?

/-- one round of BatchAddX. -/
def batchAddXStep (c : Curve) (x1 y1 : Int) (q : Pt) (v : Option Int) : Except PyErr (Option Int) :=
  match truthy v, q with
  | some v, .aff x2 y2 => .ok (some (chordX c (c.red (v * (y1 - y2))) x1 x2))
  | _, _ => addX c (.aff x1 y1) q

/-- `BatchAddX(p, points)`. -/
def batchAddX (c : Curve) (p : Pt) (points : List Pt) : Except PyErr (List (Option Int)) :=
  match p with
  | .inf => .ok (points.map Pt.x?)
  | .aff x1 y1 =>
    match batchInverse c (points.map (diffX c (.aff x1 y1))) with
    | .error e => .error e
    | .ok tmp => mapM₂ (batchAddXStep c x1 y1) points tmp

/-- `(self.Add(p, q)[0], self.Subtract(p, q)[0])`. -/
def addSubX (c : Curve) (p q : Pt) : Except PyErr (Option Int × Option Int) :=
  match add c p q with
  | .error e => .error e
  | .ok s =>
    match subtract c p q with
    | .error e => .error e
    | .ok d => .ok (s.x?, d.x?)

/-- one round of BatchAddSubtractX: `(sums[i], diffs[i])`. -/
def batchAddSubXStep (c : Curve) (x1 y1 : Int) (q : Pt) (v : Option Int) :
    Except PyErr (Option Int × Option Int) :=
  match truthy v, q with
  | some v, .aff x2 y2 =>
    .ok (some (chordX c (c.red (v * (y1 - y2))) x1 x2), some (chordX c (c.red (v * (y1 + y2))) x1 x2))
  | _, _ => addSubX c (.aff x1 y1) q

/-- `BatchAddSubtractX(p, points)`: `(sums, diffs)`. -/
def batchAddSubtractX (c : Curve) (p : Pt) (points : List Pt) :
    Except PyErr (List (Option Int) × List (Option Int)) :=
  match p with
  | .inf => .ok (points.map Pt.x?, points.map Pt.x?)
  | .aff x1 y1 =>
    match batchInverse c (points.map (diffX c (.aff x1 y1))) with
    | .error e => .error e
    | .ok tmp =>
      match mapM₂ (batchAddSubXStep c x1 y1) points tmp with
      | .error e => .error e
      | .ok l => .ok (l.map Prod.fst, l.map Prod.snd)

/-! ### BatchMultiplyG -/

/-- `self._cache`: `multiplier ↦ Multiply(g, multiplier)`, newest entry first. -/
abbrev Cache := List (Nat × Pt)

def Cache.get? (cache : Cache) (k : Nat) : Option Pt :=
  match cache with
  | [] => none
  | (k', P) :: rest => if k' = k then some P else Cache.get? rest k

/-- `steps = (n.bit_length() + window_size - 1) // window_size`, `window_size = 8`. -/
def combSteps (c : Curve) : Nat := (bitLength c.n + 8 - 1) / 8

/-- `range(0, n.bit_length(), steps)`: `cnt` values `j, j+steps, …`. -/
def combMaskAux (steps : Nat) : Nat → Nat → Nat
  | 0, _ => 0
  | cnt + 1, j => (1 <<< j) + combMaskAux steps cnt (j + steps)

/-- `mask = sum(1 << j for j in range(0, n.bit_length(), steps))`. -/
def combMask (c : Curve) : Nat :=
  combMaskAux (combSteps c) ((bitLength c.n + combSteps c - 1) / combSteps c) 0

/-- inner loop over the scalars for one `i`: cache lookup / fill. -/
def bmgPoints (c : Curve) (i mask : Nat) : List Nat → Cache → Except PyErr (List Pt × Cache)
  | [], cache => .ok ([], cache)
  | s :: ss, cache =>
    match cache.get? ((s >>> i) &&& mask) with
    | some P =>
      match bmgPoints c i mask ss cache with
      | .error e => .error e
      | .ok (ps, cache') => .ok (P :: ps, cache')
    | none =>
      match multiply c c.g (((s >>> i) &&& mask : Nat) : Int) with
      | .error e => .error e
      | .ok P =>
        match bmgPoints c i mask ss ((((s >>> i) &&& mask), P) :: cache) with
        | .error e => .error e
        | .ok (ps, cache') => .ok (P :: ps, cache')

/-- rounds `i = k-1, …, 0` (all but the first): `res = BatchAddList(BatchDouble(res), points)`. -/
def bmgLoop (c : Curve) (mask : Nat) (ss : List Nat) : Nat → List Pt → Cache → Except PyErr (List Pt × Cache)
  | 0, res, cache => .ok (res, cache)
  | i + 1, res, cache =>
    match bmgPoints c i mask ss cache with
    | .error e => .error e
    | .ok (pts, cache') =>
      match batchDouble c res with
      | .error e => .error e
      | .ok r1 =>
        match batchAddList c r1 pts with
        | .error e => .error e
        | .ok r2 => bmgLoop c mask ss i r2 cache'

/-- `BatchMultiplyG(scalars)` with `self._cache` passed in and out. (When an exception is raised the
partially filled cache is not reported; `C11.batchMultiplyG_spec` shows this cannot happen on a valid
curve.) -/
def batchMultiplyG (c : Curve) (cache : Cache) (scalars : List Int) : Except PyErr (List Pt × Cache) :=
  match combSteps c with
  | 0 => .error .zeroDivision   -- only for `n = 0` (outside the model's domain)
  | st + 1 =>
    match bmgPoints c st (combMask c) (scalars.map fun x => (x % (c.n : Int)).toNat) cache with
    | .error e => .error e
    | .ok (pts, cache') =>
      bmgLoop c (combMask c) (scalars.map fun x => (x % (c.n : Int)).toNat) st pts cache'

/-! ### PointSequence, PointTable -/

/-- `res[i] = AddJacobian(res[i-1], base_jac)` for `cnt` further entries. -/
def pointSeqJ (c : Curve) (baseJ : JPt) : Nat → JPt → List JPt
  | 0, _ => []
  | cnt + 1, prev => addJ c prev baseJ :: pointSeqJ c baseJ cnt (addJ c prev baseJ)

/-- `PointSequence(base, n)`; `n = 0` raises IndexError (`res[0] = …` on an empty list). -/
def pointSequence (c : Curve) (base : Pt) (n : Nat) : Except PyErr (List Pt) :=
  match n with
  | 0 => .error .indexError
  | k + 1 => batchJToAffine c (infJ :: pointSeqJ c (affineToJ base) k infJ)

/-- Python `dict` as an association list in insertion order; `None` keys are possible
(x-coordinate of INFINITY). -/
abbrev XTable := List (Option Int × Nat)

/-- `d[k] = v`. -/
def XTable.set : XTable → Option Int → Nat → XTable
  | [], k, v => [(k, v)]
  | (k', v') :: rest, k, v => if k' = k then (k, v) :: rest else (k', v') :: XTable.set rest k v

/-- `d.get(k)` / `k in d`. -/
def XTable.get? : XTable → Option Int → Option Nat
  | [], _ => none
  | (k', v') :: rest, k => if k' = k then some v' else XTable.get? rest k

/-- inner loop: `for j, x in enumerate(xs): res[x] = im + j`. -/
def tableRow : XTable → List (Option Int) → Nat → XTable
  | t, [], _ => t
  | t, x :: xs, v => tableRow (t.set x v) xs (v + 1)

/-- outer loop over `sequence_high`, `im = i * m`. -/
def tableRows (c : Curve) (low : List Pt) (m : Nat) : List Pt → Nat → XTable → Except PyErr XTable
  | [], _, t => .ok t
  | p :: ps, i, t =>
    match batchAddX c p low with
    | .error e => .error e
    | .ok xs => tableRows c low m ps (i + 1) (tableRow t xs (i * m))

/-- `PointTable(base, n)`; `m` is the value of `int(math.sqrt(n))` (float oracle). -/
def pointTable (c : Curve) (base : Pt) (n m : Nat) : Except PyErr XTable :=
  if m = 0 then .error .zeroDivision
  else match pointSequence c base m with
    | .error e => .error e
    | .ok low =>
      match multiply c base m with
      | .error e => .error e
      | .ok bm =>
        match pointSequence c bm ((n + m - 1) / m) with
        | .error e => .error e
        | .ok high => tableRows c low m high 0 []

/-! ### parameter validation (not a function of the code; evaluated on the regenerated constants) -/

def isOkInf : Except PyErr Pt → Bool
  | .ok .inf => true
  | _ => false

/-- everything that is checked by evaluation for a named curve: `p` odd and `> 3`, `n > 1`,
cofactor `1`, non-zero discriminant, the generator has reduced coordinates, lies on the curve,
is not the point at infinity, and `n·G = ∞` computed by the model's own `multiply`
(Jacobian double-and-add + one modular inversion). -/
def Curve.paramsOK (c : Curve) : Bool :=
  decide (3 < c.p) && decide (c.p % 2 = 1) && decide (1 < c.n) && decide (c.h = 1) &&
  c.discrNonzero &&
  decide (0 ≤ c.gx) && decide (c.gx < c.p) && decide (0 ≤ c.gy) && decide (c.gy < c.p) &&
  onCurve c c.g && (c.g != Pt.inf) && isOkInf (multiply c c.g c.n)

end Paranoid.Ec
