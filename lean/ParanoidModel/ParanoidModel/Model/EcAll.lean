/-
Model/EcAll.lean — end-to-end models of the two entry points `paranoid.CheckAllEC` and
`paranoid.CheckAllECDSASigs`, COMPOSED from the existing pieces.  No Mathlib.

    checkAllECFull         = Checks.checkAllEC .repaired O I arts
    checkAllECDSASigsFull  = Checks.checkAllECDSASigs .repaired O I arts

where the per-check per-artefact verdict oracle `O` (and, for CheckIssuerKey, the verdicts `I` of
the inner `paranoid.CheckAllEC` on the de-duplicated issuer keys) are no longer inputs: they are
COMPUTED, by check NAME over the regenerated registries `Consts.ecAllChecks` /
`Consts.ecdsaAllChecks`, from
  * Model/Bsgs.lean: `checkValidECKey`, `checkWeakCurve`, `checkWeakECPrivateKey`,
    `checkECKeySmallDifference` on `CURVE_FACTORY` as regenerated into Generated/Consts.lean, and
  * Model/EcdsaChecks.lean: `check k O factory sigs` for the six `BiasedBaseCheck`s and
    `CheckCr50U2f`.
What remains an oracle (explicit argument, recorded by the harness at the call site):
  * the float values `int(math.sqrt(·))` of BatchDL / PointTable (`EcOracle`),
  * the answers of the lattice solvers and the two Python `set` iteration orders
    (`EcdsaChecks.GroupOracle` per registered check and curve id),
and the state found in the process-wide `EcCurve` singletons: `_table` / `_table_size` (one
`StateG τ` per `CURVE_FACTORY` item, threaded through the checks in registry order — also through
the inner `CheckAllEC` of CheckIssuerKey, which uses the very same curve objects) and `_cache`
(inside `EcdsaChecks.Factory`, threaded through the nonce checks).

A registry name without a model is `Err.noModel` — never a silent pass.  A disagreement between a
check model and the bookkeeping layer about WHICH artefacts receive an entry
(`KeyVerdict = none` / `verdictOf = none` against `Checks.applicable`) is `Err.shape`; Props/EcAll
proves that it cannot happen with the regenerated factory.

Constructor / literal parameters: `EcParams.bound` is the literal `2**32` that `ExtendedBatchDL`
passes to `BatchDL`, `EcParams.maxDiff` the `max_diff` of the `CheckECKeySmallDifference`
singleton (`EcParams.real` = `2**32`, `2**24`); the quick tier of the harness runs the real code with
both reduced and tells the model the same numbers.

Verdict conversion (which `AttachInfo` each check makes — ec_single_checks.py,
ec_aggregate_checks.py):
  CheckWeakECPrivateKey       `(INFO_NAME_DISCRETE_LOG, format(int(dl), "x"))`
  CheckECKeySmallDifference   `(INFO_NAME_DISCRETE_LOG_DIFF, "key - (%x, %x) = %d * G" % (qx, qy, dl))`
  CheckValidECKey / CheckWeakCurve   nothing
-/
import ParanoidModel.Model.Bsgs
import ParanoidModel.Model.EcdsaChecks
namespace Paranoid.EcAll
open Paranoid Paranoid.Ec Paranoid.Bsgs

/-- what a run of the composed model can end with instead of a result. -/
inductive Err
  /-- the Python code raises this exception -/
  | py (e : PyErr)
  /-- a registered check has no model -/
  | noModel (name : String)
  /-- a check model and the bookkeeping layer disagree about which artefacts get an entry -/
  | shape
  deriving DecidableEq, Repr

def liftPy {α} : Except PyErr α → Except Err α
  | .ok a => .ok a
  | .error e => .error (.py e)

/-! ### `CURVE_FACTORY` and the parameters -/

/-- `ec_util.CURVE_FACTORY.items()` as regenerated from /repo (dict order, `None` entries kept). -/
def ecFactory : Bsgs.Factory :=
  Consts.ecCurveFactory.map fun e => ⟨e.1, e.2.map EcdsaChecks.curveOfTuple⟩

structure EcParams where
  /-- the literal `2**32` in `ExtendedBatchDL` -/
  bound : Nat
  /-- `CheckECKeySmallDifference._max_diff` -/
  maxDiff : Nat
  deriving DecidableEq, Repr

/-- the parameters of the registered singletons. -/
def EcParams.real : EcParams := ⟨2 ^ 32, 2 ^ 24⟩

/-- the float oracles of ONE `CheckAllEC` run, parallel to `CURVE_FACTORY.items()`. -/
structure EcOracle where
  /-- CheckWeakECPrivateKey: `(int(math.sqrt(bound * len(all_points))), int(math.sqrt(table_size)))` -/
  wk : List (Nat × Nat)
  /-- CheckECKeySmallDifference: `int(math.sqrt(max_diff))` -/
  sd : List Nat

/-! ### CheckWeakECPrivateKey with the literal `2**32` as a parameter -/

/-- `Bsgs.weakKeyLoop` with `ExtendedBatchDL`'s `2**32` replaced by `bound`
(`weakKeyLoopB I (2^32) = weakKeyLoop I`, Proofs/EcAll). -/
def weakKeyLoopB {τ} (I : TableImpl τ) (bound : Nat) (keys : List ECKey) :
    Factory → List (StateG τ) → List (Nat × Nat) → List KeyVerdict →
    Except PyErr (List KeyVerdict × List (StateG τ))
  | e :: es, st :: sts, o :: os, res =>
    match e.curve with
    | none => consState st (weakKeyLoopB I bound keys es sts os res)
    | some c =>
      if (groupPoints e.id keys).isEmpty then
        consState st (weakKeyLoopB I bound keys es sts os res)
      else
        match extendedBatchDLB I c bound st (groupPoints e.id keys) o.1 o.2 with
        | .error err => .error err
        | .ok (dls, st') =>
          consState st' (weakKeyLoopB I bound keys es sts os
            (scatter res (keyIdxs e.id keys 0) (dls.map dlogVerdict)))
  | _, _, _, res => .ok (res, [])

def checkWeakECPrivateKeyB {τ} (I : TableImpl τ) (bound : Nat) (f : Factory)
    (sts : List (StateG τ)) (orc : List (Nat × Nat)) (keys : List ECKey) :=
  weakKeyLoopB I bound keys f sts orc (List.replicate keys.length none)

/-! ### verdict conversion -/

/-- `paranoid_pb2.ECKey` as the EC checks read it. -/
def keyOf (a : Artifact) : ECKey := ⟨a.curve, a.point.1, a.point.2⟩

def infoNameDiscreteLog : String := "DISCRETE_LOG"
def infoNameDiscreteLogDiff : String := "DISCRETE_LOG_DIFF"

/-- `"key - (%x, %x) = %d * G" % (q[0], q[1], dl)`. -/
def relString (r : Rel) : String :=
  "key - (" ++ Proto.hexInt r.qx ++ ", " ++ Proto.hexInt r.qy ++ ") = " ++ toString r.dl ++ " * G"

/-- the `util.AttachInfo(test_info, name, value)` call of a check. -/
def infoOf : Info → String × AttachedValue
  | .dlog v => (infoNameDiscreteLog, .raw (Proto.hexInt v))
  | .diff r => (infoNameDiscreteLogDiff, .raw (relString r))

def toVerdict (kv : KV) : Verdict := ⟨kv.result, none, kv.info.map infoOf⟩

/-- "negative, nothing attached". -/
def noVerdict : Verdict := ⟨false, none, none⟩

/-- verdict of the `j`-th registered check on the `i`-th artefact (positions without an entry are
never read by the bookkeeping layer: `shapeOK`). -/
def verdictAt (rows : List (List KeyVerdict)) (j i : Nat) : Verdict :=
  match rows[j]? with
  | some row =>
    match row[i]? with
    | some (some kv) => toVerdict kv
    | _ => noVerdict
  | none => noVerdict

/-! ### the registered EC checks, by name, with the `_table` state threaded through -/

/-- `Check(artifacts)` of the EC check registered under `name`. -/
def runEcCheckG {τ} (I : TableImpl τ) (p : EcParams) (o : EcOracle) (keys : List ECKey)
    (name : String) (sts : List (StateG τ)) :
    Except Err (List KeyVerdict × List (StateG τ)) :=
  if name = "CheckValidECKey" then
    match checkValidECKey ecFactory keys with
    | .error e => .error (.py e)
    | .ok row => .ok (row, sts)
  else if name = "CheckWeakCurve" then .ok (checkWeakCurve ecFactory keys, sts)
  else if name = "CheckWeakECPrivateKey" then
    liftPy (checkWeakECPrivateKeyB I p.bound ecFactory sts o.wk keys)
  else if name = "CheckECKeySmallDifference" then
    liftPy (checkECKeySmallDifferenceG I ecFactory sts o.sd keys p.maxDiff)
  else .error (.noModel name)

/-- the checks of a registry one after another on the same curve objects. -/
def ecVerdictsG {τ} (I : TableImpl τ) (p : EcParams) (o : EcOracle) (keys : List ECKey) :
    List String → List (StateG τ) → Except Err (List (List KeyVerdict) × List (StateG τ))
  | [], sts => .ok ([], sts)
  | name :: names, sts =>
    match runEcCheckG I p o keys name sts with
    | .error e => .error e
    | .ok (row, sts') =>
      match ecVerdictsG I p o keys names sts' with
      | .error e => .error e
      | .ok (rows, sts'') => .ok (row :: rows, sts'')

/-- one check: a verdict per artefact, and `SetTestResult` is called exactly for the artefacts the
bookkeeping layer writes an entry for. -/
def rowOK (c : CheckSpec) (arts : List Artifact) (row : List KeyVerdict) : Bool :=
  row.length == arts.length && (arts.zip row).all fun x => x.2.isSome == applicable c x.1

def shapeOK : List CheckSpec → List Artifact → List (List KeyVerdict) → Bool
  | [], _, [] => true
  | c :: cs, arts, row :: rows => !c.issuer && rowOK c arts row && shapeOK cs arts rows
  | _, _, _ => false

/-- no EC check runs an inner `CheckAllEC`. -/
def noInner : Nat → Nat → Nat → Verdict := fun _ _ _ => noVerdict

/-- the verdict rows of all registered EC checks on a batch of keys. -/
def ecRowsG {τ} (I : TableImpl τ) (p : EcParams) (o : EcOracle) (sts : List (StateG τ))
    (arts : List Artifact) : Except Err (List (List KeyVerdict) × List (StateG τ)) :=
  match ecVerdictsG I p o (arts.map keyOf) (ecAll.map (·.name)) sts with
  | .error e => .error e
  | .ok (rows, sts') => if shapeOK ecAll arts rows then .ok (rows, sts') else .error .shape

/-- `paranoid.CheckAllEC(ec_keys)`: annotated batch, return value, `_table` states afterwards. -/
def checkAllECFullG {τ} (I : TableImpl τ) (p : EcParams) (o : EcOracle) (sts : List (StateG τ))
    (arts : List Artifact) : Except Err ((List Artifact × Bool) × List (StateG τ)) :=
  match ecRowsG I p o sts arts with
  | .error e => .error e
  | .ok (rows, sts') =>
    match checkAllEC .repaired (verdictAt rows) noInner arts with
    | .error e => .error (.py e)
    | .ok r => .ok (r, sts')

/-- … on the association-list dict (the subject of Props/EcAll). -/
def checkAllECFull (p : EcParams) (o : EcOracle) (sts : List EcState) (arts : List Artifact) :=
  checkAllECFullG listImpl p o sts arts

/-! ### CheckAllECDSASigs -/

/-- `paranoid_pb2.ECDSASignature`: `test_info` and what the checks read. -/
structure SigArt where
  info : TestInfo
  sig : EcdsaChecks.Sig
  deriving DecidableEq, Repr

/-- the bookkeeping view: curve id and `PublicPoint` of `issuer_key_info`. -/
def SigArt.art (a : SigArt) : Artifact := ⟨a.info, a.sig.curve, a.sig.key⟩

/-- which `Check` method and constructor arguments a registered signature check has:
`BiasedBaseCheck(bias=hnp.Bias.X)` / `BiasedBaseCheck(lcg_params=(LcgName.X, SearchStrategy.DEFAULT))`
by enum VALUE, `CheckCr50U2f`; `none`: not a nonce check. (The harness compares this table with the
registered singletons: op `ecall.kinds`.) -/
def kindOfName (name : String) : Option EcdsaChecks.Kind :=
  if name = "CheckLCGNonceGMP" then some (.biased (.lcg 1 7))
  else if name = "CheckLCGNonceJavaUtilRandom" then some (.biased (.lcg 2 7))
  else if name = "CheckNonceMSB" then some (.biased (.bias 1))
  else if name = "CheckNonceCommonPrefix" then some (.biased (.bias 2))
  else if name = "CheckNonceCommonPostfix" then some (.biased (.bias 3))
  else if name = "CheckNonceGeneralized" then some (.biased (.bias 4))
  else if name = "CheckCr50U2f" then some .cr50
  else none

/-- what one registered signature check produced. -/
inductive StepOut
  /-- a nonce check: `(batch index, verdict)` in the order written, and its solver calls -/
  | direct (writes : List (Nat × Verdict)) (calls : List (Nat × List (List EcdsaChecks.Call)))
  /-- CheckIssuerKey: the verdict rows of the inner `CheckAllEC` on `pks_pb` -/
  | inner (rows : List (List KeyVerdict))

/-- the process-wide curve objects: `_table` states (parallel to `ecFactory`) and `_cache`s. -/
structure SigState (τ : Type) where
  tables : List (StateG τ)
  factory : EcdsaChecks.Factory

/-- oracles of one `CheckAllECDSASigs` run, by position `j` in the registry. -/
structure SigOracle where
  /-- solver answers and `set` orders of the `j`-th check, per curve id -/
  solver : Nat → Nat → EcdsaChecks.GroupOracle
  /-- float oracles of the inner `CheckAllEC` when the `j`-th check is CheckIssuerKey -/
  floats : Nat → EcOracle

/-- does the nonce check write an entry exactly for the artefacts the bookkeeping layer expects? -/
def writesOK (c : CheckSpec) (arts : List Artifact) (writes : List (Nat × Verdict)) : Bool :=
  !c.issuer && arts.zipIdx.all fun x =>
    (EcdsaChecks.verdictOf writes x.2).isSome == applicable c x.1

/-- `Check(artifacts)` of the signature check registered as `c` at position `j`. -/
def runSigStepG {τ} (I : TableImpl τ) (p : EcParams) (O : SigOracle) (arts : List Artifact)
    (sigs : List EcdsaChecks.Sig) (c : CheckSpec) (j : Nat) (st : SigState τ) :
    Except Err (StepOut × SigState τ) :=
  if c.name = "CheckIssuerKey" then
    if c.issuer then
      match ecRowsG I p (O.floats j) st.tables (issuerKeys .repaired arts) with
      | .error e => .error e
      | .ok (rows, tables') => .ok (.inner rows, ⟨tables', st.factory⟩)
    else .error .shape
  else
    match kindOfName c.name with
    | none => .error (.noModel c.name)
    | some k =>
      match EcdsaChecks.check k (O.solver j) st.factory sigs with
      | .error e => .error (.py e)
      | .ok res =>
        if writesOK c arts res.writes then
          .ok (.direct res.writes res.calls, ⟨st.tables, res.factory⟩)
        else .error .shape

/-- the registered checks one after another on the same curve objects. -/
def sigStepsG {τ} (I : TableImpl τ) (p : EcParams) (O : SigOracle) (arts : List Artifact)
    (sigs : List EcdsaChecks.Sig) :
    List (CheckSpec × Nat) → SigState τ → Except Err (List StepOut × SigState τ)
  | [], st => .ok ([], st)
  | cj :: rest, st =>
    match runSigStepG I p O arts sigs cj.1 cj.2 st with
    | .error e => .error e
    | .ok (out, st') =>
      match sigStepsG I p O arts sigs rest st' with
      | .error e => .error e
      | .ok (outs, st'') => .ok (out :: outs, st'')

/-- `O j i`: verdict of the `j`-th registered check on the `i`-th signature. -/
def sigVerdictAt (outs : List StepOut) (j i : Nat) : Verdict :=
  match outs[j]? with
  | some (.direct writes _) =>
    match EcdsaChecks.verdictOf writes i with
    | some v => v
    | none => noVerdict
  | _ => noVerdict

/-- `I j jj k`: verdict of the `jj`-th active EC check on the `k`-th distinct issuer key, when the
`j`-th registered check is CheckIssuerKey. -/
def sigInnerAt (outs : List StepOut) (j jj k : Nat) : Verdict :=
  match outs[j]? with
  | some (.inner rows) => verdictAt rows jj k
  | _ => noVerdict

structure SigRun (τ : Type) where
  /-- annotated batch and return value -/
  result : List Artifact × Bool
  /-- what every registered check produced (verdicts, solver calls, inner rows) -/
  outs : List StepOut
  /-- the curve objects afterwards -/
  state : SigState τ

/-- `paranoid.CheckAllECDSASigs(ecdsa_sigs)`. -/
def checkAllECDSASigsFullG {τ} (I : TableImpl τ) (p : EcParams) (O : SigOracle)
    (st : SigState τ) (sarts : List SigArt) : Except Err (SigRun τ) :=
  match sigStepsG I p O (sarts.map SigArt.art) (sarts.map SigArt.sig) ecdsaAll.zipIdx st with
  | .error e => .error e
  | .ok (outs, st') =>
    match checkAllECDSASigs .repaired (sigVerdictAt outs) (sigInnerAt outs)
        (sarts.map SigArt.art) with
    | .error e => .error (.py e)
    | .ok r => .ok ⟨r, outs, st'⟩

def checkAllECDSASigsFull (p : EcParams) (O : SigOracle) (st : SigState XTable)
    (sarts : List SigArt) := checkAllECDSASigsFullG listImpl p O st sarts

/-- the curve objects of a fresh process: empty tables, empty caches. -/
def SigState.fresh {τ} (I : TableImpl τ) : SigState τ :=
  ⟨ecFactory.map fun _ => StateG.init I, EcdsaChecks.namedFactory⟩

end Paranoid.EcAll
