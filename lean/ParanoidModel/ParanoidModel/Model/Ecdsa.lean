/-
Model/Ecdsa.lean — ECDSA signature plumbing of paranoid_crypto/lib/ec_util.py and util.py:
`EcCurve.TransformOrderLen`, `EcCurve.HiddenNumberParams`, `PublicPoint`, `ECDSAValues`,
`util.Hex2Bytes`, `util.Bytes2Int`, `util.Int2Bytes`.

Only the curve order `n` enters these functions (no point arithmetic).  No Mathlib.
-/
import ParanoidModel.Model.Basic
namespace Paranoid

/-! ### EcCurve.TransformOrderLen

```python
shift = hlen - self.n.bit_length()
if shift > 0:
  h >>= shift
return h % self.n
```
-/

/-- the `if shift > 0: h >>= shift` part, on Python ints (`>>` on a negative int floors, as
`Int.shiftRight` does). -/
def orderShift (n : Nat) (h hlen : Int) : Int :=
  if hlen - (bitLength n : Int) > 0 then h >>> (hlen - (bitLength n : Int)).toNat else h

/-- `EcCurve.TransformOrderLen(h, hlen)` for arbitrary Python ints `h`, `hlen` and curve
order `n ≥ 0` (`mpz % 0` raises `ZeroDivisionError`). The result of `%` with a positive
modulus is in `[0, n)`. -/
def transformOrderLen (n : Nat) (h hlen : Int) : Except PyErr Nat :=
  if n = 0 then .error .zeroDivision
  else .ok (orderShift n h hlen % (n : Int)).toNat

/-! ### EcCurve.HiddenNumberParams

```python
si = gmpy.invert(s, self.n)
a = z * si % self.n
b = r * si % self.n
return (a, b)
```
-/

/-- `x * si % n` for a Python int `x`, `0 ≤ si`, `n > 0`. -/
def mulMod (x : Int) (si n : Nat) : Nat := (x * (si : Int) % (n : Int)).toNat

/-- `EcCurve.HiddenNumberParams(r, s, z)`; `gmpy.invert` raises `ZeroDivisionError` when `s`
has no inverse modulo `n` (in particular for `s ≡ 0` and for `n = 0`). -/
def hiddenNumberParams (n : Nat) (r s z : Int) : Except PyErr (Nat × Nat) :=
  match invMod s n with
  | .error e => .error e
  | .ok si => .ok (mulMod z si n, mulMod r si n)

/-- textbook ECDSA `s` (FIPS 186-4 section 6.4): `k⁻¹·(z + r·d) mod n`; raises as
`gmpy2.invert` does when `k` has no inverse. Specification-side definition (the library has no
signer): it is compared on every run with the harness's independent reference signer, and
`Props/C09Sign.lean` proves that what it produces is what `hiddenNumberParams` inverts. -/
def signS (n : Nat) (r z d k : Int) : Except PyErr Nat :=
  match invMod k n with
  | .error e => .error e
  | .ok ki => .ok (mulMod (z + r * d) ki n)

/-! ### PublicPoint / ECDSAValues (protobuf `bytes` fields → integers) -/

/-- `PublicPoint(key)`: `(Bytes2Int(key.x), Bytes2Int(key.y))`. -/
def publicPoint (x y : List Nat) : Nat × Nat := (bytes2int x, bytes2int y)

/-- `ECDSAValues(sig, curve)`: `(r, s, z)` with
`z = curve.TransformOrderLen(Bytes2Int(message_hash), len(message_hash) * 8)`. -/
def ecdsaValues (n : Nat) (r s messageHash : List Nat) : Except PyErr (Nat × Nat × Nat) :=
  match transformOrderLen n (bytes2int messageHash) ((messageHash.length * 8 : Nat) : Int) with
  | .error e => .error e
  | .ok z => .ok (bytes2int r, bytes2int s, z)

/-! ### util.Int2Bytes on a Python int -/

/-- `util.Int2Bytes(v)`: `int.to_bytes(v, (v.bit_length() + 7) // 8, 'big')`; a negative
argument raises `OverflowError` ("can't convert negative int to unsigned"). -/
def int2bytesI (v : Int) : Except PyErr (List Nat) :=
  match v with
  | .ofNat n => .ok (int2bytes n)
  | .negSucc _ => .error .overflow

/-! ### util.Hex2Bytes

```python
if len(hexstr_val) % 2 != 0:
  return bytes.fromhex('0' + hexstr_val)
return bytes.fromhex(hexstr_val)
```
`bytes.fromhex` (CPython 3.12 `_PyBytes_FromHex`): before each byte, ASCII whitespace
(`Py_ISSPACE`: 0x09–0x0d, 0x20) is skipped; then exactly two hex digits (either case) are
required; anything else — including a non-ASCII character anywhere — is a `ValueError`.
-/

def hexVal? (c : Char) : Option Nat :=
  if 48 ≤ c.toNat ∧ c.toNat ≤ 57 then some (c.toNat - 48)          -- '0'..'9'
  else if 97 ≤ c.toNat ∧ c.toNat ≤ 102 then some (c.toNat - 87)    -- 'a'..'f'
  else if 65 ≤ c.toNat ∧ c.toNat ≤ 70 then some (c.toNat - 55)     -- 'A'..'F'
  else none

def isPySpace (c : Char) : Bool := c.toNat == 32 || (9 ≤ c.toNat && c.toNat ≤ 13)

/-- one byte from two characters. -/
def hexPair? (c d : Char) : Option Nat :=
  match hexVal? c, hexVal? d with
  | some t, some b => some (t * 16 + b)
  | _, _ => none

/-- `bytes.fromhex` on the list of characters of the string. -/
def fromHex : List Char → Except PyErr (List Nat)
  | [] => .ok []
  | [c] => if isPySpace c then .ok [] else .error .valueError
  | c :: d :: rest =>
    if isPySpace c then fromHex (d :: rest)
    else match hexPair? c d with
      | none => .error .valueError
      | some b =>
        match fromHex rest with
        | .error e => .error e
        | .ok bs => .ok (b :: bs)

/-- `util.Hex2Bytes`. -/
def hex2bytes (s : List Char) : Except PyErr (List Nat) :=
  if s.length % 2 ≠ 0 then fromHex ('0' :: s) else fromHex s

end Paranoid
