/-
Model/EcdsaChecks.lean — the ECDSA signature-check layer of
`paranoid_crypto/lib/ecdsa_sig_checks.py`, function by function:
`_MapIssuerSigIndexes`, `_IssuerDLogs`, `BiasedBaseCheck.__init__`, `BiasedBaseCheck.Check`
(CheckLCGNonceGMP, CheckLCGNonceJavaUtilRandom, CheckNonceMSB, CheckNonceCommonPrefix,
CheckNonceCommonPostfix, CheckNonceGeneralized) and `CheckCr50U2f.Check`.  No Mathlib.

ORACLES (explicit arguments; the harness records them at the call site)
* the lattice solvers `hnp.HiddenNumberProblem`, `hnp.HiddenNumberProblemForCurve`,
  `cr50_u2f_weakness.Cr50U2fGuesses`: every CALL is an oracle.  The model computes the ARGUMENTS
  of every call (`Call`) and receives the returned guess list (`GroupOracle.answer`);
* Python `set` iteration order, twice:
    `unique_vals = list({ECDSAValues(...) for idx in idxs})`     → `GroupOracle.uniq j`
    `list(guesses)` handed to `_IssuerDLogs`                      → `GroupOracle.guessList`
  The model takes the enumeration as given and `groupConsistent` says that it IS an enumeration
  (no duplicates, same elements) of the set the code builds.  The theorems that need it take it
  as hypothesis, the soundness theorems hold for every list.
* `EcCurve._cache` is state of the curve object: passed in and out (`CurveObj`).

Data conventions
* an `ECDSASignature` is seen through `issuer_key_info.curve_type`, the byte fields
  `issuer_key_info.x/y` and `ecdsa_sig_info.r/s/message_hash` (lists of byte values);
* `PublicPoint` keys are the RAW integers of the byte fields (never reduced mod p);
  `guess_pk in pks` compares the point computed by `BatchMultiplyG` with those raw tuples, the
  point at infinity `(None, None)` is never a key;
* `CURVE_FACTORY.items()` is the `Factory` argument (dict order; `None` entries kept);
* a `Check` call that raises reports only the exception (results already written for earlier
  curve groups are not modelled).
-/
import ParanoidModel.Model.Proto
import ParanoidModel.Model.Ec
import ParanoidModel.Model.Ecdsa
import ParanoidModel.Model.Checks
namespace Paranoid.EcdsaChecks
open Paranoid Paranoid.Ec

/-- `PublicPoint(...)`: raw unreduced `(x, y)`. -/
abbrev Key := Nat × Nat

/-- `ECDSAValues(...)`: `(r, s, z)`. -/
abbrev Triple := Nat × Nat × Nat

/-- `paranoid_pb2.ECDSASignature` as the nonce checks read it. -/
structure Sig where
  curve : Nat
  kx : List Nat
  ky : List Nat
  r : List Nat
  s : List Nat
  mh : List Nat
  deriving DecidableEq, Repr

/-- `ec_util.PublicPoint(sig.issuer_key_info)`. -/
def Sig.key (s : Sig) : Key := publicPoint s.kx s.ky

/-! ### `_MapIssuerSigIndexes`

```python
pks = collections.defaultdict(list)
for i, sig in enumerate(sigs):
  pks[ec_util.PublicPoint(sig.issuer_key_info)].append(i)
```
-/

/-- `dict[tuple[int,int], list[int]]` in insertion order. -/
abbrev Pks := List (Key × List Nat)

/-- `pks.get(k)`. -/
def Pks.get? : Pks → Key → Option (List Nat)
  | [], _ => none
  | (k', l) :: rest, k => if k' = k then some l else Pks.get? rest k

/-- `pks[k].append(i)` on a `defaultdict(list)`. -/
def Pks.push : Pks → Key → Nat → Pks
  | [], k, i => [(k, [i])]
  | (k', l) :: rest, k, i =>
    if k' = k then (k', l ++ [i]) :: rest else (k', l) :: Pks.push rest k i

/-- the loop, `i` = current value of the `enumerate` counter. -/
def mapIssuerFrom : Nat → List Sig → Pks → Pks
  | _, [], pks => pks
  | i, s :: ss, pks => mapIssuerFrom (i + 1) ss (pks.push s.key i)

/-- `_MapIssuerSigIndexes(sigs)`. -/
def mapIssuerSigIndexes (sigs : List Sig) : Pks := mapIssuerFrom 0 sigs []

/-! ### `_IssuerDLogs`

```python
issuer_dlogs = {}
for i, guess_pk in enumerate(curve.BatchMultiplyG(guesses)):
  if guess_pk in pks:
    for idx in pks[guess_pk]:
      issuer_dlogs[idx] = guesses[i]
return issuer_dlogs
```
-/

/-- `dict[int, int]` in insertion order. -/
abbrev DLogs := List (Nat × Int)

/-- `i in issuer_dlogs` / `issuer_dlogs[i]`. -/
def DLogs.get? : DLogs → Nat → Option Int
  | [], _ => none
  | (k', v) :: rest, k => if k' = k then some v else DLogs.get? rest k

/-- `issuer_dlogs[k] = v`. -/
def DLogs.set : DLogs → Nat → Int → DLogs
  | [], k, v => [(k, v)]
  | (k', v') :: rest, k, v => if k' = k then (k, v) :: rest else (k', v') :: DLogs.set rest k v

/-- `guess_pk == key` for a dict key `key` (a tuple of two ints): `(None, None)` equals no key,
a finite point is compared coordinate by coordinate as integers (the computed point is reduced,
the key is raw). -/
def keyEqPt (k : Key) : Pt → Bool
  | .inf => false
  | .aff x y => (k.1 : Int) == x && (k.2 : Int) == y

/-- `pks[guess_pk]` if `guess_pk in pks`. -/
def Pks.lookupPt : Pks → Pt → Option (List Nat)
  | [], _ => none
  | (k, l) :: rest, P => if keyEqPt k P then some l else Pks.lookupPt rest P

/-- `for idx in idxs: issuer_dlogs[idx] = g`. -/
def assignAll : DLogs → List Nat → Int → DLogs
  | dl, [], _ => dl
  | dl, i :: is, g => assignAll (dl.set i g) is g

/-- body of the outer loop for one `(guess_pk, guesses[i])`. -/
def dlogStep (pks : Pks) (dl : DLogs) (P : Pt) (g : Int) : DLogs :=
  match pks.lookupPt P with
  | some idxs => assignAll dl idxs g
  | none => dl

/-- the outer loop over `zip(BatchMultiplyG(guesses), guesses)`. -/
def dlogLoop (pks : Pks) : List Pt → List Int → DLogs → DLogs
  | P :: ps, g :: gs, dl => dlogLoop pks ps gs (dlogStep pks dl P g)
  | _, _, dl => dl

/-- `_IssuerDLogs(guesses, pks, curve)` with `curve._cache` passed in and out. -/
def issuerDLogs (c : Curve) (cache : Cache) (guesses : List Int) (pks : Pks) :
    Except PyErr (DLogs × Cache) :=
  match batchMultiplyG c cache guesses with
  | .error e => .error e
  | .ok (pts, cache') => .ok (dlogLoop pks pts guesses [], cache')

/-! ### the window loop of `BiasedBaseCheck.Check`

```python
for size in (24, 48, 120):
  for i in range(0, len(a), size):
    guesses.update(hnp.HiddenNumberProblem(a[i:i + size], b[i:i + size], None, curve.n, self.bias))
  if len(a) <= size:
    break
```
-/

/-- `[l[i:i+size] for i in range(0, len(l), size)]` (`size ≥ 1`; fuel `len(l)`). -/
def chunksAux {α} (size : Nat) : Nat → List α → List (List α)
  | 0, _ => []
  | fuel + 1, l =>
    match l with
    | [] => []
    | x :: xs => (x :: xs).take size :: chunksAux size fuel ((x :: xs).drop size)

def chunks {α} (size : Nat) (l : List α) : List (List α) := chunksAux size l.length l

/-- the `for size in sizes:` loop with its `break`. -/
def sizeLoop {α} : List Nat → List α → List (List α)
  | [], _ => []
  | size :: rest, l => chunks size l ++ (if l.length ≤ size then [] else sizeLoop rest l)

/-- the literal `(24, 48, 120)`. -/
def windowSizes : List Nat := [24, 48, 120]

/-! ### oracle calls -/

/-- `BiasedBaseCheck`: which branch `Check` takes, with the values handed through to the solver
(`hnp.Bias` value, or `(LcgName value, SearchStrategy value)`). -/
inductive Mode
  | bias (b : Nat)
  | lcg (name flags : Nat)
  deriving DecidableEq, Repr

/-- `BiasedBaseCheck.__init__(bias, lcg_params)`: exactly one of the two must be given
(enum members and 2-tuples are truthy, `None` is not). -/
def biasedInit (bias : Option Nat) (lcg : Option (Nat × Nat)) : Except PyErr Mode :=
  match bias, lcg with
  | some b, none => .ok (.bias b)
  | none, some p => .ok (.lcg p.1 p.2)
  | _, _ => .error .valueError

/-- which `Check` method. -/
inductive Kind
  | biased (m : Mode)
  | cr50
  deriving DecidableEq, Repr

/-- one call of a lattice solver, with the arguments the check passes:
`hnp.HiddenNumberProblem(a, b, None, n, bias)`,
`hnp.HiddenNumberProblemForCurve(a, b, curve_id, lcg_params[0], lcg_params[1])`,
`cr50_u2f_weakness.Cr50U2fGuesses(r1, s1, z1, r2, s2, z2, n)`. -/
inductive Call
  | hnp (a b : List Nat) (n : Nat) (bias : Nat)
  | hnpCurve (a b : List Nat) (curveId : Nat) (name flags : Nat)
  | cr50 (v1 v2 : Triple) (n : Nat)
  deriving DecidableEq, Repr

/-- `for i in range(len(unique_vals)): a[i], b[i] = curve.HiddenNumberParams(*unique_vals[i])`
(raises `ZeroDivisionError` at the first `s` that is not invertible mod `n`). -/
def hnpParamsList (n : Nat) : List Triple → Except PyErr (List (Nat × Nat))
  | [] => .ok []
  | v :: rest =>
    match hiddenNumberParams n v.1 v.2.1 v.2.2 with
    | .error e => .error e
    | .ok p =>
      match hnpParamsList n rest with
      | .error e => .error e
      | .ok ps => .ok (p :: ps)

/-- the solver calls for one issuer, given `(a[i], b[i])`. -/
def modeCalls (m : Mode) (cid n : Nat) (ab : List (Nat × Nat)) : List Call :=
  match m with
  | .bias b =>
    (sizeLoop windowSizes ab).map fun w => Call.hnp (w.map Prod.fst) (w.map Prod.snd) n b
  | .lcg name flags => [Call.hnpCurve (ab.map Prod.fst) (ab.map Prod.snd) cid name flags]

/-- `BiasedBaseCheck.Check`, body of `for _, idxs in pks.items()` after `unique_vals`. -/
def biasedCalls (m : Mode) (cid n : Nat) (uniq : List Triple) : Except PyErr (List Call) :=
  match hnpParamsList n uniq with
  | .error e => .error e
  | .ok ab => .ok (modeCalls m cid n ab)

/-- `CheckCr50U2f.Check`, body of `for _, idxs in pks.items()` after `unique_vals`:
the sliding window over consecutive pairs, then `unique_vals[-1]` with `(1, 1, 0)`. -/
def cr50Calls (n : Nat) : List Triple → Except PyErr (List Call)
  | [] => .error .indexError
  | [v] => .ok [Call.cr50 v (1, 1, 0) n]
  | v :: w :: rest =>
    match cr50Calls n (w :: rest) with
    | .error e => .error e
    | .ok cs => .ok (Call.cr50 v w n :: cs)

def issuerCalls (k : Kind) (cid n : Nat) (uniq : List Triple) : Except PyErr (List Call) :=
  match k with
  | .biased m => biasedCalls m cid n uniq
  | .cr50 => cr50Calls n uniq

/-! ### one curve group -/

/-- the oracle answers for one curve group. -/
structure GroupOracle where
  /-- `unique_vals` of the `j`-th issuer (`list(set)` order) -/
  uniq : Nat → List Triple
  /-- what the `k`-th solver call for the `j`-th issuer returned -/
  answer : Nat → Nat → List Int
  /-- `list(guesses)` as handed to `_IssuerDLogs` -/
  guessList : List Int

/-- `[ECDSAValues(sigs[idx].ecdsa_sig_info, curve) for idx in idxs]`. -/
def issuerValues (n : Nat) (sigs : List Sig) : List Nat → Except PyErr (List Triple)
  | [] => .ok []
  | idx :: rest =>
    match sigs[idx]? with
    | none => .error .indexError
    | some sg =>
      match ecdsaValues n sg.r sg.s sg.mh with
      | .error e => .error e
      | .ok v =>
        match issuerValues n sigs rest with
        | .error e => .error e
        | .ok vs => .ok (v :: vs)

/-- `for _, idxs in pks.items():` — the solver calls per issuer (`j` = position in `pks`). -/
def groupCallsFrom (k : Kind) (cid n : Nat) (sigs : List Sig) (O : GroupOracle) :
    Nat → Pks → Except PyErr (List (List Call))
  | _, [] => .ok []
  | j, (_, idxs) :: rest =>
    match issuerValues n sigs idxs with
    | .error e => .error e
    | .ok _ =>
      match issuerCalls k cid n (O.uniq j) with
      | .error e => .error e
      | .ok cs =>
        match groupCallsFrom k cid n sigs O (j + 1) rest with
        | .error e => .error e
        | .ok css => .ok (cs :: css)

/-- `INFO_NAME_DISCRETE_LOG`. -/
def infoNameDiscreteLog : String := "DISCRETE_LOG"

/-- `format(int(d), "x")`. -/
def dlogHex (d : Int) : String := Proto.hexInt d

/-- the per-signature step: `if i in issuer_dlogs: AttachInfo(DISCRETE_LOG, format(dlog, "x"));
result = True`. -/
def dlogVerdict (dl : DLogs) (i : Nat) : Verdict :=
  match dl.get? i with
  | some d => ⟨true, none, some (infoNameDiscreteLog, .raw (dlogHex d))⟩
  | none => ⟨false, none, none⟩

/-- `for i, sig in enumerate(sigs): …` on the group `[(batch index, sig)]`; the result is the
list of `(batch index, verdict)` in the order the code writes them. -/
def groupWrites (dl : DLogs) : Nat → List (Nat × Sig) → List (Nat × Verdict)
  | _, [] => []
  | gi, (bi, _) :: rest => (bi, dlogVerdict dl gi) :: groupWrites dl (gi + 1) rest

structure GroupResult where
  writes : List (Nat × Verdict)
  calls : List (List Call)
  cache : Cache

/-- body of `for curve_id, curve in CURVE_FACTORY.items()` for a non-empty group. -/
def processGroup (k : Kind) (cid : Nat) (c : Curve) (cache : Cache) (O : GroupOracle)
    (group : List (Nat × Sig)) : Except PyErr GroupResult :=
  match groupCallsFrom k cid c.n (group.map Prod.snd) O 0
      (mapIssuerSigIndexes (group.map Prod.snd)) with
  | .error e => .error e
  | .ok calls =>
    match issuerDLogs c cache O.guessList (mapIssuerSigIndexes (group.map Prod.snd)) with
    | .error e => .error e
    | .ok (dl, cache') => .ok ⟨groupWrites dl 0 group, calls, cache'⟩

/-! ### the `Check` method -/

/-- an `EcCurve` object: parameters and `_cache`. -/
structure CurveObj where
  curve : Curve
  cache : Cache

/-- `ec_util.CURVE_FACTORY.items()`. -/
abbrev Factory := List (Nat × Option CurveObj)

/-- `sigs = [s for s in artifacts if s.issuer_key_info.curve_type == curve_id]`, each with its
index in `artifacts`. -/
def groupFrom (cid : Nat) : Nat → List Sig → List (Nat × Sig)
  | _, [] => []
  | i, s :: ss =>
    if s.curve = cid then (i, s) :: groupFrom cid (i + 1) ss else groupFrom cid (i + 1) ss

structure CheckResult where
  /-- `(index in artifacts, verdict)` in the order written -/
  writes : List (Nat × Verdict)
  /-- per processed curve group: curve id and the solver calls per issuer -/
  calls : List (Nat × List (List Call))
  /-- the curve objects afterwards -/
  factory : Factory

def CheckResult.cons (e : Nat × Option CurveObj) (r : CheckResult) : CheckResult :=
  ⟨r.writes, r.calls, e :: r.factory⟩

def CheckResult.consGroup (cid : Nat) (c : Curve) (g : GroupResult) (r : CheckResult) :
    CheckResult :=
  ⟨g.writes ++ r.writes, (cid, g.calls) :: r.calls, (cid, some ⟨c, g.cache⟩) :: r.factory⟩

/-- `for curve_id, curve in ec_util.CURVE_FACTORY.items(): …`. -/
def checkLoop (k : Kind) (O : Nat → GroupOracle) (arts : List Sig) :
    Factory → Except PyErr CheckResult
  | [] => .ok ⟨[], [], []⟩
  | (cid, none) :: rest =>
    match checkLoop k O arts rest with
    | .error e => .error e
    | .ok r => .ok (r.cons (cid, none))
  | (cid, some obj) :: rest =>
    match groupFrom cid 0 arts with
    | [] =>
      match checkLoop k O arts rest with
      | .error e => .error e
      | .ok r => .ok (r.cons (cid, some obj))
    | g :: gs =>
      match processGroup k cid obj.curve obj.cache (O cid) (g :: gs) with
      | .error e => .error e
      | .ok gr =>
        match checkLoop k O arts rest with
        | .error e => .error e
        | .ok r => .ok (r.consGroup cid obj.curve gr)

/-- `BiasedBaseCheck.Check(artifacts)` / `CheckCr50U2f.Check(artifacts)`. -/
def check (k : Kind) (O : Nat → GroupOracle) (factory : Factory) (arts : List Sig) :
    Except PyErr CheckResult := checkLoop k O arts factory

/-- the return value `any_weak`. -/
def anyWeak (writes : List (Nat × Verdict)) : Bool := writes.any fun w => w.2.positive

/-- the verdict written for `artifacts[i]` (`none`: no entry — curve not in the factory). -/
def verdictOf (writes : List (Nat × Verdict)) (i : Nat) : Option Verdict :=
  match writes with
  | [] => none
  | (j, v) :: rest => if j = i then some v else verdictOf rest i

/-! ### consistency of the iteration-order oracles with Python `set` semantics -/

def memB {α} [DecidableEq α] (x : α) : List α → Bool
  | [] => false
  | y :: ys => if x = y then true else memB x ys

def nodupB {α} [DecidableEq α] : List α → Bool
  | [] => true
  | x :: xs => !memB x xs && nodupB xs

/-- `enum` is `list(set(vals))` for SOME iteration order. -/
def isEnumOf {α} [DecidableEq α] (enum vals : List α) : Bool :=
  nodupB enum && enum.all (fun x => memB x vals) && vals.all (fun x => memB x enum)

/-- answers of the `cnt` solver calls for issuer `j`, concatenated. -/
def answersOf (O : GroupOracle) (j : Nat) : Nat → Nat → List Int
  | 0, _ => []
  | cnt + 1, k => O.answer j k ++ answersOf O j cnt (k + 1)

/-- every `uniq j` is `list(set(...))` of the values of issuer `j` for some iteration order. -/
def uniqConsistentFrom (n : Nat) (sigs : List Sig) (O : GroupOracle) : Nat → Pks → Bool
  | _, [] => true
  | j, (_, idxs) :: rest =>
    (match issuerValues n sigs idxs with
     | .ok vals => isEnumOf (O.uniq j) vals
     | .error _ => false) && uniqConsistentFrom n sigs O (j + 1) rest

/-- all solver answers of the group in call order (`guesses.update(...)` arguments). -/
def groupAnswersFrom (k : Kind) (cid n : Nat) (O : GroupOracle) : Nat → Pks → List Int
  | _, [] => []
  | j, _ :: rest =>
    (match issuerCalls k cid n (O.uniq j) with
     | .ok cs => answersOf O j cs.length 0
     | .error _ => []) ++ groupAnswersFrom k cid n O (j + 1) rest

/-- the oracle of one group is consistent with `set` semantics. -/
def groupConsistent (k : Kind) (cid n : Nat) (O : GroupOracle) (group : List (Nat × Sig)) : Bool :=
  uniqConsistentFrom n (group.map Prod.snd) O 0 (mapIssuerSigIndexes (group.map Prod.snd)) &&
  isEnumOf O.guessList
    (groupAnswersFrom k cid n O 0 (mapIssuerSigIndexes (group.map Prod.snd)))

def checkConsistent (k : Kind) (O : Nat → GroupOracle) (arts : List Sig) : Factory → Bool
  | [] => true
  | (_, none) :: rest => checkConsistent k O arts rest
  | (cid, some obj) :: rest =>
    (match groupFrom cid 0 arts with
     | [] => true
     | g :: gs => groupConsistent k cid obj.curve.n (O cid) (g :: gs)) &&
    checkConsistent k O arts rest

/-! ### `ec_util.CURVE_FACTORY` as regenerated from /repo (Generated/Consts.lean)

The non-`None` entries in dict order with fresh (empty) caches, then the `None` entries (the loop
skips a `None` entry, so its position is immaterial).  A curve name without a parameter tuple below
would show up as a `None` entry and is caught by the correspondence op `ecdsachk.factory`. -/

def curveOfTuple (t : Int × Int × Nat × Int × Int × Nat × Nat) : Curve :=
  ⟨t.1, t.2.1, t.2.2.1, t.2.2.2.1, t.2.2.2.2.1, t.2.2.2.2.2.1, t.2.2.2.2.2.2⟩

def namedTuple? (name : String) : Option (Int × Int × Nat × Int × Int × Nat × Nat) :=
  if name = "secp256r1" then some Consts.ecCurve_secp256r1
  else if name = "secp384r1" then some Consts.ecCurve_secp384r1
  else if name = "secp192r1" then some Consts.ecCurve_secp192r1
  else if name = "secp224r1" then some Consts.ecCurve_secp224r1
  else if name = "secp521r1" then some Consts.ecCurve_secp521r1
  else if name = "secp256k1" then some Consts.ecCurve_secp256k1
  else if name = "brainpoolP256r1" then some Consts.ecCurve_brainpoolP256r1
  else if name = "brainpoolP384r1" then some Consts.ecCurve_brainpoolP384r1
  else if name = "brainpoolP512r1" then some Consts.ecCurve_brainpoolP512r1
  else none

def namedFactory : Factory :=
  (Consts.ecCurveTable.map fun e =>
    (e.1, (namedTuple? e.2).map fun t => (⟨curveOfTuple t, []⟩ : CurveObj))) ++
  Consts.ecCurveNone.map fun e => (e.1, none)

end Paranoid.EcdsaChecks
