/-
Model/Factoring.lean — mirrors the factor-returning functions of
paranoid_crypto/lib/rsa_util.py and special_case_factoring.py.
Oracles (LLL basis, float cube root) are explicit arguments.  No Mathlib.
-/
import ParanoidModel.Model.NTheory
namespace Paranoid

/-- `if 1 < g < n: return [g, n // g]` — the guard in front of every gcd-derived factor. -/
def splitBy (g n : Nat) : Option (List Nat) :=
  if 1 < g ∧ g < n then some [g, n / g] else none

/-! ### FermatFactor -/

/-- the `for _ in range(max_steps)` loop of `FermatFactor`. -/
def fermatLoop : Nat → Nat → Nat → Option (Nat × Nat)
  | 0, _, _ => none
  | steps + 1, a, b2 =>
    if isSquare b2 then some (a + isqrt b2, a - isqrt b2)
    else fermatLoop steps (a + 1) (b2 + a + (a + 1))

/-- `FermatFactor(n, max_steps)`. -/
def fermatFactor (n maxSteps : Nat) : Option (Nat × Nat) :=
  if n % 2 = 0 then some (2, n / 2)
  else if isqrt n * isqrt n = n then some (isqrt n, isqrt n)
  else fermatLoop maxSteps (isqrt n + 1) ((isqrt n + 1) * (isqrt n + 1) - n)

/-! ### FactorHighAndLowBitsEqual -/

/-- `for _ in range(2**m): s += 2**(i-m); d = s**2 - n; if is_square(d): return …`.
Returns either the factors or the new `s`. -/
def hlbeInner (n : Nat) (step : Nat) : Nat → Nat → Sum (List Nat) Nat
  | 0, s => .inr s
  | cnt + 1, s =>
    let s' := s + step
    let d : Int := (s' : Int) * s' - n
    if isSquareI d then .inl [s' - isqrt d.toNat, s' + isqrt d.toNat]
    else hlbeInner n step cnt s'

/-- `for i in range(k)` loop, from index `i` (with `k - i = fuel`). -/
def hlbeBits (n r middleBits : Nat) : Nat → Nat → Nat → Option (List Nat)
  | 0, _, _ => none
  | fuel + 1, i, s =>
    if ((s ^^^ r) >>> i) % 2 = 1 then
      let m := min middleBits i
      match hlbeInner n (2 ^ (i - m)) (2 ^ m) s with
      | .inl fs => some fs
      | .inr s' => hlbeBits n r middleBits fuel (i + 1) s'
    else hlbeBits n r middleBits fuel (i + 1) s

/-- `FactorHighAndLowBitsEqual(n, middle_bits)`. -/
def factorHighAndLowBitsEqual (n middleBits : Nat) : Except PyErr (Option (List Nat)) :=
  if bitLength n < 6 then .ok none
  else if n % 8 ≠ 1 then .ok none
  else
    let k := (bitLength n + 1) / 2
    match inverseSqrt2exp n (k + 1) with
    | none => .error .typeError            -- `None % 2` inside Inverse2exp
    | some isq =>
      match inverse2exp isq (k + 1) with
      | none => .error .arithmeticError
      | some r0 =>
        let a := isqrt (n - 1) + 1
        match hlbeBits n r0 middleBits k 0 a with
        | some fs => .ok (some fs)
        | none =>
          -- `2**k - r0` may be negative in Python when r0 > 2^k (r0 < 2^(k+1)); then
          -- `s ^ r` is a negative int and `>> i & 1` reads two's complement bits.
          .ok (hlbeBits n (fMod2exp ((2 : Int) ^ k - r0) (2 * k + 2)) middleBits k 0 a)

/-! ### CheckContinuedFraction -/

/-- `for rt in (t, -t): p = gcd(n, 2*a*x + b + rt); if 1 < p < n: return …`. -/
def cfTryRoots (n : Nat) (base : Int) (t : Nat) : Option (List Nat) :=
  match splitBy (Int.gcd (n : Int) (base + t)) n with
  | some fs => some fs
  | none => splitBy (Int.gcd (n : Int) (base - t)) n

/-- the factoring attempt for one convergent, given `(r, c)` and `(a, b)`. -/
def cfAttempt (n x : Nat) (a b c : Int) : Option (List Nat) :=
  if a ≠ 0 ∧ c ≠ 0 ∧ isSquareI (b * b - 4 * a * c) then
    cfTryRoots n (2 * a * x + b) (isqrt (b * b - 4 * a * c).toNat)
  else none

/-- body of the loop for one `(quot, _, v)`: `some result` to return, `none` to continue. -/
def cfStep (n x bound quot v : Nat) : Except PyErr (Option (Bool × List Nat)) :=
  match divmodRoundedR ((n : Int) * v) x with
  | .error e => .error e
  | .ok (r, c) =>
    match divmodRoundedR r x with
    | .error e => .error e
    | .ok (a, b) =>
      match cfAttempt n x a b c with
      | some fs => .ok (some (false, fs))
      | none => if quot ≥ bound then .ok (some (false, [])) else .ok none

/-- loop of `CheckContinuedFraction` over the convergent list. -/
def cfCheckLoop (n : Nat) (x : Nat) (bound : Nat) :
    List (Nat × Nat × Nat) → Except PyErr (Bool × List Nat)
  | [] => .ok (true, [])
  | (quot, _, v) :: rest =>
    match cfStep n x bound quot v with
    | .error e => .error e
    | .ok (some res) => .ok res
    | .ok none => cfCheckLoop n x bound rest

/-- `CheckContinuedFraction(n, bound)`. -/
def checkContinuedFraction (n bound : Nat) : Except PyErr (Bool × List Nat) :=
  cfCheckLoop n (2 ^ (bitLength n / 2)) bound (continuedFraction n (2 ^ bitLength n))

/-! ### CheckFraction (LLL basis is an oracle argument) -/

/-- the lattice handed to `lll.reduce`. -/
def fractionLattice (n d0 : Nat) : List (List Int) :=
  let w := 2 ^ (bitLength n / 2)
  let u := n / w
  let v := n % w
  let x := 2 ^ bitLength d0
  [[(x : Int), 0, ((u * d0 % w : Nat) : Int)], [0, (x : Int), ((v * d0 % w : Nat) : Int)],
   [0, 0, (w : Int)]]

/-- `for v in lll.reduce(lat)` loop. -/
def checkFractionLoop (n w : Nat) : List (List Int) → Except PyErr (List Nat)
  | [] => .ok []
  | row :: rest =>
    match row with
    | cx :: v1 :: _ =>
      match splitBy (Int.gcd ((-v1) * w + cx) (n : Int)) n with
      | some fs => .ok fs
      | none => checkFractionLoop n w rest
    | _ => .error .indexError

/-- `CheckFraction(n, d0)` given the reduced basis returned by `lll.reduce`. -/
def checkFraction (n : Nat) (basis : List (List Int)) : Except PyErr (List Nat) :=
  checkFractionLoop n (2 ^ (bitLength n / 2)) basis

/-! ### FactorWithGuess / CheckSmallUpperDifferences (float cube root is an oracle) -/

/-- `shift = max(0, bits // 3 - 52)`. -/
def fwgShift (n : Nat) : Nat := bitLength n / 3 - 52

/-- the integer handed to the float cube root: `int(n) >> (3 * shift)`. -/
def fwgCbrtArg (n : Nat) : Nat := n >>> (3 * fwgShift n)

/-- `a = isqrt(d); if a * a < d: a += 1`. -/
def ceilSqrt (d : Nat) : Nat := if isqrt d * isqrt d < d then isqrt d + 1 else isqrt d

/-- the single Fermat step on `d = 4uvn` with `a = ceil(sqrt d)`. -/
def fwgFinish (n a d : Nat) : Option (List Nat) :=
  if isSquare (a * a - d) then splitBy (Nat.gcd (a + isqrt (a * a - d)) n) n else none

/-- the loop over convergents (code after `fix: FactorWithGuess tries every convergent in
Lehman's range`): an admissible convergent whose Fermat step fails no longer ends the search
unless `u * v > bound`. -/
def fwgLoop (n p0 q0 bound : Nat) : List (Nat × Nat × Nat) → Option (List Nat)
  | [] => none
  | (_, u, v) :: rest =>
    if ((u : Int) * q0 - (v : Int) * p0).natAbs < bound then
      match fwgFinish n (ceilSqrt (4 * u * v * n)) (4 * u * v * n) with
      | some fs => some fs
      | none => if u * v > bound then none else fwgLoop n p0 q0 bound rest
    else fwgLoop n p0 q0 bound rest

/-- the pinned (pre-fix) control flow: the first admissible convergent decides. Kept to
document defect D6b; not used by the driver. -/
def fwgLoopPinned (n p0 q0 bound : Nat) : List (Nat × Nat × Nat) → Option (List Nat)
  | [] => none
  | (_, u, v) :: rest =>
    if ((u : Int) * q0 - (v : Int) * p0).natAbs < bound then
      fwgFinish n (ceilSqrt (4 * u * v * n)) (4 * u * v * n)
    else fwgLoopPinned n p0 q0 bound rest

/-- `FactorWithGuess(n, p_0)`; `cbrt = int((n >> 3*shift) ** (1/3))` is the float oracle. -/
def factorWithGuess (n p0 cbrt : Nat) : Except PyErr (Option (List Nat)) :=
  if p0 = 0 then .error .zeroDivision else
  let q0 := n / p0
  let bound := cbrt <<< fwgShift n
  .ok (fwgLoop n p0 q0 bound (continuedFraction p0 q0))

/-- the six guesses of `CheckSmallUpperDifferences`. -/
def sudDifferences (primeSize : Nat) : List Nat :=
  [2 ^ (primeSize - 100), 2 ^ (primeSize - 128), 2 ^ (primeSize - 160),
   2 ^ (primeSize - 256), 2 ^ (primeSize - 2), 2 ^ (primeSize - 3)]

def sudGuess (n diff : Nat) : Nat := isqrt (n + (diff / 2) ^ 2) + diff / 2

def sudLoop (n cbrt : Nat) : List Nat → Except PyErr (Option (List Nat))
  | [] => .ok none
  | diff :: rest => do
    match ← factorWithGuess n (sudGuess n diff) cbrt with
    | some (f :: fs) => .ok (some (f :: fs))
    | _ => sudLoop n cbrt rest

/-- `CheckSmallUpperDifferences(n)`. -/
def checkSmallUpperDifferences (n cbrt : Nat) : Except PyErr (Option (List Nat)) :=
  let primeSize := (bitLength n + 1) / 2
  if primeSize < 384 then .ok none else sudLoop n cbrt (sudDifferences primeSize)

/-! ### Pollardpm1 -/

/-- the part of `Pollardpm1` after the gcd gate, given `p = gcd(pow(a, m, n) - 1, n)`. -/
def pm1Decide (p n : Nat) : Bool × List Nat :=
  match splitBy p n with
  | some fs => (true, fs)
  | none => if p = n then (true, []) else (false, [])

/-- `Pollardpm1(n, m, gcd_bound)`. -/
def pollardPm1 (n m gcdBound : Nat) : Bool × List Nat :=
  if Nat.gcd (n - 1) m ≥ gcdBound then
    pm1Decide (Int.gcd ((powMod (powMod 2 (n - 1) n) m n : Int) - 1) (n : Int)) n
  else (false, [])

/-! ### CheckLowHammingWeight -/

/-- heap entries `(v, hw, bit, p0, q0)`, ordered lexicographically like Python tuples. -/
structure LhwItem where
  v : Nat
  hw : Nat
  bit : Nat
  p : Nat
  q : Nat
  deriving Repr, DecidableEq

def LhwItem.le (a b : LhwItem) : Bool :=
  if a.v ≠ b.v then a.v < b.v
  else if a.hw ≠ b.hw then a.hw < b.hw
  else if a.bit ≠ b.bit then a.bit < b.bit
  else if a.p ≠ b.p then a.p < b.p
  else a.q ≤ b.q

/-- a leftist heap; any correct min-heap pops the same sequence because the order is total. -/
inductive LHeap
  | leaf
  | node (rank : Nat) (x : LhwItem) (l r : LHeap)

namespace LHeap
def rank : LHeap → Nat
  | leaf => 0
  | node r _ _ _ => r
def mk (x : LhwItem) (a b : LHeap) : LHeap :=
  if a.rank ≥ b.rank then node (b.rank + 1) x a b else node (a.rank + 1) x b a
def size : LHeap → Nat
  | leaf => 0
  | node _ _ l r => l.size + r.size + 1
def merge : LHeap → LHeap → LHeap
  | leaf, h => h
  | h, leaf => h
  | node r1 x l1 rr1, node r2 y l2 rr2 =>
    if x.le y then mk x l1 (merge rr1 (node r2 y l2 rr2))
    else mk y l2 (merge (node r1 x l1 rr1) rr2)
termination_by a b => a.size + b.size
decreasing_by all_goals simp [size]; all_goals omega
def push (h : LHeap) (x : LhwItem) : LHeap := merge (node 1 x leaf leaf) h
def pop? : LHeap → Option (LhwItem × LHeap)
  | leaf => none
  | node _ x l r => some (x, merge l r)
end LHeap

/-- `Push(p0, q0, hw, bit, rem_size)`. -/
def lhwPush (h : LHeap) (p0 q0 hw bit remSize : Nat) : LHeap :=
  if p0 ≤ q0 then h.push ⟨remSize + 5 * hw, hw, bit, p0, q0⟩ else h

/-- outcome of trying one `(dp, dq)`. -/
inductive LhwTry
  | neg                      -- `rem0 < 0`: break out of the for loop
  | found (p0 q0 : Nat)      -- `bit == 0 and rem0 == 0`
  | cont (h : LHeap) (remPos : Bool)   -- continue; remembers `rem0 > 0`

def lhwTry (n0 : Nat) (p q hw bit : Nat) (h : LHeap) (dp dq : Nat) : LhwTry :=
  let p0 := p + dp
  let q0 := q + dq
  if n0 < p0 * q0 then .neg
  else
    let rem0 := n0 - p0 * q0
    if bit ≠ 0 then
      if rem0 ≤ p0 + q0 then
        .cont (lhwPush h p0 q0 (hw + dp + dq) bit (bitLength rem0 + 2 * bit)) (0 < rem0)
      else .cont h (0 < rem0)
    else if rem0 = 0 then .found p0 q0
    else .cont h (0 < rem0)

/-- the `while bit >= 1` loop for one popped entry. Returns factors or the heap. -/
def lhwExtend (n hw : Nat) : Nat → Nat → Nat → LHeap → Sum (Nat × Nat) LHeap
  | 0, _, _, h => .inr h
  | bit + 1, p, q, h =>
    let p := 2 * p
    let q := 2 * q
    let n0 := n >>> (2 * bit)
    match lhwTry n0 p q hw bit h 0 1 with
    | .neg => lhwExtend n hw bit p q h
    | .found a b => .inl (a, b)
    | .cont h1 _ =>
      match lhwTry n0 p q hw bit h1 1 0 with
      | .neg => lhwExtend n hw bit p q h1
      | .found a b => .inl (a, b)
      | .cont h2 _ =>
        match lhwTry n0 p q hw bit h2 1 1 with
        | .neg => lhwExtend n hw bit p q h2
        | .found a b => .inl (a, b)
        | .cont h3 remPos => if remPos then .inr h3 else lhwExtend n hw bit p q h3

/-- main loop; `fuel` = remaining steps (`maxsteps - steps`). -/
def lhwMain (n cutoff : Nat) : Nat → Nat → Nat → LHeap → Sum (Nat × Nat) Nat
  | 0, _, minv, _ => .inr minv
  | fuel + 1, steps, minv, heap =>
    match heap.pop? with
    | none => .inr minv
    | some (item, rest) =>
      let steps := steps + 1
      if steps = cutoff ∧ minv ≥ bitLength n then .inr minv
      else
        let minv := if item.v < minv then item.v else minv
        match lhwExtend n item.hw item.bit item.p item.q rest with
        | .inl pq => .inl pq
        | .inr heap' => lhwMain n cutoff fuel steps minv heap'

/-- `CheckLowHammingWeight(n, cutoff, maxsteps)`. -/
def checkLowHammingWeight (n cutoff maxsteps : Nat) : Bool × List Nat :=
  let psize := (bitLength n + 1) / 2
  let remainder : Int := (n : Int) - 2 ^ (2 * (psize - 1))
  let remSize := bitLengthI remainder
  let heap := lhwPush .leaf 1 1 2 (psize - 1) remSize
  match lhwMain n cutoff maxsteps 0 (remSize + 5 * 2) heap with
  | .inl (p0, q0) => (true, [p0, q0])
  | .inr minv => (decide (minv ≤ bitLength n - 12), [])

end Paranoid
