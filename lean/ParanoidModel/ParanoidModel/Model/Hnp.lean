/-
Model/Hnp.lean — mirrors paranoid_crypto/lib/hidden_number_problem.py
(`Bias`, `SearchStrategy`, `GetLattice`, `HiddenNumberProblem`,
`HiddenNumberProblemWithPrecomputation`, `_HiddenNumberProblemSubsets`,
`HiddenNumberProblemForCurve`).

Oracles are explicit arguments:
 * `basis` — what `lll.reduce(lat)` returned (for `…ForCurve`: `oracle i` is the answer of the
   `i`-th call);
 * `fbits` — the value of the float expression `int(n.bit_length() / len(a) * 1.25)` that
   `GetLattice` evaluates for `w=None`, `COMMON_POSTFIX` (`postfixBitsExact` is the exact
   rational floor; the correspondence run compares the two on the whole reachable range).
Integers only: `a`, `b`, rows are `Int`; the modulus `n : Nat`. No Mathlib.
-/
import ParanoidModel.Model.Basic
namespace Paranoid

/-- `hidden_number_problem.Bias`. -/
inductive Bias
  | msb | commonPrefix | commonPostfix | generalized
  deriving DecidableEq, Repr

/-- default `w` for MSB / COMMON_PREFIX (`len(a) < 4, < 9, < 14, else`). -/
def defaultWPrefix (len : Nat) : Int :=
  if len < 4 then 2 ^ 128 else if len < 9 then 2 ^ 64 else if len < 14 then 2 ^ 48 else 2 ^ 32

/-- default `w` for GENERALIZED (`len(a) < 20, < 32, else`). -/
def defaultWGeneralized (len : Nat) : Int :=
  if len < 20 then 2 ^ 64 else if len < 32 then 2 ^ 48 else 2 ^ 64

/-- exact value of `n.bit_length() / len(a) * 1.25` rounded down (what the float expression
computes when no rounding error crosses an integer). -/
def postfixBitsExact (bl len : Nat) : Nat := 5 * bl / (4 * len)

/-- the `if w is None:` block. `fbits = int(n.bit_length() / len(a) * 1.25)` (float oracle). -/
def hnpDefaultW (bias : Bias) (len fbits : Nat) : Except PyErr Int :=
  match bias with
  | .msb => .ok (defaultWPrefix len)
  | .commonPrefix => .ok (defaultWPrefix len)
  | .commonPostfix => if len = 0 then .error .zeroDivision else .ok (2 ^ (max 3 fbits))
  | .generalized => .ok (defaultWGeneralized len)

def hnpResolveW (w : Option Int) (bias : Bias) (len fbits : Nat) : Except PyErr Int :=
  match w with
  | some w => .ok w
  | none => hnpDefaultW bias len fbits

/-- row `i + 2` of the lattice (`i < m = len(a)`): `lat[j][j] = n*w`, and for the prefix
variants row 2 is overwritten by `lat[2][j] = w` for every `j ≥ 2` (diagonal included). -/
def hnpTailRow (m : Nat) (n w : Int) (pfx : Bool) (i : Nat) : List Int :=
  0 :: 0 :: (List.range m).map
    (fun c => if pfx = true ∧ i = 0 then w else if c = i then n * w else 0)

/-- the matrix after all assignments; `u = lat[0][0]`. -/
def hnpRows (a b : List Int) (w n u : Int) (pfx : Bool) : List (List Int) :=
  (u :: 0 :: a.map (· * w)) :: (0 :: 1 :: b.map (· * w)) ::
    (List.range a.length).map (hnpTailRow a.length n w pfx)

/-- `a = [v * w_inv % n for v in a]`. -/
def scaleMod (wi : Int) (n : Nat) (l : List Int) : List Int := l.map (fun v => v * wi % (n : Int))

/-- `GetLattice` once `w` is known (lengths already checked). -/
def getLatticeW (a b : List Int) (w : Int) (n : Nat) : Bias → Except PyErr (List (List Int))
  | .msb => .ok (hnpRows a b w n (n * w + 1) false)
  | .commonPrefix => .ok (hnpRows a b w n (n * w + 1) true)
  | .generalized => .ok (hnpRows a b w n 1 true)
  | .commonPostfix =>
    match invMod w n with
    | .error e => .error e
    | .ok wi => .ok (hnpRows (scaleMod wi n a) (scaleMod wi n b) w n (n * w + 1) true)

/-- `GetLattice(a, b, w, n, bias)`. -/
def getLattice (a b : List Int) (w : Option Int) (n : Nat) (bias : Bias) (fbits : Nat) :
    Except PyErr (List (List Int)) :=
  if a.length ≠ b.length then .error .valueError
  else
    match hnpResolveW w bias a.length fbits with
    | .error e => .error e
    | .ok w' => getLatticeW a b w' n bias

/-! ### post-processing of the reduced basis -/

/-- `guesses.add(g)` on a list kept duplicate-free (order of first insertion). -/
def hnpSetAdd (acc : List Nat) (g : Nat) : List Nat := if g ∈ acc then acc else acc ++ [g]

/-- body of `for v in res:` in `HiddenNumberProblem`:
`if v[0] % n != 0: inverse = invert(v[0], n); guess = v[1] * inverse % n`. -/
def hnpRowGuess (n : Nat) (row : List Int) : Except PyErr (Option Nat) :=
  match row with
  | [] => .error .indexError
  | v0 :: rest =>
    if n = 0 then .error .zeroDivision
    else if v0 % (n : Int) = 0 then .ok none
    else
      match invMod v0 n with
      | .error e => .error e
      | .ok inv =>
        match rest with
        | [] => .error .indexError
        | v1 :: _ => .ok (some (v1 * (inv : Int) % (n : Int)).toNat)

/-- the same body in `HiddenNumberProblemWithPrecomputation`, where `v[1]` is evaluated before
`gmpy.invert(v[0], n)`: `guess = v[1] * gmpy.invert(v[0], n) % n`. -/
def hnpRowGuessPre (n : Nat) (row : List Int) : Except PyErr (Option Nat) :=
  match row with
  | [] => .error .indexError
  | v0 :: rest =>
    if n = 0 then .error .zeroDivision
    else if v0 % (n : Int) = 0 then .ok none
    else
      match rest with
      | [] => .error .indexError
      | v1 :: _ =>
        match invMod v0 n with
        | .error e => .error e
        | .ok inv => .ok (some (v1 * (inv : Int) % (n : Int)).toNat)

/-- `for v in res:` loop; `step` is one of the two bodies above. -/
def hnpGuessLoop (step : List Int → Except PyErr (Option Nat)) :
    List (List Int) → List Nat → Except PyErr (List Nat)
  | [], acc => .ok acc
  | row :: rest, acc =>
    match step row with
    | .error e => .error e
    | .ok none => hnpGuessLoop step rest acc
    | .ok (some g) => hnpGuessLoop step rest (hnpSetAdd acc g)

/-- `HiddenNumberProblem(a, b, w, n, bias)` given `basis = lll.reduce(lat)`.
The result is `list(set)`: a duplicate-free list in unspecified order (compared as a set). -/
def hiddenNumberProblem (a b : List Int) (w : Option Int) (n : Nat) (bias : Bias) (fbits : Nat)
    (basis : List (List Int)) : Except PyErr (List Nat) :=
  match getLattice a b w n bias fbits with
  | .error e => .error e
  | .ok _ => hnpGuessLoop (hnpRowGuess n) basis []

/-! ### HiddenNumberProblemWithPrecomputation -/

/-- entries `lattice[0][t]` for one `i`: `(a[i] * c - d) % n` over the constants. -/
def precompA (n : Nat) (consts : List (Int × Int)) (ai : Int) : List Int :=
  consts.map (fun cd => (ai * cd.1 - cd.2) % (n : Int))

/-- entries `lattice[1][t]` for one `i`: `b[i] * c % n`. -/
def precompB (n : Nat) (consts : List (Int × Int)) (bi : Int) : List Int :=
  consts.map (fun cd => bi * cd.1 % (n : Int))

/-- the lattice handed to `lll.reduce`: column `t = i*len(constants) + j + 2`. It is the MSB
lattice of the flattened lists. Raises like the code: `% 0`, `b[i]` out of range. -/
def precompLattice (a b : List Int) (n : Nat) (consts : List (Int × Int)) (w : Int) :
    Except PyErr (List (List Int)) :=
  if a.length = 0 ∨ consts.length = 0 then .ok [[(n : Int) * w + 1, 0], [0, 1]]
  else if n = 0 then .error .zeroDivision
  else if b.length < a.length then .error .indexError
  else .ok (hnpRows (a.flatMap (precompA n consts)) ((b.take a.length).flatMap (precompB n consts))
      w n ((n : Int) * w + 1) false)

/-- `HiddenNumberProblemWithPrecomputation(a, b, n, constants, w)` given the reduced basis. -/
def hiddenNumberProblemWithPrecomputation (a b : List Int) (n : Nat)
    (consts : List (Int × Int)) (w : Int) (basis : List (List Int)) : Except PyErr (List Nat) :=
  match precompLattice a b n consts w with
  | .error e => .error e
  | .ok _ => hnpGuessLoop (hnpRowGuessPre n) basis []

/-! ### _HiddenNumberProblemSubsets -/

/-- one entry of `lcg_constants.CONSTANT_FACTORY` (the fields the code reads). -/
structure LcgMeta where
  curve : Nat
  lcg : Nat
  sampleSize : Nat
  minSignatures : Nat
  slidingWindowSize : Nat
  w : Int
  constants : List (Int × Int)
  deriving Repr

/-- `SearchStrategy` as its three bits. -/
structure SearchFlags where
  single : Bool
  sliding : Bool
  includeKey : Bool
  deriving DecidableEq, Repr

/-- `not flags`. -/
def SearchFlags.none (f : SearchFlags) : Bool := !f.single && !f.sliding && !f.includeKey

/-- what one `yield` selects: `a0 = a[start : start+size]` (`+ [0]`, `b0 + [1]` when `withKey`),
`constant_list[:numConstants]`. -/
structure HnpShape where
  start : Nat
  size : Nat
  withKey : Bool
  numConstants : Nat
  deriving DecidableEq, Repr

/-- `(sample_size - 1) // k + 1` (Python floor division; `k = 0` raises). -/
def numConst (ss k : Nat) : Except PyErr Nat :=
  if k = 0 then .error .zeroDivision else .ok (if ss = 0 then 0 else (ss - 1) / k + 1)

/-- a Python generator run to its end: everything it yielded, then the exception that ended it
(if any). The consumer sees the yields first. -/
structure PyGen (α : Type) where
  yields : List α
  err : Option PyErr
  deriving Repr, DecidableEq

/-- the SLIDING block: windows `i = 0 … len - sw` (`num_constants` is computed before the loop). -/
def slidingShapes (len ss sw : Nat) : PyGen HnpShape :=
  match numConst ss sw with
  | .error e => ⟨[], some e⟩
  | .ok nc => ⟨(List.range (len - sw + 1)).map (fun i => ⟨i, sw, false, nc⟩), none⟩

/-- a block with one yield over `a[:size]` (`withKey`: `a + [0]`, divisor `size + 1`). -/
def oneShape (ss size : Nat) (withKey : Bool) : PyGen HnpShape :=
  match numConst ss (if withKey then size + 1 else size) with
  | .error e => ⟨[], some e⟩
  | .ok nc => ⟨[⟨0, size, withKey, nc⟩], none⟩

/-- generator concatenation: the second part runs only if the first ended normally. -/
def PyGen.andThen {α} (g : PyGen α) (h : PyGen α) : PyGen α :=
  match g.err with
  | some e => ⟨g.yields, some e⟩
  | none => ⟨g.yields ++ h.yields, h.err⟩

/-- the yields of one `CONSTANT_FACTORY` entry that passed the curve / lcg filter.
`len > sw`: SLIDING windows (if the flag is set; then `tests_done > 0`), then the SINGLE test
over `a[:min(len, 2*sample_size)]` if the SINGLE flag is set or nothing was done;
`min_signatures ≤ len ≤ sw`: one test with everything; `len = min_signatures - 1`: one test
with the key appended if INCLUDE_KEY; otherwise nothing. -/
def entryShapes (ss ms sw len : Nat) (f : SearchFlags) : PyGen HnpShape :=
  if len > sw then
    if f.sliding then
      if f.single then (slidingShapes len ss sw).andThen (oneShape ss (min len (2 * ss)) false)
      else slidingShapes len ss sw
    else oneShape ss (min len (2 * ss)) false
  else if len ≥ ms then oneShape ss len false
  else if len + 1 = ms then
    if f.includeKey then oneShape ss len true else ⟨[], none⟩
  else ⟨[], none⟩

/-- `if constants["curve"] != curve_type: continue; if lcg not in [constants["lcg"], None]: continue`. -/
def entrySelected (m : LcgMeta) (curve : Nat) (lcg : Option Nat) : Bool :=
  m.curve == curve && (match lcg with | none => true | some l => l == m.lcg)

/-- a yielded tuple `(a0, b0, constants, w)`. -/
structure HnpSubset where
  a : List Int
  b : List Int
  constants : List (Int × Int)
  w : Int
  deriving Repr

def applyShape (a b : List Int) (m : LcgMeta) (s : HnpShape) : HnpSubset :=
  { a := ((a.drop s.start).take s.size) ++ (if s.withKey then [0] else [])
    b := ((b.drop s.start).take s.size) ++ (if s.withKey then [1] else [])
    constants := m.constants.take s.numConstants
    w := m.w }

def PyGen.map {α β} (f : α → β) (g : PyGen α) : PyGen β := ⟨g.yields.map f, g.err⟩

/-- loop over `CONSTANT_FACTORY`. -/
def subsetsLoop (a b : List Int) (curve : Nat) (lcg : Option Nat) (f : SearchFlags) :
    List LcgMeta → PyGen HnpSubset
  | [] => ⟨[], none⟩
  | m :: rest =>
    if entrySelected m curve lcg then
      ((entryShapes m.sampleSize m.minSignatures m.slidingWindowSize a.length f).map
        (applyShape a b m)).andThen (subsetsLoop a b curve lcg f rest)
    else subsetsLoop a b curve lcg f rest

/-- `_HiddenNumberProblemSubsets(a, b, curve_type, lcg, flags)`. -/
def hnpSubsets (a b : List Int) (curve : Nat) (lcg : Option Nat) (f : SearchFlags)
    (factory : List LcgMeta) : PyGen HnpSubset :=
  if f.none then ⟨[], some .valueError⟩ else subsetsLoop a b curve lcg f factory

/-! ### HiddenNumberProblemForCurve -/

/-- `guesses += HiddenNumberProblemWithPrecomputation(a0, b0, n, constants, w)` over the
yielded subsets; `oracle i` is the reduced basis of the `i`-th `lll.reduce` call. -/
def forCurveLoop (n : Nat) (oracle : Nat → List (List Int)) :
    List HnpSubset → Nat → List Nat → Except PyErr (List Nat)
  | [], _, acc => .ok acc
  | s :: rest, i, acc =>
    match hiddenNumberProblemWithPrecomputation s.a s.b n s.constants s.w (oracle i) with
    | .error e => .error e
    | .ok gs => forCurveLoop n oracle rest (i + 1) (acc ++ gs)

/-- consume the generator: the yields first, then the exception that ended it. -/
def forCurveRun (n : Nat) (oracle : Nat → List (List Int)) (g : PyGen HnpSubset) :
    Except PyErr (List Nat) :=
  match forCurveLoop n oracle g.yields 0 [] with
  | .error e => .error e
  | .ok gs =>
    match g.err with
    | some e => .error e
    | none => .ok gs

/-- `HiddenNumberProblemForCurve(a, b, curve_type, lcg, flags)`.
`curveN = none`: `curve_type` is not a key of `CURVE_FACTORY` (KeyError);
`some none`: the entry is `None` (ValueError); `some (some n)`: the group order.
The result is a list that may repeat guesses of different subsets (compared as a multiset). -/
def hnpForCurve (a b : List Int) (curve : Nat) (curveN : Option (Option Nat)) (lcg : Option Nat)
    (f : SearchFlags) (factory : List LcgMeta) (oracle : Nat → List (List Int)) :
    Except PyErr (List Nat) :=
  if a.length ≠ b.length then .error .valueError
  else
    match curveN with
    | none => .error .keyError
    | some none => .error .valueError
    | some (some n) => forCurveRun n oracle (hnpSubsets a b curve lcg f factory)

end Paranoid
