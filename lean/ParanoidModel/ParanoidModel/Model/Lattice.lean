/-
Model/Lattice.lean — C19 (misc part): executable mirrors of

* `randomness_tests/lattice_suite.py`: `PseudoAverage`, `Bias` (integer part `t`, `len`);
* `randomness_tests/util.py`: `UniformSumCdf` (on an exact rational argument), `CombinedPValue`
  (decision logic; the Fisher statistic and `Igamc` are float tail);
* `small_roots.py`: the final acceptance guards of `univariate_modp`, `multivariate_modp`,
  `multivariate_modn` (sympy / LLL / `solve_right` are oracles: the candidate root is an input).

No Mathlib.  Rationals are core `Rat` (normalised `num/den`), which Mathlib's `ℚ` is.
Float boundary: every function here works on exact integers / rationals.  Python floats are
dyadic rationals, the harness passes them exactly.  What Python computes in floating point
(`2*t/n`, `n - x`, the Irwin–Hall sum itself, `erf`, `log`, `gammaincc`) is the float tail,
re-evaluated by the harness from the model's exact output.
-/
import ParanoidModel.Model.Basic
namespace Paranoid.Lat

/-! ## lattice_suite.PseudoAverage -/

/-- insert `x` into a sorted list, before the first strictly larger element. -/
def insertInt (x : Int) : List Int → List Int
  | [] => [x]
  | y :: ys => if x ≤ y then x :: y :: ys else y :: insertInt x ys

/-- `sorted(a)` for a list of Python ints (stability is irrelevant for ints): insertion sort,
structurally recursive so that the kernel can evaluate it. -/
def sortInts : List Int → List Int
  | [] => []
  | x :: xs => insertInt x (sortInts xs)

/-- `diff = 2 * sx * m + j * (const_j - j * n)` with `const_j = n * m - 2 * sum_a`. -/
def paDiff (m : Nat) (n sumA sx : Int) (j : Nat) : Int :=
  2 * sx * (m : Int) + (j : Int) * ((n * (m : Int) - 2 * sumA) - (j : Int) * n)

/-- `if diff < best_diff: best_j, best_diff = j, diff` (strict: the first best `j` is kept). -/
def paStep (m : Nat) (n sumA sx : Int) (j : Nat) (best : Nat × Int) : Nat × Int :=
  if paDiff m n sumA sx j < best.2 then (j, paDiff m n sumA sx j) else best

/-- the `for i in range(m)` loop over the sorted list; `sx` is the running prefix sum and
`i` the number of elements consumed so far (`j = i + 1` in the body). -/
def paLoop (m : Nat) (n sumA : Int) : List Int → Int → Nat → Nat × Int → Nat × Int
  | [], _, _, best => best
  | x :: rest, sx, i, best =>
    paLoop m n sumA rest (sx + x) (i + 1) (paStep m n sumA (sx + x) (i + 1) best)

/-- `best_j` after the loop, for the already sorted list `s`. -/
def paBestJ (s : List Int) (n : Int) : Nat :=
  (paLoop s.length n s.sum s 0 0 (0, 0)).1

/-- `(sum_a + n * best_j + m // 2) // m % n` (Python floor division / modulo). -/
def paFinal (s : List Int) (n : Int) : Int :=
  Int.fmod (Int.fdiv (s.sum + n * (paBestJ s n : Int) + ((s.length / 2 : Nat) : Int))
    (s.length : Int)) n

/-- `PseudoAverage(a, n)`.  `m = 0` raises at `// m`, `n = 0` at `% n`
(both `ZeroDivisionError`); negative `n` is computed as Python does. -/
def pseudoAverage (a : List Int) (n : Int) : Except PyErr Int :=
  if a.length = 0 then .error .zeroDivision
  else if n = 0 then .error .zeroDivision
  else .ok (paFinal (sortInts a) n)

/-! ## lattice_suite.Bias (integer part) -/

/-- `v = (a*s + b) % n; v = min(v, n - v)`. -/
def biasTerm (n s a b : Int) : Int :=
  min (Int.fmod (a * s + b) n) (n - Int.fmod (a * s + b) n)

/-- inner loop `for a, b in transforms`. -/
def biasInner (n s : Int) (tr : List (Int × Int)) : Int :=
  (tr.map (fun ab => biasTerm n s ab.1 ab.2)).sum

/-- the integer `t` after both loops. -/
def biasT (sample : List Int) (n : Int) (tr : List (Int × Int)) : Int :=
  (sample.map (fun s => biasInner n s tr)).sum

/-- `Bias` up to the float tail: returns `(t, len(sample) * len(transforms))`; the code then
forms the float `2*t/n` and calls `UniformSumCdf`.  `n = 0` raises `ZeroDivisionError`
(at `% n` if any term is computed, else at `2*t/n`). -/
def bias (sample : List Int) (n : Int) (tr : List (Int × Int)) : Except PyErr (Int × Nat) :=
  if n = 0 then .error .zeroDivision
  else .ok (biasT sample n tr, sample.length * tr.length)

/-- the exact value of `normalized = 2 * t / n`. -/
def biasNormalized (sample : List Int) (n : Int) (tr : List (Int × Int)) : Rat :=
  ((2 * biasT sample n tr : Int) : Rat) / (n : Rat)

/-! ## util.UniformSumCdf -/

/-- `math.factorial`. -/
def fact : Nat → Nat
  | 0 => 1
  | n + 1 => (n + 1) * fact n

/-- `binom = binom * (n - k) // (k + 1)`; in the loop `k ≤ floor(x) ≤ n/2`, so `n - k ≥ 0`. -/
def usBinomNext (n k binom : Nat) : Nat := binom * (n - k) / (k + 1)

/-- `t = sign * binom / f * (x - k) ** n` as an exact rational. -/
def usTerm (n f : Nat) (x : Rat) (k : Nat) (sign : Int) (binom : Nat) : Rat :=
  ((sign * (binom : Int) : Int) : Rat) / (f : Rat) * (x - (k : Rat)) ^ n

/-- `for k in range(cnt)` continuing at `k` with the running `sign`, `binom`, `p_value`. -/
def usLoop (n f : Nat) (x : Rat) : Nat → Nat → Int → Nat → Rat → Rat
  | 0, _, _, _, acc => acc
  | cnt + 1, k, sign, binom, acc =>
    usLoop n f x cnt (k + 1) (-sign) (usBinomNext n k binom) (acc + usTerm n f x k sign binom)

/-- the `else` branch: the alternating sum with `math.floor(x) + 1` terms. -/
def usSum (n : Nat) (x : Rat) : Rat :=
  usLoop n (fact n) x (x.floor + 1).toNat 0 1 1 0

/-- result of `UniformSumCdf` before the float tail: an exact rational, or the request
"NormalCdf(x, n/2, n/12)" (`reflected`: the caller returns `1 - ` that). -/
inductive USOut
  | exact (v : Rat)
  | normal (reflected : Bool) (x : Rat)
  deriving DecidableEq, Repr

/-- `UniformSumCdf(n, x)` for an argument that takes none of the reflection branch. -/
def usInner (n : Nat) (x : Rat) : USOut :=
  if x ≤ 0 then .exact 0
  else if n > 36 then .normal false x
  else .exact (usSum n x)

/-- `1.0 - UniformSumCdf(...)`. -/
def usReflect : USOut → USOut
  | .exact v => .exact (1 - v)
  | .normal _ x => .normal true x

/-- `UniformSumCdf(n, x)` on exact rational `x`.  The recursive call gets the EXACT `n - x`
(Python: the rounded float `n - x`; the rounding is part of the float tail).  With the exact
difference the callee never reflects again (`usReflect_once`), which is why `usInner` has no
reflection branch. -/
def uniformSumCdf (n : Nat) (x : Rat) : USOut :=
  if x ≤ 0 then .exact 0
  else if 2 * x > (n : Rat) then usReflect (usInner n ((n : Rat) - x))
  else usInner n x

/-! ## util.CombinedPValue -/

/-- what `CombinedPValue` returns before the float tail. -/
inductive CombOut
  | value (p : Rat)      -- `len == 1`: the element itself
  | zero                 -- `min(pvalues) == 0`: the int `0`
  | fisher (k : Nat)     -- `Igamc(k, sum(-log p))`
  deriving DecidableEq, Repr

/-- `min(pvalues)` of a non-empty list `p :: ps`. -/
def ratMin (p : Rat) : List Rat → Rat
  | [] => p
  | q :: qs => ratMin (if q < p then q else p) qs

/-- `sum(-math.log(p) for p in pvalues)` raises `ValueError` (math domain error) iff some
`p ≤ 0`. -/
def logDomainError (ps : List Rat) : Bool := ps.any (fun p => decide (p ≤ 0))

/-- the `elif min(pvalues) == 0 … else …` part, for a list `p :: ps` of length ≥ 2. -/
def combinedMany (p : Rat) (ps : List Rat) : Except PyErr CombOut :=
  if ratMin p ps = 0 then .ok .zero
  else if logDomainError (p :: ps) then .error .valueError
  else .ok (.fisher (ps.length + 1))

def combinedPValue : List Rat → Except PyErr CombOut
  | [] => .error .valueError
  | [p] => .ok (.value p)
  | p :: q :: rest => combinedMany p (q :: rest)

/-! ## small_roots: acceptance guards -/

/-- value of the polynomial with integer coefficients `coeffs` (constant term first) at `x`. -/
def polyEval (coeffs : List Int) (x : Int) : Int :=
  coeffs.foldr (fun c acc => c + x * acc) 0

/-- sympy evaluates a `Poly(..., modulus=n)` in the symmetric residue system
`(-n/2, n/2]`:  `r = a % n; r if r <= n // 2 else r - n`. -/
def symMod (a n : Int) : Int :=
  if Int.fmod a n ≤ Int.fdiv n 2 then Int.fmod a n else Int.fmod a n - n

/-- HISTORICAL (pre-fix guard, before 02ff5e0; /repo HEAD ships `guardAcceptR`):
`if y != 0 and n % y == 0` -/
def guardAccept (n y : Int) : Bool := y ≠ 0 && Int.fmod n y == 0

/-- HISTORICAL (pre-fix, before 02ff5e0; shipped: `guardUniR`): final guard of
`univariate_modp`: `y = f(rx); if y != 0 and n % y == 0: return rx`. -/
def guardUni (coeffs : List Int) (n rx : Int) : Option Int :=
  if guardAccept n (symMod (polyEval coeffs rx) n) then some rx else none

/-- the candidate loop of `univariate_modp`: `for factor in …: rx = …; if guard: return rx`
followed by `return None`; `cands` are the `rx` in the order sympy yields the factors. -/
def uniTail (coeffs : List Int) (n : Int) (cands : List Int) : Option Int :=
  cands.findSome? (guardUni coeffs n)

/-- a monomial `coeff * Π x_i^e_i` of a multivariate polynomial. -/
structure Mono where
  coeff : Int
  exps : List Nat

/-- `Π x_i^e_i`; missing exponents count as 0, extra exponents are ignored. -/
def monoPow : List Int → List Nat → Int
  | x :: xs, e :: es => x ^ e * monoPow xs es
  | _, _ => 1

def mpolyEval (f : List Mono) (xs : List Int) : Int :=
  (f.map (fun t => t.coeff * monoPow xs t.exps)).sum

/-- final guard of `multivariate_modp`: `y = int(f(*roots)); if y != 0 and n % y == 0`. -/
def guardMulti (f : List Mono) (n : Int) (roots : List Int) : Option (List Int) :=
  if guardAccept n (symMod (mpolyEval f roots) n) then some roots else none

/-- guard of `multivariate_modn`: `if int(f(*roots)) % n == 0: return list(roots)`. -/
def guardModn (f : List Mono) (n : Int) (roots : List Int) : Option (List Int) :=
  if Int.fmod (symMod (mpolyEval f roots) n) n = 0 then some roots else none

/-! ### SHIPPED guard (/repo HEAD since fix 02ff5e0 = fixes/small-roots-unit-guard.diff):
`abs(y) > 1 and n % y == 0` -/

def guardAcceptR (n y : Int) : Bool := decide (1 < y.natAbs) && Int.fmod n y == 0

def guardUniR (coeffs : List Int) (n rx : Int) : Option Int :=
  if guardAcceptR n (symMod (polyEval coeffs rx) n) then some rx else none

def uniTailR (coeffs : List Int) (n : Int) (cands : List Int) : Option Int :=
  cands.findSome? (guardUniR coeffs n)

def guardMultiR (f : List Mono) (n : Int) (roots : List Int) : Option (List Int) :=
  if guardAcceptR n (symMod (mpolyEval f roots) n) then some roots else none

/-- the candidate loop of `multivariate_modn` over the solutions `sympy.solve` returns. -/
def modnTail (f : List Mono) (n : Int) (cands : List (List Int)) : Option (List Int) :=
  cands.findSome? (guardModn f n)

end Paranoid.Lat
