/-
Model/LinAlg.lean — mirrors paranoid_crypto/lib/linalg_util.py
(`echelon_form`, `upper_triangular_solve`, `solve_right`), function by function.

Python list of lists → `List (List Int)`; `b : Optional[list]` → `Option (List Int)`;
`gmpy2.mpq` → `PyQ` (normalised numerator/denominator); every `raise` / failing index →
`Except PyErr`.  The in-place mutation of `a` and `b` is modelled by returning the new lists.

Defect D7 (fixed in /repo by 275bdf4): the zero-pivot move of `echelon_form` WAS
`a.insert(nrows, a.pop(i))` before the fix and is `a.insert(nrows - 1, a.pop(i))` at /repo HEAD
(= fixes/D7-solve-right.diff).  Both are modelled (`LaVariant.pinned` = pre-fix, historical;
`.repaired` = SHIPPED); the theorems are about `.repaired`.

Assumption shared with the harness: the rows of `a` are distinct list objects (no aliasing).
No Mathlib.
-/
import ParanoidModel.Model.Basic
namespace Paranoid.LA

/-- which zero-pivot row move `echelon_form` performs (defect D7). -/
inductive LaVariant
  | pinned    -- `a.insert(nrows, a.pop(i))`      (PRE-FIX tree, historical; before 275bdf4)
  | repaired  -- `a.insert(nrows - 1, a.pop(i))`  (SHIPPED: /repo HEAD since 275bdf4)
  deriving DecidableEq, Repr

/-- decidable equality on results (for `decide +kernel` on closed model evaluations). -/
instance laDecEqExcept {ε α} [DecidableEq ε] [DecidableEq α] : DecidableEq (Except ε α)
  | .ok a, .ok b => if h : a = b then isTrue (by rw [h]) else isFalse (by intro h'; cases h'; exact h rfl)
  | .error a, .error b => if h : a = b then isTrue (by rw [h]) else isFalse (by intro h'; cases h'; exact h rfl)
  | .ok _, .error _ => isFalse (by intro h; cases h)
  | .error _, .ok _ => isFalse (by intro h; cases h)

/-! ### `gmpy2.mpq` -/

/-- a `gmpy2.mpq` value: `den > 0`, `gcd(num, den) = 1` (maintained by `PyQ.norm`). -/
structure PyQ where
  num : Int
  den : Nat
  deriving DecidableEq, Repr

/-- `mpq(n, d)` for ints with `d ≠ 0`: sign moved to the numerator, gcd removed. -/
def PyQ.norm (n d : Int) : PyQ :=
  ⟨(if d < 0 then -n else n) / (Int.gcd n d : Int), d.natAbs / Int.gcd n d⟩

def PyQ.ofInt (n : Int) : PyQ := ⟨n, 1⟩
def PyQ.add (x y : PyQ) : PyQ := PyQ.norm (x.num * y.den + y.num * x.den) (x.den * y.den)
def PyQ.sub (x y : PyQ) : PyQ := PyQ.norm (x.num * y.den - y.num * x.den) (x.den * y.den)
/-- `int * mpq`. -/
def PyQ.mulInt (k : Int) (x : PyQ) : PyQ := PyQ.norm (k * x.num) x.den
/-- `mpq(x, d)` for an mpq (or int) `x` and an int `d ≠ 0`. -/
def PyQ.divInt (x : PyQ) (d : Int) : PyQ := PyQ.norm x.num (x.den * d)

/-! ### list primitives -/

/-- `l.insert(k, x)` for `k ≥ 0`: the index is clamped to `len(l)`. -/
def pyInsert {α} (l : List α) (k : Nat) (x : α) : List α := l.take k ++ x :: l.drop k

/-- `l.insert(k, x)` for any Python int `k` (negative: counted from the end, clamped to 0). -/
def pyInsertI {α} (l : List α) (k : Int) (x : α) : List α :=
  match k with
  | .ofNat k => pyInsert l k x
  | .negSucc k => pyInsert l (l.length - (k + 1)) x

/-- `l.insert(k, l.pop(i))` with `i ≥ 0`; `pop` raises IndexError when `i ≥ len(l)`. -/
def moveRow {α} (l : List α) (i : Nat) (k : Int) : Except PyErr (List α) :=
  match l[i]? with
  | some x => .ok (pyInsertI (l.eraseIdx i) k x)
  | none => .error .indexError

/-- `a[r][c]` for `r, c ≥ 0`. -/
def getRC (a : List (List Int)) (r c : Nat) : Except PyErr Int :=
  match a[r]? with
  | none => .error .indexError
  | some row =>
    match row[c]? with
    | none => .error .indexError
    | some v => .ok v

/-- `l[k]` for any Python int `k` (negative: from the end). -/
def pyIndexI {α} (l : List α) (k : Int) : Option α :=
  match k with
  | .ofNat k => l[k]?
  | .negSucc k => if k + 1 ≤ l.length then l[l.length - (k + 1)]? else none

/-! ### `echelon_form` -/

/-- Local state of `echelon_form`.  `b = none` stands for "`if b:` is false" (`None` or `[]`),
which cannot change during the call.  `exact` is a ghost flag (not part of the Python state):
it stays `true` as long as every `//=` performed so far was an exact division. -/
structure EchSt where
  a : List (List Int)
  b : Option (List Int)
  nrows : Nat
  rank : Nat
  exact : Bool
  deriving DecidableEq, Repr

/-- `if b: b.insert(k, b.pop(i))` then `a.insert(k, a.pop(i))`. -/
def moveRows (st : EchSt) (i : Nat) (k : Int) : Except PyErr EchSt :=
  match st.b with
  | none =>
    match moveRow st.a i k with
    | .error e => .error e
    | .ok a' => .ok { st with a := a' }
  | some bl =>
    match moveRow bl i k with
    | .error e => .error e
    | .ok bl' =>
      match moveRow st.a i k with
      | .error e => .error e
      | .ok a' => .ok { st with a := a', b := some bl' }

/-- index the zero-pivot row is re-inserted at (D7). -/
def zeroPivotIdx (v : LaVariant) (nrows : Nat) : Int :=
  match v with
  | .pinned => (nrows : Int)
  | .repaired => (nrows : Int) - 1

/-- `while pivots < n - 1 and a[i][i] == 0: move row i down; pivots += 1`
(fuel = `n - 1 - pivots`). -/
def pivotSearch (v : LaVariant) (i : Nat) : Nat → EchSt → Except PyErr EchSt
  | 0, st => .ok st
  | fuel + 1, st =>
    match getRC st.a i i with
    | .error e => .error e
    | .ok p =>
      if p = 0 then
        match moveRows st i (zeroPivotIdx v st.nrows) with
        | .error e => .error e
        | .ok st' => pivotSearch v i fuel st'
      else .ok st

/-- `for k in range(k0, k0 + cnt): rj[k] = p * rj[k] - q * ri[k]; all_zeros &&= rj[k] == 0`
(`ri` is row `i`, `rj` row `j ≠ i`; `p = a[i][i]`, `q = a[j][i]` are not written by the loop). -/
def elimCols (p q : Int) (ri : List Int) : Nat → Nat → List Int → Bool →
    Except PyErr (List Int × Bool)
  | 0, _, rj, az => .ok (rj, az)
  | cnt + 1, k, rj, az =>
    match rj[k]?, ri[k]? with
    | some x, some y =>
      elimCols p q ri cnt (k + 1) (rj.set k (p * x - q * y)) (az && (p * x - q * y == 0))
    | _, _ => .error .indexError

/-- `if b: b[j] = a[i][i] * b[j] - a[j][i] * b[i]`. -/
def elimB (p q : Int) (i j : Nat) : Option (List Int) → Except PyErr (Option (List Int))
  | none => .ok none
  | some bl =>
    match bl[j]?, bl[i]? with
    | some bj, some bi => .ok (some (bl.set j (p * bj - q * bi)))
    | _, _ => .error .indexError

/-- `a[j][i] = 0`. -/
def setZero (row : List Int) (i : Nat) : Except PyErr (List Int) :=
  if i < row.length then .ok (row.set i 0) else .error .indexError

/-- body of the `while j < nrows` loop up to (not including) the `if all_zeros` test:
returns the state with row `j` (and `b[j]`) rewritten, and `all_zeros`.
(`range(i + 1, ncols)` is never empty here because `i < n - 1 ≤ ncols - 1`, so reading
`a[i][i]`, `a[j][i]` before the loop raises exactly when the Python loop does.) -/
def elimRow (ncols i j : Nat) (st : EchSt) : Except PyErr (EchSt × Bool) :=
  match st.a[i]?, st.a[j]? with
  | some ri, some rj =>
    match ri[i]?, rj[i]? with
    | some p, some q =>
      match elimB p q i j st.b with
      | .error e => .error e
      | .ok b' =>
        match elimCols p q ri (ncols - (i + 1)) (i + 1) rj true with
        | .error e => .error e
        | .ok (rj', az) =>
          match setZero rj' i with
          | .error e => .error e
          | .ok rj'' => .ok ({ st with a := st.a.set j rj'', b := b' }, az)
    | _, _ => .error .indexError
  | _, _ => .error .indexError

/-- `if rank < n: rank += 1`. -/
def bumpRank (n : Nat) (st : EchSt) : EchSt :=
  if st.rank < n then { st with rank := st.rank + 1 } else st

/-- dependent row: `b.insert(nrows, b.pop(j)); a.insert(nrows, a.pop(j)); nrows -= 1`. -/
def retireRow (j : Nat) (st : EchSt) : Except PyErr EchSt :=
  match moveRows st j (st.nrows : Int) with
  | .error e => .error e
  | .ok st' => .ok { st' with nrows := st'.nrows - 1 }

/-- `while j < nrows:` loop (each turn decreases `nrows - j` by one; fuel = `nrows - j`). -/
def elimLoop (n ncols i : Nat) : Nat → Nat → EchSt → Except PyErr EchSt
  | 0, _, st => .ok st
  | fuel + 1, j, st =>
    if j < st.nrows then
      match elimRow ncols i j st with
      | .error e => .error e
      | .ok (st', allZeros) =>
        if allZeros then
          match retireRow j st' with
          | .error e => .error e
          | .ok st'' => elimLoop n ncols i fuel j st''
        else elimLoop n ncols i fuel (j + 1) (bumpRank n st')
    else .ok st

/-- `for k in range(k0, k0 + cnt): row[k] //= d` (`a[j][k]` is read before the divisor is
looked at); second component: all divisions exact. -/
def divCols (d : Int) : Nat → Nat → List Int → Bool → Except PyErr (List Int × Bool)
  | 0, _, row, ex => .ok (row, ex)
  | cnt + 1, k, row, ex =>
    match row[k]? with
    | none => .error .indexError
    | some x =>
      if d = 0 then .error .zeroDivision
      else divCols d cnt (k + 1) (row.set k (Int.fdiv x d)) (ex && (x % d == 0))

/-- `if b: b[j] //= d`. -/
def divB (d : Int) (j : Nat) : Option (List Int) → Bool → Except PyErr (Option (List Int) × Bool)
  | none, ex => .ok (none, ex)
  | some bl, ex =>
    match bl[j]? with
    | none => .error .indexError
    | some x =>
      if d = 0 then .error .zeroDivision
      else .ok (some (bl.set j (Int.fdiv x d)), ex && (x % d == 0))

/-- body of `for j in range(i + 1, nrows)` of the division pass (`i ≥ 1`), divisor
`a[i-1][i-1]` (row `i - 1` is not written by the pass). -/
def divRow (ncols i j : Nat) (st : EchSt) : Except PyErr EchSt :=
  match getRC st.a (i - 1) (i - 1) with
  | .error e => .error e
  | .ok d =>
    match divB d j st.b st.exact with
    | .error e => .error e
    | .ok (b', ex) =>
      match st.a[j]? with
      | none => .error .indexError
      | some row =>
        match divCols d (ncols - (i + 1)) (i + 1) row ex with
        | .error e => .error e
        | .ok (row', ex') => .ok { st with a := st.a.set j row', b := b', exact := ex' }

/-- `for j in range(j, j + cnt)` of the division pass. -/
def divLoop (ncols i : Nat) : Nat → Nat → EchSt → Except PyErr EchSt
  | 0, _, st => .ok st
  | cnt + 1, j, st =>
    match divRow ncols i j st with
    | .error e => .error e
    | .ok st' => divLoop ncols i cnt (j + 1) st'

/-- one turn of `while i < n - 1`. -/
def echStep (v : LaVariant) (n ncols i : Nat) (st : EchSt) : Except PyErr EchSt :=
  match pivotSearch v i (n - 1 - i) st with
  | .error e => .error e
  | .ok st1 =>
    match elimLoop n ncols i (st1.nrows - (i + 1)) (i + 1) st1 with
    | .error e => .error e
    | .ok st2 =>
      if 1 ≤ i then divLoop ncols i (st2.nrows - (i + 1)) (i + 1) st2 else .ok st2

/-- `while i < n - 1:` (fuel = `n - 1 - i`). -/
def echOuter (v : LaVariant) (n ncols : Nat) : Nat → Nat → EchSt → Except PyErr EchSt
  | 0, _, st => .ok st
  | fuel + 1, i, st =>
    match echStep v n ncols i st with
    | .error e => .error e
    | .ok st' => echOuter v n ncols fuel (i + 1) st'

/-- `if b:` — `None` and `[]` are false. -/
def bActive : Option (List Int) → Option (List Int)
  | some (x :: l) => some (x :: l)
  | _ => none

/-- `if all(v == 0 for v in a[nrows - 1]): rank -= 1` (`rank ≥ 1` before, it starts at 1). -/
def finalRank (st : EchSt) : Except PyErr Nat :=
  match pyIndexI st.a ((st.nrows : Int) - 1) with
  | none => .error .indexError
  | some row => .ok (if row.all (· == 0) then st.rank - 1 else st.rank)

/-- `echelon_form(a, b)` up to the final state (rank not yet corrected). -/
def echelonRun (v : LaVariant) (a : List (List Int)) (b : Option (List Int)) :
    Except PyErr EchSt :=
  match a with
  | [] => .error .indexError                       -- `len(a[0])`
  | row0 :: _ =>
    match bActive b with
    | some bl =>
      if a.length ≠ bl.length then .error .valueError
      else echOuter v (min a.length row0.length) row0.length (min a.length row0.length - 1) 0
            ⟨a, some bl, a.length, 1, true⟩
    | none =>
      echOuter v (min a.length row0.length) row0.length (min a.length row0.length - 1) 0
        ⟨a, none, a.length, 1, true⟩

/-- what the caller's `b` object holds after the call (`b` itself when it was never touched). -/
def bAfter (b : Option (List Int)) (st : EchSt) : Option (List Int) :=
  match st.b with
  | some bl => some bl
  | none => b

/-- same for a caller that passed a list. -/
def bAfterL (b : List Int) (st : EchSt) : List Int :=
  match st.b with
  | some bl => bl
  | none => b

/-- `echelon_form(a, b)`: `(rank, a after, b after)`. -/
def echelonForm (v : LaVariant) (a : List (List Int)) (b : Option (List Int)) :
    Except PyErr (Nat × List (List Int) × Option (List Int)) :=
  match echelonRun v a b with
  | .error e => .error e
  | .ok st =>
    match finalRank st with
    | .error e => .error e
    | .ok r => .ok (r, st.a, bAfter b st)

/-! ### `upper_triangular_solve` -/

/-- `sum(a[i][j] * xs[j] for j in range(j, j + cnt))` added to `acc`. -/
def utsRowSum (row : List Int) (xs : List PyQ) : Nat → Nat → PyQ → Except PyErr PyQ
  | 0, _, acc => .ok acc
  | cnt + 1, j, acc =>
    match row[j]?, xs[j]? with
    | some v, some x => utsRowSum row xs cnt (j + 1) (acc.add (PyQ.mulInt v x))
    | _, _ => .error .indexError

/-- body of `for i in range(nrows - 1, -1, -1)`; `none` = `return None`. -/
def utsStep (a : List (List Int)) (b : List Int) (ncols i : Nat) (xs : List PyQ) :
    Except PyErr (Option (List PyQ)) :=
  match a[i]? with
  | none => .error .indexError
  | some row =>
    match row[i]? with
    | none => .error .indexError
    | some den =>
      if den = 0 then .ok none
      else
        match b[i]? with
        | none => .error .indexError
        | some bi =>
          match utsRowSum row xs (ncols - (i + 1)) (i + 1) (PyQ.ofInt 0) with
          | .error e => .error e
          | .ok s =>
            if i < xs.length then
              .ok (some (xs.set i (((PyQ.ofInt bi).sub s).divInt den)))
            else .error .indexError

/-- the loop, `cnt` = number of rows still to do (index `cnt - 1` next). -/
def utsLoop (a : List (List Int)) (b : List Int) (ncols : Nat) : Nat → List PyQ →
    Except PyErr (Option (List PyQ))
  | 0, xs => .ok (some xs)
  | i + 1, xs =>
    match utsStep a b ncols i xs with
    | .error e => .error e
    | .ok none => .ok none
    | .ok (some xs') => utsLoop a b ncols i xs'

/-- `upper_triangular_solve(a, b)`. -/
def upperTriangularSolve (a : List (List Int)) (b : List Int) :
    Except PyErr (Option (List PyQ)) :=
  match a with
  | [] => .error .indexError
  | row0 :: _ =>
    if a.length ≠ row0.length then .error .valueError
    else if a.length ≠ b.length then .error .valueError
    else utsLoop a b row0.length a.length (List.replicate row0.length (PyQ.ofInt 0))

/-! ### `solve_right` -/

/-- `solve_right(a, b)` together with the ghost exactness flag of the elimination. -/
def solveRightX (v : LaVariant) (a : List (List Int)) (b : List Int) :
    Except PyErr (Option (List PyQ) × Bool) :=
  match a with
  | [] => .error .indexError
  | row0 :: _ =>
    if a.length ≠ b.length then .error .valueError
    else if a.length < row0.length then .error .valueError
    else
      match echelonRun v a (some b) with
      | .error e => .error e
      | .ok st =>
        match finalRank st with
        | .error e => .error e
        | .ok rank =>
          if rank ≠ row0.length then .ok (none, st.exact)
          else
            match upperTriangularSolve (st.a.take rank) ((bAfterL b st).take rank) with
            | .error e => .error e
            | .ok r => .ok (r, st.exact)

/-- `solve_right(a, b)`. -/
def solveRight (v : LaVariant) (a : List (List Int)) (b : List Int) :
    Except PyErr (Option (List PyQ)) :=
  match solveRightX v a b with
  | .error e => .error e
  | .ok (r, _) => .ok r

end Paranoid.LA
