/-
Model/NTheory.lean — mirrors paranoid_crypto/lib/ntheory_util.py function by function.
No Mathlib.
-/
import ParanoidModel.Model.Basic
namespace Paranoid

/-- one level of `FastProduct` / the `values` update of `ExtendedProductTree`:
`[a*b for a, b in zip_longest(values[::2], values[1::2], fillvalue=1)]`. -/
def pairProd : List Nat → List Nat
  | a :: b :: rest => a * b :: pairProd rest
  | [a] => [a * 1]
  | [] => []

theorem pairProd_length (l : List Nat) : (pairProd l).length = (l.length + 1) / 2 := by
  fun_induction pairProd l with
  | case1 a b rest ih => simp only [List.length_cons, ih]; omega
  | case2 a => simp
  | case3 => simp

theorem pairProd_length_lt (l : List Nat) (h : 2 ≤ l.length) :
    (pairProd l).length < l.length := by
  rw [pairProd_length]; omega

/-- `FastProduct`. -/
def fastProduct (values : List Nat) : Nat :=
  match _h : values with
  | [] => 1
  | [a] => a
  | a :: b :: rest => fastProduct (pairProd (a :: b :: rest))
termination_by values.length
decreasing_by
  have := pairProd_length_lt (a :: b :: rest) (by simp)
  simpa using this

/-- the `t` update of `ExtendedProductTree`:
`[a*d + b*c for a,b,c,d in zip(t[::2], t[1::2], values[::2], values[1::2])]` followed by
`t.append(last_t)` when `len(values)` is odd. `t` and `values` have equal length. -/
def pairT : List Nat → List Nat → List Nat
  | a :: b :: ts, c :: d :: vs => (a * d + b * c) :: pairT ts vs
  | [a], [_] => [a]
  | _, _ => []

/-- loop of `ExtendedProductTree`: returns the list of levels (leaves first) and final `t`. -/
def extTreeLoop (values t : List Nat) (tree : List (List Nat)) : List (List Nat) × List Nat :=
  if h : 2 ≤ values.length then
    extTreeLoop (pairProd values) (pairT t values) (tree ++ [pairProd values])
  else (tree, t)
termination_by values.length
decreasing_by exact pairProd_length_lt values h

/-- `ExtendedProductTree(values)`; `t[0]` raises IndexError on the empty list. -/
def extendedProductTree (values : List Nat) : Except PyErr (List (List Nat) × Nat) :=
  let (tree, t) := extTreeLoop values (values.map fun _ => 1) [values]
  match t with
  | [] => .error .indexError
  | t0 :: _ => .ok (tree, t0)

/-- `gmpy.f_mod_2exp(x, t)`: non-negative residue modulo `2^t`. -/
def fMod2exp (x : Int) (t : Nat) : Nat := (x % ((2 : Int) ^ t)).toNat

/-- body of the loop of `Inverse2exp`: `gmpy.f_mod_2exp(a * (2 - a * n), t)` for the new `t`. -/
def inv2Step (n a t : Nat) : Nat := fMod2exp ((a : Int) * (2 - (a : Int) * n)) t

/-- loop of `Inverse2exp`: `while t < k: t = min(k, 2*t); a = …`. `t` at least doubles until
it reaches `k`, so `k + 1` units of fuel are enough (`inverse2exp_correct` would be false
otherwise). -/
def inverse2expLoop (n k : Nat) : Nat → Nat → Nat → Nat
  | 0, _, a => a
  | fuel + 1, t, a =>
    if t < k then inverse2expLoop n k fuel (min k (2 * t)) (inv2Step n a (min k (2 * t)))
    else a

/-- `Inverse2exp(n, k)` for `n ≥ 0`. For `k ≤ 2` the loop is not entered and the unreduced
`n % 4` is returned. -/
def inverse2exp (n k : Nat) : Option Nat :=
  if n % 2 = 0 then none else some (inverse2expLoop n k (k + 1) 2 (n % 4))

/-- body of the loop of `InverseSqrt2exp`: `gmpy.f_mod_2exp(a * (3 - a * a * n) // 2, t)`
(`//` by the positive literal 2: floor = `Int.ediv`). -/
def invSqrtStep (n a t : Nat) : Nat :=
  fMod2exp (((a : Int) * (3 - (a : Int) * a * n)) / 2) t

/-- loop of `InverseSqrt2exp`: `while t < k: t = min(k, 2*t - 2); a = …`. -/
def inverseSqrt2expLoop (n k : Nat) : Nat → Nat → Nat → Nat
  | 0, _, a => a
  | fuel + 1, t, a =>
    if t < k then
      inverseSqrt2expLoop n k fuel (min k (2 * t - 2)) (invSqrtStep n a (min k (2 * t - 2)))
    else a

/-- `InverseSqrt2exp(n, k)` for `n ≥ 0`, `k ≥ 0`. -/
def inverseSqrt2exp (n k : Nat) : Option Nat :=
  if k < 3 then (List.range (2 ^ k)).find? (fun a => a * a * n % 2 ^ k == 1)
  else if n % 8 ≠ 1 then none
  else some (inverseSqrt2expLoop n k (k + 1) 3 1)

/-- the list of four roots built at the end of `Sqrt2exp` from `r`. `2**k - r` is a Python
int that would be negative for `r > 2^k`; `sqrt2exp_root_lt` shows `r < 2^k`, so the `Nat`
subtraction is the same number. -/
def sqrtRoots (k r : Nat) : List Nat :=
  [r, 2 ^ k - r, fMod2exp ((2 : Int) ^ (k - 1) - r) k, fMod2exp ((2 : Int) ^ (k - 1) + r) k]

/-- `Sqrt2exp(n, k)` for `n ≥ 0`, `k ≥ 0` (`k < 0` raises ValueError as well). -/
def sqrt2exp (n k : Nat) : Except PyErr (List Nat) :=
  if n % 2 = 0 then .error .valueError
  else if k < 3 then .ok ((List.range (2 ^ k)).filter (fun x => ((x * x : Int) - n) % 2 ^ k == 0))
  else match inverseSqrt2exp n k with
    | none => .ok []
    | some s => match inverse2exp s k with
      | none => .error .typeError   -- `2**k - None`; unreachable (`sqrt2exp_no_typeError`)
      | some r => .ok (sqrtRoots k r)

/-- loop of `ContinuedFraction` on non-negative inputs; state `(a, b, r, s, t, u)`. -/
def cfLoop : Nat → Nat → Nat → Nat → Nat → Nat → Nat → List (Nat × Nat × Nat)
  | 0, _, _, _, _, _, _ => []
  | fuel + 1, a, b, r, s, t, u =>
    if b = 0 then [] else
    (a / b, r * (a / b) + s, t * (a / b) + u) ::
      cfLoop fuel b (a % b) (r * (a / b) + s) r (t * (a / b) + u) t

/-- `ContinuedFraction(a, b)` for `a, b ≥ 0`. Euclid needs at most `2*bitlen(b)+2` steps
(`continuedFraction_eq_convergents` proves that this fuel never runs out). -/
def continuedFraction (a b : Nat) : List (Nat × Nat × Nat) :=
  cfLoop (2 * bitLength b + 2) a b 1 0 0 1

/-- HISTORICAL: `d = (b + 1) // 2` of the PRE-FIX `DivmodRounded` (before fix cdbbb74). -/
def dmrOffset (b : Int) : Int := Int.fdiv (b + 1) 2

/-- HISTORICAL: `DivmodRounded(a, b)` as it was BEFORE fix cdbbb74 (D16); /repo HEAD ships
`divmodRoundedR`.  Kept for the refutation theorems of Props/C19.lean. -/
def divmodRounded (a b : Int) : Except PyErr (Int × Int) :=
  if b = 0 then .error .zeroDivision
  else .ok (Int.fdiv (a + dmrOffset b) b, Int.fmod (a + dmrOffset b) b - dmrOffset b)

/-- `d` of the SHIPPED `DivmodRounded` (/repo HEAD since fix cdbbb74 = fixes/D16-divmod-rounded.diff):
`d = b // 2 if b > 0 else (b + 1) // 2`, i.e. `b / 2` rounded towards zero. -/
def dmrOffsetR (b : Int) : Int := if 0 < b then Int.fdiv b 2 else Int.fdiv (b + 1) 2

/-- `DivmodRounded(a, b)` AS SHIPPED (/repo HEAD, Python floor `divmod`); the pre-fix function is
`divmodRounded`.  Specification: Props/C19Shipped.lean. -/
def divmodRoundedR (a b : Int) : Except PyErr (Int × Int) :=
  if b = 0 then .error .zeroDivision
  else .ok (Int.fdiv (a + dmrOffsetR b) b, Int.fmod (a + dmrOffsetR b) b - dmrOffsetR b)

/-- `Sqrt2exp(n, k)` with a possibly negative `k` (`k < 0` raises ValueError). -/
def sqrt2expZ (n : Nat) (k : Int) : Except PyErr (List Nat) :=
  if k < 0 then .error .valueError else sqrt2exp n k.toNat

/-- `len(range(lo, hi, step))` for `step > 0`. -/
def rangeLen (lo hi step : Nat) : Nat := (hi - lo + step - 1) / step

/-- inner loop of `Sieve`: `for j in range(i*i, n, i): table[j] = False`, with `cnt` the
number of iterations left and `j` the current index (`j < n`, so the write is in bounds). -/
def sieveMark (i : Nat) : Nat → Nat → Array Bool → Array Bool
  | 0, _, t => t
  | cnt + 1, j, t => sieveMark i cnt (j + i) (t.setIfInBounds j false)

/-- outer loop of `Sieve`: `for i in range(2, isqrt(n) + 1): if table[i]: …` with `fuel`
iterations left. `table[i]` is in bounds (`i ≤ isqrt n < n`), see `sieve_index_in_bounds`. -/
def sieveOuter (n : Nat) : Nat → Nat → Array Bool → Array Bool
  | 0, _, t => t
  | fuel + 1, i, t =>
    sieveOuter n fuel (i + 1)
      (if t[i]? = some true then sieveMark i (rangeLen (i * i) n i) (i * i) t else t)

/-- the table of `Sieve(n)` after the marking loops. -/
def sieveTable (n : Nat) : Array Bool :=
  sieveOuter n (isqrt n + 1 - 2) 2 (Array.replicate n true)

/-- `[i for i, v in enumerate(table) if v][2:]` for a table of length `n`. -/
def sieveCollect (n : Nat) (t : Array Bool) : List Nat :=
  ((List.range n).filter (fun i => t[i]? = some true)).drop 2

/-- `Sieve(n)`. -/
def sieve (n : Nat) : List Nat := sieveCollect n (sieveTable n)

end Paranoid
