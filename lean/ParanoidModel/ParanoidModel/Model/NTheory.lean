/-
Model/NTheory.lean — mirrors paranoid_crypto/lib/ntheory_util.py function by function.
No Mathlib.
-/
import ParanoidModel.Model.Basic
namespace Paranoid

/-- one level of `FastProduct` / the `values` update of `ExtendedProductTree`:
`[a*b for a, b in zip_longest(values[::2], values[1::2], fillvalue=1)]`. -/
def pairProd : List Nat → List Nat
  | a :: b :: rest => a * b :: pairProd rest
  | [a] => [a * 1]
  | [] => []

theorem pairProd_length (l : List Nat) : (pairProd l).length = (l.length + 1) / 2 := by
  fun_induction pairProd l with
  | case1 a b rest ih => simp only [List.length_cons, ih]; omega
  | case2 a => simp
  | case3 => simp

theorem pairProd_length_lt (l : List Nat) (h : 2 ≤ l.length) :
    (pairProd l).length < l.length := by
  rw [pairProd_length]; omega

/-- `FastProduct`. -/
def fastProduct (values : List Nat) : Nat :=
  match _h : values with
  | [] => 1
  | [a] => a
  | a :: b :: rest => fastProduct (pairProd (a :: b :: rest))
termination_by values.length
decreasing_by
  have := pairProd_length_lt (a :: b :: rest) (by simp)
  simpa using this

/-- the `t` update of `ExtendedProductTree`:
`[a*d + b*c for a,b,c,d in zip(t[::2], t[1::2], values[::2], values[1::2])]` followed by
`t.append(last_t)` when `len(values)` is odd. `t` and `values` have equal length. -/
def pairT : List Nat → List Nat → List Nat
  | a :: b :: ts, c :: d :: vs => (a * d + b * c) :: pairT ts vs
  | [a], [_] => [a]
  | _, _ => []

/-- loop of `ExtendedProductTree`: returns the list of levels (leaves first) and final `t`. -/
def extTreeLoop (values t : List Nat) (tree : List (List Nat)) : List (List Nat) × List Nat :=
  if h : 2 ≤ values.length then
    extTreeLoop (pairProd values) (pairT t values) (tree ++ [pairProd values])
  else (tree, t)
termination_by values.length
decreasing_by exact pairProd_length_lt values h

/-- `ExtendedProductTree(values)`; `t[0]` raises IndexError on the empty list. -/
def extendedProductTree (values : List Nat) : Except PyErr (List (List Nat) × Nat) :=
  let (tree, t) := extTreeLoop values (values.map fun _ => 1) [values]
  match t with
  | [] => .error .indexError
  | t0 :: _ => .ok (tree, t0)

/-- `gmpy.f_mod_2exp(x, t)`: non-negative residue modulo `2^t`. -/
def fMod2exp (x : Int) (t : Nat) : Nat := (x % ((2 : Int) ^ t)).toNat

/-- loop of `Inverse2exp`. -/
def inverse2expLoop (n : Nat) (k : Nat) : Nat → Nat → Nat → Nat
  | 0, _, a => a
  | fuel + 1, t, a =>
    if t < k then
      let t' := min k (2 * t)
      inverse2expLoop n k fuel t' (fMod2exp ((a : Int) * (2 - (a : Int) * n)) t')
    else a

/-- `Inverse2exp(n, k)`. -/
def inverse2exp (n k : Nat) : Option Nat :=
  if n % 2 = 0 then none else some (inverse2expLoop n k (k + 1) 2 (n % 4))

/-- loop of `InverseSqrt2exp`. -/
def inverseSqrt2expLoop (n : Nat) (k : Nat) : Nat → Nat → Nat → Nat
  | 0, _, a => a
  | fuel + 1, t, a =>
    if t < k then
      let t' := min k (2 * t - 2)
      inverseSqrt2expLoop n k fuel t'
        (fMod2exp (((a : Int) * (3 - (a : Int) * a * n)) / 2) t')
    else a

/-- `InverseSqrt2exp(n, k)`. -/
def inverseSqrt2exp (n k : Nat) : Option Nat :=
  if k < 3 then (List.range (2 ^ k)).find? (fun a => a * a * n % 2 ^ k == 1)
  else if n % 8 ≠ 1 then none
  else some (inverseSqrt2expLoop n k (k + 1) 3 1)

/-- `Sqrt2exp(n, k)` for `k ≥ 0`. -/
def sqrt2exp (n k : Nat) : Except PyErr (List Nat) :=
  if n % 2 = 0 then .error .valueError
  else if k < 3 then .ok ((List.range (2 ^ k)).filter (fun x => ((x * x : Int) - n) % 2 ^ k == 0))
  else match inverseSqrt2exp n k with
    | none => .ok []
    | some s => match inverse2exp s k with
      | none => .error .typeError   -- `2**k - None`; unreachable (s is odd)
      | some r => .ok [r, 2 ^ k - r, fMod2exp ((2 : Int) ^ (k - 1) - r) k,
                        fMod2exp ((2 : Int) ^ (k - 1) + r) k]

/-- loop of `ContinuedFraction` on non-negative inputs. -/
def cfLoop : Nat → Nat → Nat → Nat → Nat → Nat → Nat → List (Nat × Nat × Nat)
  | 0, _, _, _, _, _, _ => []
  | fuel + 1, a, b, r, s, t, u =>
    if b = 0 then [] else
    let q := a / b
    let rem := a % b
    let r' := r * q + s
    let t' := t * q + u
    (q, r', t') :: cfLoop fuel b rem r' r t' t

/-- `ContinuedFraction(a, b)` for `a, b ≥ 0`. Euclid needs at most `2*bitlen(b)+2` steps. -/
def continuedFraction (a b : Nat) : List (Nat × Nat × Nat) :=
  cfLoop (2 * bitLength b + 2) a b 1 0 0 1

/-- `DivmodRounded(a, b)` (Python floor `divmod`). -/
def divmodRounded (a b : Int) : Except PyErr (Int × Int) :=
  if b = 0 then .error .zeroDivision else
  let d := Int.fdiv (b + 1) 2
  .ok (Int.fdiv (a + d) b, Int.fmod (a + d) b - d)

/-- inner loop of `Sieve`: `for j in range(i*i, n, i): table[j] = False`. -/
def sieveMark (n i : Nat) (table : Array Bool) : Array Bool := Id.run do
  let mut t := table
  let mut j := i * i
  for _ in [0:n] do
    if j < n then
      t := t.set! j false
      j := j + i
  return t

/-- `Sieve(n)`. -/
def sieve (n : Nat) : List Nat := Id.run do
  let mut table := Array.replicate n true
  for i in [2:isqrt n + 1] do
    if table[i]! then
      table := sieveMark n i table
  let mut out : Array Nat := #[]
  for i in [2:n] do
    if table[i]! then out := out.push i
  return out.toList

end Paranoid
