/-
Model/Nist.lean — mirrors paranoid_crypto/lib/randomness_tests/nist_suite.py (all tests of
NIST SP 800-22 except the all-float spectral test) and extended_nist_suite.py.

Floats never enter the model (DESIGN 3.1): every function returns the parameter choice (or
the Python exception), the exact integer counts and, where it is a single fraction, the exact
rational statistic as numerator/denominator.  Everything Python computes in floating point
from there on (forming the statistic, erfc, gammaincc, erf, log, sqrt, matrix_power, binom.cdf)
is the "float tail", re-evaluated by harness/corr/c12.py with mpmath.

Bit strings are Python ints (`bits`, LSB = first bit) together with their length `n`;
precondition of every function here, as of the Python code: `bits < 2^n`.
The bit primitives of util.py (owned by C15) and Berlekamp–Massey (C14) are NOT mirrored
here: simple list-level definitions are used instead and the per-block linear complexities
are oracle arguments.  The correspondence run of C12 compares against the real code and so
cross-checks those primitives as well.

Repaired behaviour is modelled for D4, D10–D14 (DESIGN section 6); the pinned behaviour of
the random-walk extremes (D4) is available through `Variant.pinned`.
No Mathlib.
-/
import ParanoidModel.Model.Basic
namespace Paranoid.Nist
open Paranoid

/-! ## bit strings as lists -/

/-- the `n` low bits of `x`, least significant first (definition). -/
def bitsSmall : Nat → Nat → List Bool
  | 0, _ => []
  | n + 1, x => (x % 2 == 1) :: bitsSmall n (x / 2)

/-- divide-and-conquer evaluation of `bitsSmall` (same value for every fuel, see
`Proofs/Nist.lean: bitsDC_eq`), needed because `x / 2` on a 2^20-bit number is linear. -/
def bitsDC : Nat → Nat → Nat → List Bool
  | 0, n, x => bitsSmall n x
  | f + 1, n, x =>
    if n ≤ 32 then bitsSmall n x
    else bitsDC f (n / 2) (x % 2 ^ (n / 2)) ++ bitsDC f (n - n / 2) (x >>> (n / 2))

/-- `bits` as the list ε₁ … εₙ of NIST SP 800-22 (ε₁ = least significant bit). -/
def bitList (bits n : Nat) : List Bool := bitsDC 64 n bits

/-- number of ones (`util.BitCount`). -/
def ones (l : List Bool) : Nat := l.count true

/-- value of a little-endian bit list. -/
def natOfBits : List Bool → Nat
  | [] => 0
  | b :: l => (if b then 1 else 0) + 2 * natOfBits l

def absDiff (a b : Nat) : Nat := if a ≥ b then a - b else b - a

/-- `util.SplitSequence` on lists: `count` consecutive blocks of `m` bits. -/
def chunksAux (m : Nat) : Nat → List Bool → List (List Bool) → List (List Bool)
  | 0, _, acc => acc.reverse
  | k + 1, l, acc => chunksAux m k (l.drop m) (l.take m :: acc)

/-- the `length / m` complete blocks of `m` bits; the incomplete last block is ignored. -/
def chunks (l : List Bool) (m : Nat) : List (List Bool) := chunksAux m (l.length / m) l []

/-- groups of `r` consecutive elements (complete groups only); used for the matrices. -/
def groupsAux {α} (r : Nat) : Nat → List α → List (List α) → List (List α)
  | 0, _, acc => acc.reverse
  | k + 1, l, acc => groupsAux r k (l.drop r) (l.take r :: acc)

def groups {α} (l : List α) (r : Nat) : List (List α) := groupsAux r (l.length / r) l []

/-- `count[i]` = number of elements of `vals` equal to `i`, for `i < size`
(values `≥ size` are ignored). -/
def tally (size : Nat) (vals : List Nat) : Array Nat :=
  vals.foldl (fun a v => a.modify v (· + 1)) (Array.replicate size 0)

/-- histogram of a list of naturals as sorted `(value, multiplicity)` pairs. -/
def rleStep (acc : List (Nat × Nat)) (v : Nat) : List (Nat × Nat) :=
  match acc with
  | (w, c) :: rest => if w = v then (w, c + 1) :: rest else (v, 1) :: acc
  | [] => [(v, 1)]

def multiset (vals : List Nat) : List (Nat × Nat) :=
  ((vals.mergeSort (fun a b => a ≤ b)).foldl rleStep []).reverse

/-! ## 2.1 Frequency (monobit) -/

/-- `Frequency`: `ok (|2·#ones − n|, n)`; p = erfc(|S_n| / √n / √2).
`abs(s) / math.sqrt(0)` raises ZeroDivisionError. -/
def frequency (bits n : Nat) : Except PyErr (Nat × Nat) :=
  if n = 0 then .error .zeroDivision
  else .ok (absDiff (2 * ones (bitList bits n)) n, n)

/-! ## 2.2 Frequency within a block -/

/-- `m = 16; while n // m >= 100: m *= 2`. -/
def bfLoop : Nat → Nat → Nat → Nat
  | 0, _, m => m
  | f + 1, n, m => if n / m ≥ 100 then bfLoop f n (2 * m) else m

/-- block size chosen by `BlockFrequency`. -/
def bfBlockSize (n : Nat) : Nat := max 20 (bfLoop n n 16)

structure BlockFreqOut where
  m : Nat
  /-- number of ones in each block -/
  counts : List Nat
  /-- χ² = num / den with num = Σ (2·onesᵢ − m)², den = m -/
  num : Nat
  den : Nat
  deriving DecidableEq, Repr

def sqDev (m c : Nat) : Nat := absDiff (2 * c) m * absDiff (2 * c) m

/-- `BlockFrequencyImpl(blocks, m)` on the counts: χ² = 4m Σ (πᵢ − ½)² = Σ (2cᵢ − m)² / m;
p = igamc(N/2, χ²/2). -/
def blockFrequencyImpl (m : Nat) (counts : List Nat) : BlockFreqOut :=
  { m := m, counts := counts, num := (counts.map (sqDev m)).sum, den := m }

def blockFrequency (bits n : Nat) : Except PyErr BlockFreqOut :=
  if n < 100 then .error .insufficientData
  else .ok (blockFrequencyImpl (bfBlockSize n)
    ((chunks (bitList bits n) (bfBlockSize n)).map ones))

/-! ## 2.3 Runs -/

/-- number of positions where consecutive bits differ. -/
def transitions (l : List Bool) : Nat := (l.zip l.tail).countP (fun p => p.1 != p.2)

/-- `util.Runs`: number of maximal runs (0 for the empty string). -/
def runsCount (l : List Bool) : Nat := if l.isEmpty then 0 else transitions l + 1

inductive RunsOut
  /-- π(1−π) = 0: NIST 2.3.4 frequency pre-test fails, p = 0 (repaired behaviour, D13;
  the pinned code raises ZeroDivisionError here). -/
  | degenerate
  /-- `(ones, V_obs, n)`: p = erfc(|V·n − 2·ones·(n−ones)|·n / (2·√(2n)·ones·(n−ones))). -/
  | stat (pop v n : Nat)
  deriving DecidableEq, Repr

def runsOfCounts (pop v n : Nat) : RunsOut :=
  if pop = 0 ∨ pop = n then .degenerate else .stat pop v n

/-- `Runs`. `BitCount(bits) / 0` raises ZeroDivisionError. The code performs no other
pre-test: for every other π the formula is evaluated. -/
def runs (bits n : Nat) : Except PyErr RunsOut :=
  if n = 0 then .error .zeroDivision
  else .ok (runsOfCounts (ones (bitList bits n)) (runsCount (bitList bits n)) n)

/-! ## 2.4 Longest run of ones in a block -/

def lrStep (st : Nat × Nat) (b : Bool) : Nat × Nat :=
  if b then (st.1 + 1, max st.2 (st.1 + 1)) else (0, st.2)

/-- `util.LongestRunOfOnes` on a list. -/
def longestRun (l : List Bool) : Nat := (l.foldl lrStep (0, 0)).2

/-- parameter set `(M, v_lower, v_upper)` by `for p in params[::-1]: if n >= p[0]`. -/
def lrParams (n : Nat) : Option (Nat × Nat × Nat) :=
  if n ≥ 750000 then some (10000, 10, 16)
  else if n ≥ 6272 then some (128, 4, 9)
  else if n ≥ 128 then some (8, 1, 4)
  else none

/-- `idx = max(0, min(v_upper, x) - v_lower)`. -/
def lrClass (vl vu x : Nat) : Nat := min vu x - vl

structure LongestRunsOut where
  m : Nat
  vLower : Nat
  vUpper : Nat
  /-- `v[i]`, `i = 0 … v_upper − v_lower` -/
  hist : List Nat
  deriving DecidableEq, Repr

def longestRunsWith (l : List Bool) (m vl vu : Nat) : LongestRunsOut :=
  { m := m, vLower := vl, vUpper := vu,
    hist := (tally (vu - vl + 1) ((chunks l m).map (fun b => lrClass vl vu (longestRun b)))).toList }

def longestRuns (bits n : Nat) : Except PyErr LongestRunsOut :=
  match lrParams n with
  | none => .error .insufficientData
  | some (m, vl, vu) => .ok (longestRunsWith (bitList bits n) m vl vu)

/-! ## 2.5 Binary matrix rank -/

/-- plain Gaussian elimination over GF(2) on rows given as naturals: the first non-zero
row becomes a pivot row for its highest set bit. -/
def elimRow (r : Nat) (x : Nat) : Nat := if x.testBit r.log2 then x ^^^ r else x

def rankAux : Nat → List Nat → Nat
  | 0, _ => 0
  | _, [] => 0
  | f + 1, r :: rest =>
    if r = 0 then rankAux f rest else rankAux f (rest.map (elimRow r)) + 1

/-- `util.BinaryMatrixRank`. -/
def binaryRank (rows : List Nat) : Nat := rankAux rows.length rows

structure RankOut where
  r : Nat
  c : Nat
  k : Nat
  /-- true when `RankDistribution` answers with the `precomputed` asymptotic table -/
  approx : Bool
  /-- `v[i]` = number of matrices of rank `r − i` (`i < k`), `v[k]`: rank ≤ r − k -/
  hist : List Nat
  deriving DecidableEq, Repr

/-- `BinaryMatrixRankImpl` (+ the argument validation `ChiSquare` performs on the exact
`RankDistribution`: for `c < r` the probability of full rank is 0.0 → ValueError).
EXACT part only: the float `RankDistribution` can also UNDERFLOW to 0.0 (c ≫ r, large k) and make
`ChiSquare` raise ValueError; that is decided by an oracle in `binaryMatrixRankImplF`
(Model/NistFloat.lean), which is what the driver op `nist.rank` evaluates. -/
def binaryMatrixRankImpl (rows : List Nat) (r c k : Nat) : Except PyErr RankOut :=
  if r = 0 then .error .zeroDivision
  else if rows.length / r < 1 then .error .insufficientData
  else if r = c ∧ r ≥ 31 ∧ k ≤ 5 then
    .ok { r := r, c := c, k := k, approx := true,
          hist := (tally (k + 1) ((groups rows r).map (fun mat => min k (r - binaryRank mat)))).toList }
  else if k = 0 ∨ c < r then .error .valueError
  else
    .ok { r := r, c := c, k := k, approx := false,
          hist := (tally (k + 1) ((groups rows r).map (fun mat => min k (r - binaryRank mat)))).toList }

/-- `BinaryMatrixRank(bits, n, r, c, k, check_size)`. -/
def binaryMatrixRank (bits n r c k : Nat) (checkSize : Bool) : Except PyErr RankOut :=
  if min r c < k then .error .valueError
  else if checkSize ∧ n < 38 * r * c then .error .insufficientData
  else if c = 0 then .error .zeroDivision
  else binaryMatrixRankImpl ((chunks (bitList bits n) c).map natOfBits) r c k

/-! ## RankDistribution (exact rational arithmetic instead of floats) -/

/-- `prob_dependent = 2**(j - r)` (j ≤ r). -/
def pd (r j : Nat) : Rat := (2 : Rat) ^ j / (2 : Rat) ^ r

/-- one pass `for j in range(r - 1, -1, -1): res[j+1] += res[j]*(1 - pd); res[j] *= pd` on the entries
`res[j:]`: the descending loop processes the higher indices first, then index j. -/
def rankPass (r : Nat) : Nat → List Rat → List Rat
  | j, x :: y :: rest =>
    match rankPass r (j + 1) (y :: rest) with
    | y' :: rest' => (x * pd r j) :: (y' + x * (1 - pd r j)) :: rest'
    | [] => [x * pd r j]
  | _, l => l

/-- `res` after `for _ in range(c)`, starting from `[1.0, 0, …, 0]` (r + 1 entries). -/
def rankRes (r : Nat) : Nat → List Rat
  | 0 => 1 :: List.replicate r 0
  | c + 1 => rankPass r 0 (rankRes r c)

/-- `RankDistribution(r, c, k, allow_approximation=False)`: `res[-k:][::-1] + [sum(res[:-k])]`
(`res[-0:]` is the whole list, `res[:-0]` the empty one). -/
def rankDistribution (r c k : Nat) : List Rat :=
  if k = 0 then (rankRes r c).reverse ++ [0]
  else (rankRes r c).reverse.take k ++ [((rankRes r c).take (r + 1 - k)).sum]

/-! ## 2.7 Non-overlapping template matching -/

/-- `IsNonOverlappingTemplate(template, m)`: no proper prefix equals the suffix of the
same length. -/
def isNonOverlapping (t m : Nat) : Bool :=
  (List.range (m - 1)).all (fun j => t >>> (m - (j + 1)) != t % 2 ^ (j + 1))

/-- block-size ladder of `NonOverlappingTemplateMatching` (`m is None`). -/
def notmM (blockSize : Nat) : Option Nat :=
  if blockSize < 4 then none
  else if blockSize < 64 then some 2
  else if blockSize < 256 then some 3
  else if blockSize < 1024 then some 4
  else if blockSize < 2048 then some 5
  else if blockSize < 4096 then some 6
  else if blockSize < 8192 then some 7
  else if blockSize < 16384 then some 8
  else if blockSize < 32768 then some 9
  else some 10

def defaultTemplates (m : Nat) : List Nat := (List.range (2 ^ m)).filter (fun b => isNonOverlapping b m)

/-- rolling window: drop the oldest (lowest) bit, enter `b` at position `m − 1`. -/
def slide (top : Nat) (st : Nat × List Nat) (b : Bool) : Nat × List Nat :=
  (st.1 / 2 + (if b then top else 0), (st.1 / 2 + (if b then top else 0)) :: st.2)

/-- values of all `length − m + 1` windows of `m` consecutive bits (window starting at
position p has bit p as its least significant bit); order is irrelevant for counting.
`m ≥ 1`. -/
def windows (l : List Bool) (m : Nat) : List Nat :=
  if l.length < m then []
  else ((l.drop m).foldl (slide (2 ^ (m - 1))) (natOfBits (l.take m), [natOfBits (l.take m)])).2

/-- `util.FrequencyCount(block, n, m, wrap=False)`. -/
def countsNoWrap (l : List Bool) (m : Nat) : Array Nat := tally (2 ^ m) (windows l m)

/-- `util.FrequencyCount(bits, n, m)` (cyclic). -/
def countsWrap (l : List Bool) (m : Nat) : Array Nat := tally (2 ^ m) (windows (l ++ l.take (m - 1)) m)

def lookupAll (cnt : Array Nat) : List Nat → Except PyErr (List Nat)
  | [] => .ok []
  | b :: rest =>
    match cnt[b]? with
    | none => .error .indexError
    | some v =>
      match lookupAll cnt rest with
      | .error e => .error e
      | .ok vs => .ok (v :: vs)

structure NotmOut where
  m : Nat
  blockSize : Nat
  templates : List Nat
  /-- `counts[j][i]` = occurrences of template `i` in block `j`.
  mean = (blockSize − m + 1)/2^m, variance = blockSize·(1/2^m − (2m−1)/2^(2m)),
  χ²ᵢ = Σⱼ (wⱼᵢ − mean)²/variance, p = igamc(N/2, χ²/2). -/
  counts : List (List Nat)
  deriving DecidableEq, Repr

def notmBlocks (cnts : List (Array Nat)) (templates : List Nat) : Except PyErr (List (List Nat)) :=
  cnts.mapM (fun c => lookupAll c templates)

/-- `NonOverlappingTemplateMatchingImpl`. -/
def notmImpl (blocks : List (List Bool)) (blockSize m : Nat) (templates : List Nat) :
    Except PyErr NotmOut :=
  if templates.any (fun b => !isNonOverlapping b m) then .error .valueError
  else if m > blockSize ∧ !blocks.isEmpty then .error .valueError
  else
    match notmBlocks (blocks.map (fun b => countsNoWrap b m)) templates with
    | .error e => .error e
    | .ok counts => .ok { m := m, blockSize := blockSize, templates := templates, counts := counts }

/-- `NonOverlappingTemplateMatching(bits, n, blocks, m, templates)`; `m ≥ 1` when given. -/
def nonOverlapping (bits n nblocks : Nat) (m : Option Nat) (templates : Option (List Nat)) :
    Except PyErr NotmOut :=
  if nblocks = 0 then .error .zeroDivision
  else
    match m, templates with
    | none, some _ => .error .valueError
    | none, none =>
      match notmM (n / nblocks) with
      | none => .error .insufficientData
      | some m' => notmImpl (chunks (bitList bits n) (n / nblocks)) (n / nblocks) m' (defaultTemplates m')
    | some m', ts =>
      if n / nblocks = 0 then .error .zeroDivision
      else notmImpl (chunks (bitList bits n) (n / nblocks)) (n / nblocks) m'
        (match ts with | some t => t | none => defaultTemplates m')

/-! ## 2.8 Overlapping template matching -/

def orStep (m : Nat) (st : Nat × Nat) (b : Bool) : Nat × Nat :=
  if b then (st.1 + 1, if st.1 + 1 ≥ m then st.2 + 1 else st.2) else (0, st.2)

/-- `util.OverlappingRunsOfOnes(block, m)`: number of positions where `m` ones start. -/
def overlappingOnes (l : List Bool) (m : Nat) : Nat := (l.foldl (orStep m) (0, 0)).2

structure OtmOut where
  m : Nat
  blockSize : Nat
  /-- `v[i]`, `i = 0 … 5` (5 = "five or more"); expected distribution: exact Markov chain of
  `OverlappingTemplateMatchingDistribution(blockSize, m, 5)` -/
  hist : List Nat
  deriving DecidableEq, Repr

/-- `OverlappingTemplateMatching(bits, n, m, block_size)`, `m ≥ 1`. Repaired behaviour (D14):
InsufficientDataError when there is no complete block (pinned: nan). A block shorter than
`m + 4` cannot contain five occurrences: `ChiSquare` rejects the zero probability.
EXACT part only: underflow of the float matrix power (m ≳ 1071) → ValueError is decided by an oracle
in `overlappingWithF` (Model/NistFloat.lean), which is what the driver op `nist.otm` evaluates. -/
def overlappingWith (bits n m bs : Nat) : Except PyErr OtmOut :=
  if bs = 0 then .error .zeroDivision
  else if n / bs = 0 then .error .insufficientData
  else if bs < m + 4 then .error .valueError
  else .ok { m := m, blockSize := bs,
             hist := (tally 6 ((chunks (bitList bits n) bs).map (fun b => min 5 (overlappingOnes b m)))).toList }

/-- `if m is None: m = 9`. -/
def otmM (m : Option Nat) : Nat := match m with | some x => x | none => 9

/-- `if block_size is None: block_size = 2**(m + 1) + m - 1`. -/
def otmBlockSize (m : Nat) (blockSize : Option Nat) : Nat :=
  match blockSize with | some x => x | none => 2 ^ (m + 1) + m - 1

def overlapping (bits n : Nat) (m blockSize : Option Nat) : Except PyErr OtmOut :=
  overlappingWith bits n (otmM m) (otmBlockSize (otmM m) blockSize)

/-! ## 2.9 Maurer's universal test -/

/-- `Universal.min_n` (NIST SP 800-22 section 2.9.7). -/
def universalMinN : List (Nat × Nat) :=
  [(6, 387840), (7, 904960), (8, 2068480), (9, 4654080), (10, 10342400), (11, 22753280),
   (12, 49643520), (13, 107560960), (14, 231669760), (15, 496435200), (16, 1059061760)]

/-- block size L for input length n: the LARGEST admissible size, as NIST 2.9.7 prescribes
(repaired behaviour, D19). -/
def universalL (n : Nat) : Option Nat :=
  ((universalMinN.filter (fun p => p.2 ≤ n)).map (·.1)).max?

/-- pinned behaviour: `min(size for (size, bound) in min_n.items() if bound <= n)` — always 6. -/
def universalLPinned (n : Nat) : Option Nat :=
  ((universalMinN.filter (fun p => p.2 ≤ n)).map (·.1)).min?

/-- one step of the table walk: state `(tab, j, distances)`; `tab[b]` holds
(last position + 1), 0 = never seen, so `j − tab_py[b] = j + 1 − tab[b]`. -/
def uniStep (q : Nat) (st : Except PyErr (Array Nat × Nat × List Nat)) (b : Nat) :
    Except PyErr (Array Nat × Nat × List Nat) :=
  match st with
  | .error e => .error e
  | .ok (tab, j, ds) =>
    match tab[b]? with
    | none => .error .indexError
    | some last =>
      if j < q then .ok (tab.setIfInBounds b (j + 1), j + 1, ds)
      else .ok (tab.setIfInBounds b (j + 1), j + 1, (j + 1 - last) :: ds)

structure UniversalOut where
  blockSize : Nat
  q : Nat
  k : Nat
  /-- multiset of the K distances `j − tab[b]` as sorted (distance, multiplicity);
  f = (Σ mult·log₂ distance)/K -/
  dists : List (Nat × Nat)
  deriving DecidableEq, Repr

/-- `UniversalImpl(bits, n, block_size, q)`. -/
def universalImpl (bits n blockSize q : Nat) : Except PyErr UniversalOut :=
  if blockSize = 0 then .error .zeroDivision
  else if n / blockSize < q then .error .valueError          -- k < 0: math.sqrt(variance / k)
  else if blockSize > 16 then .error .valueError             -- not in distribution_table
  else if n / blockSize = q then .error .zeroDivision        -- 0 ** (-3 / block_size)
  else
    match ((chunks (bitList bits n) blockSize).map natOfBits).foldl (uniStep q)
        (.ok (Array.replicate (2 ^ blockSize) 0, 0, [])) with
    | .error e => .error e
    | .ok (_, _, ds) => .ok { blockSize := blockSize, q := q, k := n / blockSize - q, dists := multiset ds }

/-- `Universal(bits, n)`. -/
def universal (bits n : Nat) : Except PyErr UniversalOut :=
  match universalL n with
  | none => .error .insufficientData
  | some l => universalImpl bits n l (10 * 2 ^ l)

/-! ## 2.10 Linear complexity (per-block complexities are an oracle, C14) -/

/-- `-LfsrLogProbability(n, m)`: x with P(linear complexity = m) = 2^(−x). -/
def lfsrNegLogProb (n m : Nat) : Except PyErr Nat :=
  if n = 0 then .error .valueError
  else if m > n then .error .valueError
  else if m = 0 then .ok n
  else if m ≤ n / 2 then .ok (n + 1 - 2 * m)
  else .ok (2 * m - n)

/-- `berlekamp_massey.LfsrCount(n, m)`: number of n-bit sequences of linear complexity m. -/
def lfsrCount (n m : Nat) : Nat :=
  if m > n then 0
  else if m = 0 then 1
  else if m ≤ n / 2 then 2 * 4 ^ (m - 1)
  else 4 ^ (n - m)

/-- class of a complexity: `0` for ≤ median−3, `6` for ≥ median+3, else `c − median + 3`. -/
def lcClass (median c : Nat) : Nat :=
  if c + 3 ≤ median then 0 else if c ≥ median + 3 then 6 else c + 3 - median

structure LinCompOut where
  blockSize : Nat
  /-- `v[0..6]` -/
  hist : List Nat
  /-- q = −Σ LfsrLogProbability; second p-value = BinomialCdf(N − 1, q − 1) -/
  q : Nat
  nblocks : Nat
  deriving DecidableEq, Repr

def sumNegLogProb (m : Nat) : List Nat → Except PyErr Nat
  | [] => .ok 0
  | c :: rest =>
    match lfsrNegLogProb m c, sumNegLogProb m rest with
    | .ok a, .ok b => .ok (a + b)
    | .error e, _ => .error e
    | _, .error e => .error e

/-- `LinearComplexityImpl` given the complexities of the blocks (no block: `ChiSquare` divides
0.0 by 0.0). -/
def linearComplexityImpl (m : Nat) (cs : List Nat) : Except PyErr LinCompOut :=
  if cs.isEmpty then .error .zeroDivision else
  match sumNegLogProb m cs with
  | .error e => .error e
  | .ok q => .ok { blockSize := m, hist := (tally 7 (cs.map (lcClass ((m + 1) / 2)))).toList,
                   q := q, nblocks := cs.length }

/-- `LinearComplexity(bits, n, block_size)`; `cs` = oracle answers, one per block
(`cs.length = n / block_size` is the harness's obligation). -/
def linearComplexity (n blockSize : Nat) (cs : List Nat) : Except PyErr LinCompOut :=
  if blockSize < 10 then .error .insufficientData
  else if blockSize * 200 > n then .error .insufficientData
  else linearComplexityImpl blockSize cs

/-! ## 2.11 Serial, 2.12 Approximate entropy -/

/-- `[count[i] + count[i + 1] for i in range(0, len(count), 2)]`. -/
def pairSum : List Nat → List Nat
  | a :: b :: rest => (a + b) :: pairSum rest
  | _ => []

def sumSq (l : List Nat) : Nat := (l.map (fun x => x * x)).sum

/-- Σ count², for m = m_max, m_max − 1, …, 1 (in this order). -/
def sumSqChain : Nat → List Nat → List Nat
  | 0, _ => []
  | m + 1, cnt => sumSq cnt :: sumSqChain m (pairSum cnt)

/-- `max(2, min(22, n.bit_length() - 4))`. -/
def serialMMax (n : Nat) : Nat := max 2 (min 22 (bitLength n - 4))

structure SerialOut where
  mMax : Nat
  n : Nat
  /-- `sq[i]` = Σ_w count_{i+1}[w]², i = 0 … m_max − 1;  ψ²_m = 2^m·sq[m−1]/n − n, ψ²_0 = 0 -/
  sq : List Nat
  deriving DecidableEq, Repr

/-- `Serial(bits, n, m_max)`; `m_max ≥ 1` when given. -/
def serialWith (bits n mm : Nat) : Except PyErr SerialOut :=
  if mm > n then .error .valueError
  else .ok { mMax := mm, n := n, sq := (sumSqChain mm (countsWrap (bitList bits n) mm).toList).reverse }

def serial (bits n : Nat) (mMax : Option Nat) : Except PyErr SerialOut :=
  serialWith bits n (match mMax with | some x => x | none => serialMMax n)

/-- numerator of ψ²_m = (2^m Σ count² − n²)/n. -/
def psiNum (n m sq : Nat) : Int := (2 ^ m * sq : Nat) - (n * n : Nat)

/-- default `m_max` of `ApproximateEntropy`. -/
def apenMMax (n : Nat) : Nat :=
  if n < 2 ^ 16 then max 2 (bitLength n - 7)
  else if n < 2 ^ 20 then bitLength n - 8
  else if n < 2 ^ 24 then bitLength n - 9
  else min 22 (bitLength n - 10)

/-- nonzero counts as multiset, for m = top, top − 1, …, 2. -/
def apenChain : Nat → List Nat → List (List (Nat × Nat))
  | 0, _ => []
  | m + 1, cnt => multiset (cnt.filter (· ≠ 0)) :: apenChain m (pairSum cnt)

structure ApenOut where
  mMax : Nat
  n : Nat
  /-- `levels[i]` = multiset of the non-zero counts of (i+2)-bit patterns, i = 0 … m_max − 1;
  φ_m = Σ mult·(c/n)·ln(c/n); χ² = 2n(ln 2 − (φ_m − φ_{m+1})), clamped at 0 (D10) -/
  levels : List (List (Nat × Nat))
  deriving DecidableEq, Repr

/-- `ApproximateEntropy(bits, n, m_max)`; `m_max ≥ 1` when given. -/
def apenWith (bits n mm : Nat) : Except PyErr ApenOut :=
  if mm + 1 > n then .error .valueError
  else .ok { mMax := mm, n := n,
             levels := (apenChain mm (countsWrap (bitList bits n) (mm + 1)).toList).reverse }

def approximateEntropy (bits n : Nat) (mMax : Option Nat) : Except PyErr ApenOut :=
  apenWith bits n (match mMax with | some x => x | none => apenMMax n)

/-! ## 2.13–2.15 Random walk: cusum, random excursions, random excursions variant -/

inductive Variant | pinned | repaired
  deriving DecidableEq, Repr

/-- `RandomExcursionsDistribution(x, max_cnt)` for `|x| = x ≥ 1`, `max_cnt ≥ 1`, as exact
fractions (numerator, denominator): with t = 1/(2x): π₀ = 1 − t, π_k = t²(1 − t)^(k−1) for
0 < k < max_cnt, π_max = t(1 − t)^(max_cnt − 1). -/
def excursionPi (x maxCnt : Nat) : List (Nat × Nat) :=
  ((2 * x - 1, 2 * x) :: (List.range (maxCnt - 1)).map (fun j => ((2 * x - 1) ^ j, (2 * x) ^ (j + 2))))
    ++ [((2 * x - 1) ^ (maxCnt - 1), (2 * x) ^ maxCnt)]

/-- loop state of `RandomWalk`: `cur` = non-zero in-range states visited in the current
cycle (`cnt`), `done` = completed cycles (`cnts`). `maxOut`/`minOut` are the code's
`maxs`/`mins` inside the loop (only updated outside ±max_state2). -/
structure RW where
  s : Int
  maxOut : Int
  minOut : Int
  cur : List Int
  done : List (List Int)
  deriving DecidableEq, Repr

def rwInit : RW := { s := 0, maxOut := 0, minOut := 0, cur := [], done := [] }

def rwMove (m2 : Int) (st : RW) (s : Int) : RW :=
  if s > m2 then { st with s := s, maxOut := max st.maxOut s }
  else if s < -m2 then { st with s := s, minOut := min st.minOut s }
  else if s ≠ 0 then { st with s := s, cur := s :: st.cur }
  else { st with s := s, cur := [], done := st.cur :: st.done }

def rwStep (m2 : Int) (st : RW) (b : Bool) : RW := rwMove m2 st (st.s + (if b then 1 else -1))

/-- all cycles, `cnts` after the final `cnts.append(cnt)`. -/
def rwCycles (st : RW) : List (List Int) := st.cur :: st.done

def listMax : List Int → Option Int
  | [] => none
  | a :: l => match listMax l with | none => some a | some m => some (max a m)

def listMin : List Int → Option Int
  | [] => none
  | a :: l => match listMin l with | none => some a | some m => some (min a m)

/-- `maxs` after the loop.  pinned: `if maxs == 0: maxs = max(total_cnt)` (ValueError on an
empty dict); repaired (D4): the start value S₀ = 0 takes part. -/
def rwMax (v : Variant) (st : RW) : Except PyErr Int :=
  if st.maxOut ≠ 0 then .ok st.maxOut
  else match v, listMax (rwCycles st).flatten with
    | .pinned, none => .error .valueError
    | .pinned, some m => .ok m
    | .repaired, none => .ok 0
    | .repaired, some m => .ok (max m 0)

def rwMin (v : Variant) (st : RW) : Except PyErr Int :=
  if st.minOut ≠ 0 then .ok st.minOut
  else match v, listMin (rwCycles st).flatten with
    | .pinned, none => .error .valueError
    | .pinned, some m => .ok m
    | .repaired, none => .ok 0
    | .repaired, some m => .ok (min m 0)

/-- `v[min(max_cnt, cnt[x])] += 1 for cnt in cnts`. -/
def excursionHist (cycles : List (List Int)) (maxCnt : Nat) (x : Int) : List Nat :=
  (tally (maxCnt + 1) (cycles.map (fun c => min maxCnt (c.count x)))).toList

/-- states `-k, …, -1, 1, …, k` in the order of `range(-k, k + 1)`. -/
def stateRange (k : Nat) : List Int :=
  ((List.range k).map (fun i => -((k - i : Nat) : Int))) ++ ((List.range k).map (fun i => ((i + 1 : Nat) : Int)))

structure RandomWalkOut where
  n : Nat
  /-- max_k |S_k| -/
  zFwd : Nat
  /-- max_k |S_n − S_k| -/
  zBwd : Nat
  /-- number of cycles J (`len(cnts)`) -/
  cycles : Nat
  /-- for x in stateRange max_state: histogram `v[0..max_cnt]` — empty list when J < 500 -/
  exHists : List (List Nat)
  /-- for x in stateRange max_state_variant: total visits ξ(x) — empty list when J < 500 -/
  totals : List Nat
  deriving DecidableEq, Repr

def rwOut (n : Nat) (st : RW) (maxs mins : Int) (maxState maxCnt maxStateVariant : Nat) :
    RandomWalkOut :=
  { n := n,
    zFwd := (max maxs (-mins)).toNat,
    zBwd := (max (maxs - st.s) (st.s - mins)).toNat,
    cycles := (rwCycles st).length,
    exHists := if (rwCycles st).length ≥ 500
      then (stateRange maxState).map (excursionHist (rwCycles st) maxCnt) else [],
    totals := if (rwCycles st).length ≥ 500
      then (stateRange maxStateVariant).map (fun x => (rwCycles st).flatten.count x) else [] }

/-- `RandomWalk(bits, n, max_state, max_cnt, max_state_variant)` for `n ≥ 1`.
`CumulativeSumsPValue(0, z)` divides by √0 → ZeroDivisionError. With `max_cnt = 0` and
enough cycles `Igamc(0, ·)`'s χ² has zero expected counts → ZeroDivisionError is not modelled:
precondition `max_cnt ≥ 1`.  EXACT part only: for `max_cnt ≥ 1075` the float
`RandomExcursionsDistribution` underflows and Python divides by 0.0 — oracle in `randomWalkF`
(Model/NistFloat.lean), which is what the driver op `nist.randomwalk` evaluates. -/
def randomWalkOf (v : Variant) (n : Nat) (st : RW) (maxState maxCnt maxStateVariant : Nat) :
    Except PyErr RandomWalkOut :=
  match rwMax v st, rwMin v st with
  | .ok maxs, .ok mins => .ok (rwOut n st maxs mins maxState maxCnt maxStateVariant)
  | .error e, _ => .error e
  | _, .error e => .error e

/-- the walk: final loop state of `RandomWalk` on the bit list. -/
def rwRun (m2 : Nat) (l : List Bool) : RW := l.foldl (rwStep (m2 : Int)) rwInit

def randomWalk (v : Variant) (bits n maxState maxCnt maxStateVariant : Nat) :
    Except PyErr RandomWalkOut :=
  if n = 0 then .error .zeroDivision
  else randomWalkOf v n (rwRun (max maxState maxStateVariant) (bitList bits n))
    maxState maxCnt maxStateVariant

/-! ## extended_nist_suite -/

/-- ranks of the `size × size` matrices, `size = 64, 128, …` while `size² ≤ n`. -/
def largeRankLoop (l : List Bool) (n : Nat) : Nat → Nat → List (Nat × Nat)
  | 0, _ => []
  | f + 1, size =>
    if size * size ≤ n then
      (size, binaryRank ((chunks (l.take (size * size)) size).map natOfBits)) :: largeRankLoop l n f (2 * size)
    else []

/-- `LargeBinaryMatrixRank(bits, n)`: list of `(size, rank)`; p = ASYMPTOTIC_RANK_SF[size − rank]
(0 beyond the table). -/
def largeBinaryMatrixRank (bits n : Nat) : Except PyErr (List (Nat × Nat)) :=
  if n < 64 * 64 then .error .insufficientData
  else .ok (largeRankLoop (bitList bits n) n n 64)

structure ScatterOut where
  /-- effective length after truncation by `max_block_size` -/
  n : Nat
  /-- `size` of the i-th interleaved sequence -/
  sizes : List Nat
  /-- −Σ LfsrLogProbability(sizeᵢ, cᵢ); p = BinomialCdf(step − 1, q − 1) -/
  q : Nat
  deriving DecidableEq, Repr

def scatterN (n step : Nat) (maxBlock : Option Nat) : Nat :=
  match maxBlock with
  | some mb => if step * mb < n then step * mb else n
  | none => n

def scatterSizes (n step : Nat) : List Nat :=
  (List.range step).map (fun i => (n + step - 1 - i) / step)

def scatterSum : List Nat → List Nat → Except PyErr Nat
  | s :: ss, c :: cs =>
    match lfsrNegLogProb s c, scatterSum ss cs with
    | .ok a, .ok b => .ok (a + b)
    | .error e, _ => .error e
    | _, .error e => .error e
  | _, _ => .ok 0

/-- `LinearComplexityScatter(bits, n, step_size, max_block_size)` given the oracle
complexities of the `step_size` interleaved sequences; `step_size ≥ 1`. -/
def linearComplexityScatter (n step : Nat) (maxBlock : Option Nat) (cs : List Nat) :
    Except PyErr ScatterOut :=
  match scatterSum (scatterSizes (scatterN n step maxBlock) step) cs with
  | .error e => .error e
  | .ok q => .ok { n := scatterN n step maxBlock, sizes := scatterSizes (scatterN n step maxBlock) step, q := q }

end Paranoid.Nist
