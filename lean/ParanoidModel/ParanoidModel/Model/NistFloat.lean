/-
Model/NistFloat.lean — the exceptions of nist_suite.py that are decided by a FLOATING-POINT value
(review finding F11).  Extension of Model/Nist.lean; no Mathlib.

Floats are not modelled (DESIGN 3.1).  Wherever the Python code branches — i.e. raises — on a float
that is not an exact function of the integer arguments, the answer to that float test is an explicit
ORACLE argument of the model, recorded by harness/corr/c12.py from the real run at the call site
(monkey-patch of the module global, /repo untouched) and passed on the request line.  The model
raises the same exception kind when the oracle says so; the theorems in Props/C12Errors.lean quantify
over every oracle answer.

Survey of every place in nist_suite.py / extended_nist_suite.py / util.py where a float-valued
intermediate can raise (public API, `bits < 2^n`, optional parameters ≥ 1):

 (a) `ChiSquare(v, pi, k)` called by `BinaryMatrixRankImpl`: `pi = RankDistribution(r, c, k)` is a float
     recurrence; the lumped tail P(rank ≤ r − k) ≈ 2^(−k(c−r+k)) underflows to 0.0 for k(c−r+k) ≳ 1075
     (`BinaryMatrixRank(x, 91200, 8, 300, 5)`, `(…, 40, 40, 33, False)`, `(…, 2, 1100, 1, False)`,
     `(…, 5, 215, 5, False)`; `(…, 6, 179, 6, False)` with P = 2^−1074 is still accepted) and
     `if not 0.0 < p <= 1.0: raise ValueError("Invalid probability")`.           → `ChiOracle`
 (b) `ChiSquare(v, pi, 5)` called by `OverlappingTemplateMatchingImpl`:
     `pi = OverlappingTemplateMatchingDistribution(block_size, m, 5)` is a float `matrix_power`; P(≥ 5
     occurrences) ≥ 2^−(m+4) underflows for m ≳ 1071 (`OverlappingTemplateMatching(x, 3000, 1100, 3000)`,
     `(x, 1075, 1071, 1075)`; `(x, 1073, 1069, 1073)` is accepted).               → `ChiOracle`
 (c) `RandomWalk`, random excursions: `(v[k] − J·pi[k])**2 / (J·pi[k])` with
     `pi = RandomExcursionsDistribution(x, max_cnt)`; for x = ±1, pi[k] = 2^−(k+1) is 0.0 from
     `max_cnt ≥ 1075` on: ZeroDivisionError ("float division by zero") as soon as J ≥ 500 and
     max_state ≥ 1 (`RandomWalk(int('01'*600, 2), 1200, 4, 1075, 9)`; max_cnt = 1074 is fine).
                                                                                   → `excZero : Bool`
 (d) exact zero probabilities, decided by the integer arguments and ALREADY in Model/Nist.lean:
     `c < r` / `k = 0` (rank), `block_size < m + 4` (overlapping): an exactly-zero entry of the exact
     distribution is 0.0 in floats as well (no path / never added to).
 (e) float zero denominators with an exact criterion, already in Model/Nist.lean: `math.sqrt(0)`
     (Frequency, CumulativeSumsPValue), `BitCount/0` (Runs), `0 ** (−3/L)` and `math.sqrt(variance/k)`,
     k < 0 (UniversalDistribution), `0.0/0.0` in ChiSquare without observations (LinearComplexityImpl).
 (f) NOT modelled, excluded by precondition: int → float conversion overflow.  `math.sqrt(n)` raises
     OverflowError for n ≥ 2^1024 − 2^970 (`Frequency(0, 2**1100)`); every other test allocates Θ(n) or
     Θ(2^m) memory first.  Precondition of the whole model: n < 2^1023 (and memory suffices).
 (g) unreachable: `variance = n·(1/2^m − (2m−1)/2^(2m))` of NonOverlappingTemplateMatchingImpl is a
     positive float for every m ≤ 1074 (2^m > 2m − 1); for m ≥ 1075 `FrequencyCount` has to allocate a
     list of 2^m counters first.  `ChiSquare` on the literal tables of LongestRuns / LinearComplexity:
     the float validation is a fixed fact about decimal literals (a failure would show up as a
     divergence on every run).  scipy `gammaincc` / `binom.cdf`, `math.erfc` / `erf` never raise; `log`
     is only applied to positive ratios c/n and to distances ≥ 1.

The oracle flags are plain Booleans: a flag that is `true` although Python did not reach (or passed)
the float test cannot be produced by the harness, and the theorems hold for every value anyway.
-/
import ParanoidModel.Model.Nist
namespace Paranoid.Nist
open Paranoid

/-- What the float argument validation of ONE call `ChiSquare(count, prob, k)` sees
(nist_suite.py:106–113), evaluated on the floats `prob` actually passed:
* `badProb`: `any(not 0.0 < p <= 1.0 for p in prob)` — in practice: an expected probability underflowed
  to 0.0 → `ValueError("Invalid probability")`;
* `badSum`: `abs(sum(prob) - 1.0) > 1e-04` → `ValueError("Probabilites should sum up to 1")`.
Recorded by the `ChiSquare` wrapper of harness/corr/c12.py (`Recorder.chisq`); both `false` when
`ChiSquare` is not reached. -/
structure ChiOracle where
  badProb : Bool
  badSum : Bool
  deriving DecidableEq, Repr

/-- the oracle of a run in which every expected probability is a valid float. -/
def ChiOracle.clean : ChiOracle := { badProb := false, badSum := false }

/-- `ChiSquare` raises ValueError before looking at the counts. -/
def ChiOracle.rejects (o : ChiOracle) : Bool := o.badProb || o.badSum

/-- the float validation of `ChiSquare`.  The length check `len(count) != len(prob)` is not part of the
oracle: both lists have k + 1 entries at every call site EXCEPT `BinaryMatrixRankImpl` with k = 0 outside
the table branch, where `RankDistribution(r, c, 0)` returns r + 2 entries (`res[-0:]` is the whole list)
against one count and the length check DOES fire (`BinaryMatrixRank(x, 18, 3, 3, 0, False)`: ValueError
"count and prob should have the same length").  That ValueError is decided by the integer arguments and is
the `k = 0` case of `binaryMatrixRankImpl` (Model/Nist.lean; same exception kind, the message is not
modelled), not a float matter. -/
def chiValidate (o : ChiOracle) : Except PyErr Unit :=
  if o.badProb then .error .valueError
  else if o.badSum then .error .valueError
  else .ok ()

/-- run the exact part, then the float validation of the `ChiSquare` call that ends the test. -/
def thenChi {α} (o : ChiOracle) (x : Except PyErr α) : Except PyErr α :=
  match x with
  | .error e => .error e
  | .ok a =>
    match chiValidate o with
    | .error e => .error e
    | .ok _ => .ok a

/-! ## 2.5 Binary matrix rank -/

/-- `BinaryMatrixRankImpl(rows, r, c, k)` including the float validation of
`ChiSquare(v, RankDistribution(r, c, k), k)`, which is the last statement that can raise: the
histogram loop and `RankDistribution` themselves never raise.  The exactly-zero cases (`c < r`,
`k = 0`) are decided by `binaryMatrixRankImpl`; everything else that `ChiSquare` rejects is the
float underflow reported by the oracle. -/
def binaryMatrixRankImplF (o : ChiOracle) (rows : List Nat) (r c k : Nat) : Except PyErr RankOut :=
  thenChi o (binaryMatrixRankImpl rows r c k)

/-- `BinaryMatrixRank(bits, n, r, c, k, check_size)` with the float oracle of its `ChiSquare` call. -/
def binaryMatrixRankF (o : ChiOracle) (bits n r c k : Nat) (checkSize : Bool) : Except PyErr RankOut :=
  thenChi o (binaryMatrixRank bits n r c k checkSize)

/-! ## 2.8 Overlapping template matching -/

/-- `OverlappingTemplateMatching(bits, n, m, block_size)` (both given) with the float oracle of
`ChiSquare(v, OverlappingTemplateMatchingDistribution(block_size, m, 5), 5)`. -/
def overlappingWithF (o : ChiOracle) (bits n m bs : Nat) : Except PyErr OtmOut :=
  thenChi o (overlappingWith bits n m bs)

/-- `OverlappingTemplateMatching(bits, n, m=None, block_size=None)`. -/
def overlappingF (o : ChiOracle) (bits n : Nat) (m blockSize : Option Nat) : Except PyErr OtmOut :=
  overlappingWithF o bits n (otmM m) (otmBlockSize (otmM m) blockSize)

/-! ## 2.14 Random excursions -/

/-- the random-excursions loop runs (and divides by `excursions * pi[k]`) iff there are at least
500 cycles and at least one state `x ≠ 0` in `range(-max_state, max_state + 1)`. -/
def excursionsEvaluated (o : RandomWalkOut) (maxState : Nat) : Bool :=
  decide (500 ≤ o.cycles) && decide (1 ≤ maxState)

/-- `RandomWalk(bits, n, max_state, max_cnt, max_state_variant)` with the float oracle
`excZero` = "for some x with 1 ≤ |x| ≤ max_state the float list
`RandomExcursionsDistribution(x, max_cnt)` contains 0.0" (equivalently `excursions * pi[k] == 0.0`,
because `excursions` is an int ≥ 500): then `(v[k] − excursions·pi[k])**2 / (excursions·pi[k])`
raises ZeroDivisionError.  The cumulative-sums p-values are computed before and cannot raise for
n ≥ 1.  Recorded by the wrapper of `RandomExcursionsDistribution` in harness/corr/c12.py; `false`
when the function is not called. -/
def randomWalkF (excZero : Bool) (v : Variant) (bits n maxState maxCnt maxStateVariant : Nat) :
    Except PyErr RandomWalkOut :=
  match randomWalk v bits n maxState maxCnt maxStateVariant with
  | .error e => .error e
  | .ok o => if excursionsEvaluated o maxState && excZero then .error .zeroDivision else .ok o

end Paranoid.Nist
