/-
Model/NistStats.lean — the STATISTICS of the NIST SP 800-22 tests that Model/Nist.lean leaves to the
"float tail" (harness/nist_tail.py), as exact rational expressions, and the NIST-side definitions they
are proved equal to in Props/C12Stats.lean.  Extension of Model/Nist.lean; no Mathlib (core `Rat`).

* `chiSquare`            `nist_suite.ChiSquare`'s statistic Σ (cᵢ − N pᵢ)² / (N pᵢ), N = Σ cᵢ;
* 2.10 LinearComplexity  NIST's μ, Tᵢ = (−1)^M (Lᵢ − μ) + 2/9, the seven classes of T, π; the code's π table;
                         `blockComplexities` = per-block Berlekamp–Massey (Model/BM.lean) so that the test is
                         a function of the bit string (`linearComplexityBits`), not of an oracle;
* 2.7 NonOverlapping     NIST's scan (window slides by 1 after a miss, by m after a hit) as a recursive
                         specification `notmScan`; mean, variance, χ² per template;
* extended suite         the size × size sub-matrix of `LargeBinaryMatrixRank`, its p-value (a table entry),
                         the interleaved sequences of `LinearComplexityScatter` and the per-sequence
                         Berlekamp–Massey;
* integer-level transformations `rotateInt` (cyclic rotation of the n-bit string held in an int).

Bit order everywhere: ε₁ … εₙ = bit 0 … bit n−1 of `bits` (least significant bit first); block i (i = 0, 1, …)
of size M holds the bits i·M … i·M + M − 1, in this order.
-/
import ParanoidModel.Model.Nist
import ParanoidModel.Model.BM
namespace Paranoid.NistStats
open Paranoid Paranoid.Nist

/-! ## ChiSquare -/

/-- `chi_square = sum((c - n * p)**2 / (n * p) for c, p in zip(count, prob))`, `n = sum(count)`. -/
def chiSquare (v : List Nat) (pi : List Rat) : Rat :=
  ((v.zip pi).map (fun cp => ((cp.1 : Rat) - (v.sum : Rat) * cp.2) ^ 2 / ((v.sum : Rat) * cp.2))).sum

/-! ## 2.10 Linear complexity -/

/-- NIST SP 800-22 2.10.4 (3): μ = M/2 + (9 + (−1)^(M+1))/36 − (M/3 + 2/9)/2^M. -/
def lcMu (M : Nat) : Rat :=
  (M : Rat) / 2 + (9 + (-1 : Rat) ^ (M + 1)) / 36 - ((M : Rat) / 3 + 2 / 9) / (2 : Rat) ^ M

/-- 2.10.4 (4): Tᵢ = (−1)^M · (Lᵢ − μ) + 2/9. -/
def lcT (M L : Nat) : Rat := (-1 : Rat) ^ M * ((L : Rat) - lcMu M) + 2 / 9

/-- 2.10.4 (5): the class of T: ν₀: T ≤ −2.5, ν₁: −2.5 < T ≤ −1.5, ν₂: −1.5 < T ≤ −0.5, ν₃: −0.5 < T ≤ 0.5,
ν₄: 0.5 < T ≤ 1.5, ν₅: 1.5 < T ≤ 2.5, ν₆: T > 2.5. -/
def nistLcClass (t : Rat) : Nat :=
  if t ≤ -5 / 2 then 0 else if t ≤ -3 / 2 then 1 else if t ≤ -1 / 2 then 2 else if t ≤ 1 / 2 then 3
  else if t ≤ 3 / 2 then 4 else if t ≤ 5 / 2 then 5 else 6

/-- 2.10.4 (6) / 3.10: π₀ … π₆ (NIST prints 0.010417, 0.03125, 0.125, 0.5, 0.25, 0.0625, 0.020833). -/
def nistLcPi : List Rat := [1 / 96, 1 / 32, 1 / 8, 1 / 2, 1 / 4, 1 / 16, 1 / 48]

/-- the `pi` of `LinearComplexityImpl`: `if m % 2 == 0: [1/96, …, 1/48] else: [1/48, …, 1/96]`. -/
def codeLcPi (M : Nat) : List Rat := if M % 2 = 0 then nistLcPi else nistLcPi.reverse

/-- NIST's histogram ν₀ … ν₆ of the block complexities `Ls`. -/
def nistLcHist (M : Nat) (Ls : List Nat) : List Nat :=
  (List.range 7).map (fun i => (Ls.map (fun L => nistLcClass (lcT M L))).count i)

/-- block `i` of `util.SplitSequence(bits, n, M)`: `(bits >> i·M) & (2^M − 1)`. -/
def blockInt (bits M i : Nat) : Nat := (bits >>> (i * M)) % 2 ^ M

/-- `[berlekamp_massey.LinearComplexity(b, m) for b in blocks]`, blocks = `SplitSequence(bits, n, M)`;
the value of the C++ code is `bmLength` (C14: `C14Wrapper.wrapper_glue`). -/
def blockComplexities (bits n M : Nat) : List Nat :=
  (List.range (n / M)).map (fun i => bmLength (blockInt bits M i) M)

/-- `LinearComplexity(bits, n, block_size)` as a function of the bit string. -/
def linearComplexityBits (bits n M : Nat) : Except PyErr LinCompOut :=
  Nist.linearComplexity n M (blockComplexities bits n M)

/-- the χ² that `LinearComplexityImpl` hands to `Igamc(k/2, χ²/2)`, k = 6. -/
def lcChi (o : LinCompOut) : Rat := chiSquare o.hist (codeLcPi o.blockSize)

/-! ## 2.7 Non-overlapping template matching -/

/-- NIST 2.7.4 (2): scan of one block for the m-bit template with value `t` (bit j of `t` is compared with
the j-th bit of the window): if the window at the current position matches, count and move the window
by m positions, otherwise by one; stop when fewer than m bits are left (the window `l.take m` is
incomplete).  (`fuel` ≥ length suffices.) -/
def notmScan (m t : Nat) : Nat → List Bool → Nat
  | 0, _ => 0
  | f + 1, l =>
    if (l.take m).length < m then 0
    else if natOfBits (l.take m) = t then notmScan m t f (l.drop m) + 1
    else notmScan m t f (l.drop 1)

/-- W = number of hits of the scan in the block. -/
def notmW (l : List Bool) (m t : Nat) : Nat := notmScan m t l.length l

/-- `mean = (n - m + 1) / 2**m` (μ of 2.7.4 (3)); `n` = block size. Python's `n - m + 1` is an int;
`m ≤ n` whenever a block exists. -/
def notmMean (n m : Nat) : Rat := ((n : Rat) - (m : Rat) + 1) / (2 : Rat) ^ m

/-- `variance = n * (1 / 2**m - (2 * m - 1) / 2**(2 * m))` (σ² of 2.7.4 (3)). -/
def notmVar (n m : Nat) : Rat := (n : Rat) * (1 / (2 : Rat) ^ m - (2 * (m : Rat) - 1) / (2 : Rat) ^ (2 * m))

/-- `obs = sum((w - mean)**2 / variance for w in v)` (2.7.4 (4)); p = igamc(N/2, obs/2). -/
def notmChi (n m : Nat) (ws : List Nat) : Rat :=
  (ws.map (fun (w : Nat) => ((w : Rat) - notmMean n m) ^ 2 / notmVar n m)).sum

/-- the χ² of every template of a `NonOverlappingTemplateMatching` result (column i of `counts`). -/
def notmChis (o : NotmOut) : List Rat :=
  (List.range o.templates.length).map (fun i => notmChi o.blockSize o.m (o.counts.filterMap (·[i]?)))

/-! ## integer-level transformations of a bit string -/

/-- cyclic rotation of the n-bit string by k positions to the left of the LIST (ε_{k+1} becomes the
first bit): `(bits >> j) | ((bits & (2^j − 1)) << (n − j))`, `j = k % n`. -/
def rotateInt (bits n k : Nat) : Nat :=
  if n = 0 then 0 else (bits >>> (k % n)) ||| ((bits % 2 ^ (k % n)) <<< (n - k % n))

/-- complement of the n-bit string: `bits ^ (2^n − 1)` (= `2^n − 1 − bits` for `bits < 2^n`). -/
def complementInt (bits n : Nat) : Nat := 2 ^ n - 1 - bits

/-! ## extended_nist_suite -/

/-- the matrix `SplitSequence(bits & (2^(size²) − 1), size², size)`: row i = bits i·size … i·size+size−1. -/
def largeRankMatrix (bits size : Nat) : List Nat :=
  (List.range size).map (fun i => blockInt bits size i)

/-- `p_value = 0 if k >= len(ASYMPTOTIC_RANK_SF) else ASYMPTOTIC_RANK_SF[k]`, `k = size − rank`; the table
as (numerator, denominator) pairs. -/
def largeRankP (sf : List (Nat × Nat)) (size rank : Nat) : Rat :=
  match sf[size - rank]? with
  | some (a, b) => (a : Rat) / (b : Rat)
  | none => 0

/-- interleaved sequence i of `util.Scatter(bits, step)` restricted to its first `size` bits:
bits i, i + step, i + 2·step, … -/
def scatterSeqInt (bits step i size : Nat) : Nat :=
  natOfBits ((List.range size).map (fun t => bits.testBit (i + step * t)))

/-- `c = berlekamp_massey.LinearComplexity(sequence, size)` for every interleaved sequence. -/
def scatterComplexities (bits n step : Nat) : List Nat :=
  (List.range step).map (fun i =>
    bmLength (scatterSeqInt bits step i ((n + step - 1 - i) / step)) ((n + step - 1 - i) / step))

/-- `LinearComplexityScatter(bits, n, step_size, max_block_size)` as a function of the bit string. -/
def linearComplexityScatterBits (bits n step : Nat) (maxBlock : Option Nat) : Except PyErr ScatterOut :=
  linearComplexityScatter n step maxBlock (scatterComplexities bits (scatterN n step maxBlock) step)

end Paranoid.NistStats
