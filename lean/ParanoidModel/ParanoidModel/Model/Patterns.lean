/-
Model/Patterns.lean — the prime shapes named by property C05 (no Mathlib): a word repetition
written from the top and cut to a given length, and the swap of adjacent limbs. These are the
constructions of harness/gen_rsa.py (`periodic_pattern`, `swap_limbs`), compared with it by the ops
`pat.periodic` / `pat.swap`; the theorems about them are in Proofs/Permuted.lean and
Props/C05Permuted.lean.
-/
namespace Paranoid.Permuted

/-- swap the adjacent `ws`-bit limbs `(2j, 2j+1)`, `j < M`, limbs counted from bit 0 (bits above
limb `2M − 1` are dropped). -/
def swapLimbs (ws : Nat) : Nat → Nat → Nat
  | 0, _ => 0
  | M + 1, x =>
    (x % 2 ^ ws) * 2 ^ ws + x / 2 ^ ws % 2 ^ ws + (2 ^ ws * 2 ^ ws) * swapLimbs ws M (x / 2 ^ ws / 2 ^ ws)

/-- the `ps`-bit word `W` repeated from the top and cut to `L` bits: `⌊W·2^L / (2^ps − 1)⌋`. -/
def periodicTop (W ps L : Nat) : Nat := W * 2 ^ L / (2 ^ ps - 1)

end Paranoid.Permuted
