/-
Model/PollardFloat.lean — recorded values of the float oracle `int(math.log(bound, r))` of
`CheckPollardpm1.__init__` at a bound where it differs from the exact `⌊log_r bound⌋` (second
review, finding M4). No Mathlib. The driver returns the list (op `chk.pm1_float243`) and the harness
compares it with the real expression on every run; Props/C05PollardExps.lean proves what follows.
-/
namespace Paranoid

/-- `[int(math.log(243, r)) for r in Sieve(243)]` as returned by the real code (CPython `math.log`,
IEEE doubles): `math.log(243, 3) = 4.999999999999999`, so 3 gets the exponent 4, not 5. -/
def floatExps243 : List Nat := [7, 4, 3, 2, 2, 2] ++ List.replicate 47 1

end Paranoid
