/-
Line protocol helpers shared by the driver: hex integers with sign, lists, options.
No Mathlib. Nothing here is the subject of a theorem; it is glue between the harness and
the executable model and is exercised by every correspondence run.
-/
namespace Paranoid.Proto

def hexDigit? (c : Char) : Option Nat :=
  if '0' ≤ c ∧ c ≤ '9' then some (c.toNat - '0'.toNat)
  else if 'a' ≤ c ∧ c ≤ 'f' then some (c.toNat - 'a'.toNat + 10)
  else if 'A' ≤ c ∧ c ≤ 'F' then some (c.toNat - 'A'.toNat + 10)
  else none

def parseHexNat? (s : String) : Option Nat :=
  if s.isEmpty then none else
  s.foldl (fun acc c => match acc, hexDigit? c with
    | some a, some d => some (a * 16 + d)
    | _, _ => none) (some 0)

def parseInt? (s : String) : Option Int :=
  if s.startsWith "-" then (parseHexNat? (s.drop 1).toString).map (fun n => - (n : Int))
  else (parseHexNat? s).map (fun n => (n : Int))

def parseNat? (s : String) : Option Nat := parseHexNat? s

/-- `-` encodes Python `None`. -/
def parseOptInt? (s : String) : Option (Option Int) :=
  if s == "-" then some none else (parseInt? s).map some

def parseOptNat? (s : String) : Option (Option Nat) :=
  if s == "-" then some none else (parseNat? s).map some

def parseList? {α} (p : String → Option α) (s : String) : Option (List α) :=
  if s == "[]" then some [] else (s.splitOn ",").mapM p

def parseIntList? := parseList? parseInt?
def parseNatList? := parseList? parseNat?

/-- rows separated by `;` ; the empty matrix is `[]`. -/
def parseIntMatrix? (s : String) : Option (List (List Int)) :=
  if s == "[]" then some [] else (s.splitOn ";").mapM parseIntList?

def parseBool? (s : String) : Option Bool :=
  if s == "1" || s == "T" then some true else if s == "0" || s == "F" then some false else none

def hexNat (n : Nat) : String := String.ofList (Nat.toDigits 16 n)

def hexInt (i : Int) : String :=
  match i with
  | .ofNat n => hexNat n
  | .negSucc n => "-" ++ hexNat (n + 1)

def fmtList {α} (f : α → String) (l : List α) : String :=
  if l.isEmpty then "[]" else ",".intercalate (l.map f)

def fmtNatList := fmtList hexNat
def fmtIntList := fmtList hexInt
def fmtMatrix (m : List (List Int)) : String :=
  if m.isEmpty then "[]" else ";".intercalate (m.map fmtIntList)

def fmtOpt {α} (f : α → String) : Option α → String
  | none => "-"
  | some a => f a

def fmtBool (b : Bool) : String := if b then "1" else "0"

end Paranoid.Proto
