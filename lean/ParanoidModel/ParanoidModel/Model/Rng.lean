/-
Model/Rng.lean — mirrors paranoid_crypto/lib/randomness_tests/rng.py, class by class.

* Arithmetic generators (`TruncLcgRand JavaRandom LcgNist Mwc Lehmer XorShift128plus
  XorShiftStar Xorwow`) are modelled exactly as pure functions of (parameters, n, seed):
  seed expansion / scrambling, state update, `to_bytes` byte order, truncation and masking.
  Each has a `…Core` taking the *expanded* state: the `seed is None` path of the Python code
  runs the same core on `os.urandom` output, so a theorem `∀ state` on the core covers it.
* Wrappers (`Urandom Shake128 Mt19937 NumpyRng SubsetSum`) take the bytes / integer produced
  by `os.urandom`, `hashlib.shake_128`, `random.getrandbits`, `numpy.random.Generator.bytes`
  as an explicit oracle argument.
* `TruncLcgRand.RandomBits` carries both behaviours (`Variant.pinned` = the code as pinned by
  `rng_test.testTruncLcg`, `Variant.repaired` = mask applied to the most significant byte):
  defect D5.

Python `int` → `Int` for seeds (any sign), `Nat` once reduced.  `bytes`/`bytearray` →
`List UInt8`.  No Mathlib.
-/
import ParanoidModel.Model.Basic
namespace Paranoid.Rng
open Paranoid

/-! ## Python `^` and `&` on ints of any sign (two's complement, unbounded) -/

/-- Python `a ^ b`. -/
def ixor : Int → Int → Int
  | .ofNat m, .ofNat n => .ofNat (m ^^^ n)
  | .ofNat m, .negSucc n => .negSucc (m ^^^ n)
  | .negSucc m, .ofNat n => .negSucc (m ^^^ n)
  | .negSucc m, .negSucc n => .ofNat (m ^^^ n)

/-- Python `a & b`. (`-(m+1) = ~m`; `x & ~m = x - (x & m)`.) -/
def iand : Int → Int → Int
  | .ofNat m, .ofNat n => .ofNat (m &&& n)
  | .ofNat m, .negSucc n => .ofNat (m - (m &&& n))
  | .negSucc m, .ofNat n => .ofNat (n - (m &&& n))
  | .negSucc m, .negSucc n => .negSucc (m ||| n)

/-! ## bytes -/

/-- `int.from_bytes(b, "little")`. -/
def fromLE : List UInt8 → Nat
  | [] => 0
  | b :: bs => b.toNat + 256 * fromLE bs

/-- `int.from_bytes(b, "big")`. -/
def fromBE (l : List UInt8) : Nat := fromLE l.reverse

/-- `x.to_bytes(k, "little")` for `0 ≤ x < 256^k` (Python raises `OverflowError` otherwise;
every call site below satisfies the bound, see `Proofs/Rng.lean` `*_fits`). -/
def toLE : Nat → Nat → List UInt8
  | 0, _ => []
  | k + 1, x => x.toUInt8 :: toLE k (x / 256)

/-- `if len(ba) != k: ba = ba[:k]`. -/
def truncTo (k : Nat) (ba : List UInt8) : List UInt8 :=
  if ba.length ≠ k then ba.take k else ba

/-- `ba[0] &= m` (non-empty `ba`; Python raises `IndexError` on an empty one, which no call
site reaches: the mask is applied only when `n % 8 ≠ 0`, hence `n ≥ 1` and `len(ba) ≥ 1`). -/
def maskHead (m : Nat) : List UInt8 → List UInt8
  | [] => []
  | b :: bs => (b &&& m.toUInt8) :: bs

/-- `ba[-1] &= m`. -/
def maskLast (m : Nat) : List UInt8 → List UInt8
  | [] => []
  | [b] => [b &&& m.toUInt8]
  | b :: b' :: bs => b :: maskLast m (b' :: bs)

/-- the partial-byte mask `(1 << (n % 8)) - 1`. -/
def byteMask (n : Nat) : Nat := (1 <<< (n % 8)) - 1

/-- `res = int.from_bytes(ba, "little"); if 8 * len(ba) != n: res &= (1 << n) - 1`
(shared tail of `Mwc`, `Lehmer`, `SubsetSum`). -/
def finishLE (ba : List UInt8) (n : Nat) : Nat :=
  if 8 * ba.length ≠ n then fromLE ba &&& ((1 <<< n) - 1) else fromLE ba

/-- `res = int.from_bytes(ba, "little"); if n % w != 0: res &= (1 << n) - 1`
(shared tail of the xorshift family, `w` = word size, and of `NumpyRng`, `w = 8`). -/
def finishWord (w : Nat) (ba : List UInt8) (n : Nat) : Nat :=
  if n % w ≠ 0 then fromLE ba &&& ((1 <<< n) - 1) else fromLE ba

/-- `seq = int.from_bytes(ba, "little"); if n % 8 != 0: seq >>= -n % 8`
(shared tail of `Urandom` and `Shake128`). -/
def finishShift (ba : List UInt8) (n : Nat) : Nat :=
  if n % 8 ≠ 0 then fromLE ba >>> ((-(n : Int)) % 8).toNat else fromLE ba

/-! ## Urandom, Shake128, Mt19937, NumpyRng — wrappers around an oracle -/

/-- `Urandom.RandomBits(n)`; `ba = os.urandom((n + 7) // 8)` is the oracle. -/
def urandom (ba : List UInt8) (n : Nat) : Nat := finishShift ba n

/-- `seed.to_bytes((seed.bit_length() + 8) // 8, "little", signed=True)`. -/
def shakeSeedBytes (seed : Int) : List UInt8 :=
  toLE ((bitLengthI seed + 8) / 8) (seed % (256 ^ ((bitLengthI seed + 8) / 8) : Nat)).toNat

/-- `Shake128.RandomBits(n, seed=seed)`; `xof msg len` stands for
`hashlib.shake_128(msg).digest(len)`. -/
def shake128 (xof : List UInt8 → Nat → List UInt8) (n : Nat) (seed : Int) : Nat :=
  finishShift (xof (shakeSeedBytes seed) ((n + 7) / 8)) n

/-- `Mt19937.RandomBits(n, seed=seed)`; `getrandbits seed n` stands for
`random.seed(seed); random.getrandbits(n)`. -/
def mt19937 (getrandbits : Int → Nat → Nat) (n : Nat) (seed : Int) : Nat := getrandbits seed n

/-- `NumpyRng.RandomBits(n, seed=seed)`; `bytesOf seed k` stands for
`numpy.random.Generator(bit_generator(seed=seed)).bytes(k)`. -/
def numpyRng (bytesOf : Int → Nat → List UInt8) (n : Nat) (seed : Int) : Nat :=
  finishWord 8 (bytesOf seed ((n + 7) / 8)) n

/-! ## TruncLcgRand -/

inductive Variant
  | pinned     -- the code under /repo: `ba[0] &= mask` on a little-endian array (D5)
  | repaired   -- `ba[-1] &= mask`
  deriving DecidableEq, Repr

structure TruncLcgParams where
  outputSize : Nat
  a : Nat
  c : Nat
  deriving DecidableEq, Repr

/-- `ref_multipliers` of `TruncLcgRand.__init__`, in dict order. -/
def refMultipliers : List (Nat × Nat) := [
  (32, 2891336453), (34, 52765661), (35, 22475205), (36, 12132445), (40, 330169576829),
  (48, 181465474592829), (60, 454339144066433781), (63, 9219741426499971445),
  (64, 2862933555777941757), (96, 75564983892026345434470042133),
  (128, 47026247687942121848144207491837418733),
  (256, 92535799708728563004421432684894516311017097014017594320373447727772634342485)]

/-- `for state_size, multiplier in ref_multipliers.items(): if state_size >= 2*output_size: …break`
with the 256-bit multiplier as the initial value. -/
def pickMultiplier (outputSize : Nat) : List (Nat × Nat) → Nat
  | [] => 92535799708728563004421432684894516311017097014017594320373447727772634342485
  | (stateSize, m) :: rest => if stateSize ≥ outputSize * 2 then m else pickMultiplier outputSize rest

/-- `TruncLcgRand(output_size)`. -/
def truncLcgInit (outputSize : Nat) : TruncLcgParams :=
  ⟨outputSize, pickMultiplier outputSize refMultipliers, 1⟩

/-- `state = (state * self.a + self.c) % 2**state_size_bits`. -/
def lcgNext (p : TruncLcgParams) (state : Int) : Nat :=
  ((state * p.a + p.c) % (2 ^ (p.outputSize * 2) : Nat)).toNat

/-- the `for j in range(num_outputs)` loop: concatenation of
`(state >> output_size_bits).to_bytes(output_size_bytes, "little")`. -/
def truncLcgBytes (p : TruncLcgParams) : Nat → Int → List UInt8
  | 0, _ => []
  | j + 1, state =>
    toLE ((p.outputSize + 7) / 8) (lcgNext p state >>> p.outputSize)
      ++ truncLcgBytes p j (lcgNext p state)

/-- `if n % 8 != 0: ba[0] &= (1 << (n % 8)) - 1` (pinned) / `ba[-1] &= …` (repaired). -/
def truncLcgMask (v : Variant) (n : Nat) (ba : List UInt8) : List UInt8 :=
  if n % 8 ≠ 0 then
    match v with
    | .pinned => maskHead (byteMask n) ba
    | .repaired => maskLast (byteMask n) ba
  else ba

/-- the body of `TruncLcgRand.RandomBits` for `output_size_bytes > 0`. -/
def truncLcgCore (v : Variant) (p : TruncLcgParams) (n : Nat) (seed : Int) : Nat :=
  fromLE (truncLcgMask v n (truncTo ((n + 7) / 8)
    (truncLcgBytes p (((n + 7) / 8 + (p.outputSize + 7) / 8 - 1) / ((p.outputSize + 7) / 8)) seed)))

/-- `TruncLcgRand.RandomBits(n, seed=state)`. `ZeroDivisionError` for `output_size = 0`
(`(… + output_size_bytes - 1) // output_size_bytes`). With `seed is None` the same code runs on
`state = int.from_bytes(os.urandom(state_size_bytes), "little")`. -/
def truncLcg (v : Variant) (p : TruncLcgParams) (n : Nat) (seed : Int) : Except PyErr Nat :=
  if (p.outputSize + 7) / 8 = 0 then .error .zeroDivision
  else .ok (truncLcgCore v p n seed)

/-! ## XorShift128plus -/

/-- `x = (x ^ (x << 23)) % 2**64` — the only place where `x` may still be any integer
(first iteration, `x = seed // 2**64`). -/
def xs128pA (x : Int) : Nat := ((ixor x (x <<< 23)) % (2 ^ 64 : Nat)).toNat

/-- `x ^= x >> 17; x ^= y ^ (y >> 26)`. -/
def xs128pB (x y : Nat) : Nat := (x ^^^ (x >>> 17)) ^^^ (y ^^^ (y >>> 26))

def xs128pStep (x : Int) (y : Nat) : Nat := xs128pB (xs128pA x) y

/-- loop body + `bytearray().join(z.to_bytes(8, "little") for z in blocks)`;
note that the code never swaps `x` and `y`. -/
def xs128pBytes (y : Nat) : Nat → Int → List UInt8
  | 0, _ => []
  | k + 1, x => toLE 8 ((xs128pStep x y + y) % 2 ^ 64) ++ xs128pBytes y k (xs128pStep x y)

/-- `XorShift128plus.RandomBits` after the state `(x, y)` has been chosen. -/
def xorShift128plusCore (x : Int) (y n : Nat) : Nat :=
  finishWord 64 (xs128pBytes y ((n + 63) / 64) x) n

/-- `XorShift128plus.RandomBits(n, seed=seed)` for a truthy (non-zero) seed:
`x, y = divmod(seed, 2**64)`. (`seed` `None` or `0`: `x, y` are 8 bytes of `os.urandom` each.) -/
def xorShift128plus (n : Nat) (seed : Int) : Nat :=
  xorShift128plusCore (seed.fdiv (2 ^ 64 : Nat)) (seed.fmod (2 ^ 64 : Nat)).toNat n

/-! ## XorShiftStar -/

/-- `x ^= x >> 12; x = (x ^ (x << 25)) % 2**64; x ^= x >> 27`. -/
def xsStarA (x : Nat) : Nat := x ^^^ (x >>> 12)
def xsStarB (x : Nat) : Nat := (x ^^^ (x <<< 25)) % 2 ^ 64
def xsStarC (x : Nat) : Nat := x ^^^ (x >>> 27)
def xsStarStep (x : Nat) : Nat := xsStarC (xsStarB (xsStarA x))

def xsStarBytes : Nat → Nat → List UInt8
  | 0, _ => []
  | k + 1, x =>
    toLE 8 (xsStarStep x * 0x2545F4914F6CDD1D % 2 ^ 64) ++ xsStarBytes k (xsStarStep x)

def xorShiftStarCore (x n : Nat) : Nat := finishWord 64 (xsStarBytes ((n + 63) / 64) x) n

/-- `XorShiftStar.RandomBits(n, seed=seed)`, non-zero seed: `x = seed % 2**64`. -/
def xorShiftStar (n : Nat) (seed : Int) : Nat :=
  xorShiftStarCore (seed % (2 ^ 64 : Nat)).toNat n

/-! ## Xorwow -/

/-- `t ^= t >> 2; t ^= (t << 1) % 2**32; t ^= (s ^ (s << 4)) % 2**32`. -/
def xorwowT1 (t : Nat) : Nat := t ^^^ (t >>> 2)
def xorwowT2 (t : Nat) : Nat := t ^^^ ((t <<< 1) % 2 ^ 32)
def xorwowT3 (t s : Nat) : Nat := t ^^^ ((s ^^^ (s <<< 4)) % 2 ^ 32)

/-- the value of `t` at the end of one iteration: `s = state % 2**32`,
`t, s0 = divmod(state, 2**160)`. -/
def xorwowT (state : Nat) : Nat := xorwowT3 (xorwowT2 (xorwowT1 (state / 2 ^ 160))) (state % 2 ^ 32)

/-- `state = t + (s0 << 32)`. -/
def xorwowNext (state : Nat) : Nat := xorwowT state + ((state % 2 ^ 160) <<< 32)

def xorwowBytes : Nat → Nat → Nat → List UInt8
  | 0, _, _ => []
  | k + 1, state, ctr =>
    toLE 4 ((xorwowT state + ctr) % 2 ^ 32)
      ++ xorwowBytes k (xorwowNext state) ((ctr + 362437) % 2 ^ 32)

def xorwowCore (state ctr n : Nat) : Nat := finishWord 32 (xorwowBytes ((n + 31) / 32) state ctr) n

/-- `Xorwow.RandomBits(n, seed=seed)`, non-zero seed:
`seed, state = divmod(seed, 2**160); ctr = seed % 2**32`. -/
def xorwow (n : Nat) (seed : Int) : Nat :=
  xorwowCore (seed.fmod (2 ^ 160 : Nat)).toNat
    ((seed.fdiv (2 ^ 160 : Nat)) % (2 ^ 32 : Nat)).toNat n

/-! ## JavaRandom -/

def javaA : Nat := 0x5DEECE66D
def javaC : Nat := 0xB
def javaMask : Nat := 0xFFFFFFFFFFFF

/-- `state = (seed ^ a) & mask`. -/
def javaScramble (seed : Int) : Nat := (iand (ixor seed javaA) javaMask).toNat

/-- `state = (state * a + c) & mask`. -/
def javaNext (state : Nat) : Nat := (state * javaA + javaC) &&& javaMask

/-- `for j in range(values)`: `ba[4j:4j+4] = (state >> 16).to_bytes(4, "little")`. -/
def javaBytes : Nat → Nat → List UInt8
  | 0, _ => []
  | j + 1, state => toLE 4 (javaNext state >>> 16) ++ javaBytes j (javaNext state)

/-- `if n % 8 != 0: ba[0] &= (1 << (n % 8)) - 1`. -/
def maskHeadIf (n : Nat) (ba : List UInt8) : List UInt8 :=
  if n % 8 ≠ 0 then maskHead (byteMask n) ba else ba

/-- `JavaRandom.RandomBits` after scrambling. -/
def javaRandomCore (state n : Nat) : Nat :=
  fromBE (maskHeadIf n (truncTo ((n + 7) / 8) (javaBytes (((n + 7) / 8 + 3) / 4) state)))

/-- `JavaRandom.RandomBits(n, seed=seed)`. With `seed is None` the same code runs on
`seed = int.from_bytes(os.urandom(6), "big")`. -/
def javaRandom (n : Nat) (seed : Int) : Nat := javaRandomCore (javaScramble seed) n

/-! ## LcgNist -/

def lcgNistMod : Nat := (1 <<< 31) - 1

/-- `seed = 1 + (seed - 1) % ((1 << 31) - 2)`. -/
def lcgNistSeed (seed : Int) : Nat := (1 + (seed - 1) % (((1 <<< 31) - 2 : Nat) : Int)).toNat

/-- `for j in range(8): seed = self.a * seed % ((1 << 31) - 1); b ^= (seed >> 30) << j`,
from index `j` with `fuel = 8 - j`; returns `(seed, b)`. -/
def lcgNistByte (a : Nat) : Nat → Nat → Nat → Nat → Nat × Nat
  | 0, _, seed, b => (seed, b)
  | fuel + 1, j, seed, b =>
    lcgNistByte a fuel (j + 1) (a * seed % lcgNistMod)
      (b ^^^ (((a * seed % lcgNistMod) >>> 30) <<< j))

/-- `for i in range(len(res))`: `res[i] = b`. -/
def lcgNistBytes (a : Nat) : Nat → Nat → List UInt8
  | 0, _ => []
  | i + 1, seed =>
    (lcgNistByte a 8 0 seed 0).2.toUInt8 :: lcgNistBytes a i (lcgNistByte a 8 0 seed 0).1

/-- `LcgNist.RandomBits` after the seed has been mapped into `1 .. 2^31-2`. -/
def lcgNistCore (a seed n : Nat) : Nat :=
  fromLE (if n % 8 ≠ 0 then maskLast (byteMask n) (lcgNistBytes a ((n + 7) / 8) seed)
          else lcgNistBytes a ((n + 7) / 8) seed)

/-- `LcgNist(a).RandomBits(n, seed=seed)`. (`seed is None`: `seed` is drawn from `os.urandom`
until `1 < seed < 2**31 - 1` and used unmapped.) -/
def lcgNist (a n : Nat) (seed : Int) : Nat := lcgNistCore a (lcgNistSeed seed) n

/-! ## Mwc -/

structure MwcParams where
  a : Nat
  b : Nat
  ab1 : Int
  outputBits : Nat
  deriving DecidableEq, Repr

/-- `Mwc.__init__`: `if 1 << (b.bit_length() - 1) != b or b.bit_length() % 8 != 1: raise ValueError`
(`b = 0`: the negative shift count is a `ValueError` too). -/
def mwcInit (a b : Nat) : Except PyErr MwcParams :=
  if 1 <<< (bitLength b - 1) ≠ b ∨ bitLength b % 8 ≠ 1 then .error .valueError
  else .ok ⟨a, b, (a : Int) * b - 1, bitLength b - 1⟩

/-- `y = self.a * y % self.ab1; ba += (y % self.b).to_bytes(chunk_size, "little")`. -/
def mwcBytes (p : MwcParams) : Nat → Int → List UInt8
  | 0, _ => []
  | k + 1, y =>
    toLE (p.outputBits / 8) (((p.a * y).fmod p.ab1).fmod p.b).toNat
      ++ mwcBytes p k ((p.a * y).fmod p.ab1)

/-- the body of `Mwc.RandomBits` for `output_bits > 0`. -/
def mwcCore (p : MwcParams) (n : Nat) (y : Int) : Nat :=
  finishLE (mwcBytes p ((n + p.outputBits - 1) / p.outputBits) y) n

/-- `Mwc.RandomBits(n, seed=y)`. `ZeroDivisionError` when `output_bits = 0` (`b = 1`).
With `seed is None`, `y = int.from_bytes(os.urandom(…)) % ab1`, same code. -/
def mwc (p : MwcParams) (n : Nat) (seed : Int) : Except PyErr Nat :=
  if p.outputBits = 0 then .error .zeroDivision
  else .ok (mwcCore p n seed)

/-! ## Lehmer -/

structure LehmerParams where
  a : Nat
  mod : Nat
  bits : Nat
  deriving DecidableEq, Repr

/-- `Lehmer.__init__`: `if bits % 8 != 0: raise ValueError`. -/
def lehmerInit (a mod bits : Nat) : Except PyErr LehmerParams :=
  if bits % 8 ≠ 0 then .error .valueError else .ok ⟨a, mod, bits⟩

/-- `state = state * self.a % self.mod; output = (state << self.bits) // self.mod;
ba += output.to_bytes(self.bits // 8, "little")`. -/
def lehmerBytes (p : LehmerParams) : Nat → Int → List UInt8
  | 0, _ => []
  | k + 1, state =>
    toLE (p.bits / 8) ((((state * p.a) % (p.mod : Int)).toNat <<< p.bits) / p.mod)
      ++ lehmerBytes p k ((state * p.a) % (p.mod : Int))

/-- the body of `Lehmer.RandomBits` for `bits > 0`, `mod > 0`. -/
def lehmerCore (p : LehmerParams) (n : Nat) (state : Int) : Nat :=
  finishLE (lehmerBytes p ((n + p.bits - 1) / p.bits) state) n

/-- `Lehmer.RandomBits(n, seed=state)`. The `while 8 * len(ba) < n` loop appends `bits/8`
bytes per iteration, i.e. runs `⌈n / bits⌉` times when `bits > 0`
(`C20Total.lehmer_while_is_for`). `mod = 0` raises `ZeroDivisionError` in the first iteration
(whatever `bits` is: `state * a % mod` comes first). For `bits = 0`, `mod ≠ 0` and `n ≥ 1` the
Python loop does NOT terminate (`C20Total.lehmer_bits_zero_never_terminates`; run:
`rng.Lehmer(bits=0).RandomBits(1, seed=5)` hangs): there is no Python value; this `Except`-valued
model answers the PLACEHOLDER `valueError` there — `Rng.lehmerOutcome` (Model/RngTotal.lean) is
the model with an explicit `diverges`. With `seed is None` the same code runs on a seed drawn
from `os.urandom` (for `mod = 0` that draw itself raises `ZeroDivisionError`, also for `n = 0`). -/
def lehmer (p : LehmerParams) (n : Nat) (seed : Int) : Except PyErr Nat :=
  if n = 0 then .ok 0
  else if p.mod = 0 then .error .zeroDivision
  else if p.bits = 0 then .error .valueError
  else .ok (lehmerCore p n seed)

/-! ## SubsetSum -/

/-- `(rand_bits[i // 8] >> (i % 8)) & 1`; `none` = `IndexError` (oracle shorter than
`(len(generators) + 7) // 8` bytes). -/
def selBit (sel : List UInt8) (i : Nat) : Option Bool :=
  match sel[i / 8]? with
  | none => none
  | some b => some ((b.toNat >>> (i % 8)) &&& 1 = 1)

/-- `for i, g in enumerate(generators): if bit i of rand_bits: subset_sum += g`. -/
def subsetSumOf (sel : List UInt8) : List Nat → Nat → Nat → Option Nat
  | [], _, acc => some acc
  | g :: gs, i, acc =>
    match selBit sel i with
    | none => none
    | some true => subsetSumOf sel gs (i + 1) (acc + g)
    | some false => subsetSumOf sel gs (i + 1) acc

/-- the `while len(ba) * 8 < n` loop over the successive `os.urandom((len(generators)+7)//8)`
answers `sels`; `none` when the oracle list is exhausted before `n` bits are collected (this is
also how non-termination for `bits = 0` or an all-zero oracle shows up). -/
def subsetSumLoop (bits n : Nat) (gens : List Nat) : List (List UInt8) → List UInt8 → Option (List UInt8)
  | [], ba => if ba.length * 8 < n then none else some ba
  | sel :: rest, ba =>
    if ba.length * 8 < n then
      match subsetSumOf sel gens 0 0 with
      | none => none
      | some s =>
        if s = 0 then subsetSumLoop bits n gens rest ba
        else subsetSumLoop bits n gens rest
          (ba ++ toLE (bits / 8) (s &&& ((1 <<< bits) - 1)))
    else some ba

/-- `SubsetSum.__init__`: `if bits % 8 != 0: raise ValueError`. -/
def subsetSumInit (bits k : Nat) : Except PyErr (Nat × Nat) :=
  if bits % 8 ≠ 0 then .error .valueError else .ok (bits, k)

/-- `SubsetSum(bits, k).RandomBits(n)`; `gens` is the answer of `_Generators()` (k integers
from `os.urandom(bits // 8)`), `sels` the successive `rand_bits`. -/
def subsetSum (bits n : Nat) (gens : List Nat) (sels : List (List UInt8)) : Option Nat :=
  match subsetSumLoop bits n gens sels [] with
  | none => none
  | some ba => some (finishLE ba n)

end Paranoid.Rng
