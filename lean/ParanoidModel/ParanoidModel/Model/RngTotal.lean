/-
Model/RngTotal.lean — total behaviour of the parametrised generators of
`randomness_tests/rng.py` (`TruncLcgRand(k)`, `Mwc(a, b)`, `Lehmer(a, mod, bits)`,
`SubsetSum(bits, k)`): constructor + `RandomBits(n)` with three possible outcomes — a value, a
Python exception, or NON-TERMINATION of a `while` loop.  Model/Rng.lean has `Except`-valued
functions (and a placeholder where the Python code does not terminate); this file adds the
explicit `diverges` outcome and the literal `while` loops with fuel.  No Mathlib.
-/
import ParanoidModel.Model.Rng
namespace Paranoid.Rng
open Paranoid

/-- what `G(params).RandomBits(n, seed=…)` does. -/
inductive Outcome
  | value (r : Nat)
  | raises (e : PyErr)
  | diverges
  deriving DecidableEq, Repr

def Outcome.ofExcept : Except PyErr Nat → Outcome
  | .ok r => .value r
  | .error e => .raises e

/-- constructor parameters of the four parametrised generator classes (non-negative integers;
what the real code does with negative parameters is recorded in Props/C20Total.lean). -/
inductive Entry
  | truncLcg (outputSize : Nat)
  | mwc (a b : Nat)
  | lehmer (a mod bits : Nat)
  | subsetSum (bits k : Nat)
  deriving DecidableEq, Repr

/-- EXACTLY the parameters for which the real constructor returns and `RandomBits(n)` returns a
value for every `n ≥ 0` and every seed (for `SubsetSum`: whenever `os.urandom` does not answer
with all-zero generators / selections for ever). -/
def entryOk : Entry → Bool
  | .truncLcg k => decide (0 < k)
  | .mwc _ b => decide (1 <<< (bitLength b - 1) = b) && decide (bitLength b % 8 = 1) && decide (b ≠ 1)
  | .lehmer _ mod bits => decide (bits % 8 = 0) && decide (0 < bits) && decide (0 < mod)
  | .subsetSum bits k => decide (bits % 8 = 0) && decide (0 < bits) && decide (0 < k)

/-! ### Lehmer: the literal `while` loop -/

/-- `while 8 * len(ba) < n: state = …; output = …; ba += output.to_bytes(bits // 8, "little")`
with `fuel` iterations allowed; `none` = the guard is still true when the fuel is used up.
(`mod ≠ 0`; for `mod = 0` the first iteration raises.) -/
def lehmerWhile (p : LehmerParams) (n : Nat) : Nat → Int → List UInt8 → Option (List UInt8)
  | 0, _, ba => if 8 * ba.length < n then none else some ba
  | fuel + 1, state, ba =>
    if 8 * ba.length < n then
      lehmerWhile p n fuel ((state * p.a) % (p.mod : Int))
        (ba ++ toLE (p.bits / 8) ((((state * p.a) % (p.mod : Int)).toNat <<< p.bits) / p.mod))
    else some ba

/-- `Lehmer(a, mod, bits).RandomBits(n, seed=seed)` for parameters the constructor accepted,
with non-termination explicit.  `.diverges` for `bits = 0` is BY DEFINITION here; that it is the
behaviour of the literal loop `lehmerWhile` (`= .diverges ↔ ∀ fuel, lehmerWhile … = none`,
`= .value r ↔ ∃ fuel, lehmerWhile … = some ba ∧ finishLE ba n = r`) is proved in
Props/C20TotalLink.lean.  INTEGER seed only: the rejection loop by which the unseeded call draws
its seed is not modelled. -/
def lehmerOutcome (p : LehmerParams) (n : Nat) (seed : Int) : Outcome :=
  if n = 0 then .value 0
  else if p.mod = 0 then .raises .zeroDivision
  else if p.bits = 0 then .diverges
  else .value (lehmerCore p n seed)

/-! ### SubsetSum -/

/-- number of oracle answers `rand_bits` whose subset sum is non-zero (each appends `bits/8`
bytes; the others hit `continue`). -/
def nonzeroSels (gens : List Nat) (sels : List (List UInt8)) : Nat :=
  (sels.filter fun sel => subsetSumOf sel gens 0 0 != some 0).length

/-- `SubsetSum(bits, k).RandomBits(n)` on the oracle answers `gens`, `sels` (Model/Rng.lean
`subsetSum`), `none` (= the `while` loop has not ended when the supplied answers are used up)
shown as `diverges`: with EVERY finite list of answers of the degenerate kind the loop is still
running (`C20Total.subsetSum_never_ends`). -/
def subsetSumOutcome (bits n : Nat) (gens : List Nat) (sels : List (List UInt8)) : Outcome :=
  match subsetSum bits n gens sels with
  | some r => .value r
  | none => .diverges

/-! ### all four classes -/

/-- oracle answers (used by `SubsetSum` only). -/
structure Oracle where
  gens : List Nat
  sels : List (List UInt8)

/-- constructor followed by `RandomBits(n, seed=seed)`. -/
def run (v : Variant) (e : Entry) (n : Nat) (seed : Int) (o : Oracle) : Outcome :=
  match e with
  | .truncLcg k => .ofExcept (truncLcg v (truncLcgInit k) n seed)
  | .mwc a b =>
    match mwcInit a b with
    | .error err => .raises err
    | .ok p => .ofExcept (mwc p n seed)
  | .lehmer a mod bits =>
    match lehmerInit a mod bits with
    | .error err => .raises err
    | .ok p => lehmerOutcome p n seed
  | .subsetSum bits k =>
    match subsetSumInit bits k with
    | .error err => .raises err
    | .ok _ => subsetSumOutcome bits n o.gens o.sels

/-- the oracle has the shape `os.urandom` gives it: `k` generators below `2^bits`, selections of
`(k + 7) // 8` bytes. -/
def oracleShape (e : Entry) (o : Oracle) : Prop :=
  match e with
  | .subsetSum bits k =>
    o.gens.length = k ∧ (∀ g ∈ o.gens, g < 2 ^ bits) ∧ ∀ sel ∈ o.sels, sel.length = (k + 7) / 8
  | _ => True

/-- … and answers at least `⌈n / bits⌉` times with a non-zero subset sum. -/
def oracleSuffices (e : Entry) (n : Nat) (o : Oracle) : Prop :=
  match e with
  | .subsetSum bits _ => n ≤ bits * nonzeroSels o.gens o.sels
  | _ => True

end Paranoid.Rng
