/-
Model/RsaAll.lean — `paranoid.CheckAllRSA` END TO END: the per-key verdict models of the seventeen
active RSA checks (Model/RsaChecks, Model/ClosedForm, Model/BatchGcd) plugged into the bookkeeping
layer (Model/Checks `checkAllRSA`) in place of its verdict oracle.  No Mathlib.

What stays an oracle is exactly what the seventeen `Check` methods take from outside the code
that is modelled (`RsaOracles`):
  per key      `red`        key index → denominator `d0` → the basis `lll.reduce` returned for the
                            `CheckFraction(n, d0)` lattice (CheckBitPatterns and
                            CheckPermutedBitPatterns; the lattice is a function of `(n, d0)`)
               `cbrt`       `int((n >> 3·shift) ** (1/3))` of `FactorWithGuess`
                            (CheckUnseededRand, CheckSmallUpperDifferences)
               `unseeded`   the flattened candidate sequence of CheckUnseededRand: for every value
                            of `storage.GetUnseededRands(psize)` (frozenset order) the iteration
                            order of the Python set `{p_0, p_0 | msb_1, p_0 | msb_11}`
               `sha1hex`    `hashlib.sha1("Modulus=%X\n" % n).hexdigest()` (CheckOpensslDenylist)
               `keypairGen` `keypair_generator.Generator(seed).generate_key(bits)`
                            (CheckKeypairDenylist; consulted only when the table has the prefix)
  global       `pollardM`   the product `self._m` the CheckPollardpm1 constructor computed
               `denylist`   `storage.GetOpensslDenylist()`
               `keypairTable` `dict(storage.GetKeypairData().table)`
               constructor / keyword defaults regenerated into Generated/Consts
               (`fermatMaxSteps`, `cfBound`, `pm1GcdBound`, `gcdn1Bound`, `hlbeMiddleBits`,
               `lhwCutoff`, `lhwMaxSteps`).

What each real `Check` method attaches (read off rsa_single_checks.py / rsa_aggregate_checks.py):
  CheckSizes, CheckExponents, CheckROCA, CheckROCAVariant, CheckOpensslDenylist   nothing
  CheckFermat, CheckHighAndLowBitsEqual, CheckBitPatterns, CheckPermutedBitPatterns,
  CheckUnseededRand, CheckSmallUpperDifferences        `if factors:` AttachFactors(N_FACTORS)
  CheckContinuedFractions, CheckPollardpm1, CheckLowHammingWeight
                                   weak; AttachFactors(N_FACTORS) only `if factors:` (non-empty)
  CheckKeypairDenylist             AttachFactors(N_FACTORS, (p, q)) when `p * q == n`
  CheckGCD                         AttachFactors(N_FACTORS, [g, n // g] (+ proper split, D2))
  CheckGCDN1                       AttachFactors(N-1_FACTORS, [g])
No RSA check calls AttachInfo.  The SEVERITY_UNKNOWN override of CheckLowHammingWeight is the
`unknownIfUnfactored` flag of the regenerated registry (Model/Checks `sevFor`).

Exceptions: a per-key model that raises makes the entry point raise (first exception in
check-then-key order, which is the order the Python runs).  The verdicts are computed before the
bookkeeping runs; on FRESH keys the bookkeeping cannot raise (`Proofs/RsaAll`), so the order of
the two phases is unobservable.  Partially annotated protobufs after an exception are not
modelled.
-/
import ParanoidModel.Model.Checks
import ParanoidModel.Model.RsaChecks
import ParanoidModel.Model.ClosedForm
import ParanoidModel.Model.BatchGcd
namespace Paranoid.RsaAll
open Paranoid

/-- `paranoid_pb2.RSAKey.rsa_info` as the checks read it: `Bytes2Int(n)`, `Bytes2Int(e)`. -/
structure RsaKey where
  n : Nat
  e : Nat
  deriving DecidableEq, Repr

/-- state of the singleton check objects (constructor results) and keyword defaults. -/
structure RsaGlobals where
  pollardM : Nat
  denylist : List (List Char)
  keypairTable : List (Nat × List Nat)
  lhwCutoff : Nat := Consts.lhwCutoff
  lhwMaxSteps : Nat := Consts.lhwMaxSteps
  fermatMaxSteps : Nat := Consts.fermatMaxSteps
  cfBound : Nat := Consts.cfBound
  pm1GcdBound : Nat := Consts.pm1GcdBound
  gcdn1Bound : Nat := Consts.gcdn1Bound
  hlbeMiddleBits : Nat := Consts.hlbeMiddleBits

/-- the oracle answers the single checks consume while they look at ONE key. -/
structure KeyOracles where
  red : Nat → List (List Int)
  cbrt : Nat
  unseeded : List Nat
  sha1hex : List Char
  keypairGen : List Nat → Nat → Nat × Nat

/-- everything the seventeen checks take from outside; per-key oracles are indexed by the
position of the key in the batch. -/
structure RsaOracles extends RsaGlobals where
  red : Nat → Nat → List (List Int)
  cbrt : Nat → Nat
  unseeded : Nat → List Nat
  sha1hex : Nat → List Char
  keypairGen : Nat → List Nat → Nat → Nat × Nat

def RsaOracles.forKey (orc : RsaOracles) (i : Nat) : KeyOracles :=
  ⟨orc.red i, orc.cbrt i, orc.unseeded i, orc.sha1hex i, orc.keypairGen i⟩

/-- `consts.INFO_NAME_N_FACTORS`, `consts.INFO_NAME_NM1_FACTORS` (compared with the running
implementation by the correspondence op `rsaall.names`). -/
def nFactors : String := "N_FACTORS"
def nm1Factors : String := "N-1_FACTORS"

/-! ### from per-key results to the `Verdict` the bookkeeping consumes -/

/-- `if factors: util.AttachFactors(test_info, name, factors)`. -/
def attach (name : String) : List Nat → Option (String × List Int)
  | [] => none
  | f :: fs => some (name, (f :: fs).map Int.ofNat)

def ofFlag (b : Bool) : Verdict := ⟨b, none, none⟩

/-- the factoring single checks: `positive := weak`, factors under N_FACTORS. -/
def ofKeyVerdict (v : KeyVerdict) : Verdict := ⟨v.weak, attach nFactors v.factors, none⟩

/-- `(test_result.result, factors handed to AttachFactors)` of CheckKeypairDenylist / CheckGCD /
CheckGCDN1. -/
def ofPair (name : String) (r : Bool × List Nat) : Verdict := ⟨r.1, attach name r.2, none⟩

/-! ### the fifteen single checks, one key -/

abbrev SingleModel := RsaGlobals → KeyOracles → RsaKey → Except PyErr Verdict

def mSizes : SingleModel := fun _ _ k => .ok (ofFlag (sizesWeak k.n))
def mExponents : SingleModel := fun _ _ k => .ok (ofFlag (exponentWeak k.e))
def mRoca : SingleModel := fun _ _ k =>
  (rocaIsWeak Consts.rocaPrimes Consts.rocaF4 k.n).map ofFlag
def mRocaVariant : SingleModel := fun _ _ k =>
  (rocaVariantIsWeak Consts.rocaVariantPrimes Consts.rocaPrimes Consts.rocaF4 k.n).map ofFlag
def mFermat : SingleModel := fun g _ k => .ok (ofKeyVerdict (vFermat k.n g.fermatMaxSteps))
def mHlbe : SingleModel := fun g _ k => (vHlbe k.n g.hlbeMiddleBits).map ofKeyVerdict
def mOpenssl : SingleModel := fun g o k => .ok (ofFlag (opensslWeak k.n o.sha1hex g.denylist))
def mCf : SingleModel := fun g _ k => (vCf k.n g.cfBound).map ofKeyVerdict
def mBitPatterns : SingleModel := fun _ o k =>
  (vBitPatterns k.n defaultPatternSizes o.red).map ofKeyVerdict
def mPermuted : SingleModel := fun _ o k => (vPermuted k.n o.red).map ofKeyVerdict
def mPollard : SingleModel := fun g _ k => .ok (ofKeyVerdict (vPollard k.n g.pollardM g.pm1GcdBound))
def mLhw : SingleModel := fun g _ k => .ok (ofKeyVerdict (vLhw k.n g.lhwCutoff g.lhwMaxSteps))
def mUnseeded : SingleModel := fun _ o k => (vUnseeded k.n o.cbrt o.unseeded).map ofKeyVerdict
def mSud : SingleModel := fun _ o k => (vSud k.n o.cbrt).map ofKeyVerdict
def mKeypair : SingleModel := fun g o k =>
  (keypairStep g.keypairTable k.n o.keypairGen).map (ofPair nFactors)

/-- the model of every single check, by `check_name`. -/
def singleModels : List (String × SingleModel) := [
  ("CheckSizes", mSizes),
  ("CheckExponents", mExponents),
  ("CheckROCA", mRoca),
  ("CheckROCAVariant", mRocaVariant),
  ("CheckFermat", mFermat),
  ("CheckHighAndLowBitsEqual", mHlbe),
  ("CheckOpensslDenylist", mOpenssl),
  ("CheckContinuedFractions", mCf),
  ("CheckBitPatterns", mBitPatterns),
  ("CheckPermutedBitPatterns", mPermuted),
  ("CheckPollardpm1", mPollard),
  ("CheckLowHammingWeight", mLhw),
  ("CheckUnseededRand", mUnseeded),
  ("CheckSmallUpperDifferences", mSud),
  ("CheckKeypairDenylist", mKeypair)]

/-! ### the two aggregate checks, whole batch -/

/-- moduli of the batch (in artefact order) → one verdict per key. -/
abbrev AggregateModel := RsaGlobals → List Nat → Except PyErr (List Verdict)

def mGcd : AggregateModel := fun _ ns => (checkGCD ns).map fun r => r.2.map (ofPair nFactors)
def mGcdN1 : AggregateModel := fun g ns =>
  (checkGCDN1 g.gcdn1Bound ns).map fun r => r.2.map (ofPair nm1Factors)

def aggregateModels : List (String × AggregateModel) := [
  ("CheckGCD", mGcd),
  ("CheckGCDN1", mGcdN1)]

/-! ### the verdict of the check called `name` on the `i`-th key of the batch -/

/-- `lst[i]`. -/
def nth (row : List Verdict) (i : Nat) : Except PyErr Verdict :=
  match row[i]? with
  | some v => .ok v
  | none => .error .indexError

def runSingle (m : SingleModel) (orc : RsaOracles) (keys : List RsaKey) (i : Nat) :
    Except PyErr Verdict :=
  match keys[i]? with
  | some k => m orc.toRsaGlobals (orc.forKey i) k
  | none => .error .indexError

def runAggregate (m : AggregateModel) (orc : RsaOracles) (keys : List RsaKey) (i : Nat) :
    Except PyErr Verdict :=
  match m orc.toRsaGlobals (keys.map (·.n)) with
  | .error e => .error e
  | .ok row => nth row i

/-- a `check_name` without a model is an error (`KeyError` of the lookup), never a silent pass. -/
def rsaVerdict (name : String) (orc : RsaOracles) (keys : List RsaKey) (i : Nat) :
    Except PyErr Verdict :=
  match singleModels.lookup name with
  | some m => runSingle m orc keys i
  | none =>
    match aggregateModels.lookup name with
    | some m => runAggregate m orc keys i
    | none => .error .keyError

/-! ### the entry point -/

/-- `[f(x) for x in xs]` with exceptions: the first one propagates. -/
def mapE {α β : Type} (f : α → Except PyErr β) : List α → Except PyErr (List β)
  | [] => .ok []
  | a :: as =>
    match f a with
    | .error e => .error e
    | .ok b =>
      match mapE f as with
      | .error e => .error e
      | .ok bs => .ok (b :: bs)

/-- the verdicts of one check on every key, in batch order. -/
def verdictRow (name : String) (orc : RsaOracles) (keys : List RsaKey) :
    Except PyErr (List Verdict) :=
  mapE (rsaVerdict name orc keys) (List.range keys.length)

/-- one row per check of the regenerated registry `Consts.rsaAllChecks`, in registry order. -/
def verdictTable (orc : RsaOracles) (keys : List RsaKey) : Except PyErr (List (List Verdict)) :=
  mapE (fun (c : CheckSpec) => verdictRow c.name orc keys) rsaAll

def noVerdict : Verdict := ⟨false, none, none⟩

/-- the table as the function `checkAllRSA` takes (check index, key index); outside the table
(never consulted: `Proofs/RsaAll.tableO_eq`) the function has to return something. -/
def tableO (tbl : List (List Verdict)) (j i : Nat) : Verdict :=
  match tbl[j]? with
  | some row =>
    match row[i]? with
    | some v => v
    | none => noVerdict
  | none => noVerdict

/-- no RSA check runs an inner CheckAllEC. -/
def noInner : Nat → Nat → Nat → Verdict := fun _ _ _ => noVerdict

/-- a freshly parsed `RSAKey` protobuf: empty `test_info` (curve / point unused for RSA). -/
def freshArt : Artifact := ⟨TestInfo.empty, 0, (0, 0)⟩

/-- `paranoid.CheckAllRSA(rsa_keys)` on fresh protobufs: the annotated batch and the return
value. -/
def checkAllRSAFull (orc : RsaOracles) (keys : List RsaKey) : Except PyErr (List Artifact × Bool) :=
  match verdictTable orc keys with
  | .error e => .error e
  | .ok tbl => checkAllRSA .repaired (tableO tbl) noInner (keys.map fun _ => freshArt)

end Paranoid.RsaAll
