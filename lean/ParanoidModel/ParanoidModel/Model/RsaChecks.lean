/-
Model/RsaChecks.lean — the per-key verdict of the RSA single checks of
rsa_single_checks.py that wrap the factoring functions (the bookkeeping around the verdict
is Model/Bookkeeping / Checks). No Mathlib.

Oracles: `red : Nat → List (List Int)` maps the denominator guess `d0` of a `CheckFraction`
call to the basis `lll.reduce` returned for it; `cbrt` is the float cube root.
-/
import ParanoidModel.Model.Factoring
namespace Paranoid

/-- what a single check decides for one key. `sevUnknown`: the check lowers its severity to
SEVERITY_UNKNOWN for this key (CheckLowHammingWeight without factors). -/
structure KeyVerdict where
  weak : Bool
  factors : List Nat
  sevUnknown : Bool := false
  deriving Repr, DecidableEq

def KeyVerdict.pass : KeyVerdict := ⟨false, [], false⟩

/-- `CheckFermat` for one key. A returned tuple is always truthy. -/
def vFermat (n maxSteps : Nat) : KeyVerdict :=
  match fermatFactor n maxSteps with
  | some (p, q) => ⟨true, [p, q], false⟩
  | none => .pass

/-- `CheckHighAndLowBitsEqual` for one key (`if factors:` = non-empty list). -/
def vHlbe (n : Nat) (middleBits : Nat) : Except PyErr KeyVerdict :=
  match factorHighAndLowBitsEqual n middleBits with
  | .error e => .error e
  | .ok (some (f :: fs)) => .ok ⟨true, f :: fs, false⟩
  | .ok _ => .ok .pass

/-- `CheckContinuedFractions` for one key. -/
def vCf (n bound : Nat) : Except PyErr KeyVerdict :=
  match checkContinuedFraction n bound with
  | .error e => .error e
  | .ok (ok, fs) => if ok then .ok .pass else .ok ⟨true, fs, false⟩

/-- `for pattern_size in pattern_sizes` loop of `CheckBitPatterns`. -/
def bitPatternsLoop (n maxPs : Nat) (red : Nat → List (List Int)) :
    List Nat → Except PyErr KeyVerdict
  | [] => .ok .pass
  | ps :: rest =>
    if ps > maxPs then bitPatternsLoop n maxPs red rest
    else
      match checkFraction n (red (2 ^ ps - 1)) with
      | .error e => .error e
      | .ok (f :: fs) => .ok ⟨true, f :: fs, false⟩
      | .ok [] => bitPatternsLoop n maxPs red rest

/-- the default `pattern_sizes` of `CheckBitPatterns`. -/
def defaultPatternSizes : List Nat :=
  [1, 3, 5, 7, 9, 11, 13, 15] ++ [31, 63, 127, 255, 511] ++ [8, 16, 32, 64, 128, 256]

/-- `CheckBitPatterns` for one key. -/
def vBitPatterns (n : Nat) (patternSizes : List Nat) (red : Nat → List (List Int)) :
    Except PyErr KeyVerdict :=
  bitPatternsLoop n (bitLength n / 8) red patternSizes

/-- the denominator for limb size `wsize` and `psize`:
`(2**psize - 1) * (2**(psize*wsize) + 1) // (2**wsize + 1)`. -/
def permutedDenominator (wsize psize : Nat) : Nat :=
  (2 ^ psize - 1) * (2 ^ (psize * wsize) + 1) / (2 ^ wsize + 1)

/-- inner `for psize in range(3, wsize, 2)` loop: `.inl` = verdict reached (factored),
`.inr ()` = fell through or hit the `break` on size. -/
def permutedInner (n maxD wsize : Nat) (red : Nat → List (List Int)) :
    List Nat → Except PyErr (Option KeyVerdict)
  | [] => .ok none
  | psize :: rest =>
    let d := permutedDenominator wsize psize
    if bitLength d > maxD then .ok none
    else
      match checkFraction n (red d) with
      | .error e => .error e
      | .ok (f :: fs) => .ok (some ⟨true, f :: fs, false⟩)
      | .ok [] => permutedInner n maxD wsize red rest

/-- `range(3, wsize, 2)`. -/
def oddRange (wsize : Nat) : List Nat :=
  (List.range ((wsize - 3 + 1) / 2)).map (fun i => 3 + 2 * i)

def permutedOuter (n maxD : Nat) (red : Nat → List (List Int)) :
    List Nat → Except PyErr KeyVerdict
  | [] => .ok .pass
  | wsize :: rest =>
    match permutedInner n maxD wsize red (oddRange wsize) with
    | .error e => .error e
    | .ok (some v) => .ok v
    | .ok none => permutedOuter n maxD red rest

/-- `CheckPermutedBitPatterns` for one key. -/
def vPermuted (n : Nat) (red : Nat → List (List Int)) : Except PyErr KeyVerdict :=
  permutedOuter n (bitLength n / 8) red [8, 16, 32, 64]

/-- largest `e` with `p^e ≤ bound` (the exact value of `int(math.log(bound, p))` away from float
rounding at exact powers), for `p ≥ 2`, `bound ≥ 1`. -/
def floorLogAux (p bound : Nat) : Nat → Nat → Nat → Nat
  | 0, _, e => e
  | fuel + 1, acc, e => if acc * p ≤ bound then floorLogAux p bound fuel (acc * p) (e + 1) else e

def floorLog (p bound : Nat) : Nat := if p < 2 then 0 else floorLogAux p bound (bitLength bound) 1 0

/-- the constructor of `CheckPollardpm1`: with a user `bound`, every prime below it raised to
`int(math.log(bound, p))`; by default every prime below `2^20`, the first 150 of them raised to
`int(math.log(2^64, p))`. `exps` is the float oracle (the exponents actually used), one per
raised prime. -/
def pollardPowers (primes : List Nat) (exps : List Nat) : List Nat :=
  match primes, exps with
  | p :: ps, e :: es => p ^ e :: pollardPowers ps es
  | ps, [] => ps
  | [], _ => []

/-- Python truthiness of the constructor argument (`if bound:`): `None` AND `0` take the default
branch; every other (positive) bound is a user bound. -/
def pollardUserBound : Option Nat → Option Nat
  | some 0 => none
  | b => b

def pollardProduct (bound : Option Nat) (exps : List Nat) : Nat :=
  match pollardUserBound bound with
  | some b => fastProduct (pollardPowers (sieve b) exps)
  | none => fastProduct (pollardPowers (sieve (2 ^ 20)) exps)

/-- the exponents the documentation prescribes. -/
def pollardExpsDocumented (bound : Option Nat) : List Nat :=
  match pollardUserBound bound with
  | some b => (sieve b).map (fun p => floorLog p b)
  | none => ((sieve (2 ^ 20)).take 150).map (fun p => floorLog p (2 ^ 64))

/-- `CheckPollardpm1` for one key, given the constructor's product `m`. -/
def vPollard (n m gcdBound : Nat) : KeyVerdict :=
  let r := pollardPm1 n m gcdBound
  if r.1 then ⟨true, r.2, false⟩ else .pass

/-- `CheckLowHammingWeight` for one key: severity UNKNOWN when weak without factors. -/
def vLhw (n cutoff maxsteps : Nat) : KeyVerdict :=
  let r := checkLowHammingWeight n cutoff maxsteps
  if r.1 then ⟨true, r.2, r.2.isEmpty⟩ else .pass

/-- `CheckSmallUpperDifferences` for one key. -/
def vSud (n cbrt : Nat) : Except PyErr KeyVerdict :=
  match checkSmallUpperDifferences n cbrt with
  | .error e => .error e
  | .ok (some (f :: fs)) => .ok ⟨true, f :: fs, false⟩
  | .ok _ => .ok .pass

/-- `CheckUnseededRand`: flattened candidate sequence (for each listed value `p_0`, the
iteration order of the Python set `{p_0, p_0 | msb_1, p_0 | msb_11}`); first success wins. -/
def unseededLoop (n cbrt : Nat) : List Nat → Except PyErr KeyVerdict
  | [] => .ok .pass
  | p1 :: rest =>
    match factorWithGuess n p1 cbrt with
    | .error e => .error e
    | .ok (some (f :: fs)) => .ok ⟨true, f :: fs, false⟩
    | .ok _ => unseededLoop n cbrt rest

/-- the three variants tried for a listed value. -/
def unseededVariants (n p0 : Nat) : List Nat :=
  let psize := (bitLength n + 1) / 2
  let msb1 := 2 ^ (psize - 1)
  let msb11 := msb1 ||| 2 ^ (psize - 2)
  [p0, p0 ||| msb1, p0 ||| msb11]

def vUnseeded (n cbrt : Nat) (candidates : List Nat) : Except PyErr KeyVerdict :=
  unseededLoop n cbrt candidates

end Paranoid
