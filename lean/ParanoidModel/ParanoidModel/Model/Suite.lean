/-
Model/Suite.lean — the decision structure of randomness_tests/random_test_suite.py:
`State`, `TestStructure.__init__/Run/Failed/StateCount`, `TestSource`, `TestBitString`, and
`util.CombinedPValue`.  No Mathlib.

Numbers (p-values, levels) are an ABSTRACT type `α` with the operations the code applies to them
(`Num α`): `<`, `== 0`, the integer `0`, and the float tail of CombinedPValue
`Igamc(len(ps), sum(-math.log(p) for p in ps))` as an ORACLE that may raise (math.log of 0 or
of a negative number).  The theorems therefore hold for every comparison semantics, including
IEEE NaN (all comparisons false); the driver instantiates `α` with exact rationals + nan/±inf
and takes the recorded `Igamc` values from the line.

What the statistical tests return is an oracle too (`Outcome`): InsufficientDataError, a single
number (`float`/`int`), or a list of named p-values.
-/
import ParanoidModel.Model.Basic
namespace Paranoid.Suite

/-- operations on numbers used by the decision rule. -/
structure Num (α : Type) where
  lt : α → α → Bool
  eqZero : α → Bool
  zero : α
  igamc : List α → Except PyErr α

/-- Python `min(xs)` for a non-empty list: keeps the first of equal / incomparable elements. -/
def pyMin {α : Type} (N : Num α) (x : α) (xs : List α) : α :=
  xs.foldl (fun m y => if N.lt y m then y else m) x

/-- `util.CombinedPValue`. -/
def combinedPValue {α : Type} (N : Num α) : List α → Except PyErr α
  | [] => .error .valueError
  | [p] => .ok p
  | p :: q :: ps => if N.eqZero (pyMin N p (q :: ps)) then .ok N.zero else N.igamc (p :: q :: ps)

/-- `State` -/
inductive TState
  | passed | undecided | failed
  deriving DecidableEq, Repr

/-- a Python dict with string keys, in insertion order: `d[k] = v`. -/
def dictSet {β : Type} (k : String) (v : β) : List (String × β) → List (String × β)
  | [] => [(k, v)]
  | (k', v') :: rest => if k' = k then (k', v) :: rest else (k', v') :: dictSet k v rest

/-- `d.get(k)` -/
def dictGet {β : Type} (k : String) : List (String × β) → Option β
  | [] => none
  | (k', v') :: rest => if k' = k then some v' else dictGet k rest

/-- `TestStructure` (the fields the decision depends on). -/
structure TS (α : Type) where
  fail : α
  rep : α
  minRep : Nat
  pvalues : List (String × List α)
  combined : List (String × α)
  state : List (String × TState)
  finished : Bool
  runs : Nat

/-- `TestStructure.__init__` -/
def TS.init {α : Type} (fail rep : α) (minRep : Nat) : TS α :=
  ⟨fail, rep, minRep, [], [], [], false, 0⟩

/-- what the statistical test returned. -/
inductive Outcome (α : Type)
  | insufficient
  | scalar (p : α)
  | named (l : List (String × α))

/-- `self.p_values[name]` of the defaultdict. -/
def pvalsOf {α : Type} (ts : TS α) (name : String) : List α :=
  match dictGet name ts.pvalues with
  | some l => l
  | none => []

/-- state of a sub-test given all its p-values (raises if CombinedPValue does). -/
def stateOf {α : Type} (N : Num α) (fail rep : α) (pvals : List α) : Except PyErr (α × TState) :=
  match combinedPValue N pvals with
  | .error e => .error e
  | .ok pval =>
    if N.lt pval fail then .ok (pval, .failed)
    else
      match combinedPValue N (List.replicate pvals.length rep) with
      | .error e => .error e
      | .ok rp => .ok (pval, if N.lt rp pval then .passed else .undecided)

/-- body of the `for name, p_value in test_result` loop; the counter is `undecided`. -/
def runItem {α : Type} (N : Num α) (acc : TS α × Nat) (item : String × α) :
    Except PyErr (TS α × Nat) :=
  match stateOf N acc.1.fail acc.1.rep (pvalsOf acc.1 item.1 ++ [item.2]) with
  | .error e => .error e
  | .ok (pval, st) =>
    .ok ({ acc.1 with
            pvalues := dictSet item.1 (pvalsOf acc.1 item.1 ++ [item.2]) acc.1.pvalues
            combined := dictSet item.1 pval acc.1.combined
            state := dictSet item.1 st acc.1.state },
         if st = .undecided then acc.2 + 1 else acc.2)

def runItems {α : Type} (N : Num α) : TS α × Nat → List (String × α) → Except PyErr (TS α × Nat)
  | acc, [] => .ok acc
  | acc, it :: its =>
    match runItem N acc it with
    | .error e => .error e
    | .ok acc' => runItems N acc' its

/-- the named list a result is merged as: single numbers become `[("result", p)]`. -/
def asNamed {α : Type} : Outcome α → Option (List (String × α))
  | .insufficient => none
  | .scalar p => some [("result", p)]
  | .named l => some l

/-- `TestStructure.Run`: new structure and the returned `finished`. -/
def run {α : Type} (N : Num α) (ts : TS α) (o : Outcome α) : Except PyErr (TS α × Bool) :=
  match asNamed o with
  | none => .ok ({ ts with runs := ts.runs + 1, finished := true }, true)
  | some items =>
    match runItems N ({ ts with runs := ts.runs + 1 }, 0) items with
    | .error e => .error e
    | .ok (ts', undecided) =>
      .ok ({ ts' with finished := (undecided == 0) && decide (ts'.minRep ≤ ts'.runs) },
           (undecided == 0) && decide (ts'.minRep ≤ ts'.runs))

/-- `TestStructure.Failed` -/
def failed {α : Type} (ts : TS α) : Bool := ts.state.any (fun p => p.2 = TState.failed)

/-- `TestStructure.StateCount()[st]` -/
def stateCount {α : Type} (ts : TS α) (st : TState) : Nat := ts.state.countP (fun p => p.2 = st)

/-- one pass of the `for test_struct in tests` loop of TestSource: the structure at position
`i` is run on `outcome i` unless it is finished; returns the structures and `undecided`. -/
def runRound {α : Type} (N : Num α) (outcome : Nat → Outcome α) :
    Nat → List (TS α) → Except PyErr (List (TS α) × Nat)
  | _, [] => .ok ([], 0)
  | i, ts :: rest =>
    if ts.finished then
      match runRound N outcome (i + 1) rest with
      | .error e => .error e
      | .ok (rest', u) => .ok (ts :: rest', u)
    else
      match run N ts (outcome i) with
      | .error e => .error e
      | .ok (ts', fin) =>
        match runRound N outcome (i + 1) rest with
        | .error e => .error e
        | .ok (rest', u) => .ok (ts' :: rest', if fin then u else u + 1)

/-- the `while undecided:` loop of TestSource; `outcomes r i` is what the `i`-th test returns
in round `r`. `none`: the loop is still running when the fuel (number of scripted rounds) is
used up. -/
def sourceLoop {α : Type} (N : Num α) (outcomes : Nat → Nat → Outcome α) :
    Nat → Nat → List (TS α) → Nat → Except PyErr (Option (List (TS α)))
  | _, _, tests, 0 => .ok (some tests)
  | 0, _, _, _ + 1 => .ok none
  | fuel + 1, r, tests, _ + 1 =>
    match runRound N (outcomes r) 0 tests with
    | .error e => .error e
    | .ok (tests', u) => sourceLoop N outcomes fuel (r + 1) tests' u

/-- `TestSource` with `nTests` selected tests: final structures and the return value
(`none` inside: Python returns `None` when no test is selected). -/
def testSource {α : Type} (N : Num α) (nTests : Nat) (fail rep : α) (minRep : Nat)
    (outcomes : Nat → Nat → Outcome α) (fuel : Nat) :
    Except PyErr (Option (List (TS α) × Option Bool)) :=
  if nTests = 0 then .ok (some ([], none))
  else
    match sourceLoop N outcomes fuel 0 (List.replicate nTests (TS.init fail rep minRep)) nTests with
    | .error e => .error e
    | .ok none => .ok none
    | .ok (some tests) => .ok (some (tests, some (tests.any failed)))

/-- the `for test_struct in tests: test_struct.Run(bits, n)` loop of TestBitString. -/
def runAll {α : Type} (N : Num α) (outcome : Nat → Outcome α) :
    Nat → List (TS α) → Except PyErr (List (TS α))
  | _, [] => .ok []
  | i, ts :: rest =>
    match run N ts (outcome i) with
    | .error e => .error e
    | .ok (ts', _) =>
      match runAll N outcome (i + 1) rest with
      | .error e => .error e
      | .ok rest' => .ok (ts' :: rest')

/-- `TestBitString`: every selected test once, fail level = repeat level. -/
def testBitString {α : Type} (N : Num α) (nTests : Nat) (level : α) (outcome : Nat → Outcome α) :
    Except PyErr (List (TS α) × Bool) :=
  match runAll N outcome 0 (List.replicate nTests (TS.init level level 1)) with
  | .error e => .error e
  | .ok tests => .ok (tests, tests.any failed)

end Paranoid.Suite
