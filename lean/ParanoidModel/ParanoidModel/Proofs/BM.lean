/-
Proofs/BM.lean — lemmas about the executable model Model/BM.lean:

* closed forms: `lfsrCount` / `lfsrCountRepaired` = `Lfsr.cnt`, total `2^n`, relation with
  `lfsrLogProbability`;
* step structure of the native (`sb`/`sc`) loop;
* the simulation invariant `Sim` relating the big-integer registers `sb`, `sc` to the
  carry-less products `[X^k] (C·S)`, `[X^k] (B·S)` of the textbook state, giving
  `bmLength s len = textbookL (bitsOf s len)` for ALL inputs.
-/
import ParanoidModel.Model.BM
import ParanoidModel.Proofs.Lfsr
import Mathlib.Algebra.BigOperators.Group.Finset.Basic
import Mathlib.Algebra.BigOperators.Ring.Finset
namespace Paranoid
open Paranoid.Lfsr

/-! ### closed forms -/

theorem lfsrCountRepaired_eq_cnt (n m : Nat) : lfsrCountRepaired n m = cnt n m := by
  unfold lfsrCountRepaired cnt
  have e1 : ¬ ((m : Int) < 0 ∨ (n : Int) < 0 ∨ (m : Int) > n) ↔ m ≤ n := by omega
  have e2 : ((m : Int) = 0) ↔ m = 0 := by omega
  have e3 : ((m : Int) ≤ Int.fdiv n 2) ↔ m ≤ n / 2 := by
    rw [Int.fdiv_eq_ediv_of_nonneg _ (by omega)]; omega
  by_cases h0 : m = 0
  · subst h0; simp
  by_cases hmn : m ≤ n
  · rw [if_neg (e1.2 hmn), if_neg (by omega), if_neg h0]
    by_cases h2 : m ≤ n / 2
    · rw [if_pos (e3.2 h2), if_pos h2]
      congr 2
      omega
    · rw [if_neg (fun h => h2 (e3.1 h)), if_neg h2, if_pos hmn]
      congr 1
      omega
  · rw [if_pos (by omega), if_neg h0, if_neg (by omega), if_neg hmn]

theorem lfsrCount_eq_repaired (n m : Int) (hn : n ≠ 0) : lfsrCount n m = lfsrCountRepaired n m := by
  unfold lfsrCount lfsrCountRepaired
  have : (m < 0 ∨ n ≤ 0 ∨ m > n) ↔ (m < 0 ∨ n < 0 ∨ m > n) := by omega
  simp only [this]

theorem lfsrCount_eq_cnt (n m : Nat) (hn : 1 ≤ n) : lfsrCount n m = cnt n m := by
  rw [lfsrCount_eq_repaired _ _ (by omega), lfsrCountRepaired_eq_cnt]

theorem cnt_step2 (n m : Nat) (hm : 1 ≤ m) (hmn : m ≤ n) : cnt (n + 2) (m + 1) = 4 * cnt n m := by
  unfold cnt
  have a0 : m ≠ 0 := by omega
  have a1 : m + 1 ≠ 0 := by omega
  by_cases h : m ≤ n / 2
  · have a2 : m + 1 ≤ (n + 2) / 2 := by omega
    have a3 : m + 1 - 1 = (m - 1) + 1 := by omega
    simp only [a0, a1, h, a2, if_true, if_false, a3, Nat.pow_succ]
    omega
  · have a2 : ¬ m + 1 ≤ (n + 2) / 2 := by omega
    have a3 : m + 1 ≤ n + 2 := by omega
    have a4 : n + 2 - (m + 1) = (n - m) + 1 := by omega
    simp only [a0, a1, h, a2, a3, hmn, if_true, if_false, a4, Nat.pow_succ]
    omega

theorem cnt_total_step (n : Nat) (hn : 1 ≤ n) :
    (∑ m ∈ Finset.range (n + 3), cnt (n + 2) m) = 4 * ∑ m ∈ Finset.range (n + 1), cnt n m := by
  rw [Finset.sum_range_succ, Finset.sum_range_succ', Finset.sum_range_succ',
    Finset.sum_range_succ' (fun m => cnt n m)]
  have h1 : ∑ k ∈ Finset.range n, cnt (n + 2) (k + 1 + 1) = 4 * ∑ k ∈ Finset.range n, cnt n (k + 1) := by
    rw [Finset.mul_sum]
    apply Finset.sum_congr rfl
    intro k hk
    rw [Finset.mem_range] at hk
    exact cnt_step2 n (k + 1) (by omega) (by omega)
  rw [h1]
  have c0 : cnt (n + 2) 0 = 1 := by simp [cnt]
  have c0' : cnt n 0 = 1 := by simp [cnt]
  have c1 : cnt (n + 2) (0 + 1) = 2 := by
    simp [cnt]
  have c2 : cnt (n + 2) (n + 2) = 1 := by
    simp [cnt]
    omega
  rw [c0, c0', c1, c2]
  omega

theorem cnt_total (n : Nat) : (∑ m ∈ Finset.range (n + 1), cnt n m) = 2 ^ n := by
  induction n using Nat.strongRecOn with
  | _ n ih =>
    match n with
    | 0 => decide
    | 1 => decide
    | 2 => decide
    | n + 3 =>
      rw [cnt_total_step (n + 1) (by omega), ih (n + 1) (by omega)]
      rw [Nat.pow_succ, Nat.pow_succ, Nat.pow_succ, Nat.pow_succ]
      omega

/-! ### the native loop -/

theorem bmDisc_ne_zero_iff (st : BMState) : bmDisc st ≠ 0 ↔ st.sc.testBit st.m = true := by
  unfold bmDisc
  rw [Nat.one_shiftLeft]
  constructor
  · intro h
    by_contra hc
    apply h
    apply Nat.eq_of_testBit_eq
    intro i
    rw [Nat.testBit_and, Nat.testBit_two_pow, Nat.zero_testBit]
    by_cases e : st.m = i
    · subst e; simp at hc; simp [hc]
    · simp [e]
  · intro h h0
    have : (st.sc &&& 2 ^ st.m).testBit st.m = true := by
      rw [Nat.testBit_and, Nat.testBit_two_pow_self, h]; rfl
    rw [h0, Nat.zero_testBit] at this
    exact Bool.noConfusion this

/-- **Step structure of the native loop**: `deg_c` becomes `n + 1 - deg_c` exactly when the
discrepancy bit (bit `m` of `sc`) is 1 and `2·deg_c ≤ n`; otherwise it is unchanged. -/
theorem bmStep_degC (n : Nat) (st : BMState) :
    (bmStep n st).degC =
      if st.sc.testBit st.m = true ∧ 2 * st.degC ≤ n then n + 1 - st.degC else st.degC := by
  unfold bmStep
  by_cases hd : st.sc.testBit st.m = true
  · rw [if_pos ((bmDisc_ne_zero_iff st).2 hd)]
    unfold bmUpdate
    by_cases hl : 2 * st.degC ≤ n
    · rw [if_pos hl, if_pos ⟨hd, hl⟩]
    · rw [if_neg hl, if_neg (fun h => hl h.2)]
  · rw [if_neg (fun h => hd ((bmDisc_ne_zero_iff st).1 h)), if_neg (fun h => hd h.1)]

theorem bmLoop_succ (k n : Nat) (st : BMState) :
    bmLoop (k + 1) n st = bmStep (n + k) (bmLoop k n st) := by
  induction k generalizing n st with
  | zero => rfl
  | succ k ih =>
    show bmLoop (k + 1) (n + 1) (bmStep n st) = _
    rw [ih]
    have : n + 1 + k = n + (k + 1) := by omega
    rw [this]
    rfl

/-! ### the native loop simulates the textbook recursion -/

/-- Simulation invariant after `n` steps on the sequence `σ`:
`sc = (C·S) >> (n - m)` and `sb = (B·S) >> (n + 1 - x)` (bit `j` of a register is the
coefficient of `X^(shift + j)` in the carry-less product), `deg_c = L`. -/
structure Sim (σ : Nat → Bool) (n : Nat) (bm : BMState) (tb : TB) : Prop where
  deg : bm.degC = tb.L
  hm : bm.m ≤ n
  sc : ∀ j, bm.sc.testBit j = conv tb.C σ (n - bm.m + j)
  sb : ∀ j, bm.sb.testBit j = conv tb.B σ (n + 1 - tb.x + j)

theorem conv_one (σ : Nat → Bool) (k : Nat) : conv [true] σ k = σ k := by
  rw [conv_eq_disc (L := 0) rfl (fun i h => coef_one i h) (Nat.zero_le k)]
  simp

theorem sim_init (s : Nat) : Sim s.testBit 0 (bmInit s) tbInit where
  deg := rfl
  hm := Nat.le_refl _
  sc := fun j => by simp [bmInit, tbInit, conv_one]
  sb := fun j => by simp [bmInit, tbInit, conv_one]

theorem sim_step {σ : Nat → Bool} {n : Nat} {bm : BMState} {tb : TB} (h : Sim σ n bm tb)
    (hi : TBInv σ n tb) : Sim σ (n + 1) (bmStep n bm) (tbStep σ n tb) := by
  have hbit : bm.sc.testBit bm.m = conv tb.C σ n := by
    rw [h.sc]; congr 1; have := h.hm; omega
  have hx := hi.hxL
  unfold bmStep tbStep
  rw [disc_eq_conv hi]
  by_cases hd : conv tb.C σ n = true
  · rw [if_pos ((bmDisc_ne_zero_iff bm).2 (hbit.trans hd)), if_pos hd]
    have hsc1 : ∀ j, (bm.sc >>> (bm.m + 1)).testBit j = conv tb.C σ (n + 1 + j) := by
      intro j
      rw [Nat.testBit_shiftRight, h.sc]
      congr 1
      have := h.hm
      omega
    have hnew : ∀ j, ((bm.sc >>> (bm.m + 1)).testBit j ^^ bm.sb.testBit j)
        = conv (polyAdd tb.C (polyShift tb.x tb.B)) σ (n + 1 - 0 + j) := by
      intro j
      rw [hsc1, h.sb, conv_update]
      simp only [Nat.sub_zero]
      have a1 : tb.x ≤ n + 1 + j := by omega
      have a2 : n + 1 + j - tb.x = n + 1 - tb.x + j := by omega
      simp only [a1, decide_true, Bool.true_and, a2]
    unfold bmUpdate
    rw [h.deg]
    by_cases hl : 2 * tb.L ≤ n
    · rw [if_pos hl, if_pos hl]
      refine ⟨rfl, Nat.zero_le _, fun j => ?_, fun j => ?_⟩
      · show (bm.sb ^^^ bm.sc >>> (bm.m + 1)).testBit j = _
        rw [Nat.testBit_xor, Bool.xor_comm]
        exact hnew j
      · show (bm.sc >>> (bm.m + 1)).testBit j = conv tb.C σ (n + 1 + 1 - 1 + j)
        have e : n + 1 + 1 - 1 + j = n + 1 + j := by omega
        rw [e, hsc1]
    · rw [if_neg hl, if_neg hl]
      refine ⟨rfl, Nat.zero_le _, fun j => ?_, fun j => ?_⟩
      · show (bm.sc >>> (bm.m + 1) ^^^ bm.sb).testBit j = _
        rw [Nat.testBit_xor]
        exact hnew j
      · show bm.sb.testBit j = conv tb.B σ (n + 1 + 1 - (tb.x + 1) + j)
        rw [h.sb]; congr 1; omega
  · rw [if_neg (fun hne => hd (hbit.symm.trans ((bmDisc_ne_zero_iff bm).1 hne))), if_neg hd]
    refine ⟨h.deg, by have := h.hm; show bm.m + 1 ≤ n + 1; omega, fun j => ?_, fun j => ?_⟩
    · show bm.sc.testBit j = conv tb.C σ (n + 1 - (bm.m + 1) + j)
      rw [h.sc]; congr 1; omega
    · show bm.sb.testBit j = conv tb.B σ (n + 1 + 1 - (tb.x + 1) + j)
      rw [h.sb]; congr 1; omega

theorem sim_run (s n : Nat) : Sim s.testBit n (bmLoop n 0 (bmInit s)) (tbRun s.testBit n) := by
  induction n with
  | zero => exact sim_init s
  | succ n ih =>
    rw [bmLoop_succ, Nat.zero_add]
    exact sim_step ih (tbInv_run _ n)

theorem bitsOf_length (s len : Nat) : (bitsOf s len).length = len := by simp [bitsOf]

theorem sbit_bitsOf (s len k : Nat) (h : k < len) : sbit (bitsOf s len) k = s.testBit k := by
  simp [sbit, bitsOf, h]

/-- **The native `sb`/`sc` loop computes the textbook Berlekamp–Massey length** — for every
`s` and every `len`, no size bound. -/
theorem bmLength_eq_textbookL (s len : Nat) : bmLength s len = textbookL (bitsOf s len) := by
  unfold bmLength textbookL
  rw [bitsOf_length, (sim_run s len).deg]
  congr 1
  exact (tbRun_congr (fun k hk => sbit_bitsOf s len k hk)).symm

/-! ### the count theorem transported to the model -/

theorem bitsOf_succ (s n : Nat) : bitsOf s (n + 1) = bitsOf s n ++ [s.testBit n] := by
  simp [bitsOf, List.range_succ]

theorem bitsOf_congr {a b n : Nat} (h : ∀ j, j < n → a.testBit j = b.testBit j) :
    bitsOf a n = bitsOf b n := by
  unfold bitsOf
  apply List.map_congr_left
  intro j hj
  exact h j (List.mem_range.1 hj)

theorem bitsOf_low (s n : Nat) (h : s < 2 ^ n) : bitsOf s (n + 1) = bitsOf s n ++ [false] := by
  rw [bitsOf_succ, Nat.testBit_lt_two_pow h]

theorem bitsOf_high (s n : Nat) (h : s < 2 ^ n) :
    bitsOf (2 ^ n + s) (n + 1) = bitsOf s n ++ [true] := by
  rw [bitsOf_succ, Nat.testBit_two_pow_add_eq, Nat.testBit_lt_two_pow h,
    bitsOf_congr (fun j hj => Nat.testBit_two_pow_add_gt hj s)]
  rfl

theorem flatMap_pair_perm {α β : Type} (f g : α → β) (l : List α) :
    (l.flatMap fun a => [f a, g a]).Perm (l.map f ++ l.map g) := by
  induction l with
  | nil => exact List.Perm.refl _
  | cons a l ih =>
    simp only [List.flatMap_cons, List.map_cons, List.cons_append, List.nil_append]
    refine List.Perm.cons _ ?_
    refine (List.Perm.cons _ ih).trans ?_
    exact (List.perm_middle).symm

/-- the encodings `bitsOf s n`, `s < 2^n`, enumerate every bit sequence of length `n` once. -/
theorem bitsOf_range_perm (n : Nat) :
    ((List.range (2 ^ n)).map fun s => bitsOf s n).Perm (allSeqs n) := by
  induction n with
  | zero => simp [allSeqs, bitsOf]
  | succ n ih =>
    have e : 2 ^ (n + 1) = 2 ^ n + 2 ^ n := by rw [Nat.pow_succ]; omega
    rw [e, List.range_add, List.map_append, List.map_map, allSeqs]
    refine List.Perm.trans ?_ (flatMap_pair_perm (· ++ [false]) (· ++ [true]) (allSeqs n)).symm
    have h1 : (List.range (2 ^ n)).map (fun s => bitsOf s (n + 1))
        = ((List.range (2 ^ n)).map fun s => bitsOf s n).map (· ++ [false]) := by
      rw [List.map_map]
      apply List.map_congr_left
      intro s hs
      exact bitsOf_low s n (List.mem_range.1 hs)
    have h2 : (List.range (2 ^ n)).map ((fun s => bitsOf s (n + 1)) ∘ fun x => 2 ^ n + x)
        = ((List.range (2 ^ n)).map fun s => bitsOf s n).map (· ++ [true]) := by
      rw [List.map_map]
      apply List.map_congr_left
      intro s hs
      exact bitsOf_high s n (List.mem_range.1 hs)
    rw [h1, h2]
    exact List.Perm.append (ih.map _) (ih.map _)

/-- count theorem for the MODEL: among the `2^n` values `s < 2^n`, exactly `cnt n m` have
`bmLength s n = m`. -/
theorem bmLength_count (n m : Nat) :
    (List.range (2 ^ n)).countP (fun s => decide (bmLength s n = m)) = cnt n m := by
  rw [← countL_eq_cnt, countL, ← (bitsOf_range_perm n).countP_eq, List.countP_map]
  apply List.countP_congr
  intro s _
  simp [bmLength_eq_textbookL]

theorem bitsOf_mod (s len : Nat) : bitsOf (s % 2 ^ len) len = bitsOf s len :=
  bitsOf_congr (fun j hj => by rw [Nat.testBit_mod_two_pow]; simp [hj])

end Paranoid
