/-
Proofs/BMBounded.lean — BOUNDED kernel enumerations for C14 (slow `decide +kernel` facts kept in
their own module so that they are evaluated once and in parallel with the rest).
No Mathlib needed: the three definitions are executable.
-/
import ParanoidModel.Model.BM
import ParanoidModel.Spec.Lfsr
namespace Paranoid
open Paranoid.Lfsr

/-- native loop = textbook recursion = brute-force shortest LFSR on every sequence of length
`≤ N` (Boolean, evaluated by the kernel). -/
def agreeUpTo (N : Nat) : Bool :=
  (List.range (N + 1)).all fun len => (List.range (2 ^ len)).all fun s =>
    bmLength s len == textbookL (bitsOf s len) &&
      textbookL (bitsOf s len) == shortestLfsr (bitsOf s len)

/-- native loop = textbook recursion on every sequence of length `≤ N`. -/
def agreeNativeTextbookUpTo (N : Nat) : Bool :=
  (List.range (N + 1)).all fun len => (List.range (2 ^ len)).all fun s =>
    bmLength s len == textbookL (bitsOf s len)

set_option maxRecDepth 100000 in
theorem agreeUpTo_8 : agreeUpTo 8 = true := by decide +kernel

set_option maxRecDepth 100000 in
theorem agreeNativeTextbookUpTo_10 : agreeNativeTextbookUpTo 10 = true := by decide +kernel

end Paranoid
