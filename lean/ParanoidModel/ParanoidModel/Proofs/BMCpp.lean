/-
Proofs/BMCpp.lean — the word-level C++ model (Model/BMCpp.lean) SIMULATES the big-integer routine
`bmLength` of Model/BM.lean (whose correctness is Props/C14.lean).

* `eStep` / `eLoop`: the "eager" big-integer machine (`sc` shifted at every step, as the C++ code
  does, instead of the pending shift count `m` of `LinearComplexityNative`); `eLoop_L`: it
  computes `bmLength`.
* `val`: value of a vector of 64-bit words; `val_shr1`, `val_xorw`: the word loops are `/ 2` and
  `^^^` on values.
* packing: `val_wordsOfBytes`.
* portable variant: `PRel`, `pStep_sim`, `lfsrLengthImplPortable_eq`.
-/
import ParanoidModel.Model.BMCpp
import ParanoidModel.Proofs.BM
namespace Paranoid.BMCpp
open Paranoid

/-! ### the eager big-integer machine -/

structure EState where
  P : Nat
  Q : Nat
  L : Nat

def eStep (i : Nat) (st : EState) : EState :=
  if st.Q.testBit 0 = true then
    if 2 * st.L ≤ i then { P := st.Q >>> 1, Q := st.P ^^^ (st.Q >>> 1), L := i + 1 - st.L }
    else { P := st.P, Q := (st.Q >>> 1) ^^^ st.P, L := st.L }
  else { P := st.P, Q := st.Q >>> 1, L := st.L }

def eLoop : Nat → Nat → EState → EState
  | 0, _, st => st
  | k + 1, i, st => eLoop k (i + 1) (eStep i st)

/-- relation between the lazy registers of `LinearComplexityNative` and the eager machine. -/
structure ERel (e : EState) (bm : BMState) : Prop where
  p : e.P = bm.sb
  q : e.Q = bm.sc >>> bm.m
  l : e.L = bm.degC

theorem eRel_step {e : EState} {bm : BMState} (h : ERel e bm) (i : Nat) :
    ERel (eStep i e) (bmStep i bm) := by
  have hbit : e.Q.testBit 0 = bm.sc.testBit bm.m := by
    rw [h.q, Nat.testBit_shiftRight]; rfl
  have hsh : e.Q >>> 1 = bm.sc >>> (bm.m + 1) := by
    rw [h.q, ← Nat.shiftRight_add]
  unfold eStep bmStep
  by_cases hd : bm.sc.testBit bm.m = true
  · rw [if_pos (hbit.trans hd), if_pos ((bmDisc_ne_zero_iff bm).2 hd)]
    unfold bmUpdate
    rw [h.l]
    by_cases hl : 2 * bm.degC ≤ i
    · rw [if_pos hl, if_pos hl]
      exact ⟨hsh, by simp [hsh, h.p], rfl⟩
    · rw [if_neg hl, if_neg hl]
      exact ⟨h.p, by simp [hsh, h.p], rfl⟩
  · rw [if_neg (fun hh => hd (hbit.symm.trans hh)),
      if_neg (fun hh => hd ((bmDisc_ne_zero_iff bm).1 hh))]
    exact ⟨h.p, hsh, h.l⟩

theorem eRel_loop (k : Nat) : ∀ (i : Nat) {e : EState} {bm : BMState}, ERel e bm →
    ERel (eLoop k i e) (bmLoop k i bm) := by
  induction k with
  | zero => intro i e bm h; exact h
  | succ k ih => intro i e bm h; exact ih (i + 1) (eRel_step h i)

theorem eLoop_L (s n : Nat) : (eLoop n 0 ⟨s, s, 0⟩).L = bmLength s n :=
  (eRel_loop n 0 (e := ⟨s, s, 0⟩) (bm := bmInit s) ⟨rfl, rfl, rfl⟩).l


def val : Words → Nat
  | [] => 0
  | w :: ws => w.toNat + 2 ^ 64 * val ws

@[simp] theorem val_nil : val [] = 0 := rfl
theorem val_cons (w : UInt64) (ws : Words) : val (w :: ws) = w.toNat + 2 ^ 64 * val ws := rfl

theorem val_lt (ws : Words) : val ws < 2 ^ (64 * ws.length) := by
  induction ws with
  | nil => simp
  | cons w ws ih =>
    rw [val_cons, List.length_cons, Nat.mul_succ, Nat.pow_add]
    have := w.toNat_lt
    calc w.toNat + 2 ^ 64 * val ws < 2 ^ 64 + 2 ^ 64 * val ws := by omega
      _ = 2 ^ 64 * (val ws + 1) := by rw [Nat.mul_succ]; omega
      _ ≤ 2 ^ 64 * 2 ^ (64 * ws.length) := Nat.mul_le_mul_left _ ih
      _ = _ := Nat.mul_comm _ _

/-- xor of two numbers split at bit `k`. -/
theorem xor_split {k x x' : Nat} (y y' : Nat) (hx : x < 2 ^ k) (hx' : x' < 2 ^ k) :
    (x + 2 ^ k * y) ^^^ (x' + 2 ^ k * y') = (x ^^^ x') + 2 ^ k * (y ^^^ y') := by
  apply Nat.eq_of_testBit_eq
  intro j
  rw [Nat.testBit_xor, Nat.add_comm x, Nat.add_comm x', Nat.add_comm (x ^^^ x'),
    Nat.testBit_two_pow_mul_add _ hx, Nat.testBit_two_pow_mul_add _ hx',
    Nat.testBit_two_pow_mul_add _ (Nat.xor_lt_two_pow hx hx')]
  by_cases h : j < k <;> simp [h]

theorem xor_mul_two_pow {k a : Nat} (b : Nat) (ha : a < 2 ^ k) : a ^^^ (2 ^ k * b) = a + 2 ^ k * b := by
  have := xor_split (k := k) (x := a) (x' := 0) 0 b ha (Nat.two_pow_pos k)
  simpa using this

theorem val_xorw : ∀ (a b : Words), a.length = b.length → val (xorw a b) = val a ^^^ val b
  | [], [], _ => by simp [xorw]
  | x :: a, y :: b, h => by
    have ih := val_xorw a b (by simpa using h)
    unfold xorw at ih ⊢
    rw [List.zipWith_cons_cons, val_cons, val_cons, val_cons, ih, UInt64.toNat_xor,
      xor_split _ _ x.toNat_lt y.toNat_lt]
  | [], _ :: _, h => by simp at h
  | _ :: _, [], h => by simp at h

theorem length_xorw (a b : Words) (h : a.length = b.length) : (xorw a b).length = a.length := by
  simp [xorw, h]

theorem length_shr1 : ∀ ws : Words, (shr1 ws).length = ws.length
  | [] => rfl
  | [_] => rfl
  | _ :: w' :: ws => by
    rw [shr1, List.length_cons, length_shr1 (w' :: ws)]
    rfl

theorem word_shr_or (w w' : UInt64) :
    ((w >>> 1) ||| (w' <<< 63)).toNat = w.toNat / 2 + (w'.toNat % 2) * 2 ^ 63 := by
  rw [UInt64.toNat_or, UInt64.toNat_shiftRight, UInt64.toNat_shiftLeft]
  have e1 : (1 : UInt64).toNat % 64 = 1 := by decide
  have e63 : (63 : UInt64).toNat % 64 = 63 := by decide
  rw [e1, e63, Nat.shiftRight_eq_div_pow, Nat.shiftLeft_eq, Nat.pow_one]
  have hw := w.toNat_lt
  have h2 : w'.toNat * 2 ^ 63 % 2 ^ 64 = 2 ^ 63 * (w'.toNat % 2) := by omega
  rw [h2, Nat.or_comm, ← Nat.two_pow_add_eq_or_of_lt (by omega)]
  omega

theorem val_shr1 : ∀ ws : Words, val (shr1 ws) = val ws / 2
  | [] => rfl
  | [w] => by
    simp only [shr1, val_cons, val_nil, UInt64.toNat_shiftRight]
    have e1 : (1 : UInt64).toNat % 64 = 1 := by decide
    rw [e1, Nat.shiftRight_eq_div_pow]
    omega
  | w :: w' :: ws => by
    have ih := val_shr1 (w' :: ws)
    rw [shr1, val_cons, ih, word_shr_or]
    simp only [val_cons]
    generalize val ws = V
    have hw := w.toNat_lt
    have hw' := w'.toNat_lt
    omega

theorem word_and_one (w : UInt64) : (w &&& 1 = 1) ↔ w.toNat.testBit 0 = true := by
  rw [← UInt64.toNat_inj, UInt64.toNat_and]
  have e1 : (1 : UInt64).toNat = 1 := by decide
  rw [e1, Nat.and_one_is_mod, Nat.testBit_zero]
  simp

theorem val_testBit_zero (w : UInt64) (ws : Words) :
    (val (w :: ws)).testBit 0 = w.toNat.testBit 0 := by
  rw [val_cons, Nat.testBit_zero, Nat.testBit_zero]
  have : (w.toNat + 2 ^ 64 * val ws) % 2 = w.toNat % 2 := by omega
  rw [this]


/-! ### packing -/

theorem byte_shift (b : UInt8) (k : Nat) (hk : k < 8) :
    (b.toUInt64 <<< (8 * k).toUInt64).toNat = 2 ^ (8 * k) * b.toNat := by
  rw [UInt64.toNat_shiftLeft, UInt8.toNat_toUInt64]
  have e : (8 * k).toUInt64.toNat % 64 = 8 * k := by
    show (8 * k) % 2 ^ 64 % 64 = 8 * k
    omega
  rw [e, Nat.shiftLeft_eq, Nat.mul_comm]
  apply Nat.mod_eq_of_lt
  have hb : b.toNat < 2 ^ 8 := b.toNat_lt
  calc 2 ^ (8 * k) * b.toNat < 2 ^ (8 * k) * 2 ^ 8 := Nat.mul_lt_mul_of_pos_left hb (Nat.two_pow_pos _)
    _ = 2 ^ (8 * k + 8) := (Nat.pow_add _ _ _).symm
    _ ≤ 2 ^ 64 := Nat.pow_le_pow_right (by omega) (by omega)

theorem val_packLoop : ∀ (bs : List UInt8) (i : Nat) (cur : UInt64),
    cur.toNat < 2 ^ (8 * (i % 8)) →
    val (packLoop bs i cur) = cur.toNat + 2 ^ (8 * (i % 8)) * natOfBytes bs
  | [], i, cur, h => by
    unfold packLoop
    by_cases h0 : i % 8 = 0
    · rw [if_pos h0]
      rw [h0] at h
      simp only [Nat.mul_zero, Nat.pow_zero] at h
      simp [natOfBytes]; omega
    · rw [if_neg h0]; simp [natOfBytes, val_cons]
  | b :: bs, i, cur, h => by
    have hk : i % 8 < 8 := Nat.mod_lt _ (by omega)
    have hx : (cur ^^^ (b.toUInt64 <<< (8 * (i % 8)).toUInt64)).toNat
        = cur.toNat + 2 ^ (8 * (i % 8)) * b.toNat := by
      rw [UInt64.toNat_xor, byte_shift b _ hk, xor_mul_two_pow _ h]
    have hb : b.toNat < 2 ^ 8 := b.toNat_lt
    unfold packLoop
    by_cases h7 : i % 8 = 7
    · rw [if_pos h7, val_cons, hx]
      have h1 : (i + 1) % 8 = 0 := by omega
      have ih := val_packLoop bs (i + 1) 0 (by rw [h1]; decide)
      rw [ih, h1, h7, natOfBytes]
      have : (0 : UInt64).toNat = 0 := rfl
      rw [this]
      generalize natOfBytes bs = N
      omega
    · rw [if_neg h7]
      have h1 : (i + 1) % 8 = i % 8 + 1 := by omega
      have hlt : (cur ^^^ (b.toUInt64 <<< (8 * (i % 8)).toUInt64)).toNat < 2 ^ (8 * ((i + 1) % 8)) := by
        rw [hx, h1, Nat.mul_succ, Nat.pow_add]
        calc cur.toNat + 2 ^ (8 * (i % 8)) * b.toNat < 2 ^ (8 * (i % 8)) + 2 ^ (8 * (i % 8)) * b.toNat := by omega
          _ = 2 ^ (8 * (i % 8)) * (b.toNat + 1) := by rw [Nat.mul_succ]; omega
          _ ≤ 2 ^ (8 * (i % 8)) * 2 ^ 8 := Nat.mul_le_mul_left _ hb
      rw [val_packLoop bs (i + 1) _ hlt, hx, h1, natOfBytes, Nat.mul_succ, Nat.pow_add]
      generalize natOfBytes bs = N
      generalize 2 ^ (8 * (i % 8)) = T
      have e8 : (2 : Nat) ^ 8 = 256 := rfl
      rw [e8, Nat.mul_add, ← Nat.mul_assoc, Nat.add_assoc]

/-- **packing lemma**: the words built by `LfsrLength` carry the bit string of the bytes. -/
theorem val_wordsOfBytes (seq : List UInt8) : val (wordsOfBytes seq) = natOfBytes seq := by
  unfold wordsOfBytes
  rw [val_packLoop seq 0 0 (by decide)]
  simp

theorem length_packLoop : ∀ (bs : List UInt8) (i : Nat) (cur : UInt64),
    (packLoop bs i cur).length = (i % 8 + bs.length + 7) / 8
  | [], i, cur => by
    unfold packLoop
    by_cases h0 : i % 8 = 0
    · rw [if_pos h0]; simp; omega
    · rw [if_neg h0]; simp; omega
  | b :: bs, i, cur => by
    unfold packLoop
    by_cases h7 : i % 8 = 7
    · rw [if_pos h7, List.length_cons, length_packLoop bs (i + 1) 0, List.length_cons]; omega
    · rw [if_neg h7, length_packLoop bs (i + 1) _, List.length_cons]; omega

/-- `(seq.size() + 7) / 8` words. -/
theorem length_wordsOfBytes (seq : List UInt8) : (wordsOfBytes seq).length = (seq.length + 7) / 8 := by
  unfold wordsOfBytes
  rw [length_packLoop]; simp


/-- bit `k` of the sequence is bit `k mod 8` of byte `k / 8`. -/
theorem natOfBytes_testBit : ∀ (bs : List UInt8) (k : Nat),
    (natOfBytes bs).testBit k = ((bs[k / 8]?).map (fun b => b.toNat.testBit (k % 8))).getD false
  | [], k => by simp [natOfBytes]
  | b :: bs, k => by
    have hb : b.toNat < 2 ^ 8 := b.toNat_lt
    rw [natOfBytes, Nat.add_comm, show (256 : Nat) = 2 ^ 8 from rfl, Nat.testBit_two_pow_mul_add _ hb]
    by_cases hk : k < 8
    · have h0 : k / 8 = 0 := by omega
      have h1 : k % 8 = k := by omega
      simp [hk, h0, h1]
    · rw [if_neg hk, natOfBytes_testBit bs (k - 8)]
      have h0 : k / 8 = (k - 8) / 8 + 1 := by omega
      have h1 : (k - 8) % 8 = k % 8 := by omega
      rw [h0, h1]
      simp

theorem natOfBytes_lt (bs : List UInt8) : natOfBytes bs < 2 ^ (8 * bs.length) := by
  induction bs with
  | nil => simp [natOfBytes]
  | cons b bs ih =>
    have hb : b.toNat < 2 ^ 8 := b.toNat_lt
    rw [natOfBytes, List.length_cons, Nat.mul_succ, Nat.pow_add]
    generalize natOfBytes bs = N at ih ⊢
    generalize 2 ^ (8 * bs.length) = T at ih ⊢
    have : (2 : Nat) ^ 8 = 256 := rfl
    rw [this] at hb ⊢
    omega

/-! ### portable variant -/

/-- simulation invariant of the portable variant: the word vectors ARE the big integers of the
eager machine. -/
structure PRel (p : PState) (e : EState) : Prop where
  sb : val p.sb = e.P
  sc : val p.sc = e.Q
  len : p.len = e.L
  size : p.sb.length = p.sc.length

theorem pStep_sim {p : PState} {e : EState} (h : PRel p e) (hne : p.sc ≠ []) (i : Nat) :
    ∃ p', pStep i p = some p' ∧ PRel p' (eStep i e) ∧ p'.sc.length = p.sc.length := by
  unfold pStep eStep
  cases hsc : p.sc with
  | nil => exact absurd hsc hne
  | cons w ws =>
    have hbit : e.Q.testBit 0 = w.toNat.testBit 0 := by
      rw [← h.sc, hsc, val_testBit_zero]
    have hshr : val (shr1 (w :: ws)) = e.Q >>> 1 := by
      rw [val_shr1, ← hsc, h.sc, Nat.shiftRight_eq_div_pow, Nat.pow_one]
    have hlen : (shr1 (w :: ws)).length = p.sb.length := by
      rw [length_shr1, ← hsc, h.size]
    have hsz := h.size
    rw [hsc] at hsz
    simp only
    by_cases hd : w.toNat.testBit 0 = true
    · rw [if_pos ((word_and_one w).2 hd), if_pos (hbit.trans hd)]
      unfold pUpdate
      rw [h.len]
      by_cases hl : 2 * e.L ≤ i
      · rw [if_pos hl, if_pos hl]
        refine ⟨_, rfl, ⟨hshr, ?_, rfl, ?_⟩, ?_⟩
        · show val (xorw p.sb (shr1 (w :: ws))) = _
          rw [val_xorw _ _ hlen.symm, hshr, h.sb]
        · show (shr1 (w :: ws)).length = (xorw p.sb (shr1 (w :: ws))).length
          rw [length_xorw _ _ hlen.symm, hlen]
        · show (xorw p.sb (shr1 (w :: ws))).length = _
          rw [length_xorw _ _ hlen.symm, hsz]
      · rw [if_neg hl, if_neg hl]
        refine ⟨_, rfl, ⟨h.sb, ?_, rfl, ?_⟩, ?_⟩
        · show val (xorw (shr1 (w :: ws)) p.sb) = _
          rw [val_xorw _ _ hlen, hshr, h.sb]
        · show p.sb.length = (xorw (shr1 (w :: ws)) p.sb).length
          rw [length_xorw _ _ hlen, hlen]
        · show (xorw (shr1 (w :: ws)) p.sb).length = _
          rw [length_xorw _ _ hlen, length_shr1]
    · rw [if_neg (fun hh => hd ((word_and_one w).1 hh)), if_neg (fun hh => hd (hbit.symm.trans hh))]
      refine ⟨_, rfl, ⟨h.sb, hshr, h.len, hlen.symm⟩, ?_⟩
      show (shr1 (w :: ws)).length = _
      rw [length_shr1]

theorem pLoop_sim (k : Nat) : ∀ (i : Nat) {p : PState} {e : EState}, PRel p e →
    (k = 0 ∨ p.sc ≠ []) → ∃ p', pLoop k i p = some p' ∧ PRel p' (eLoop k i e) := by
  induction k with
  | zero => intro i p e h _; exact ⟨p, rfl, h⟩
  | succ k ih =>
    intro i p e h hne
    have hne : p.sc ≠ [] := by
      rcases hne with h0 | h0
      · omega
      · exact h0
    obtain ⟨p1, h1, hr, hl⟩ := pStep_sim h hne i
    have hne1 : p1.sc ≠ [] := by
      intro h0
      rw [h0] at hl
      exact hne (List.length_eq_zero_iff.1 hl.symm)
    obtain ⟨p2, h2, hr2⟩ := ih (i + 1) hr (Or.inr hne1)
    refine ⟨p2, ?_, hr2⟩
    show (match pStep i p with | none => none | some st' => pLoop k (i + 1) st') = some p2
    rw [h1]
    exact h2

/-- **portable simulation theorem** (word vectors): for every word vector and every `n` — with
`n = 0` if the vector is empty — the portable `LfsrLengthImpl` performs no out-of-bounds access
and returns `LinearComplexityNative(val seq, n)`. -/
theorem lfsrLengthImplPortable_eq (seq : Words) (n : Nat) (h : n = 0 ∨ seq ≠ []) :
    lfsrLengthImplPortable seq n = some (bmLength (val seq) n) := by
  unfold lfsrLengthImplPortable
  obtain ⟨p', h1, hr⟩ := pLoop_sim n 0 (p := { sb := seq, sc := seq, len := 0 })
    (e := ⟨val seq, val seq, 0⟩) ⟨rfl, rfl, rfl, rfl⟩ h
  rw [h1, Option.map_some, hr.len, eLoop_L]

end Paranoid.BMCpp
