/-
Proofs/BMCppBounded.lean — BOUNDED kernel evaluations of the word-level C++ model
(Model/BMCpp.lean) against the big-integer routine `bmLength`. Redundant with the simulation
theorems of Props/C14Cpp.lean (which hold for ALL inputs); kept as an independent cross-check of
the executable definitions, in their own module. No Mathlib.
-/
import ParanoidModel.Model.BM
import ParanoidModel.Model.BMCpp
namespace Paranoid.BMCpp
open Paranoid

/-- the `(len + 7) / 8` little-endian bytes of `s` (`int.to_bytes(s, size, "little")`). -/
def bytesOfNat : Nat → Nat → List UInt8
  | 0, _ => []
  | k + 1, s => (s % 256).toUInt8 :: bytesOfNat k (s / 256)

/-- `LfsrLengthStr` of variant `v` = `bmLength` on one `(s, len)`. -/
def agreeOn (v : Variant) (s len : Nat) : Bool :=
  lfsrLengthStr v (bytesOfNat ((len + 7) / 8) s) len == some (bmLength s len : Int)

/-- every sequence of length `len`, both variants. -/
def cppAgreeLen (len : Nat) : Bool :=
  (List.range (2 ^ len)).all fun s => agreeOn .portable s len && agreeOn .clmul s len

/-- every sequence of length `≤ N`, both variants. -/
def cppAgreeUpTo (N : Nat) : Bool := (List.range (N + 1)).all cppAgreeLen

theorem cppAgreeUpTo_succ (N : Nat) :
    cppAgreeUpTo (N + 1) = (cppAgreeUpTo N && cppAgreeLen (N + 1)) := by
  unfold cppAgreeUpTo
  rw [List.range_succ, List.all_append]
  simp

/-- hand-picked multi-word patterns at the lengths around the 64-bit word boundaries: all zeros,
all ones, a single one at the first / last / word-boundary positions, an alternating pattern, a
zero run followed by ones, and two fixed "random" constants. -/
def boundaryPatterns (len : Nat) : List Nat :=
  [0, 2 ^ len - 1, 1, 2 ^ (len - 1), 2 ^ 62 % 2 ^ len, 2 ^ 63 % 2 ^ len, 2 ^ 64 % 2 ^ len,
   2 ^ 127 % 2 ^ len, 0xAAAAAAAAAAAAAAAAAAAAAAAAAAAAAAAAA % 2 ^ len,
   (2 ^ len - 1) / 2 ^ 31 * 2 ^ 31, (2 ^ len - 1) / 2 ^ 64 * 2 ^ 64,
   0x1B7E151628AED2A6ABF7158809CF4F3C762E7160F38B4DA56A784D9045190CFEF % 2 ^ len,
   0x243F6A8885A308D313198A2E03707344A4093822299F31D0082EFA98EC4E6C89 % 2 ^ len]

def cppAgreeBoundaryLen (len : Nat) : Bool :=
  (boundaryPatterns len).all fun s => agreeOn .portable s len && agreeOn .clmul s len

def cppAgreeBoundary : Bool := [63, 64, 65, 127, 128, 129].all cppAgreeBoundaryLen

set_option maxRecDepth 100000 in
theorem cppAgreeUpTo_8 : cppAgreeUpTo 8 = true := by decide +kernel

set_option maxRecDepth 100000 in
theorem cppAgreeLen_9 : cppAgreeLen 9 = true := by decide +kernel

set_option maxRecDepth 100000 in
theorem cppAgreeLen_10 : cppAgreeLen 10 = true := by decide +kernel

theorem cppAgreeUpTo_10 : cppAgreeUpTo 10 = true := by
  rw [cppAgreeUpTo_succ, cppAgreeUpTo_succ, cppAgreeUpTo_8, cppAgreeLen_9, cppAgreeLen_10]
  rfl

theorem cppAgreeBoundary_63 : cppAgreeBoundaryLen 63 = true := by decide +kernel
theorem cppAgreeBoundary_64 : cppAgreeBoundaryLen 64 = true := by decide +kernel
theorem cppAgreeBoundary_65 : cppAgreeBoundaryLen 65 = true := by decide +kernel
theorem cppAgreeBoundary_127 : cppAgreeBoundaryLen 127 = true := by decide +kernel
theorem cppAgreeBoundary_128 : cppAgreeBoundaryLen 128 = true := by decide +kernel
theorem cppAgreeBoundary_129 : cppAgreeBoundaryLen 129 = true := by decide +kernel

theorem cppAgreeBoundary_true : cppAgreeBoundary = true := by
  simp [cppAgreeBoundary, cppAgreeBoundary_63, cppAgreeBoundary_64, cppAgreeBoundary_65,
    cppAgreeBoundary_127, cppAgreeBoundary_128, cppAgreeBoundary_129]

end Paranoid.BMCpp
