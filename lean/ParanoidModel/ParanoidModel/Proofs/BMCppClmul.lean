/-
Proofs/BMCppClmul.lean — the CLMUL variant of the word-level C++ model simulates the eager
big-integer machine `eStep` (hence `bmLength`), 64 steps per block.

* `clMul a p`: carry-less product of naturals (GF(2)[X] product of the binary expansions);
  algebra (`clMul_xor_left/right`, `clMul_double_left`, `clMul_shiftLeft_left/right`, `clMul_lt`);
* `clmul_spec`: the model of the intrinsic computes it: `hi·2^64 + lo = x ⊛ y`;
* `jStep`: the eager machine together with the coefficient polynomials `A, B, C, D`;
  `jLoop_lin`: after `i` steps `P_i = (A⊛P ⊕ B⊛Q) >> i`, `Q_i = (C⊛P ⊕ D⊛Q) >> i`;
  `eLoop_mod` / `jLoop_coef_eq`: the first `r` steps depend only on the low `r` bits;
* `innerLoop_sim`: the `uint64_t` bit loop (with `carry_a`, `carry_c`) is that machine on the low
  words; `clAccum_val`, `clAssemble_val`: the word loop with four `clmul`s is `(A⊛sb ⊕ B⊛sc) >> 64`;
* `clBlock_sim`: ONE BLOCK OF THE CLMUL LOOP = 64 APPLICATIONS OF `eStep` (modulo the dead top
  word); `lfsrLengthImplClmul_eq`.
-/
import ParanoidModel.Proofs.BMCpp
namespace Paranoid.BMCpp
open Paranoid

/-! ### carry-less product of natural numbers (polynomials over GF(2)) -/

/-- `⊕_{t < k, a_t = 1} p · X^t`. -/
def clMulLow : Nat → Nat → Nat → Nat
  | 0, _, _ => 0
  | k + 1, a, p => clMulLow k a p ^^^ (if a.testBit k = true then p <<< k else 0)

/-- the carry-less product `a ⊛ p` (product of the GF(2)-polynomials whose coefficient
vectors are the binary expansions of `a` and `p`). -/
def clMul (a p : Nat) : Nat := clMulLow a a p

theorem clMulLow_succ (k a p : Nat) :
    clMulLow (k + 1) a p = clMulLow k a p ^^^ (if a.testBit k = true then p <<< k else 0) := rfl

theorem clMulLow_of_lt {a k : Nat} (h : a < 2 ^ k) (p : Nat) : ∀ k', k ≤ k' → clMulLow k' a p = clMulLow k a p := by
  intro k' hk
  induction k' with
  | zero =>
    have : k = 0 := by omega
    rw [this]
  | succ k' ih =>
    by_cases e : k = k' + 1
    · rw [e]
    · have hk' : k ≤ k' := by omega
      rw [clMulLow_succ, ih hk']
      have : a.testBit k' = false :=
        Nat.testBit_lt_two_pow (Nat.lt_of_lt_of_le h (Nat.pow_le_pow_right (by omega) hk'))
      simp [this]

theorem clMulLow_eq_clMul {a k : Nat} (h : a < 2 ^ k) (p : Nat) : clMulLow k a p = clMul a p := by
  unfold clMul
  rcases Nat.le_total k a with h1 | h1
  · exact (clMulLow_of_lt h p a h1).symm
  · exact clMulLow_of_lt Nat.lt_two_pow_self p k h1

theorem clMulLow_xor_left (k a a' p : Nat) :
    clMulLow k (a ^^^ a') p = clMulLow k a p ^^^ clMulLow k a' p := by
  induction k with
  | zero => simp [clMulLow]
  | succ k ih =>
    rw [clMulLow_succ, clMulLow_succ, clMulLow_succ, ih, Nat.testBit_xor]
    cases a.testBit k <;> cases a'.testBit k <;> simp
    · ac_rfl
    · ac_rfl
    · have : p <<< k ^^^ (clMulLow k a' p ^^^ p <<< k) = clMulLow k a' p := by
        rw [Nat.xor_comm (clMulLow k a' p), ← Nat.xor_assoc, Nat.xor_self, Nat.zero_xor]
      rw [Nat.xor_assoc, this]

theorem clMulLow_xor_right (k a p q : Nat) :
    clMulLow k a (p ^^^ q) = clMulLow k a p ^^^ clMulLow k a q := by
  induction k with
  | zero => simp [clMulLow]
  | succ k ih =>
    rw [clMulLow_succ, clMulLow_succ, clMulLow_succ, ih]
    cases a.testBit k <;> simp [Nat.shiftLeft_xor_distrib]
    ac_rfl

theorem clMulLow_shiftLeft_right (k a p s : Nat) :
    clMulLow k a (p <<< s) = clMulLow k a p <<< s := by
  induction k with
  | zero => simp [clMulLow]
  | succ k ih =>
    rw [clMulLow_succ, clMulLow_succ, ih, Nat.shiftLeft_xor_distrib]
    cases a.testBit k <;> simp
    rw [← Nat.shiftLeft_add, ← Nat.shiftLeft_add, Nat.add_comm]

theorem clMulLow_zero_left (k p : Nat) : clMulLow k 0 p = 0 := by
  induction k with
  | zero => rfl
  | succ k ih => simp [clMulLow_succ, ih]

theorem clMulLow_zero_right (k a : Nat) : clMulLow k a 0 = 0 := by
  induction k with
  | zero => rfl
  | succ k ih => simp [clMulLow_succ, ih]

/-- peel off the lowest bit of the multiplier. -/
theorem clMulLow_peel (k a p : Nat) :
    clMulLow (k + 1) a p = (if a.testBit 0 = true then p else 0) ^^^ clMulLow k (a / 2) p <<< 1 := by
  induction k with
  | zero => simp [clMulLow]
  | succ k ih =>
    rw [clMulLow_succ, ih, clMulLow_succ, Nat.shiftLeft_xor_distrib]
    have hb : a.testBit (k + 1) = (a / 2).testBit k := by
      rw [Nat.testBit_succ]
    rw [hb, Nat.xor_assoc]
    congr 2
    cases (a / 2).testBit k <;> simp
    rw [← Nat.shiftLeft_add]

theorem clMulLow_double_left (k a p : Nat) : clMulLow (k + 1) (2 * a) p = clMulLow k a p <<< 1 := by
  rw [clMulLow_peel]
  have h0 : (2 * a).testBit 0 = false := by simp [Nat.testBit_zero]
  have h1 : 2 * a / 2 = a := by omega
  rw [h0, h1]
  simp

theorem clMulLow_lt {p t : Nat} (hp : p < 2 ^ t) (k a : Nat) : clMulLow (k + 1) a p < 2 ^ (t + k) := by
  induction k with
  | zero =>
    rw [clMulLow_succ]
    simp only [clMulLow, Nat.zero_xor, Nat.add_zero]
    split
    · simpa using hp
    · exact Nat.two_pow_pos t
  | succ k ih =>
    rw [clMulLow_succ]
    apply Nat.xor_lt_two_pow
    · exact Nat.lt_of_lt_of_le ih (Nat.pow_le_pow_right (by omega) (by omega))
    · split
      · rw [Nat.shiftLeft_eq, Nat.pow_add 2 t (k + 1)]
        exact Nat.mul_lt_mul_of_pos_right hp (Nat.two_pow_pos _)
      · exact Nat.two_pow_pos _

/-! fuel-free interface -/

theorem clMul_zero_left (p : Nat) : clMul 0 p = 0 := rfl

theorem clMul_zero_right (a : Nat) : clMul a 0 = 0 := clMulLow_zero_right _ _

theorem clMul_one_left (p : Nat) : clMul 1 p = p := by
  simp [clMul, clMulLow]

theorem clMul_xor_left (a a' p : Nat) : clMul (a ^^^ a') p = clMul a p ^^^ clMul a' p := by
  have h1 : a < 2 ^ (a + a') := Nat.lt_of_lt_of_le Nat.lt_two_pow_self (Nat.pow_le_pow_right (by omega) (by omega))
  have h2 : a' < 2 ^ (a + a') := Nat.lt_of_lt_of_le Nat.lt_two_pow_self (Nat.pow_le_pow_right (by omega) (by omega))
  rw [← clMulLow_eq_clMul (Nat.xor_lt_two_pow h1 h2), ← clMulLow_eq_clMul h1, ← clMulLow_eq_clMul h2,
    clMulLow_xor_left]

theorem clMul_xor_right (a p q : Nat) : clMul a (p ^^^ q) = clMul a p ^^^ clMul a q :=
  clMulLow_xor_right _ _ _ _

theorem clMul_shiftLeft_right (a p s : Nat) : clMul a (p <<< s) = clMul a p <<< s :=
  clMulLow_shiftLeft_right _ _ _ _

theorem clMul_double_left (a p : Nat) : clMul (2 * a) p = clMul a p <<< 1 := by
  have h1 : a < 2 ^ a := Nat.lt_two_pow_self
  have h2 : 2 * a < 2 ^ (a + 1) := by rw [Nat.pow_succ]; omega
  rw [← clMulLow_eq_clMul h2, ← clMulLow_eq_clMul h1, clMulLow_double_left]

theorem clMul_shiftLeft_left (a p s : Nat) : clMul (a <<< s) p = clMul a p <<< s := by
  induction s with
  | zero => rfl
  | succ s ih =>
    have : a <<< (s + 1) = 2 * (a <<< s) := by
      rw [Nat.shiftLeft_succ]
    rw [this, clMul_double_left, ih, ← Nat.shiftLeft_add]

/-- degree bound: `deg (a ⊛ p) ≤ deg a + deg p`. -/
theorem clMul_lt {a p s t : Nat} (ha : a < 2 ^ (s + 1)) (hp : p < 2 ^ t) : clMul a p < 2 ^ (t + s) := by
  rw [← clMulLow_eq_clMul ha]
  exact clMulLow_lt hp s a

/-! ### the model of the intrinsic computes the carry-less product -/

theorem shift_bit (x : UInt64) (i : Nat) (hi : i < 64) :
    ((x >>> i.toUInt64) &&& 1 = 1) ↔ x.toNat.testBit i = true := by
  rw [word_and_one, UInt64.toNat_shiftRight]
  have e : i.toUInt64.toNat % 64 = i := by
    show i % 2 ^ 64 % 64 = i
    omega
  rw [e, Nat.testBit_shiftRight, Nat.add_zero]

theorem word_shiftLeft (y : UInt64) (i : Nat) (hi : i < 64) :
    (y <<< i.toUInt64).toNat = (y.toNat <<< i) % 2 ^ 64 := by
  rw [UInt64.toNat_shiftLeft]
  have e : i.toUInt64.toNat % 64 = i := by
    show i % 2 ^ 64 % 64 = i
    omega
  rw [e]

theorem word_shiftRight_compl (y : UInt64) (i : Nat) (h0 : 0 < i) (hi : i < 64) :
    (y >>> (64 - i).toUInt64).toNat = (y.toNat <<< i) / 2 ^ 64 := by
  rw [UInt64.toNat_shiftRight]
  have e : (64 - i).toUInt64.toNat % 64 = 64 - i := by
    show (64 - i) % 2 ^ 64 % 64 = 64 - i
    omega
  rw [e, Nat.shiftRight_eq_div_pow, Nat.shiftLeft_eq]
  have h64 : (2 : Nat) ^ 64 = 2 ^ (64 - i) * 2 ^ i := by
    rw [← Nat.pow_add]; congr 1; omega
  rw [h64, Nat.mul_div_mul_right _ _ (Nat.two_pow_pos i)]

theorem clmulLoop_spec (x y : UInt64) : ∀ (k i : Nat) (hi lo : UInt64), i + k = 64 →
    lo.toNat + 2 ^ 64 * hi.toNat = clMulLow i x.toNat y.toNat →
    (clmulLoop k i x y hi lo).2.toNat + 2 ^ 64 * (clmulLoop k i x y hi lo).1.toNat
      = clMulLow 64 x.toNat y.toNat := by
  intro k
  induction k with
  | zero =>
    intro i hi lo h64 h
    have : i = 64 := by omega
    subst this
    exact h
  | succ k ih =>
    intro i hi lo h64 h
    have hi64 : i < 64 := by omega
    unfold clmulLoop
    by_cases hb : x.toNat.testBit i = true
    · rw [if_pos ((shift_bit x i hi64).2 hb)]
      apply ih (i + 1) _ _ (by omega)
      rw [clMulLow_succ, if_pos hb, ← h, UInt64.toNat_xor, UInt64.toNat_xor, word_shiftLeft y i hi64]
      have hsplit : y.toNat <<< i = (y.toNat <<< i) % 2 ^ 64 + 2 ^ 64 * ((y.toNat <<< i) / 2 ^ 64) :=
        (Nat.mod_add_div _ _).symm
      have hhi : (if i = 0 then (0 : UInt64) else y >>> (64 - i).toUInt64).toNat
          = (y.toNat <<< i) / 2 ^ 64 := by
        by_cases h0 : i = 0
        · subst h0
          simp only [if_true, Nat.shiftLeft_zero]
          have := y.toNat_lt
          show 0 = _
          omega
        · rw [if_neg h0, word_shiftRight_compl y i (by omega) hi64]
      rw [hhi]
      conv => rhs; rw [hsplit]
      rw [xor_split _ _ lo.toNat_lt (Nat.mod_lt _ (Nat.two_pow_pos 64))]
    · rw [if_neg (fun hh => hb ((shift_bit x i hi64).1 hh))]
      apply ih (i + 1) _ _ (by omega)
      rw [clMulLow_succ, if_neg hb, h]
      simp

/-- **`clmul_spec`**: the model of `_mm_clmulepi64_si128` returns the high and low words of the
carry-less product: `lo + 2^64·hi = x ⊛ y`. -/
theorem clmul_spec (x y : UInt64) :
    (clmul x y).2.toNat + 2 ^ 64 * (clmul x y).1.toNat = clMul x.toNat y.toNat := by
  unfold clmul
  rw [clmulLoop_spec x y 64 0 0 0 rfl (by simp [clMulLow]), clMulLow_eq_clMul x.toNat_lt]

/-! ### the eager machine with coefficient polynomials -/

/-- the polynomials `a, b, c, d` of the C++ comment (`carry_a`, `carry_c` are their
coefficients of `X^64`). -/
structure Coef where
  A : Nat
  B : Nat
  C : Nat
  D : Nat

/-- `a <<= 1; b <<= 1; if (disc) { if (swap) { swap(a, c); swap(b, d); } c ^= a; d ^= b; }` on
unbounded polynomials. -/
def coefStep (disc swap : Bool) (k : Coef) : Coef :=
  if disc = true then
    if swap = true then { A := k.C, B := k.D, C := 2 * k.A ^^^ k.C, D := 2 * k.B ^^^ k.D }
    else { A := 2 * k.A, B := 2 * k.B, C := k.C ^^^ 2 * k.A, D := k.D ^^^ 2 * k.B }
  else { A := 2 * k.A, B := 2 * k.B, C := k.C, D := k.D }

/-- one step of the eager machine, recording the coefficients. -/
def jStep (idx : Nat) (s : EState × Coef) : EState × Coef :=
  (eStep idx s.1, coefStep (s.1.Q.testBit 0) (decide (2 * s.1.L ≤ idx)) s.2)

def jLoop : Nat → Nat → EState × Coef → EState × Coef
  | 0, _, s => s
  | r + 1, idx, s => jLoop r (idx + 1) (jStep idx s)

theorem jLoop_fst (r : Nat) : ∀ (idx : Nat) (s : EState × Coef), (jLoop r idx s).1 = eLoop r idx s.1 := by
  induction r with
  | zero => intro idx s; rfl
  | succ r ih => intro idx s; exact ih (idx + 1) (jStep idx s)

/-- `(A⊛P ⊕ B⊛Q) >> i`. -/
def combP (k : Coef) (i P Q : Nat) : Nat := (clMul k.A P ^^^ clMul k.B Q) >>> i
/-- `(C⊛P ⊕ D⊛Q) >> i`. -/
def combQ (k : Coef) (i P Q : Nat) : Nat := (clMul k.C P ^^^ clMul k.D Q) >>> i

theorem shr_dbl (z i : Nat) : (z <<< 1) >>> (i + 1) = z >>> i := by
  rw [Nat.add_comm, Nat.shiftRight_add, Nat.shiftLeft_shiftRight]

theorem shr_shr1 (z i : Nat) : (z >>> i) >>> 1 = z >>> (i + 1) := (Nat.shiftRight_add z i 1).symm

/-- the registers are the coefficient combination of the initial registers, shifted by `i`. -/
structure Lin (k : Coef) (i P Q : Nat) (E : EState) : Prop where
  p : E.P = combP k i P Q
  q : E.Q = combQ k i P Q

theorem jStep_lin {k : Coef} {i P Q : Nat} {E : EState} (h : Lin k i P Q E) (idx : Nat) :
    Lin (jStep idx (E, k)).2 (i + 1) P Q (jStep idx (E, k)).1 := by
  unfold jStep
  simp only
  by_cases hd : E.Q.testBit 0 = true
  · by_cases hl : 2 * E.L ≤ idx
    · have he : eStep idx E = { P := E.Q >>> 1, Q := E.P ^^^ (E.Q >>> 1), L := idx + 1 - E.L } := by
        unfold eStep; rw [if_pos hd, if_pos hl]
      have hc : coefStep (E.Q.testBit 0) (decide (2 * E.L ≤ idx)) k
          = { A := k.C, B := k.D, C := 2 * k.A ^^^ k.C, D := 2 * k.B ^^^ k.D } := by
        rw [hd, decide_eq_true hl]; rfl
      rw [he, hc]
      constructor
      · show E.Q >>> 1 = _
        rw [h.q]; simp only [combP, combQ, shr_shr1]
      · show E.P ^^^ E.Q >>> 1 = _
        rw [h.p, h.q]
        simp only [combP, combQ, clMul_xor_left, clMul_double_left, Nat.shiftRight_xor_distrib,
          shr_dbl, shr_shr1]
        ac_rfl
    · have he : eStep idx E = { P := E.P, Q := (E.Q >>> 1) ^^^ E.P, L := E.L } := by
        unfold eStep; rw [if_pos hd, if_neg hl]
      have hc : coefStep (E.Q.testBit 0) (decide (2 * E.L ≤ idx)) k
          = { A := 2 * k.A, B := 2 * k.B, C := k.C ^^^ 2 * k.A, D := k.D ^^^ 2 * k.B } := by
        rw [hd, decide_eq_false hl]; rfl
      rw [he, hc]
      constructor
      · show E.P = _
        rw [h.p]
        simp only [combP, clMul_double_left, ← Nat.shiftLeft_xor_distrib, shr_dbl]
      · show E.Q >>> 1 ^^^ E.P = _
        rw [h.p, h.q]
        simp only [combP, combQ, clMul_xor_left, clMul_double_left, Nat.shiftRight_xor_distrib,
          shr_dbl, shr_shr1]
        ac_rfl
  · have he : eStep idx E = { P := E.P, Q := E.Q >>> 1, L := E.L } := by
      unfold eStep; rw [if_neg hd]
    have hc : coefStep (E.Q.testBit 0) (decide (2 * E.L ≤ idx)) k
        = { A := 2 * k.A, B := 2 * k.B, C := k.C, D := k.D } := by
      have : E.Q.testBit 0 = false := by simpa using hd
      rw [this]; rfl
    rw [he, hc]
    constructor
    · show E.P = _
      rw [h.p]
      simp only [combP, clMul_double_left, ← Nat.shiftLeft_xor_distrib, shr_dbl]
    · show E.Q >>> 1 = _
      rw [h.q]; simp only [combQ, shr_shr1]

theorem jLoop_lin (r : Nat) : ∀ {k : Coef} {i P Q : Nat} {E : EState} (idx : Nat), Lin k i P Q E →
    Lin (jLoop r idx (E, k)).2 (i + r) P Q (jLoop r idx (E, k)).1 := by
  induction r with
  | zero => intro k i P Q E idx h; exact h
  | succ r ih =>
    intro k i P Q E idx h
    have := ih (idx + 1) (jStep_lin h idx)
    rw [show i + (r + 1) = i + 1 + r by omega]
    exact this

/-- initial coefficients `a = 1, b = 0, c = 0, d = 1`. -/
def coef0 : Coef := { A := 1, B := 0, C := 0, D := 1 }

theorem lin_init (P Q L : Nat) : Lin coef0 0 P Q ⟨P, Q, L⟩ := by
  constructor <;> simp [combP, combQ, coef0, clMul_one_left, clMul_zero_left]

/-! ### locality: the first `r` steps depend on the low `r` bits only -/

structure EqMod (m : Nat) (e e' : EState) : Prop where
  p : e.P % 2 ^ m = e'.P % 2 ^ m
  q : e.Q % 2 ^ m = e'.Q % 2 ^ m
  l : e.L = e'.L

theorem mod_succ_to {a b m : Nat} (h : a % 2 ^ (m + 1) = b % 2 ^ (m + 1)) : a % 2 ^ m = b % 2 ^ m := by
  have hd : 2 ^ m ∣ 2 ^ (m + 1) := Nat.pow_dvd_pow 2 (by omega)
  rw [← Nat.mod_mod_of_dvd a hd, ← Nat.mod_mod_of_dvd b hd, h]

theorem mod_succ_bit0 {a b m : Nat} (h : a % 2 ^ (m + 1) = b % 2 ^ (m + 1)) : a.testBit 0 = b.testBit 0 := by
  have hd : 2 ∣ 2 ^ (m + 1) := by rw [Nat.pow_succ]; exact Nat.dvd_mul_left _ _
  rw [Nat.testBit_zero, Nat.testBit_zero, ← Nat.mod_mod_of_dvd a hd, ← Nat.mod_mod_of_dvd b hd, h]

theorem mod_succ_shr {a b m : Nat} (h : a % 2 ^ (m + 1) = b % 2 ^ (m + 1)) :
    (a >>> 1) % 2 ^ m = (b >>> 1) % 2 ^ m := by
  rw [Nat.shiftRight_eq_div_pow, Nat.shiftRight_eq_div_pow, Nat.pow_one,
    ← Nat.mod_mul_right_div_self, ← Nat.mod_mul_right_div_self]
  rw [Nat.pow_succ, Nat.mul_comm] at h
  rw [h]

theorem eStep_mod {m : Nat} {e e' : EState} (h : EqMod (m + 1) e e') (i : Nat) :
    EqMod m (eStep i e) (eStep i e') := by
  have hb := mod_succ_bit0 h.q
  have hq := mod_succ_shr h.q
  have hp := mod_succ_to h.p
  unfold eStep
  rw [← hb, ← h.l]
  by_cases hd : e.Q.testBit 0 = true
  · rw [if_pos hd, if_pos hd]
    by_cases hl : 2 * e.L ≤ i
    · rw [if_pos hl, if_pos hl]
      exact ⟨hq, by simp only [Nat.xor_mod_two_pow, hp, hq], rfl⟩
    · rw [if_neg hl, if_neg hl]
      exact ⟨hp, by simp only [Nat.xor_mod_two_pow, hp, hq], rfl⟩
  · rw [if_neg hd, if_neg hd]
    exact ⟨hp, hq, rfl⟩

theorem eLoop_mod (r : Nat) : ∀ {m : Nat} {e e' : EState} (i : Nat), EqMod (m + r) e e' →
    EqMod m (eLoop r i e) (eLoop r i e') := by
  induction r with
  | zero => intro m e e' i h; exact h
  | succ r ih =>
    intro m e e' i h
    exact ih (i + 1) (eStep_mod (m := m + r) h i)

/-- the coefficients computed from the low bits are those of the full registers. -/
theorem jLoop_coef_eq (r : Nat) : ∀ {e e' : EState} (k : Coef) (i : Nat), EqMod r e e' →
    (jLoop r i (e, k)).2 = (jLoop r i (e', k)).2 := by
  induction r with
  | zero => intro e e' k i h; rfl
  | succ r ih =>
    intro e e' k i h
    show (jLoop r (i + 1) (jStep i (e, k))).2 = (jLoop r (i + 1) (jStep i (e', k))).2
    have hb := mod_succ_bit0 h.q
    have h1 : (jStep i (e, k)).2 = (jStep i (e', k)).2 := by
      unfold jStep
      simp only [hb, h.l]
    have := ih (jStep i (e, k)).2 (i + 1) (eStep_mod h i)
    unfold jStep at this h1 ⊢
    simp only at this h1 ⊢
    rw [this, h1]

/-! ### the `uint64_t` bit loop is the joint machine on the low words -/

theorem w_shr1 (w : UInt64) : (w >>> 1).toNat = w.toNat >>> 1 := by
  rw [UInt64.toNat_shiftRight]; rfl

theorem w_shr63 (w : UInt64) : (w >>> 63).toNat = w.toNat / 2 ^ 63 := by
  rw [UInt64.toNat_shiftRight, Nat.shiftRight_eq_div_pow]; rfl

theorem w_shl1 (w : UInt64) : (w <<< 1).toNat = (2 * w.toNat) % 2 ^ 64 := by
  rw [UInt64.toNat_shiftLeft]
  have e1 : (1 : UInt64).toNat % 64 = 1 := by decide
  rw [e1, Nat.shiftLeft_eq, Nat.pow_one, Nat.mul_comm]

/-- relation between the C++ inner-loop variables before iteration `i` and the joint machine. -/
structure IRel (i : Nat) (r : Inner) (s : EState × Coef) : Prop where
  sb0 : r.sb0.toNat = s.1.P
  sc0 : r.sc0.toNat = s.1.Q
  len : r.len = s.1.L
  a : s.2.A = r.a.toNat + 2 ^ 64 * r.carryA.toNat
  b : s.2.B = r.b.toNat
  c : s.2.C = r.c.toNat + 2 ^ 64 * r.carryC.toNat
  d : s.2.D = r.d.toNat
  hA : s.2.A < 2 ^ (i + 1)
  hB : s.2.B < 2 ^ i
  hC : s.2.C < 2 ^ (i + 1)
  hD : s.2.D ≤ 2 ^ i

theorem innerStep_sim {i : Nat} {r : Inner} {s : EState × Coef} (h : IRel i r s) (hi : i < 64)
    (idx : Nat) : IRel (i + 1) (innerStep idx r) (jStep idx s) := by
  obtain ⟨E, k⟩ := s
  obtain ⟨hsb0, hsc0, hlen, ha, hb, hc, hd, hA, hB, hC, hD⟩ := h
  simp only at hsb0 hsc0 hlen ha hb hc hd hA hB hC hD
  have hT : 2 ^ i ≤ 2 ^ 63 := Nat.pow_le_pow_right (by omega) (by omega)
  have hT1 : 2 ^ (i + 1) = 2 * 2 ^ i := by rw [Nat.pow_succ]; omega
  have hT2 : 2 ^ (i + 1 + 1) = 2 * 2 ^ (i + 1) := by rw [Nat.pow_succ]; omega
  have e63 : (2 : Nat) ^ 63 = 9223372036854775808 := by norm_num
  have e64 : (2 : Nat) ^ 64 = 18446744073709551616 := by norm_num
  have hra := r.a.toNat_lt
  have hrc := r.c.toNat_lt
  have hrb := r.b.toNat_lt
  -- no pending carries before the step
  have hca : r.carryA.toNat = 0 := by omega
  have hcc : r.carryC.toNat = 0 := by omega
  have ha' : k.A = r.a.toNat := by omega
  have hc' : k.C = r.c.toNat := by omega
  -- the shifted values
  have hsa : (r.a <<< 1).toNat + 2 ^ 64 * (r.a >>> 63).toNat = 2 * k.A := by
    rw [w_shl1, w_shr63]; omega
  have hsb : (r.b <<< 1).toNat = 2 * k.B := by
    rw [w_shl1]; omega
  have hcar : (r.a >>> 63).toNat ≤ 1 := by rw [w_shr63]; omega
  have hbit : (r.sc0 &&& 1 = 1) ↔ E.Q.testBit 0 = true := by rw [word_and_one, hsc0]
  have hA2 : 2 * k.A < 2 ^ (i + 1 + 1) := by omega
  have hB2 : 2 * k.B < 2 ^ (i + 1) := by omega
  have hC2 : k.C < 2 ^ (i + 1 + 1) := by omega
  have hD2 : k.D < 2 ^ (i + 1) := by omega
  have hz : (0 : UInt64).toNat = 0 := rfl
  unfold innerStep jStep
  by_cases hdisc : E.Q.testBit 0 = true
  · rw [if_pos (hbit.2 hdisc)]
    by_cases hl : 2 * E.L ≤ idx
    · rw [hlen, if_pos hl]
      have he : eStep idx E = { P := E.Q >>> 1, Q := E.P ^^^ (E.Q >>> 1), L := idx + 1 - E.L } := by
        unfold eStep; rw [if_pos hdisc, if_pos hl]
      have hk : coefStep (E.Q.testBit 0) (decide (2 * E.L ≤ idx)) k
          = { A := k.C, B := k.D, C := 2 * k.A ^^^ k.C, D := 2 * k.B ^^^ k.D } := by
        rw [hdisc, decide_eq_true hl]; rfl
      simp only [he, hk, innerXor, innerSwap, innerShift]
      refine ⟨?_, ?_, rfl, ?_, hd, ?_, ?_, hC2, hD2, Nat.xor_lt_two_pow hA2 hC2,
        Nat.le_of_lt (Nat.xor_lt_two_pow hB2 hD2)⟩
      · rw [w_shr1, hsc0]
      · rw [UInt64.toNat_xor, w_shr1, hsc0, hsb0]
      · simp only [hz]; omega
      · show 2 * k.A ^^^ k.C = _
        have := xor_split (k := 64) (r.a >>> 63).toNat 0 (r.a <<< 1).toNat_lt hrc
        rw [UInt64.toNat_xor, UInt64.toNat_xor, ← hsa, hc', hz]
        simpa using this
      · rw [UInt64.toNat_xor, hsb, hd]
    · rw [hlen, if_neg hl]
      have he : eStep idx E = { P := E.P, Q := (E.Q >>> 1) ^^^ E.P, L := E.L } := by
        unfold eStep; rw [if_pos hdisc, if_neg hl]
      have hk : coefStep (E.Q.testBit 0) (decide (2 * E.L ≤ idx)) k
          = { A := 2 * k.A, B := 2 * k.B, C := k.C ^^^ 2 * k.A, D := k.D ^^^ 2 * k.B } := by
        rw [hdisc, decide_eq_false hl]; rfl
      simp only [he, hk, innerXor, innerShift]
      refine ⟨hsb0, ?_, hlen, hsa.symm, hsb.symm, ?_, ?_, hA2, hB2, Nat.xor_lt_two_pow hC2 hA2,
        Nat.le_of_lt (Nat.xor_lt_two_pow hD2 hB2)⟩
      · rw [UInt64.toNat_xor, w_shr1, hsc0, hsb0]
      · show k.C ^^^ 2 * k.A = _
        have := xor_split (k := 64) 0 (r.a >>> 63).toNat hrc (r.a <<< 1).toNat_lt
        rw [UInt64.toNat_xor, UInt64.toNat_xor, ← hsa, hc', hz]
        simpa using this
      · rw [UInt64.toNat_xor, hsb, hd]
  · rw [if_neg (fun hh => hdisc (hbit.1 hh))]
    have he : eStep idx E = { P := E.P, Q := E.Q >>> 1, L := E.L } := by
      unfold eStep; rw [if_neg hdisc]
    have hk : coefStep (E.Q.testBit 0) (decide (2 * E.L ≤ idx)) k
        = { A := 2 * k.A, B := 2 * k.B, C := k.C, D := k.D } := by
      have : E.Q.testBit 0 = false := by simpa using hdisc
      rw [this]; rfl
    simp only [he, hk, innerShift]
    refine ⟨hsb0, ?_, hlen, hsa.symm, hsb.symm, ?_, hd, hA2, hB2, hC2, Nat.le_of_lt hD2⟩
    · rw [w_shr1, hsc0]
    · simp only [hz]; omega

theorem innerLoop_sim (n : Nat) : ∀ {i : Nat} {r : Inner} {s : EState × Coef} (idx : Nat),
    IRel i r s → i + n ≤ 64 → IRel (i + n) (innerLoop n idx r) (jLoop n idx s) := by
  induction n with
  | zero => intro i r s idx h _; exact h
  | succ n ih =>
    intro i r s idx h hn
    have := ih (idx + 1) (innerStep_sim h (by omega) idx) (by omega)
    rw [show i + (n + 1) = i + 1 + n by omega]
    exact this

theorem irel_init (sb0 sc0 : UInt64) (L : Nat) :
    IRel 0 { sb0 := sb0, sc0 := sc0, a := 1, b := 0, c := 0, d := 1, carryA := 0, carryC := 0, len := L }
      (⟨sb0.toNat, sc0.toNat, L⟩, coef0) := by
  refine ⟨rfl, rfl, rfl, ?_, ?_, ?_, ?_, ?_, ?_, ?_, ?_⟩ <;> simp [coef0]

/-! ### the word loop with four `clmul`s -/

theorem clMul_split (X V : Nat) {w : Nat} (hw : w < 2 ^ 64) :
    clMul X (w + 2 ^ 64 * V) = clMul X w ^^^ 2 ^ 64 * clMul X V := by
  rw [← xor_mul_two_pow V hw, clMul_xor_right, Nat.mul_comm (2 ^ 64) V, ← Nat.shiftLeft_eq,
    clMul_shiftLeft_right, Nat.shiftLeft_eq, Nat.mul_comm]

theorem accum_arith {T0 T1 lo1 hi1 lo2 hi2 : Nat} (VT XS YS : Nat) (h0 : T0 < 2 ^ 64)
    (h1 : T1 < 2 ^ 64) (hl1 : lo1 < 2 ^ 64) (hh1 : hi1 < 2 ^ 64) (hl2 : lo2 < 2 ^ 64)
    (hh2 : hi2 < 2 ^ 64) :
    (T0 ^^^ lo1 ^^^ lo2) + 2 ^ 64 * (((T1 ^^^ hi1 ^^^ hi2) + 2 ^ 64 * VT) ^^^ XS ^^^ YS)
      = (T0 + 2 ^ 64 * (T1 + 2 ^ 64 * VT)) ^^^ (lo1 + 2 ^ 64 * (hi1 ^^^ XS))
          ^^^ (lo2 + 2 ^ 64 * (hi2 ^^^ YS)) := by
  rw [xor_split _ _ h0 hl1, xor_split _ _ (Nat.xor_lt_two_pow h0 hl1) hl2]
  congr 2
  have e1 := xor_split (k := 64) VT 0 h1 hh1
  have e2 := xor_split (k := 64) VT 0 (Nat.xor_lt_two_pow h1 hh1) hh2
  simp only [Nat.mul_zero, Nat.add_zero, Nat.xor_zero] at e1 e2
  rw [← e2, ← e1]
  ac_rfl

theorem clAccum_val (x y : UInt64) : ∀ (n : Nat) (sbT scT t : Words), n ≤ sbT.length →
    n ≤ scT.length → n + 1 ≤ t.length →
    ∃ t', clAccum x y n sbT scT t = some t' ∧ t'.length = t.length ∧
      val (t'.take (n + 1)) = val (t.take (n + 1)) ^^^ clMul x.toNat (val (sbT.take n))
        ^^^ clMul y.toNat (val (scT.take n)) := by
  intro n
  induction n with
  | zero =>
    intro sbT scT t _ _ _
    exact ⟨t, rfl, rfl, by simp [clMul_zero_right]⟩
  | succ n ih =>
    intro sbT scT t h1 h2 h3
    match sbT, scT, t, h1, h2, h3 with
    | sbi :: sbT, sci :: scT, t0 :: t1 :: ts, h1, h2, h3 =>
      obtain ⟨u, hu, hlen, hval⟩ := ih sbT scT ((t1 ^^^ (clmul x sbi).1 ^^^ (clmul y sci).1) :: ts)
        (by simpa using h1) (by simpa using h2) (by simp at h3 ⊢; omega)
      refine ⟨(t0 ^^^ (clmul x sbi).2 ^^^ (clmul y sci).2) :: u, ?_, ?_, ?_⟩
      · show (clAccum x y n sbT scT _).map _ = _
        rw [hu]; rfl
      · simp only [List.length_cons] at hlen ⊢; omega
      · rw [List.take_succ_cons, val_cons, hval]
        simp only [List.take_succ_cons, val_cons, UInt64.toNat_xor]
        have ex : ∀ (z w : UInt64) (V : Nat), clMul z.toNat (w.toNat + 2 ^ 64 * V)
            = (clmul z w).2.toNat + 2 ^ 64 * ((clmul z w).1.toNat ^^^ clMul z.toNat V) := by
          intro z w V
          rw [clMul_split _ _ w.toNat_lt, ← clmul_spec z w]
          have := xor_split (k := 64) (clmul z w).1.toNat (clMul z.toNat V)
            (clmul z w).2.toNat_lt (Nat.two_pow_pos 64)
          simpa using this
        rw [ex, ex]
        exact accum_arith _ _ _ t0.toNat_lt t1.toNat_lt (clmul x sbi).2.toNat_lt
          (clmul x sbi).1.toNat_lt (clmul y sci).2.toNat_lt (clmul y sci).1.toNat_lt

theorem val_replicate_zero (n : Nat) : val (List.replicate n (0 : UInt64)) = 0 := by
  induction n with
  | zero => rfl
  | succ n ih => rw [List.replicate_succ, val_cons, ih]; rfl

theorem zeroFirst_eq : ∀ (size : Nat) (t : Words), size ≤ t.length →
    zeroFirst size t = some (List.replicate size 0 ++ t.drop size)
  | 0, t, _ => by simp [zeroFirst]
  | size + 1, [], h => by simp at h
  | size + 1, _ :: t, h => by
    rw [zeroFirst, zeroFirst_eq size t (by simpa using h)]
    simp [List.replicate_succ]

/-- `t = carry ? sb : 0…0; t[0] = w0` on the live prefix. -/
theorem clBase_val (carry w0 sb0 : UInt64) (size : Nat) (sbT t : Words) (hs : 1 ≤ size)
    (hsb : size ≤ (sb0 :: sbT).length) (ht : t.length = (sb0 :: sbT).length) :
    ∃ t', clBase carry w0 size (sb0 :: sbT) t = some t' ∧ t'.length = t.length ∧
      val (t'.take size) = w0.toNat + 2 ^ 64 * (if carry ≠ 0 then val (sbT.take (size - 1)) else 0) := by
  obtain ⟨s, rfl⟩ : ∃ s, size = s + 1 := ⟨size - 1, by omega⟩
  unfold clBase
  by_cases hc : carry ≠ 0
  · rw [if_pos hc, if_pos hc]
    refine ⟨w0 :: sbT, rfl, by simp [ht], ?_⟩
    rw [List.take_succ_cons, val_cons]; rfl
  · have hzl : s + 1 ≤ t.length := by rw [ht]; exact hsb
    rw [if_neg hc, if_neg hc, zeroFirst_eq _ _ hzl]
    refine ⟨w0 :: (List.replicate s 0 ++ t.drop (s + 1)), ?_, ?_, ?_⟩
    · simp [List.replicate_succ, setHead]
    · simp at hsb ⊢; omega
    · rw [List.take_succ_cons, val_cons, List.take_left' (by simp), val_replicate_zero]

/-- everything after the inner loop: on the live prefixes the new vectors are
`w0 + 2^64·(carry·sbT ⊕ x⊛sbT ⊕ y⊛scT)`. -/
theorem clAssemble_val (st : ClState) (sb0 sc0 : UInt64) (sbT scT : Words) (r : Inner)
    (hsb : st.sb = sb0 :: sbT) (hsc : st.sc = sc0 :: scT) (hlc : st.sc.length = st.sb.length)
    (hltb : st.tb.length = st.sb.length) (hltc : st.tc.length = st.sb.length)
    (hs : 1 ≤ st.size) (hsz : st.size ≤ st.sb.length) :
    ∃ st', clAssemble st sbT scT r = some st' ∧
      st'.sb.length = st.sb.length ∧ st'.sc.length = st.sb.length ∧
      st'.tb.length = st.sb.length ∧ st'.tc.length = st.sb.length ∧
      st'.size = st.size - 1 ∧ st'.len = r.len ∧
      val (st'.sb.take st.size) = (r.sb0.toNat + 2 ^ 64 *
          (if r.carryA ≠ 0 then val (sbT.take (st.size - 1)) else 0))
        ^^^ clMul r.a.toNat (val (sbT.take (st.size - 1)))
        ^^^ clMul r.b.toNat (val (scT.take (st.size - 1))) ∧
      val (st'.sc.take st.size) = (r.sc0.toNat + 2 ^ 64 *
          (if r.carryC ≠ 0 then val (sbT.take (st.size - 1)) else 0))
        ^^^ clMul r.c.toNat (val (sbT.take (st.size - 1)))
        ^^^ clMul r.d.toNat (val (scT.take (st.size - 1))) := by
  rw [hsb] at hltb hltc hsz
  have hlc' : scT.length = sbT.length := by
    rw [hsc, hsb] at hlc; simpa using hlc
  obtain ⟨tb, htb, hltb', hvb⟩ := clBase_val r.carryA r.sb0 sb0 st.size sbT st.tb hs hsz hltb
  obtain ⟨tc, htc, hltc', hvc⟩ := clBase_val r.carryC r.sc0 sb0 st.size sbT st.tc hs hsz hltc
  have hn : st.size - 1 + 1 = st.size := by omega
  have l1 : st.size - 1 ≤ sbT.length := by simp at hsz; omega
  have l2 : st.size - 1 ≤ scT.length := by omega
  obtain ⟨tb', htb', hlb, hvb'⟩ := clAccum_val r.a r.b (st.size - 1) sbT scT tb l1 l2
    (by rw [hltb', hltb]; simp at hsz ⊢; omega)
  obtain ⟨tc', htc', hlc2, hvc'⟩ := clAccum_val r.c r.d (st.size - 1) sbT scT tc l1 l2
    (by rw [hltc', hltc]; simp at hsz ⊢; omega)
  rw [hn] at hvb' hvc'
  refine ⟨{ sb := tb', sc := tc', tb := st.sb, tc := st.sc, len := r.len, size := st.size - 1 },
    ?_, ?_, ?_, rfl, hlc, rfl, rfl, ?_, ?_⟩
  · unfold clAssemble
    rw [hsb, htb, htc]
    simp only
    rw [htb', htc']
  · show tb'.length = _
    rw [hlb, hltb', hltb, hsb]
  · show tc'.length = _
    rw [hlc2, hltc', hltc, hsb]
  · show val (tb'.take st.size) = _
    rw [hvb', hvb]
  · show val (tc'.take st.size) = _
    rw [hvc', hvc]

/-! ### one block of the CLMUL loop = 64 steps of the eager machine -/

theorem add_mul_mod_mul {w a : Nat} (V b : Nat) (hw : w < a) :
    (w + a * V) % (a * b) = w + a * (V % b) := by
  rcases Nat.eq_zero_or_pos b with hb | hb
  · subst hb; simp
  have hV : V = b * (V / b) + V % b := (Nat.div_add_mod V b).symm
  have hlt : w + a * (V % b) < a * b := by
    have h1 : V % b + 1 ≤ b := Nat.mod_lt _ hb
    calc w + a * (V % b) < a + a * (V % b) := by omega
      _ = a * (V % b + 1) := by rw [Nat.mul_succ]; omega
      _ ≤ a * b := Nat.mul_le_mul_left _ h1
  conv => lhs; rw [hV, Nat.mul_add, ← Nat.mul_assoc, ← Nat.add_assoc, Nat.add_right_comm,
    Nat.add_mul_mod_self_left]
  exact Nat.mod_eq_of_lt hlt

theorem val_take : ∀ (l : Words) (m : Nat), val (l.take m) = val l % 2 ^ (64 * m)
  | l, 0 => by simp [Nat.mod_one]
  | [], m + 1 => by simp
  | w :: l, m + 1 => by
    rw [List.take_succ_cons, val_cons, val_cons, val_take l m, Nat.mul_succ, Nat.add_comm (64 * m),
      Nat.pow_add, add_mul_mod_mul _ _ w.toNat_lt]

/-- the algebra of the assembly: splitting off the low words. -/
theorem comb_split {A B a ca p q w : Nat} (VP VQ : Nat) (hA : A = a + 2 ^ 64 * ca) (ha : a < 2 ^ 64)
    (hca : ca ≤ 1) (hp : p < 2 ^ 64) (hq : q < 2 ^ 64)
    (hw : (clMul A p ^^^ clMul B q) >>> 64 = w) (hw64 : w < 2 ^ 64) :
    (clMul A (p + 2 ^ 64 * VP) ^^^ clMul B (q + 2 ^ 64 * VQ)) >>> 64
      = (w + 2 ^ 64 * (if ca ≠ 0 then VP else 0)) ^^^ clMul a VP ^^^ clMul B VQ := by
  have hshr : ∀ Y : Nat, (2 ^ 64 * Y) >>> 64 = Y := by
    intro Y
    rw [Nat.shiftRight_eq_div_pow, Nat.mul_div_cancel_left _ (Nat.two_pow_pos 64)]
  have hAV : clMul A VP = clMul a VP ^^^ 2 ^ 64 * (if ca ≠ 0 then VP else 0) := by
    rw [hA, ← xor_mul_two_pow ca ha, clMul_xor_left, Nat.mul_comm (2 ^ 64) ca, ← Nat.shiftLeft_eq,
      clMul_shiftLeft_left, Nat.shiftLeft_eq, Nat.mul_comm _ (2 ^ 64)]
    have : ca = 0 ∨ ca = 1 := by omega
    rcases this with h | h <;> subst h <;> simp [clMul_zero_left, clMul_one_left]
  rw [clMul_split _ _ hp, clMul_split _ _ hq, ← xor_mul_two_pow _ hw64, ← hw, hAV]
  simp only [Nat.shiftRight_xor_distrib, hshr]
  ac_rfl

/-- invariant of the outer loop after `blk` blocks: on the live prefix (`size` words) the
vectors are the registers of the eager machine modulo `2^(64·size)`. -/
structure ClRel (W blk : Nat) (st : ClState) (E : EState) : Prop where
  lsb : st.sb.length = W
  lsc : st.sc.length = W
  ltb : st.tb.length = W
  ltc : st.tc.length = W
  size : st.size + blk = W
  eq : EqMod (64 * st.size) ⟨val (st.sb.take st.size), val (st.sc.take st.size), st.len⟩ E

theorem carry_ne_zero (c : UInt64) : c ≠ 0 ↔ c.toNat ≠ 0 := by
  rw [Ne, ← UInt64.toNat_inj]; rfl

/-- **the 64-step block invariant**: one iteration of the outer CLMUL loop (inner bit loop on the
low words, coefficient polynomials with carries, four `clmul`s per word, swap, `size--`) equals
64 applications of `eStep` — i.e. of the `LinearComplexityNative` step — on the registers. -/
theorem clBlock_sim {W blk : Nat} {st : ClState} {E : EState} (h : ClRel W blk st E)
    (hs : 1 ≤ st.size) :
    ∃ st', clBlock (64 * blk) st = some st' ∧ ClRel W (blk + 1) st' (eLoop 64 (64 * blk) E) := by
  obtain ⟨lsb, lsc, ltb, ltc, hsize, heq⟩ := h
  have hW : 1 ≤ W := by omega
  obtain ⟨sb0, sbT, hsb⟩ : ∃ sb0 sbT, st.sb = sb0 :: sbT := by
    cases hh : st.sb with
    | nil => rw [hh] at lsb; simp at lsb; omega
    | cons a l => exact ⟨a, l, rfl⟩
  obtain ⟨sc0, scT, hsc⟩ : ∃ sc0 scT, st.sc = sc0 :: scT := by
    cases hh : st.sc with
    | nil => rw [hh] at lsc; simp at lsc; omega
    | cons a l => exact ⟨a, l, rfl⟩
  -- the inner loop
  let r := innerLoop 64 (64 * blk)
    { sb0 := sb0, sc0 := sc0, a := 1, b := 0, c := 0, d := 1, carryA := 0, carryC := 0, len := st.len }
  have hir : IRel 64 r (jLoop 64 (64 * blk) (⟨sb0.toNat, sc0.toNat, st.len⟩, coef0)) := by
    have := innerLoop_sim 64 (64 * blk) (irel_init sb0 sc0 st.len) (by omega)
    simpa using this
  have hlin0 := jLoop_lin 64 (64 * blk) (lin_init sb0.toNat sc0.toNat st.len)
  rw [Nat.zero_add] at hlin0
  -- the same coefficients drive the full registers
  obtain ⟨s', hs'⟩ : ∃ s', st.size = s' + 1 := ⟨st.size - 1, by omega⟩
  have hVsb : val (st.sb.take st.size) = sb0.toNat + 2 ^ 64 * val (sbT.take s') := by
    rw [hsb, hs', List.take_succ_cons, val_cons]
  have hVsc : val (st.sc.take st.size) = sc0.toNat + 2 ^ 64 * val (scT.take s') := by
    rw [hsc, hs', List.take_succ_cons, val_cons]
  have hlow : EqMod 64 ⟨sb0.toNat, sc0.toNat, st.len⟩
      ⟨val (st.sb.take st.size), val (st.sc.take st.size), st.len⟩ := by
    refine ⟨?_, ?_, rfl⟩
    · show sb0.toNat % 2 ^ 64 = _ % 2 ^ 64
      rw [hVsb, Nat.add_mul_mod_self_left]
    · show sc0.toNat % 2 ^ 64 = _ % 2 ^ 64
      rw [hVsc, Nat.add_mul_mod_self_left]
  have hcoef := jLoop_coef_eq 64 coef0 (64 * blk) hlow
  have hlinV := jLoop_lin 64 (64 * blk)
    (lin_init (val (st.sb.take st.size)) (val (st.sc.take st.size)) st.len)
  rw [Nat.zero_add, ← hcoef] at hlinV
  generalize hj : jLoop 64 (64 * blk) (⟨sb0.toNat, sc0.toNat, st.len⟩, coef0) = jl at hir hlin0 hlinV
  obtain ⟨e64, k⟩ := jl
  have hEV : (jLoop 64 (64 * blk)
      (⟨val (st.sb.take st.size), val (st.sc.take st.size), st.len⟩, coef0)).1
      = eLoop 64 (64 * blk) ⟨val (st.sb.take st.size), val (st.sc.take st.size), st.len⟩ :=
    jLoop_fst _ _ _
  generalize hjV : jLoop 64 (64 * blk)
    (⟨val (st.sb.take st.size), val (st.sc.take st.size), st.len⟩, coef0) = jV at hlinV hEV
  -- the assembly
  obtain ⟨st', hst', l1, l2, l3, l4, hsz', hlen', hvb, hvc⟩ := clAssemble_val st sb0 sc0 sbT scT r hsb hsc
    (by rw [lsc, lsb]) (by rw [ltb, lsb]) (by rw [ltc, lsb]) hs (by omega)
  have e64' : (2 : Nat) ^ 64 = 18446744073709551616 := by norm_num
  have e65 : (2 : Nat) ^ (64 + 1) = 36893488147419103232 := by norm_num
  have hA := hir.hA
  have hC := hir.hC
  have hAa := hir.a
  have hCc := hir.c
  simp only at hA hC hAa hCc
  have hra := r.a.toNat_lt
  have hrc := r.c.toNat_lt
  have hcA : r.carryA.toNat ≤ 1 := by omega
  have hcC : r.carryC.toNat ≤ 1 := by omega
  have hs'1 : st.size - 1 = s' := by omega
  rw [hs'1] at hvb hvc
  have hPV : jV.1.P = val (st'.sb.take st.size) := by
    rw [hlinV.p, hvb, combP, hVsb, hVsc]
    have := comb_split (val (sbT.take s')) (val (scT.take s')) hAa hra hcA sb0.toNat_lt sc0.toNat_lt
      (hlin0.p.symm.trans hir.sb0.symm) r.sb0.toNat_lt
    rw [this, hir.b]
    simp only [carry_ne_zero]
  have hQV : jV.1.Q = val (st'.sc.take st.size) := by
    rw [hlinV.q, hvc, combQ, hVsb, hVsc]
    have := comb_split (val (sbT.take s')) (val (scT.take s')) hCc hrc hcC sb0.toNat_lt sc0.toNat_lt
      (hlin0.q.symm.trans hir.sc0.symm) r.sc0.toNat_lt
    rw [this, hir.d]
    simp only [carry_ne_zero]
  -- locality: the truncated registers follow the true ones
  have hmod := eLoop_mod 64 (m := 64 * s') (64 * blk)
    (show EqMod (64 * s' + 64) _ E by rw [show 64 * s' + 64 = 64 * st.size by omega]; exact heq)
  rw [← hEV] at hmod
  refine ⟨st', ?_, ⟨l1.trans lsb, l2.trans lsb, l3.trans lsb, l4.trans lsb, by omega, ?_⟩⟩
  · unfold clBlock
    rw [hsb, hsc]
    exact hst'
  · have hsz2 : st'.size = s' := by omega
    rw [hsz2]
    have ht : ∀ l : Words, val (l.take s') = val (l.take st.size) % 2 ^ (64 * s') := by
      intro l
      rw [← val_take (l.take st.size) s', List.take_take, Nat.min_eq_left (by omega)]
    refine ⟨?_, ?_, ?_⟩
    · show val (st'.sb.take s') % _ = _
      rw [ht, Nat.mod_mod, ← hPV]
      exact hmod.p
    · show val (st'.sc.take s') % _ = _
      rw [ht, Nat.mod_mod, ← hQV]
      exact hmod.q
    · show st'.len = _
      rw [hlen', hir.len]
      have := hmod.l
      rw [← this]
      have hl0 := (eLoop_mod 64 (m := 0) (64 * blk) (by simpa using hlow)).l
      have h1 := jLoop_fst 64 (64 * blk) (⟨sb0.toNat, sc0.toNat, st.len⟩, coef0)
      rw [hj] at h1
      rw [h1, hEV]
      exact hl0

/-! ### the outer loop, the tail loop, the result -/

theorem eLoop_add (a : Nat) : ∀ (b i : Nat) (e : EState), eLoop (a + b) i e = eLoop b (i + a) (eLoop a i e) := by
  induction a with
  | zero => intro b i e; simp [eLoop]
  | succ a ih =>
    intro b i e
    rw [show a + 1 + b = (a + b) + 1 by omega]
    show eLoop (a + b) (i + 1) (eStep i e) = eLoop b (i + (a + 1)) (eLoop a (i + 1) (eStep i e))
    rw [ih, show i + 1 + a = i + (a + 1) by omega]

theorem clBlocks_sim {W : Nat} (m : Nat) : ∀ {blk : Nat} {st : ClState} {E : EState},
    ClRel W blk st E → blk + m ≤ W →
    ∃ st', clBlocks m (64 * blk) st = some st' ∧ ClRel W (blk + m) st' (eLoop (64 * m) (64 * blk) E) := by
  induction m with
  | zero => intro blk st E h _; exact ⟨st, rfl, h⟩
  | succ m ih =>
    intro blk st E h hm
    have hsz := h.size
    obtain ⟨st1, h1, hr1⟩ := clBlock_sim h (by omega)
    obtain ⟨st2, h2, hr2⟩ := ih hr1 (by omega)
    refine ⟨st2, ?_, ?_⟩
    · show (match clBlock (64 * blk) st with | none => none | some st' => clBlocks m (64 * blk + 64) st') = _
      rw [h1]
      exact h2
    · rw [show 64 * (m + 1) = 64 + 64 * m by omega, eLoop_add,
        show blk + (m + 1) = blk + 1 + m by omega, show 64 * blk + 64 = 64 * (blk + 1) by omega]
      exact hr2

structure TRel (r : Tail) (e : EState) : Prop where
  sb0 : r.sb0.toNat = e.P
  sc0 : r.sc0.toNat = e.Q
  len : r.len = e.L

theorem tailStep_sim {r : Tail} {e : EState} (h : TRel r e) (i : Nat) :
    TRel (tailStep i r) (eStep i e) := by
  have hbit : (r.sc0 &&& 1 = 1) ↔ e.Q.testBit 0 = true := by rw [word_and_one, h.sc0]
  unfold tailStep eStep
  rw [h.len]
  by_cases hd : e.Q.testBit 0 = true
  · rw [if_pos (hbit.2 hd), if_pos hd]
    by_cases hl : 2 * e.L ≤ i
    · rw [if_pos hl, if_pos hl]
      exact ⟨by rw [w_shr1, h.sc0], by rw [UInt64.toNat_xor, w_shr1, h.sc0, h.sb0], rfl⟩
    · rw [if_neg hl, if_neg hl]
      exact ⟨h.sb0, by rw [UInt64.toNat_xor, w_shr1, h.sc0, h.sb0], rfl⟩
  · rw [if_neg (fun hh => hd (hbit.1 hh)), if_neg hd]
    exact ⟨h.sb0, by rw [w_shr1, h.sc0], rfl⟩

theorem tailLoop_sim (k : Nat) : ∀ {r : Tail} {e : EState} (i : Nat), TRel r e →
    TRel (tailLoop k i r) (eLoop k i e) := by
  induction k with
  | zero => intro r e i h; exact h
  | succ k ih => intro r e i h; exact ih (i + 1) (tailStep_sim h i)

/-- **CLMUL simulation theorem** (word vectors): for every word vector and every `n` that fits
(`n ≤ 64·seq.size()`), the CLMUL `LfsrLengthImpl` performs no out-of-bounds access and returns
`LinearComplexityNative(val seq, n)`. -/
theorem lfsrLengthImplClmul_eq (seq : Words) (n : Nat) (h : n ≤ 64 * seq.length) :
    lfsrLengthImplClmul seq n = some (bmLength (val seq) n) := by
  unfold lfsrLengthImplClmul
  by_cases h0 : n = 0
  · rw [if_pos h0, h0]; rfl
  rw [if_neg h0]
  have hW : 1 ≤ seq.length := by omega
  have hinit : ClRel seq.length 0
      { sb := seq, sc := seq, tb := List.replicate seq.length 0, tc := List.replicate seq.length 0,
        len := 0, size := seq.length } ⟨val seq, val seq, 0⟩ := by
    refine ⟨rfl, rfl, by simp, by simp, rfl, ?_⟩
    simp only [List.take_length]
    exact ⟨rfl, rfl, rfl⟩
  obtain ⟨st, hst, hr⟩ := clBlocks_sim (n / 64) hinit (by omega)
  simp only [Nat.mul_zero, Nat.zero_add] at hst hr
  rw [hst]
  simp only
  obtain ⟨lsb, lsc, _, _, hsize, heq⟩ := hr
  obtain ⟨sb0, sbT, hsb⟩ : ∃ sb0 sbT, st.sb = sb0 :: sbT := by
    cases hh : st.sb with
    | nil => rw [hh] at lsb; simp at lsb; omega
    | cons a l => exact ⟨a, l, rfl⟩
  obtain ⟨sc0, scT, hsc⟩ : ∃ sc0 scT, st.sc = sc0 :: scT := by
    cases hh : st.sc with
    | nil => rw [hh] at lsc; simp at lsc; omega
    | cons a l => exact ⟨a, l, rfl⟩
  unfold clTail
  rw [hsb, hsc]
  simp only
  congr 1
  have hn : n = 64 * (n / 64) + n % 64 := (Nat.div_add_mod n 64).symm
  have hsub : n - n % 64 = 64 * (n / 64) := by omega
  rw [hsub, (tailLoop_sim (n % 64) (64 * (n / 64))
    (r := { sb0 := sb0, sc0 := sc0, len := st.len }) (e := ⟨sb0.toNat, sc0.toNat, st.len⟩)
    ⟨rfl, rfl, rfl⟩).len, ← eLoop_L]
  conv => rhs; rw [hn, eLoop_add, Nat.zero_add]
  by_cases hs : st.size = 0
  · -- all words consumed: no tail
    have hr0 : n % 64 = 0 := by omega
    rw [hr0]
    show st.len = _
    exact heq.l
  · obtain ⟨s', hs'⟩ : ∃ s', st.size = s' + 1 := ⟨st.size - 1, by omega⟩
    have hlow : EqMod 64 ⟨sb0.toNat, sc0.toNat, st.len⟩
        (eLoop (64 * (n / 64)) 0 ⟨val seq, val seq, 0⟩) := by
      have hd : 2 ^ 64 ∣ 2 ^ (64 * st.size) := Nat.pow_dvd_pow 2 (by omega)
      refine ⟨?_, ?_, heq.l⟩
      · have := heq.p
        simp only at this
        have hv : val (st.sb.take st.size) % 2 ^ 64 = sb0.toNat % 2 ^ 64 := by
          rw [hsb, hs', List.take_succ_cons, val_cons, Nat.add_mul_mod_self_left]
        show sb0.toNat % 2 ^ 64 = _
        rw [← hv, ← Nat.mod_mod_of_dvd (val (st.sb.take st.size)) hd, this, Nat.mod_mod_of_dvd _ hd]
      · have := heq.q
        simp only at this
        have hv : val (st.sc.take st.size) % 2 ^ 64 = sc0.toNat % 2 ^ 64 := by
          rw [hsc, hs', List.take_succ_cons, val_cons, Nat.add_mul_mod_self_left]
        show sc0.toNat % 2 ^ 64 = _
        rw [← hv, ← Nat.mod_mod_of_dvd (val (st.sc.take st.size)) hd, this, Nat.mod_mod_of_dvd _ hd]
    have hlt : n % 64 < 64 := Nat.mod_lt _ (by omega)
    exact (eLoop_mod (n % 64) (m := 64 - n % 64) (64 * (n / 64))
      (by rw [show 64 - n % 64 + n % 64 = 64 by omega]; exact hlow)).l

end Paranoid.BMCpp
