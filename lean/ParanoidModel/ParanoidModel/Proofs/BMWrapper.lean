/-
Proofs/BMWrapper.lean — the glue between the Python wrapper `berlekamp_massey.LinearComplexity`
and the word-level C++ model: `int.to_bytes(size, "little")` (`bytesOfNat`), its round trip with
`int.from_bytes(·, "little")` (`natOfBytes`) for ALL lengths, and the wrapper composed with the
C++ entry point `LfsrLengthStr` (`linearComplexityCpp`).  Used by Props/C14Wrapper.lean.
-/
import ParanoidModel.Model.BMWrapper
import ParanoidModel.Proofs.BMCpp
import ParanoidModel.Proofs.BMCppBounded
namespace Paranoid.BMCpp
open Paranoid

/-! ### `to_bytes` / `from_bytes` round trip, every length -/

theorem length_bytesOfNat : ∀ (k s : Nat), (bytesOfNat k s).length = k
  | 0, _ => rfl
  | k + 1, s => by simp [bytesOfNat, length_bytesOfNat k]

theorem toUInt8_toNat_mod (s : Nat) : (s % 256).toUInt8.toNat = s % 256 := by
  simp [Nat.toUInt8, UInt8.toNat_ofNat']

/-- `int.from_bytes(int.to_bytes(s mod 256^k, k, "little"), "little") = s mod 256^k`. -/
theorem natOfBytes_bytesOfNat_mod : ∀ (k s : Nat), natOfBytes (bytesOfNat k s) = s % 256 ^ k
  | 0, s => by simp [bytesOfNat, natOfBytes, Nat.mod_one]
  | k + 1, s => by
    rw [bytesOfNat, natOfBytes, natOfBytes_bytesOfNat_mod k, toUInt8_toNat_mod, Nat.pow_succ,
      Nat.mul_comm (256 ^ k) 256, Nat.mod_mul]

/-- the round trip: for `s < 256^k` (exactly when `to_bytes` does not raise OverflowError). -/
theorem natOfBytes_bytesOfNat (k s : Nat) (h : s < 256 ^ k) : natOfBytes (bytesOfNat k s) = s := by
  rw [natOfBytes_bytesOfNat_mod, Nat.mod_eq_of_lt h]

/-- the other direction: every byte string is the `to_bytes` of its `from_bytes`. -/
theorem bytesOfNat_natOfBytes : ∀ seq : List UInt8, bytesOfNat seq.length (natOfBytes seq) = seq
  | [] => rfl
  | b :: bs => by
    have hb : b.toNat < 256 := b.toNat_lt
    have h1 : (b.toNat + 256 * natOfBytes bs) % 256 = b.toNat := by omega
    have h2 : (b.toNat + 256 * natOfBytes bs) / 256 = natOfBytes bs := by omega
    rw [List.length_cons, natOfBytes, bytesOfNat, h1, h2, bytesOfNat_natOfBytes bs]
    congr 1
    apply UInt8.toNat_inj.mp
    simp [Nat.toUInt8]

theorem natOfBytes_lt_pow256 (seq : List UInt8) : natOfBytes seq < 256 ^ seq.length := by
  have := natOfBytes_lt seq
  rwa [Nat.pow_mul, show (2 : Nat) ^ 8 = 256 from rfl] at this

/-- the model's `bytesLE` is the `bytesOfNat` of the bounded cross-check. -/
@[simp] theorem bytesLE_eq : ∀ (k s : Nat), bytesLE k s = bytesOfNat k s
  | 0, _ => rfl
  | k + 1, s => by rw [bytesLE, bytesOfNat, bytesLE_eq k]

end Paranoid.BMCpp
