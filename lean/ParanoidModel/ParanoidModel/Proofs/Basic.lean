/-
Proofs/Basic.lean — lemmas about the integer primitives of Model/Basic.lean:
`bitLength` bounds, `invMod` (= `gmpy2.invert`) specification incl. sufficiency of the fuel
`2 * bitLength m + 2` of its extended Euclid, and the `Bytes2Int` / `Int2Bytes` round trips.
-/
import ParanoidModel.Model.Basic
import Mathlib.Tactic.Ring
import Mathlib.Tactic.Linarith
import Mathlib.Data.Int.GCD
import Mathlib.Data.Int.ModEq
import Mathlib.Data.List.Induction
namespace Paranoid

theorem bitLength_le_iff (n k : Nat) : bitLength n ≤ k ↔ n < 2 ^ k := by
  unfold bitLength
  split
  · subst n; simp
  · rename_i h
    rw [← Nat.log2_lt h]; omega

theorem lt_two_pow_bitLength (n : Nat) : n < 2 ^ bitLength n :=
  (bitLength_le_iff n _).1 (Nat.le_refl _)

theorem two_pow_le_of_bitLength (n : Nat) (h : n ≠ 0) : 2 ^ (bitLength n - 1) ≤ n := by
  have : ¬ bitLength n ≤ bitLength n - 1 := by
    have : bitLength n ≠ 0 := by unfold bitLength; simp [h]
    omega
  rw [bitLength_le_iff] at this
  omega

theorem bitLength_mono {a b : Nat} (h : a ≤ b) : bitLength a ≤ bitLength b := by
  rw [bitLength_le_iff]; exact Nat.lt_of_le_of_lt h (lt_two_pow_bitLength b)

theorem bitLength_lt_of_two_mul_le {a b : Nat} (hb : 0 < b) (h : 2 * a ≤ b) :
    bitLength a < bitLength b := by
  have h1 : bitLength a ≤ bitLength b - 1 := by
    rw [bitLength_le_iff]
    have := lt_two_pow_bitLength b
    have hb' : bitLength b ≠ 0 := by unfold bitLength; simp; omega
    have e : 2 ^ bitLength b = 2 * 2 ^ (bitLength b - 1) := by
      conv_lhs => rw [show bitLength b = (bitLength b - 1) + 1 by omega]
      rw [Nat.pow_succ]; ring
    omega
  have hb' : bitLength b ≠ 0 := by unfold bitLength; simp; omega
  omega
end Paranoid

namespace Paranoid
/-! ### `invMod` = `gmpy2.invert`

Invariant of the extended Euclid `egcdAux`: `r0 ≡ A*s0`, `r1 ≡ A*s1 (mod M)`,
`gcd r0 r1` constant; the fuel bound `bitLength r0 + bitLength r1 + 1` decreases at every
step because `r0 % r1 < r0 / 2` when `r1 < r0`. -/

theorem egcdAux_spec (A M : Int) : ∀ (fuel : Nat) (r0 r1 s0 s1 : Int),
    0 ≤ r1 → r1 < r0 →
    bitLength r0.toNat + bitLength r1.toNat + 1 ≤ fuel →
    r0 ≡ A * s0 [ZMOD M] → r1 ≡ A * s1 [ZMOD M] →
    (egcdAux fuel r0 r1 s0 s1).1 = Int.gcd r0 r1 ∧
    (egcdAux fuel r0 r1 s0 s1).1 ≡ A * (egcdAux fuel r0 r1 s0 s1).2 [ZMOD M]
  | 0, _, _, _, _, _, _, hf, _, _ => by omega
  | fuel + 1, r0, r1, s0, s1, h1, h01, hf, c0, c1 => by
    unfold egcdAux
    split
    · rename_i hz
      subst hz
      refine ⟨?_, c0⟩
      simp only [Int.gcd_zero_right]
      omega
    · rename_i hz
      simp only
      have hpos : 0 < r1 := by omega
      have hq : 1 ≤ r0 / r1 := Int.le_ediv_of_mul_le hpos (by omega)
      have hrem : r0 - r0 / r1 * r1 = r0 % r1 := by rw [Int.emod_def]; ring
      have hr0 : 0 ≤ r0 % r1 := Int.emod_nonneg _ hz
      have hr1 : r0 % r1 < r1 := Int.emod_lt_of_pos _ hpos
      rw [hrem]
      have hmeas : bitLength r1.toNat + bitLength (r0 % r1).toNat + 1 ≤ fuel := by
        have : bitLength (r0 % r1).toNat < bitLength r0.toNat := by
          apply bitLength_lt_of_two_mul_le
          · omega
          · have e := Int.emod_add_mul_ediv r0 r1
            have : r1 * 1 ≤ r1 * (r0 / r1) := Int.mul_le_mul_of_nonneg_left hq (by omega)
            omega
        omega
      have c2 : r0 % r1 ≡ A * (s0 - r0 / r1 * s1) [ZMOD M] := by
        rw [← hrem]
        have := (c0.sub (c1.mul_left (r0 / r1)))
        refine this.trans ?_
        have e : A * s0 - r0 / r1 * (A * s1) = A * (s0 - r0 / r1 * s1) := by ring
        rw [e]
      have ih := egcdAux_spec A M fuel r1 (r0 % r1) s1 (s0 - r0 / r1 * s1) hr0 hr1 hmeas c1 c2
      refine ⟨?_, ih.2⟩
      rw [ih.1, Int.gcd_comm r1, Int.gcd_emod, Int.gcd_comm]
end Paranoid

namespace Paranoid

/-- what the extended Euclid inside `invMod` computes, for `m ≥ 1`. -/
theorem invMod_egcd (a : Int) (m : Nat) (hm : 0 < m) :
    (egcdAux (2 * bitLength m + 2) (a % (m : Int)) m 1 0).1 = Int.gcd a m ∧
    (egcdAux (2 * bitLength m + 2) (a % (m : Int)) m 1 0).1 ≡
      a * (egcdAux (2 * bitLength m + 2) (a % (m : Int)) m 1 0).2 [ZMOD (m : Int)] := by
  have hmz : (m : Int) ≠ 0 := by omega
  have h0 : 0 ≤ a % (m : Int) := Int.emod_nonneg _ hmz
  have h1 : a % (m : Int) < m := Int.emod_lt_of_pos _ (by omega)
  have hstep : egcdAux (2 * bitLength m + 2) (a % (m : Int)) m 1 0 =
      egcdAux (2 * bitLength m + 1) m (a % (m : Int)) 0 1 := by
    rw [show 2 * bitLength m + 2 = (2 * bitLength m + 1) + 1 from rfl, egcdAux]
    have hq : a % (m : Int) / (m : Int) = 0 := Int.ediv_eq_zero_of_lt h0 h1
    have hm0 : m ≠ 0 := by omega
    simp [hm0, hq]
  rw [hstep]
  have hmeas : bitLength (m : Int).toNat + bitLength (a % (m : Int)).toNat + 1 ≤
      2 * bitLength m + 1 := by
    have : bitLength (a % (m : Int)).toNat ≤ bitLength m := bitLength_mono (by omega)
    simp only [Int.toNat_natCast]
    omega
  have c0 : (m : Int) ≡ (a % (m : Int)) * 0 [ZMOD (m : Int)] := by
    simp [Int.ModEq]
  have c1 : a % (m : Int) ≡ (a % (m : Int)) * 1 [ZMOD (m : Int)] := by simp
  have := egcdAux_spec (a % (m : Int)) m _ _ _ _ _ h0 h1 hmeas c0 c1
  refine ⟨?_, ?_⟩
  · rw [this.1, Int.gcd_comm, Int.gcd_emod]
  · refine this.2.trans ?_
    exact (Int.mod_modEq a m).mul_right _

theorem invMod_zero (a : Int) : invMod a 0 = .error .zeroDivision := by simp [invMod]

theorem invMod_one (a : Int) : invMod a 1 = .ok 0 := by
  unfold invMod
  simp only [Nat.succ_ne_zero, ↓reduceIte]
  split
  · simp [Int.emod_one]
  · rfl
theorem invMod_cases (a : Int) (m : Nat) (hm : 2 ≤ m) :
    (Int.gcd a m = 1 ∧ ∃ x : Nat, invMod a m = .ok x ∧ x < m ∧ (a * x) % (m : Int) = 1) ∨
    (Int.gcd a m ≠ 1 ∧ invMod a m = .error .zeroDivision) := by
  have hmz : (m : Int) ≠ 0 := by omega
  obtain ⟨hg, hc⟩ := invMod_egcd a m (by omega)
  unfold invMod
  have hm0 : m ≠ 0 := by omega
  have hm1 : m ≠ 1 := by omega
  simp only [hm0, hm1, ↓reduceIte]
  generalize egcdAux (2 * bitLength m + 2) (a % (m : Int)) m 1 0 = p at hg hc
  obtain ⟨g, x⟩ := p
  simp only at hg hc ⊢
  by_cases h1 : g = 1
  · left
    subst h1
    simp only [↓reduceIte]
    refine ⟨by omega, _, rfl, ?_, ?_⟩
    · have := Int.emod_lt_of_pos x (show (0 : Int) < m by omega)
      have := Int.emod_nonneg x hmz
      omega
    · have h0 := Int.emod_nonneg x hmz
      rw [Int.toNat_of_nonneg h0]
      have e : a * (x % (m : Int)) ≡ 1 [ZMOD (m : Int)] :=
        ((Int.mod_modEq x m).mul_left a).trans hc.symm
      rw [Int.ModEq] at e
      rw [e]
      exact Int.emod_eq_of_lt (by omega) (by omega)
  · right
    simp only [h1, ↓reduceIte]
    refine ⟨?_, trivial⟩
    intro h
    apply h1
    rw [hg, h]; rfl
end Paranoid

namespace Paranoid

/-! ### Bytes2Int / Int2Bytes -/

theorem bytes2int_append_singleton (l : List Nat) (x : Nat) :
    bytes2int (l ++ [x]) = bytes2int l * 256 + x := by
  simp [bytes2int, List.foldl_append]

theorem bytes2int_foldl (l : List Nat) (acc : Nat) :
    l.foldl (fun a x => a * 256 + x) acc = acc * 256 ^ l.length + bytes2int l := by
  induction l generalizing acc with
  | nil => simp [bytes2int]
  | cons x t ih =>
    simp only [List.foldl_cons, List.length_cons, bytes2int]
    rw [ih, ih (0 * 256 + x)]
    ring

theorem bytes2int_cons (x : Nat) (t : List Nat) :
    bytes2int (x :: t) = x * 256 ^ t.length + bytes2int t := by
  simp only [bytes2int, List.foldl_cons]
  rw [bytes2int_foldl]; simp [bytes2int]

theorem bytes2int_lt (l : List Nat) (h : ∀ x ∈ l, x < 256) : bytes2int l < 256 ^ l.length := by
  induction l with
  | nil => simp [bytes2int]
  | cons x t ih =>
    rw [bytes2int_cons, List.length_cons, Nat.pow_succ]
    have hx := h x (by simp)
    have ht := ih (fun y hy => h y (by simp [hy]))
    nlinarith

theorem int2bytesLen_succ (n len : Nat) :
    int2bytesLen n (len + 1) = int2bytesLen (n / 256) len ++ [n % 256] := by
  unfold int2bytesLen
  rw [List.range_succ, List.map_append]
  congr 1
  · apply List.map_congr_left
    intro i hi
    rw [List.mem_range] at hi
    have e : len + 1 - 1 - i = (len - 1 - i) + 1 := by omega
    rw [e, Nat.pow_succ, Nat.mul_comm, Nat.div_div_eq_div_mul]
  · simp

theorem int2bytesLen_length (n len : Nat) : (int2bytesLen n len).length = len := by
  simp [int2bytesLen]

theorem int2bytesLen_lt (n len : Nat) : ∀ x ∈ int2bytesLen n len, x < 256 := by
  intro x hx
  simp only [int2bytesLen, List.mem_map] at hx
  obtain ⟨i, _, rfl⟩ := hx
  exact Nat.mod_lt _ (by decide)

theorem bytes2int_int2bytesLen (len : Nat) : ∀ n, bytes2int (int2bytesLen n len) = n % 256 ^ len := by
  induction len with
  | zero => intro n; simp [int2bytesLen, bytes2int, Nat.mod_one]
  | succ len ih =>
    intro n
    rw [int2bytesLen_succ, bytes2int_append_singleton, ih, Nat.pow_succ]
    rw [Nat.mul_comm (256 ^ len) 256, Nat.mod_mul, Nat.mul_comm]
    omega

/-- number of bytes `(bit_length + 7) // 8`. -/
theorem byteLen_le_iff (n k : Nat) : (bitLength n + 7) / 8 ≤ k ↔ n < 256 ^ k := by
  have e : (256 : Nat) ^ k = 2 ^ (8 * k) := by
    rw [Nat.pow_mul]
  rw [e, ← bitLength_le_iff]
  omega

/-- `Bytes2Int(Int2Bytes(v)) = v` for every `v ≥ 0`. -/
theorem bytes2int_int2bytes (v : Nat) : bytes2int (int2bytes v) = v := by
  unfold int2bytes
  rw [bytes2int_int2bytesLen]
  exact Nat.mod_eq_of_lt ((byteLen_le_iff v _).1 (Nat.le_refl _))

theorem int2bytesLen_bytes2int (b : List Nat) (h : ∀ x ∈ b, x < 256) :
    int2bytesLen (bytes2int b) b.length = b := by
  induction b using List.reverseRecOn with
  | nil => simp [int2bytesLen]
  | append_singleton l x ih =>
    have hx : x < 256 := h x (by simp)
    rw [List.length_append, List.length_singleton, int2bytesLen_succ, bytes2int_append_singleton]
    have e1 : (bytes2int l * 256 + x) / 256 = bytes2int l := by omega
    have e2 : (bytes2int l * 256 + x) % 256 = x := by omega
    rw [e1, e2, ih (fun y hy => h y (by simp [hy]))]

theorem bytes2int_zeros_append (k : Nat) (b : List Nat) :
    bytes2int (List.replicate k 0 ++ b) = bytes2int b := by
  induction k with
  | zero => simp
  | succ k ih => rw [List.replicate_succ, List.cons_append, bytes2int_cons, ih]; simp

theorem dropWhile_zero_eq (b : List Nat) :
    ∃ k, b = List.replicate k 0 ++ b.dropWhile (· = 0) := by
  induction b with
  | nil => exact ⟨0, by simp⟩
  | cons x t ih =>
    by_cases hx : x = 0
    · obtain ⟨k, hk⟩ := ih
      refine ⟨k + 1, ?_⟩
      subst hx
      simp only [List.dropWhile_cons, decide_true, ↓reduceIte, List.replicate_succ, List.cons_append]
      rw [← hk]
    · exact ⟨0, by simp [hx]⟩

theorem int2bytes_of_head_ne_zero (x : Nat) (t : List Nat) (hx : x ≠ 0)
    (h : ∀ y ∈ x :: t, y < 256) : int2bytes (bytes2int (x :: t)) = x :: t := by
  have hlen : (bitLength (bytes2int (x :: t)) + 7) / 8 = t.length + 1 := by
    apply Nat.le_antisymm
    · rw [byteLen_le_iff]; exact bytes2int_lt (x :: t) h
    · have : ¬ (bitLength (bytes2int (x :: t)) + 7) / 8 ≤ t.length := by
        rw [byteLen_le_iff, bytes2int_cons]
        have : 1 * 256 ^ t.length ≤ x * 256 ^ t.length := Nat.mul_le_mul_right _ (by omega)
        omega
      omega
  unfold int2bytes
  rw [hlen]
  exact int2bytesLen_bytes2int (x :: t) h

/-- `Int2Bytes(Bytes2Int(b))` strips exactly the leading zero bytes. -/
theorem int2bytes_bytes2int (b : List Nat) (h : ∀ x ∈ b, x < 256) :
    int2bytes (bytes2int b) = b.dropWhile (· = 0) := by
  obtain ⟨k, hk⟩ := dropWhile_zero_eq b
  have hb : bytes2int b = bytes2int (b.dropWhile (· = 0)) := by
    conv_lhs => rw [hk]
    exact bytes2int_zeros_append k _
  rw [hb]
  cases hd : b.dropWhile (· = 0) with
  | nil => simp [bytes2int, int2bytes, int2bytesLen, bitLength]
  | cons x t =>
    have hx : x ≠ 0 := by
      have := List.head?_dropWhile_not (· = 0) b
      rw [hd] at this
      simpa using this
    apply int2bytes_of_head_ne_zero x t hx
    intro y hy
    apply h y
    have : y ∈ b.dropWhile (· = 0) := by rw [hd]; exact hy
    exact (List.dropWhile_sublist _).subset this
end Paranoid
