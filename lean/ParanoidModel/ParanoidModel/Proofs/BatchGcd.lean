/-
Proofs/BatchGcd.lean — rsa_util.BatchGCD: the remainder tree computes, for every value `v`,
`gcd v (∏ (other distinct values) * other)`.
-/
import ParanoidModel.Model.BatchGcd
import ParanoidModel.Proofs.NTheoryTree
import Mathlib.Data.Nat.GCD.BigOperators
import Mathlib.Algebra.BigOperators.Group.Finset.Basic
import Mathlib.Data.Finset.Dedup
import Mathlib.Data.List.Forall2

namespace Paranoid

/-! ### remainder tree -/

/-- `rems_j ≡ X (mod nodes_j)` position by position (in particular equal lengths). -/
def RemInv (X : Nat) (rems nodes : List Nat) : Prop :=
  List.Forall₂ (fun r n => r ≡ X [MOD n]) rems nodes

theorem pyModNat_pos {r a : Nat} (h : 0 < a) : pyModNat r a = .ok (r % a) := by
  have : a ≠ 0 := by omega
  simp [pyModNat, this]

/-- one step down: if the parents' remainders are right, so are the children's, and no
exception is raised (positive nodes). -/
theorem remStep_inv (X : Nat) (level : List Nat) : ∀ (prev : List Nat),
    (∀ x ∈ level, 0 < x) → RemInv X prev (pairProd level) →
    ∃ rems, remStep level prev = .ok rems ∧ RemInv X rems level := by
  fun_induction pairProd level with
  | case1 a b rest ih =>
    intro prev hpos h
    cases h with
    | cons hr hrs =>
      rename_i r rs
      have ha : 0 < a := hpos a (by simp)
      have hb : 0 < b := hpos b (by simp)
      obtain ⟨rest', hrest, hF⟩ := ih rs (fun x hx => hpos x (by simp [hx])) hrs
      refine ⟨r % a :: r % b :: rest', ?_, ?_⟩
      · simp only [remStep, pyModNat_pos ha, pyModNat_pos hb, hrest]
        rfl
      · refine List.Forall₂.cons ?_ (List.Forall₂.cons ?_ hF)
        · exact (Nat.mod_modEq r a).trans (hr.of_mul_right b)
        · exact (Nat.mod_modEq r b).trans (hr.of_mul_left a)
  | case2 a =>
    intro prev hpos h
    cases h with
    | cons hr hrs =>
      cases hrs
      rename_i r
      refine ⟨[r], rfl, List.Forall₂.cons ?_ List.Forall₂.nil⟩
      simpa using hr
  | case3 =>
    intro prev hpos h
    cases h
    exact ⟨[], rfl, List.Forall₂.nil⟩

theorem remTree_append (A : List (List Nat)) (u prev : List Nat) :
    remTree (A ++ [u]) prev = remTree A prev >>= remStep u := by
  induction A generalizing prev with
  | nil => simp [remTree]
  | cons a A ih =>
    simp only [List.cons_append, remTree, ih, bind_assoc]

/-- ★ remainder-tree invariant: walking `levels u` from the root down with `[X]` at the root
ends, without exception, with `rem_j ≡ X (mod u_j)` at every leaf. -/
theorem remTree_inv (X : Nat) (u : List Nat) (hne : u ≠ []) (hpos : ∀ x ∈ u, 0 < x) :
    ∃ rems, remTree (levels u).reverse [X] = .ok rems ∧ RemInv X rems u := by
  induction h : u.length using Nat.strong_induction_on generalizing u with
  | _ n ih =>
    by_cases h2 : 2 ≤ u.length
    · obtain ⟨prev, hprev, hF⟩ := ih _ (by rw [← h]; exact pairProd_length_lt u h2) (pairProd u)
        (pairProd_ne_nil hne) (pairProd_pos hpos) rfl
      obtain ⟨rems, hrems, hG⟩ := remStep_inv X u prev hpos hF
      refine ⟨rems, ?_, hG⟩
      rw [levels_of_two_le h2, List.reverse_cons, remTree_append, hprev]
      exact hrems
    · match u, hne, h2 with
      | [a], _, _ =>
        refine ⟨[X], ?_, List.Forall₂.cons (Nat.ModEq.refl _) List.Forall₂.nil⟩
        rw [levels_of_lt_two (by simp)]
        rfl
      | _ :: _ :: _, _, h2 => simp at h2

/-! ### the dictionary -/

theorem lookupGcd_zip (X v : Nat) (rems u : List Nat) (h : RemInv X rems u) (hv : v ∈ u) :
    lookupGcd v (u.zip rems) = .ok (Nat.gcd v X) := by
  induction h with
  | nil => simp at hv
  | @cons r n rs ns hr _ ih =>
    simp only [List.zip_cons_cons, lookupGcd]
    by_cases hnv : n = v
    · subst hnv
      rw [if_pos rfl, Nat.gcd_comm n r, hr.gcd_eq, Nat.gcd_comm]
    · rw [if_neg hnv]
      apply ih
      rcases List.mem_cons.1 hv with h | h
      · exact absurd h.symm hnv
      · exact h

theorem lookupAll_ok (table : List (Nat × Nat)) (g : Nat → Nat) (values : List Nat)
    (h : ∀ v ∈ values, lookupGcd v table = .ok (g v)) :
    lookupAll table values = .ok (values.map g) := by
  induction values with
  | nil => rfl
  | cons v vs ih =>
    simp only [lookupAll, h v (by simp), ih (fun w hw => h w (by simp [hw]))]
    rfl

/-! ### BatchGCD -/

/-- the factor `other_values_prod` contributes: `None` and `0` count as `1`. -/
def otherVal : Option Nat → Nat
  | none => 1
  | some o => if o = 0 then 1 else o

theorem scaleT_eq (t : Nat) (other : Option Nat) : scaleT t other = t * otherVal other := by
  cases other with
  | none => simp [scaleT, otherVal]
  | some o => by_cases h : o = 0 <;> simp [scaleT, otherVal, h]

/-- entry of the result for `v`, in terms of the enumeration `u` of the value set. -/
def entryL (u : List Nat) (o : Nat) (v : Nat) : Nat := Nat.gcd v ((u.erase v).prod * o)

/-- pinned `BatchGCD`, general form: any non-empty list `u` of positive numbers containing every
value (duplicate-free or not). -/
theorem batchGCDPinnedWith_spec (u values : List Nat) (other : Option Nat)
    (hne : u ≠ []) (hpos : ∀ x ∈ u, 0 < x) (hsub : ∀ v ∈ values, v ∈ u) :
    batchGCDPinnedWith u values other = .ok (values.map (entryL u (otherVal other))) := by
  obtain ⟨rems, hrems, hinv⟩ := remTree_inv (sumOthers u * otherVal other) u hne hpos
  unfold batchGCDPinnedWith
  rw [extendedProductTree_eq u hne]
  simp only [bind, Except.bind, scaleT_eq, hrems]
  apply lookupAll_ok
  intro v hv
  rw [lookupGcd_zip _ v rems u hinv (hsub v hv)]
  congr 1
  unfold entryL
  rw [Nat.gcd_comm, Nat.gcd_comm v]
  exact ((sumOthers_modEq u v (hsub v hv)).mul_right _).gcd_eq

/-- repaired `BatchGCD`: same statement, the enumeration may even be empty when the batch is. -/
theorem batchGCDWith_spec (u values : List Nat) (other : Option Nat)
    (hpos : ∀ x ∈ u, 0 < x) (hsub : ∀ v ∈ values, v ∈ u) :
    batchGCDWith u values other = .ok (values.map (entryL u (otherVal other))) := by
  cases values with
  | nil => rfl
  | cons v vs =>
    have hne : u ≠ [] := List.ne_nil_of_mem (hsub v (by simp))
    exact batchGCDPinnedWith_spec u (v :: vs) other hne hpos hsub

theorem batchGCDWith_eq_pinned (u values : List Nat) (other : Option Nat) (h : values ≠ []) :
    batchGCDWith u values other = batchGCDPinnedWith u values other := by
  cases values with
  | nil => exact absurd rfl h
  | cons v vs => rfl

theorem batchGCDPinned_eq (values : List Nat) (other : Option Nat) (h : values ≠ []) :
    batchGCDPinned values other = batchGCD values other :=
  (batchGCDWith_eq_pinned _ values other h).symm

theorem batchGCDPinnedWith_nil (values : List Nat) (other : Option Nat) :
    batchGCDPinnedWith [] values other = .error .indexError := by
  unfold batchGCDPinnedWith
  rw [extendedProductTree_nil]
  rfl

/-! ### order-independent form -/

/-- entry of the result for `v` in terms of the SET of values: gcd of `v` with the product of
the other distinct values (times `o`). -/
def entry (s : Finset Nat) (o : Nat) (v : Nat) : Nat := Nat.gcd v ((∏ x ∈ s.erase v, x) * o)

theorem prod_erase_eq_finset (u : List Nat) (hnd : u.Nodup) (v : Nat) :
    (u.erase v).prod = ∏ x ∈ u.toFinset.erase v, x := by
  have h1 : (u.erase v).toFinset = u.toFinset.erase v := by
    ext x
    simp [hnd.mem_erase_iff]
  rw [← h1, List.prod_toFinset _ (hnd.erase v)]
  simp

theorem entryL_eq_entry (u : List Nat) (hnd : u.Nodup) (o v : Nat) :
    entryL u o v = entry u.toFinset o v := by
  unfold entryL entry
  rw [prod_erase_eq_finset u hnd v]

theorem toFinset_eq_of_mem_iff {u values : List Nat} (h : ∀ x, x ∈ u ↔ x ∈ values) :
    u.toFinset = values.toFinset := by
  ext x; simp [h x]

/-! ### `eraseDups` (first-occurrence enumeration used by the executable instance) -/

theorem nodup_eraseDups (l : List Nat) : l.eraseDups.Nodup := by
  induction h : l.length using Nat.strong_induction_on generalizing l with
  | _ n ih =>
    cases l with
    | nil => simp
    | cons a as =>
      rw [List.eraseDups_cons, List.nodup_cons]
      constructor
      · rw [List.mem_eraseDups]
        simp
      · apply ih _ _ _ rfl
        rw [← h]
        exact Nat.lt_succ_of_le (List.length_filter_le _ _)

/-! ### CheckGCD / CheckGCDN1 helpers -/

theorem zipWith_map_self {α β γ} (f : α → β → γ) (g : α → β) (l : List α) :
    List.zipWith f l (l.map g) = l.map (fun a => f a (g a)) := by
  induction l with
  | nil => rfl
  | cons a l ih => simp [ih]

theorem zip_map_self {α β} (g : α → β) (l : List α) :
    l.zip (l.map g) = l.map (fun a => (a, g a)) := by
  induction l with
  | nil => rfl
  | cons a l ih => simp [ih]

/-! ### the executable instance and order independence -/

theorem batchGCDWith_spec_set (u values : List Nat) (other : Option Nat)
    (hpos : ∀ v ∈ values, 0 < v) (hnd : u.Nodup) (hmem : ∀ x, x ∈ u ↔ x ∈ values) :
    batchGCDWith u values other =
      .ok (values.map (entry values.toFinset (otherVal other))) := by
  rw [batchGCDWith_spec u values other (fun x hx => hpos x ((hmem x).1 hx))
    (fun v hv => (hmem v).2 hv)]
  congr 1
  apply List.map_congr_left
  intro v _
  rw [entryL_eq_entry u hnd, toFinset_eq_of_mem_iff hmem]

theorem batchGCD_exec (values : List Nat) (other : Option Nat) (hpos : ∀ v ∈ values, 0 < v) :
    batchGCD values other = .ok (values.map (entry values.toFinset (otherVal other))) :=
  batchGCDWith_spec_set _ values other hpos (nodup_eraseDups values)
    (fun _ => List.mem_eraseDups)

/-! ### zero values: the positivity hypothesis is needed -/

theorem remTree_zero (X : Nat) (u : List Nat) (h2 : 2 ≤ u.length) (h0 : u.prod = 0) :
    remTree (levels u).reverse [X] = .error .zeroDivision := by
  induction h : u.length using Nat.strong_induction_on generalizing u with
  | _ n ih =>
    rw [levels_of_two_le h2, List.reverse_cons, remTree_append]
    by_cases h3 : 2 ≤ (pairProd u).length
    · rw [ih _ (by rw [← h]; exact pairProd_length_lt u h2) (pairProd u) h3
        (by rw [pairProd_prod, h0]) rfl]
      rfl
    · match u, h2, h3, h0 with
      | [x, y], _, _, h0 =>
        have hxy : x = 0 ∨ y = 0 := by simpa using h0
        rw [show pairProd [x, y] = [x * y] from rfl, levels_of_lt_two (by simp)]
        by_cases hx : x = 0
        · subst hx; rfl
        · have hy : y = 0 := hxy.resolve_left hx
          subst hy
          simp [remTree, remStep, pyModNat, hx, bind, Except.bind, pure, Except.pure]
      | a :: b :: c :: t, _, h3, _ =>
        have := pairProd_length (a :: b :: c :: t)
        simp only [List.length_cons] at this h3
        omega
      | [], h2, _, _ => simp at h2
      | [_], h2, _, _ => simp at h2

/-- a zero among at least two distinct values makes `BatchGCD` raise `ZeroDivisionError`
(`prev % 0`), whatever the enumeration order. -/
theorem batchGCDPinnedWith_zero (u values : List Nat) (other : Option Nat)
    (h2 : 2 ≤ u.length) (h0 : 0 ∈ u) :
    batchGCDPinnedWith u values other = .error .zeroDivision := by
  have hne : u ≠ [] := by intro h; simp [h] at h2
  unfold batchGCDPinnedWith
  rw [extendedProductTree_eq u hne]
  simp only [bind, Except.bind, remTree_zero _ u h2 (List.prod_eq_zero h0)]

/-! ### what a flag means -/

theorem entry_eq_one_iff (s : Finset Nat) (o v : Nat) :
    entry s o v = 1 ↔ Nat.Coprime v o ∧ ∀ w ∈ s, w ≠ v → Nat.Coprime v w := by
  unfold entry
  rw [← Nat.coprime_iff_gcd_eq_one, Nat.coprime_mul_iff_right, Nat.coprime_prod_right_iff]
  simp only [Finset.mem_erase, and_imp]
  constructor
  · rintro ⟨h1, h2⟩; exact ⟨h2, fun w hw hne => h1 w hne hw⟩
  · rintro ⟨h1, h2⟩; exact ⟨fun w hne hw => h2 w hw hne, h1⟩

theorem entry_dvd (s : Finset Nat) (o v : Nat) : entry s o v ∣ v := Nat.gcd_dvd_left _ _

theorem entry_pos (s : Finset Nat) (o v : Nat) (hv : 0 < v) : 0 < entry s o v :=
  Nat.gcd_pos_of_pos_left _ hv

theorem entry_eq_self_iff (s : Finset Nat) (o v : Nat) :
    entry s o v = v ↔ v ∣ (∏ x ∈ s.erase v, x) * o := Nat.gcd_eq_left_iff_dvd

/-- adding a value coprime to `v` to the batch does not change `v`'s entry. -/
theorem entry_insert_coprime (s : Finset Nat) (o v w : Nat) (h : Nat.Coprime v w) :
    entry (insert w s) o v = entry s o v := by
  unfold entry
  by_cases hwv : w = v
  · subst hwv; rw [Finset.erase_insert_eq_erase]
  · rw [Finset.erase_insert_of_ne hwv]
    by_cases hmem : w ∈ s.erase v
    · rw [Finset.insert_eq_of_mem hmem]
    · rw [Finset.prod_insert hmem, Nat.mul_assoc]
      exact Nat.Coprime.gcd_mul_left_cancel_right _ h.symm

/-! ### CheckGCD / CheckGCDN1 -/

theorem checkGCD_eq (ns : List Nat) (hpos : ∀ n ∈ ns, 0 < n) :
    checkGCD ns = .ok
      ((ns.map fun n => checkGCDKeyR ns n (entry ns.toFinset 1 n)).any (·.1),
        ns.map fun n => checkGCDKeyR ns n (entry ns.toFinset 1 n)) := by
  unfold checkGCD checkGCDV
  rw [batchGCD_exec ns none hpos]
  simp only [bind, Except.bind, otherVal, zipWith_map_self]
  rfl

theorem properFromOthers_some (n : Nat) : ∀ (l : List Nat) (h : Nat),
    properFromOthers n l = some h → 1 < h ∧ h < n ∧ h ∣ n
  | [], _, hh => by simp [properFromOthers] at hh
  | m :: rest, h, hh => by
    unfold properFromOthers at hh
    split at hh
    · rename_i hc
      simp only [Option.some.injEq] at hh
      subst hh
      exact ⟨hc.1, hc.2, Nat.gcd_dvd_left _ _⟩
    · exact properFromOthers_some n rest h hh

theorem properFromOthers_none (n : Nat) : ∀ (l : List Nat),
    properFromOthers n l = none → ∀ m ∈ l, ¬ (1 < Nat.gcd n m ∧ Nat.gcd n m < n)
  | [], _, _, hm => by simp at hm
  | m' :: rest, hh, m, hm => by
    unfold properFromOthers at hh
    split at hh
    · simp at hh
    · rename_i hc
      rcases List.mem_cons.mp hm with rfl | hin
      · exact hc
      · exact properFromOthers_none n rest hh m hin

/-- everything in the extra pair divides `n`. -/
theorem extraSplit_dvd (ns : List Nat) (n g : Nat) : ∀ f ∈ extraSplit ns n g, f ∣ n := by
  intro f hf
  unfold extraSplit at hf
  split at hf
  · split at hf
    · rename_i h hh
      have hd := (properFromOthers_some n ns h hh).2.2
      simp only [List.mem_cons, List.not_mem_nil, or_false] at hf
      rcases hf with rfl | rfl
      · exact hd
      · exact Nat.div_dvd_of_dvd hd
    · simp at hf
  · simp at hf

/-- after the D2 repair: a flagged key has a PROPER divisor among its recorded factors unless
the modulus divides another (distinct) modulus of the batch. -/
theorem checkGCDKeyR_proper (ns : List Nat) (n : Nat) (hn : 1 < n)
    (hflag : entry ns.toFinset 1 n ≠ 1) :
    (∃ f ∈ (checkGCDKeyR ns n (entry ns.toFinset 1 n)).2, 1 < f ∧ f < n) ∨
      ∃ m ∈ ns, m ≠ n ∧ n ∣ m := by
  have hdvd := entry_dvd ns.toFinset 1 n
  have hpos' := entry_pos ns.toFinset 1 n (by omega)
  have hle := Nat.le_of_dvd (by omega) hdvd
  unfold checkGCDKeyR
  rw [if_neg hflag]
  by_cases hgn : entry ns.toFinset 1 n = n
  · unfold extraSplit
    rw [if_pos hgn]
    split
    · rename_i h hh
      have := properFromOthers_some n ns h hh
      exact Or.inl ⟨h, by simp, this.1, this.2.1⟩
    · rename_i hnone
      right
      by_contra hcon
      apply hflag
      rw [entry_eq_one_iff]
      refine ⟨Nat.coprime_one_right n, fun w hw hne => ?_⟩
      have hwm : w ∈ ns := List.mem_toFinset.mp hw
      have hnot := properFromOthers_none n ns hnone w hwm
      have hgd : Nat.gcd n w ∣ n := Nat.gcd_dvd_left _ _
      have hgle := Nat.le_of_dvd (by omega) hgd
      have hgpos : 0 < Nat.gcd n w := Nat.gcd_pos_of_pos_left _ (by omega)
      rcases Nat.lt_or_ge 1 (Nat.gcd n w) with h1 | h1
      · have : Nat.gcd n w = n := by
          by_contra hne2
          exact hnot ⟨h1, by omega⟩
        exfalso
        apply hcon
        exact ⟨w, hwm, hne, Nat.gcd_eq_left_iff_dvd.mp this⟩
      · exact Nat.coprime_iff_gcd_eq_one.mpr (by omega)
  · exact Or.inl ⟨entry ns.toFinset 1 n, by simp, by omega, by omega⟩

theorem checkGCDN1_eq (bound : Nat) (ns : List Nat) (hpos : ∀ n ∈ ns, 2 ≤ n) :
    checkGCDN1 bound ns = .ok
      ((ns.map fun n => checkGCDN1Key bound (entry (ns.map (· - 1)).toFinset 1 (n - 1))).any (·.1),
        ns.map fun n => checkGCDN1Key bound (entry (ns.map (· - 1)).toFinset 1 (n - 1))) := by
  unfold checkGCDN1 checkGCDN1V
  have hp : ∀ v ∈ ns.map (· - 1), 0 < v := by
    intro v hv
    obtain ⟨n, hn, rfl⟩ := List.mem_map.1 hv
    have := hpos n hn
    omega
  rw [batchGCD_exec _ none hp]
  simp only [bind, Except.bind, otherVal, List.map_map]
  rfl

end Paranoid
