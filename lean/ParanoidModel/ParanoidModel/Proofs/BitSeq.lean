/-
Proofs/BitSeq.lean — helper lemmas for C15 (bit-sequence primitives), split by topic:
  BitSeq/Popcount    bitCount = Σ bit i
  BitSeq/Runs        runs = number of maximal constant blocks
  BitSeq/RunsOfOnes  andShift, longestRunOfOnes, overlappingRunsOfOnes
  BitSeq/Bytes       reverseBits, bits, splitSequence (both paths), scatter
  BitSeq/SubSeq      counting helpers, virtual stream of cyclic windows, subSequences
  BitSeq/Freq        frequencyCount slow path = definition
  BitSeq/FreqFast    frequencyCount fast path = definition (= slow path)
  BitSeq/Rank        rankSmall: 2^rank = |row span|
  BitSeq/RankLarge   rankLarge never raises, 2^rank = |row span| (= rankSmall)
-/
import ParanoidModel.Proofs.BitSeq.Popcount
import ParanoidModel.Proofs.BitSeq.Runs
import ParanoidModel.Proofs.BitSeq.RunsOfOnes
import ParanoidModel.Proofs.BitSeq.Bytes
import ParanoidModel.Proofs.BitSeq.SubSeq
import ParanoidModel.Proofs.BitSeq.Freq
import ParanoidModel.Proofs.BitSeq.FreqFast
import ParanoidModel.Proofs.BitSeq.Rank
import ParanoidModel.Proofs.BitSeq.RankLarge
