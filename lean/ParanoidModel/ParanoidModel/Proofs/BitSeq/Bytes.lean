/-
Proofs/BitSeq/Bytes.lean — `reverseBits`, `bits`, `splitSequence` (both paths), `scatter`.
-/
import ParanoidModel.Proofs.BitSeq.Popcount
namespace Paranoid.BitSeq
open Paranoid Paranoid.BitDefs

/-! ### `ofBits` -/

theorem ofBits_lt (f : Nat → Bool) (m : Nat) : ofBits f m < 2 ^ m := by
  induction m with
  | zero => simp [ofBits]
  | succ m ih =>
    rw [ofBits, Nat.pow_succ]
    cases f m <;> simp <;> omega

theorem testBit_ofBits (f : Nat → Bool) (m j : Nat) :
    (ofBits f m).testBit j = (decide (j < m) && f j) := by
  induction m with
  | zero => simp [ofBits]
  | succ m ih =>
    rw [ofBits, Nat.add_comm, Nat.mul_comm, Nat.testBit_two_pow_mul_add _ (ofBits_lt f m), ih]
    by_cases h : j < m
    · simp [h, show j < m + 1 by omega]
    · simp only [h, if_false]
      by_cases h2 : j = m
      · subst h2; cases f j <;> simp
      · have h3 : ¬ j < m + 1 := by omega
        have h4 : (f m).toNat < 2 ^ (j - m) := by
          have : 1 < 2 ^ (j - m) := Nat.one_lt_two_pow (by omega)
          cases f m <;> simp <;> omega
        rw [Nat.testBit_lt_two_pow h4]; simp [h3]

/-- a number below `2^m` is determined by its bits below `m`. -/
theorem eq_ofBits (x m : Nat) (f : Nat → Bool)
    (h : ∀ j, x.testBit j = (decide (j < m) && f j)) : x = ofBits f m := by
  apply Nat.eq_of_testBit_eq; intro j; rw [h, testBit_ofBits]

theorem window_eq (s m i : Nat) : window s m i = (s >>> i) % 2 ^ m := by
  symm; apply eq_ofBits; intro j
  rw [Nat.testBit_mod_two_pow, Nat.testBit_shiftRight]

/-! ### ReverseBits -/

theorem revByte_spec : ∀ j : Fin 256, ∀ i : Fin 8,
    (revByte j.val).testBit i.val = j.val.testBit (7 - i.val) := by decide +kernel

theorem revByte_lt : ∀ j : Fin 256, revByte j.val < 256 := by decide +kernel

theorem byteAt_lt (seq j : Nat) : byteAt seq j < 256 := Nat.mod_lt _ (by decide)

theorem testBit_byteAt (seq j i : Nat) :
    (byteAt seq j).testBit i = (decide (i < 8) && seq.testBit (8 * j + i)) := by
  unfold byteAt
  rw [show (256 : Nat) = 2 ^ 8 by rfl, Nat.testBit_mod_two_pow, Nat.testBit_shiftRight]

theorem testBit_revByte_byteAt (seq j i : Nat) :
    (revByte (byteAt seq j)).testBit i = (decide (i < 8) && seq.testBit (8 * j + (7 - i))) := by
  by_cases hi : i < 8
  · rw [revByte_spec ⟨_, byteAt_lt seq j⟩ ⟨i, hi⟩, testBit_byteAt]
    simp [hi, show 7 - i < 8 by omega]
  · have := revByte_lt ⟨_, byteAt_lt seq j⟩
    have h256 : 256 ≤ 2 ^ i := by
      have := Nat.pow_le_pow_right (show 0 < 2 by decide) (show 8 ≤ i by omega)
      simpa using this
    rw [Nat.testBit_lt_two_pow (Nat.lt_of_lt_of_le this h256)]
    simp [hi]

theorem testBit_revBytesBE (seq nb p : Nat) :
    (revBytesBE seq nb).testBit p = (decide (p < 8 * nb) && seq.testBit (8 * nb - 1 - p)) := by
  unfold revBytesBE
  induction nb generalizing p with
  | zero => simp
  | succ nb ih =>
    rw [List.range_succ, List.foldl_append, List.foldl_cons, List.foldl_nil]
    have hlt : revByte (byteAt seq nb) < 2 ^ 8 := revByte_lt ⟨_, byteAt_lt seq nb⟩
    rw [Nat.mul_comm _ 256, show (256 : Nat) = 2 ^ 8 by rfl, Nat.testBit_two_pow_mul_add _ hlt]
    split
    · rename_i h8
      rw [testBit_revByte_byteAt]
      simp only [h8, show p < 8 * (nb + 1) by omega, decide_true, Bool.true_and]
      congr 1; omega
    · rename_i h8
      rw [ih]
      by_cases hp : p < 8 * (nb + 1)
      · simp only [hp, show p - 8 < 8 * nb by omega, decide_true, Bool.true_and]
        congr 1; omega
      · simp [hp, show ¬ p - 8 < 8 * nb by omega]

/-- every case of `ReverseBits`: overflow exactly when `seq` does not fit into the bytes, otherwise
the low `n` bits reversed (high garbage bits inside the last byte are dropped). -/
theorem reverseBits_spec (seq n : Nat) :
    (bitLength seq > 8 * ((n + 7) / 8) ∧ reverseBits seq n = .error .overflow) ∨
    (bitLength seq ≤ 8 * ((n + 7) / 8) ∧ reverseBits seq n = .ok (reverseDef seq n)) := by
  unfold reverseBits
  by_cases h : bitLength seq > 8 * ((n + 7) / 8)
  · left; exact ⟨h, by rw [if_pos h]⟩
  · right
    refine ⟨by omega, ?_⟩
    rw [if_neg h]
    congr 1
    apply eq_ofBits
    intro j
    rw [Nat.testBit_shiftRight, testBit_revBytesBE]
    by_cases hj : j < n
    · simp only [hj, show (8 - n % 8) % 8 + j < 8 * ((n + 7) / 8) by omega, decide_true, Bool.true_and]
      congr 1; omega
    · simp [hj, show ¬ (8 - n % 8) % 8 + j < 8 * ((n + 7) / 8) by omega]

theorem lt_two_pow_iff_bitLength_le (s n : Nat) : s < 2 ^ n ↔ bitLength s ≤ n := by
  unfold bitLength
  split
  · subst_vars; simp [Nat.two_pow_pos]
  · rename_i h; rw [← Nat.log2_lt h]; omega

/-! ### Bits -/

theorem binDigits_length (seq : Nat) : (binDigits seq).length = max 1 (bitLength seq) := by
  simp [binDigits]

theorem testBit_of_bitLength_le (seq i : Nat) (h : bitLength seq ≤ i) : seq.testBit i = false :=
  Nat.testBit_lt_two_pow (Nat.lt_of_lt_of_le (lt_two_pow_bitLength seq)
    (Nat.pow_le_pow_right (by decide) h))

/-- `Bits` on the pinned tree, for every input: `max(length, 1, bit_length)` entries. -/
theorem bitsPinned_eq (seq n : Nat) :
    bitsPinned seq n = (List.range (max n (max 1 (bitLength seq)))).map
      (fun i => if seq.testBit i then (1 : Int) else -1) := by
  have hdl := binDigits_length seq
  have hL1 : 1 ≤ max 1 (bitLength seq) ∧ bitLength seq ≤ max 1 (bitLength seq) := by omega
  apply List.ext_getElem
  · simp [bitsPinned, binDigits_length]; omega
  · intro i h1 h2
    have hlen : i < max n (max 1 (bitLength seq)) := by simpa using h2
    simp only [bitsPinned, List.getElem_reverse, List.getElem_map, List.getElem_range]
    rw [List.getElem_append]
    simp only [List.length_replicate, List.length_append, List.length_map]
    simp only [binDigits, List.getElem_map, List.getElem_range, List.length_map, List.length_range]
    split
    · rename_i hlt
      rw [List.getElem_replicate]
      have : bitLength seq ≤ i := by omega
      rw [testBit_of_bitLength_le _ _ this]; rfl
    · rename_i hge
      generalize max 1 (bitLength seq) = L' at hge hlen hL1 ⊢
      rw [show L' - 1 - (n - L' + L' - 1 - i - (n - L')) = i by omega]

/-- `Bits` (repaired) for every input. -/
theorem bits_eq (seq n : Nat) :
    bits seq n = if n = 0 then [] else (List.range (max n (bitLength seq))).map
      (fun i => if seq.testBit i then (1 : Int) else -1) := by
  unfold bits
  split
  · rfl
  · rename_i h
    rw [bitsPinned_eq, show max n (max 1 (bitLength seq)) = max n (bitLength seq) by omega]

theorem bits_spec (seq n : Nat) (h : seq < 2 ^ n) : bits seq n = bitsDef seq n := by
  rw [bits_eq, bitsDef]
  have := (lt_two_pow_iff_bitLength_le seq n).1 h
  split
  · subst_vars; rfl
  · rw [show max n (bitLength seq) = n by omega]

/-! ### SplitSequence -/

theorem splitFast_eq (seq n m : Nat) (hm : m % 8 = 0) : splitFast seq n m = splitDef seq (n * m) m ∨ m = 0 := by
  by_cases h0 : m = 0
  · right; exact h0
  left
  unfold splitFast splitDef
  rw [Nat.mul_div_cancel _ (by omega)]
  apply List.map_congr_left
  intro i _
  unfold bytesSlice
  obtain ⟨q, rfl⟩ : ∃ q, m = 8 * q := ⟨m / 8, by omega⟩
  have e1 : i * (8 * q) / 8 = i * q := by
    rw [show i * (8 * q) = 8 * (i * q) by rw [Nat.mul_left_comm]]; omega
  have e2 : (i + 1) * (8 * q) / 8 = (i + 1) * q := by
    rw [show (i + 1) * (8 * q) = 8 * ((i + 1) * q) by rw [Nat.mul_left_comm]]; omega
  rw [e1, e2, show (i + 1) * q - i * q = q by rw [Nat.succ_mul]; omega,
    show 8 * (i * q) = i * (8 * q) by rw [Nat.mul_left_comm]]

theorem splitSlow_eq (seq n m : Nat) : splitSlow seq n m = (List.range n).map
    (fun i => (seq >>> (i * m)) % 2 ^ m) := by
  unfold splitSlow
  apply List.map_congr_left
  intro i _
  unfold bytesSlice
  rw [Nat.and_two_pow_sub_one_eq_mod]
  apply Nat.eq_of_testBit_eq
  intro j
  simp only [Nat.testBit_mod_two_pow, Nat.testBit_shiftRight]
  rw [show (i + 1) * m = i * m + m from Nat.add_one_mul i m]
  generalize i * m = X
  by_cases hj : j < m
  · have h1 : X % 8 + j < 8 * ((X + m) / 8 + 1 - X / 8) := by omega
    simp only [hj, h1, decide_true, Bool.true_and]
    rw [show 8 * (X / 8) + (X % 8 + j) = X + j by omega]
  · simp [hj]

end Paranoid.BitSeq
namespace Paranoid.BitSeq
open Paranoid Paranoid.BitDefs

theorem splitSequence_spec (seq n m : Nat) :
    splitSequence seq n m = if m = 0 then .error .zeroDivision else .ok (splitDef seq n m) := by
  unfold splitSequence
  split
  · rfl
  · rename_i h0
    split
    · rename_i h8
      rcases splitFast_eq seq (n / m) m h8 with h | h
      · rw [h]; unfold splitDef
        rw [Nat.mul_div_cancel _ (by omega)]
      · exact absurd h h0
    · rw [splitSlow_eq]; rfl

/-! ### Scatter -/

theorem testBit_horner (g : Nat → Bool) (cnt : Nat) : ∀ u,
    ((List.range cnt).foldl (fun acc t => 2 * acc + (g t).toNat) 0).testBit u =
      (decide (u < cnt) && g (cnt - 1 - u)) := by
  induction cnt with
  | zero => intro u; simp
  | succ cnt ih =>
    intro u
    rw [List.range_succ, List.foldl_append, List.foldl_cons, List.foldl_nil]
    have hb : (g cnt).toNat < 2 ^ 1 := by cases g cnt <;> simp
    rw [show ∀ a, 2 * a + (g cnt).toNat = 2 ^ 1 * a + (g cnt).toNat from fun a => rfl,
      Nat.testBit_two_pow_mul_add _ hb]
    split
    · rename_i h
      have : u = 0 := by omega
      subst this
      cases hg : g cnt <;> simp [hg]
    · rename_i h
      rw [ih]
      by_cases hu : u < cnt + 1
      · simp only [hu, show u - 1 < cnt by omega, decide_true, Bool.true_and]
        congr 1; omega
      · simp [hu, show ¬ u - 1 < cnt by omega]

theorem scatter_arith (L m i : Nat) (hi : i < m) (hL : m ≤ L) :
    ∃ q, L - 1 - scatterStart L m i = m * q + i ∧
      (L - scatterStart L m i + m - 1) / m = q + 1 ∧ L ≤ m * q + i + m := by
  have hm : 0 < m := by omega
  have hdm := Nat.div_add_mod (L - 1) m
  have ho : (L - 1) % m < m := Nat.mod_lt _ hm
  unfold scatterStart
  generalize (L - 1) % m = o at *
  generalize (L - 1) / m = Q at *
  have hdiv : ∀ q, (m * q + i + m) / m = q + 1 := by
    intro q
    rw [show m * q + i + m = m * (q + 1) + i by rw [Nat.mul_succ]; omega, Nat.mul_add_div hm,
      Nat.div_eq_of_lt hi]
  by_cases hio : i ≤ o
  · have hs : (o + m - i) % m = o - i := by
      rw [Nat.mod_eq_sub_mod (by omega), Nat.mod_eq_of_lt (by omega)]; omega
    rw [hs]
    refine ⟨Q, by omega, ?_, by omega⟩
    rw [show L - (o - i) + m - 1 = m * Q + i + m by omega, hdiv]
  · have hs : (o + m - i) % m = o + m - i := Nat.mod_eq_of_lt (by omega)
    rw [hs]
    have hQ : 1 ≤ Q := by
      rcases Nat.eq_zero_or_pos Q with h | h
      · subst h; simp at hdm; omega
      · exact h
    obtain ⟨Q', rfl⟩ : ∃ Q', Q = Q' + 1 := ⟨Q - 1, by omega⟩
    rw [Nat.mul_succ] at hdm
    refine ⟨Q', by omega, ?_, by omega⟩
    rw [show L - (o + m - i) + m - 1 = m * Q' + i + m by omega, hdiv]

theorem testBit_scatterCol (seq m i : Nat) (hi : i < m) (hL : m ≤ bitLength seq) (u : Nat) :
    (scatterCol seq m (bitLength seq) i).testBit u = seq.testBit (i + m * u) := by
  obtain ⟨q, h1, h2, h3⟩ := scatter_arith (bitLength seq) m i hi hL
  unfold scatterCol
  rw [testBit_horner (fun t => seq.testBit (bitLength seq - 1 - (scatterStart (bitLength seq) m i + m * t))), h2]
  generalize scatterStart (bitLength seq) m i = st at *
  by_cases hu : u < q + 1
  · simp only [hu, decide_true, Bool.true_and]
    congr 1
    obtain ⟨d, rfl⟩ : ∃ d, q = u + d := ⟨q - u, by omega⟩
    rw [show u + d + 1 - 1 - u = d by omega]
    rw [Nat.mul_add] at h1
    omega
  · simp only [hu, decide_false, Bool.false_and]
    symm
    apply testBit_of_bitLength_le
    obtain ⟨d, rfl⟩ : ∃ d, u = q + 1 + d := ⟨u - (q + 1), by omega⟩
    rw [Nat.mul_add, Nat.mul_add, Nat.mul_one]
    omega

/-- every case of `Scatter`. -/
theorem scatter_spec (seq m : Nat) :
    (m = 0 ∧ scatter seq m = .error .zeroDivision) ∨
    (0 < m ∧ ∃ res, scatter seq m = .ok res ∧ IsScatter seq m res) := by
  unfold scatter
  by_cases h0 : m = 0
  · subst h0
    left; exact ⟨rfl, by simp⟩
  · right
    refine ⟨by omega, ?_⟩
    split
    · rename_i hlt
      refine ⟨_, rfl, by simp, ?_⟩
      intro i hi t
      have hi' : i < m := by simpa using hi
      simp only [List.getElem_map, List.getElem_range]
      rw [show (1 : Nat) = 2 ^ 1 - 1 by rfl, Nat.and_two_pow_sub_one_eq_mod, Nat.testBit_mod_two_pow,
        Nat.testBit_shiftRight]
      by_cases ht : t = 0
      · subst ht; simp
      · have : bitLength seq ≤ i + m * t := by
          have : m * 1 ≤ m * t := Nat.mul_le_mul_left m (by omega)
          omega
        rw [testBit_of_bitLength_le _ _ this]
        simp [show ¬ t < 1 by omega]
    · rename_i hge
      refine ⟨_, rfl, by simp, ?_⟩
      intro i hi t
      have hi' : i < m := by simpa using hi
      simp only [List.getElem_map, List.getElem_range]
      exact testBit_scatterCol seq m i hi' (by omega) t

end Paranoid.BitSeq
