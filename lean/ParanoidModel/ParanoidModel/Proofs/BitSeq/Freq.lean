/-
Proofs/BitSeq/Freq.lean — the slow path of `frequencyCount` equals the pattern-frequency
definition (with and without wrap-around).
-/
import ParanoidModel.Proofs.BitSeq.SubSeq
namespace Paranoid.BitSeq
open Paranoid Paranoid.BitDefs

/-! ### tallies in an `Array Int` -/

/-- entry `p` of a tally array (0 outside). -/
def cntOf (res : Array Int) (p : Nat) : Int := (res[p]?).getD 0

theorem cntOf_addAt (res : Array Int) (x p : Nat) (v : Int) (hx : x < res.size) :
    cntOf (addAt res x v) p = cntOf res p + if x = p then v else 0 := by
  unfold cntOf addAt
  rw [Array.getElem?_modify]
  split
  · rename_i h; subst h
    rw [Array.getElem?_eq_getElem hx]; simp
  · simp

theorem size_addAt (res : Array Int) (x : Nat) (v : Int) : (addAt res x v).size = res.size := by
  unfold addAt; exact Array.size_modify

theorem incr_eq_addAt (res : Array Int) (x : Nat) : incr res x = addAt res x 1 := rfl

theorem cntOf_replicate (n p : Nat) : cntOf (Array.replicate n 0) p = 0 := by
  unfold cntOf; rw [Array.getElem?_replicate]; split <;> rfl

theorem and_mask_lt (x m : Nat) : x &&& (2 ^ m - 1) < 2 ^ m := by
  rw [Nat.and_two_pow_sub_one_eq_mod]; exact Nat.mod_lt _ (Nat.two_pow_pos m)

theorem countBits_spec (m : Nat) : ∀ c s (res : Array Int), res.size = 2 ^ m →
    (countBits (2 ^ m - 1) c s res).size = 2 ^ m ∧
    ∀ p, cntOf (countBits (2 ^ m - 1) c s res) p =
      cntOf res p + (countBelow c (fun k => (s >>> k) % 2 ^ m == p) : Nat) := by
  intro c
  induction c with
  | zero => intro s res hs; exact ⟨hs, fun p => by simp [countBits, countBelow]⟩
  | succ c ih =>
    intro s res hs
    unfold countBits
    have hs' : (incr res (s &&& (2 ^ m - 1))).size = 2 ^ m := by rw [incr_eq_addAt, size_addAt, hs]
    obtain ⟨h1, h2⟩ := ih (s >>> 1) _ hs'
    refine ⟨h1, fun p => ?_⟩
    rw [h2, incr_eq_addAt, cntOf_addAt _ _ _ _ (hs ▸ and_mask_lt s m), countBelow_succ_shift,
      Nat.and_two_pow_sub_one_eq_mod]
    have : countBelow c (fun k => (s >>> 1 >>> k) % 2 ^ m == p) =
        countBelow c (fun k => (s >>> (k + 1)) % 2 ^ m == p) := by
      apply countBelow_congr; intro k _; rw [Nat.add_comm, Nat.shiftRight_add]
    rw [this, Nat.shiftRight_zero]
    by_cases hp : s % 2 ^ m = p
    · simp [hp]; omega
    · have hb : (s % 2 ^ m == p) = false := by simp [hp]
      simp [hp, hb]

/-- loading the next byte of the string above the `m`-bit window. -/
theorem xor_byte_eq (seq m V j : Nat) (hX : ∀ p, V.testBit (m + p) = seq.testBit p) :
    ((V >>> (8 * j)) % 2 ^ m) ^^^ (byteAt seq j <<< m) = (V >>> (8 * j)) % 2 ^ (m + 8) := by
  apply Nat.eq_of_testBit_eq
  intro i
  simp only [Nat.testBit_xor, Nat.testBit_mod_two_pow, Nat.testBit_shiftRight,
    Nat.testBit_shiftLeft, testBit_byteAt]
  by_cases h1 : i < m
  · simp [h1, show ¬ i ≥ m by omega, show i < m + 8 by omega]
  · by_cases h2 : i - m < 8
    · rw [← hX]
      simp [h1, h2, show i ≥ m by omega, show i < m + 8 by omega,
        show m + (8 * j + (i - m)) = 8 * j + i by omega]
    · simp [h1, h2, show ¬ i < m + 8 by omega]

theorem window_of_wide (V m a k : Nat) (hk : k ≤ 8) :
    (((V >>> a) % 2 ^ (m + 8)) >>> k) % 2 ^ m = (V >>> (a + k)) % 2 ^ m := by
  apply Nat.eq_of_testBit_eq
  intro i
  simp only [Nat.testBit_mod_two_pow, Nat.testBit_shiftRight]
  by_cases h1 : i < m
  · simp [h1, show k + i < m + 8 by omega, show a + (k + i) = a + k + i by omega]
  · simp [h1]

theorem fcSlowLoop_spec (seq m V : Nat) (hX : ∀ p, V.testBit (m + p) = seq.testBit p) :
    ∀ f j (res : Array Int), res.size = 2 ^ m →
    (∀ p, cntOf res p = (countBelow (8 * j) (fun k => (V >>> k) % 2 ^ m == p) : Nat)) →
    (fcSlowLoop seq m (2 ^ m - 1) f j ((V >>> (8 * j)) % 2 ^ m) res).1 = (V >>> (8 * (j + f))) % 2 ^ m ∧
    (fcSlowLoop seq m (2 ^ m - 1) f j ((V >>> (8 * j)) % 2 ^ m) res).2.size = 2 ^ m ∧
    ∀ p, cntOf (fcSlowLoop seq m (2 ^ m - 1) f j ((V >>> (8 * j)) % 2 ^ m) res).2 p =
      (countBelow (8 * (j + f)) (fun k => (V >>> k) % 2 ^ m == p) : Nat) := by
  intro f
  induction f with
  | zero => intro j res hs hc; exact ⟨rfl, hs, hc⟩
  | succ f ih =>
    intro j res hs hc
    unfold fcSlowLoop
    rw [xor_byte_eq seq m V j hX]
    obtain ⟨c1, c2⟩ := countBits_spec m 8 ((V >>> (8 * j)) % 2 ^ (m + 8)) res hs
    have hnext : ((V >>> (8 * j)) % 2 ^ (m + 8)) >>> 8 = (V >>> (8 * (j + 1))) % 2 ^ m := by
      apply Nat.eq_of_testBit_eq
      intro i
      simp only [Nat.testBit_mod_two_pow, Nat.testBit_shiftRight]
      by_cases h1 : i < m
      · simp [h1, show 8 + i < m + 8 by omega, show 8 * j + (8 + i) = 8 * (j + 1) + i by omega]
      · simp [h1, show ¬ 8 + i < m + 8 by omega]
    rw [hnext]
    have := ih (j + 1) _ c1 (fun p => by
      rw [c2, hc, show 8 * (j + 1) = 8 * j + 8 by omega, countBelow_add]
      have : countBelow 8 (fun k => ((V >>> (8 * j)) % 2 ^ (m + 8)) >>> k % 2 ^ m == p) =
          countBelow 8 (fun k => (V >>> (8 * j + k)) % 2 ^ m == p) := by
        apply countBelow_congr; intro k hk; rw [window_of_wide _ _ _ _ (by omega)]
      rw [this]; omega)
    rw [show j + 1 + f = j + (f + 1) by omega] at this
    exact this

/-- the slow path counts the windows `0 … n-1` of the virtual stream. -/
theorem fcSlowCore_spec (seq n m : Nat) (h : seq < 2 ^ n) (hm : m ≤ n) :
    (fcSlowCore seq n m).size = 2 ^ m ∧
    ∀ p, cntOf (fcSlowCore seq n m) p = (countBelow n (fun k => vwin seq n m k == p) : Nat) := by
  have hX : ∀ p, (vstream seq n m).testBit (m + p) = seq.testBit p :=
    fun p => testBit_vstream_add _ _ _ _ h hm
  have hs0 : seq >>> (n - m) = (vstream seq n m >>> (8 * 0)) % 2 ^ m := by
    apply Nat.eq_of_testBit_eq
    intro i
    simp only [Nat.testBit_mod_two_pow, Nat.testBit_shiftRight, Nat.mul_zero, Nat.zero_add,
      testBit_vstream _ _ _ _ h hm]
    by_cases h1 : i < m
    · simp [h1]
    · have : seq.testBit (n - m + i) = false :=
        Nat.testBit_lt_two_pow (Nat.lt_of_lt_of_le h (Nat.pow_le_pow_right (by decide) (by omega)))
      simp [h1, this]
  unfold fcSlowCore
  rw [hs0]
  obtain ⟨l1, l2, l3⟩ := fcSlowLoop_spec seq m (vstream seq n m) hX (n / 8) 0
    (Array.replicate (2 ^ m) 0) Array.size_replicate
    (fun p => by rw [cntOf_replicate]; simp [countBelow])
  generalize fcSlowLoop seq m (2 ^ m - 1) (n / 8) 0 ((vstream seq n m >>> (8 * 0)) % 2 ^ m)
    (Array.replicate (2 ^ m) 0) = st at *
  obtain ⟨s, res⟩ := st
  simp only at l1 l2 l3
  unfold fcTail
  simp only [Nat.zero_add] at l1 l3
  split
  · rename_i h8
    simp only
    rw [l1, show (n + 7) / 8 - 1 = n / 8 by omega, xor_byte_eq seq m _ _ hX]
    obtain ⟨c1, c2⟩ := countBits_spec m (n % 8) ((vstream seq n m >>> (8 * (n / 8))) % 2 ^ (m + 8)) res l2
    refine ⟨c1, fun p => ?_⟩
    rw [c2, l3]
    have : countBelow (n % 8) (fun k => ((vstream seq n m >>> (8 * (n / 8))) % 2 ^ (m + 8)) >>> k % 2 ^ m == p) =
        countBelow (n % 8) (fun k => vwin seq n m (8 * (n / 8) + k) == p) := by
      apply countBelow_congr; intro k hk; rw [window_of_wide _ _ _ _ (by omega)]; rfl
    rw [this]
    have e := countBelow_add (8 * (n / 8)) (n % 8) (fun k => vwin seq n m k == p)
    rw [show 8 * (n / 8) + n % 8 = n by omega] at e
    rw [e]
    simp only [vwin]; omega
  · rename_i h8
    simp only
    refine ⟨l2, fun p => ?_⟩
    rw [l3, show 8 * (n / 8) = n by omega]; rfl

end Paranoid.BitSeq
namespace Paranoid.BitSeq
open Paranoid Paranoid.BitDefs

theorem foldl_addAt_neg (m : Nat) (idx : Nat → Nat) (hidx : ∀ i, idx i < 2 ^ m) :
    ∀ c (res : Array Int), res.size = 2 ^ m →
    ((List.range c).foldl (fun res i => addAt res (idx i) (-1)) res).size = 2 ^ m ∧
    ∀ p, cntOf ((List.range c).foldl (fun res i => addAt res (idx i) (-1)) res) p =
      cntOf res p - (countBelow c (fun i => idx i == p) : Nat) := by
  intro c
  induction c with
  | zero => intro res hs; exact ⟨hs, fun p => by simp [countBelow]⟩
  | succ c ih =>
    intro res hs
    rw [List.range_succ, List.foldl_append, List.foldl_cons, List.foldl_nil]
    obtain ⟨h1, h2⟩ := ih res hs
    refine ⟨by rw [size_addAt, h1], fun p => ?_⟩
    rw [cntOf_addAt _ _ _ _ (h1 ▸ hidx c), h2, countBelow_succ]
    by_cases hp : idx c = p
    · simp [hp]; omega
    · have hb : (idx c == p) = false := by simp [hp]
      simp [hp, hb]

/-- the windows removed for `wrap = False` are the windows `1 … m-1` of the virtual stream. -/
theorem unwrap_window (seq n m t : Nat) (h : seq < 2 ^ n) (hm : m ≤ n) (ht : t < m) :
    (((seq >>> (n - m)) ||| ((seq &&& (2 ^ m - 1)) <<< m)) >>> t) % 2 ^ m = vwin seq n m t := by
  unfold vwin
  apply Nat.eq_of_testBit_eq
  intro j
  simp only [Nat.testBit_mod_two_pow, Nat.testBit_shiftRight, Nat.testBit_or, Nat.testBit_shiftLeft,
    Nat.and_two_pow_sub_one_eq_mod, testBit_vstream _ _ _ _ h hm]
  by_cases hj : j < m
  · by_cases h2 : t + j < m
    · simp [hj, h2, show ¬ t + j ≥ m by omega]
    · have : seq.testBit (n - m + (t + j)) = false :=
        Nat.testBit_lt_two_pow (Nat.lt_of_lt_of_le h (Nat.pow_le_pow_right (by decide) (by omega)))
      simp [hj, h2, this, show t + j ≥ m by omega, show t + j - m < m by omega]
  · simp [hj]

theorem fcUnwrap_spec (seq n m : Nat) (res : Array Int) (h : seq < 2 ^ n) (hm : m ≤ n)
    (hs : res.size = 2 ^ m) :
    (fcUnwrap seq n m res).size = 2 ^ m ∧ ∀ p, cntOf (fcUnwrap seq n m res) p =
      cntOf res p - (countBelow (m - 1) (fun i => vwin seq n m (i + 1) == p) : Nat) := by
  unfold fcUnwrap
  obtain ⟨h1, h2⟩ := foldl_addAt_neg m
    (fun i => (((seq >>> (n - m)) ||| ((seq &&& (2 ^ m - 1)) <<< m)) >>> (i + 1)) &&& (2 ^ m - 1))
    (fun i => and_mask_lt _ m) (m - 1) res hs
  refine ⟨h1, fun p => ?_⟩
  rw [h2]
  congr 2
  apply countBelow_congr
  intro i hi
  rw [Nat.and_two_pow_sub_one_eq_mod, unwrap_window seq n m (i + 1) h hm (by omega)]

theorem fcGuard_none (seq n m : Nat) (h : seq < 2 ^ n) (hm : m ≤ n) : fcGuard seq n m = none := by
  unfold fcGuard
  have := (lt_two_pow_iff_bitLength_le seq n).1 h
  rw [if_neg (by omega), if_neg (by omega)]

theorem toList_eq_of_cntOf (res : Array Int) (k : Nat) (F : Nat → Int) (hs : res.size = k)
    (hc : ∀ p, p < k → cntOf res p = F p) : res.toList = (List.range k).map F := by
  apply List.ext_getElem
  · simp [hs]
  · intro p h1 h2
    have hp : p < k := by simpa using h2
    simp only [List.getElem_map, List.getElem_range, Array.getElem_toList]
    rw [← hc p hp]
    unfold cntOf
    rw [Array.getElem?_eq_getElem (by omega)]; rfl

/-- tallies of the windows of the virtual stream are the cyclic pattern frequencies. -/
theorem count_vwin_wrap (seq n m p : Nat) (h : seq < 2 ^ n) (hm : m ≤ n) :
    countBelow n (fun k => vwin seq n m k == p) = freqDef seq n m true p := by
  unfold freqDef
  simp only [if_true]
  rw [← countBelow_rotate n (n - m) (fun i => cyclicWindow seq n m i == p) (by omega)]
  apply countBelow_congr
  intro k hk
  rw [vwin_eq_cyclic _ _ _ _ h hm (by omega)]

theorem count_vwin_nowrap (seq n m p : Nat) (h : seq < 2 ^ n) (hm1 : 1 ≤ m) (hm : m ≤ n) :
    countBelow n (fun k => vwin seq n m k == p) =
      countBelow (m - 1) (fun i => vwin seq n m (i + 1) == p) + freqDef seq n m false p := by
  unfold freqDef
  simp only [Bool.false_eq_true, if_false]
  rw [show n = (m - 1 + (n - m)) + 1 by omega, countBelow_succ_shift, countBelow_add,
    show m - 1 + (n - m) + 1 - m = n - m by omega, countBelow_succ]
  have e1 : countBelow (n - m) (fun k => vwin seq (m - 1 + (n - m) + 1) m (m - 1 + k + 1) == p) =
      countBelow (n - m) (fun i => window seq m i == p) := by
    apply countBelow_congr; intro k hk
    rw [show m - 1 + (n - m) + 1 = n by omega, show m - 1 + k + 1 = m + k by omega,
      vwin_add _ _ _ _ h hm]
  have e2 : vwin seq (m - 1 + (n - m) + 1) m 0 = window seq m (n - m) := by
    rw [show m - 1 + (n - m) + 1 = n by omega, vwin_zero _ _ _ h hm]
  rw [e1, e2]
  omega

/-- **slow path of FrequencyCount = `#{i | window i = pattern}`**, with wrap-around for every
`m ≤ n`, without wrap-around for `1 ≤ m ≤ n`. -/
theorem frequencyCountSlow_spec (seq n m : Nat) (wrap : Bool) (h : seq < 2 ^ n) (hm : m ≤ n)
    (hm1 : wrap = false → 1 ≤ m) :
    frequencyCountSlow seq n m wrap =
      .ok ((List.range (2 ^ m)).map (fun p => (freqDef seq n m wrap p : Int))) := by
  unfold frequencyCountSlow
  rw [fcGuard_none seq n m h hm]
  simp only
  congr 1
  obtain ⟨s1, s2⟩ := fcSlowCore_spec seq n m h hm
  unfold fcFinish
  cases wrap with
  | true =>
    simp only [if_true]
    apply toList_eq_of_cntOf _ _ _ s1
    intro p _
    rw [s2, count_vwin_wrap _ _ _ _ h hm]
  | false =>
    simp only [Bool.false_eq_true, if_false]
    obtain ⟨u1, u2⟩ := fcUnwrap_spec seq n m _ h hm s1
    apply toList_eq_of_cntOf _ _ _ u1
    intro p _
    rw [u2, s2, count_vwin_nowrap _ _ _ _ h (hm1 rfl) hm]
    omega

end Paranoid.BitSeq
