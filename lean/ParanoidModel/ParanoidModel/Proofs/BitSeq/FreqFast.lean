/-
Proofs/BitSeq/FreqFast.lean — the 4-bit-stride fast path of `frequencyCount` equals the definition,
hence the slow path.
-/
import ParanoidModel.Proofs.BitSeq.Freq
namespace Paranoid.BitSeq
open Paranoid Paranoid.BitDefs

/-! ### fast path of FrequencyCount -/

/-- what one `(m+3)`-bit tally `v` at index `q` adds to entry `x` of the `m`-bit tallies. -/
def contrib (m x : Nat) (v : Int) (q : Nat) : Int :=
  (if q &&& (2 ^ m - 1) = x then v else 0) + (if (q >>> 1) &&& (2 ^ m - 1) = x then v else 0) +
  (if (q >>> 2) &&& (2 ^ m - 1) = x then v else 0) + (if (q >>> 3) &&& (2 ^ m - 1) = x then v else 0)

/-- `Σ_i contrib l[i] (start + i)`. -/
def wsum (m x : Nat) : List Int → Nat → Int
  | [], _ => 0
  | v :: t, start => contrib m x v start + wsum m x t (start + 1)

/-- `Σ_{t<T} g t`. -/
def isum : Nat → (Nat → Int) → Int
  | 0, _ => 0
  | T + 1, g => isum T g + g T

theorem fcSpread_spec (m x : Nat) (res : Array Int) (v : Int) (q : Nat) (hs : res.size = 2 ^ m) :
    (fcSpread (2 ^ m - 1) res (v, q)).size = 2 ^ m ∧
    cntOf (fcSpread (2 ^ m - 1) res (v, q)) x = cntOf res x + contrib m x v q := by
  unfold fcSpread contrib
  simp only
  refine ⟨by simp only [size_addAt, hs], ?_⟩
  rw [cntOf_addAt _ _ _ _ (by simp only [size_addAt, hs]; exact and_mask_lt _ m),
    cntOf_addAt _ _ _ _ (by simp only [size_addAt, hs]; exact and_mask_lt _ m),
    cntOf_addAt _ _ _ _ (by simp only [size_addAt, hs]; exact and_mask_lt _ m),
    cntOf_addAt _ _ _ _ (by simp only [hs]; exact and_mask_lt _ m)]
  omega

theorem foldl_fcSpread (m x : Nat) : ∀ (l : List Int) (start : Nat) (res : Array Int),
    res.size = 2 ^ m →
    ((l.zipIdx start).foldl (fcSpread (2 ^ m - 1)) res).size = 2 ^ m ∧
    cntOf ((l.zipIdx start).foldl (fcSpread (2 ^ m - 1)) res) x = cntOf res x + wsum m x l start := by
  intro l
  induction l with
  | nil => intro start res hs; exact ⟨hs, by simp [wsum]⟩
  | cons v t ih =>
    intro start res hs
    rw [List.zipIdx_cons, List.foldl_cons]
    obtain ⟨h1, h2⟩ := fcSpread_spec m x res v start hs
    obtain ⟨i1, i2⟩ := ih (start + 1) _ h1
    refine ⟨i1, ?_⟩
    rw [i2, h2, wsum]; omega

theorem contrib_succ (m x : Nat) (v : Int) (q : Nat) :
    contrib m x (v + 1) q = contrib m x v q + contrib m x 1 q := by
  unfold contrib
  split <;> split <;> split <;> split <;> omega

theorem contrib_zero (m x q : Nat) : contrib m x 0 q = 0 := by
  unfold contrib; simp

theorem wsum_modify (m x : Nat) : ∀ (l : List Int) (start q : Nat), q < l.length →
    wsum m x (l.modify q (· + 1)) start = wsum m x l start + contrib m x 1 (start + q) := by
  intro l
  induction l with
  | nil => intro start q h; simp at h
  | cons v t ih =>
    intro start q h
    rw [List.modify_cons]
    split
    · rename_i h0; subst h0
      rw [wsum, wsum, contrib_succ]; simp only [Nat.add_zero]; omega
    · rename_i h0
      rw [wsum, wsum, ih (start + 1) (q - 1) (by simp at h; omega),
        show start + 1 + (q - 1) = start + q by omega]
      omega

theorem wsum_replicate (m x : Nat) : ∀ k start, wsum m x (List.replicate k 0) start = 0 := by
  intro k
  induction k with
  | zero => intro start; rfl
  | succ k ih => intro start; rw [List.replicate_succ, wsum, ih, contrib_zero]; rfl

theorem wsum_incr (m x : Nat) (count : Array Int) (q : Nat) (hq : q < count.size) :
    wsum m x (incr count q).toList 0 = wsum m x count.toList 0 + contrib m x 1 q := by
  unfold incr
  rw [Array.toList_modify, wsum_modify _ _ _ _ _ (by simpa using hq), Nat.zero_add]

/-- windows of width `m ≤ w` cut from a `(w+8)`-bit register. -/
theorem window_of_wide' (V m w a k : Nat) (hk : k ≤ 8) (hw : m ≤ w) :
    (((V >>> a) % 2 ^ (w + 8)) >>> k) % 2 ^ m = (V >>> (a + k)) % 2 ^ m := by
  apply Nat.eq_of_testBit_eq
  intro i
  simp only [Nat.testBit_mod_two_pow, Nat.testBit_shiftRight]
  by_cases h1 : i < m
  · simp [h1, show k + i < w + 8 by omega, show a + (k + i) = a + k + i by omega]
  · simp [h1]

theorem fcFastLoop_spec (seq m3 V m x : Nat) (hX : ∀ p, V.testBit (m3 + p) = seq.testBit p) :
    ∀ f j (count : Array Int), count.size = 2 ^ m3 →
    wsum m x count.toList 0 = isum (2 * j) (fun t => contrib m x 1 ((V >>> (4 * t)) % 2 ^ m3)) →
    (fcFastLoop seq m3 (2 ^ m3 - 1) f j ((V >>> (8 * j)) % 2 ^ m3) count).1 =
      (V >>> (8 * (j + f))) % 2 ^ m3 ∧
    (fcFastLoop seq m3 (2 ^ m3 - 1) f j ((V >>> (8 * j)) % 2 ^ m3) count).2.size = 2 ^ m3 ∧
    wsum m x (fcFastLoop seq m3 (2 ^ m3 - 1) f j ((V >>> (8 * j)) % 2 ^ m3) count).2.toList 0 =
      isum (2 * (j + f)) (fun t => contrib m x 1 ((V >>> (4 * t)) % 2 ^ m3)) := by
  intro f
  induction f with
  | zero => intro j count hs hc; exact ⟨rfl, hs, hc⟩
  | succ f ih =>
    intro j count hs hc
    unfold fcFastLoop
    rw [xor_byte_eq seq m3 V j hX]
    have hnext : ((V >>> (8 * j)) % 2 ^ (m3 + 8)) >>> 8 = (V >>> (8 * (j + 1))) % 2 ^ m3 := by
      apply Nat.eq_of_testBit_eq
      intro i
      simp only [Nat.testBit_mod_two_pow, Nat.testBit_shiftRight]
      by_cases h1 : i < m3
      · simp [h1, show 8 + i < m3 + 8 by omega, show 8 * j + (8 + i) = 8 * (j + 1) + i by omega]
      · simp [h1, show ¬ 8 + i < m3 + 8 by omega]
    have hi1 : ((V >>> (8 * j)) % 2 ^ (m3 + 8)) &&& (2 ^ m3 - 1) = (V >>> (4 * (2 * j))) % 2 ^ m3 := by
      have := window_of_wide' V m3 m3 (8 * j) 0 (by omega) (Nat.le_refl _)
      simp only [Nat.shiftRight_zero, Nat.add_zero] at this
      rw [Nat.and_two_pow_sub_one_eq_mod, this, show 4 * (2 * j) = 8 * j by omega]
    have hi2 : (((V >>> (8 * j)) % 2 ^ (m3 + 8)) >>> 4) &&& (2 ^ m3 - 1) =
        (V >>> (4 * (2 * j + 1))) % 2 ^ m3 := by
      rw [Nat.and_two_pow_sub_one_eq_mod, window_of_wide' V m3 m3 (8 * j) 4 (by omega) (Nat.le_refl _),
        show 4 * (2 * j + 1) = 8 * j + 4 by omega]
    rw [hnext, hi1, hi2]
    have hlt : ∀ y, y % 2 ^ m3 < 2 ^ m3 := fun y => Nat.mod_lt _ (Nat.two_pow_pos m3)
    have hs1 : (incr count ((V >>> (4 * (2 * j))) % 2 ^ m3)).size = 2 ^ m3 := by
      rw [incr_eq_addAt, size_addAt, hs]
    have := ih (j + 1)
      (incr (incr count ((V >>> (4 * (2 * j))) % 2 ^ m3)) ((V >>> (4 * (2 * j + 1))) % 2 ^ m3))
      (by rw [incr_eq_addAt, size_addAt, hs1]) (by
      rw [wsum_incr _ _ _ _ (by rw [hs1]; exact hlt _), wsum_incr _ _ _ _ (by rw [hs]; exact hlt _), hc,
        show 2 * (j + 1) = 2 * j + 1 + 1 by omega, isum, isum])
    rw [show j + 1 + f = j + (f + 1) by omega] at this
    exact this

theorem isum_count4 (G : Nat → Bool) : ∀ T,
    isum T (fun t => ((countBelow 4 (fun r => G (4 * t + r)) : Nat) : Int)) = (countBelow (4 * T) G : Nat) := by
  intro T
  induction T with
  | zero => simp [isum, countBelow]
  | succ T ih =>
    rw [isum, ih, show 4 * (T + 1) = 4 * T + 4 by omega, countBelow_add]; omega

theorem contrib_one_eq (m x q : Nat) :
    contrib m x 1 q = (countBelow 4 (fun r => (q >>> r) % 2 ^ m == x) : Nat) := by
  unfold contrib
  simp only [Nat.and_two_pow_sub_one_eq_mod]
  rw [show (4 : Nat) = 0 + 1 + 1 + 1 + 1 by rfl, countBelow_succ, countBelow_succ, countBelow_succ,
    countBelow_succ]
  have e' : ∀ a : Nat, (a == x).toNat = if a = x then 1 else 0 := by
    intro a; by_cases h : a = x <;> simp [h]
  simp only [countBelow, List.range_zero, List.countP_nil, Nat.shiftRight_zero, Nat.zero_add, e']
  by_cases h0 : q % 2 ^ m = x <;> by_cases h1 : (q >>> 1) % 2 ^ m = x <;>
    by_cases h2 : (q >>> 2) % 2 ^ m = x <;> by_cases h3 : (q >>> 3) % 2 ^ m = x <;>
    simp [h0, h1, h2, h3]

end Paranoid.BitSeq
namespace Paranoid.BitSeq
open Paranoid Paranoid.BitDefs

/-- `m`-bit windows of the virtual stream built for width `w ≥ m` are cyclic windows too. -/
theorem vstream_window_cyclic (seq n m w k : Nat) (h : seq < 2 ^ n) (hw : w ≤ n) (hmw : m ≤ w)
    (hk : k ≤ n) :
    (vstream seq n w >>> k) % 2 ^ m = cyclicWindow seq n m ((k + (n - w)) % n) := by
  unfold cyclicWindow
  apply eq_ofBits
  intro j
  rw [Nat.testBit_mod_two_pow, Nat.testBit_shiftRight, testBit_vstream _ _ _ _ h hw]
  by_cases hj : j < m
  · simp only [hj, decide_true, Bool.true_and]
    rw [Nat.mod_add_mod]
    split
    · rename_i hlt
      rw [Nat.mod_eq_of_lt (by omega)]; congr 1; omega
    · rename_i hge
      rw [show k + (n - w) + j = (k + j - w) + n by omega, Nat.add_mod_right,
        Nat.mod_eq_of_lt (by omega)]
  · simp [hj]

theorem fcFastCore_spec (seq n m : Nat) (h : seq < 2 ^ n) (hm3 : m + 3 ≤ n) :
    ∃ res, fcFastCore seq n m = .ok res ∧ res.size = 2 ^ m ∧
    ∀ x, cntOf res x = (freqDef seq n m true x : Nat) := by
  have hX : ∀ p, (vstream seq n (m + 3)).testBit (m + 3 + p) = seq.testBit p :=
    fun p => testBit_vstream_add _ _ _ _ h hm3
  have hs0 : seq >>> (n - (m + 3)) = (vstream seq n (m + 3) >>> (8 * 0)) % 2 ^ (m + 3) := by
    apply Nat.eq_of_testBit_eq
    intro i
    simp only [Nat.testBit_mod_two_pow, Nat.testBit_shiftRight, Nat.mul_zero, Nat.zero_add,
      testBit_vstream _ _ _ _ h hm3]
    by_cases h1 : i < m + 3
    · simp [h1]
    · have : seq.testBit (n - (m + 3) + i) = false :=
        Nat.testBit_lt_two_pow (Nat.lt_of_lt_of_le h (Nat.pow_le_pow_right (by decide) (by omega)))
      simp [h1, this]
  unfold fcFastCore
  rw [if_neg (by omega)]
  refine ⟨_, rfl, ?_⟩
  rw [hs0]
  -- size and the stream position do not depend on the entry `x`
  have hloop := fun x => fcFastLoop_spec seq (m + 3) (vstream seq n (m + 3)) m x hX (n / 8) 0
    (Array.replicate (2 ^ (m + 3)) 0) Array.size_replicate
    (by rw [Array.toList_replicate, wsum_replicate]; rfl)
  generalize fcFastLoop seq (m + 3) (2 ^ (m + 3) - 1) (n / 8) 0
    ((vstream seq n (m + 3) >>> (8 * 0)) % 2 ^ (m + 3)) (Array.replicate (2 ^ (m + 3)) 0) = st at *
  obtain ⟨s, count⟩ := st
  simp only [Nat.zero_add] at hloop
  have l1 := (hloop 0).1
  have hspread := fun x => foldl_fcSpread m x count.toList 0 (Array.replicate (2 ^ m) 0)
    Array.size_replicate
  unfold fcSpreadAll fcTail
  simp only
  -- entry x after the spreading step
  have hcnt : ∀ x, cntOf ((count.toList.zipIdx).foldl (fcSpread (2 ^ m - 1)) (Array.replicate (2 ^ m) 0)) x =
      (countBelow (8 * (n / 8)) (fun k => (vstream seq n (m + 3) >>> k) % 2 ^ m == x) : Nat) := by
    intro x
    rw [(hspread x).2, cntOf_replicate, (hloop x).2.2, Int.zero_add]
    have : (fun t => contrib m x 1 ((vstream seq n (m + 3) >>> (4 * t)) % 2 ^ (m + 3))) =
        (fun t => ((countBelow 4 (fun r => (vstream seq n (m + 3) >>> (4 * t + r)) % 2 ^ m == x) : Nat) : Int)) := by
      funext t
      rw [contrib_one_eq]
      congr 1
      apply countBelow_congr
      intro r hr
      apply congrArg (· == x)
      apply Nat.eq_of_testBit_eq
      intro i
      simp only [Nat.testBit_mod_two_pow, Nat.testBit_shiftRight]
      by_cases h1 : i < m
      · simp [h1, show r + i < m + 3 by omega, show 4 * t + (r + i) = 4 * t + r + i by omega]
      · simp [h1]
    rw [this, isum_count4 (fun k => (vstream seq n (m + 3) >>> k) % 2 ^ m == x),
      show 4 * (2 * (n / 8)) = 8 * (n / 8) by omega]
  have hfin : ∀ x, (countBelow n (fun k => (vstream seq n (m + 3) >>> k) % 2 ^ m == x)) =
      freqDef seq n m true x := by
    intro x
    unfold freqDef
    simp only [if_true]
    rw [← countBelow_rotate n (n - (m + 3)) (fun i => cyclicWindow seq n m i == x) (by omega)]
    apply countBelow_congr
    intro k hk
    rw [vstream_window_cyclic _ _ _ _ _ h hm3 (by omega) (by omega)]
  split
  · rename_i h8
    rw [l1, show (n + 7) / 8 - 1 = n / 8 by omega, xor_byte_eq seq (m + 3) _ _ hX]
    obtain ⟨c1, c2⟩ := countBits_spec m (n % 8)
      ((vstream seq n (m + 3) >>> (8 * (n / 8))) % 2 ^ (m + 3 + 8)) _ (hspread 0).1
    refine ⟨c1, fun x => ?_⟩
    rw [c2, hcnt, ← hfin]
    have : countBelow (n % 8) (fun k => ((vstream seq n (m + 3) >>> (8 * (n / 8))) % 2 ^ (m + 3 + 8)) >>> k % 2 ^ m == x) =
        countBelow (n % 8) (fun k => (vstream seq n (m + 3) >>> (8 * (n / 8) + k)) % 2 ^ m == x) := by
      apply countBelow_congr; intro k hk
      rw [window_of_wide' _ _ _ _ _ (by omega) (by omega)]
    rw [this]
    have e := countBelow_add (8 * (n / 8)) (n % 8) (fun k => (vstream seq n (m + 3) >>> k) % 2 ^ m == x)
    rw [show 8 * (n / 8) + n % 8 = n by omega] at e
    rw [e]; omega
  · rename_i h8
    refine ⟨(hspread 0).1, fun x => ?_⟩
    rw [hcnt, ← hfin, show 8 * (n / 8) = n by omega]

/-- **fast path of FrequencyCount = `#{i | window i = pattern}`** whenever it is defined
(`m + 3 ≤ n`). -/
theorem frequencyCountFast_spec (seq n m : Nat) (wrap : Bool) (h : seq < 2 ^ n) (hm3 : m + 3 ≤ n)
    (hm1 : wrap = false → 1 ≤ m) :
    frequencyCountFast seq n m wrap =
      .ok ((List.range (2 ^ m)).map (fun p => (freqDef seq n m wrap p : Int))) := by
  unfold frequencyCountFast
  rw [fcGuard_none seq n m h (by omega)]
  simp only
  obtain ⟨res, hres, s1, s2⟩ := fcFastCore_spec seq n m h hm3
  rw [hres]
  show Except.ok _ = _
  congr 1
  unfold fcFinish
  cases wrap with
  | true =>
    simp only [if_true]
    exact toList_eq_of_cntOf _ _ _ s1 (fun p _ => s2 p)
  | false =>
    simp only [Bool.false_eq_true, if_false]
    obtain ⟨u1, u2⟩ := fcUnwrap_spec seq n m _ h (by omega) s1
    apply toList_eq_of_cntOf _ _ _ u1
    intro p _
    rw [u2, s2, ← count_vwin_wrap _ _ _ _ h (by omega), count_vwin_nowrap _ _ _ _ h (hm1 rfl) (by omega)]
    omega

theorem fast_guard_le (n m : Nat) (h : fcUseFast n m = true) : m + 3 ≤ n := by
  unfold fcUseFast at h
  have h' := (of_decide_eq_true h).1
  have : m < 2 ^ m := Nat.lt_two_pow_self
  omega

/-- **FrequencyCount, whichever path the size selects.** -/
theorem frequencyCount_spec (seq n m : Nat) (wrap : Bool) (h : seq < 2 ^ n) (hm : m ≤ n)
    (hm1 : wrap = false → 1 ≤ m) :
    frequencyCount seq n m wrap =
      .ok ((List.range (2 ^ m)).map (fun p => (freqDef seq n m wrap p : Int))) := by
  unfold frequencyCount
  split
  · rename_i hf
    exact frequencyCountFast_spec seq n m wrap h (fast_guard_le n m hf) hm1
  · exact frequencyCountSlow_spec seq n m wrap h hm hm1

/-- the fast path gives the same answer as the slow path wherever it is defined. -/
theorem frequencyCountFast_eq_slow (seq n m : Nat) (wrap : Bool) (h : seq < 2 ^ n) (hm3 : m + 3 ≤ n)
    (hm1 : wrap = false → 1 ≤ m) :
    frequencyCountFast seq n m wrap = frequencyCountSlow seq n m wrap := by
  rw [frequencyCountFast_spec seq n m wrap h hm3 hm1,
    frequencyCountSlow_spec seq n m wrap h (by omega) hm1]

end Paranoid.BitSeq
