/-
Proofs/BitSeq/Popcount.lean — `bitCount` (and `Paranoid.popcount`) equal `Σ_{i<n} bit i`.
-/
import ParanoidModel.Model.BitSeq
import ParanoidModel.Spec.BitDefs
namespace Paranoid.BitSeq
open Paranoid Paranoid.BitDefs

/-! ### population count -/

/-- `Σ_{i<n} bit i` in recursive form. -/
def pc (s : Nat) : Nat → Nat
  | 0 => 0
  | n + 1 => pc s n + (s.testBit n).toNat

theorem countBelow_succ (n : Nat) (p : Nat → Bool) :
    countBelow (n + 1) p = countBelow n p + (p n).toNat := by
  unfold countBelow
  rw [List.range_succ, List.countP_append]
  cases h : p n <;> simp [h]

theorem popcountDef_eq_pc (s n : Nat) : popcountDef s n = pc s n := by
  induction n with
  | zero => rfl
  | succ n ih => unfold popcountDef at *; rw [countBelow_succ, ih]; rfl

theorem pc_zero (n : Nat) : pc 0 n = 0 := by
  induction n with
  | zero => rfl
  | succ n ih => simp [pc, ih]

theorem pc_succ_shift (s n : Nat) : pc s (n + 1) = s % 2 + pc (s / 2) n := by
  induction n with
  | zero =>
    simp only [pc, Nat.testBit_zero]
    rcases Nat.mod_two_eq_zero_or_one s with h | h <;> simp [h]
  | succ n ih =>
    rw [pc, ih, pc, Nat.testBit_succ]; omega

theorem pc_add (s a b : Nat) : pc s (a + b) = pc s a + pc (s >>> a) b := by
  induction b with
  | zero => rfl
  | succ b ih => rw [← Nat.add_assoc, pc, ih, pc, Nat.testBit_shiftRight]; omega

theorem pc_mod (s a : Nat) : ∀ n, n ≤ a → pc (s % 2 ^ a) n = pc s n := by
  intro n
  induction n with
  | zero => intro _; rfl
  | succ n ih =>
    intro h
    rw [pc, pc, ih (by omega), Nat.testBit_mod_two_pow]
    simp [show n < a by omega]

theorem pc_of_lt (s n : Nat) (h : s < 2 ^ n) (k : Nat) : pc s (n + k) = pc s n := by
  rw [pc_add]
  have : s >>> n = 0 := by rw [Nat.shiftRight_eq_div_pow]; exact Nat.div_eq_of_lt h
  rw [this, pc_zero]; rfl

theorem pc_congr_bound (s n n' : Nat) (h : s < 2 ^ n) (h' : s < 2 ^ n') : pc s n = pc s n' := by
  rcases Nat.le_total n n' with hle | hle
  · obtain ⟨k, rfl⟩ := Nat.exists_eq_add_of_le hle; exact (pc_of_lt s n h k).symm
  · obtain ⟨k, rfl⟩ := Nat.exists_eq_add_of_le hle; exact pc_of_lt s n' h' k

theorem lt_two_pow_bitLength (s : Nat) : s < 2 ^ bitLength s := by
  unfold bitLength
  split
  · subst_vars; decide
  · exact Nat.lt_log2_self

theorem popcountAux_eq (f : Nat) : ∀ s acc, s < 2 ^ f → popcountAux f s acc = acc + pc s f := by
  induction f with
  | zero => intro s acc h; simp [popcountAux, pc]
  | succ f ih =>
    intro s acc h
    unfold popcountAux
    split
    · subst_vars; rw [pc_zero]; rfl
    · rw [ih _ _ (by omega), pc_succ_shift]; omega

theorem popcount_eq_pc (s n : Nat) (h : s < 2 ^ n) : popcount s = pc s n := by
  unfold popcount
  rw [popcountAux_eq _ _ _ (lt_two_pow_bitLength s), Nat.zero_add]
  exact pc_congr_bound _ _ _ (lt_two_pow_bitLength s) h

theorem bitCountAux_eq (f : Nat) : ∀ s acc, s < 2 ^ (64 * f) →
    bitCountAux f s acc = acc + pc s (64 * f) := by
  induction f with
  | zero => intro s acc h; simp [bitCountAux, pc]
  | succ f ih =>
    intro s acc h
    unfold bitCountAux
    have h1 : s >>> 64 < 2 ^ (64 * f) := by
      rw [Nat.shiftRight_eq_div_pow, Nat.div_lt_iff_lt_mul (by decide)]
      rw [← Nat.pow_add]; simpa [Nat.mul_succ] using h
    rw [ih _ _ h1, popcount_eq_pc _ 64 (Nat.mod_lt _ (by decide)), pc_mod _ _ _ (Nat.le_refl _)]
    rw [show 64 * (f + 1) = 64 + 64 * f by omega, pc_add]; omega

/-- `bitCount s = Σ_{i<n} bit i` for every `n` with `s < 2^n`. -/
theorem bitCount_eq_pc (s n : Nat) (h : s < 2 ^ n) : bitCount s = pc s n := by
  unfold bitCount
  have hb : s < 2 ^ (64 * ((bitLength s + 63) / 64)) :=
    Nat.lt_of_lt_of_le (lt_two_pow_bitLength s) (Nat.pow_le_pow_right (by decide) (by omega))
  rw [bitCountAux_eq _ _ _ hb, Nat.zero_add]
  exact pc_congr_bound _ _ _ hb h

end Paranoid.BitSeq
