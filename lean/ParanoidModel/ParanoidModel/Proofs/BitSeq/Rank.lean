/-
Proofs/BitSeq/Rank.lean — `_BinaryMatrixRankSmall` characterises the size of the GF(2) row span.
-/
import ParanoidModel.Proofs.BitSeq.Popcount
import Mathlib.Data.Finset.Card
import Mathlib.Data.Finset.Image
namespace Paranoid.BitSeq
open Paranoid Paranoid.BitDefs

/-! ### GF(2) span of a list of rows -/

theorem distinctCount_eq_card (l : List Nat) : distinctCount l = l.toFinset.card := by
  induction l with
  | nil => rfl
  | cons a t ih =>
    rw [distinctCount, List.toFinset_cons, ih]
    by_cases h : a ∈ t
    · rw [if_pos h, Finset.card_insert_of_mem (by simpa using h)]; omega
    · rw [if_neg h, Finset.card_insert_of_notMem (by simpa using h)]; omega

/-- the span as a finite set. -/
def spanSet (rows : List Nat) : Finset Nat := (spanList rows).toFinset

theorem spanSize_eq_card (rows : List Nat) : spanSize rows = (spanSet rows).card :=
  distinctCount_eq_card _

theorem spanSet_nil : spanSet [] = {0} := rfl

theorem spanSet_cons (r : Nat) (R : List Nat) :
    spanSet (r :: R) = spanSet R ∪ (spanSet R).image (r ^^^ ·) := by
  unfold spanSet
  rw [spanList, List.toFinset_append]
  congr 1
  ext v
  simp only [List.mem_toFinset, List.mem_map, Finset.mem_image]

theorem mem_spanSet_cons (r : Nat) (R : List Nat) (v : Nat) :
    v ∈ spanSet (r :: R) ↔ v ∈ spanSet R ∨ ∃ y ∈ spanSet R, r ^^^ y = v := by
  rw [spanSet_cons, Finset.mem_union, Finset.mem_image]

theorem zero_mem_spanSet (R : List Nat) : 0 ∈ spanSet R := by
  induction R with
  | nil => simp [spanSet_nil]
  | cons r R ih => rw [mem_spanSet_cons]; exact Or.inl ih

theorem xor_mem_spanSet (R : List Nat) : ∀ x y, x ∈ spanSet R → y ∈ spanSet R →
    x ^^^ y ∈ spanSet R := by
  induction R with
  | nil =>
    intro x y hx hy
    simp only [spanSet_nil, Finset.mem_singleton] at hx hy ⊢
    subst hx hy; rfl
  | cons r R ih =>
    intro x y hx hy
    rw [mem_spanSet_cons] at hx hy ⊢
    rcases hx with hx | ⟨x', hx', rfl⟩ <;> rcases hy with hy | ⟨y', hy', rfl⟩
    · exact Or.inl (ih _ _ hx hy)
    · exact Or.inr ⟨x ^^^ y', ih _ _ hx hy', by
        rw [← Nat.xor_assoc, Nat.xor_comm r x, Nat.xor_assoc]⟩
    · exact Or.inr ⟨x' ^^^ y, ih _ _ hx' hy, by rw [Nat.xor_assoc]⟩
    · left
      have : r ^^^ x' ^^^ (r ^^^ y') = x' ^^^ y' := by
        rw [Nat.xor_assoc, ← Nat.xor_assoc x' r y', Nat.xor_comm x' r, Nat.xor_assoc r x' y',
          ← Nat.xor_assoc, Nat.xor_self, Nat.zero_xor]
      rw [this]; exact ih _ _ hx' hy'

theorem mem_spanSet_of_mem (R : List Nat) : ∀ x ∈ R, x ∈ spanSet R := by
  induction R with
  | nil => intro x hx; cases hx
  | cons r R ih =>
    intro x hx
    rw [mem_spanSet_cons]
    rcases List.mem_cons.1 hx with rfl | h
    · exact Or.inr ⟨0, zero_mem_spanSet R, Nat.xor_zero _⟩
    · exact Or.inl (ih x h)

/-- the span is the smallest xor-closed set containing 0 and the rows. -/
theorem spanSet_subset (R : List Nat) (C : Nat → Prop) (h0 : C 0)
    (hx : ∀ x y, C x → C y → C (x ^^^ y)) (hR : ∀ x ∈ R, C x) : ∀ v ∈ spanSet R, C v := by
  induction R with
  | nil => intro v hv; simp only [spanSet_nil, Finset.mem_singleton] at hv; subst hv; exact h0
  | cons r R ih =>
    intro v hv
    have ihR := ih (fun x hx' => hR x (List.mem_cons_of_mem _ hx'))
    rw [mem_spanSet_cons] at hv
    rcases hv with hv | ⟨y, hy, rfl⟩
    · exact ihR v hv
    · exact hx _ _ (hR r (List.mem_cons_self ..)) (ihR y hy)

theorem spanSet_mono (A B : List Nat) (h : ∀ a ∈ A, a ∈ spanSet B) : spanSet A ⊆ spanSet B :=
  fun v hv => spanSet_subset A (· ∈ spanSet B) (zero_mem_spanSet B) (xor_mem_spanSet B) h v hv

theorem spanSet_cons_of_mem (r : Nat) (R : List Nat) (h : r ∈ spanSet R) :
    spanSet (r :: R) = spanSet R := by
  apply Finset.Subset.antisymm
  · apply spanSet_mono
    intro a ha
    rcases List.mem_cons.1 ha with rfl | h'
    · exact h
    · exact mem_spanSet_of_mem R a h'
  · intro v hv; rw [mem_spanSet_cons]; exact Or.inl hv

theorem card_spanSet_cons_of_not_mem (r : Nat) (R : List Nat) (h : r ∉ spanSet R) :
    (spanSet (r :: R)).card = 2 * (spanSet R).card := by
  rw [spanSet_cons, Finset.card_union_of_disjoint, Finset.card_image_of_injective]
  · omega
  · intro a b hab
    have : r ^^^ (r ^^^ a) = r ^^^ (r ^^^ b) := congrArg (r ^^^ ·) hab
    simpa [← Nat.xor_assoc] using this
  · rw [Finset.disjoint_left]
    intro v hv hv'
    obtain ⟨y, hy, rfl⟩ := Finset.mem_image.1 hv'
    apply h
    have := xor_mem_spanSet R _ _ hv hy
    rwa [Nat.xor_assoc, Nat.xor_self, Nat.xor_zero] at this

/-! ### `_BinaryMatrixRankSmall` -/

theorem elimRow_cases (msb r x : Nat) : elimRow msb r x = x ∨ elimRow msb r x = x ^^^ r := by
  unfold elimRow; split
  · exact Or.inr rfl
  · exact Or.inl rfl

theorem spanSet_elim (msb r : Nat) (R : List Nat) :
    spanSet (r :: R.map (elimRow msb r)) = spanSet (r :: R) := by
  have hr1 : r ∈ spanSet (r :: R) := mem_spanSet_of_mem _ _ (List.mem_cons_self ..)
  have hr2 : r ∈ spanSet (r :: R.map (elimRow msb r)) := mem_spanSet_of_mem _ _ (List.mem_cons_self ..)
  apply Finset.Subset.antisymm
  · apply spanSet_mono
    intro a ha
    rcases List.mem_cons.1 ha with rfl | h'
    · exact hr1
    · obtain ⟨x, hx, rfl⟩ := List.mem_map.1 h'
      have hx' : x ∈ spanSet (r :: R) := mem_spanSet_of_mem _ _ (List.mem_cons_of_mem _ hx)
      rcases elimRow_cases msb r x with e | e <;> rw [e]
      · exact hx'
      · exact xor_mem_spanSet _ _ _ hx' hr1
  · apply spanSet_mono
    intro a ha
    rcases List.mem_cons.1 ha with rfl | h'
    · exact hr2
    · have he : elimRow msb r a ∈ spanSet (r :: R.map (elimRow msb r)) :=
        mem_spanSet_of_mem _ _ (List.mem_cons_of_mem _ (List.mem_map.2 ⟨a, h', rfl⟩))
      rcases elimRow_cases msb r a with e | e
      · rwa [e] at he
      · rw [e] at he
        have := xor_mem_spanSet _ _ _ he hr2
        rwa [Nat.xor_assoc, Nat.xor_self, Nat.xor_zero] at this

theorem msb_eq (r : Nat) (h : r ≠ 0) : 1 <<< (bitLength r - 1) = 2 ^ r.log2 := by
  unfold bitLength; rw [if_neg h, Nat.one_shiftLeft]; rfl

theorem and_two_pow_ne_zero_iff (x t : Nat) : x &&& 2 ^ t ≠ 0 ↔ x.testBit t = true := by
  constructor
  · intro h
    obtain ⟨i, hi⟩ := Nat.exists_testBit_of_ne_zero h
    rw [Nat.testBit_and, Nat.testBit_two_pow] at hi
    simp only [Bool.and_eq_true, decide_eq_true_eq] at hi
    rw [hi.2]; exact hi.1
  · intro h h0
    have : (x &&& 2 ^ t).testBit t = true := by rw [Nat.testBit_and, Nat.testBit_two_pow, h]; simp
    rw [h0] at this; simp at this

theorem testBit_elimRow (r x : Nat) (h : r ≠ 0) :
    (elimRow (1 <<< (bitLength r - 1)) r x).testBit r.log2 = false := by
  rw [msb_eq r h]
  unfold elimRow
  have hr : r.testBit r.log2 = true := Nat.testBit_log2 h
  split
  · rename_i hc
    rw [Nat.testBit_xor, (and_two_pow_ne_zero_iff x r.log2).1 hc, hr]; rfl
  · rename_i hc
    cases hx : x.testBit r.log2
    · rfl
    · exact absurd ((and_two_pow_ne_zero_iff x r.log2).2 hx) hc

theorem rankSmallAux_spec : ∀ f rows rank, rows.length ≤ f →
    2 ^ rankSmallAux f rows rank = 2 ^ rank * (spanSet rows).card := by
  intro f
  induction f with
  | zero =>
    intro rows rank h
    have : rows = [] := List.eq_nil_of_length_eq_zero (by omega)
    subst this; simp [rankSmallAux, spanSet_nil]
  | succ f ih =>
    intro rows rank h
    cases rows with
    | nil => simp [rankSmallAux, spanSet_nil]
    | cons r rest =>
      unfold rankSmallAux
      split
      · rename_i h0; subst h0
        rw [ih rest rank (by simpa using h), spanSet_cons_of_mem 0 rest (zero_mem_spanSet rest)]
      · rename_i h0
        rw [ih _ (rank + 1) (by simpa using h), ← spanSet_elim (1 <<< (bitLength r - 1)) r rest,
          card_spanSet_cons_of_not_mem, Nat.pow_succ]
        · rw [Nat.mul_assoc]
        · intro hmem
          have := spanSet_subset (rest.map (elimRow (1 <<< (bitLength r - 1)) r))
            (fun v => v.testBit r.log2 = false) (by simp)
            (fun x y hx hy => by simp [Nat.testBit_xor, hx, hy])
            (fun x hx => by
              obtain ⟨y, _, rfl⟩ := List.mem_map.1 hx
              exact testBit_elimRow r y h0) r hmem
          rw [Nat.testBit_log2 h0] at this; cases this

/-- **`_BinaryMatrixRankSmall` characterises the size of the row span: `2^rank = |span|`.** -/
theorem rankSmall_spec (rows : List Nat) : 2 ^ rankSmall rows = spanSize rows := by
  unfold rankSmall
  rw [rankSmallAux_spec _ _ _ (Nat.le_refl _), spanSize_eq_card]; simp

end Paranoid.BitSeq
