/-
Proofs/BitSeq/RankLarge.lean — the table-driven elimination `_BinaryMatrixRankLarge` never raises and
returns the rank: `2^rank = |row span|`, hence the same value as `_BinaryMatrixRankSmall`.
-/
import ParanoidModel.Proofs.BitSeq.Rank
import ParanoidModel.Proofs.BitSeq.Bytes
import Mathlib.Data.Nat.Bitwise
namespace Paranoid.BitSeq
open Paranoid Paranoid.BitDefs

/-! ### enumeration of the subsets of a mask: `t ↦ (t - 1) &&& mask` -/

/-- `x < y` is witnessed by a highest differing bit. -/
theorem exists_bit_of_lt {x y : Nat} (h : x < y) :
    ∃ i, x.testBit i = false ∧ y.testBit i = true ∧ ∀ j, i < j → x.testBit j = y.testBit j := by
  have hne : x ^^^ y ≠ 0 := by
    intro h0
    have : x = y := by
      apply Nat.eq_of_testBit_eq; intro i
      have := congrArg (·.testBit i) h0
      simp only [Nat.testBit_xor, Nat.zero_testBit] at this
      cases hx : x.testBit i <;> cases hy : y.testBit i <;> simp_all
    omega
  obtain ⟨i, hi, hi'⟩ := Nat.exists_most_significant_bit hne
  have hagree : ∀ j, i < j → x.testBit j = y.testBit j := by
    intro j hj
    have := hi' j hj
    rw [Nat.testBit_xor] at this
    cases hx : x.testBit j <;> cases hy : y.testBit j <;> simp_all
  rw [Nat.testBit_xor] at hi
  refine ⟨i, ?_, ?_, hagree⟩
  · cases hx : x.testBit i
    · rfl
    · have hy : y.testBit i = false := by cases hy : y.testBit i <;> simp_all
      have := Nat.lt_of_testBit i hy hx (fun j hj => (hagree j hj).symm)
      omega
  · cases hy : y.testBit i
    · have hx : x.testBit i = true := by cases hx : x.testBit i <;> simp_all
      have := Nat.lt_of_testBit i hy hx (fun j hj => (hagree j hj).symm)
      omega
    · rfl

/-- adding one does not change the bits above a zero bit. -/
theorem testBit_succ_above (u k j : Nat) (hk : u.testBit k = false) (hj : k < j) :
    (u + 1).testBit j = u.testBit j := by
  have hmod : u % 2 ^ (k + 1) < 2 ^ k := by
    have h1 : (u % 2 ^ (k + 1)).testBit k = false := by
      rw [Nat.testBit_mod_two_pow]; simp [hk]
    apply Nat.lt_pow_two_of_testBit
    intro i hi
    rcases Nat.lt_or_ge k i with h | h
    · rw [Nat.testBit_mod_two_pow]; simp [show ¬ i < k + 1 by omega]
    · have : i = k := by omega
      subst this; exact h1
  have hdiv : (u + 1) / 2 ^ (k + 1) = u / 2 ^ (k + 1) := by
    have hpos : 0 < 2 ^ (k + 1) := Nat.two_pow_pos _
    have e := Nat.div_add_mod u (2 ^ (k + 1))
    have hp : 2 ^ (k + 1) = 2 * 2 ^ k := by rw [Nat.pow_succ]; omega
    rw [Nat.div_eq_iff hpos] 
    constructor
    · have := Nat.div_mul_le_self u (2 ^ (k + 1)); omega
    · have := Nat.lt_div_mul_add (a := u) hpos
      rw [Nat.mul_comm] at e
      generalize u / 2 ^ (k + 1) = q at *
      generalize u % 2 ^ (k + 1) = r at *
      omega
  obtain ⟨d, rfl⟩ : ∃ d, j = d + (k + 1) := ⟨j - (k + 1), by omega⟩
  rw [← Nat.testBit_div_two_pow, ← Nat.testBit_div_two_pow, hdiv]

/-- `(t-1) &&& mask` is the next smaller subset of `mask`: nothing lies in between. -/
theorem subset_enum_next (mask t s : Nat) (ht : t &&& mask = t) (hs : s &&& mask = s)
    (hst : s < t) : s ≤ (t - 1) &&& mask := by
  rcases Nat.lt_or_ge ((t - 1) &&& mask) s with hlt | hge
  · exfalso
    obtain ⟨k, hk1, hk2, hk3⟩ := exists_bit_of_lt hlt
    have hsub : ∀ i, s.testBit i = true → mask.testBit i = true := by
      intro i hi
      have := congrArg (·.testBit i) hs
      simp only [Nat.testBit_and, hi, Bool.true_and] at this
      exact this
    have htsub : ∀ i, t.testBit i = true → mask.testBit i = true := by
      intro i hi
      have := congrArg (·.testBit i) ht
      simp only [Nat.testBit_and, hi, Bool.true_and] at this
      exact this
    have hmk := hsub k hk2
    rw [Nat.testBit_and, hmk, Bool.and_true] at hk1
    -- u = t - 1 has a zero at k, so t and u agree above k
    have hut : ∀ j, k < j → t.testBit j = (t - 1).testBit j := by
      intro j hj
      have := testBit_succ_above (t - 1) k j hk1 hj
      rwa [show t - 1 + 1 = t by omega] at this
    have : t - 1 < s := by
      apply Nat.lt_of_testBit k hk1 hk2
      intro j hj
      have h3 := hk3 j hj
      rw [Nat.testBit_and] at h3
      cases hu : (t - 1).testBit j
      · rw [hu] at h3; simp at h3; exact h3.symm
      · have := htsub j (by rw [hut j hj]; exact hu)
        rw [hu, this] at h3; simp at h3; exact h3.symm
    omega
  · exact hge

/-! ### the subset table -/

/-- entry `j` of the table is a combination `v < 2^cU` of the pivots `Pv` whose bits at the pivot
columns of this round (`mask`, counted from `cL`) spell `j`. -/
def GoodEntry (tab : Array (Option Nat)) (cL mask cU : Nat) (Pv : List Nat) (j : Nat) : Prop :=
  ∃ v, tab[j]? = some (some v) ∧ v ∈ spanSet Pv ∧ (v >>> cL) &&& mask = j ∧ v < 2 ^ cU

structure TabInv (tab : Array (Option Nat)) (cL mask cU T : Nat) (Pv : List Nat) : Prop where
  size : tab.size = 2 ^ T
  zero : tab[0]? = some (some 0)
  good : ∀ j, j &&& mask = j → GoodEntry tab cL mask cU Pv j

theorem tabGet_of_some (tab : Array (Option Nat)) (j v : Nat) (h : tab[j]? = some (some v)) :
    tabGet tab j = .ok v := by
  unfold tabGet; rw [h]

theorem tabSet_ok (tab : Array (Option Nat)) (j v : Nat) (h : j < tab.size) :
    tabSet tab j v = .ok (tab.setIfInBounds j (some v)) := by
  unfold tabSet; rw [if_pos h]

theorem get_set_ne (tab : Array (Option Nat)) (i j : Nat) (v : Option Nat) (h : i ≠ j) :
    (tab.setIfInBounds i v)[j]? = tab[j]? := by
  rw [Array.getElem?_setIfInBounds, if_neg h]

theorem get_set_eq (tab : Array (Option Nat)) (i : Nat) (v : Option Nat) (h : i < tab.size) :
    (tab.setIfInBounds i v)[i]? = some v := by
  rw [Array.getElem?_setIfInBounds, if_pos rfl, if_pos h]

theorem le_of_and_eq (j mask : Nat) (h : j &&& mask = j) : j ≤ mask := by
  rw [← h]; exact Nat.and_le_right

theorem testBit_of_sub (j mask i : Nat) (h : j &&& mask = j) (hi : j.testBit i = true) :
    mask.testBit i = true := by
  have := congrArg (·.testBit i) h
  simp only [Nat.testBit_and, hi, Bool.true_and] at this
  exact this

section subsets
variable (cL mask cU T pp x' : Nat) (Pv : List Nat)
variable (hpp : pp < T) (hmT : mask < 2 ^ T) (hmp : mask.testBit pp = false)
variable (hx0 : (x' >>> cL) &&& mask = 0) (hxb : x'.testBit (cL + pp) = true) (hxU : x' < 2 ^ cU)

include hmp in
theorem testBit_mask' (i : Nat) :
    (mask ^^^ 2 ^ pp).testBit i = (mask.testBit i || decide (i = pp)) := by
  rw [Nat.testBit_xor, Nat.testBit_two_pow]
  by_cases h : i = pp
  · subst h; simp [hmp]
  · have : ¬ pp = i := fun e => h e.symm
    simp [h, this]

include hmp in
theorem mask'_and_mask : (mask ^^^ 2 ^ pp) &&& mask = mask := by
  apply Nat.eq_of_testBit_eq; intro i
  rw [Nat.testBit_and, testBit_mask' mask pp hmp]
  cases mask.testBit i <;> simp

include hmp in
/-- an index below the new mask is its part below the old mask, plus possibly the new bit. -/
theorem idx_decomp (j : Nat) (hj : j &&& (mask ^^^ 2 ^ pp) = j) :
    j = if j.testBit pp then (j &&& mask) ||| 2 ^ pp else j &&& mask := by
  apply Nat.eq_of_testBit_eq; intro i
  have hji := congrArg (·.testBit i) hj
  simp only [Nat.testBit_and, testBit_mask' mask pp hmp] at hji
  split
  · rename_i hb
    rw [Nat.testBit_or, Nat.testBit_and, Nat.testBit_two_pow]
    by_cases h : i = pp
    · subst h; simp [hb]
    · have : ¬ pp = i := fun e => h e.symm
      simp only [h, decide_false, Bool.or_false] at hji
      simp only [this, decide_false, Bool.or_false]
      revert hji; cases j.testBit i <;> cases mask.testBit i <;> simp
  · rename_i hb
    rw [Nat.testBit_and]
    by_cases h : i = pp
    · subst h; simp at hb; simp [hb]
    · simp only [h, decide_false, Bool.or_false] at hji
      exact hji.symm

include hmp in
theorem idx_of_value (w t : Nat) (hw : (w >>> cL) &&& mask = t) :
    (w >>> cL) &&& (mask ^^^ 2 ^ pp) = if w.testBit (cL + pp) then t ||| 2 ^ pp else t := by
  have hsub : ((w >>> cL) &&& (mask ^^^ 2 ^ pp)) &&& (mask ^^^ 2 ^ pp) = (w >>> cL) &&& (mask ^^^ 2 ^ pp) := by
    rw [Nat.and_assoc, Nat.and_self]
  have hm : ((w >>> cL) &&& (mask ^^^ 2 ^ pp)) &&& mask = t := by
    rw [Nat.and_assoc, mask'_and_mask mask pp hmp, hw]
  have hb : ((w >>> cL) &&& (mask ^^^ 2 ^ pp)).testBit pp = w.testBit (cL + pp) := by
    rw [Nat.testBit_and, Nat.testBit_shiftRight, testBit_mask' mask pp hmp]; simp
  have := idx_decomp mask pp hmp _ hsub
  rw [hb, hm] at this
  exact this

include hmp in
theorem sub_mask_no_pp (s : Nat) (hs : s &&& mask = s) : s.testBit pp = false := by
  cases h : s.testBit pp
  · rfl
  · have := testBit_of_sub s mask pp hs h; rw [hmp] at this; cases this

include hmp in
theorem or_bit_and_mask (s : Nat) (hs : s &&& mask = s) : (s ||| 2 ^ pp) &&& mask = s := by
  apply Nat.eq_of_testBit_eq; intro i
  have hsi := congrArg (·.testBit i) hs
  simp only [Nat.testBit_and] at hsi
  rw [Nat.testBit_and, Nat.testBit_or, Nat.testBit_two_pow]
  by_cases h : pp = i
  · subst h; simp [hmp, sub_mask_no_pp mask pp hmp s hs]
  · simp [h, hsi]

include hmp in
theorem or_bit_sub_mask' (s : Nat) (hs : s &&& mask = s) :
    (s ||| 2 ^ pp) &&& (mask ^^^ 2 ^ pp) = s ||| 2 ^ pp := by
  apply Nat.eq_of_testBit_eq; intro i
  have hsi := congrArg (·.testBit i) hs
  simp only [Nat.testBit_and] at hsi
  rw [Nat.testBit_and, Nat.testBit_or, Nat.testBit_two_pow, testBit_mask' mask pp hmp]
  by_cases h : pp = i
  · subst h; simp
  · have : ¬ i = pp := fun e => h e.symm
    simp [h, this, hsi]

include hmp in
theorem sub_mask_sub_mask' (s : Nat) (hs : s &&& mask = s) : s &&& (mask ^^^ 2 ^ pp) = s := by
  apply Nat.eq_of_testBit_eq; intro i
  have hsi := congrArg (·.testBit i) hs
  simp only [Nat.testBit_and] at hsi
  rw [Nat.testBit_and, testBit_mask' mask pp hmp]
  cases hb : s.testBit i
  · simp
  · rw [hb] at hsi; simp at hsi; simp [hsi]

theorem testBit_or_bit (s : Nat) : (s ||| 2 ^ pp).testBit pp = true := by
  rw [Nat.testBit_or, Nat.testBit_two_pow]; simp

theorem two_pow_and_mask_eq_zero (hmp : mask.testBit pp = false) : 2 ^ pp &&& mask = 0 := by
  apply Nat.eq_of_testBit_eq; intro i
  rw [Nat.testBit_and, Nat.testBit_two_pow]
  by_cases h : pp = i
  · subst h; simp [hmp]
  · simp [h]

/-- loop invariant of `rankSubsets` when the subsets `> t` of `mask` have been processed. -/
structure SubInv (tab : Array (Option Nat)) (t : Nat) : Prop where
  size : tab.size = 2 ^ T
  zero : tab[0]? = some (some 0)
  tsub : t &&& mask = t
  todo : ∀ s, s &&& mask = s → s ≤ t → GoodEntry tab cL mask cU Pv s
  done : ∀ s, s &&& mask = s → t < s →
    GoodEntry tab cL (mask ^^^ 2 ^ pp) cU (Pv ++ [x']) s ∧
    GoodEntry tab cL (mask ^^^ 2 ^ pp) cU (Pv ++ [x']) (s ||| 2 ^ pp)
  bit : GoodEntry tab cL (mask ^^^ 2 ^ pp) cU (Pv ++ [x']) (2 ^ pp)

theorem spanSet_append_left (A B : List Nat) : spanSet A ⊆ spanSet (A ++ B) :=
  spanSet_mono A (A ++ B) (fun a ha => mem_spanSet_of_mem _ a (List.mem_append_left _ ha))

include hpp hmT hmp hx0 hxb hxU in
theorem rankSubsets_step (tab : Array (Option Nat)) (t : Nat) (ht0 : t ≠ 0)
    (inv : SubInv cL mask cU T pp x' Pv tab t) :
    ∃ a tab2, tabGet tab t = .ok a ∧
      tabSet tab ((a >>> cL) &&& (mask ^^^ 2 ^ pp)) a = .ok (tab.setIfInBounds ((a >>> cL) &&& (mask ^^^ 2 ^ pp)) (some a)) ∧
      tabSet (tab.setIfInBounds ((a >>> cL) &&& (mask ^^^ 2 ^ pp)) (some a))
        (((a ^^^ x') >>> cL) &&& (mask ^^^ 2 ^ pp)) (a ^^^ x') = .ok tab2 ∧
      SubInv cL mask cU T pp x' Pv tab2 ((t - 1) &&& mask) := by
  obtain ⟨a, ha1, ha2, ha3, ha4⟩ := inv.todo t inv.tsub (Nat.le_refl _)
  have hm'T : mask ^^^ 2 ^ pp < 2 ^ T :=
    Nat.xor_lt_two_pow hmT (Nat.pow_lt_pow_right (by decide) hpp)
  have hb3 : ((a ^^^ x') >>> cL) &&& mask = t := by
    rw [Nat.shiftRight_xor_distrib, Nat.and_xor_distrib_right, ha3, hx0, Nat.xor_zero]
  have hbb : (a ^^^ x').testBit (cL + pp) = !a.testBit (cL + pp) := by
    rw [Nat.testBit_xor, hxb]; cases a.testBit (cL + pp) <;> rfl
  have hb4 : a ^^^ x' < 2 ^ cU := Nat.xor_lt_two_pow ha4 hxU
  have hx'span : x' ∈ spanSet (Pv ++ [x']) := mem_spanSet_of_mem _ _ (by simp)
  have ha2' : a ∈ spanSet (Pv ++ [x']) := spanSet_append_left Pv [x'] ha2
  have hb2 : a ^^^ x' ∈ spanSet (Pv ++ [x']) := xor_mem_spanSet _ _ _ ha2' hx'span
  have hiA := idx_of_value cL mask pp hmp a t ha3
  have hiB := idx_of_value cL mask pp hmp (a ^^^ x') t hb3
  generalize hIA : (a >>> cL) &&& (mask ^^^ 2 ^ pp) = iA at *
  generalize hIB : ((a ^^^ x') >>> cL) &&& (mask ^^^ 2 ^ pp) = iB at *
  -- both indices lie below the new mask and restrict to `t` on the old mask
  have hAsub : iA &&& (mask ^^^ 2 ^ pp) = iA := by rw [← hIA, Nat.and_assoc, Nat.and_self]
  have hBsub : iB &&& (mask ^^^ 2 ^ pp) = iB := by rw [← hIB, Nat.and_assoc, Nat.and_self]
  have hAm : iA &&& mask = t := by
    rw [← hIA, Nat.and_assoc, mask'_and_mask mask pp hmp, ha3]
  have hBm : iB &&& mask = t := by
    rw [← hIB, Nat.and_assoc, mask'_and_mask mask pp hmp, hb3]
  have hAlt : iA < tab.size := by
    rw [inv.size]; exact Nat.lt_of_le_of_lt (le_of_and_eq _ _ hAsub) hm'T
  have hBlt : iB < tab.size := by
    rw [inv.size]; exact Nat.lt_of_le_of_lt (le_of_and_eq _ _ hBsub) hm'T
  have hAB : iA ≠ iB := by
    intro e
    rw [hiA, hiB, hbb] at e
    have htp := sub_mask_no_pp mask pp hmp t inv.tsub
    cases hab : a.testBit (cL + pp) <;> simp [hab] at e
    · have := congrArg (·.testBit pp) e; simp [htp] at this
    · have := congrArg (·.testBit pp) e; simp [htp] at this
  -- entries whose restriction to the old mask differs from `t` are untouched
  have hkeep : ∀ k, k &&& mask ≠ t →
      ((tab.setIfInBounds iA (some a)).setIfInBounds iB (some (a ^^^ x')))[k]? = tab[k]? := by
    intro k hk
    rw [get_set_ne _ _ _ _ (by intro e; subst e; exact hk hBm),
      get_set_ne _ _ _ _ (by intro e; subst e; exact hk hAm)]
  have hgetB : ((tab.setIfInBounds iA (some a)).setIfInBounds iB (some (a ^^^ x')))[iB]? =
      some (some (a ^^^ x')) := get_set_eq _ _ _ (by rw [Array.size_setIfInBounds]; exact hBlt)
  have hgetA : ((tab.setIfInBounds iA (some a)).setIfInBounds iB (some (a ^^^ x')))[iA]? =
      some (some a) := by
    rw [get_set_ne _ _ _ _ (fun e => hAB e.symm), get_set_eq _ _ _ hAlt]
  have hnext_lt : (t - 1) &&& mask < t := Nat.lt_of_le_of_lt Nat.and_le_left (by omega)
  refine ⟨a, (tab.setIfInBounds iA (some a)).setIfInBounds iB (some (a ^^^ x')),
    tabGet_of_some _ _ _ ha1, ?_, ?_, ?_⟩
  · rw [hIA]; exact tabSet_ok _ _ _ hAlt
  · rw [hIA, hIB]; exact tabSet_ok _ _ _ (by rw [Array.size_setIfInBounds]; exact hBlt)
  constructor
  · rw [Array.size_setIfInBounds, Array.size_setIfInBounds]; exact inv.size
  · rw [hkeep 0 (by rw [Nat.zero_and]; exact fun e => ht0 e.symm)]; exact inv.zero
  · rw [Nat.and_assoc, Nat.and_self]
  · intro s hs hle
    obtain ⟨v, h1, h2, h3, h4⟩ := inv.todo s hs (by omega)
    exact ⟨v, by rw [hkeep s (by rw [hs]; omega)]; exact h1, h2, h3, h4⟩
  · intro s hs hlt
    rcases Nat.lt_or_ge t s with h | h
    · obtain ⟨⟨v, h1, h2, h3, h4⟩, ⟨w, g1, g2, g3, g4⟩⟩ := inv.done s hs h
      refine ⟨⟨v, by rw [hkeep s (by rw [hs]; omega)]; exact h1, h2, h3, h4⟩,
        ⟨w, by rw [hkeep _ (by rw [or_bit_and_mask mask pp hmp s hs]; omega)]; exact g1, g2, g3, g4⟩⟩
    · have hst : s = t := by
        rcases Nat.lt_or_ge s t with h' | h'
        · have := subset_enum_next mask t s inv.tsub hs h'; omega
        · omega
      subst hst
      cases hab : a.testBit (cL + pp)
      · rw [hab] at hiA hbb; rw [hbb] at hiB
        simp only [Bool.false_eq_true, if_false] at hiA
        simp only [Bool.not_false, if_true] at hiB
        exact ⟨⟨a, by rw [← hiA]; exact hgetA, ha2', by rw [hIA, hiA], ha4⟩,
          ⟨a ^^^ x', by rw [← hiB]; exact hgetB, hb2, by rw [hIB, hiB], hb4⟩⟩
      · rw [hab] at hiA hbb; rw [hbb] at hiB
        simp only [if_true] at hiA
        simp only [Bool.not_true, Bool.false_eq_true, if_false] at hiB
        exact ⟨⟨a ^^^ x', by rw [← hiB]; exact hgetB, hb2, by rw [hIB, hiB], hb4⟩,
          ⟨a, by rw [← hiA]; exact hgetA, ha2', by rw [hIA, hiA], ha4⟩⟩
  · obtain ⟨v, h1, h2, h3, h4⟩ := inv.bit
    exact ⟨v, by rw [hkeep _ (by rw [two_pow_and_mask_eq_zero mask pp hmp]; exact fun e => ht0 e.symm)]; exact h1,
      h2, h3, h4⟩

include hmp in
theorem subInv_finish (tab : Array (Option Nat)) (inv : SubInv cL mask cU T pp x' Pv tab 0) :
    TabInv tab cL (mask ^^^ 2 ^ pp) cU T (Pv ++ [x']) := by
  refine ⟨inv.size, inv.zero, ?_⟩
  intro j hj
  have hdec := idx_decomp mask pp hmp j hj
  have hsm : (j &&& mask) &&& mask = j &&& mask := by rw [Nat.and_assoc, Nat.and_self]
  by_cases hs0 : j &&& mask = 0
  · rw [hs0] at hdec
    split at hdec
    · rw [Nat.zero_or] at hdec; rw [hdec]; exact inv.bit
    · rw [hdec]
      exact ⟨0, inv.zero, zero_mem_spanSet _, by simp, Nat.two_pow_pos _⟩
  · have := inv.done (j &&& mask) hsm (by omega)
    split at hdec
    · rw [hdec]; exact this.2
    · rw [hdec]; exact this.1

include hpp hmT hmp hx0 hxb hxU in
theorem rankSubsets_spec : ∀ f t (tab : Array (Option Nat)), t ≤ f →
    SubInv cL mask cU T pp x' Pv tab t →
    ∃ tab', rankSubsets cL mask (mask ^^^ 2 ^ pp) x' f t tab = .ok tab' ∧
      TabInv tab' cL (mask ^^^ 2 ^ pp) cU T (Pv ++ [x']) := by
  intro f
  induction f with
  | zero =>
    intro t tab ht inv
    have : t = 0 := by omega
    subst this
    exact ⟨tab, by simp [rankSubsets], subInv_finish cL mask cU T pp x' Pv hmp tab inv⟩
  | succ f ih =>
    intro t tab ht inv
    by_cases ht0 : t = 0
    · subst ht0
      exact ⟨tab, by simp [rankSubsets], subInv_finish cL mask cU T pp x' Pv hmp tab inv⟩
    · obtain ⟨a, tab2, h1, h2, h3, inv'⟩ :=
        rankSubsets_step cL mask cU T pp x' Pv hpp hmT hmp hx0 hxb hxU tab t ht0 inv
      have hlt : (t - 1) &&& mask ≤ f := Nat.le_trans Nat.and_le_left (by omega)
      obtain ⟨tab', r1, r2⟩ := ih _ tab2 hlt inv'
      refine ⟨tab', ?_, r2⟩
      unfold rankSubsets
      rw [if_neg ht0, h1]
      dsimp only [bind, Except.bind]
      rw [h2]
      dsimp only
      rw [h3]
      exact r1

include hpp hmT hmp hx0 hxb hxU in
/-- the table update of one new pivot: `tab[bit] = row_i` followed by the subset loop. -/
theorem table_update (tab : Array (Option Nat)) (inv : TabInv tab cL mask cU T Pv) :
    ∃ tab1 tab2, tabSet tab (2 ^ pp) x' = .ok tab1 ∧
      rankSubsets cL mask (mask ^^^ 2 ^ pp) x' (mask + 1) mask tab1 = .ok tab2 ∧
      TabInv tab2 cL (mask ^^^ 2 ^ pp) cU T (Pv ++ [x']) := by
  have hbit_lt : 2 ^ pp < tab.size := by rw [inv.size]; exact Nat.pow_lt_pow_right (by decide) hpp
  have hbm := two_pow_and_mask_eq_zero mask pp hmp
  have hkeep : ∀ k, k ≠ 2 ^ pp → (tab.setIfInBounds (2 ^ pp) (some x'))[k]? = tab[k]? :=
    fun k hk => get_set_ne _ _ _ _ (fun e => hk e.symm)
  have inv1 : SubInv cL mask cU T pp x' Pv (tab.setIfInBounds (2 ^ pp) (some x')) mask := by
    constructor
    · rw [Array.size_setIfInBounds]; exact inv.size
    · rw [hkeep 0 (by have := Nat.two_pow_pos pp; omega)]; exact inv.zero
    · exact Nat.and_self _
    · intro s hs _
      obtain ⟨v, h1, h2, h3, h4⟩ := inv.good s hs
      refine ⟨v, ?_, h2, h3, h4⟩
      rw [hkeep s (by
        intro e
        have := sub_mask_no_pp mask pp hmp s hs
        rw [e, Nat.testBit_two_pow_self] at this; cases this)]
      exact h1
    · intro s hs hlt
      have := le_of_and_eq s mask hs; omega
    · refine ⟨x', get_set_eq _ _ _ hbit_lt, mem_spanSet_of_mem _ _ (by simp), ?_, hxU⟩
      have := idx_of_value cL mask pp hmp x' 0 hx0
      rw [hxb] at this
      simpa using this
  obtain ⟨tab2, r1, r2⟩ := rankSubsets_spec cL mask cU T pp x' Pv hpp hmT hmp hx0 hxb hxU
    (mask + 1) mask _ (by omega) inv1
  exact ⟨_, tab2, tabSet_ok _ _ _ hbit_lt, r1, r2⟩

end subsets

/-! ### echelon lists of pivots -/

/-- pivot `k` has a one in column `cs[k]`, every later pivot a zero. -/
def Echelon : List Nat → List Nat → Prop
  | [], [] => True
  | p :: ps, c :: cs => p.testBit c = true ∧ (∀ q ∈ ps, q.testBit c = false) ∧ Echelon ps cs
  | _, _ => False

theorem echelon_append : ∀ (ps cs : List Nat) (p c : Nat), Echelon ps cs →
    (∀ c' ∈ cs, p.testBit c' = false) → p.testBit c = true → Echelon (ps ++ [p]) (cs ++ [c]) := by
  intro ps
  induction ps with
  | nil =>
    intro cs p c h hz hc
    cases cs with
    | nil => exact ⟨hc, by simp, trivial⟩
    | cons c' cs => exact absurd h (by simp [Echelon])
  | cons q ps ih =>
    intro cs p c h hz hc
    cases cs with
    | nil => exact absurd h (by simp [Echelon])
    | cons c' cs =>
      obtain ⟨h1, h2, h3⟩ := h
      refine ⟨h1, ?_, ih cs p c h3 (fun c'' hc'' => hz c'' (List.mem_cons_of_mem _ hc'')) hc⟩
      intro r hr
      rcases List.mem_append.1 hr with hr | hr
      · exact h2 r hr
      · simp only [List.mem_singleton] at hr; subst hr; exact hz c' (List.mem_cons_self ..)

theorem card_span_echelon : ∀ (ps cs : List Nat), Echelon ps cs →
    (spanSet ps).card = 2 ^ ps.length := by
  intro ps
  induction ps with
  | nil => intro cs _; simp [spanSet_nil]
  | cons p ps ih =>
    intro cs h
    cases cs with
    | nil => exact absurd h (by simp [Echelon])
    | cons c cs =>
      obtain ⟨h1, h2, h3⟩ := h
      rw [card_spanSet_cons_of_not_mem, ih cs h3, List.length_cons, Nat.pow_succ, Nat.mul_comm]
      intro hmem
      have := spanSet_subset ps (fun v => v.testBit c = false) (by simp)
        (fun x y hx hy => by simp [Nat.testBit_xor, hx, hy]) h2 p hmem
      rw [h1] at this; cases this

theorem spanSet_congr (A B : List Nat) (h : ∀ a, a ∈ A ↔ a ∈ B) : spanSet A = spanSet B :=
  Finset.Subset.antisymm
    (spanSet_mono A B (fun a ha => mem_spanSet_of_mem _ a ((h a).1 ha)))
    (spanSet_mono B A (fun a ha => mem_spanSet_of_mem _ a ((h a).2 ha)))

theorem spanSet_append_zeros (ps zs : List Nat) (hz : ∀ z ∈ zs, z = 0) :
    spanSet (ps ++ zs) = spanSet ps := by
  apply Finset.Subset.antisymm
  · apply spanSet_mono
    intro a ha
    rcases List.mem_append.1 ha with h | h
    · exact mem_spanSet_of_mem _ a h
    · rw [hz a h]; exact zero_mem_spanSet _
  · exact spanSet_append_left ps zs

/-- replacing a row by its sum with a combination of the rows in front of it keeps the span. -/
theorem spanSet_replace (A B : List Nat) (x v : Nat) (hv : v ∈ spanSet A) :
    spanSet (A ++ (x ^^^ v) :: B) = spanSet (A ++ x :: B) := by
  have hvL : v ∈ spanSet (A ++ (x ^^^ v) :: B) := spanSet_append_left A _ hv
  have hvR : v ∈ spanSet (A ++ x :: B) := spanSet_append_left A _ hv
  apply Finset.Subset.antisymm
  · apply spanSet_mono
    intro a ha
    simp only [List.mem_append, List.mem_cons] at ha
    rcases ha with h | rfl | h
    · exact mem_spanSet_of_mem _ a (by simp [h])
    · exact xor_mem_spanSet _ _ _ (mem_spanSet_of_mem _ x (by simp)) hvR
    · exact mem_spanSet_of_mem _ a (by simp [h])
  · apply spanSet_mono
    intro a ha
    simp only [List.mem_append, List.mem_cons] at ha
    rcases ha with h | rfl | h
    · exact mem_spanSet_of_mem _ a (by simp [h])
    · have := xor_mem_spanSet _ _ _
        (mem_spanSet_of_mem (A ++ (a ^^^ v) :: B) (a ^^^ v) (by simp)) hvL
      rwa [Nat.xor_assoc, Nat.xor_self, Nat.xor_zero] at this
    · exact mem_spanSet_of_mem _ a (by simp [h])

/-! ### list views of the array operations -/

theorem getElem?_mid (A B : List Nat) (x : Nat) : (A ++ x :: B)[A.length]? = some x := by
  rw [List.getElem?_append_right (Nat.le_refl _)]; simp

theorem set_mid (A B : List Nat) (x y : Nat) : (A ++ x :: B).set A.length y = A ++ y :: B := by
  rw [List.set_append, if_neg (by omega)]; simp

theorem shiftRight_lt (x a b : Nat) (h : x < 2 ^ b) (hab : a ≤ b) : x >>> a < 2 ^ (b - a) := by
  rw [Nat.shiftRight_eq_div_pow, Nat.div_lt_iff_lt_mul (Nat.two_pow_pos a), ← Nat.pow_add,
    show b - a + a = b by omega]
  exact h

theorem lt_of_shiftRight_eq_zero (x a : Nat) (h : x >>> a = 0) : x < 2 ^ a := by
  rw [Nat.shiftRight_eq_div_pow] at h
  exact (Nat.div_eq_zero_iff_lt (Nat.two_pow_pos a)).1 h

/-! ### one row of one elimination round -/

/-- invariant of `for i in range(rank, rows)` in the round eliminating columns `cL … cU-1`:
`m = Pv ++ Z ++ R` with the pivots `Pv` (echelon, columns `cs`), the rows `Z` already reduced to
below `2^cL`, the rows `R` still to visit (below `2^cU`). -/
structure RowInv (S0 : Finset Nat) (cL cU : Nat) (st : RankSt) (i : Nat)
    (Pv Z R cs : List Nat) : Prop where
  list : st.m.toList = Pv ++ Z ++ R
  rank : Pv.length = st.rank
  idx : Pv.length + Z.length = i
  zlt : ∀ z ∈ Z, z < 2 ^ cL
  rlt : ∀ r ∈ R, r < 2 ^ cU
  ech : Echelon Pv cs
  cols : ∀ c ∈ cs, cU ≤ c ∨ (cL ≤ c ∧ st.mask.testBit (c - cL) = true)
  tab : TabInv st.tab cL st.mask cU (cU - cL) Pv
  mlt : st.mask < 2 ^ (cU - cL)
  span : spanSet st.m.toList = S0

theorem rankRow_spec (S0 : Finset Nat) (cL cU : Nat) (hLU : cL ≤ cU) (st : RankSt) (i : Nat)
    (Pv Z R' cs : List Nat) (x : Nat) (inv : RowInv S0 cL cU st i Pv Z (x :: R') cs) :
    ∃ st' Pv' Z' cs', rankRow cL i st = .ok st' ∧ RowInv S0 cL cU st' (i + 1) Pv' Z' R' cs' := by
  have hmi : st.m[i]? = some x := by
    rw [← Array.getElem?_toList, inv.list, ← inv.idx, ← List.length_append, getElem?_mid]
  -- the table entry used to reduce the row
  have hjsub : ((x >>> cL) &&& st.mask) &&& st.mask = (x >>> cL) &&& st.mask := by
    rw [Nat.and_assoc, Nat.and_self]
  obtain ⟨v, hv1, hv2, hv3, hv4⟩ := inv.tab.good _ hjsub
  have hxU : x < 2 ^ cU := inv.rlt x (List.mem_cons_self ..)
  have hx'U : x ^^^ v < 2 ^ cU := Nat.xor_lt_two_pow hxU hv4
  have hx0 : ((x ^^^ v) >>> cL) &&& st.mask = 0 := by
    rw [Nat.shiftRight_xor_distrib, Nat.and_xor_distrib_right, hv3, Nat.xor_self]
  -- the array after `m[i] = row_i`
  have hlist1 : (st.m.setIfInBounds i (x ^^^ v)).toList = Pv ++ Z ++ (x ^^^ v) :: R' := by
    rw [Array.toList_setIfInBounds, inv.list, ← inv.idx, ← List.length_append, set_mid]
  have hspan1 : spanSet (st.m.setIfInBounds i (x ^^^ v)).toList = S0 := by
    rw [hlist1, spanSet_replace _ _ _ _ (spanSet_append_left Pv Z hv2), ← inv.list, inv.span]
  unfold rankRow
  rw [hmi]
  dsimp only
  rw [tabGet_of_some _ _ _ hv1]
  dsimp only [bind, Except.bind]
  split
  · -- a new pivot
    rename_i hne
    have hmsb : (x ^^^ v) >>> cL ≠ 0 := hne
    have hbit := msb_eq _ hmsb
    have hTlt : (x ^^^ v) >>> cL < 2 ^ (cU - cL) := shiftRight_lt _ _ _ hx'U hLU
    have hpp : ((x ^^^ v) >>> cL).log2 < cU - cL := (Nat.log2_lt hmsb).2 hTlt
    have hxb : (x ^^^ v).testBit (cL + ((x ^^^ v) >>> cL).log2) = true := by
      rw [← Nat.testBit_shiftRight]; exact Nat.testBit_log2 hmsb
    have hmp : st.mask.testBit ((x ^^^ v) >>> cL).log2 = false := by
      have := congrArg (·.testBit ((x ^^^ v) >>> cL).log2) hx0
      simp only [Nat.testBit_and, Nat.testBit_log2 hmsb, Bool.true_and, Nat.zero_testBit] at this
      exact this
    obtain ⟨tab1, tab2, ht1, ht2, ht3⟩ := table_update cL st.mask cU (cU - cL)
      ((x ^^^ v) >>> cL).log2 (x ^^^ v) Pv hpp inv.mlt hmp hx0 hxb hx'U st.tab inv.tab
    -- the new pivot has zeros in all earlier pivot columns
    have hzero : ∀ c' ∈ cs, (x ^^^ v).testBit c' = false := by
      intro c' hc'
      rcases inv.cols c' hc' with h | ⟨h1, h2⟩
      · exact Nat.testBit_lt_two_pow (Nat.lt_of_lt_of_le hx'U (Nat.pow_le_pow_right (by decide) h))
      · have := congrArg (·.testBit (c' - cL)) hx0
        simp only [Nat.testBit_and, h2, Bool.and_true, Nat.zero_testBit, Nat.testBit_shiftRight] at this
        rwa [show cL + (c' - cL) = c' by omega] at this
    have hech := echelon_append Pv cs (x ^^^ v) (cL + ((x ^^^ v) >>> cL).log2) inv.ech hzero hxb
    have hcols : ∀ c ∈ cs ++ [cL + ((x ^^^ v) >>> cL).log2], cU ≤ c ∨
        (cL ≤ c ∧ (st.mask ^^^ 2 ^ ((x ^^^ v) >>> cL).log2).testBit (c - cL) = true) := by
      intro c hc
      rcases List.mem_append.1 hc with h | h
      · rcases inv.cols c h with h' | ⟨h1, h2⟩
        · exact Or.inl h'
        · exact Or.inr ⟨h1, by rw [testBit_mask' _ _ hmp, h2]; rfl⟩
      · simp only [List.mem_singleton] at h; subst h
        exact Or.inr ⟨by omega, by rw [testBit_mask' _ _ hmp]; simp⟩
    have hm'lt : st.mask ^^^ 2 ^ ((x ^^^ v) >>> cL).log2 < 2 ^ (cU - cL) :=
      Nat.xor_lt_two_pow inv.mlt (Nat.pow_lt_pow_right (by decide) hpp)
    unfold rankPivot
    dsimp only
    cases Z with
    | nil =>
      have hi : i = st.rank := by rw [← inv.idx, ← inv.rank]; simp
      have hmr : (st.m.setIfInBounds i (x ^^^ v))[st.rank]? = some (x ^^^ v) := by
        rw [← Array.getElem?_toList, hlist1, ← inv.rank]
        simp
      rw [hmr]
      dsimp only
      rw [hbit, ht1]
      dsimp only [bind, Except.bind]
      rw [ht2]
      dsimp only [pure, Except.pure]
      rw [if_neg (by omega)]
      refine ⟨_, Pv ++ [x ^^^ v], [], cs ++ [cL + ((x ^^^ v) >>> cL).log2], rfl, ?_⟩
      constructor
      · simp only [hlist1]; simp
      · simp [inv.rank]
      · simp [← inv.idx]
      · intro z hz; cases hz
      · exact fun r hr => inv.rlt r (List.mem_cons_of_mem _ hr)
      · exact hech
      · exact hcols
      · exact ht3
      · exact hm'lt
      · exact hspan1
    | cons z0 Z'' =>
      have hi : i ≠ st.rank := by rw [← inv.idx, ← inv.rank]; simp
      have hmr : (st.m.setIfInBounds i (x ^^^ v))[st.rank]? = some z0 := by
        rw [← Array.getElem?_toList, hlist1, ← inv.rank, List.append_assoc, List.cons_append]
        exact getElem?_mid Pv _ z0
      rw [hmr]
      dsimp only
      rw [hbit, ht1]
      dsimp only [bind, Except.bind]
      rw [ht2]
      dsimp only [pure, Except.pure]
      rw [if_pos hi]
      have hlist2 : (((st.m.setIfInBounds i (x ^^^ v)).setIfInBounds i z0).setIfInBounds st.rank
          (x ^^^ v)).toList = (Pv ++ [x ^^^ v]) ++ (Z'' ++ [z0]) ++ R' := by
        rw [Array.toList_setIfInBounds, Array.toList_setIfInBounds, hlist1]
        have e1 : (Pv ++ z0 :: Z'' ++ (x ^^^ v) :: R').set i z0 = Pv ++ z0 :: Z'' ++ z0 :: R' := by
          rw [← inv.idx, ← List.length_append]; exact set_mid _ _ _ _
        rw [e1, ← inv.rank, List.append_assoc, List.cons_append, set_mid]
        simp
      refine ⟨_, Pv ++ [x ^^^ v], Z'' ++ [z0], cs ++ [cL + ((x ^^^ v) >>> cL).log2], rfl, ?_⟩
      constructor
      · exact hlist2
      · simp [inv.rank]
      · simp [← inv.idx]; omega
      · intro z hz
        apply inv.zlt
        simp only [List.mem_append, List.mem_cons, List.not_mem_nil, or_false] at hz ⊢
        rcases hz with h | h
        · exact Or.inr h
        · exact Or.inl h
      · exact fun r hr => inv.rlt r (List.mem_cons_of_mem _ hr)
      · exact hech
      · exact hcols
      · exact ht3
      · exact hm'lt
      · rw [hlist2, ← hspan1, hlist1]
        apply spanSet_congr
        intro a
        simp only [List.mem_append, List.mem_cons, List.not_mem_nil, or_false]
        constructor <;> intro h <;> rcases h with h | h <;> simp_all <;> tauto
  · -- no pivot: the row is reduced to below `2^cL`
    rename_i hz
    have hz' : (x ^^^ v) >>> cL = 0 := by simpa using hz
    refine ⟨_, Pv, Z ++ [x ^^^ v], cs, rfl, ?_⟩
    constructor
    · simp only [hlist1]; simp
    · exact inv.rank
    · simp [← inv.idx]; omega
    · intro z hz
      rcases List.mem_append.1 hz with h | h
      · exact inv.zlt z h
      · simp only [List.mem_singleton] at h; subst h; exact lt_of_shiftRight_eq_zero _ _ hz'
    · exact fun r hr => inv.rlt r (List.mem_cons_of_mem _ hr)
    · exact inv.ech
    · exact inv.cols
    · exact inv.tab
    · exact inv.mlt
    · exact hspan1

/-! ### the loops -/

theorem rankRows_spec (S0 : Finset Nat) (cL cU : Nat) (hLU : cL ≤ cU) : ∀ (R : List Nat)
    (st : RankSt) (i : Nat) (Pv Z cs : List Nat), RowInv S0 cL cU st i Pv Z R cs →
    ∃ st' Pv' Z' cs', rankRows cL R.length i st = .ok st' ∧
      RowInv S0 cL cU st' (i + R.length) Pv' Z' [] cs' := by
  intro R
  induction R with
  | nil => intro st i Pv Z cs inv; exact ⟨st, Pv, Z, cs, rfl, inv⟩
  | cons x R' ih =>
    intro st i Pv Z cs inv
    obtain ⟨st1, Pv1, Z1, cs1, h1, inv1⟩ := rankRow_spec S0 cL cU hLU st i Pv Z R' cs x inv
    obtain ⟨st2, Pv2, Z2, cs2, h2, inv2⟩ := ih st1 (i + 1) Pv1 Z1 cs1 inv1
    refine ⟨st2, Pv2, Z2, cs2, ?_, ?_⟩
    · rw [List.length_cons]
      unfold rankRows
      rw [h1]
      dsimp only [bind, Except.bind]
      exact h2
    · rw [List.length_cons, show i + (R'.length + 1) = i + 1 + R'.length by omega]; exact inv2

/-- invariant of `while c_upper > 0`. -/
structure RoundInv (S0 : Finset Nat) (rows cU : Nat) (m : Array Nat) (rank : Nat)
    (Pv Z cs : List Nat) : Prop where
  list : m.toList = Pv ++ Z
  rank : Pv.length = rank
  size : m.size = rows
  zlt : ∀ z ∈ Z, z < 2 ^ cU
  ech : Echelon Pv cs
  cols : ∀ c ∈ cs, cU ≤ c
  span : spanSet m.toList = S0

theorem rankRounds_spec (S0 : Finset Nat) (rows step : Nat) (hstep : 1 ≤ step) :
    ∀ (f cU : Nat) (m : Array Nat) (rank : Nat) (Pv Z cs : List Nat), cU ≤ f →
    RoundInv S0 rows cU m rank Pv Z cs →
    ∃ r, rankRounds rows step f cU m rank = .ok r ∧ 2 ^ r = S0.card := by
  intro f
  induction f with
  | zero =>
    intro cU m rank Pv Z cs hf inv
    have : cU = 0 := by omega
    subst this
    refine ⟨rank, by simp [rankRounds], ?_⟩
    rw [← inv.span, inv.list, spanSet_append_zeros Pv Z (fun z hz => by have := inv.zlt z hz; omega),
      card_span_echelon Pv cs inv.ech, inv.rank]
  | succ f ih =>
    intro cU m rank Pv Z cs hf inv
    by_cases h0 : cU = 0
    · subst h0
      refine ⟨rank, by simp [rankRounds], ?_⟩
      rw [← inv.span, inv.list, spanSet_append_zeros Pv Z (fun z hz => by have := inv.zlt z hz; omega),
        card_span_echelon Pv cs inv.ech, inv.rank]
    · have hts : 1 ≤ min cU step ∧ min cU step ≤ cU := by omega
      have hT : cU - (cU - min cU step) = min cU step := by omega
      -- the state at the start of the round
      have hsz : 0 < (Array.replicate (2 ^ min cU step) (none : Option Nat)).size := by
        rw [Array.size_replicate]; exact Nat.two_pow_pos _
      have inv0 : RowInv S0 (cU - min cU step) cU
          { m := m, rank := rank, mask := 0,
            tab := (Array.replicate (2 ^ min cU step) none).setIfInBounds 0 (some 0) }
          rank Pv [] Z cs := by
        constructor
        · simpa using inv.list
        · exact inv.rank
        · simp [inv.rank]
        · intro z hz; cases hz
        · exact inv.zlt
        · exact inv.ech
        · exact fun c hc => Or.inl (inv.cols c hc)
        · rw [hT]
          refine ⟨by rw [Array.size_setIfInBounds, Array.size_replicate], get_set_eq _ _ _ hsz, ?_⟩
          intro j hj
          have : j = 0 := by rw [← hj]; exact Nat.and_zero _
          subst this
          exact ⟨0, get_set_eq _ _ _ hsz, zero_mem_spanSet _, by simp, Nat.two_pow_pos _⟩
        · exact Nat.two_pow_pos _
        · exact inv.span
      have hZlen : rows - rank = Z.length := by
        have := congrArg List.length inv.list
        rw [Array.length_toList, inv.size, List.length_append, inv.rank] at this
        omega
      obtain ⟨st', Pv', Z', cs', h1, inv1⟩ := rankRows_spec S0 (cU - min cU step) cU (by omega) Z _
        rank Pv [] cs inv0
      have inv2 : RoundInv S0 rows (cU - min cU step) st'.m st'.rank Pv' Z' cs' := by
        have hl := inv1.list
        rw [List.append_nil] at hl
        constructor
        · exact hl
        · exact inv1.rank
        · have := congrArg List.length hl
          rw [Array.length_toList, List.length_append, inv1.idx, ← hZlen] at this
          have hr : rank ≤ rows := by
            have := congrArg List.length inv.list
            rw [Array.length_toList, inv.size, List.length_append, inv.rank] at this
            omega
          omega
        · exact inv1.zlt
        · exact inv1.ech
        · intro c hc
          rcases inv1.cols c hc with h | ⟨h, _⟩ <;> omega
        · exact inv1.span
      obtain ⟨r, h2, h3⟩ := ih (cU - min cU step) st'.m st'.rank Pv' Z' cs' (by omega) inv2
      refine ⟨r, ?_, h3⟩
      unfold rankRounds
      rw [if_neg h0, hZlen, h1]
      dsimp only [bind, Except.bind]
      exact h2

theorem one_le_rankStep (rows : Nat) : 1 ≤ rankStep rows := by
  unfold rankStep
  have hb : ∀ k, 2 ^ k ≤ rows → k + 1 ≤ bitLength rows := by
    intro k hk
    rcases Nat.lt_or_ge (bitLength rows) (k + 1) with h | h
    · have := (lt_two_pow_iff_bitLength_le rows k).2 (by omega); omega
    · exact h
  split
  · omega
  · split
    · have := hb 5 (by omega); omega
    · split
      · have := hb 8 (by omega); omega
      · have := hb 13 (by omega); omega

theorem le_maxBitLength (l : List Nat) : ∀ r ∈ l, bitLength r ≤ maxBitLength l := by
  unfold maxBitLength
  have gen : ∀ (l : List Nat) (acc : Nat), acc ≤ l.foldl (fun acc r => max acc (bitLength r)) acc ∧
      ∀ r ∈ l, bitLength r ≤ l.foldl (fun acc r => max acc (bitLength r)) acc := by
    intro l
    induction l with
    | nil => intro acc; exact ⟨Nat.le_refl _, fun r hr => by cases hr⟩
    | cons x l ih =>
      intro acc
      obtain ⟨h1, h2⟩ := ih (max acc (bitLength x))
      refine ⟨by rw [List.foldl_cons]; omega, fun r hr => ?_⟩
      rw [List.foldl_cons]
      rcases List.mem_cons.1 hr with rfl | h
      · omega
      · exact h2 r h
  exact (gen l 0).2

/-- **`_BinaryMatrixRankLarge` never raises and `2^rank` is the size of the row span.** -/
theorem rankLarge_spec (rows : List Nat) : ∃ r, rankLarge rows = .ok r ∧ 2 ^ r = spanSize rows := by
  unfold rankLarge
  cases rows with
  | nil => exact ⟨0, rfl, by decide⟩
  | cons x rest =>
    rw [if_neg (by simp)]
    rw [spanSize_eq_card]
    apply rankRounds_spec (spanSet (x :: rest)) (x :: rest).length _ (one_le_rankStep _)
      _ _ _ 0 [] (x :: rest) [] (Nat.le_refl _)
    constructor
    · simp
    · rfl
    · simp
    · intro z hz
      exact (lt_two_pow_iff_bitLength_le z _).2 (le_maxBitLength _ z hz)
    · trivial
    · intro c hc; cases hc
    · simp

/-- both rank algorithms agree on every matrix. -/
theorem rankLarge_eq_rankSmall_all (rows : List Nat) : rankLarge rows = .ok (rankSmall rows) := by
  obtain ⟨r, h1, h2⟩ := rankLarge_spec rows
  rw [h1]
  have : 2 ^ r = 2 ^ rankSmall rows := by rw [h2, rankSmall_spec]
  rw [Nat.pow_right_injective (Nat.le_refl 2) this]

end Paranoid.BitSeq
