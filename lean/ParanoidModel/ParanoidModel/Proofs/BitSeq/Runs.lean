/-
Proofs/BitSeq/Runs.lean — `runs` = number of maximal constant blocks.
-/
import ParanoidModel.Proofs.BitSeq.Popcount
namespace Paranoid.BitSeq
open Paranoid Paranoid.BitDefs

/-! ### Runs -/

/-- number of positions `i < n` with `bit i ≠ bit (i+1)`. -/
def trans (s : Nat) : Nat → Nat
  | 0 => 0
  | n + 1 => trans s n + (s.testBit n != s.testBit (n + 1)).toNat

theorem trans_succ_shift (s n : Nat) :
    trans s (n + 1) = (s.testBit 0 != s.testBit 1).toNat + trans (s / 2) n := by
  induction n with
  | zero => simp [trans]
  | succ n ih =>
    have e1 : s.testBit (n + 1) = (s / 2).testBit n := Nat.testBit_succ ..
    have e2 : s.testBit (n + 1 + 1) = (s / 2).testBit (n + 1) := Nat.testBit_succ ..
    rw [trans, ih, trans, e1, e2]; omega

theorem bitsOf_succ_shift (s n : Nat) : bitsOf s (n + 1) = s.testBit 0 :: bitsOf (s / 2) n := by
  unfold bitsOf
  rw [List.range_succ_eq_map, List.map_cons, List.map_map]
  congr 1
  apply List.map_congr_left
  intro i _
  simp [Nat.testBit_succ]

theorem blockCount_bitsOf (n : Nat) : ∀ s, blockCount (bitsOf s (n + 1)) = 1 + trans s n := by
  induction n with
  | zero => intro s; simp [bitsOf, blockCount, trans]
  | succ n ih =>
    intro s
    rw [bitsOf_succ_shift, bitsOf_succ_shift, blockCount, ← bitsOf_succ_shift, ih,
      trans_succ_shift, ← Nat.testBit_succ]
    cases s.testBit 0 <;> cases s.testBit (0 + 1) <;> simp

theorem pc_xor_shift (s : Nat) : ∀ n, pc (s ^^^ (s >>> 1)) n = trans s n := by
  intro n
  induction n with
  | zero => rfl
  | succ n ih =>
    rw [pc, trans, ih, Nat.testBit_xor, Nat.testBit_shiftRight, Nat.add_comm 1 n]

theorem runs_eq (s n : Nat) (h : s < 2 ^ n) : runs s n = runsDef s n := by
  unfold runs runsDef
  cases n with
  | zero =>
    have : s = 0 := by simpa using h
    subst this
    simp [bitsOf, blockCount, bitCount, bitCountAux, bitLength]
  | succ n =>
    have hx : s ^^^ (s >>> 1) < 2 ^ (n + 1) := by
      apply Nat.xor_lt_two_pow h
      rw [Nat.shiftRight_eq_div_pow]
      exact Nat.lt_of_le_of_lt (Nat.div_le_self _ _) h
    rw [bitCount_eq_pc _ _ hx, blockCount_bitsOf, pc, pc_xor_shift]
    have htop : s.testBit (n + 1) = false := Nat.testBit_lt_two_pow h
    have hsh : (s >>> n = 0) ↔ s.testBit n = false := by
      have h2 : s >>> n < 2 := by
        rw [Nat.shiftRight_eq_div_pow, Nat.div_lt_iff_lt_mul (Nat.two_pow_pos n)]
        rw [Nat.pow_succ] at h; omega
      have hq : s.testBit n = decide ((s >>> n) % 2 = 1) := by
        rw [Nat.testBit_eq_decide_div_mod_eq, Nat.shiftRight_eq_div_pow]
      rw [hq]
      generalize s >>> n = q at h2
      constructor
      · intro h0; simp [h0]
      · intro h0; simp at h0; omega
    simp only [Nat.testBit_xor, Nat.testBit_shiftRight, Nat.add_comm 1 n, htop, Nat.add_sub_cancel,
      ne_eq, Nat.succ_ne_zero, not_false_eq_true, true_and]
    cases hb : s.testBit n
    · simp [hsh.2 hb]; omega
    · have : ¬ s >>> n = 0 := fun h0 => by rw [hsh.1 h0] at hb; cases hb
      simp [this]; omega

theorem splitBy_loop_length : ∀ (as : List Bool) (b : Bool) (g : List Bool) (gs : List (List Bool)),
    (List.splitBy.loop (· == ·) as b g gs).length = gs.length + blockCount (b :: as) := by
  intro as
  induction as with
  | nil => intro b g gs; simp [List.splitBy.loop, blockCount]
  | cons a as ih =>
    intro b g gs
    unfold List.splitBy.loop
    cases hba : (b == a)
    · simp only [ih, blockCount, List.length_cons]
      have : b ≠ a := by intro e; subst e; simp at hba
      rw [if_neg this]; omega
    · simp only [ih, blockCount]
      have : b = a := by simpa using hba
      rw [if_pos this]; omega

/-- `blockCount` is the number of groups of equal adjacent elements. -/
theorem blockCount_eq_splitBy (l : List Bool) : blockCount l = (l.splitBy (· == ·)).length := by
  cases l with
  | nil => rfl
  | cons a as => rw [List.splitBy, splitBy_loop_length]; simp

end Paranoid.BitSeq
