/-
Proofs/BitSeq/RunsOfOnes.lean — `longestRunOfOnes` and `overlappingRunsOfOnes` through
`andShift s k = s & s>>1 & … & s>>k`.
-/
import ParanoidModel.Proofs.BitSeq.Popcount
namespace Paranoid.BitSeq
open Paranoid Paranoid.BitDefs

/-! ### `f_k s = s & s>>1 & … & s>>(k-1)`, indexed by `k-1` -/

/-- `andShift s k = s &&& s>>>1 &&& … &&& s>>>k` (`f_{k+1}` of the design). -/
def andShift (s : Nat) : Nat → Nat
  | 0 => s
  | k + 1 => andShift s k &&& (s >>> (k + 1))

theorem testBit_andShift (s k i : Nat) :
    (andShift s k).testBit i = true ↔ ∀ j, j ≤ k → s.testBit (i + j) = true := by
  induction k with
  | zero =>
    simp only [andShift]
    constructor
    · intro h j hj; have : j = 0 := by omega
      subst this; simpa using h
    · intro h; simpa using h 0 (Nat.le_refl _)
  | succ k ih =>
    simp only [andShift, Nat.testBit_and, Nat.testBit_shiftRight, Bool.and_eq_true, ih]
    constructor
    · rintro ⟨h1, h2⟩ j hj
      rcases Nat.lt_or_ge j (k + 1) with hlt | hge
      · exact h1 j (by omega)
      · have : j = k + 1 := by omega
        subst this; rw [Nat.add_comm i]; exact h2
    · intro h
      exact ⟨fun j hj => h j (by omega), by rw [Nat.add_comm]; exact h (k + 1) (Nat.le_refl _)⟩

/-- `f_j s & (f_j s >> t) = f_(j+t) s` for `t ≤ j` (here `j = a + 1`). -/
theorem andShift_and_shift (s a t : Nat) (ht : t ≤ a + 1) :
    andShift s a &&& (andShift s a >>> t) = andShift s (a + t) := by
  apply Nat.eq_of_testBit_eq
  intro i
  rw [Bool.eq_iff_iff]
  simp only [Nat.testBit_and, Nat.testBit_shiftRight, Bool.and_eq_true, testBit_andShift]
  constructor
  · rintro ⟨h1, h2⟩ j hj
    rcases Nat.lt_or_ge j t with hlt | hge
    · exact h1 j (by omega)
    · have := h2 (j - t) (by omega)
      rwa [show t + i + (j - t) = i + j by omega] at this
  · intro h
    refine ⟨fun j hj => h j (by omega), fun j hj => ?_⟩
    have := h (t + j) (by omega)
    rwa [show i + (t + j) = t + i + j by omega] at this

theorem andShift_ne_zero_iff (s k : Nat) : andShift s k ≠ 0 ↔ HasRun s (k + 1) := by
  constructor
  · intro h
    obtain ⟨i, hi⟩ := Nat.exists_testBit_of_ne_zero h
    exact ⟨i, fun j hj => (testBit_andShift s k i).1 hi j (by omega)⟩
  · rintro ⟨i, hi⟩ h0
    have : (andShift s k).testBit i = true := (testBit_andShift s k i).2 (fun j hj => hi j (by omega))
    rw [h0] at this; simp at this

theorem andShift_le (s k : Nat) : andShift s k ≤ s := by
  induction k with
  | zero => exact Nat.le_refl _
  | succ k ih => exact Nat.le_trans Nat.and_le_left ih

theorem hasRun_mono {s k k' : Nat} (h : HasRun s k) (hle : k' ≤ k) : HasRun s k' := by
  obtain ⟨i, hi⟩ := h
  exact ⟨i, fun j hj => hi j (by omega)⟩

theorem hasRun_zero (s : Nat) : HasRun s 0 := ⟨0, fun j hj => by omega⟩

/-- a run of `k` ones fits below the bit length. -/
theorem hasRun_le_of_lt (s k n : Nat) (h : s < 2 ^ n) (hr : HasRun s k) : k ≤ n := by
  obtain ⟨i, hi⟩ := hr
  rcases Nat.lt_or_ge n k with hlt | hge
  · have h1 := hi n hlt
    have h2 : s.testBit (i + n) = false :=
      Nat.testBit_lt_two_pow (Nat.lt_of_lt_of_le h (Nat.pow_le_pow_right (by decide) (by omega)))
    rw [h1] at h2; cases h2
  · exact hge

theorem isLongestRun_of (s k : Nat) (h1 : HasRun s k) (h2 : ¬ HasRun s (k + 1)) :
    IsLongestRun s k :=
  ⟨h1, fun k' hk' => by
    rcases Nat.lt_or_ge k k' with hlt | hge
    · exact absurd (hasRun_mono hk' hlt) h2
    · exact hge⟩

theorem isLongestRun_unique (s k k' : Nat) (h : IsLongestRun s k) (h' : IsLongestRun s k') :
    k = k' := Nat.le_antisymm (h'.2 k h.1) (h.2 k' h'.1)

/-! ### LongestRunOfOnes -/

theorem lrDouble_spec (seq B : Nat) (hB : seq < 2 ^ B) : ∀ f s lr,
    1 ≤ lr → B ≤ lr + f → s = andShift seq (lr - 1) → s ≠ 0 → (∃ e, lr = 2 ^ e) →
    (lrDouble f s lr).1 = andShift seq ((lrDouble f s lr).2 - 1) ∧ (lrDouble f s lr).1 ≠ 0 ∧
      andShift seq (2 * (lrDouble f s lr).2 - 1) = 0 ∧ (∃ e, (lrDouble f s lr).2 = 2 ^ e) := by
  intro f
  induction f with
  | zero =>
    intro s lr h1 hf hs hne hp
    simp only [lrDouble]
    refine ⟨hs, hne, ?_, hp⟩
    have hz : s >>> lr = 0 := by
      rw [Nat.shiftRight_eq_div_pow]
      apply Nat.div_eq_of_lt
      have : s ≤ seq := hs ▸ andShift_le seq _
      exact Nat.lt_of_le_of_lt this (Nat.lt_of_lt_of_le hB (Nat.pow_le_pow_right (by decide) (by omega)))
    have := andShift_and_shift seq (lr - 1) lr (by omega)
    rw [← hs, hz, Nat.and_zero] at this
    rw [show 2 * lr - 1 = lr - 1 + lr by omega]; exact this.symm
  | succ f ih =>
    intro s lr h1 hf hs hne hp
    have key := andShift_and_shift seq (lr - 1) lr (by omega)
    rw [← hs] at key
    unfold lrDouble
    split
    · rename_i h0
      refine ⟨hs, hne, ?_, hp⟩
      rw [show 2 * lr - 1 = lr - 1 + lr by omega, ← key]; exact h0
    · rename_i h0
      obtain ⟨e, he⟩ := hp
      exact ih _ _ (by omega) (by omega)
        (by rw [key, show lr * 2 - 1 = lr - 1 + lr by omega]) h0 ⟨e + 1, by rw [he, Nat.pow_succ]⟩

theorem lrRefine_spec (seq : Nat) : ∀ f s lr n,
    1 ≤ lr → s = andShift seq (lr - 1) → s ≠ 0 → n ≤ lr → n < 2 ^ f → (n = 0 ∨ ∃ e, n = 2 ^ e) →
    andShift seq (lr + (if n = 0 then 1 else 2 * n) - 1) = 0 →
    andShift seq (lrRefine f s lr n - 1) ≠ 0 ∧ andShift seq (lrRefine f s lr n) = 0 ∧
      1 ≤ lrRefine f s lr n := by
  intro f
  induction f with
  | zero =>
    intro s lr n h1 hs hne hn hf hp hz
    have : n = 0 := by simpa using hf
    subst this
    simp only [lrRefine]
    exact ⟨hs ▸ hne, by simpa using hz, h1⟩
  | succ f ih =>
    intro s lr n h1 hs hne hn hf hp hz
    unfold lrRefine
    split
    · rename_i h0
      subst h0
      exact ⟨hs ▸ hne, by simpa using hz, h1⟩
    · rename_i h0
      rcases hp with hp | ⟨e, he⟩
      · exact absurd hp h0
      have key := andShift_and_shift seq (lr - 1) n (by omega)
      rw [← hs] at key
      -- facts about n / 2 for a power of two
      have hhalf : (if n / 2 = 0 then 1 else 2 * (n / 2)) = n := by
        cases e with
        | zero => subst he; rfl
        | succ e =>
          have : n / 2 = 2 ^ e := by rw [he, Nat.pow_succ]; omega
          have hpos : 0 < 2 ^ e := Nat.two_pow_pos e
          rw [this, if_neg (by omega), he, Nat.pow_succ]; omega
      have hp' : n / 2 = 0 ∨ ∃ e', n / 2 = 2 ^ e' := by
        cases e with
        | zero => left; subst he; rfl
        | succ e => right; exact ⟨e, by rw [he, Nat.pow_succ]; omega⟩
      have hf' : n / 2 < 2 ^ f := by rw [Nat.pow_succ] at hf; omega
      simp only [if_neg h0] at hz
      split
      · rename_i hnz
        apply ih _ _ _ (by omega) (by rw [key, show lr + n - 1 = lr - 1 + n by omega]) hnz
          (by omega) hf' hp'
        rw [hhalf, show lr + n + n - 1 = lr + 2 * n - 1 by omega]; exact hz
      · rename_i hnz
        have hnz' : s &&& (s >>> n) = 0 := by simpa using hnz
        apply ih _ _ _ h1 hs hne (by omega) hf' hp'
        rw [hhalf, show lr + n - 1 = lr - 1 + n by omega, ← key]; exact hnz'

theorem longestRunOfOnes_spec (seq : Nat) : IsLongestRun seq (longestRunOfOnes seq) := by
  unfold longestRunOfOnes
  split
  · rename_i h0
    subst h0
    apply isLongestRun_of _ _ (hasRun_zero 0)
    rintro ⟨i, hi⟩
    have := hi 0 (by omega)
    simp at this
  · rename_i h0
    have hB := lt_two_pow_bitLength seq
    obtain ⟨d1, d2, d3, e, d4⟩ := lrDouble_spec seq (bitLength seq) hB (bitLength seq + 1) seq 1
      (Nat.le_refl _) (by omega) rfl h0 ⟨0, rfl⟩
    generalize lrDouble (bitLength seq + 1) seq 1 = r at *
    obtain ⟨s, lr⟩ := r
    simp only at d1 d2 d3 d4 ⊢
    have hlr1 : 1 ≤ lr := by rw [d4]; exact Nat.two_pow_pos e
    -- lr ≤ bit length, so the fuel of the refinement loop suffices
    have hlrB : lr ≤ bitLength seq := by
      have hr : HasRun seq (lr - 1 + 1) := (andShift_ne_zero_iff seq (lr - 1)).1 (d1 ▸ d2)
      have := hasRun_le_of_lt seq _ _ hB hr
      omega
    have hfuel : lr / 2 < 2 ^ (bitLength seq + 1) := by
      have : bitLength seq + 1 < 2 ^ (bitLength seq + 1) := Nat.lt_two_pow_self
      omega
    have hp : lr / 2 = 0 ∨ ∃ e', lr / 2 = 2 ^ e' := by
      cases e with
      | zero => left; subst d4; rfl
      | succ e => right; exact ⟨e, by rw [d4, Nat.pow_succ]; omega⟩
    have hz : andShift seq (lr + (if lr / 2 = 0 then 1 else 2 * (lr / 2)) - 1) = 0 := by
      cases e with
      | zero => subst d4; exact d3
      | succ e =>
        have h2 : lr / 2 = 2 ^ e := by rw [d4, Nat.pow_succ]; omega
        have hpos : 0 < 2 ^ e := Nat.two_pow_pos e
        rw [h2, if_neg (by omega), show lr + 2 * 2 ^ e - 1 = 2 * lr - 1 by rw [d4, Nat.pow_succ]; omega]
        exact d3
    obtain ⟨r1, r2, r3⟩ := lrRefine_spec seq (bitLength seq + 1) s lr (lr / 2) hlr1 d1 d2 (by omega)
      hfuel hp hz
    generalize lrRefine (bitLength seq + 1) s lr (lr / 2) = k at *
    apply isLongestRun_of
    · have := (andShift_ne_zero_iff seq (k - 1)).1 r1
      rwa [show k - 1 + 1 = k by omega] at this
    · intro hr
      exact (andShift_ne_zero_iff seq k).2 hr r2

/-! ### OverlappingRunsOfOnes -/

theorem orLoop_spec (s : Nat) : ∀ f cur m k a,
    cur = andShift s (a - 1) → 1 ≤ a → 1 ≤ k → (m = 0 ∨ k ≤ a) → m ≤ f →
    orLoop f cur m k = andShift s (a + m - 1) := by
  intro f
  induction f with
  | zero =>
    intro cur m k a hc ha hk hm hf
    have : m = 0 := by omega
    subst this; simpa [orLoop] using hc
  | succ f ih =>
    intro cur m k a hc ha hk hm hf
    unfold orLoop
    split
    · rename_i h0; subst h0; simpa using hc
    · rename_i h0
      have hka : k ≤ a := by rcases hm with h | h; exact absurd h h0; exact h
      have key := andShift_and_shift s (a - 1) (min k m) (by omega)
      rw [← hc] at key
      rw [ih _ (m - min k m) (k * 2) (a + min k m)
        (by rw [key, show a + min k m - 1 = a - 1 + min k m by omega]) (by omega) (by omega)
        (by omega) (by omega)]
      congr 1; omega

theorem pc_andShift (s m : Nat) : ∀ n, pc (andShift s m) n = countBelow n (allOnes s (m + 1)) := by
  intro n
  induction n with
  | zero => rfl
  | succ n ih =>
    rw [pc, countBelow_succ, ih]
    congr 2
    rw [Bool.eq_iff_iff, testBit_andShift]
    simp only [allOnes, List.all_eq_true, List.mem_range]
    exact ⟨fun h j hj => h j (by omega), fun h j hj => h j (by omega)⟩

theorem overlappingRunsOfOnes_spec (s m n : Nat) (hm : 1 ≤ m) (h : s < 2 ^ n) :
    overlappingRunsOfOnes s m = .ok (overlapDef s m n) := by
  unfold overlappingRunsOfOnes
  rw [if_neg (by omega)]
  rw [orLoop_spec s m s (m - 1) 1 1 rfl (Nat.le_refl _) (Nat.le_refl _) (Or.inr (Nat.le_refl _))
    (by omega)]
  rw [bitCount_eq_pc _ n (Nat.lt_of_le_of_lt (andShift_le _ _) h), pc_andShift]
  rw [show 1 + (m - 1) - 1 + 1 = m by omega]
  rfl

end Paranoid.BitSeq
