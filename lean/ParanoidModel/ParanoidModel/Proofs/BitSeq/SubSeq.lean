/-
Proofs/BitSeq/SubSeq.lean — counting helpers, the virtual stream of cyclic windows, `subSequences`.
-/
import ParanoidModel.Proofs.BitSeq.Bytes
namespace Paranoid.BitSeq
open Paranoid Paranoid.BitDefs

/-! ### counting helpers -/

theorem countBelow_congr (n : Nat) (f g : Nat → Bool) (h : ∀ k, k < n → f k = g k) :
    countBelow n f = countBelow n g := by
  unfold countBelow
  apply List.countP_congr
  intro k hk
  rw [h k (by simpa using hk)]

theorem countBelow_add (a b : Nat) (g : Nat → Bool) :
    countBelow (a + b) g = countBelow a g + countBelow b (fun k => g (a + k)) := by
  induction b with
  | zero => simp [countBelow]
  | succ b ih => rw [← Nat.add_assoc, countBelow_succ, ih, countBelow_succ]; omega

theorem countBelow_succ_shift (n : Nat) (g : Nat → Bool) :
    countBelow (n + 1) g = (g 0).toNat + countBelow n (fun k => g (k + 1)) := by
  rw [Nat.add_comm n 1, countBelow_add]
  have h1 : countBelow 1 g = (g 0).toNat := by
    have := countBelow_succ 0 g; simpa [countBelow] using this
  rw [h1]; congr 1; apply countBelow_congr; intro k _; rw [Nat.add_comm]

/-- counting is invariant under rotating the index range. -/
theorem countBelow_rotate (n c : Nat) (g : Nat → Bool) (hc : c ≤ n) :
    countBelow n (fun k => g ((k + c) % n)) = countBelow n g := by
  obtain ⟨d, rfl⟩ := Nat.exists_eq_add_of_le hc
  have hL : countBelow (c + d) (fun k => g ((k + c) % (c + d))) =
      countBelow d (fun k => g ((k + c) % (c + d))) +
        countBelow c (fun k => g ((d + k + c) % (c + d))) := by
    rw [show c + d = d + c from Nat.add_comm c d]
    exact countBelow_add d c _
  have e1 : countBelow c (fun k => g ((d + k + c) % (c + d))) = countBelow c g := by
    apply countBelow_congr; intro k hk
    rw [show d + k + c = k + (c + d) by omega, Nat.add_mod_right, Nat.mod_eq_of_lt (by omega)]
  have e2 : countBelow d (fun k => g ((k + c) % (c + d))) = countBelow d (fun k => g (c + k)) := by
    apply countBelow_congr; intro k hk
    rw [Nat.mod_eq_of_lt (by omega), Nat.add_comm]
  rw [hL, countBelow_add c d g, e1, e2]; omega

/-! ### the virtual stream: top `m` bits of the string, then the whole string -/

/-- `vstream seq n m`: bits `0..m-1` are the last `m` bits of the `n`-bit string, bit `m + p` is
bit `p` of the string. `(vstream >>> k) % 2^m`, `k = 0..n`, are the cyclic windows. -/
def vstream (seq n m : Nat) : Nat := (seq >>> (n - m)) ||| (seq <<< m)

theorem testBit_vstream (seq n m p : Nat) (h : seq < 2 ^ n) (hm : m ≤ n) :
    (vstream seq n m).testBit p = if p < m then seq.testBit (n - m + p) else seq.testBit (p - m) := by
  unfold vstream
  rw [Nat.testBit_or, Nat.testBit_shiftRight, Nat.testBit_shiftLeft]
  split
  · rename_i hp; simp [show ¬ p ≥ m by omega]
  · rename_i hp
    have : seq.testBit (n - m + p) = false :=
      Nat.testBit_lt_two_pow (Nat.lt_of_lt_of_le h (Nat.pow_le_pow_right (by decide) (by omega)))
    simp [this, show p ≥ m by omega]

theorem testBit_vstream_add (seq n m p : Nat) (h : seq < 2 ^ n) (hm : m ≤ n) :
    (vstream seq n m).testBit (m + p) = seq.testBit p := by
  rw [testBit_vstream _ _ _ _ h hm, if_neg (by omega)]; congr 1; omega

/-- window `k` of the virtual stream. -/
def vwin (seq n m k : Nat) : Nat := (vstream seq n m >>> k) % 2 ^ m

theorem vwin_eq_cyclic (seq n m k : Nat) (h : seq < 2 ^ n) (hm : m ≤ n) (hk : k ≤ n) :
    vwin seq n m k = cyclicWindow seq n m ((k + (n - m)) % n) := by
  unfold vwin cyclicWindow
  apply eq_ofBits
  intro j
  rw [Nat.testBit_mod_two_pow, Nat.testBit_shiftRight, testBit_vstream _ _ _ _ h hm]
  by_cases hj : j < m
  · simp only [hj, decide_true, Bool.true_and]
    rw [Nat.mod_add_mod]
    split
    · rename_i hlt
      rw [Nat.mod_eq_of_lt (by omega)]; congr 1; omega
    · rename_i hge
      rw [show k + (n - m) + j = (k + j - m) + n by omega, Nat.add_mod_right,
        Nat.mod_eq_of_lt (by omega)]
  · simp [hj]

theorem vwin_add (seq n m k : Nat) (h : seq < 2 ^ n) (hm : m ≤ n) :
    vwin seq n m (m + k) = window seq m k := by
  unfold vwin window
  apply eq_ofBits
  intro j
  rw [Nat.testBit_mod_two_pow, Nat.testBit_shiftRight,
    show m + k + j = m + (k + j) by omega, testBit_vstream_add _ _ _ _ h hm]

theorem vwin_zero (seq n m : Nat) (h : seq < 2 ^ n) (hm : m ≤ n) :
    vwin seq n m 0 = window seq m (n - m) := by
  unfold vwin window
  apply eq_ofBits
  intro j
  rw [Nat.testBit_mod_two_pow, Nat.testBit_shiftRight, testBit_vstream _ _ _ _ h hm]
  by_cases hj : j < m
  · simp [hj]
  · simp [hj]

/-! ### SubSequences -/

/-- one loop iteration keeps `s = (X % 2^(m-d+c_i)) >>> (i-d)` where `c_i = 8⌈i/8⌉` bits of the
string have been loaded; `d = 0` (wrap, `X = vstream`) or `d = m` (no wrap, `X = seq`). -/
theorem subSeqStep_inv (seq m d X i : Nat) (hd : d ≤ i) (hdm : d ≤ m)
    (hX : ∀ p, X.testBit (m - d + p) = seq.testBit p) :
    subSeqStep seq m ((X % 2 ^ (m - d + 8 * ((i + 7) / 8))) >>> (i - d)) i =
      (X % 2 ^ (m - d + 8 * ((i + 8) / 8))) >>> (i + 1 - d) := by
  apply Nat.eq_of_testBit_eq
  intro j
  unfold subSeqStep
  split
  · rename_i h8
    simp only [Nat.testBit_shiftRight, Nat.testBit_xor, Nat.testBit_mod_two_pow,
      Nat.testBit_shiftLeft, testBit_byteAt]
    rw [show 8 * (i / 8) = i by omega, show 8 * ((i + 7) / 8) = i by omega,
      show 8 * ((i + 8) / 8) = i + 8 by omega, show i - d + (1 + j) = i + 1 - d + j by omega]
    by_cases h1 : 1 + j < m
    · simp [show i + 1 - d + j < m - d + i by omega, show ¬ 1 + j ≥ m by omega,
        show i + 1 - d + j < m - d + (i + 8) by omega]
    · by_cases h2 : 1 + j - m < 8
      · rw [← hX]
        simp [show ¬ i + 1 - d + j < m - d + i by omega, show 1 + j ≥ m by omega, h2,
          show i + 1 - d + j < m - d + (i + 8) by omega,
          show m - d + (i + (1 + j - m)) = i + 1 - d + j by omega]
      · simp [show ¬ i + 1 - d + j < m - d + i by omega, h2,
          show ¬ i + 1 - d + j < m - d + (i + 8) by omega]
  · rename_i h8
    simp only [Nat.testBit_shiftRight, Nat.testBit_mod_two_pow]
    rw [show 8 * ((i + 8) / 8) = 8 * ((i + 7) / 8) by omega,
      show i - d + (1 + j) = i + 1 - d + j by omega]

theorem subSeqLoop_spec (seq m d X : Nat) (hdm : d ≤ m)
    (hX : ∀ p, X.testBit (m - d + p) = seq.testBit p) : ∀ f i acc, d ≤ i →
    (subSeqLoop seq m (2 ^ m - 1) f i ((X % 2 ^ (m - d + 8 * ((i + 7) / 8))) >>> (i - d)) acc).toList =
      acc.toList ++ (List.range f).map (fun t => (X >>> (i + 1 + t - d)) % 2 ^ m) := by
  intro f
  induction f with
  | zero => intro i acc _; simp [subSeqLoop]
  | succ f ih =>
    intro i acc hd
    unfold subSeqLoop
    rw [subSeqStep_inv seq m d X i hd hdm hX, show (i + 8) / 8 = (i + 1 + 7) / 8 by omega,
      ih (i + 1) _ (by omega), Array.toList_push, List.range_succ_eq_map, List.map_cons,
      List.map_map, List.append_assoc]
    congr 1
    rw [List.singleton_append]
    congr 1
    · rw [Nat.and_two_pow_sub_one_eq_mod]
      apply Nat.eq_of_testBit_eq
      intro j
      simp only [Nat.testBit_mod_two_pow, Nat.testBit_shiftRight]
      by_cases hj : j < m
      · simp [hj, show i + 1 - d + j < m - d + 8 * ((i + 1 + 7) / 8) by omega]
      · simp [hj]
    · apply List.map_congr_left
      intro t _
      simp only [Function.comp, Nat.succ_eq_add_one]
      rw [show i + 1 + 1 + t - d = i + 1 + (t + 1) - d by omega]

/-- `SubSequences` with wrap-around yields, in this order, the windows `1 … n` of the virtual
stream. -/
theorem subSequences_wrap_vwin (seq n m : Nat) (h : seq < 2 ^ n) (hm1 : 1 ≤ m) (hm : m ≤ n) :
    subSequences seq n m true = .ok ((List.range n).map (fun t => vwin seq n m (t + 1))) := by
  unfold subSequences
  rw [if_neg (by omega), if_neg (by have := (lt_two_pow_iff_bitLength_le seq n).1 h; omega),
    if_neg (by omega)]
  simp only [if_true]
  have h0 : (seq >>> (n - m)) &&& (2 ^ m - 1) =
      (vstream seq n m % 2 ^ (m - 0 + 8 * ((0 + 7) / 8))) >>> (0 - 0) := by
    rw [Nat.and_two_pow_sub_one_eq_mod]
    apply Nat.eq_of_testBit_eq
    intro j
    simp only [Nat.testBit_mod_two_pow, Nat.testBit_shiftRight, Nat.sub_zero, Nat.zero_add,
      testBit_vstream _ _ _ _ h hm]
    by_cases hj : j < m
    · simp [hj]
    · simp [hj]
  rw [h0, subSeqLoop_spec seq m 0 (vstream seq n m) (Nat.zero_le _)
    (fun p => by rw [Nat.sub_zero]; exact testBit_vstream_add _ _ _ _ h hm) n 0 #[] (Nat.le_refl _)]
  simp only [List.nil_append]
  congr 1
  apply List.map_congr_left
  intro t _
  unfold vwin
  rw [show 0 + 1 + t - 0 = t + 1 by omega]

theorem subSequences_nowrap (seq n m : Nat) (h : seq < 2 ^ n) (hm1 : 1 ≤ m) (hm : m ≤ n) :
    subSequences seq n m false = .ok (subSeqDef seq n m false) := by
  unfold subSequences
  rw [if_neg (by omega), if_neg (by have := (lt_two_pow_iff_bitLength_le seq n).1 h; omega),
    if_neg (by omega)]
  simp only [Bool.false_eq_true, if_false]
  have h0 : bytesSlice seq 0 ((m + 7) / 8) = (seq % 2 ^ (m - m + 8 * ((m + 7) / 8))) >>> (m - m) := by
    unfold bytesSlice; simp
  rw [h0, subSeqLoop_spec seq m m seq (Nat.le_refl _)
    (fun p => by rw [Nat.sub_self, Nat.zero_add]) (n - m) m _ (Nat.le_refl _)]
  unfold subSeqDef
  simp only [Bool.false_eq_true, if_false]
  rw [List.range_succ_eq_map, List.map_cons, List.map_map]
  simp only [List.singleton_append]
  congr 2
  · rw [Nat.and_two_pow_sub_one_eq_mod, window_eq]
    apply Nat.eq_of_testBit_eq
    intro j
    simp only [Nat.testBit_mod_two_pow, Nat.testBit_shiftRight, Nat.sub_self, Nat.zero_add]
    by_cases hj : j < m
    · simp [hj, show j < 8 * ((m + 7) / 8) by omega]
    · simp [hj]
  · apply List.map_congr_left
    intro t _
    simp only [Function.comp, Nat.succ_eq_add_one]
    rw [window_eq, show m + 1 + t - m = t + 1 by omega]

end Paranoid.BitSeq

namespace Paranoid.BitSeq
open Paranoid Paranoid.BitDefs

theorem count_map_range (F : Nat → Nat) (n p : Nat) :
    ((List.range n).map F).count p = countBelow n (fun i => F i == p) := by
  unfold countBelow
  rw [List.count_eq_countP, List.countP_map]
  rfl

/-- with wrap-around the generator yields every cyclic window exactly once. -/
theorem subSequences_wrap (seq n m : Nat) (h : seq < 2 ^ n) (hm1 : 1 ≤ m) (hm : m ≤ n) :
    ∃ l, subSequences seq n m true = .ok l ∧ l.Perm (subSeqDef seq n m true) := by
  refine ⟨_, subSequences_wrap_vwin seq n m h hm1 hm, ?_⟩
  rw [List.perm_iff_count]
  intro p
  unfold subSeqDef
  simp only [if_true]
  rw [count_map_range, count_map_range]
  have hc : (1 + (n - m)) % n ≤ n := Nat.le_of_lt (Nat.mod_lt _ (by omega))
  rw [← countBelow_rotate n ((1 + (n - m)) % n) (fun i => cyclicWindow seq n m i == p) hc]
  apply countBelow_congr
  intro k hk
  rw [vwin_eq_cyclic _ _ _ _ h hm (by omega), Nat.add_mod_mod]
  rw [show k + 1 + (n - m) = k + (1 + (n - m)) by omega]

end Paranoid.BitSeq
