/-
Proofs/Bookkeeping.lean — lemmas about Model/Bookkeeping.lean (util.py bookkeeping):
monotonicity of every mutating call, uniqueness of entry names, the weak-flag invariant,
version recording, attached factor sets as growing unions.  Core Lean only.
-/
import ParanoidModel.Model.Bookkeeping
namespace Paranoid

/-- results of the model can be compared by `decide` (used by the concrete examples). -/
instance instDecidableEqExcept {ε α : Type} [DecidableEq ε] [DecidableEq α] :
    DecidableEq (Except ε α)
  | .ok a, .ok b =>
    if h : a = b then isTrue (by rw [h]) else isFalse (by intro h'; cases h'; exact h rfl)
  | .error a, .error b =>
    if h : a = b then isTrue (by rw [h]) else isFalse (by intro h'; cases h'; exact h rfl)
  | .ok _, .error _ => isFalse (by intro h; cases h)
  | .error _, .ok _ => isFalse (by intro h; cases h)

/-! ### integer sets -/

theorem mem_insertS (a x : Int) (l : List Int) : a ∈ insertS x l ↔ a = x ∨ a ∈ l := by
  induction l with
  | nil => simp [insertS]
  | cons y ys ih =>
    unfold insertS
    split
    · simp
    · split
      · rename_i _ h; subst h; simp
      · simp only [List.mem_cons, ih]
        constructor
        · rintro (h | h | h)
          · exact Or.inr (Or.inl h)
          · exact Or.inl h
          · exact Or.inr (Or.inr h)
        · rintro (h | h | h)
          · exact Or.inr (Or.inl h)
          · exact Or.inl h
          · exact Or.inr (Or.inr h)

theorem mem_unionS (a : Int) (xs l : List Int) : a ∈ unionS xs l ↔ a ∈ xs ∨ a ∈ l := by
  induction xs with
  | nil => simp [unionS]
  | cons x xs ih =>
    have : unionS (x :: xs) l = insertS x (unionS xs l) := rfl
    rw [this, mem_insertS, ih]
    simp only [List.mem_cons]
    constructor
    · rintro (h | h | h)
      · exact Or.inl (Or.inl h)
      · exact Or.inl (Or.inr h)
      · exact Or.inr h
    · rintro ((h | h) | h)
      · exact Or.inl h
      · exact Or.inr (Or.inl h)
      · exact Or.inr (Or.inr h)

theorem mem_toSetS (a : Int) (xs : List Int) : a ∈ toSetS xs ↔ a ∈ xs := by
  simp [toSetS, mem_unionS]

/-- membership in an optional set (`None` has no members). -/
def MemO (x : Int) (o : Option (List Int)) : Prop := ∃ s, o = some s ∧ x ∈ s

theorem mem_mergeFactors (a : Int) (fs : List Int) (old : Option (List Int)) :
    a ∈ mergeFactors fs old ↔ a ∈ fs ∨ MemO a old := by
  unfold mergeFactors MemO
  cases old with
  | none => simp [mem_toSetS]
  | some o =>
    simp only [Option.some.injEq, exists_eq_left']
    split
    · rename_i h; subst h; simp [mem_toSetS]
    · exact mem_unionS a fs o

/-! ### entries only grow -/

/-- `y` is `x` after later runs: same name, result and severity not lowered. -/
def EntryLe (x y : Entry) : Prop :=
  x.name = y.name ∧ (x.result = true → y.result = true) ∧ x.severity ≤ y.severity

/-- position by position the old entries are still there (same names, results and severities
not lowered); new entries are only appended. -/
def EntriesLe : List Entry → List Entry → Prop
  | [], _ => True
  | _ :: _, [] => False
  | x :: xs, y :: ys => EntryLe x y ∧ EntriesLe xs ys

theorem EntryLe.refl (x : Entry) : EntryLe x x := ⟨rfl, id, Nat.le_refl _⟩

theorem EntryLe.trans {x y z : Entry} (h1 : EntryLe x y) (h2 : EntryLe y z) : EntryLe x z :=
  ⟨h1.1.trans h2.1, fun h => h2.2.1 (h1.2.1 h), Nat.le_trans h1.2.2 h2.2.2⟩

theorem EntriesLe.refl (l : List Entry) : EntriesLe l l := by
  induction l with
  | nil => trivial
  | cons x xs ih => exact ⟨EntryLe.refl x, ih⟩

theorem EntriesLe.trans {a b c : List Entry} (h1 : EntriesLe a b) (h2 : EntriesLe b c) :
    EntriesLe a c := by
  induction a generalizing b c with
  | nil => trivial
  | cons x xs ih =>
    cases b with
    | nil => exact h1.elim
    | cons y ys =>
      cases c with
      | nil => exact h2.elim
      | cons z zs => exact ⟨h1.1.trans h2.1, ih h1.2 h2.2⟩

theorem EntriesLe.append (l s : List Entry) : EntriesLe l (l ++ s) := by
  induction l with
  | nil => trivial
  | cons x xs ih => exact ⟨EntryLe.refl x, ih⟩

theorem EntriesLe.updateFirst (e : Entry) (l : List Entry) : EntriesLe l (updateFirst e l) := by
  induction l with
  | nil => trivial
  | cons x xs ih =>
    unfold Paranoid.updateFirst
    split
    · refine ⟨⟨rfl, ?_, Nat.le_max_left _ _⟩, EntriesLe.refl xs⟩
      intro h; simp [h]
    · exact ⟨EntryLe.refl x, ih⟩

theorem EntriesLe.length {a b : List Entry} (h : EntriesLe a b) : a.length ≤ b.length := by
  induction a generalizing b with
  | nil => simp
  | cons x xs ih =>
    cases b with
    | nil => exact h.elim
    | cons y ys => simp only [List.length_cons]; exact Nat.succ_le_succ (ih h.2)

/-- the first entry with a given name is still the first entry with that name. -/
theorem EntriesLe.find {a b : List Entry} (h : EntriesLe a b) (n : String) (e : Entry)
    (he : a.find? (fun x => x.name = n) = some e) :
    ∃ e', b.find? (fun x => x.name = n) = some e' ∧ EntryLe e e' := by
  induction a generalizing b with
  | nil => simp at he
  | cons x xs ih =>
    cases b with
    | nil => exact h.elim
    | cons y ys =>
      obtain ⟨hxy, hrest⟩ := h
      rw [List.find?_cons] at he ⊢
      by_cases hx : x.name = n
      · have hy : y.name = n := hxy.1 ▸ hx
        simp only [hx, decide_true] at he
        simp only [hy, decide_true]
        cases he
        exact ⟨y, rfl, hxy⟩
      · have hy : ¬ y.name = n := fun h' => hx (hxy.1.trans h')
        simp only [hx, decide_false] at he
        simp only [hy, decide_false]
        exact ih hrest he

/-- every old entry is still present at its position, not lowered. -/
theorem EntriesLe.mem {a b : List Entry} (h : EntriesLe a b) (e : Entry) (he : e ∈ a) :
    ∃ e' ∈ b, EntryLe e e' := by
  induction a generalizing b with
  | nil => simp at he
  | cons x xs ih =>
    cases b with
    | nil => exact h.elim
    | cons y ys =>
      rcases List.mem_cons.1 he with rfl | he'
      · exact ⟨y, List.mem_cons_self, h.1⟩
      · obtain ⟨e', h1, h2⟩ := ih h.2 he'
        exact ⟨e', List.mem_cons_of_mem _ h1, h2⟩

/-! ### one TestInfo is a later state of another -/

structure Mono (a b : TestInfo) : Prop where
  weak : a.weak = true → b.weak = true
  entries : EntriesLe a.results b.results
  version : a.version ≠ "" → b.version = a.version

theorem Mono.refl (a : TestInfo) : Mono a a := ⟨id, EntriesLe.refl _, fun _ => rfl⟩

theorem Mono.trans {a b c : TestInfo} (h1 : Mono a b) (h2 : Mono b c) : Mono a c :=
  ⟨fun h => h2.weak (h1.weak h), h1.entries.trans h2.entries, fun h => by
    have hb := h1.version h
    rw [← hb]; exact h2.version (hb ▸ h)⟩

theorem setTestResult_results_le (ver : String) (ti : TestInfo) (e : Entry) :
    EntriesLe ti.results (setTestResult ver ti e).results := by
  unfold setTestResult
  dsimp only
  split
  · exact EntriesLe.updateFirst e _
  · exact EntriesLe.append _ _

theorem setTestResult_mono (ver : String) (ti : TestInfo) (e : Entry) :
    Mono ti (setTestResult ver ti e) := by
  refine ⟨?_, setTestResult_results_le ver ti e, ?_⟩
  · intro h; simp [setTestResult, h]
  · intro h; simp [setTestResult, h]

theorem attachInfo_mono (ti : TestInfo) (k : String) (v : AttachedValue) :
    Mono ti (attachInfo ti k v) := ⟨id, EntriesLe.refl _, fun _ => rfl⟩

theorem attachFactors_ok {ti t : TestInfo} {k : String} {fs : List Int}
    (h : attachFactors ti k fs = .ok t) :
    ∃ old, getAttachedFactors ti k = .ok old ∧
      t = attachInfo ti k (.factors (mergeFactors fs old)) := by
  unfold attachFactors at h
  split at h
  · cases h
  · rename_i old hold
    cases h
    exact ⟨old, hold, rfl⟩

theorem applyOp_mono {ver : String} {ti t : TestInfo} {op : Op}
    (h : applyOp ver ti op = .ok t) : Mono ti t := by
  cases op with
  | setTestResult e => cases h; exact setTestResult_mono ver ti e
  | attachInfo k v => cases h; exact attachInfo_mono ti k v
  | attachFactors k fs =>
    obtain ⟨old, _, rfl⟩ := attachFactors_ok h
    exact attachInfo_mono ti k _

theorem stepSkip_mono (ver : String) (ti : TestInfo) (op : Op) : Mono ti (stepSkip ver ti op) := by
  unfold stepSkip
  split
  · rename_i t h; exact applyOp_mono h
  · exact Mono.refl ti

theorem runOps_mono (ver : String) (ti : TestInfo) (ops : List Op) :
    Mono ti (runOps ver ti ops) := by
  induction ops generalizing ti with
  | nil => exact Mono.refl ti
  | cons op ops ih => exact (stepSkip_mono ver ti op).trans (ih _)

/-- a history in which no call raised is the same for the aborting and the skipping caller. -/
theorem applyOps_eq_runOps {ver : String} {ti t : TestInfo} {ops : List Op}
    (h : applyOps ver ti ops = .ok t) : runOps ver ti ops = t := by
  induction ops generalizing ti with
  | nil => cases h; rfl
  | cons op ops ih =>
    unfold applyOps at h
    split at h
    · rename_i t' h'
      have : runOps ver ti (op :: ops) = runOps ver t' ops := by
        simp [runOps, stepSkip, h']
      rw [this]; exact ih h
    · cases h

theorem applyOps_append (ver : String) (ti : TestInfo) (o1 o2 : List Op) :
    applyOps ver ti (o1 ++ o2) =
      match applyOps ver ti o1 with
      | .ok t => applyOps ver t o2
      | .error e => .error e := by
  induction o1 generalizing ti with
  | nil => rfl
  | cons op ops ih =>
    simp only [List.cons_append, applyOps]
    cases applyOp ver ti op with
    | ok t => exact ih t
    | error e => rfl

theorem runOps_append (ver : String) (ti : TestInfo) (o1 o2 : List Op) :
    runOps ver ti (o1 ++ o2) = runOps ver (runOps ver ti o1) o2 := by
  simp [runOps, List.foldl_append]

/-! ### names: never duplicated -/

theorem updateFirst_names (e : Entry) (l : List Entry) :
    (updateFirst e l).map (·.name) = l.map (·.name) := by
  induction l with
  | nil => rfl
  | cons x xs ih =>
    unfold updateFirst
    split
    · rfl
    · simp only [List.map_cons, ih]

theorem getTestResult_none_iff (ti : TestInfo) (n : String) :
    getTestResult ti n = none ↔ n ∉ ti.results.map (·.name) := by
  unfold getTestResult
  rw [List.find?_eq_none]
  simp only [decide_eq_true_eq, List.mem_map, not_exists, not_and]

/-- number of entries carrying the name `n`. -/
def nameCount (n : String) (l : List Entry) : Nat := l.countP (fun e => e.name = n)

theorem nameCount_eq_map (n : String) (l : List Entry) :
    nameCount n l = (l.map (·.name)).countP (fun m => m = n) := by
  unfold nameCount
  induction l with
  | nil => rfl
  | cons x xs ih => simp only [List.map_cons, List.countP_cons, ih]

theorem nameCount_zero_iff (n : String) (l : List Entry) :
    nameCount n l = 0 ↔ n ∉ l.map (·.name) := by
  unfold nameCount
  rw [List.countP_eq_zero]
  simp only [decide_eq_true_eq, List.mem_map, not_exists, not_and]

theorem nameCount_setTestResult (ver : String) (ti : TestInfo) (e : Entry) (n : String) :
    nameCount n (setTestResult ver ti e).results =
      if e.name = n ∧ nameCount n ti.results = 0 then 1 else nameCount n ti.results := by
  unfold setTestResult
  dsimp only
  split
  · rename_i x hx
    rw [nameCount_eq_map, updateFirst_names, ← nameCount_eq_map]
    have hne : getTestResult ti e.name ≠ none := by rw [hx]; simp
    rw [Ne, getTestResult_none_iff, ← nameCount_zero_iff] at hne
    split
    · rename_i h; obtain ⟨h1, h2⟩ := h; subst h1; exact (hne h2).elim
    · rfl
  · rename_i hx
    rw [getTestResult_none_iff, ← nameCount_zero_iff] at hx
    unfold nameCount at *
    rw [List.countP_append]
    by_cases hn : e.name = n
    · subst hn; simp [hx]
    · simp [hn]

theorem nameCount_applyOp {ver : String} {ti t : TestInfo} {op : Op}
    (h : applyOp ver ti op = .ok t) (n : String) :
    nameCount n t.results ≤ max 1 (nameCount n ti.results) := by
  cases op with
  | setTestResult e =>
    cases h
    rw [nameCount_setTestResult]
    split <;> omega
  | attachInfo k v => cases h; exact Nat.le_max_right _ _
  | attachFactors k fs =>
    obtain ⟨old, _, rfl⟩ := attachFactors_ok h
    exact Nat.le_max_right _ _

theorem nameCount_runOps (ver : String) (ti : TestInfo) (ops : List Op) (n : String) :
    nameCount n (runOps ver ti ops).results ≤ max 1 (nameCount n ti.results) := by
  induction ops generalizing ti with
  | nil => exact Nat.le_max_right _ _
  | cons op ops ih =>
    have h1 := ih (stepSkip ver ti op)
    have h2 : nameCount n (stepSkip ver ti op).results ≤ max 1 (nameCount n ti.results) := by
      unfold stepSkip
      split
      · rename_i t h; exact nameCount_applyOp h n
      · exact Nat.le_max_right _ _
    show nameCount n (runOps ver (stepSkip ver ti op) ops).results ≤ _
    omega

theorem nodup_iff_nameCount (l : List Entry) :
    (l.map (·.name)).Nodup ↔ ∀ n, nameCount n l ≤ 1 := by
  induction l with
  | nil => simp [nameCount]
  | cons x xs ih =>
    simp only [List.map_cons, List.nodup_cons, ih]
    constructor
    · rintro ⟨h1, h2⟩ n
      have := h2 n
      unfold nameCount at *
      rw [List.countP_cons]
      by_cases hx : x.name = n
      · subst hx
        have h0 := (nameCount_zero_iff x.name xs).2 h1
        unfold nameCount at h0
        simp [h0]
      · simp [hx]; exact this
    · intro h
      constructor
      · intro hmem
        have h0 : nameCount x.name xs ≠ 0 := fun h0 => (nameCount_zero_iff _ _).1 h0 hmem
        have := h x.name
        unfold nameCount at *
        rw [List.countP_cons] at this
        simp only [decide_true, if_true] at this
        omega
      · intro n
        have := h n
        unfold nameCount at *
        rw [List.countP_cons] at this
        omega

theorem runOps_names_nodup (ver : String) (ti : TestInfo) (ops : List Op)
    (h : (ti.results.map (·.name)).Nodup) :
    ((runOps ver ti ops).results.map (·.name)).Nodup := by
  rw [nodup_iff_nameCount] at h ⊢
  intro n
  have := nameCount_runOps ver ti ops n
  have := h n
  omega

/-! ### the weak flag equals "some entry is positive" -/

def Consistent (ti : TestInfo) : Prop := ti.weak = true ↔ ∃ e ∈ ti.results, e.result = true

theorem exists_pos_updateFirst (e : Entry) (l : List Entry) (h : e.name ∈ l.map (·.name)) :
    (∃ y ∈ updateFirst e l, y.result = true) ↔ (∃ y ∈ l, y.result = true) ∨ e.result = true := by
  induction l with
  | nil => simp at h
  | cons x xs ih =>
    unfold updateFirst
    split
    · simp only [List.mem_cons, exists_eq_or_imp, Bool.or_eq_true]
      constructor
      · rintro ((h1 | h1) | h1)
        · exact Or.inl (Or.inl h1)
        · exact Or.inr h1
        · exact Or.inl (Or.inr h1)
      · rintro ((h1 | h1) | h1)
        · exact Or.inl (Or.inl h1)
        · exact Or.inr h1
        · exact Or.inl (Or.inr h1)
    · rename_i hx
      have h' : e.name ∈ xs.map (·.name) := by
        simp only [List.map_cons, List.mem_cons] at h
        rcases h with h | h
        · exact (hx h.symm).elim
        · exact h
      simp only [List.mem_cons, exists_eq_or_imp, ih h']
      constructor
      · rintro (h1 | h1 | h1)
        · exact Or.inl (Or.inl h1)
        · exact Or.inl (Or.inr h1)
        · exact Or.inr h1
      · rintro ((h1 | h1) | h1)
        · exact Or.inl h1
        · exact Or.inr (Or.inl h1)
        · exact Or.inr (Or.inr h1)

theorem exists_pos_setTestResult (ver : String) (ti : TestInfo) (e : Entry) :
    (∃ y ∈ (setTestResult ver ti e).results, y.result = true) ↔
      (∃ y ∈ ti.results, y.result = true) ∨ e.result = true := by
  unfold setTestResult
  dsimp only
  split
  · rename_i x hx
    have hne : getTestResult ti e.name ≠ none := by rw [hx]; simp
    rw [Ne, getTestResult_none_iff, Classical.not_not] at hne
    exact exists_pos_updateFirst e _ hne
  · simp only [List.mem_append, List.mem_singleton]
    constructor
    · rintro ⟨y, hy | hy, hr⟩
      · exact Or.inl ⟨y, hy, hr⟩
      · subst hy; exact Or.inr hr
    · rintro (⟨y, hy, hr⟩ | hr)
      · exact ⟨y, Or.inl hy, hr⟩
      · exact ⟨e, Or.inr rfl, hr⟩

theorem setTestResult_consistent (ver : String) (ti : TestInfo) (e : Entry)
    (h : Consistent ti) : Consistent (setTestResult ver ti e) := by
  unfold Consistent at *
  rw [exists_pos_setTestResult, ← h]
  simp [setTestResult]

theorem applyOp_consistent {ver : String} {ti t : TestInfo} {op : Op}
    (h : applyOp ver ti op = .ok t) (hc : Consistent ti) : Consistent t := by
  cases op with
  | setTestResult e => cases h; exact setTestResult_consistent ver ti e hc
  | attachInfo k v => cases h; exact hc
  | attachFactors k fs =>
    obtain ⟨old, _, rfl⟩ := attachFactors_ok h
    exact hc

theorem runOps_consistent (ver : String) (ti : TestInfo) (ops : List Op) (hc : Consistent ti) :
    Consistent (runOps ver ti ops) := by
  induction ops generalizing ti with
  | nil => exact hc
  | cons op ops ih =>
    apply ih
    unfold stepSkip
    split
    · rename_i t h; exact applyOp_consistent h hc
    · exact hc

theorem consistent_empty : Consistent TestInfo.empty := by
  simp [Consistent, TestInfo.empty]

/-! ### weak flag and results of a history, exactly -/

/-- the entries a history passes to SetTestResult. -/
def entriesOf : List Op → List Entry
  | [] => []
  | .setTestResult e :: ops => e :: entriesOf ops
  | _ :: ops => entriesOf ops

theorem entriesOf_append (o1 o2 : List Op) : entriesOf (o1 ++ o2) = entriesOf o1 ++ entriesOf o2 := by
  induction o1 with
  | nil => rfl
  | cons op ops ih => cases op <;> simp [entriesOf, ih]

theorem applyOp_weak {ver : String} {ti t : TestInfo} {op : Op} (h : applyOp ver ti op = .ok t) :
    t.weak = (ti.weak || (entriesOf [op]).any (·.result)) := by
  cases op with
  | setTestResult e => cases h; simp [setTestResult, entriesOf]
  | attachInfo k v => cases h; simp [attachInfo, entriesOf]
  | attachFactors k fs =>
    obtain ⟨old, _, rfl⟩ := attachFactors_ok h
    simp [attachInfo, entriesOf]

theorem applyOps_weak {ver : String} {ti t : TestInfo} {ops : List Op}
    (h : applyOps ver ti ops = .ok t) : t.weak = (ti.weak || (entriesOf ops).any (·.result)) := by
  induction ops generalizing ti with
  | nil => cases h; simp [entriesOf]
  | cons op ops ih =>
    unfold applyOps at h
    split at h
    · rename_i t' h'
      rw [ih h, applyOp_weak h']
      have : entriesOf (op :: ops) = entriesOf [op] ++ entriesOf ops := entriesOf_append [op] ops
      rw [this, List.any_append, Bool.or_assoc]
    · cases h

/-- with fresh names every SetTestResult appends: the result list is exactly the entries
passed, in call order. -/
theorem applyOps_results_fresh {ver : String} {ti t : TestInfo} {ops : List Op}
    (h : applyOps ver ti ops = .ok t)
    (hnd : (ti.results.map (·.name) ++ (entriesOf ops).map (·.name)).Nodup) :
    t.results = ti.results ++ entriesOf ops := by
  induction ops generalizing ti with
  | nil => cases h; simp [entriesOf]
  | cons op ops ih =>
    unfold applyOps at h
    split at h
    · rename_i t' h'
      cases op with
      | setTestResult e =>
        cases h'
        have hnone : getTestResult ti e.name = none := by
          rw [getTestResult_none_iff]
          intro hmem
          simp only [entriesOf, List.map_cons] at hnd
          rw [List.nodup_append] at hnd
          exact hnd.2.2 _ hmem _ List.mem_cons_self rfl
        have hres : (setTestResult ver ti e).results = ti.results ++ [e] := by
          simp [setTestResult, hnone]
        have := ih h (by
          rw [hres]
          simpa [entriesOf, List.map_append, List.append_assoc] using hnd)
        rw [this, hres]
        simp [entriesOf]
      | attachInfo k v =>
        cases h'
        exact ih (ti := attachInfo ti k v) h (by simpa [entriesOf, attachInfo] using hnd)
      | attachFactors k fs =>
        obtain ⟨old, _, rfl⟩ := attachFactors_ok h'
        exact ih (ti := attachInfo ti k _) h (by simpa [entriesOf, attachInfo] using hnd)
    · cases h

/-! ### the library version -/

def isSet : Op → Bool
  | .setTestResult _ => true
  | _ => false

theorem applyOp_version {ver : String} {ti t : TestInfo} {op : Op} (h : applyOp ver ti op = .ok t) :
    t.version = if ti.version = "" ∧ isSet op = true then ver else ti.version := by
  cases op with
  | setTestResult e => cases h; simp [setTestResult, isSet]
  | attachInfo k v => cases h; simp [attachInfo, isSet]
  | attachFactors k fs =>
    obtain ⟨old, _, rfl⟩ := attachFactors_ok h
    simp [attachInfo, isSet]

/-- the version is written by the first SetTestResult on a `TestInfo` without one and never
changed afterwards. -/
theorem runOps_version (ver : String) (ti : TestInfo) (ops : List Op) :
    (runOps ver ti ops).version =
      if ti.version = "" ∧ ops.any isSet = true then ver else ti.version := by
  induction ops generalizing ti with
  | nil => simp [runOps]
  | cons op ops ih =>
    show (runOps ver (stepSkip ver ti op) ops).version = _
    rw [ih]
    have hv : (stepSkip ver ti op).version =
        if ti.version = "" ∧ isSet op = true then ver else ti.version := by
      unfold stepSkip
      split
      · rename_i t h; exact applyOp_version h
      · rename_i e h
        cases op with
        | setTestResult e' => cases h
        | attachInfo k v => cases h
        | attachFactors k fs => simp [isSet]
    rw [hv]
    simp only [List.any_cons, Bool.or_eq_true]
    by_cases h1 : ti.version = ""
    · by_cases h2 : isSet op = true
      · simp [h1, h2]
      · simp [h1, h2]
    · simp [h1]

/-! ### attached info behaves like a finite map; factor sets are growing unions -/

theorem find_updateFirstInfo (k k' : String) (v : AttachedValue) (l : List (String × AttachedValue))
    (h : k ∈ l.map (·.1)) :
    ((updateFirstInfo k v l).find? (fun p => p.1 = k')).map (·.2) =
      if k' = k then some v else (l.find? (fun p => p.1 = k')).map (·.2) := by
  induction l with
  | nil => simp at h
  | cons x xs ih =>
    unfold updateFirstInfo
    split
    · rename_i hx
      rw [List.find?_cons, List.find?_cons]
      by_cases hk : k' = k
      · subst hk; simp [hx]
      · have : ¬ x.1 = k' := fun h' => hk (h' ▸ hx)
        simp [hk, this]
    · rename_i hx
      have h' : k ∈ xs.map (·.1) := by
        simp only [List.map_cons, List.mem_cons] at h
        rcases h with h | h
        · exact (hx h.symm).elim
        · exact h
      rw [List.find?_cons, List.find?_cons]
      by_cases hxk : x.1 = k'
      · have : ¬ k' = k := fun h'' => hx (hxk.trans h'')
        simp [hxk, this]
      · simp only [hxk, decide_false]
        exact ih h'

theorem getAttachedInfo_none_iff (ti : TestInfo) (k : String) :
    getAttachedInfo ti k = none ↔ k ∉ ti.attached.map (·.1) := by
  unfold getAttachedInfo
  rw [Option.map_eq_none_iff, List.find?_eq_none]
  simp only [decide_eq_true_eq, List.mem_map, not_exists, not_and]

theorem getAttachedInfo_attachInfo (ti : TestInfo) (k k' : String) (v : AttachedValue) :
    getAttachedInfo (attachInfo ti k v) k' =
      if k' = k then some v else getAttachedInfo ti k' := by
  unfold attachInfo
  split
  · rename_i x hx
    have hne : getAttachedInfo ti k ≠ none := by rw [hx]; simp
    rw [Ne, getAttachedInfo_none_iff, Classical.not_not] at hne
    exact find_updateFirstInfo k k' v _ hne
  · rename_i hx
    unfold getAttachedInfo at hx ⊢
    dsimp only
    rw [List.find?_append]
    by_cases hk : k' = k
    · subst hk
      rw [Option.map_eq_none_iff] at hx
      simp [hx]
    · have : ¬ k = k' := fun h => hk h.symm
      simp [hk, this]

theorem getAttachedFactors_attachInfo_ne (ti : TestInfo) (k k' : String) (v : AttachedValue)
    (h : k' ≠ k) : getAttachedFactors (attachInfo ti k v) k' = getAttachedFactors ti k' := by
  unfold getAttachedFactors
  rw [getAttachedInfo_attachInfo, if_neg h]

theorem getAttachedFactors_attachInfo_self (ti : TestInfo) (k : String) (s : List Int) :
    getAttachedFactors (attachInfo ti k (.factors s)) k = .ok (some s) := by
  unfold getAttachedFactors
  rw [getAttachedInfo_attachInfo, if_pos rfl]

theorem getAttachedFactors_setTestResult (ver : String) (ti : TestInfo) (e : Entry) (k : String) :
    getAttachedFactors (setTestResult ver ti e) k = getAttachedFactors ti k := rfl

/-- the factor lists a history attaches under the name `k`. -/
def attachedUnder (k : String) : List Op → List (List Int)
  | [] => []
  | .attachFactors k' fs :: ops => if k' = k then fs :: attachedUnder k ops else attachedUnder k ops
  | _ :: ops => attachedUnder k ops

/-- does the history overwrite the attached entry `k` through a plain AttachInfo? -/
def overwrites (k : String) : Op → Bool
  | .attachInfo k' _ => k' = k
  | _ => false

/-- effect of one (non-raising or skipped) call on the factor set stored under `k`. -/
theorem stepSkip_factors (ver : String) (ti : TestInfo) (op : Op) (k : String)
    (o : Option (List Int)) (h : getAttachedFactors ti k = .ok o) (hno : overwrites k op = false) :
    ∃ o', getAttachedFactors (stepSkip ver ti op) k = .ok o' ∧
      (∀ x, MemO x o' ↔ MemO x o ∨ ∃ fs ∈ attachedUnder k [op], x ∈ fs) ∧
      (o' = none ↔ o = none ∧ attachedUnder k [op] = []) := by
  cases op with
  | setTestResult e =>
    refine ⟨o, ?_, ?_, ?_⟩
    · simpa [stepSkip, applyOp, getAttachedFactors_setTestResult] using h
    · intro x; simp [attachedUnder]
    · simp [attachedUnder]
  | attachInfo k' v =>
    have hk : k ≠ k' := by
      intro hk; subst hk; simp [overwrites] at hno
    refine ⟨o, ?_, ?_, ?_⟩
    · simp only [stepSkip, applyOp]
      rw [getAttachedFactors_attachInfo_ne _ _ _ _ hk]; exact h
    · intro x; simp [attachedUnder]
    · simp [attachedUnder]
  | attachFactors k' fs =>
    by_cases hk : k' = k
    · subst hk
      have hstep : stepSkip ver ti (.attachFactors k' fs) =
          attachInfo ti k' (.factors (mergeFactors fs o)) := by
        simp [stepSkip, applyOp, attachFactors, h]
      refine ⟨some (mergeFactors fs o), ?_, ?_, ?_⟩
      · rw [hstep]; exact getAttachedFactors_attachInfo_self _ _ _
      · intro x
        simp only [attachedUnder, if_pos, List.mem_singleton, exists_eq_left]
        have : MemO x (some (mergeFactors fs o)) ↔ x ∈ mergeFactors fs o := by
          simp [MemO]
        rw [this, mem_mergeFactors]
        exact Or.comm
      · simp [attachedUnder]
    · have hk' : k ≠ k' := fun h' => hk h'.symm
      refine ⟨o, ?_, ?_, ?_⟩
      · unfold stepSkip
        split
        · rename_i t ht
          obtain ⟨old, _, rfl⟩ := attachFactors_ok ht
          rw [getAttachedFactors_attachInfo_ne _ _ _ _ hk']; exact h
        · exact h
      · intro x; simp [attachedUnder, hk]
      · simp [attachedUnder, hk]

theorem attachedUnder_cons (k : String) (op : Op) (ops : List Op) :
    attachedUnder k (op :: ops) = attachedUnder k [op] ++ attachedUnder k ops := by
  cases op with
  | setTestResult e => rfl
  | attachInfo k' v => rfl
  | attachFactors k' fs =>
    simp only [attachedUnder]
    split <;> rfl

/-- `attach_union`: after any history that does not overwrite the entry `k` through a plain
AttachInfo, the set stored under `k` is the union of the initial set with every factor list
attached under `k`; it is `None` only if it was `None` and nothing was attached. -/
theorem runOps_factors (ver : String) (ti : TestInfo) (ops : List Op) (k : String)
    (o : Option (List Int)) (h : getAttachedFactors ti k = .ok o)
    (hno : ∀ op ∈ ops, overwrites k op = false) :
    ∃ o', getAttachedFactors (runOps ver ti ops) k = .ok o' ∧
      (∀ x, MemO x o' ↔ MemO x o ∨ ∃ fs ∈ attachedUnder k ops, x ∈ fs) ∧
      (o' = none ↔ o = none ∧ attachedUnder k ops = []) := by
  induction ops generalizing ti o with
  | nil =>
    refine ⟨o, h, ?_, ?_⟩
    · intro x; simp [attachedUnder]
    · simp [attachedUnder]
  | cons op ops ih =>
    obtain ⟨o1, h1, hm1, hn1⟩ :=
      stepSkip_factors ver ti op k o h (hno op List.mem_cons_self)
    obtain ⟨o2, h2, hm2, hn2⟩ := ih (stepSkip ver ti op) o1 h1
      (fun op' hop' => hno op' (List.mem_cons_of_mem _ hop'))
    refine ⟨o2, h2, ?_, ?_⟩
    · intro x
      rw [hm2, hm1, attachedUnder_cons k op ops]
      simp only [List.mem_append]
      constructor
      · rintro ((h' | ⟨fs, hfs, hx⟩) | ⟨fs, hfs, hx⟩)
        · exact Or.inl h'
        · exact Or.inr ⟨fs, Or.inl hfs, hx⟩
        · exact Or.inr ⟨fs, Or.inr hfs, hx⟩
      · rintro (h' | ⟨fs, hfs | hfs, hx⟩)
        · exact Or.inl (Or.inl h')
        · exact Or.inl (Or.inr ⟨fs, hfs, hx⟩)
        · exact Or.inr ⟨fs, hfs, hx⟩
    · rw [hn2, hn1, attachedUnder_cons k op ops]
      simp only [List.append_eq_nil_iff]
      constructor
      · rintro ⟨⟨a, b⟩, c⟩; exact ⟨a, b, c⟩
      · rintro ⟨a, b, c⟩; exact ⟨⟨a, b⟩, c⟩

/-! ### GetHighestSeverity -/

theorem highest_foldl (l : List Entry) (h0 : Option Nat) :
    (l.foldl highestStep h0 = none ↔ h0 = none ∧ ∀ e ∈ l, e.result = false) ∧
    (∀ s, l.foldl highestStep h0 = some s →
      (h0 = some s ∨ ∃ e ∈ l, e.result = true ∧ e.severity = s) ∧
      (∀ s0, h0 = some s0 → s0 ≤ s) ∧ (∀ e ∈ l, e.result = true → e.severity ≤ s)) := by
  induction l generalizing h0 with
  | nil =>
    refine ⟨by simp, ?_⟩
    intro s hs
    simp only [List.foldl_nil] at hs
    subst hs
    simp
  | cons x xs ih =>
    simp only [List.foldl_cons]
    obtain ⟨ih1, ih2⟩ := ih (highestStep h0 x)
    constructor
    · rw [ih1]
      unfold highestStep
      cases hr : x.result
      · simp [hr]
      · cases h0 with
        | none => simp [hr]
        | some s0 => simp only [if_true]; split <;> simp [hr]
    · intro s hs
      obtain ⟨a, b, c⟩ := ih2 s hs
      unfold highestStep at a b
      cases hr : x.result
      · simp only [hr, Bool.false_eq_true, if_false] at a b
        refine ⟨?_, b, ?_⟩
        · rcases a with a | ⟨e, he, h1, h2⟩
          · exact Or.inl a
          · exact Or.inr ⟨e, List.mem_cons_of_mem _ he, h1, h2⟩
        · intro e he hre
          rcases List.mem_cons.1 he with rfl | he
          · rw [hr] at hre; cases hre
          · exact c e he hre
      · simp only [hr, if_true] at a b
        cases h0 with
        | none =>
          simp only at a b
          refine ⟨?_, by simp, ?_⟩
          · rcases a with a | ⟨e, he, h1, h2⟩
            · exact Or.inr ⟨x, List.mem_cons_self, hr, by simpa using a⟩
            · exact Or.inr ⟨e, List.mem_cons_of_mem _ he, h1, h2⟩
          · intro e he hre
            rcases List.mem_cons.1 he with rfl | he
            · exact b _ rfl
            · exact c e he hre
        | some s0 =>
          simp only at a b
          by_cases hgt : x.severity > s0
          · simp only [hgt, if_true] at a b
            refine ⟨?_, ?_, ?_⟩
            · rcases a with a | ⟨e, he, h1, h2⟩
              · exact Or.inr ⟨x, List.mem_cons_self, hr, by simpa using a⟩
              · exact Or.inr ⟨e, List.mem_cons_of_mem _ he, h1, h2⟩
            · intro s1 h1; cases h1
              have := b _ rfl; omega
            · intro e he hre
              rcases List.mem_cons.1 he with rfl | he
              · exact b _ rfl
              · exact c e he hre
          · simp only [hgt, if_false] at a b
            refine ⟨?_, ?_, ?_⟩
            · rcases a with a | ⟨e, he, h1, h2⟩
              · exact Or.inl a
              · exact Or.inr ⟨e, List.mem_cons_of_mem _ he, h1, h2⟩
            · intro s1 h1; cases h1; exact b _ rfl
            · intro e he hre
              rcases List.mem_cons.1 he with rfl | he
              · have := b _ rfl; omega
              · exact c e he hre

/-- `GetHighestSeverity` is `None` exactly when no entry is positive, else the maximum
severity among the positive entries. -/
theorem getHighestSeverity_none (ti : TestInfo) :
    getHighestSeverity ti = none ↔ ∀ e ∈ ti.results, e.result = false := by
  have := (highest_foldl ti.results none).1
  simpa [getHighestSeverity] using this

theorem getHighestSeverity_some (ti : TestInfo) (s : Nat) (h : getHighestSeverity ti = some s) :
    (∃ e ∈ ti.results, e.result = true ∧ e.severity = s) ∧
    (∀ e ∈ ti.results, e.result = true → e.severity ≤ s) := by
  obtain ⟨a, _, c⟩ := (highest_foldl ti.results none).2 s h
  rcases a with a | a
  · cases a
  · exact ⟨a, c⟩

end Paranoid
