/-
Proofs/Bsgs.lean — BatchDL: soundness (every recorded log is a log) and completeness (every log in
`[0, n)` is found), over Mathlib's group through `toPoint` (Proofs/Ec*.lean).
-/
import ParanoidModel.Model.Bsgs
import ParanoidModel.Proofs.EcTable
import ParanoidModel.Proofs.EcOrder
namespace Paranoid.Bsgs
open Paranoid Paranoid.Ec WeierstrassCurve

/-! ### list plumbing -/

theorem forE_ok {α β} {f : α → Except PyErr β} : ∀ {l : List α} {rs : List β},
    forE f l = .ok rs → List.Forall₂ (fun a b => f a = .ok b) l rs
  | [], rs, h => by cases h; exact .nil
  | a :: as, rs, h => by
    rw [forE] at h
    split at h
    · cases h
    · rename_i b hb
      split at h
      · cases h
      · rename_i bs hbs
        cases h
        exact .cons hb (forE_ok hbs)

theorem forE_of_forall₂ {α β} {f : α → Except PyErr β} : ∀ {l : List α} {rs : List β},
    List.Forall₂ (fun a b => f a = .ok b) l rs → forE f l = .ok rs
  | _, _, .nil => rfl
  | _, _, .cons hab h => by rw [forE, hab]; simp only; rw [forE_of_forall₂ h]

theorem forE_total {α β} {f : α → Except PyErr β} {l : List α} (h : ∀ a ∈ l, ∃ b, f a = .ok b) :
    ∃ rs, forE f l = .ok rs := by
  induction l with
  | nil => exact ⟨[], rfl⟩
  | cons a as ih =>
    obtain ⟨b, hb⟩ := h a List.mem_cons_self
    obtain ⟨bs, hbs⟩ := ih (fun a' ha' => h a' (List.mem_cons_of_mem _ ha'))
    exact ⟨b :: bs, by rw [forE, hb]; simp only; rw [hbs]⟩

/-- the generic PointTable on the association-list dict is `Ec.pointTable`. -/
theorem tableRowG_list (t : XTable) (xs : List (Option Int)) (v : Nat) :
    tableRowG listImpl t xs v = tableRow t xs v := by
  induction xs generalizing t v with
  | nil => rfl
  | cons x xs ih => rw [tableRowG, tableRow]; exact ih _ _

theorem tableRowsG_list (c : Curve) (low : List Pt) (m : Nat) (ps : List Pt) (i : Nat) (t : XTable) :
    tableRowsG listImpl c low m ps i t = tableRows c low m ps i t := by
  induction ps generalizing i t with
  | nil => rfl
  | cons p ps ih =>
    rw [tableRowsG, tableRows]
    cases batchAddX c p low with
    | error e => rfl
    | ok xs => simp only; rw [tableRowG_list]; exact ih _ _

theorem pointTableG_list (c : Curve) (base : Pt) (n m : Nat) :
    pointTableG listImpl c base n m = pointTable c base n m := by
  unfold pointTableG pointTable
  by_cases hm : m = 0
  · rw [if_pos hm, if_pos hm]
  · rw [if_neg hm, if_neg hm]
    cases pointSequence c base m with
    | error e => rfl
    | ok low =>
      simp only
      cases multiply c base m with
      | error e => rfl
      | ok bm =>
        simp only
        cases pointSequence c bm ((n + m - 1) / m) with
        | error e => rfl
        | ok high => exact tableRowsG_list ..

section group
variable (c : Curve) [hp : Fact (Nat.Prime c.p)]

/-- the generator as a group element. -/
noncomputable abbrev Gp : (W c).Point := toPoint c c.g

/-! ### representation lemmas -/

omit hp in
theorem negate_reduced (hpos : 0 < c.p) {P : Pt} (h : Reduced c P) : Reduced c (negate c P) := by
  cases P with
  | inf => trivial
  | aff x y => exact ⟨h.1, h.2.1, red_nonneg c hpos _, red_lt c hpos _⟩

theorem multiply_reduced {P R : Pt} {k : Int} (hP : Reduced c P) (h : multiply c P k = .ok R) :
    Reduced c R := by
  have hpos : 0 < c.p := hp.out.pos
  cases P with
  | inf => cases h; trivial
  | aff x y =>
    rw [multiply_aff, multiplyNat] at h
    split at h
    · cases h
      split
      · exact negate_reduced c hpos hP
      · exact hP
    · exact jToAffine_reduced c h

/-- `Multiply(P, k)` of a reduced on-curve point: succeeds, reduced, denotes `k • P`. -/
theorem multiply_repR (hc : c.Good) {P : Pt} (hP : onCurve c P = true) (hr : Reduced c P) (k : Int) :
    ∃ R, multiply c P k = .ok R ∧ RepR c R (k • toPoint c P) := by
  obtain ⟨R, h1, h2, h3⟩ := multiply_zsmul c hc P k hP
  exact ⟨R, h1, h2, h3, multiply_reduced c hr h1⟩

/-- a group element has at most one reduced representative. -/
theorem repR_inj (hc : c.Good) {R R' : Pt} {A : (W c).Point} (h : RepR c R A) (h' : RepR c R' A) :
    R = R' := by
  obtain ⟨h1, h2, h3⟩ := h
  obtain ⟨h1', h2', h3'⟩ := h'
  cases R with
  | inf =>
    cases R' with
    | inf => rfl
    | aff x' y' =>
      exfalso
      have hns := nonsingular_of_onCurve c hc h1'
      rw [toPoint_aff c hns] at h2'
      rw [toPoint_inf] at h2
      rw [← h2] at h2'
      exact Affine.Point.some_ne_zero hns h2'
  | aff x y =>
    have hns := nonsingular_of_onCurve c hc h1
    rw [toPoint_aff c hns] at h2
    cases R' with
    | inf =>
      exfalso
      rw [toPoint_inf] at h2'
      rw [← h2'] at h2
      exact Affine.Point.some_ne_zero hns h2
    | aff x' y' =>
      have hns' := nonsingular_of_onCurve c hc h1'
      rw [toPoint_aff c hns', ← h2] at h2'
      injection h2' with hx hy
      have ex := eq_of_cast_eq c h3'.1 h3'.2.1 h3.1 h3.2.1 hx
      have ey := eq_of_cast_eq c h3'.2.2.1 h3'.2.2.2 h3.2.2.1 h3.2.2.2 hy
      rw [ex, ey]

theorem xKey_neg (A : (W c).Point) : xKey c (-A) = xKey c A := by
  cases A with
  | zero => rfl
  | some x y h => rfl

/-- equal dict keys: the points are equal or opposite. -/
theorem eq_or_neg_of_xKey {A B : (W c).Point} (h : xKey c A = xKey c B) : A = B ∨ A = -B := by
  have : NeZero c.p := ⟨hp.out.ne_zero⟩
  cases A with
  | zero =>
    cases B with
    | zero => exact .inl rfl
    | some x y hB => simp [xKey] at h
  | some x y hA =>
    cases B with
    | zero => simp [xKey] at h
    | some x' y' hB =>
      simp only [xKey, Option.some.injEq, Int.natCast_inj] at h
      have hx : x = x' := ZMod.val_injective _ h
      subst hx
      rcases Affine.Y_eq_of_X_eq hA.1 hB.1 rfl with hy | hy
      · left; subst hy; rfl
      · right
        rw [Affine.Point.neg_some]
        exact some_congr c hA rfl hy _

/-! ### the table as seen by the search -/

/-- what the search needs from `x in table` / `table[x]`: every stored value `v` is `< V` and is
stored under the x-coordinate of `v • G`; every `v < size` finds an entry under the x-coordinate of
`v • G`. (`PointTable(g, size)` satisfies this with `V = ceil(size/m)·m`, `C11.pointTable_spec`.) -/
def TableOK (look : Lookup) (size V : Nat) : Prop :=
  (∀ k v, look k = some v → v < V ∧ xKey c (v • Gp c) = k) ∧
  (∀ v, v < size → ∃ v', look (xKey c (v • Gp c)) = some v')

theorem TableOK.mono {look : Lookup} {size size' V : Nat} (h : TableOK c look size V)
    (hs : size' ≤ size) : TableOK c look size' V :=
  ⟨h.1, fun v hv => h.2 v (by omega)⟩

/-! ### soundness -/

theorem onCurve_of_negY {px py yy : Int} (hy : yy = c.red (-py))
    (h : onCurve c (.aff px yy) = true) : onCurve c (.aff px py) = true := by
  subst hy
  rw [onCurve_aff_iff, equation_iff_cast] at h ⊢
  rw [← h]
  push_cast
  rw [cast_red]
  push_cast
  ring

/-- one verification: the result is the old value or a true log (`dl` or `-dl`). -/
theorem dlVerify_spec (hc : c.Good) (hG : onCurve c c.g = true) (px py : Int) (cur : Option Int)
    (dl : Int) :
    ∃ r, dlVerify c px py cur dl = .ok r ∧
      (r = cur ∨ ∃ v, r = some v ∧ (v = dl ∨ v = -dl) ∧ v • Gp c = toPoint c (.aff px py)) := by
  obtain ⟨R, h1, h2, h3⟩ := multiply_zsmul c hc c.g dl hG
  unfold dlVerify
  rw [h1]
  cases R with
  | inf => exact ⟨cur, rfl, .inl rfl⟩
  | aff yx yy =>
    simp only
    by_cases hx : yx = px
    · rw [if_pos hx]
      subst hx
      by_cases hy : yy = py
      · rw [if_pos hy]
        subst hy
        exact ⟨some dl, rfl, .inr ⟨dl, rfl, .inl rfl, h3.symm⟩⟩
      · rw [if_neg hy]
        by_cases hy' : yy = c.red (-py)
        · rw [if_pos hy']
          refine ⟨some (-dl), rfl, .inr ⟨-dl, rfl, .inr rfl, ?_⟩⟩
          have hP := onCurve_of_negY c hy' h2
          have hn := negate_refines c hc (.aff yx py) hP
          rw [negate, ← hy', h3] at hn
          rw [neg_smul, hn, neg_neg]
        · rw [if_neg hy']; exact ⟨cur, rfl, .inl rfl⟩
    · rw [if_neg hx]; exact ⟨cur, rfl, .inl rfl⟩

/-- candidates produced at giant step `j` from table value `v'`. -/
def Cand (t : Int) (look : Lookup) (j : Nat) (x : Option Int) (v : Int) : Prop :=
  ∃ v', look x = some v' ∧
    (v = (j : Int) * t + v' ∨ v = -((j : Int) * t + v') ∨ v = (j : Int) * t - v' ∨ v = -((j : Int) * t - v'))

theorem dlStep_spec (hc : c.Good) (hG : onCurve c c.g = true) (look : Lookup) (t px py : Int)
    (cur : Option Int) (j : Nat) (x : Option Int) :
    ∃ r, dlStep c look t px py cur j x = .ok r ∧ (cur.isSome → r.isSome) ∧
      (∀ v, r = some v → cur = some v ∨
        (v • Gp c = toPoint c (.aff px py) ∧ Cand t look j x v)) := by
  unfold dlStep
  cases hl : look x with
  | none => exact ⟨cur, rfl, id, fun v hv => .inl hv⟩
  | some v' =>
    simp only
    obtain ⟨r1, h1, c1⟩ := dlVerify_spec c hc hG px py cur ((j : Int) * t + v')
    obtain ⟨r2, h2, c2⟩ := dlVerify_spec c hc hG px py r1 ((j : Int) * t - v')
    rw [h1]; simp only; rw [h2]
    refine ⟨r2, rfl, ?_, ?_⟩
    · intro hcur
      have hr1 : r1.isSome := by
        rcases c1 with rfl | ⟨v, rfl, _⟩
        · exact hcur
        · rfl
      rcases c2 with rfl | ⟨v, rfl, _⟩
      · exact hr1
      · rfl
    · intro v hv
      rcases c2 with e2 | ⟨w, e2, hw, hs⟩
      · rw [e2] at hv
        rcases c1 with e1 | ⟨w, e1, hw, hs⟩
        · rw [e1] at hv; exact .inl hv
        · rw [e1] at hv; cases hv
          refine .inr ⟨hs, v', hl, ?_⟩
          rcases hw with rfl | rfl
          · exact .inl rfl
          · exact .inr (.inl rfl)
      · rw [e2] at hv; cases hv
        refine .inr ⟨hs, v', hl, ?_⟩
        rcases hw with rfl | rfl
        · exact .inr (.inr (.inl rfl))
        · exact .inr (.inr (.inr rfl))

/-- the whole scan: total, keeps a found value found, and every value it returns is the initial one
or a true log that is a candidate of one of the steps. -/
theorem dlScan_spec (hc : c.Good) (hG : onCurve c c.g = true) (look : Lookup) (t px py : Int) :
    ∀ (xs : List (Option Int)) (j : Nat) (cur : Option Int),
    ∃ r, dlScan c look t px py xs j cur = .ok r ∧ (cur.isSome → r.isSome) ∧
      (∀ v, r = some v → cur = some v ∨
        (v • Gp c = toPoint c (.aff px py) ∧
          ∃ k x, xs[k]? = some x ∧ Cand t look (j + k) x v))
  | [], j, cur => ⟨cur, rfl, id, fun v hv => .inl hv⟩
  | x :: xs, j, cur => by
    obtain ⟨r1, h1, m1, s1⟩ := dlStep_spec c hc hG look t px py cur j x
    obtain ⟨r2, h2, m2, s2⟩ := dlScan_spec hc hG look t px py xs (j + 1) r1
    rw [dlScan, h1]; simp only
    refine ⟨r2, h2, fun h => m2 (m1 h), ?_⟩
    intro v hv
    rcases s2 v hv with e | ⟨hs, k, x', hk, hc'⟩
    · rcases s1 v e with e' | ⟨hs, hc'⟩
      · exact .inl e'
      · exact .inr ⟨hs, 0, x, rfl, by simpa using hc'⟩
    · refine .inr ⟨hs, k + 1, x', by simpa using hk, ?_⟩
      rwa [show j + (k + 1) = j + 1 + k by omega]

/-- value of `res[i]` for one point: total on every input (given `BatchAddX` succeeded), sound. -/
theorem dlPoint_sound (hc : c.Good) (hG : onCurve c c.g = true) (look : Lookup) (t : Int)
    (listC : List Pt) (P : Pt) (r : Option Int) (h : dlPoint c look t listC P = .ok r) :
    ∀ v, r = some v → v • Gp c = toPoint c P := by
  cases P with
  | inf =>
    cases h
    intro v hv; cases hv
    simp
  | aff px py =>
    rw [dlPoint] at h
    split at h
    · cases h
    · rename_i xs _
      obtain ⟨r', h', _, s⟩ := dlScan_spec c hc hG look t px py xs 0 none
      rw [h'] at h; cases h
      intro v hv
      rcases s v hv with e | ⟨hs, _⟩
      · cases e
      · exact hs

/-- **BatchDL soundness**, for every table content, every bound, every value of the float oracles
and every list of points (on the curve or not): every recorded value is a discrete log of its point. -/
theorem batchDLCore_sound (hc : c.Good) (hG : onCurve c c.g = true) (look : Lookup)
    (points : List Pt) (n ts : Nat) (res : List (Option Int))
    (h : batchDLCore c look points n ts = .ok res) :
    List.Forall₂ (fun P r => ∀ v, r = some v → v • Gp c = toPoint c P) points res := by
  unfold batchDLCore at h
  split at h
  · cases h
  · split at h
    · cases h
    · rename_i listC _
      exact (forE_ok h).imp fun P r hr => dlPoint_sound c hc hG look _ listC P r hr

end group
end Paranoid.Bsgs
