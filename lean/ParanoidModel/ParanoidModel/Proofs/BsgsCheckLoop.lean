/-
Proofs/BsgsCheckLoop.lean — CheckWeakECPrivateKey and CheckECKeySmallDifference at check level:
the loop over `CURVE_FACTORY.items()`, one discrete-log search per curve that has keys, verdicts
written back to the batch positions.
-/
import ParanoidModel.Proofs.BsgsGroup
import ParanoidModel.Proofs.BsgsChecks
namespace Paranoid.Bsgs
open Paranoid Paranoid.Ec WeierstrassCurve

/-- what is assumed of a curve object of the factory: field prime, the evaluated parameter check
(C11 `*_params` for the nine named curves), invertible ExtendedBatchDL multipliers
(C10 `named_multipliers_invertible`). -/
structure CurveHyp (c : Curve) : Prop where
  prime : Nat.Prime c.p
  params : c.paramsOK = true
  mults : multipliersOKb c = true

/-- private key `d` is the 32-bit value `i` shifted by a multiple of 8 bits, or repeated `r ≥ 2`
times. -/
def StructuredKey (c : Curve) (d i : Nat) : Prop :=
  (∃ j, 8 * j + 32 ≤ bitLength c.n ∧ d = i * 2 ^ (8 * j)) ∨
  (∃ r, 2 ≤ r ∧ r ≤ bitLength c.n / 32 ∧ d = i * ((2 ^ (32 * r) - 1) / (2 ^ 32 - 1)))

/-- outcome of CheckWeakECPrivateKey for a key `k` of curve `c`: result and attached
`DISCRETE_LOG` go together; for a valid point the attached value is a log; structured private keys
are flagged with a value congruent to the key. -/
def WeakKeyOK (c : Curve) (hp : Nat.Prime c.p) (k : ECKey) (kv : KV) : Prop :=
  haveI : Fact (Nat.Prime c.p) := ⟨hp⟩
  (kv = ⟨false, none⟩ ∨ ∃ v, kv = ⟨true, some (.dlog v)⟩) ∧
  (∀ v, kv.info = some (.dlog v) → c.n • toPoint c k.pt = 0 → v • Gp c = toPoint c k.pt) ∧
  (∀ d i : Nat, Reduced c k.pt → toPoint c k.pt = d • Gp c → i < 2 ^ 32 → StructuredKey c d i →
    ∃ v : Int, kv = ⟨true, some (.dlog v)⟩ ∧ v • Gp c = toPoint c k.pt ∧
      (Nat.Prime c.n → (v - d) % (c.n : Int) = 0))

theorem tableIs_after_ext (c : Curve) {st st' : EcState} (h : TableIs c st) {points : List Pt}
    {ts m : Nat} {dls : List (Option Int)}
    (he : extendedBatchDL c st points ts m = .ok (dls, st')) : TableIs c st' := by
  have : runOps c st [Op.ext points ts m] = .ok st' := by
    simp only [runOps, runOp, he, Except.map]
  exact (runOps_tableIs c _ h this).1

theorem tableIs_after_diff (c : Curve) {st st' : EcState} (h : TableIs c st) {points other : List Pt}
    {md m : Nat} {rels : List (Option Rel)}
    (he : batchDLOfDifferences c st points other md m = .ok (rels, st')) :
    TableIs c st' ∧ st.tableSize ≤ st'.tableSize := by
  have : runOps c st [Op.diff points other md m] = .ok st' := by
    simp only [runOps, runOp, he, Except.map]
  exact runOps_tableIs c _ h this

/-- one curve's batch. -/
theorem weakGroup_spec (c : Curve) (hc : CurveHyp c) (st : EcState) (hst : TableIs c st)
    (points : List Pt) (hpts : ∀ P ∈ points, onCurve c P = true) (ts m : Nat) (hts : 1 ≤ ts)
    (hm : 1 ≤ m) :
    haveI : Fact (Nat.Prime c.p) := ⟨hc.prime⟩
    ∃ dls st', extendedBatchDLG listImpl c st points ts m = .ok (dls, st') ∧ TableIs c st' ∧
      dls.length = points.length ∧
      ∀ (r : Nat) (P : Pt), points[r]? = some P → ∃ x, dls[r]? = some x ∧
        (∀ v, x = some v → c.n • toPoint c P = 0 → v • Gp c = toPoint c P) ∧
        (∀ d i : Nat, Reduced c P → toPoint c P = d • Gp c → i < 2 ^ 32 → StructuredKey c d i →
          ∃ v : Int, x = some v ∧ v • Gp c = toPoint c P ∧
            (Nat.Prime c.n → (v - d) % (c.n : Int) = 0)) := by
  haveI : Fact (Nat.Prime c.p) := ⟨hc.prime⟩
  obtain ⟨h1, h2, _, h4, _, h6⟩ := generator_of_paramsOK c hc.params
  obtain ⟨h7, h8⟩ := reduced_of_paramsOK c hc.params
  obtain ⟨V, hV⟩ := stateOK_of_tableIs c h1 h2 hst
  obtain ⟨res, st', e1, _, _, e4, e5⟩ := extendedBatchDLB_complete c h1 h2 h7 h8 h4
    (multipliersOK_of_b hc.mults) (2 ^ 32) st V hV points hpts ts m hts (fun _ => hm)
  refine ⟨res, st', e1, tableIs_after_ext c hst e1, e4, ?_⟩
  intro r P hP
  have hr : r < res.length := by
    rw [e4]; by_contra hge; rw [List.getElem?_eq_none (by omega)] at hP; cases hP
  refine ⟨res[r], List.getElem?_eq_getElem hr, ?_, ?_⟩
  · intro v hv hN
    exact extendedBatchDLB_sound c h1 h2 h8 (2 ^ 32) st points ts m res st' e1 r P v hP
      (hpts P (List.mem_of_getElem? hP)) hN (by rw [List.getElem?_eq_getElem hr, hv])
  · intro d i hPr hPd hi hform
    obtain ⟨mu, hmem, hd⟩ : ∃ mu, mu ∈ extMultipliers c ∧ d = i * mu := by
      rcases hform with ⟨j, hj, hd⟩ | ⟨r', hr2, hr', hd⟩
      · exact ⟨_, pow_mem_extMultipliers c j hj, hd⟩
      · exact ⟨_, repUnit_mem_extMultipliers c r' hr2 hr', by rw [repUnit_eq]; exact hd⟩
    obtain ⟨v, hv1, hv2⟩ := e5 r P d i mu hP hPr hPd hmem hd hi
    rw [List.getElem?_eq_getElem hr] at hv1
    refine ⟨v, by simpa using hv1, hv2, fun hn => ?_⟩
    have h0 : (v - d) • Gp c = 0 := by rw [sub_zsmul, hv2, hPd, natCast_zsmul]; simp
    have := addOrderOf_dvd_iff_zsmul_eq_zero.mpr h0
    rw [h6 hn] at this
    exact Int.emod_eq_zero_of_dvd this

/-- hypotheses of one CheckWeakECPrivateKey call, entry by entry of the factory: every curve object
satisfies `CurveHyp`, its `_table` state is one reachable by earlier calls, the keys of its batch
are on the curve, and (when it has keys) the float oracles are `≥ 1`. -/
def WKHyp (keys : List ECKey) : Factory → List EcState → List (Nat × Nat) → Prop
  | e :: es, st :: sts, o :: os =>
    (∀ c, e.curve = some c → CurveHyp c ∧ TableIs c st ∧
      (∀ P ∈ groupPoints e.id keys, onCurve c P = true) ∧
      (groupPoints e.id keys ≠ [] → 1 ≤ o.1 ∧ 1 ≤ o.2)) ∧ WKHyp keys es sts os
  | [], [], [] => True
  | _, _, _ => False

/-- every state after the call is again reachable. -/
def StatesOK : Factory → List EcState → Prop
  | e :: es, st :: sts => (∀ c, e.curve = some c → TableIs c st) ∧ StatesOK es sts
  | [], [] => True
  | _, _ => False

theorem consState_ok {st : EcState} {r : Except PyErr (List KeyVerdict × List EcState)}
    {res : List KeyVerdict} {sts : List EcState} (h : r = .ok (res, sts)) :
    consState st r = .ok (res, st :: sts) := by subst h; rfl

theorem dlogVerdict_cases (x : Option Int) :
    (dlogVerdict x = ⟨false, none⟩ ∧ x = none) ∨ ∃ v, dlogVerdict x = ⟨true, some (.dlog v)⟩ ∧ x = some v := by
  cases x with
  | none => exact .inl ⟨rfl, rfl⟩
  | some v => exact .inr ⟨v, rfl, rfl⟩

theorem weakKeyLoop_spec (keys : List ECKey) : ∀ (f : Factory) (sts : List EcState)
    (os : List (Nat × Nat)) (res : List KeyVerdict), (f.map (·.id)).Nodup → WKHyp keys f sts os →
    res.length = keys.length →
    ∃ res' sts', weakKeyLoop listImpl keys f sts os res = .ok (res', sts') ∧
      res'.length = keys.length ∧ StatesOK f sts' ∧
      (∀ (p : Nat) (k : ECKey), keys[p]? = some k →
        (∀ e ∈ f, e.id = k.curveType → e.curve = none) → res'[p]? = res[p]?) ∧
      (∀ (p : Nat) (k : ECKey) (e : FEntry) (c : Curve), keys[p]? = some k → e ∈ f →
        e.id = k.curveType → e.curve = some c →
        ∃ kv hp, res'[p]? = some (some kv) ∧ WeakKeyOK c hp k kv) := by
  intro f
  induction f with
  | nil =>
    intro sts os res _ hh hl
    cases sts <;> cases os <;> simp only [WKHyp] at hh
    exact ⟨res, [], rfl, hl, trivial, fun _ _ _ _ => rfl, fun _ _ e _ _ he => by simp at he⟩
  | cons e es ih =>
    intro sts os res hnd hh hl
    cases sts with
    | nil => simp only [WKHyp] at hh
    | cons st sts =>
    cases os with
    | nil => simp only [WKHyp] at hh
    | cons o os =>
    obtain ⟨he, hrest⟩ := hh
    rw [List.map_cons, List.nodup_cons] at hnd
    obtain ⟨hnotin, hnd'⟩ := hnd
    have hother : ∀ e' ∈ es, e'.id ≠ e.id := fun e' he' h =>
      hnotin (List.mem_map.mpr ⟨e', he', h⟩)
    -- the entry is skipped: `None` curve or no keys
    have skip : (∀ (p : Nat) (k : ECKey), keys[p]? = some k → k.curveType = e.id → e.curve = none) →
        ∃ res' sts', consState st (weakKeyLoop listImpl keys es sts os res) = .ok (res', sts') ∧
        res'.length = keys.length ∧ StatesOK (e :: es) sts' ∧
        (∀ (p : Nat) (k : ECKey), keys[p]? = some k →
          (∀ e' ∈ e :: es, e'.id = k.curveType → e'.curve = none) → res'[p]? = res[p]?) ∧
        (∀ (p : Nat) (k : ECKey) (e' : FEntry) (c : Curve), keys[p]? = some k → e' ∈ e :: es →
          e'.id = k.curveType → e'.curve = some c →
          ∃ kv hp, res'[p]? = some (some kv) ∧ WeakKeyOK c hp k kv) := by
      intro hnone
      obtain ⟨res', sts', h1, h2, h3, h4, h5⟩ := ih sts os res hnd' hrest hl
      refine ⟨res', st :: sts', consState_ok h1, h2, ⟨fun c hc => (he c hc).2.1, h3⟩, ?_, ?_⟩
      · intro p k hk hall
        exact h4 p k hk (fun e' he' => hall e' (List.mem_cons_of_mem _ he'))
      · intro p k e' c hk he' hid hcur
        rcases List.mem_cons.mp he' with rfl | he'
        · have := hnone p k hk hid.symm
          rw [this] at hcur; cases hcur
        · exact h5 p k e' c hk he' hid hcur
    rw [weakKeyLoop]
    cases hcur : e.curve with
    | none => exact skip (fun _ _ _ _ => hcur)
    | some c =>
      simp only
      by_cases hg : (groupPoints e.id keys).isEmpty = true
      · rw [if_pos hg]
        refine skip (fun p k hk hid => ?_)
        exfalso
        obtain ⟨r, _, hr⟩ := group_rank e.id keys p k hk hid
        rw [List.isEmpty_iff] at hg
        rw [hg] at hr; simp at hr
      · rw [if_neg hg]
        obtain ⟨hch, hst, hon, horc⟩ := he c hcur
        have hne : groupPoints e.id keys ≠ [] := by
          intro h; apply hg; rw [h]; rfl
        obtain ⟨ho1, ho2⟩ := horc hne
        obtain ⟨dls, st', e1, e2, e3, e4⟩ := weakGroup_spec c hch st hst (groupPoints e.id keys) hon
          o.1 o.2 ho1 ho2
        rw [e1]
        simp only
        have hpar := group_parallel e.id keys
        have hsc := scatter_spec (keyIdxs e.id keys 0) (dls.map dlogVerdict) res
          (keyIdxs_nodup e.id keys) (by rw [List.length_map, e3, hpar.length_eq])
          (fun i hi => by rw [hl]; exact keyIdxs_lt e.id keys i hi)
        obtain ⟨s1, s2, s3⟩ := hsc
        obtain ⟨res', sts', h1, h2, h3, h4, h5⟩ := ih sts os
          (scatter res (keyIdxs e.id keys 0) (dls.map dlogVerdict)) hnd' hrest (by rw [s1, hl])
        refine ⟨res', st' :: sts', consState_ok h1, h2, ⟨fun c' hc' => (by
          rw [hcur] at hc'; cases hc'; exact e2), h3⟩, ?_, ?_⟩
        · intro p k hk hall
          have hnot : p ∉ keyIdxs e.id keys 0 := by
            intro hp
            have := mem_keyIdxs_type e.id keys p k hp hk
            have := hall e List.mem_cons_self this.symm
            rw [hcur] at this; cases this
          rw [h4 p k hk (fun e' he' => hall e' (List.mem_cons_of_mem _ he')), s3 p hnot]
        · intro p k e' c' hk he' hid hcur'
          rcases List.mem_cons.mp he' with rfl | he'
          · rw [hcur] at hcur'; cases hcur'
            obtain ⟨r, hr1, hr2⟩ := group_rank e'.id keys p k hk hid.symm
            obtain ⟨x, hx, hs, hcpl⟩ := e4 r k.pt hr2
            have hres1 : (scatter res (keyIdxs e'.id keys 0) (dls.map dlogVerdict))[p]? =
                some (some (dlogVerdict x)) :=
              s2 r p (dlogVerdict x) hr1 (by rw [List.getElem?_map, hx]; rfl)
            have hkeep := h4 p k hk (fun e'' he'' hid'' => absurd (hid''.trans hid.symm) (hother e'' he''))
            refine ⟨dlogVerdict x, hch.prime, by rw [hkeep, hres1], ?_, ?_, ?_⟩
            · rcases dlogVerdict_cases x with ⟨h, _⟩ | ⟨v, h, _⟩
              · exact .inl h
              · exact .inr ⟨v, h⟩
            · intro v hv hN
              rcases dlogVerdict_cases x with ⟨h, _⟩ | ⟨v', h, hx'⟩
              · rw [h] at hv; cases hv
              · rw [h] at hv; cases hv
                exact hs v hx' hN
            · intro d i hPr hPd hi hform
              obtain ⟨v, hv1, hv2, hv3⟩ := hcpl d i hPr hPd hi hform
              exact ⟨v, by rw [hv1]; rfl, hv2, hv3⟩
          · exact h5 p k e' c' hk he' hid hcur'

/-! ### CheckECKeySmallDifference -/

/-- outcome of CheckECKeySmallDifference for the key at batch position `p` (curve `c`, cached table
size `size` before the call): result and attached `DISCRETE_LOG_DIFF` go together; an attached
relation names another key of the batch on the same curve, different from this one, and holds;
if some other key of the batch on the same curve differs by a non-zero amount below
`max(size, max_diff)` the key is flagged. -/
def SmallDiffOK (c : Curve) (hp : Nat.Prime c.p) (keys : List ECKey) (bound : Nat) (p : Nat)
    (k : ECKey) (kv : KV) : Prop :=
  haveI : Fact (Nat.Prime c.p) := ⟨hp⟩
  (kv = ⟨false, none⟩ ∨ ∃ r, kv = ⟨true, some (.diff r)⟩) ∧
  (∀ r, kv.info = some (.diff r) → ∃ (p' : Nat) (k' : ECKey), p' ≠ p ∧ keys[p']? = some k' ∧
    k'.curveType = k.curveType ∧ onCurve c (.aff r.qx r.qy) = true ∧
    toPoint c (.aff r.qx r.qy) = toPoint c k'.pt ∧
    toPoint c k.pt - toPoint c k'.pt = r.dl • Gp c ∧ toPoint c k.pt ≠ toPoint c k'.pt) ∧
  (∀ (p' : Nat) (k' : ECKey), p' ≠ p → keys[p']? = some k' → k'.curveType = k.curveType →
    toPoint c k.pt ≠ toPoint c k'.pt →
    (∃ kk : Int, toPoint c k.pt - toPoint c k'.pt = kk • Gp c ∧ kk.natAbs < bound) →
    kv.result = true)

def SDHyp (keys : List ECKey) (maxDiff : Nat) : Factory → List EcState → List Nat → Prop
  | e :: es, st :: sts, m :: ms =>
    (∀ c, e.curve = some c → CurveHyp c ∧ TableIs c st ∧
      (∀ P ∈ groupPoints e.id keys, onCurve c P = true ∧ Reduced c P) ∧
      (st.tableSize < maxDiff → 1 ≤ m)) ∧ SDHyp keys maxDiff es sts ms
  | [], [], [] => True
  | _, _, _ => False

/-- table size of the curve object of entry `e` before the call. -/
def sizeOf : Factory → List EcState → FEntry → Nat
  | e' :: es, st :: sts, e => if e'.id = e.id then st.tableSize else sizeOf es sts e
  | _, _, _ => 0

theorem diffVerdict_cases (x : Option Rel) :
    (diffVerdict x = ⟨false, none⟩ ∧ x = none) ∨ ∃ r, diffVerdict x = ⟨true, some (.diff r)⟩ ∧ x = some r := by
  cases x with
  | none => exact .inl ⟨rfl, rfl⟩
  | some v => exact .inr ⟨v, rfl, rfl⟩

theorem sorted_getElem?_lt {l : List Nat} (h : l.Pairwise (· < ·)) {i j a b : Nat}
    (hi : l[i]? = some a) (hj : l[j]? = some b) (hij : i < j) : a < b := by
  have hj' : j < l.length := by
    by_contra hge; rw [List.getElem?_eq_none (by omega)] at hj; cases hj
  rw [List.getElem?_eq_getElem (by omega)] at hi
  rw [List.getElem?_eq_getElem hj'] at hj
  cases hi; cases hj
  exact List.pairwise_iff_getElem.mp h i j (by omega) hj' hij

theorem keyIdxs_inj (id : Nat) (keys : List ECKey) {i j a : Nat}
    (hi : (keyIdxs id keys 0)[i]? = some a) (hj : (keyIdxs id keys 0)[j]? = some a) : i = j := by
  have hs := (keyIdxs_sorted id keys 0).1
  rcases Nat.lt_trichotomy i j with h | h | h
  · exact absurd (sorted_getElem?_lt hs hi hj h) (Nat.lt_irrefl _)
  · exact h
  · exact absurd (sorted_getElem?_lt hs hj hi h) (Nat.lt_irrefl _)

/-- one curve's batch of CheckECKeySmallDifference. -/
theorem smallDiffGroup_spec (c : Curve) (hc : CurveHyp c) (st : EcState) (hst : TableIs c st)
    (id : Nat) (keys : List ECKey)
    (hpts : ∀ P ∈ groupPoints id keys, onCurve c P = true ∧ Reduced c P) (maxDiff m : Nat)
    (hm : st.tableSize < maxDiff → 1 ≤ m) :
    ∃ rels st', batchDLOfDifferencesG listImpl c st (groupPoints id keys) [] maxDiff m = .ok (rels, st') ∧
      TableIs c st' ∧ rels.length = (groupPoints id keys).length ∧
      ∀ (p : Nat) (k : ECKey) (r : Nat), keys[p]? = some k → k.curveType = id →
        (keyIdxs id keys 0)[r]? = some p →
        ∃ x, rels[r]? = some x ∧
          SmallDiffOK c hc.prime keys (max st.tableSize maxDiff) p k (diffVerdict x) := by
  haveI : Fact (Nat.Prime c.p) := ⟨hc.prime⟩
  obtain ⟨h1, h2, _, _, _, _⟩ := generator_of_paramsOK c hc.params
  obtain ⟨h7, _⟩ := reduced_of_paramsOK c hc.params
  obtain ⟨V, hV⟩ := stateOK_of_tableIs c h1 h2 hst
  have hpar := group_parallel id keys
  have hgood : ∀ Q ∈ ([] : List Pt) ++ groupPoints id keys, GoodPt c Q := by
    intro Q hQ
    rw [List.nil_append] at hQ
    obtain ⟨r, hr⟩ := List.getElem?_of_mem hQ
    obtain ⟨idx, _, k, _, _, rfl⟩ := forall₂_idx hpar.flip r Q hr
    exact ⟨(hpts _ hQ).1, (hpts _ hQ).2, trivial⟩
  obtain ⟨rels, st', e1, e2, _, _, e5⟩ := batchDLOfDifferences_complete c h1 h2 h7 st V hV
    (groupPoints id keys) [] hgood maxDiff m hm
  have hsound := batchDLOfDifferences_sound c h1 h2 st (groupPoints id keys) []
    (fun Q hQ => (hgood Q hQ).1) maxDiff m rels st' e1
  refine ⟨rels, st', e1, (tableIs_after_diff c hst e1).1, e2, ?_⟩
  intro p k r hk hid hr
  have hrlt : r < rels.length := by
    rw [e2, ← hpar.length_eq]
    by_contra hge; rw [List.getElem?_eq_none (by omega)] at hr; cases hr
  obtain ⟨P, hP, k0, hk0, _, hPk⟩ := forall₂_idx hpar r p hr
  rw [hk] at hk0; cases hk0
  subst hPk
  refine ⟨rels[r], List.getElem?_eq_getElem hrlt, ?_, ?_, ?_⟩
  · rcases diffVerdict_cases rels[r] with ⟨h, _⟩ | ⟨v, h, _⟩
    · exact .inl h
    · exact .inr ⟨v, h⟩
  · intro rel hrel
    rcases diffVerdict_cases rels[r] with ⟨h, _⟩ | ⟨v, h, hx⟩
    · rw [h] at hrel; cases hrel
    · rw [h] at hrel; cases hrel
      obtain ⟨P', j, Q, hP', hQ, hj, a1, a2, a3, a4⟩ := hsound r rel
        (by rw [List.getElem?_eq_getElem hrlt, hx])
      rw [hP] at hP'; cases hP'
      rw [List.nil_append] at hQ
      simp only [List.length_nil, Nat.zero_add] at hj
      obtain ⟨p', hp', k', hk', hid', hQk⟩ := forall₂_idx hpar.flip j Q hQ
      subst hQk
      refine ⟨p', k', ?_, hk', hid'.trans hid.symm, a1, a2, a3, a4⟩
      intro hpp
      subst hpp
      exact hj (keyIdxs_inj id keys hp' hr)
  · intro p' k' hpp hk' hid' hne hclose
    obtain ⟨j, hj1, hj2⟩ := group_rank id keys p' k' hk' (hid'.trans hid)
    have hjr : j ≠ r := by
      intro h; subst h
      rw [hr] at hj1; cases hj1; exact hpp rfl
    obtain ⟨rel, hrel⟩ := e5 r j k.pt k'.pt hP (by rw [List.nil_append]; exact hj2)
      (by simpa using hjr) ⟨hne, hclose⟩
    rw [List.getElem?_eq_getElem hrlt] at hrel
    have hx : rels[r] = some rel := by simpa using hrel
    rw [hx]; rfl

theorem smallDiffLoop_spec (keys : List ECKey) (maxDiff : Nat) : ∀ (f : Factory) (sts : List EcState)
    (ms : List Nat) (res : List KeyVerdict), (f.map (·.id)).Nodup → SDHyp keys maxDiff f sts ms →
    res.length = keys.length →
    ∃ res' sts', smallDiffLoop listImpl keys maxDiff f sts ms res = .ok (res', sts') ∧
      res'.length = keys.length ∧ StatesOK f sts' ∧
      (∀ (p : Nat) (k : ECKey), keys[p]? = some k →
        (∀ e ∈ f, e.id = k.curveType → e.curve = none) → res'[p]? = res[p]?) ∧
      (∀ (p : Nat) (k : ECKey) (e : FEntry) (c : Curve), keys[p]? = some k → e ∈ f →
        e.id = k.curveType → e.curve = some c →
        ∃ kv hp, res'[p]? = some (some kv) ∧
          SmallDiffOK c hp keys (max (sizeOf f sts e) maxDiff) p k kv) := by
  intro f
  induction f with
  | nil =>
    intro sts ms res _ hh hl
    cases sts <;> cases ms <;> simp only [SDHyp] at hh
    exact ⟨res, [], rfl, hl, trivial, fun _ _ _ _ => rfl, fun _ _ e _ _ he => by simp at he⟩
  | cons e es ih =>
    intro sts ms res hnd hh hl
    cases sts with
    | nil => simp only [SDHyp] at hh
    | cons st sts =>
    cases ms with
    | nil => simp only [SDHyp] at hh
    | cons m ms =>
    obtain ⟨he, hrest⟩ := hh
    rw [List.map_cons, List.nodup_cons] at hnd
    obtain ⟨hnotin, hnd'⟩ := hnd
    have hother : ∀ e' ∈ es, e'.id ≠ e.id := fun e' he' h =>
      hnotin (List.mem_map.mpr ⟨e', he', h⟩)
    have hsize : ∀ e' ∈ es, sizeOf (e :: es) (st :: sts) e' = sizeOf es sts e' := by
      intro e' he'
      rw [sizeOf, if_neg (fun h => hother e' he' h.symm)]
    rw [smallDiffLoop]
    cases hcur : e.curve with
    | none =>
      simp only
      obtain ⟨res', sts', h1, h2, h3, h4, h5⟩ := ih sts ms res hnd' hrest hl
      refine ⟨res', st :: sts', consState_ok h1, h2, ⟨fun c hc => (by rw [hcur] at hc; cases hc), h3⟩, ?_, ?_⟩
      · intro p k hk hall
        exact h4 p k hk (fun e' he' => hall e' (List.mem_cons_of_mem _ he'))
      · intro p k e' c hk he' hid hcur'
        rcases List.mem_cons.mp he' with rfl | he'
        · rw [hcur] at hcur'; cases hcur'
        · rw [hsize e' he']; exact h5 p k e' c hk he' hid hcur'
    | some c =>
      simp only
      obtain ⟨hch, hst, hon, horc⟩ := he c hcur
      obtain ⟨rels, st', e1, e2, e3, e4⟩ := smallDiffGroup_spec c hch st hst e.id keys hon maxDiff m horc
      rw [e1]
      simp only
      have hpar := group_parallel e.id keys
      obtain ⟨s1, s2, s3⟩ := scatter_spec (keyIdxs e.id keys 0) (rels.map diffVerdict) res
        (keyIdxs_nodup e.id keys) (by rw [List.length_map, e3, hpar.length_eq])
        (fun i hi => by rw [hl]; exact keyIdxs_lt e.id keys i hi)
      obtain ⟨res', sts', h1, h2, h3, h4, h5⟩ := ih sts ms
        (scatter res (keyIdxs e.id keys 0) (rels.map diffVerdict)) hnd' hrest (by rw [s1, hl])
      refine ⟨res', st' :: sts', consState_ok h1, h2, ⟨fun c' hc' => (by
        rw [hcur] at hc'; cases hc'; exact e2), h3⟩, ?_, ?_⟩
      · intro p k hk hall
        have hnot : p ∉ keyIdxs e.id keys 0 := by
          intro hp
          have := mem_keyIdxs_type e.id keys p k hp hk
          have := hall e List.mem_cons_self this.symm
          rw [hcur] at this; cases this
        rw [h4 p k hk (fun e' he' => hall e' (List.mem_cons_of_mem _ he')), s3 p hnot]
      · intro p k e' c' hk he' hid hcur'
        rcases List.mem_cons.mp he' with rfl | he'
        · rw [hcur] at hcur'; cases hcur'
          obtain ⟨r, hr1, _⟩ := group_rank e'.id keys p k hk hid.symm
          obtain ⟨x, hx, hok⟩ := e4 p k r hk hid.symm hr1
          have hres1 : (scatter res (keyIdxs e'.id keys 0) (rels.map diffVerdict))[p]? =
              some (some (diffVerdict x)) :=
            s2 r p (diffVerdict x) hr1 (by rw [List.getElem?_map, hx]; rfl)
          have hkeep := h4 p k hk (fun e'' he'' hid'' => absurd (hid''.trans hid.symm) (hother e'' he''))
          refine ⟨diffVerdict x, hch.prime, by rw [hkeep, hres1], ?_⟩
          rw [sizeOf, if_pos rfl]
          exact hok
        · rw [hsize e' he']; exact h5 p k e' c' hk he' hid hcur'

end Paranoid.Bsgs

namespace Paranoid.Bsgs
open Paranoid Paranoid.Ec

/-! ### `CURVE_FACTORY.get` against the entries (dict keys are unique) -/

theorem factoryGet_none_iff {f : Factory} (hnd : (f.map (·.id)).Nodup) (id : Nat) :
    factoryGet f id = none ↔ ∀ e ∈ f, e.id = id → e.curve = none := by
  induction f with
  | nil => simp [factoryGet]
  | cons e es ih =>
    rw [List.map_cons, List.nodup_cons] at hnd
    rw [factoryGet]
    by_cases h : e.id = id
    · rw [if_pos h]
      constructor
      · intro hc e' he' hid
        rcases List.mem_cons.mp he' with rfl | he'
        · exact hc
        · exact absurd (List.mem_map.mpr ⟨e', he', hid.trans h.symm⟩) hnd.1
      · intro hall; exact hall e List.mem_cons_self h
    · rw [if_neg h, ih hnd.2]
      constructor
      · intro hall e' he' hid
        rcases List.mem_cons.mp he' with rfl | he'
        · exact absurd hid h
        · exact hall e' he' hid
      · intro hall e' he' hid; exact hall e' (List.mem_cons_of_mem _ he') hid

/-- the regenerated factory: unique ids, and every curve satisfies `CurveHyp` once its field
modulus is prime (a premise here; it is the theorem `EcAll.fieldPrimes`, Proofs/EcAllPrimes.lean,
from the Pratt certificates of Props/C11Primes — see `C10.curve_factory_hyp_certified`). -/
theorem regenFactory_nodup : (regenFactory.map (·.id)).Nodup := by
  rw [regenFactory_eq]; decide +kernel

theorem regenFactory_curveHyp
    (hprime : ∀ e ∈ regenFactory, ∀ c, e.curve = some c → Nat.Prime c.p) :
    ∀ e ∈ regenFactory, ∀ c, e.curve = some c → CurveHyp c := by
  intro e he c hc
  have hp := hprime e he c hc
  rw [regenFactory_eq] at he
  simp only [List.mem_cons, List.not_mem_nil, or_false] at he
  rcases he with rfl | rfl | rfl | rfl | rfl | rfl | rfl | rfl | rfl | rfl | rfl | rfl | rfl | rfl |
    rfl | rfl | rfl | rfl | rfl <;> cases hc
  · exact ⟨hp, secp256r1_paramsOK, secp256r1_multipliersOK⟩
  · exact ⟨hp, secp384r1_paramsOK, secp384r1_multipliersOK⟩
  · exact ⟨hp, secp192r1_paramsOK, secp192r1_multipliersOK⟩
  · exact ⟨hp, secp224r1_paramsOK, secp224r1_multipliersOK⟩
  · exact ⟨hp, secp521r1_paramsOK, secp521r1_multipliersOK⟩
  · exact ⟨hp, secp256k1_paramsOK, secp256k1_multipliersOK⟩
  · exact ⟨hp, brainpoolP256r1_paramsOK, brainpoolP256r1_multipliersOK⟩
  · exact ⟨hp, brainpoolP384r1_paramsOK, brainpoolP384r1_multipliersOK⟩
  · exact ⟨hp, brainpoolP512r1_paramsOK, brainpoolP512r1_multipliersOK⟩

end Paranoid.Bsgs
