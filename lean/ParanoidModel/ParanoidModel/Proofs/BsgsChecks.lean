/-
Proofs/BsgsChecks.lean — the EC validity / weak-curve checks (closed-form criteria, EC half of C06),
the factory regenerated from `ec_util.CURVE_FACTORY`, and the check-level discrete-log searches.
-/
import ParanoidModel.Proofs.BsgsCurves
namespace Paranoid.Bsgs
open Paranoid Paranoid.Ec WeierstrassCurve

/-! ### the regenerated factory -/

/-- `CURVE_FACTORY.items()` as regenerated from /repo (dict order, `None` entries included). -/
def regenFactory : Factory :=
  Consts.ecCurveFactory.map fun e => ⟨e.1, e.2.map Curve.ofTuple⟩

/-- its non-`None` entries are the nine named curves of Proofs/EcCurves.lean under these ids, the
`None` entries are the ten binary-field `CurveType`s. -/
theorem regenFactory_eq : regenFactory =
    [⟨2, some secp256r1⟩, ⟨4, some secp384r1⟩, ⟨1, some secp192r1⟩, ⟨3, some secp224r1⟩,
     ⟨5, some secp521r1⟩, ⟨6, some secp256k1⟩,
     ⟨17, some brainpoolP256r1⟩, ⟨18, some brainpoolP384r1⟩, ⟨19, some brainpoolP512r1⟩,
     ⟨7, none⟩, ⟨8, none⟩, ⟨9, none⟩, ⟨10, none⟩,
     ⟨11, none⟩, ⟨12, none⟩, ⟨13, none⟩, ⟨14, none⟩, ⟨15, none⟩, ⟨16, none⟩] := by
  decide +kernel

/-! ### IsValidPublicKey in closed form -/

/-- `0 ≤ x, y < p` and `y² ≡ x³ + a·x + b (mod p)`. -/
def InRangeOnCurve (c : Curve) (x y : Int) : Prop :=
  0 ≤ x ∧ x < c.p ∧ 0 ≤ y ∧ y < c.p ∧ (y * y) % (c.p : Int) = (x * x * x + c.a * x + c.b) % (c.p : Int)

theorem onCurve_iff_congr (c : Curve) (x y : Int) :
    onCurve c (.aff x y) = true ↔ (y * y) % (c.p : Int) = (x * x * x + c.a * x + c.b) % (c.p : Int) := by
  simp only [onCurve, Curve.red, beq_iff_eq]
  rw [show (x * x + c.a) * x + c.b - y * y = (x * x * x + c.a * x + c.b) - y * y by ring]
  rw [← Int.emod_eq_emod_iff_emod_sub_eq_zero]
  exact eq_comm

instance (c : Curve) (x y : Int) : Decidable (InRangeOnCurve c x y) := by
  unfold InRangeOnCurve; infer_instance

/-- cofactor `≤ 1` (all curves of `CURVE_FACTORY`): IsValidPublicKey never raises and is exactly
"coordinates in range and on the curve" — no hypothesis on the curve. -/
theorem isValidPublicKey_cofactor_one (c : Curve) (hh : c.h ≤ 1) (x y : Int) :
    isValidPublicKey c (.aff x y) = .ok (decide (InRangeOnCurve c x y)) := by
  unfold isValidPublicKey
  by_cases hon : onCurve c (.aff x y) = true
  · rw [if_neg (by simpa using hon)]
    simp only
    rw [if_neg (by omega)]
    congr 1
    have := (onCurve_iff_congr c x y).mp hon
    simp only [InRangeOnCurve, this, and_true, decide_eq_decide]
    constructor <;> intro h <;> omega
  · rw [if_pos (by simpa using hon)]
    congr 1
    have : ¬ InRangeOnCurve c x y := fun h => hon ((onCurve_iff_congr c x y).mpr h.2.2.2.2)
    simp [this]

/-- the criterion of CheckValidECKey for one key. -/
def invalidKeySpec (f : Factory) (k : ECKey) : Bool :=
  match factoryGet f k.curveType with
  | none => true
  | some c => !decide (InRangeOnCurve c (k.x : Int) (k.y : Int))

theorem validKeyOne_cofactor_one (f : Factory)
    (hf : ∀ id c, factoryGet f id = some c → c.h ≤ 1) (k : ECKey) :
    validKeyOne f k = .ok (some ⟨invalidKeySpec f k, none⟩) := by
  unfold validKeyOne invalidKeySpec
  cases hg : factoryGet f k.curveType with
  | none => rfl
  | some c =>
    simp only
    rw [ECKey.pt, isValidPublicKey_cofactor_one c (hf _ c hg)]

theorem checkValidECKey_cofactor_one (f : Factory)
    (hf : ∀ id c, factoryGet f id = some c → c.h ≤ 1) (keys : List ECKey) :
    checkValidECKey f keys = .ok (keys.map fun k => some ⟨invalidKeySpec f k, none⟩) := by
  unfold checkValidECKey
  apply forE_of_forall₂
  induction keys with
  | nil => exact .nil
  | cons k ks ih => exact .cons (validKeyOne_cofactor_one f hf k) ih

theorem factoryGet_mem {f : Factory} {id : Nat} {c : Curve} (h : factoryGet f id = some c) :
    ∃ e ∈ f, e.id = id ∧ e.curve = some c := by
  induction f with
  | nil => cases h
  | cons e es ih =>
    rw [factoryGet] at h
    split at h
    · exact ⟨e, List.mem_cons_self, ‹_›, h⟩
    · obtain ⟨e', he', h'⟩ := ih h
      exact ⟨e', List.mem_cons_of_mem _ he', h'⟩

/-- every curve of the regenerated factory has cofactor 1. -/
theorem regenFactory_cofactor : ∀ id c, factoryGet regenFactory id = some c → c.h ≤ 1 := by
  intro id c h
  obtain ⟨e, he, _, hc⟩ := factoryGet_mem h
  have : ∀ e ∈ regenFactory, ∀ c, e.curve = some c → c.h ≤ 1 := by
    rw [regenFactory_eq]
    decide +kernel
  exact this e he c hc

/-! ### CheckWeakCurve -/

/-- ids of the factory whose curve order has fewer than 224 bits. -/
def weakCurveIds (f : Factory) : List Nat :=
  (f.filter fun e => match e.curve with
    | some c => decide (bitLength c.n < 224)
    | none => false).map (·.id)

theorem regenFactory_weakCurveIds : weakCurveIds regenFactory = [1] := by
  rw [regenFactory_eq]; decide +kernel

theorem regenFactory_id1 : factoryGet regenFactory 1 = some secp192r1 := by
  rw [regenFactory_eq]; decide +kernel

theorem regenFactory_bits :
    (regenFactory.filterMap fun e => e.curve.map fun c => (e.id, bitLength c.n)) =
      [(2, 256), (4, 384), (1, 192), (3, 224), (5, 521), (6, 256), (17, 256), (18, 384), (19, 512)] := by
  rw [regenFactory_eq]; decide +kernel

end Paranoid.Bsgs
