/-
Proofs/BsgsComplete.lean — BatchDL never raises on on-curve points and finds every log in `[0, n)`,
for every requested table size `ts ≥ 1` and every cached table covering at least `ts` multiples.
-/
import ParanoidModel.Proofs.Bsgs
namespace Paranoid.Bsgs
open Paranoid Paranoid.Ec WeierstrassCurve

/-! ### arithmetic of the giant steps -/

theorem hit_arith {α} [AddCommGroup α] (G : α) (x j0t δ : Int) (a v' : Nat) (hx : x = j0t + δ)
    (ha : δ = a ∨ δ = -a) (hv : v' • G = a • G ∨ v' • G = -(a • G)) :
    (j0t + v') • G = x • G ∨ (j0t - v') • G = x • G := by
  subst hx
  rcases ha with rfl | rfl <;> rcases hv with hv | hv
  · left; simp only [add_zsmul, natCast_zsmul, hv]
  · right; simp only [add_zsmul, sub_zsmul, natCast_zsmul, hv, neg_neg]
  · right; simp only [add_zsmul, neg_zsmul, natCast_zsmul, hv, sub_eq_add_neg]
  · left; simp only [add_zsmul, neg_zsmul, natCast_zsmul, hv]

/-- `t = 2·ts - 1`, `j = (x + ts - 1)/t`: `j < 2 + n/t` and `|x - j·t| ≤ ts - 1`. -/
theorem giant_arith (x n ts : Nat) (hts : 1 ≤ ts) (hx : x < n) :
    (x + ts - 1) / (2 * ts - 1) < 2 + n / (2 * ts - 1) ∧
    -((ts : Int) - 1) ≤ (x : Int) - ((x + ts - 1) / (2 * ts - 1) : Nat) * (2 * (ts : Int) - 1) ∧
    (x : Int) - ((x + ts - 1) / (2 * ts - 1) : Nat) * (2 * (ts : Int) - 1) ≤ (ts : Int) - 1 := by
  have ht : 0 < 2 * ts - 1 := by omega
  generalize htt : 2 * ts - 1 = t at ht
  have e : (2 * (ts : Int) - 1) = (t : Int) := by omega
  rw [e]
  have h1 := Nat.div_add_mod (x + ts - 1) t
  have h2 := Nat.mod_lt (x + ts - 1) ht
  have h3 := Nat.lt_mul_div_succ n ht
  generalize (x + ts - 1) / t = j at *
  generalize (x + ts - 1) % t = r at *
  generalize n / t = q at *
  refine ⟨?_, ?_, ?_⟩
  · by_contra hc
    have : (q + 2) * t ≤ j * t := Nat.mul_le_mul_right t (by omega)
    have e2 : (q + 2) * t = t * (q + 1) + t := by ring
    have e3 : t * j = j * t := Nat.mul_comm _ _
    omega
  · have : (t : Int) * j + r + 1 = x + ts := by exact_mod_cast (by omega : t * j + r + 1 = x + ts)
    have e3 : (j : Int) * t = t * j := Int.mul_comm _ _
    omega
  · have : (t : Int) * j + r + 1 = x + ts := by exact_mod_cast (by omega : t * j + r + 1 = x + ts)
    have e3 : (j : Int) * t = t * j := Int.mul_comm _ _
    omega

/-- `giant_steps = 2 + n // t` as a natural number. -/
theorem giantSteps_eq (n ts : Nat) (hts : 1 ≤ ts) :
    2 + Int.fdiv (n : Int) (2 * (ts : Int) - 1) = ((2 + n / (2 * ts - 1) : Nat) : Int) := by
  have e : (2 * (ts : Int) - 1) = ((2 * ts - 1 : Nat) : Int) := by omega
  rw [e, Int.fdiv_eq_ediv_of_nonneg _ (Int.natCast_nonneg _), ← Int.natCast_ediv]
  push_cast
  rfl

theorem forall₂_getElem? {α β} {R : α → β → Prop} {l1 : List α} {l2 : List β}
    (h : List.Forall₂ R l1 l2) :
    ∀ (k : Nat) (b : β), l2[k]? = some b → ∃ a, l1[k]? = some a ∧ R a b := by
  induction h with
  | nil => intro k b hb; simp at hb
  | cons hab _ ih =>
    intro k b hb
    cases k with
    | zero => simp at hb; subst hb; exact ⟨_, by simp, hab⟩
    | succ k => simp at hb; obtain ⟨a, ha, hr⟩ := ih k b hb; exact ⟨a, by simpa using ha, hr⟩

section group
variable (c : Curve) [hp : Fact (Nat.Prime c.p)]

/-! ### hits -/

/-- a candidate that is a log of the (reduced, on-curve) point is accepted as it is. -/
theorem dlVerify_hit (hc : c.Good) (hG : onCurve c c.g = true) (hGr : Reduced c c.g) {px py : Int}
    (hP : RepR c (.aff px py) (toPoint c (.aff px py))) (cur : Option Int) (dl : Int)
    (hdl : dl • Gp c = toPoint c (.aff px py)) :
    dlVerify c px py cur dl = .ok (some dl) := by
  obtain ⟨R, h1, h2⟩ := multiply_repR c hc hG hGr dl
  rw [hdl] at h2
  have := repR_inj c hc h2 hP
  subst this
  unfold dlVerify
  rw [h1]
  simp

theorem dlStep_hit (hc : c.Good) (hG : onCurve c c.g = true) (hGr : Reduced c c.g) {px py : Int}
    (hP : RepR c (.aff px py) (toPoint c (.aff px py))) (look : Lookup) (t : Int) (cur : Option Int)
    (j : Nat) (x : Option Int) (v' : Nat) (hl : look x = some v')
    (hh : ((j : Int) * t + v') • Gp c = toPoint c (.aff px py) ∨
          ((j : Int) * t - v') • Gp c = toPoint c (.aff px py))
    (r : Option Int) (h : dlStep c look t px py cur j x = .ok r) : r.isSome := by
  unfold dlStep at h
  rw [hl] at h
  simp only at h
  rcases hh with hh | hh
  · rw [dlVerify_hit c hc hG hGr hP cur _ hh] at h
    simp only at h
    obtain ⟨r2, h2, c2⟩ := dlVerify_spec c hc hG px py (some ((j : Int) * t + v')) ((j : Int) * t - v')
    rw [h2] at h; cases h
    rcases c2 with rfl | ⟨v, rfl, _⟩ <;> rfl
  · obtain ⟨r1, h1, _⟩ := dlVerify_spec c hc hG px py cur ((j : Int) * t + v')
    rw [h1] at h
    simp only at h
    rw [dlVerify_hit c hc hG hGr hP r1 _ hh] at h
    cases h; rfl

theorem dlScan_hit (hc : c.Good) (hG : onCurve c c.g = true) (hGr : Reduced c c.g) {px py : Int}
    (hP : RepR c (.aff px py) (toPoint c (.aff px py))) (look : Lookup) (t : Int) :
    ∀ (xs : List (Option Int)) (j : Nat) (cur : Option Int) (k : Nat) (x : Option Int) (v' : Nat),
    xs[k]? = some x → look x = some v' →
    (((j + k : Nat) : Int) * t + v') • Gp c = toPoint c (.aff px py) ∨
      (((j + k : Nat) : Int) * t - v') • Gp c = toPoint c (.aff px py) →
    ∀ r, dlScan c look t px py xs j cur = .ok r → r.isSome
  | [], _, _, k, _, _, hk, _, _, _, _ => by simp at hk
  | y :: ys, j, cur, k, x, v', hk, hl, hh, r, h => by
    obtain ⟨r1, h1, m1, _⟩ := dlStep_spec c hc hG look t px py cur j y
    rw [dlScan, h1] at h
    simp only at h
    cases k with
    | zero =>
      simp at hk; subst hk
      have hs := dlStep_hit c hc hG hGr hP look t cur j y v' hl (by simpa using hh) r1 h1
      obtain ⟨r2, h2, m2, _⟩ := dlScan_spec c hc hG look t px py ys (j + 1) r1
      rw [h2] at h; cases h
      exact m2 hs
    | succ k =>
      simp at hk
      exact dlScan_hit hc hG hGr hP look t ys (j + 1) r1 k x v' hk hl
        (by rwa [show j + 1 + k = j + (k + 1) by omega]) r h

/-! ### one point -/

/-- the giant-step list: `list_c[j] = j • (-t • G)`, reduced, for `j < gs`. -/
def ListCOK (t : Int) (gs : Nat) (listC : List Pt) : Prop :=
  List.Forall₂ (fun Q (j : Nat) => RepR c Q (j • ((-t) • Gp c))) listC (List.range gs)

theorem listC_spec (hc : c.Good) (hG : onCurve c c.g = true) (hGr : Reduced c c.g) (t : Int)
    (gs : Nat) (hgs : 0 < gs) :
    ∃ b listC, multiply c c.g (-t) = .ok b ∧ pointSequence c b gs = .ok listC ∧
      ListCOK c t gs listC := by
  obtain ⟨b, hb1, hb2, hb3, _⟩ := multiply_repR c hc hG hGr (-t)
  obtain ⟨listC, hl1, hl2⟩ := pointSequence_spec c hc b hb2 gs hgs
  refine ⟨b, listC, hb1, hl1, hl2.imp ?_⟩
  intro Q j hQ
  exact ⟨hQ.1, by rw [hQ.2.1, hb3], hQ.2.2⟩

/-- x-coordinates seen at the giant steps: `xs[j] = x(P - j·t·G)`. -/
theorem scanKeys (hc : c.Good) {t : Int} {gs : Nat} {listC : List Pt} (hl : ListCOK c t gs listC)
    {P : Pt} {A : (W c).Point} (hP : RepR c P A) :
    ∃ xs, batchAddX c P listC = .ok xs ∧ xs.length = gs ∧
      ∀ k, k < gs → xs[k]? = some (xKey c (A - ((k : Int) * t) • Gp c)) := by
  obtain ⟨xs, h1, h2⟩ := batchAddX_repR c hc (φ := fun j : Nat => j • ((-t) • Gp c)) hP hl
  refine ⟨xs, h1, by rw [h2.length_eq, List.length_range], ?_⟩
  intro k hk
  obtain ⟨a, ha, hr⟩ := forall₂_getElem? h2 k k (by simp [hk])
  rw [ha, hr]
  congr 2
  rw [← natCast_zsmul, ← mul_zsmul, mul_neg, neg_zsmul, sub_eq_add_neg, mul_comm]

/-- **one point, completeness**: `P = x • G` reduced, `x < n`, table covering `ts` multiples: the scan
returns some value. -/
theorem dlPoint_found (hc : c.Good) (hG : onCurve c c.g = true) (hGr : Reduced c c.g)
    {look : Lookup} {size V : Nat} (htab : TableOK c look size V) (n ts : Nat) (hts : 1 ≤ ts)
    (hsize : ts ≤ size) {listC : List Pt}
    (hl : ListCOK c (2 * (ts : Int) - 1) (2 + n / (2 * ts - 1)) listC)
    {P : Pt} (hP : onCurve c P = true) (hPr : Reduced c P) (x : Nat) (hx : x < n)
    (hPx : toPoint c P = x • Gp c) :
    ∃ r, dlPoint c look (2 * (ts : Int) - 1) listC P = .ok r ∧ r.isSome := by
  cases P with
  | inf => exact ⟨some 0, rfl, rfl⟩
  | aff px py =>
    have hR : RepR c (.aff px py) (toPoint c (.aff px py)) := ⟨hP, rfl, hPr⟩
    obtain ⟨xs, hxs1, hxs2, hxs3⟩ := scanKeys c hc hl hR
    obtain ⟨r, hr1, _, _⟩ := dlScan_spec c hc hG look (2 * (ts : Int) - 1) px py xs 0 none
    refine ⟨r, by rw [dlPoint, hxs1]; exact hr1, ?_⟩
    obtain ⟨hj, hlo, hhi⟩ := giant_arith x n ts hts hx
    generalize hj0 : (x + ts - 1) / (2 * ts - 1) = j0 at hj hlo hhi
    generalize hδ : (x : Int) - (j0 : Nat) * (2 * (ts : Int) - 1) = δ at hlo hhi
    have hkey := hxs3 j0 hj
    -- the key at step j0 is the x-coordinate of δ • G = ±|δ| • G
    have hA : toPoint c (.aff px py) - ((j0 : Int) * (2 * (ts : Int) - 1)) • Gp c = δ • Gp c := by
      rw [hPx, ← natCast_zsmul, ← hδ, sub_zsmul, sub_eq_add_neg]
    rw [hA] at hkey
    obtain ⟨a, ha, hlt⟩ : ∃ a : Nat, (δ = (a : Int) ∨ δ = -(a : Int)) ∧ a < size :=
      ⟨δ.natAbs, by omega, by omega⟩
    obtain ⟨v', hv'⟩ := htab.2 a hlt
    have hkeyeq : xKey c (δ • Gp c) = xKey c (a • Gp c) := by
      rcases ha with h | h
      · rw [h, natCast_zsmul]
      · rw [h, neg_zsmul, xKey_neg, natCast_zsmul]
    have hv := eq_or_neg_of_xKey c (htab.1 _ _ hv').2
    have hit := hit_arith (Gp c) (x : Int) ((j0 : Int) * (2 * (ts : Int) - 1)) δ a v'
      (by omega) ha hv
    rw [natCast_zsmul, ← hPx] at hit
    exact dlScan_hit c hc hG hGr hR look _ xs 0 none j0 _ v' hkey (by rw [hkeyeq]; exact hv')
      (by simpa using hit) r hr1

/-- one on-curve point, totality: the scan never raises. -/
theorem dlPoint_total (hc : c.Good) (hG : onCurve c c.g = true) (look : Lookup) {t : Int} {gs : Nat}
    {listC : List Pt} (hl : ListCOK c t gs listC) {P : Pt} (hP : onCurve c P = true) :
    ∃ r, dlPoint c look t listC P = .ok r := by
  cases P with
  | inf => exact ⟨some 0, rfl⟩
  | aff px py =>
    -- BatchAddX on on-curve points never raises (reducedness is not needed for that)
    rw [dlPoint, batchAddX_eq_map]
    have : ∃ xs, mapE (addX c (.aff px py)) listC = .ok xs := by
      have hon : ∀ Q ∈ listC, onCurve c Q = true := by
        intro Q hQ
        obtain ⟨_, _, h⟩ := forall₂_mem_left hl hQ
        exact h.1
      clear hl
      induction listC with
      | nil => exact ⟨[], rfl⟩
      | cons Q Qs ih =>
        obtain ⟨R, hR, _⟩ := add_refines c hc (.aff px py) Q hP (hon Q List.mem_cons_self)
        obtain ⟨xs, hxs⟩ := ih (fun Q' h' => hon Q' (List.mem_cons_of_mem _ h'))
        exact ⟨R.x? :: xs, by simp [mapE, addX, hR, hxs]⟩
    obtain ⟨xs, hxs⟩ := this
    rw [hxs]
    obtain ⟨r, hr, _⟩ := dlScan_spec c hc hG look t px py xs 0 none
    exact ⟨r, hr⟩

/-! ### the whole call -/

/-- BatchDL (after the table update) never raises on on-curve points when `ts ≥ 1`. -/
theorem batchDLCore_total (hc : c.Good) (hG : onCurve c c.g = true) (hGr : Reduced c c.g)
    (look : Lookup) (points : List Pt) (hpts : ∀ P ∈ points, onCurve c P = true) (n ts : Nat)
    (hts : 1 ≤ ts) :
    ∃ res listC, batchDLCore c look points n ts = .ok res ∧
      ListCOK c (2 * (ts : Int) - 1) (2 + n / (2 * ts - 1)) listC ∧
      List.Forall₂ (fun P r => dlPoint c look (2 * (ts : Int) - 1) listC P = .ok r) points res := by
  have hgs : 0 < 2 + n / (2 * ts - 1) := Nat.add_pos_left (by decide) _
  obtain ⟨b, listC, hb, hl1, hl2⟩ := listC_spec c hc hG hGr (2 * (ts : Int) - 1)
    (2 + n / (2 * ts - 1)) hgs
  obtain ⟨res, hres⟩ := forE_total (f := dlPoint c look (2 * (ts : Int) - 1) listC) (l := points)
    (fun P hP => dlPoint_total c hc hG look hl2 (hpts P hP))
  refine ⟨res, listC, ?_, hl2, forE_ok hres⟩
  unfold batchDLCore
  rw [hb]
  simp only
  rw [giantSteps_eq n ts hts, pointSequenceI, if_neg (by exact_mod_cast Nat.not_le.mpr hgs),
    Int.toNat_natCast, hl1]
  exact hres

/-- size of every value the scan can return: `|v| ≤ (gs - 1)·t + V - 1`. -/
theorem cand_bound {look : Lookup} {size V : Nat} (htab : TableOK c look size V) {t : Int}
    (ht : 0 ≤ t) {j : Nat} {x : Option Int} {v : Int} (h : Cand t look j x v) :
    |v| ≤ (j : Int) * t + V - 1 := by
  obtain ⟨v', hl, hv⟩ := h
  have hb := (htab.1 _ _ hl).1
  have hjt : 0 ≤ (j : Int) * t := Int.mul_nonneg (Int.natCast_nonneg _) ht
  rcases hv with rfl | rfl | rfl | rfl <;> rw [abs_le] <;> constructor <;> omega

end group
end Paranoid.Bsgs
