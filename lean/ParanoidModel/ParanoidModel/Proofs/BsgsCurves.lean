/-
Proofs/BsgsCurves.lean — what the evaluated parameter check `paramsOK` gives the discrete-log
theorems, the shape of the ExtendedBatchDL multipliers, and their invertibility on the nine named
curves (kernel-evaluated on the constants regenerated from `CURVE_FACTORY`).
-/
import ParanoidModel.Proofs.BsgsHistory
import ParanoidModel.Proofs.EcCurves
namespace Paranoid.Bsgs
open Paranoid Paranoid.Ec WeierstrassCurve

instance (c : Curve) (P : Pt) : Decidable (Reduced c P) := by
  cases P <;> unfold Reduced <;> infer_instance

/-- hypotheses on the curve object shared by the discrete-log theorems: `p ≠ 2`, non-zero
discriminant, generator on the curve with reduced coordinates. -/
structure ValidCurve (c : Curve) : Prop where
  good : c.Good
  gOn : onCurve c c.g = true
  gRed : Reduced c c.g

/-- the generator of a curve passing `paramsOK` has reduced coordinates, and `n ≥ 2`. -/
theorem reduced_of_paramsOK (c : Curve) (h : c.paramsOK = true) : Reduced c c.g ∧ 2 ≤ c.n := by
  simp only [Curve.paramsOK, Bool.and_eq_true, decide_eq_true_eq] at h
  obtain ⟨⟨⟨⟨⟨⟨⟨⟨⟨⟨⟨_, _⟩, hn1⟩, _⟩, _⟩, a6⟩, a7⟩, a8⟩, a9⟩, _⟩, _⟩, _⟩ := h
  exact ⟨⟨a6, a7, a8, a9⟩, by omega⟩

/-! ### the multipliers -/

theorem pow_mem_extMultipliers (c : Curve) (j : Nat) (h : 8 * j + 32 ≤ bitLength c.n) :
    2 ^ (8 * j) ∈ extMultipliers c := by
  unfold extMultipliers
  exact List.mem_append_left _ (List.mem_map.mpr ⟨j, List.mem_range.mpr (by omega), rfl⟩)

theorem repUnit_mem_extMultipliers (c : Curve) (r : Nat) (h2 : 2 ≤ r) (hr : r ≤ bitLength c.n / 32) :
    repUnit r ∈ extMultipliers c := by
  unfold extMultipliers
  refine List.mem_append_right _ (List.mem_map.mpr ⟨r - 2, List.mem_range.mpr (by omega), ?_⟩)
  rw [show r - 2 + 2 = r by omega]

theorem repUnit_mul (r : Nat) : repUnit r * (2 ^ 32 - 1) + 1 = 2 ^ (32 * r) := by
  induction r with
  | zero => rfl
  | succ r ih =>
    rw [repUnit, Nat.add_mul, Nat.add_right_comm, ih, show 32 * (r + 1) = 32 * r + 32 by ring,
      pow_add]
    have : 1 ≤ 2 ^ 32 := Nat.one_le_two_pow
    generalize 2 ^ (32 * r) = a
    generalize h32 : 2 ^ 32 = b at *
    rw [Nat.mul_sub, Nat.mul_one]
    have : a ≤ a * b := Nat.le_mul_of_pos_right a (by omega)
    omega

/-- `1 + 2^32 + … + 2^(32(r-1)) = (2^(32r) - 1)/(2^32 - 1)`: the private key "32-bit word repeated
`r` times". -/
theorem repUnit_eq (r : Nat) : repUnit r = (2 ^ (32 * r) - 1) / (2 ^ 32 - 1) := by
  have h := repUnit_mul r
  have hpos : 0 < 2 ^ 32 - 1 := by norm_num
  generalize 2 ^ 32 - 1 = b at h hpos ⊢
  generalize 2 ^ (32 * r) = a at h ⊢
  have h' : a - 1 = repUnit r * b := by omega
  rw [h']
  exact (Nat.mul_div_cancel _ hpos).symm

/-- the multiplier list literally. -/
theorem extMultipliers_eq (c : Curve) : extMultipliers c =
    (List.range ((bitLength c.n - 31 + 7) / 8)).map (fun k => 2 ^ (8 * k)) ++
    (List.range (bitLength c.n / 32 + 1 - 2)).map (fun k => (2 ^ (32 * (k + 2)) - 1) / (2 ^ 32 - 1)) := by
  unfold extMultipliers
  have : (List.range (bitLength c.n / 32 + 1 - 2)).map (fun k => repUnit (k + 2)) =
      (List.range (bitLength c.n / 32 + 1 - 2)).map
        (fun k => (2 ^ (32 * (k + 2)) - 1) / (2 ^ 32 - 1)) :=
    List.map_congr_left fun k _ => repUnit_eq (k + 2)
  rw [this]

/-! ### the nine named curves: every multiplier is invertible modulo the group order -/

def multipliersOKb (c : Curve) : Bool := (extMultipliers c).all fun mu => Int.gcd (mu : Int) c.n == 1

theorem multipliersOK_of_b {c : Curve} (h : multipliersOKb c = true) : MultipliersOK c := by
  intro mu hmu
  have := List.all_eq_true.mp h mu hmu
  simpa using this

theorem secp256r1_multipliersOK : multipliersOKb secp256r1 = true := by decide +kernel
theorem secp384r1_multipliersOK : multipliersOKb secp384r1 = true := by decide +kernel
theorem secp192r1_multipliersOK : multipliersOKb secp192r1 = true := by decide +kernel
theorem secp224r1_multipliersOK : multipliersOKb secp224r1 = true := by decide +kernel
theorem secp521r1_multipliersOK : multipliersOKb secp521r1 = true := by decide +kernel
theorem secp256k1_multipliersOK : multipliersOKb secp256k1 = true := by decide +kernel
theorem brainpoolP256r1_multipliersOK : multipliersOKb brainpoolP256r1 = true := by decide +kernel
theorem brainpoolP384r1_multipliersOK : multipliersOKb brainpoolP384r1 = true := by decide +kernel
theorem brainpoolP512r1_multipliersOK : multipliersOKb brainpoolP512r1 = true := by decide +kernel

end Paranoid.Bsgs
