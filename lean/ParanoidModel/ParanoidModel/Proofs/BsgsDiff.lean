/-
Proofs/BsgsDiff.lean — BatchDLOfDifferences, soundness (C02): every recorded relation `(Q, k)` of key
`P` names another key `Q` of the call, `P ≠ Q`, and `P - Q = k • G`.
-/
import ParanoidModel.Proofs.BsgsMain
namespace Paranoid.Bsgs
open Paranoid Paranoid.Ec WeierstrassCurve

theorem mapE_ok {α β} {f : α → Except PyErr β} : ∀ {l : List α} {rs : List β},
    mapE f l = .ok rs → List.Forall₂ (fun a b => f a = .ok b) l rs
  | [], rs, h => by cases h; exact .nil
  | a :: as, rs, h => by
    rw [mapE] at h
    split at h
    · cases h
    · rename_i b hb
      split at h
      · cases h
      · rename_i bs hbs
        cases h
        exact .cons hb (mapE_ok hbs)

section group
variable (c : Curve) [hp : Fact (Nat.Prime c.p)]

/-- key `k` of the call carries relation `r`: `r` names (a representative of) another key `Q` of the
call (`L = other_points ++ points`, position `≠ nOther + k`), `P ≠ Q`, `P - Q = r.dl • G`. -/
def RelOK (nOther : Nat) (points L : List Pt) (k : Nat) (r : Rel) : Prop :=
  ∃ P j Q, points[k]? = some P ∧ L[j]? = some Q ∧ j ≠ nOther + k ∧
    onCurve c (.aff r.qx r.qy) = true ∧ toPoint c (.aff r.qx r.qy) = toPoint c Q ∧
    toPoint c P - toPoint c Q = r.dl • Gp c ∧ toPoint c P ≠ toPoint c Q

def ResOK (nOther : Nat) (points L : List Pt) (res : List (Option Rel)) : Prop :=
  ∀ (k : Nat) (r : Rel), res[k]? = some (some r) → RelOK c nOther points L k r

theorem ResOK.set {nOther : Nat} {points L : List Pt} {res : List (Option Rel)}
    (h : ResOK c nOther points L res) (i : Nat) (r0 : Rel)
    (h0 : i < res.length → RelOK c nOther points L i r0) :
    ResOK c nOther points L (res.set i (some r0)) := by
  intro k r hk
  rw [List.getElem?_set] at hk
  split at hk
  · rename_i hik
    split at hk
    · rename_i hlt; cases hk; subst hik; exact h0 hlt
    · cases hk
  · exact h k r hk

omit hp in
theorem fmtRel_ok {q : Pt} {dl : Int} {r : Rel} (h : fmtRel q dl = .ok r) :
    q = .aff r.qx r.qy ∧ r.dl = dl := by
  cases q with
  | inf => cases h
  | aff x y => cases h; exact ⟨rfl, rfl⟩

/-- `Add(p, nq)[0]` is not `None`: the sum is not the neutral element. -/
theorem addX_some_ne (hc : c.Good) {p nq : Pt} (hp' : onCurve c p = true) (hq : onCurve c nq = true)
    {xv : Int} (h : addX c p nq = .ok (some xv)) : toPoint c p + toPoint c nq ≠ 0 := by
  obtain ⟨R, h1, h2, h3⟩ := add_refines c hc p nq hp' hq
  rw [addX, h1] at h
  simp only at h
  cases R with
  | inf => cases h
  | aff x y =>
    rw [← h3, toPoint_aff c (nonsingular_of_onCurve c hc h2)]
    exact Affine.Point.some_ne_zero _

variable {nOther : Nat} {points other : List Pt}

omit hp in
theorem getElem?_L_right (hno : other.length = nOther) (j : Nat) (hj : nOther ≤ j) :
    (other ++ points)[j]? = points[j - nOther]? := by
  rw [List.getElem?_append_right (by omega), hno]

/-- one `dl`: the invariant is kept. -/
theorem diffTry_sound (hc : c.Good) (hG : onCurve c c.g = true) (hno : other.length = nOther)
    {p q diff Q : Pt} {i j : Nat} (hpi : points[i]? = some p) (hp' : onCurve c p = true)
    (hQ : (other ++ points)[j]? = some Q) (hj : j < nOther + i)
    (hq1 : onCurve c q = true) (hq2 : toPoint c q = toPoint c Q)
    (hdiff : toPoint c diff = toPoint c p - toPoint c Q) (hne : toPoint c p ≠ toPoint c Q)
    {res res' : List (Option Rel)} (hres : ResOK c nOther points (other ++ points) res) (dl : Int)
    (h : diffTry c p q diff nOther i j res dl = .ok res') :
    ResOK c nOther points (other ++ points) res' := by
  obtain ⟨d2, hd1, _, hd3⟩ := multiply_zsmul c hc c.g dl hG
  unfold diffTry at h
  rw [hd1] at h
  simp only at h
  split at h
  · rename_i heq
    have hrel : toPoint c p - toPoint c Q = dl • Gp c := by rw [← hdiff, heq, hd3]
    split at h
    · cases h
    · rename_i r hr
      obtain ⟨hqr, hrdl⟩ := fmtRel_ok hr
      have hF1 : RelOK c nOther points (other ++ points) i r :=
        ⟨p, j, Q, hpi, hQ, by omega, by rw [← hqr]; exact hq1, by rw [← hqr]; exact hq2,
          by rw [hrdl]; exact hrel, hne⟩
      split at h
      · rename_i hjn
        split at h
        · cases h
        · rename_i r2 hr2
          cases h
          obtain ⟨hpr, hrdl2⟩ := fmtRel_ok hr2
          refine (hres.set c i r (fun _ => hF1)).set c (j - nOther) r2 (fun _ => ?_)
          have hQp : points[j - nOther]? = some Q := by
            rw [← getElem?_L_right hno j hjn]; exact hQ
          have hLp : (other ++ points)[nOther + i]? = some p := by
            rw [getElem?_L_right hno _ (by omega)]; simpa using hpi
          refine ⟨Q, nOther + i, p, hQp, hLp, by omega, by rw [← hpr]; exact hp', by rw [← hpr], ?_,
            fun h => hne h.symm⟩
          rw [hrdl2, neg_zsmul, ← hrel, neg_sub]
      · cases h
        exact hres.set c i r (fun _ => hF1)
  · cases h; exact hres

theorem diffStep_sound (hc : c.Good) (hG : onCurve c c.g = true) (hno : other.length = nOther)
    (look : Lookup) {p nq Q : Pt} {i j : Nat} (hpi : points[i]? = some p) (hp' : onCurve c p = true)
    (hQ : (other ++ points)[j]? = some Q) (hj : j < nOther + i) (hQon : onCurve c Q = true)
    (hnq : nq = negate c Q) {x : Option Int} (hx : addX c p nq = .ok x)
    {res res' : List (Option Rel)} (hres : ResOK c nOther points (other ++ points) res)
    (h : diffStep c look p nOther i res j nq x = .ok res') :
    ResOK c nOther points (other ++ points) res' := by
  unfold diffStep at h
  split at h
  · cases h; exact hres
  · rename_i xv
    split at h
    · cases h; exact hres
    · rename_i v _
      have hnqon : onCurve c nq = true := by rw [hnq]; exact negate_onCurve c Q hQon
      have hnqP : toPoint c nq = - toPoint c Q := by rw [hnq]; exact negate_refines c hc Q hQon
      have hq1 : onCurve c (negate c nq) = true := negate_onCurve c nq hnqon
      have hq2 : toPoint c (negate c nq) = toPoint c Q := by
        rw [negate_refines c hc nq hnqon, hnqP, neg_neg]
      have hne : toPoint c p ≠ toPoint c Q := by
        have := addX_some_ne c hc hp' hnqon hx
        rw [hnqP] at this
        intro he; apply this; rw [he]; simp
      obtain ⟨D, hD1, _, hD3⟩ := subtract_refines c hc p (negate c nq) hp' hq1
      rw [hD1] at h
      simp only at h
      rw [hq2] at hD3
      split at h
      · cases h
      · rename_i res1 h1
        exact diffTry_sound c hc hG hno hpi hp' hQ hj hq1 hq2 hD3 hne
          (diffTry_sound c hc hG hno hpi hp' hQ hj hq1 hq2 hD3 hne hres _ h1) _ h

theorem diffScan_sound (hc : c.Good) (hG : onCurve c c.g = true) (hno : other.length = nOther)
    (look : Lookup) {p : Pt} {i : Nat} (hpi : points[i]? = some p) (hp' : onCurve c p = true)
    (hL : ∀ Q ∈ other ++ points, onCurve c Q = true) :
    ∀ (nqs : List Pt) (xs : List (Option Int)) (j : Nat) (res res' : List (Option Rel)),
    (∀ (k : Nat) (nq : Pt), nqs[k]? = some nq →
      ∃ Q, (other ++ points)[j + k]? = some Q ∧ nq = negate c Q ∧ j + k < nOther + i) →
    List.Forall₂ (fun nq x => addX c p nq = .ok x) nqs xs →
    ResOK c nOther points (other ++ points) res →
    diffScan c look p nOther i nqs xs j res = .ok res' →
    ResOK c nOther points (other ++ points) res'
  | [], _, _, res, res', _, hx, hres, h => by cases hx; cases h; exact hres
  | nq :: nqs, _, j, res, res', hn, hx, hres, h => by
    cases hx with
    | cons hx0 hxs =>
      rw [diffScan] at h
      split at h
      · cases h
      · rename_i res1 h1
        obtain ⟨Q, hQ, hnq, hj⟩ := hn 0 nq (by simp)
        rw [Nat.add_zero] at hQ hj
        have hres1 := diffStep_sound c hc hG hno look hpi hp' hQ hj
          (hL Q (List.mem_of_getElem? hQ)) hnq hx0 hres h1
        refine diffScan_sound hc hG hno look hpi hp' hL nqs _ (j + 1) res1 res' ?_ hxs hres1 h
        intro k nq' hk
        obtain ⟨Q', a, b, c'⟩ := hn (k + 1) nq' (by simpa using hk)
        exact ⟨Q', by rwa [show j + 1 + k = j + (k + 1) by omega], b, by omega⟩

theorem diffOuter_sound (hc : c.Good) (hG : onCurve c c.g = true) (hno : other.length = nOther)
    (look : Lookup) (hL : ∀ Q ∈ other ++ points, onCurve c Q = true) :
    ∀ (ps : List Pt) (i : Nat) (negated : List Pt) (res res' : List (Option Rel)),
    ps = points.drop i →
    negated = ((other ++ points).take (nOther + i)).map (negate c) →
    ResOK c nOther points (other ++ points) res →
    diffOuter c look nOther ps i negated res = .ok res' →
    ResOK c nOther points (other ++ points) res'
  | [], _, _, res, res', _, _, hres, h => by cases h; exact hres
  | p :: ps, i, negated, res, res', hps, hneg, hres, h => by
    have hpi : points[i]? = some p := by
      have := congrArg List.head? hps
      simpa [List.head?_drop] using this.symm
    have hps' : ps = points.drop (i + 1) := by
      have := congrArg List.tail hps
      simpa [List.tail_drop] using this
    have hp' : onCurve c p = true := hL p (List.mem_append_right _ (List.mem_of_getElem? hpi))
    rw [diffOuter] at h
    split at h
    · cases h
    · rename_i xs hxs
      split at h
      · cases h
      · rename_i res1 h1
        rw [batchAddX_eq_map] at hxs
        have hx := mapE_ok hxs
        have hscan := diffScan_sound c hc hG hno look hpi hp' hL negated xs 0 res res1 (by
          intro k nq hk
          rw [hneg, List.getElem?_map] at hk
          cases hQ : ((other ++ points).take (nOther + i))[k]? with
          | none => rw [hQ] at hk; cases hk
          | some Q =>
            rw [hQ] at hk
            simp only [Option.map_some, Option.some.injEq] at hk
            rw [List.getElem?_take] at hQ
            split at hQ
            · rename_i hlt
              exact ⟨Q, by simpa using hQ, hk.symm, by omega⟩
            · cases hQ) hx hres h1
        refine diffOuter_sound hc hG hno look hL ps (i + 1) _ res1 res' hps' ?_ hscan h
        have hLp : (other ++ points)[nOther + i]? = some p := by
          rw [getElem?_L_right hno _ (by omega)]; simpa using hpi
        rw [hneg, show nOther + (i + 1) = nOther + i + 1 by omega, List.take_succ, hLp]
        simp

/-- **BatchDLOfDifferences soundness** (C02), for every state, every `max_diff`, every oracle value:
if all points of the call are on the curve, every recorded relation `(Q, k)` of key `P` names
(a representative of) another key `Q` of the call, `P ≠ Q`, and `P - Q = k • G` — in particular
the mirrored entry `Q - P = (-k) • G` recorded for `Q`, and identical keys never accuse each other. -/
theorem batchDLOfDifferences_sound (hc : c.Good) (hG : onCurve c c.g = true) (st : EcState)
    (points other : List Pt) (hL : ∀ Q ∈ other ++ points, onCurve c Q = true) (maxDiff m : Nat)
    (res : List (Option Rel)) (st' : EcState)
    (h : batchDLOfDifferences c st points other maxDiff m = .ok (res, st')) :
    ResOK c other.length points (other ++ points) res := by
  unfold batchDLOfDifferences batchDLOfDifferencesG at h
  have h0 : ResOK c other.length points (other ++ points) (List.replicate points.length none) := by
    intro k r hk
    rw [List.getElem?_replicate] at hk
    split at hk <;> cases hk
  split at h
  · cases h; exact h0
  · split at h
    · cases h
    · rename_i st1 _
      split at h
      · cases h
      · rename_i res1 hres
        cases h
        exact diffOuter_sound c hc hG rfl _ hL points 0 _ _ res (by simp) (by simp) h0 hres

end group
end Paranoid.Bsgs
