/-
Proofs/BsgsDiffComplete.lean — BatchDLOfDifferences never raises on finite reduced on-curve points and
flags BOTH keys of every pair whose private keys differ by a non-zero amount below the table size.
-/
import ParanoidModel.Proofs.BsgsDiff
namespace Paranoid.Bsgs
open Paranoid Paranoid.Ec WeierstrassCurve

/-- key `k` carries a relation. -/
def Flagged (res : List (Option Rel)) (k : Nat) : Prop := ∃ r, res[k]? = some (some r)

theorem Flagged.set {res : List (Option Rel)} {k : Nat} (h : Flagged res k) (i : Nat) (r : Rel) :
    Flagged (res.set i (some r)) k := by
  obtain ⟨r0, h0⟩ := h
  have hk : k < res.length := by
    by_contra hge; rw [List.getElem?_eq_none (by omega)] at h0; cases h0
  by_cases hik : i = k
  · subst hik; exact ⟨r, by rw [List.getElem?_set, if_pos rfl, if_pos hk]⟩
  · exact ⟨r0, by rw [List.getElem?_set, if_neg hik]; exact h0⟩

theorem flagged_set_self {res : List (Option Rel)} {i : Nat} (hi : i < res.length) (r : Rel) :
    Flagged (res.set i (some r)) i := ⟨r, by rw [List.getElem?_set, if_pos rfl, if_pos hi]⟩

/-- finite point. -/
def IsAff : Pt → Prop
  | .aff _ _ => True
  | .inf => False

section group
variable (c : Curve) [hp : Fact (Nat.Prime c.p)]

/-- finite, on the curve, coordinates reduced (what `PublicPoint` of a valid key gives). -/
def GoodPt (P : Pt) : Prop := onCurve c P = true ∧ Reduced c P ∧ IsAff P

theorem GoodPt.repR {P : Pt} (h : GoodPt c P) : RepR c P (toPoint c P) := ⟨h.1, rfl, h.2.1⟩

theorem repR_negate (hc : c.Good) {P : Pt} {A : (W c).Point} (h : RepR c P A) :
    RepR c (negate c P) (-A) :=
  ⟨negate_onCurve c P h.1, by rw [negate_refines c hc P h.1, h.2.1],
    negate_reduced c hp.out.pos h.2.2⟩

omit hp in
theorem isAff_negate {P : Pt} (h : IsAff P) : IsAff (negate c P) := by
  cases P with
  | inf => exact h
  | aff x y => trivial

omit hp in
theorem fmtRel_total {q : Pt} (h : IsAff q) (dl : Int) : ∃ r, fmtRel q dl = .ok r := by
  cases q with
  | inf => exact absurd h id
  | aff x y => exact ⟨_, rfl⟩

/-- one `dl`: total, keeps the length and the flags; flags `i` (and the mirrored key) when
`dl • G` is the difference. -/
theorem diffTry_spec (hc : c.Good) (hG : onCurve c c.g = true) {p q : Pt} (hp' : IsAff p)
    (hq : IsAff q) (diff : Pt) (nOther i j : Nat) (res : List (Option Rel)) (dl : Int) :
    ∃ res', diffTry c p q diff nOther i j res dl = .ok res' ∧ res'.length = res.length ∧
      (∀ k, Flagged res k → Flagged res' k) ∧
      (multiply c c.g dl = .ok diff → (i < res.length → Flagged res' i) ∧
        (nOther ≤ j → j - nOther < res.length → Flagged res' (j - nOther))) := by
  obtain ⟨d2, hd1, _, _⟩ := multiply_zsmul c hc c.g dl hG
  obtain ⟨r, hr⟩ := fmtRel_total hq dl
  obtain ⟨r2, hr2⟩ := fmtRel_total hp' (-dl)
  unfold diffTry
  rw [hd1]
  simp only
  by_cases heq : diff = d2
  · rw [if_pos heq, hr]
    simp only
    by_cases hjn : j ≥ nOther
    · rw [if_pos hjn, hr2]
      refine ⟨_, rfl, by simp, fun k hk => (hk.set i r).set _ r2, fun _ => ⟨fun hi => ?_, fun _ hj => ?_⟩⟩
      · exact (flagged_set_self hi r).set _ r2
      · exact flagged_set_self (by simpa using hj) r2
    · rw [if_neg hjn]
      exact ⟨_, rfl, by simp, fun k hk => hk.set i r, fun _ =>
        ⟨fun hi => flagged_set_self hi r, fun h => absurd h hjn⟩⟩
  · rw [if_neg heq]
    exact ⟨res, rfl, rfl, fun k hk => hk, fun h => by cases h; exact absurd rfl heq⟩

/-- `A - B` is a small non-zero multiple of `G`. -/
def CloseG (size : Nat) (A B : (W c).Point) : Prop :=
  A ≠ B ∧ ∃ k : Int, A - B = k • Gp c ∧ k.natAbs < size

theorem xKey_ne_none {A : (W c).Point} (h : A ≠ 0) : ∃ xv, xKey c A = some xv := by
  cases A with
  | zero => exact absurd rfl h
  | some x y hxy => exact ⟨_, rfl⟩

theorem diffStep_spec (hc : c.Good) (hG : onCurve c c.g = true) (hGr : Reduced c c.g)
    (look : Lookup) {p Q : Pt} (hp' : GoodPt c p) (hQ : GoodPt c Q) (nOther i j : Nat)
    (res : List (Option Rel)) {x : Option Int} (hx : addX c p (negate c Q) = .ok x) :
    ∃ res', diffStep c look p nOther i res j (negate c Q) x = .ok res' ∧ res'.length = res.length ∧
      (∀ k, Flagged res k → Flagged res' k) ∧
      (∀ size V, TableOK c look size V → CloseG c size (toPoint c p) (toPoint c Q) →
        (i < res.length → Flagged res' i) ∧
        (nOther ≤ j → j - nOther < res.length → Flagged res' (j - nOther))) := by
  have hRp := hp'.repR c
  have hRnq := repR_negate c hc (hQ.repR c)
  have hRq := repR_negate c hc hRnq
  rw [neg_neg] at hRq
  have haq : IsAff (negate c (negate c Q)) := isAff_negate c (isAff_negate c hQ.2.2)
  -- the key
  obtain ⟨R, hR1, hR2⟩ := repR_add c hc hRp hRnq
  have hxk : x = xKey c (toPoint c p - toPoint c Q) := by
    rw [addX, hR1] at hx
    cases hx
    rw [x?_eq_xKey c hc hR2, sub_eq_add_neg]
  -- the difference point
  obtain ⟨D, hD1, hD2⟩ := repR_add c hc hRp (repR_negate c hc hRq)
  rw [← sub_eq_add_neg] at hD2
  unfold diffStep
  cases x with
  | none =>
    refine ⟨res, rfl, rfl, fun k hk => hk, ?_⟩
    intro size V _ hclose
    exfalso
    obtain ⟨xv, hxv⟩ := xKey_ne_none c (sub_ne_zero.mpr hclose.1)
    rw [hxv] at hxk; cases hxk
  | some xv =>
    simp only
    cases hl : look (some xv) with
    | none =>
      refine ⟨res, rfl, rfl, fun k hk => hk, ?_⟩
      intro size V htab hclose
      exfalso
      obtain ⟨_, k, hk, hlt⟩ := hclose
      obtain ⟨v', hv'⟩ := htab.2 k.natAbs hlt
      have : xKey c (k.natAbs • Gp c) = some xv := by
        rw [hxk, hk]
        rcases Int.natAbs_eq k with h | h
        · conv_rhs => rw [h, natCast_zsmul]
        · conv_rhs => rw [h, neg_zsmul, xKey_neg, natCast_zsmul]
      rw [this, hl] at hv'; cases hv'
    | some v =>
      simp only
      have hsub : subtract c p (negate c (negate c Q)) = .ok D := hD1
      rw [hsub]
      simp only
      obtain ⟨res1, h1, l1, m1, t1⟩ := diffTry_spec c hc hG hp'.2.2 haq D nOther i j res (v : Int)
      obtain ⟨res2, h2, l2, m2, t2⟩ := diffTry_spec c hc hG hp'.2.2 haq D nOther i j res1 (-(v : Int))
      rw [h1]; simp only; rw [h2]
      refine ⟨res2, rfl, by rw [l2, l1], fun k hk => m2 k (m1 k hk), ?_⟩
      intro size V htab hclose
      obtain ⟨_, k, hk, hlt⟩ := hclose
      -- v • G = ± (A - B)
      have hkey : xKey c (v • Gp c) = xKey c (toPoint c p - toPoint c Q) := by
        rw [(htab.1 _ _ hl).2, hxk]
      rcases eq_or_neg_of_xKey c hkey with hv | hv
      · -- first try hits
        obtain ⟨M, hM1, hM2⟩ := multiply_repR c hc hG hGr (v : Int)
        rw [natCast_zsmul, hv] at hM2
        have := repR_inj c hc hM2 hD2
        subst this
        obtain ⟨f1, f2⟩ := t1 hM1
        exact ⟨fun hi => m2 _ (f1 hi), fun a b => m2 _ (f2 a b)⟩
      · obtain ⟨M, hM1, hM2⟩ := multiply_repR c hc hG hGr (-(v : Int))
        rw [neg_zsmul, natCast_zsmul, hv, neg_neg] at hM2
        have := repR_inj c hc hM2 hD2
        subst this
        obtain ⟨f1, f2⟩ := t2 hM1
        exact ⟨fun hi => f1 (by rw [l1]; exact hi), fun a b => f2 a (by rw [l1]; exact b)⟩

variable {nOther : Nat} {points other : List Pt}

theorem diffScan_spec (hc : c.Good) (hG : onCurve c c.g = true) (hGr : Reduced c c.g)
    (look : Lookup) {p : Pt} (hp' : GoodPt c p) (i : Nat)
    (hL : ∀ Q ∈ other ++ points, GoodPt c Q) :
    ∀ (nqs : List Pt) (xs : List (Option Int)) (j : Nat) (res : List (Option Rel)),
    (∀ (k : Nat) (nq : Pt), nqs[k]? = some nq →
      ∃ Q, (other ++ points)[j + k]? = some Q ∧ nq = negate c Q) →
    List.Forall₂ (fun nq x => addX c p nq = .ok x) nqs xs →
    ∃ res', diffScan c look p nOther i nqs xs j res = .ok res' ∧ res'.length = res.length ∧
      (∀ k, Flagged res k → Flagged res' k) ∧
      (∀ size V, TableOK c look size V → ∀ (k : Nat) (Q : Pt), k < nqs.length →
        (other ++ points)[j + k]? = some Q → CloseG c size (toPoint c p) (toPoint c Q) →
        (i < res.length → Flagged res' i) ∧
        (nOther ≤ j + k → j + k - nOther < res.length → Flagged res' (j + k - nOther)))
  | [], _, j, res, _, hx => by
    cases hx
    exact ⟨res, rfl, rfl, fun k hk => hk, fun _ _ _ k Q hk => by simp at hk⟩
  | nq :: nqs, _, j, res, hn, hx => by
    cases hx with
    | cons hx0 hxs =>
      obtain ⟨Q0, hQ0, hnq0⟩ := hn 0 nq (by simp)
      rw [Nat.add_zero] at hQ0
      subst hnq0
      have hQ0g := hL Q0 (List.mem_of_getElem? hQ0)
      obtain ⟨res1, h1, l1, m1, t1⟩ := diffStep_spec c hc hG hGr look hp' hQ0g nOther i j res hx0
      obtain ⟨res2, h2, l2, m2, t2⟩ := diffScan_spec hc hG hGr look hp' i hL nqs _ (j + 1) res1
        (by
          intro k nq' hk
          obtain ⟨Q', a, b⟩ := hn (k + 1) nq' (by simpa using hk)
          exact ⟨Q', by rwa [show j + 1 + k = j + (k + 1) by omega], b⟩) hxs
      refine ⟨res2, by rw [diffScan, h1]; exact h2, by rw [l2, l1], fun k hk => m2 k (m1 k hk), ?_⟩
      intro size V htab k Q hk hQ hclose
      cases k with
      | zero =>
        rw [Nat.add_zero] at hQ ⊢
        rw [hQ0] at hQ; cases hQ
        obtain ⟨f1, f2⟩ := t1 size V htab hclose
        exact ⟨fun hi => m2 _ (f1 hi), fun a b => m2 _ (f2 a b)⟩
      | succ k =>
        obtain ⟨f1, f2⟩ := t2 size V htab k Q (by simpa using hk)
          (by rwa [show j + 1 + k = j + (k + 1) by omega]) hclose
        rw [show j + 1 + k = j + (k + 1) by omega, l1] at f2
        exact ⟨fun hi => f1 (by rw [l1]; exact hi), f2⟩

theorem batchAddX_total (hc : c.Good) {p : Pt} (hp' : onCurve c p = true) :
    ∀ (qs : List Pt), (∀ Q ∈ qs, onCurve c Q = true) →
    ∃ xs, batchAddX c p qs = .ok xs ∧ List.Forall₂ (fun nq x => addX c p nq = .ok x) qs xs := by
  intro qs hqs
  rw [batchAddX_eq_map]
  induction qs with
  | nil => exact ⟨[], rfl, .nil⟩
  | cons Q Qs ih =>
    obtain ⟨R, hR, _⟩ := add_refines c hc p Q hp' (hqs Q List.mem_cons_self)
    obtain ⟨xs, hxs, hf⟩ := ih (fun Q' h' => hqs Q' (List.mem_cons_of_mem _ h'))
    have hax : addX c p Q = .ok R.x? := by rw [addX, hR]
    exact ⟨R.x? :: xs, by rw [mapE, hax]; simp only; rw [hxs], .cons hax hf⟩

theorem diffOuter_spec (hc : c.Good) (hG : onCurve c c.g = true) (hGr : Reduced c c.g)
    (hno : other.length = nOther) (look : Lookup) (hL : ∀ Q ∈ other ++ points, GoodPt c Q) :
    ∀ (ps : List Pt) (i : Nat) (negated : List Pt) (res : List (Option Rel)),
    ps = points.drop i →
    negated = ((other ++ points).take (nOther + i)).map (negate c) →
    res.length = points.length →
    ∃ res', diffOuter c look nOther ps i negated res = .ok res' ∧ res'.length = points.length ∧
      (∀ k, Flagged res k → Flagged res' k) ∧
      (∀ size V, TableOK c look size V → ∀ (i' j : Nat) (P Q : Pt), i ≤ i' →
        points[i']? = some P → j < nOther + i' → (other ++ points)[j]? = some Q →
        CloseG c size (toPoint c P) (toPoint c Q) →
        Flagged res' i' ∧ (nOther ≤ j → Flagged res' (j - nOther)))
  | [], i, _, res, hps, _, hl => by
    refine ⟨res, rfl, hl, fun k hk => hk, ?_⟩
    intro size V _ i' j P Q hi hP
    exfalso
    have : points.length ≤ i := by
      have := congrArg List.length hps
      simp at this; omega
    rw [List.getElem?_eq_none (by omega)] at hP; cases hP
  | p :: ps, i, negated, res, hps, hneg, hl => by
    have hpi : points[i]? = some p := by
      have := congrArg List.head? hps
      simpa [List.head?_drop] using this.symm
    have hps' : ps = points.drop (i + 1) := by
      have := congrArg List.tail hps
      simpa [List.tail_drop] using this
    have hi : i < points.length := by
      by_contra hge; rw [List.getElem?_eq_none (by omega)] at hpi; cases hpi
    have hpg : GoodPt c p := hL p (List.mem_append_right _ (List.mem_of_getElem? hpi))
    have hnegmem : ∀ (k : Nat) (nq : Pt), negated[k]? = some nq →
        ∃ Q, (other ++ points)[0 + k]? = some Q ∧ nq = negate c Q := by
      intro k nq hk
      rw [hneg, List.getElem?_map] at hk
      cases hQ : ((other ++ points).take (nOther + i))[k]? with
      | none => rw [hQ] at hk; cases hk
      | some Q =>
        rw [hQ] at hk
        simp only [Option.map_some, Option.some.injEq] at hk
        rw [List.getElem?_take] at hQ
        split at hQ
        · exact ⟨Q, by simpa using hQ, hk.symm⟩
        · cases hQ
    have hnegon : ∀ Q ∈ negated, onCurve c Q = true := by
      intro nq hnq
      obtain ⟨k, hk⟩ := List.getElem?_of_mem hnq
      obtain ⟨Q, hQ, rfl⟩ := hnegmem k nq hk
      exact negate_onCurve c Q (hL Q (List.mem_of_getElem? hQ)).1
    obtain ⟨xs, hxs, hxf⟩ := batchAddX_total c hc hpg.1 negated hnegon
    obtain ⟨res1, h1, l1, m1, t1⟩ := diffScan_spec c hc hG hGr (nOther := nOther) look hpg i hL negated xs 0 res
      hnegmem hxf
    have hLp : (other ++ points)[nOther + i]? = some p := by
      rw [getElem?_L_right hno _ (by omega)]; simpa using hpi
    have hneglen : negated.length = nOther + i := by
      rw [hneg, List.length_map, List.length_take, List.length_append, hno]
      omega
    obtain ⟨res2, h2, l2, m2, t2⟩ := diffOuter_spec hc hG hGr hno look hL ps (i + 1)
      (negated ++ [negate c p]) res1 hps' (by
        rw [hneg, show nOther + (i + 1) = nOther + i + 1 by omega, List.take_succ, hLp]
        simp) (by rw [l1, hl])
    refine ⟨res2, by rw [diffOuter, hxs]; simp only; rw [h1]; exact h2, l2,
      fun k hk => m2 k (m1 k hk), ?_⟩
    intro size V htab i' j P Q hii hP hj hQ hclose
    rcases Nat.eq_or_lt_of_le hii with he | hlt
    · subst he
      rw [hpi] at hP; cases hP
      obtain ⟨f1, f2⟩ := t1 size V htab j Q (by omega) (by simpa using hQ) hclose
      rw [Nat.zero_add, hl] at f2
      exact ⟨m2 _ (f1 (by omega)), fun a => m2 _ (f2 a (by omega))⟩
    · exact t2 size V htab i' j P Q hlt hP hj hQ hclose

/-- **BatchDLOfDifferences totality and completeness** (C10). All points of the call finite, reduced
and on the curve; the state satisfies the table invariant. The call does not raise; the new state
satisfies the invariant with size `max(old, max_diff)` (unchanged when there is nothing to compare);
and every key `P` of `points` for which another key `Q` of the call (in `points` or
`other_points`, at another position) has `P - Q = k • G` with `P ≠ Q` and
`|k| < max(old table size, max_diff)` is flagged. -/
theorem batchDLOfDifferences_complete (hc : c.Good) (hG : onCurve c c.g = true)
    (hGr : Reduced c c.g) (st : EcState) (V : Nat) (hst : StateOK c st V) (points other : List Pt)
    (hL : ∀ Q ∈ other ++ points, GoodPt c Q) (maxDiff m : Nat)
    (hm : st.tableSize < maxDiff → 1 ≤ m) :
    ∃ res st', batchDLOfDifferences c st points other maxDiff m = .ok (res, st') ∧
      res.length = points.length ∧
      (∃ V', StateOK c st' V') ∧
      (st'.tableSize = st.tableSize ∨ st'.tableSize = max st.tableSize maxDiff) ∧
      ∀ (i j : Nat) (P Q : Pt), points[i]? = some P → (other ++ points)[j]? = some Q →
        j ≠ other.length + i →
        CloseG c (max st.tableSize maxDiff) (toPoint c P) (toPoint c Q) → Flagged res i := by
  unfold batchDLOfDifferences batchDLOfDifferencesG
  by_cases hact : points.isEmpty ∨ points.length + other.length < 2
  · rw [if_pos (by simpa using hact)]
    refine ⟨_, st, rfl, by simp, ⟨V, hst⟩, .inl rfl, ?_⟩
    intro i j P Q hP hQ hj
    exfalso
    have hi : i < points.length := by
      by_contra hge; rw [List.getElem?_eq_none (by omega)] at hP; cases hP
    have hjl : j < (other ++ points).length := by
      by_contra hge; rw [List.getElem?_eq_none (by omega)] at hQ; cases hQ
    rw [List.length_append] at hjl
    rcases hact with h | h
    · rw [List.isEmpty_iff] at h; subst h; simp at hi
    · omega
  · rw [if_neg (by simpa using hact)]
    obtain ⟨st1, h1, hst1, hsz, _⟩ := ensureTable_spec c hc hG st V hst maxDiff m hm
    rw [h1]
    simp only
    obtain ⟨res, h2, l2, _, t2⟩ := diffOuter_spec c hc hG hGr (nOther := other.length) rfl
      (listImpl.get? st1.table) hL points 0 (other.map (negate c))
      (List.replicate points.length none) (by simp) (by simp) (by simp)
    rw [h2]
    refine ⟨res, st1, rfl, l2, ⟨_, hst1⟩, .inr hsz, ?_⟩
    intro i j P Q hP hQ hj hclose
    have htab : TableOK c (listImpl.get? st1.table) (max st.tableSize maxDiff)
        (rangeAfter st V maxDiff m) := by rw [← hsz]; exact hst1
    rcases Nat.lt_or_gt_of_ne hj with hlt | hgt
    · exact (t2 _ _ htab i j P Q (Nat.zero_le _) hP hlt hQ hclose).1
    · -- Q is a later key of `points`: the pair is scanned in Q's round, which also flags P
      have hQp : points[j - other.length]? = some Q := by
        rw [← getElem?_L_right rfl j (by omega)]; exact hQ
      have hLp : (other ++ points)[other.length + i]? = some P := by
        rw [getElem?_L_right rfl _ (by omega)]; simpa using hP
      have hclose' : CloseG c (max st.tableSize maxDiff) (toPoint c Q) (toPoint c P) := by
        obtain ⟨hne, k, hk, hlt⟩ := hclose
        exact ⟨fun h => hne h.symm, -k, by rw [neg_zsmul, ← hk, neg_sub], by simpa using hlt⟩
      have := (t2 _ _ htab (j - other.length) (other.length + i) Q P (Nat.zero_le _) hQp (by omega)
        hLp hclose').2 (by omega)
      simpa using this

end group
end Paranoid.Bsgs
